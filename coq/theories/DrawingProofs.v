(* DrawingProofs.v — proofs about the drawing-edit model Drawing.v (property C16).
   Everything in Section Generic holds for EVERY record of geometric oracles [G : Geo F]. *)
From Coq Require Import ZArith List Bool Arith Lia Reals Lra Floats.
From XF Require Import Arith Drawing.
Import ListNotations.

(* ------------------------------------------------------------------------------------- *)
(* structural well-formedness of the segment list, and absence of duplicated segments *)
Definition seg_ok (N : nat) (s : seg) : Prop := s0 s < N /\ s1 s < N /\ s0 s <> s1 s.
Definition same_seg (s t : seg) : Prop :=
  (s0 s = s0 t /\ s1 s = s1 t) \/ (s0 s = s1 t /\ s1 s = s0 t).
Fixpoint NoDupSeg (l : list seg) : Prop :=
  match l with
  | [] => True
  | s :: r => Forall (fun t => ~ same_seg s t) r /\ NoDupSeg r
  end.
Definition ends (l : list seg) : list (nat * nat) := map (fun s => (s0 s, s1 s)) l.

Lemma seg_ok_mono N M s : N <= M -> seg_ok N s -> seg_ok M s.
Proof. unfold seg_ok; lia. Qed.

Lemma same_seg_refl s : same_seg s s.
Proof. left; auto. Qed.
Lemma same_seg_sym s t : same_seg s t -> same_seg t s.
Proof. unfold same_seg; intuition. Qed.

Lemma Forall_ok_ends N l l' : ends l = ends l' -> Forall (seg_ok N) l -> Forall (seg_ok N) l'.
Proof.
  revert l'; induction l as [|a l IH]; intros [|b l'] E H; try discriminate; auto.
  cbn in E. injection E as E0 E1 E. inversion H; subst.
  constructor; [|eapply IH; eauto]. unfold seg_ok in *. rewrite <- E0, <- E1. assumption.
Qed.

Lemma NoDupSeg_ends l l' : ends l = ends l' -> NoDupSeg l -> NoDupSeg l'.
Proof.
  revert l'; induction l as [|a l IH]; intros [|b l'] E H; try discriminate; auto.
  cbn in E. injection E as E0 E1 E. destruct H as [H1 H2]. split; [|eapply IH; eauto].
  clear IH H2. revert l' E. induction l as [|c l IH]; intros [|c' l'] E; try discriminate; auto.
  cbn in E. injection E as F0 F1 E. inversion H1; subst. constructor; [|eapply IH; eauto].
  unfold same_seg in *. rewrite <- E0, <- E1, <- F0, <- F1. assumption.
Qed.

Lemma NoDupSeg_app l1 l2 :
  NoDupSeg (l1 ++ l2) <->
  NoDupSeg l1 /\ NoDupSeg l2 /\ (forall a b, In a l1 -> In b l2 -> ~ same_seg a b).
Proof.
  induction l1 as [|a l1 IH]; cbn.
  - intuition.
  - rewrite Forall_app, IH. split.
    + intros [[H1 H2] [H3 [H4 H5]]]. repeat split; auto.
      intros x b [->|Hx] Hb; [|eauto]. rewrite Forall_forall in H2. auto.
    + intros [[H1 H2] [H3 H4]]. repeat split; auto.
      rewrite Forall_forall. intros b Hb. apply H4; auto.
Qed.

Lemma NoDupSeg_In l a b : NoDupSeg l -> In a l -> In b l -> same_seg a b -> a = b.
Proof.
  induction l as [|c l IH]; cbn; [tauto|]. intros [H1 H2] Ha Hb S.
  rewrite Forall_forall in H1.
  destruct Ha as [->|Ha], Hb as [->|Hb]; auto.
  - exfalso. eapply H1; eauto.
  - exfalso. eapply H1; eauto. apply same_seg_sym; auto.
Qed.

Lemma NoDupSeg_filter f l : NoDupSeg l -> NoDupSeg (filter f l).
Proof.
  induction l as [|a l IH]; cbn; auto. intros [H1 H2]. destruct (f a); cbn; auto.
  split; auto. rewrite Forall_forall in *. intros t Ht. apply filter_In in Ht. apply H1, Ht.
Qed.

Lemma NoDupSeg_map f l :
  (forall a b, In a l -> In b l -> ~ same_seg a b -> ~ same_seg (f a) (f b)) ->
  NoDupSeg l -> NoDupSeg (map f l).
Proof.
  induction l as [|a l IH]; cbn; auto. intros Hf [H1 H2]. split.
  - rewrite Forall_forall in *. intros t Ht. apply in_map_iff in Ht. destruct Ht as [b [<- Hb]].
    apply Hf; auto.
  - apply IH; auto.
Qed.

Lemma seg_eq_dec : forall a b : seg, {a = b} + {a <> b}.
Proof. decide equality; try apply Nat.eq_dec; apply Bool.bool_dec. Qed.

Section Generic.
  Context {F : Type}.
  Variable G : Geo F.
  Variable fx : bool.   (* Drawing.v: false = the code as it stands, true = with findings/C16-F1-fix.diff *)
  Local Notation pt := (F * F)%type.
  Local Notation nodeT := (@node F).
  Local Notation labT := (@lab F).
  Local Notation drawingT := (@drawing F).
  Local Notation opT := (@op F).

  Definition NN (st : drawingT) : nat := length (d_nodes st).
  Definition WF (st : drawingT) : Prop := Forall (seg_ok (NN st)) (d_segs st).
  (* the duplicate-freeness invariant, up to the ghost flag of a double split *)
  Definition Inv2 (st : drawingT) : Prop :=
    WF st /\ (d_dsplit st = true \/ NoDupSeg (d_segs st)).

  Lemma WF_transfer (st st' : drawingT) :
    NN st <= NN st' -> ends (d_segs st) = ends (d_segs st') -> WF st -> WF st'.
  Proof.
    unfold WF. intros HN E H. eapply Forall_ok_ends; eauto.
    eapply Forall_impl; [|exact H]. intros s. apply seg_ok_mono; auto.
  Qed.

  (* ---- small list facts ---------------------------------------------------------------- *)
  Lemma upd_nth_length {T} (l : list T) i f : length (upd_nth l i f) = length l.
  Proof. revert i; induction l; intros [|i]; cbn; auto. Qed.

  Lemma ends_upd_nth l i f :
    (forall s, s0 (f s) = s0 s /\ s1 (f s) = s1 s) -> ends (upd_nth l i f) = ends l.
  Proof.
    intros Hf. revert i; induction l as [|a l IH]; intros [|i]; cbn; auto.
    - destruct (Hf a) as [-> ->]. reflexivity.
    - f_equal. apply IH.
  Qed.

  Lemma ends_map_same (f : seg -> seg) l :
    (forall s, s0 (f s) = s0 s /\ s1 (f s) = s1 s) -> ends (map f l) = ends l.
  Proof.
    intros Hf. induction l as [|a l IH]; cbn; auto. destruct (Hf a) as [-> ->]. f_equal. apply IH.
  Qed.

  (* ---- unselectAll, toggles, deleteSelectedSegments ------------------------------------- *)
  Lemma unselectAll_NN (st : drawingT) : NN (unselectAll st) = NN st.
  Proof. unfold NN, unselectAll; cbn. apply map_length. Qed.
  Lemma unselectAll_ends (st : drawingT) : ends (d_segs (unselectAll st)) = ends (d_segs st).
  Proof. unfold unselectAll; cbn. apply ends_map_same. intros; cbn; auto. Qed.
  Lemma unselectAll_dsplit (st : drawingT) : d_dsplit (unselectAll st) = d_dsplit st.
  Proof. reflexivity. Qed.

  Lemma WF_unselectAll (st : drawingT) : WF st -> WF (unselectAll st).
  Proof.
    apply WF_transfer; [rewrite unselectAll_NN; auto | symmetry; apply unselectAll_ends].
  Qed.

  Lemma Inv2_ends (st st' : drawingT) :
    NN st <= NN st' -> ends (d_segs st) = ends (d_segs st') -> d_dsplit st' = d_dsplit st ->
    Inv2 st -> Inv2 st'.
  Proof.
    intros HN E D [H1 H2]. split; [eapply WF_transfer; eauto|].
    rewrite D. destruct H2; [left; auto|right; eapply NoDupSeg_ends; eauto].
  Qed.

  Lemma Inv2_unselectAll (st : drawingT) : Inv2 st -> Inv2 (unselectAll st).
  Proof.
    apply Inv2_ends; [rewrite unselectAll_NN; auto | symmetry; apply unselectAll_ends | reflexivity].
  Qed.

  Lemma toggle_seg_ends (st : drawingT) k : ends (d_segs (toggle_seg st k)) = ends (d_segs st).
  Proof. unfold toggle_seg; cbn. apply ends_upd_nth. intros; cbn; auto. Qed.

  Lemma Inv2_toggle_seg (st : drawingT) k : Inv2 st -> Inv2 (toggle_seg st k).
  Proof. apply Inv2_ends; [apply Nat.le_refl | symmetry; apply toggle_seg_ends | reflexivity]. Qed.

  Lemma Inv2_deleteSelectedSegments (st : drawingT) : Inv2 st -> Inv2 (deleteSelectedSegments st).
  Proof.
    intros [H1 H2]. split.
    - unfold WF, deleteSelectedSegments in *; cbn. apply Forall_forall. intros s Hs.
      apply filter_In in Hs. rewrite Forall_forall in H1. apply H1, Hs.
    - cbn. destruct H2; [left; auto|right; apply NoDupSeg_filter; auto].
  Qed.

  (* ---- closestNode returns an index of the list ------------------------------------------ *)
  Lemma argmin_from_bound ds : forall i best d0 M,
    best < M -> i + length ds <= M -> argmin_from G ds i best d0 < M.
  Proof.
    induction ds as [|d ds IH]; cbn; intros; auto.
    destruct (g_lt G d d0); apply IH; lia.
  Qed.

  Lemma argmin_bound ds : ds <> [] -> argmin G ds < length ds.
  Proof.
    destruct ds as [|d ds]; [congruence|]. intros _. unfold argmin.
    apply argmin_from_bound; cbn; lia.
  Qed.

  Lemma closestNode_bound (st : drawingT) q : d_nodes st <> [] -> closestNode G st q < NN st.
  Proof.
    intros H. unfold closestNode, NN. rewrite <- (map_length (fun n => g_dist G (npt n) q)).
    apply argmin_bound. destruct (d_nodes st); [congruence|discriminate].
  Qed.

  Lemma closestNode_empty (st : drawingT) q : d_nodes st = [] -> closestNode G st q = 0.
  Proof. intros H. unfold closestNode. rewrite H. reflexivity. Qed.

  Lemma closest_pair (st : drawingT) q1 q2 :
    closestNode G st q1 = closestNode G st q2 \/
    (closestNode G st q1 < NN st /\ closestNode G st q2 < NN st).
  Proof.
    destruct (d_nodes st) eqn:E.
    - left. rewrite !closestNode_empty; auto.
    - right. split; apply closestNode_bound; congruence.
  Qed.

  (* ---- addNode ----------------------------------------------------------------------------- *)
  Definition addNode_added (st : drawingT) (nd : nodeT) (d : F) : drawingT :=
    let k := length (d_nodes st) in
    let nodes' := d_nodes st ++ [nd] in
    let hit := on_seg G nodes' (npt nd) d in
    mkDrawing nodes'
      (map (fun s => if hit s then sset1 k s else s) (d_segs st) ++ map (sset0 k) (filter hit (d_segs st)))
      (d_labs st) (d_oof st) (d_dsplit st || any_share (filter hit (d_segs st))).

  Lemma addNode_cases (st : drawingT) nd d :
    (addNode G st nd d = st /\
     (existsb (near_node G (npt nd) d) (d_nodes st) = true \/ existsb (near_lab G (npt nd) d) (d_labs st) = true)) \/
    (addNode G st nd d = addNode_added st nd d /\
     existsb (near_node G (npt nd) d) (d_nodes st) = false /\
     existsb (near_lab G (npt nd) d) (d_labs st) = false).
  Proof.
    unfold addNode, addNode_added.
    destruct (existsb (near_node G (npt nd) d) (d_nodes st)); [left; auto|].
    destruct (existsb (near_lab G (npt nd) d) (d_labs st)); [left; auto|].
    right; auto.
  Qed.

  Lemma seg_share_sym s t : seg_share s t = seg_share t s.
  Proof.
    unfold seg_share.
    rewrite (Nat.eqb_sym (s0 s) (s0 t)), (Nat.eqb_sym (s0 s) (s1 t)),
            (Nat.eqb_sym (s1 s) (s0 t)), (Nat.eqb_sym (s1 s) (s1 t)).
    destruct (s0 t =? s0 s), (s1 t =? s0 s), (s0 t =? s1 s), (s1 t =? s1 s); reflexivity.
  Qed.

  Lemma any_share_false l a b :
    any_share l = false -> In a l -> In b l -> a <> b -> seg_share a b = false.
  Proof.
    induction l as [|c l IH]; cbn; [tauto|]. intros H Ha Hb N.
    apply orb_false_iff in H. destruct H as [H1 H2].
    assert (E : forall t, In t l -> seg_share c t = false).
    { intros t Ht. destruct (seg_share c t) eqn:E; auto.
      assert (existsb (seg_share c) l = true) by (apply existsb_exists; eauto). congruence. }
    destruct Ha as [->|Ha], Hb as [->|Hb]; auto; try congruence.
    rewrite seg_share_sym. auto.
  Qed.

  Lemma seg_share_false s t :
    seg_share s t = false -> s0 s <> s0 t /\ s0 s <> s1 t /\ s1 s <> s0 t /\ s1 s <> s1 t.
  Proof.
    unfold seg_share. intros H. repeat (apply orb_false_iff in H; destruct H as [H ?]).
    repeat match goal with H : (_ =? _) = false |- _ => apply Nat.eqb_neq in H end. auto.
  Qed.

  Lemma Inv2_addNode_added (st : drawingT) nd d : Inv2 st -> Inv2 (addNode_added st nd d).
  Proof.
    intros [W D]. unfold addNode_added.
    set (k := length (d_nodes st)). set (nodes' := d_nodes st ++ [nd]).
    set (hit := on_seg G nodes' (npt nd) d).
    assert (Wk : forall s, In s (d_segs st) -> s0 s < k /\ s1 s < k /\ s0 s <> s1 s).
    { intros s Hs. unfold WF in W. rewrite Forall_forall in W. apply W, Hs. }
    split.
    - unfold WF, NN; cbn. unfold nodes'. rewrite app_length; cbn. fold k.
      apply Forall_app. split; apply Forall_forall; intros s Hs; apply in_map_iff in Hs;
        destruct Hs as [a [<- Ha]].
      + destruct (Wk a Ha) as (A & B & C). destruct (hit a); unfold seg_ok; cbn; lia.
      + apply filter_In in Ha. destruct (Wk a (proj1 Ha)) as (A & B & C). unfold seg_ok; cbn; lia.
    - cbn. destruct D as [D|D]; [left; rewrite D; auto|].
      destruct (any_share (filter hit (d_segs st))) eqn:AS; [left; apply orb_true_r|right].
      assert (SH : forall a b, In a (d_segs st) -> In b (d_segs st) -> hit a = true -> hit b = true ->
                   a <> b -> s0 a <> s0 b /\ s0 a <> s1 b /\ s1 a <> s0 b /\ s1 a <> s1 b).
      { intros a b Ha Hb Ta Tb N. apply seg_share_false.
        eapply any_share_false; eauto; apply filter_In; auto. }
      apply NoDupSeg_app. repeat split.
      + apply NoDupSeg_map; auto. intros a b Ha Hb N S.
        assert (AB : a <> b) by (intros ->; apply N, same_seg_refl).
        destruct (Wk a Ha) as (A1 & A2 & A3), (Wk b Hb) as (B1 & B2 & B3).
        destruct (hit a) eqn:Ta, (hit b) eqn:Tb; unfold same_seg in *; cbn in *.
        * destruct (SH a b Ha Hb Ta Tb AB) as (? & ? & ? & ?). lia.
        * lia.
        * lia.
        * tauto.
      + apply NoDupSeg_map; [|apply NoDupSeg_filter; auto]. intros a b Ha Hb N S.
        apply filter_In in Ha, Hb. destruct Ha as [Ha Ta], Hb as [Hb Tb].
        assert (AB : a <> b) by (intros ->; apply N, same_seg_refl).
        destruct (Wk a Ha) as (A1 & A2 & A3), (Wk b Hb) as (B1 & B2 & B3).
        destruct (SH a b Ha Hb Ta Tb AB) as (? & ? & ? & ?).
        unfold same_seg in *; cbn in *. lia.
      + intros x y Hx Hy S. apply in_map_iff in Hx, Hy.
        destruct Hx as [a [<- Ha]], Hy as [b [<- Hb]]. apply filter_In in Hb. destruct Hb as [Hb Tb].
        destruct (Wk a Ha) as (A1 & A2 & A3), (Wk b Hb) as (B1 & B2 & B3).
        destruct (hit a) eqn:Ta; unfold same_seg in S; cbn in S; [|lia].
        assert (E : s0 a = s1 b) by lia.
        destruct (seg_eq_dec a b) as [->|AB]; [lia|].
        destruct (SH a b Ha Hb Ta Tb AB) as (? & ? & ? & ?). lia.
  Qed.

  (* how a later state extends an earlier one: nodes are only appended, the ghost flag is sticky *)
  Definition ext (st st' : drawingT) : Prop :=
    NN st <= NN st' /\ (d_dsplit st = true -> d_dsplit st' = true).
  Lemma ext_refl (st : drawingT) : ext st st.
  Proof. split; auto. Qed.
  Lemma ext_trans (a b c : drawingT) : ext a b -> ext b c -> ext a c.
  Proof. unfold ext. intros [? ?] [? ?]. split; [lia|auto]. Qed.

  (* segments of a later state: either already there, or touching a node that is new *)
  Definition fresh_or_old (N0 : nat) (old l : list seg) : Prop :=
    forall s, In s l -> In s old \/ N0 <= s0 s \/ N0 <= s1 s.

  Lemma ext_addNode_added (st : drawingT) nd d : ext st (addNode_added st nd d).
  Proof.
    unfold ext, NN, addNode_added; cbn. rewrite app_length; cbn. split; [lia|].
    intros ->. reflexivity.
  Qed.

  Lemma Inv2_addNode (st : drawingT) nd d : Inv2 st -> Inv2 (addNode G st nd d).
  Proof.
    intros H. destruct (addNode_cases st nd d) as [[-> _]|[-> _]]; auto. apply Inv2_addNode_added; auto.
  Qed.
  Lemma ext_addNode (st : drawingT) nd d : ext st (addNode G st nd d).
  Proof.
    destruct (addNode_cases st nd d) as [[-> _]|[-> _]]; [apply ext_refl|apply ext_addNode_added].
  Qed.
  Lemma fresh_addNode (st : drawingT) nd d N0 old :
    N0 <= NN st -> fresh_or_old N0 old (d_segs st) -> fresh_or_old N0 old (d_segs (addNode G st nd d)).
  Proof.
    intros HN H. destruct (addNode_cases st nd d) as [[-> _]|[-> _]]; auto.
    unfold addNode_added; cbn. intros s Hs. apply in_app_or in Hs.
    destruct Hs as [Hs|Hs]; apply in_map_iff in Hs; destruct Hs as [a [<- Ha]].
    - destruct (on_seg G (d_nodes st ++ [nd]) (npt nd) d a); [|auto].
      right; right; cbn. exact HN.
    - right; left; cbn. exact HN.
  Qed.

  Lemma fold_addNode {X} (mk : X -> nodeT) (t : F) (xs : list X) : forall (st : drawingT) N0 old,
    Inv2 st -> N0 <= NN st -> fresh_or_old N0 old (d_segs st) ->
    let st1 := fold_left (fun s x => addNode G s (mk x) t) xs st in
    Inv2 st1 /\ ext st st1 /\ fresh_or_old N0 old (d_segs st1).
  Proof.
    induction xs as [|x xs IH]; cbn; intros st N0 old I HN Fr.
    - split; [auto|split; [apply ext_refl|auto]].
    - pose proof (ext_addNode st (mk x) t) as E.
      destruct (IH (addNode G st (mk x) t) N0 old) as (A & B & C).
      + apply Inv2_addNode; auto.
      + destruct E; lia.
      + apply fresh_addNode; auto.
      + split; [auto|split; [eapply ext_trans; eauto|auto]].
  Qed.

  (* ---- addSegment --------------------------------------------------------------------------- *)
  Definition seg_proto (n0 n1 : nat) (par : option seg) : seg :=
    match par with Some p => mkSeg n0 n1 false (sgrp p) (sprop p) | None => new_seg n0 n1 end.
  Definition as_tol (st : drawingT) (tol : F) : F :=
    if g_is0 G tol then auto_tol G (d_nodes st) else tol.
  Definition as_st1 (st : drawingT) (n0 n1 : nat) (tol : F) : drawingT :=
    fold_left (fun s p => addNode G s (new_node p) (as_tol st tol)) (intersections G st n0 n1 (d_segs st)) st.
  Definition as_st3 (st : drawingT) (n0 n1 : nat) (par : option seg) (tol : F) : drawingT :=
    let st1 := as_st1 st n0 n1 tol in
    unselectAll (set_segs st1 (d_segs st1 ++ [seg_proto n0 n1 par])).
  Definition as_dmin (st : drawingT) (n0 n1 : nat) (par : option seg) (tol : F) : F :=
    let nodes := d_nodes (as_st3 st n0 n1 par tol) in
    if g_is0 G tol then g_dmin G (g_cabs G (pt_at G nodes n1) (pt_at G nodes n0)) else tol.
  Definition as_par' (n0 n1 : nat) (par : option seg) : option seg :=
    match par with Some _ => Some (seg_proto n0 n1 par) | None => None end.
  Definition dup_in (n0 n1 : nat) (l : list seg) : bool :=
    existsb (fun s => (Nat.eqb (s0 s) n0 && Nat.eqb (s1 s) n1) || (Nat.eqb (s0 s) n1 && Nat.eqb (s1 s) n0)) l.

  Lemma addSegment_S fuel (st : drawingT) n0 n1 par tol :
    addSegment G (S fuel) st n0 n1 par tol =
    if Nat.eqb n0 n1 then st
    else if dup_in n0 n1 (d_segs st) then st
    else
      let st3 := as_st3 st n0 n1 par tol in
      let dmin := as_dmin st n0 n1 par tol in
      match find_first (passes_through G (d_nodes st3) n0 n1 dmin) 0 (length (d_nodes st3)) with
      | None => st3
      | Some i =>
          let st4 := deleteSelectedSegments (toggle_seg st3 (length (d_segs st3) - 1)) in
          addSegment G fuel (addSegment G fuel st4 n0 i (as_par' n0 n1 par) dmin) i n1 (as_par' n0 n1 par) dmin
      end.
  Proof. destruct par; reflexivity. Qed.

  Lemma find_first_spec f : forall n i j, find_first f i n = Some j -> i <= j < i + n /\ f j = true.
  Proof.
    induction n as [|n IH]; cbn; intros i j H; [discriminate|].
    destruct (f i) eqn:E.
    - injection H as <-. split; [lia|auto].
    - apply IH in H. split; [lia|tauto].
  Qed.

  Lemma seg_proto_ends n0 n1 par : s0 (seg_proto n0 n1 par) = n0 /\ s1 (seg_proto n0 n1 par) = n1.
  Proof. destruct par; cbn; auto. Qed.

  Lemma dup_in_false n0 n1 l s :
    dup_in n0 n1 l = false -> In s l -> ~ ((s0 s = n0 /\ s1 s = n1) \/ (s0 s = n1 /\ s1 s = n0)).
  Proof.
    unfold dup_in. intros H Hs C.
    assert (existsb (fun s => (Nat.eqb (s0 s) n0 && Nat.eqb (s1 s) n1) || (Nat.eqb (s0 s) n1 && Nat.eqb (s1 s) n0)) l = true).
    { apply existsb_exists. exists s. split; auto.
      destruct C as [[-> ->]|[-> ->]]; rewrite !Nat.eqb_refl; cbn; auto. apply orb_true_r. }
    congruence.
  Qed.

  Lemma Inv2_as_st3 (st : drawingT) n0 n1 par tol :
    Inv2 st -> n0 <> n1 -> n0 < NN st -> n1 < NN st -> dup_in n0 n1 (d_segs st) = false ->
    Inv2 (as_st3 st n0 n1 par tol) /\ ext st (as_st3 st n0 n1 par tol).
  Proof.
    intros I Hne H0 H1 Hd. unfold as_st3.
    destruct (fold_addNode (@new_node F) (as_tol st tol) (intersections G st n0 n1 (d_segs st)) st (NN st) (d_segs st))
      as (A & B & C); auto.
    { intros s Hs; auto. }
    fold (as_st1 st n0 n1 tol) in A, B, C. set (st1 := as_st1 st n0 n1 tol) in *.
    destruct (seg_proto_ends n0 n1 par) as [P0 P1].
    assert (I2 : Inv2 (set_segs st1 (d_segs st1 ++ [seg_proto n0 n1 par]))).
    { destruct A as [W D]. destruct B as [BN BD]. split.
      - unfold WF in *. cbn. apply Forall_app. split; [exact W|]. constructor; [|constructor].
        unfold seg_ok. rewrite P0, P1. unfold NN in *. cbn. lia.
      - cbn. destruct D as [D|D]; [left; auto|right].
        apply NoDupSeg_app. repeat split; cbn; auto.
        intros a b Ha [<-|[]] S. unfold same_seg in S. rewrite P0, P1 in S.
        destruct (C a Ha) as [Hold|Hnew].
        + eapply dup_in_false; eauto.
        + lia. }
    split.
    - apply Inv2_unselectAll; auto.
    - destruct B as [BN BD]. split; [rewrite unselectAll_NN; exact BN|exact BD].
  Qed.

  Lemma addSegment_Inv2 : forall fuel (st : drawingT) n0 n1 par tol,
    Inv2 st -> (n0 = n1 \/ (n0 < NN st /\ n1 < NN st)) ->
    Inv2 (addSegment G fuel st n0 n1 par tol) /\ ext st (addSegment G fuel st n0 n1 par tol).
  Proof.
    induction fuel as [|fuel IH]; intros st n0 n1 par tol I H.
    - cbn. split; [destruct I as [W D]; split; auto|split; auto].
    - rewrite addSegment_S. destruct (Nat.eqb n0 n1) eqn:E; [split; [auto|apply ext_refl]|].
      apply Nat.eqb_neq in E. destruct H as [H|[H0 H1]]; [congruence|].
      destruct (dup_in n0 n1 (d_segs st)) eqn:Hd; [split; [auto|apply ext_refl]|].
      destruct (Inv2_as_st3 st n0 n1 par tol I E H0 H1 Hd) as [I3 E3].
      cbv zeta. set (st3 := as_st3 st n0 n1 par tol) in *. set (dmin := as_dmin st n0 n1 par tol).
      destruct (find_first (passes_through G (d_nodes st3) n0 n1 dmin) 0 (length (d_nodes st3))) as [i|] eqn:FF; [|auto].
      apply find_first_spec in FF. destruct FF as [Hi _].
      set (st4 := deleteSelectedSegments (toggle_seg st3 (length (d_segs st3) - 1))).
      assert (I4 : Inv2 st4) by (apply Inv2_deleteSelectedSegments, Inv2_toggle_seg; auto).
      assert (E4 : ext st st4) by (destruct E3 as [A B]; split; [exact A|exact B]).
      assert (N4 : NN st4 = NN st3) by reflexivity.
      destruct (IH st4 n0 i (as_par' n0 n1 par) dmin I4) as [I5 E5].
      { right. destruct E3 as [A _]. rewrite N4. unfold NN in *. lia. }
      destruct (IH (addSegment G fuel st4 n0 i (as_par' n0 n1 par) dmin) i n1 (as_par' n0 n1 par) dmin I5) as [I6 E6].
      { right. destruct E3 as [A _], E5 as [B _]. rewrite N4 in B. unfold NN in *. lia. }
      split; auto. eapply ext_trans; [exact E4|]. eapply ext_trans; eauto.
  Qed.

  (* ---- addBlockLabel and the label deletions touch only the label list ---------------------- *)
  Lemma addBlockLabel_frame (st : drawingT) lb d :
    d_nodes (addBlockLabel G st lb d) = d_nodes st /\ d_segs (addBlockLabel G st lb d) = d_segs st /\
    d_dsplit (addBlockLabel G st lb d) = d_dsplit st /\ d_oof (addBlockLabel G st lb d) = d_oof st.
  Proof.
    unfold addBlockLabel.
    destruct (existsb (near_node G (lpt lb) d) (d_nodes st)); auto.
    destruct (existsb (fun s => g_lt G (seg_dist G (d_nodes st) (lpt lb) s) d) (d_segs st)); auto.
    destruct (existsb (near_lab G (lpt lb) d) (d_labs st)); auto.
  Qed.

  Lemma Inv2_frame (st st' : drawingT) :
    d_nodes st' = d_nodes st -> d_segs st' = d_segs st -> d_dsplit st' = d_dsplit st -> Inv2 st -> Inv2 st'.
  Proof.
    intros A B C. apply Inv2_ends; [unfold NN; rewrite A; auto|rewrite B; auto|auto].
  Qed.
  Lemma ext_frame (st st' : drawingT) :
    d_nodes st' = d_nodes st -> d_dsplit st' = d_dsplit st -> ext st st'.
  Proof. intros A C. unfold ext, NN. rewrite A, C. auto. Qed.

  Lemma fold_addBlockLabel d (ls : list labT) : forall (st : drawingT),
    let r := fold_left (fun s lb => addBlockLabel G s lb d) ls st in
    d_nodes r = d_nodes st /\ d_segs r = d_segs st /\ d_dsplit r = d_dsplit st.
  Proof.
    induction ls as [|l ls IH]; cbn; intros st; auto.
    destruct (IH (addBlockLabel G st l d)) as (A & B & C).
    destruct (addBlockLabel_frame st l d) as (A' & B' & C' & _).
    rewrite A, B, C. auto.
  Qed.

  (* ---- enforcePSLG re-establishes the invariant from ANY drawing ---------------------------- *)
  Lemma fold_addSegment_Inv2 fuel d (pp : seg -> pt * pt) (ls : list seg) : forall (st : drawingT),
    Inv2 st ->
    let r := fold_left (fun s ln => addSegment G fuel s (closestNode G s (fst (pp ln))) (closestNode G s (snd (pp ln)))
                                               (Some ln) d) ls st in
    Inv2 r /\ ext st r.
  Proof.
    induction ls as [|l ls IH]; cbn; intros st I; [split; [auto|apply ext_refl]|].
    destruct (addSegment_Inv2 fuel st (closestNode G st (fst (pp l))) (closestNode G st (snd (pp l))) (Some l) d I)
      as [I1 E1]; [apply closest_pair|].
    destruct (IH _ I1) as [I2 E2]. split; auto. eapply ext_trans; eauto.
  Qed.

  Lemma enforcePSLG_Inv2 fuel (st : drawingT) :
    Inv2 (enforcePSLG G fuel st) /\ (d_dsplit st = true -> d_dsplit (enforcePSLG G fuel st) = true).
  Proof.
    unfold enforcePSLG.
    set (d := auto_tol G (d_nodes st)).
    set (st0 := mkDrawing [] [] [] (d_oof st) (d_dsplit st)).
    assert (I0 : Inv2 st0) by (split; [constructor|right; exact I]).
    destruct (fold_addNode (fun nd : nodeT => nd) d (d_nodes st) st0 0 [] I0) as (I1 & E1 & _).
    { apply Nat.le_0_l. } { intros s []. }
    set (st1 := fold_left (fun s nd => addNode G s nd d) (d_nodes st) st0) in *.
    destruct (fold_addSegment_Inv2 fuel d
                (fun ln => (pt_at G (d_nodes st) (s0 ln), pt_at G (d_nodes st) (s1 ln))) (d_segs st) st1 I1) as [I2 E2].
    cbn [fst snd] in I2, E2.
    match type of I2 with Inv2 ?x => set (st2 := x) in * end.
    destruct (fold_addBlockLabel d (d_labs st) st2) as (A & B & C).
    match type of A with d_nodes ?x = _ => set (st3 := x) in * end.
    assert (I3 : Inv2 st3) by (eapply Inv2_frame; eauto).
    split; [apply Inv2_unselectAll; auto|].
    intros D. rewrite unselectAll_dsplit, C. apply E2, E1. exact D.
  Qed.

  (* ---- deleteSelectedNodes --------------------------------------------------------------------
     The C++ toggles the selection of the segments that contain the node and then deletes the
     selected segments: a segment that was ALREADY selected is thereby un-selected and survives
     with a stale index.  The invariant is preserved exactly when that cannot happen. *)
  Definition del_guard (st : drawingT) : Prop :=
    forall s, In s (d_segs st) -> ssel s = true ->
      nsel (node_at G (d_nodes st) (s0 s)) = false /\ nsel (node_at G (d_nodes st) (s1 s)) = false.
  Definition segs_unselected (st : drawingT) : Prop := forall s, In s (d_segs st) -> ssel s = false.

  Lemma remove_nth_length {T} (l : list T) i : i < length l -> length (remove_nth l i) = length l - 1.
  Proof.
    revert i; induction l as [|a l IH]; intros [|i] H; cbn in *; try lia.
    rewrite IH by lia. lia.
  Qed.

  Lemma delete_node_at_segs (st : drawingT) i :
    (fx = true \/ forall s, In s (d_segs st) -> touches i s = true -> ssel s = false) ->
    d_segs (delete_node_at fx st i) =
    map (dec_above i) (filter (fun a => negb (ssel a) && negb (touches i a)) (d_segs st)).
  Proof.
    intros Hg. unfold delete_node_at; cbn. f_equal.
    induction (d_segs st) as [|a l IH]; cbn; auto.
    rewrite IH by (destruct Hg as [Hg|Hg]; [left; exact Hg|right; intros; apply Hg; cbn; auto]).
    destruct (touches i a) eqn:T.
    - destruct Hg as [->|Hg].
      + cbn. rewrite andb_false_r. reflexivity.
      + rewrite (Hg a) by (cbn; auto). destruct fx; cbn; reflexivity.
    - cbn. destruct (ssel a); cbn; reflexivity.
  Qed.

  Lemma dec_inj i a b :
    a <> i -> b <> i -> (if Nat.ltb i a then a - 1 else a) = (if Nat.ltb i b then b - 1 else b) -> a = b.
  Proof. intros A B. destruct (Nat.ltb_spec i a), (Nat.ltb_spec i b); lia. Qed.

  Lemma delete_node_at_Inv2 (st : drawingT) i :
    Inv2 st -> i < NN st ->
    (fx = true \/ forall s, In s (d_segs st) -> touches i s = true -> ssel s = false) ->
    Inv2 (delete_node_at fx st i) /\ segs_unselected (delete_node_at fx st i) /\
    d_dsplit (delete_node_at fx st i) = d_dsplit st /\ NN (delete_node_at fx st i) = NN st - 1.
  Proof.
    intros [W D] Hi Hg.
    pose proof (delete_node_at_segs st i Hg) as ES.
    assert (EN : NN (delete_node_at fx st i) = NN st - 1).
    { unfold NN, delete_node_at; cbn. apply remove_nth_length. exact Hi. }
    assert (Wk : forall a, In a (filter (fun a => negb (ssel a) && negb (touches i a)) (d_segs st)) ->
                 s0 a < NN st /\ s1 a < NN st /\ s0 a <> s1 a /\ s0 a <> i /\ s1 a <> i /\ ssel a = false).
    { intros a Ha. apply filter_In in Ha. destruct Ha as [Ha Hb].
      unfold WF in W. rewrite Forall_forall in W. destruct (W a Ha) as (A & B & C).
      apply andb_true_iff in Hb. destruct Hb as [Hb Hc]. apply negb_true_iff in Hb, Hc.
      unfold touches in Hc. apply orb_false_iff in Hc. destruct Hc as [Hc Hd].
      apply Nat.eqb_neq in Hc, Hd. auto 10. }
    assert (DEC : forall a, s0 (dec_above i a) = (if Nat.ltb i (s0 a) then s0 a - 1 else s0 a) /\
                            s1 (dec_above i a) = (if Nat.ltb i (s1 a) then s1 a - 1 else s1 a)) by (intros; cbn; auto).
    split; [split|split; [|split]]; auto.
    - unfold WF. rewrite EN, ES. apply Forall_forall. intros s Hs. apply in_map_iff in Hs.
      destruct Hs as [a [<- Ha]]. destruct (Wk a Ha) as (A & B & C & C0 & C1 & _).
      unfold seg_ok. destruct (DEC a) as [-> ->].
      destruct (Nat.ltb_spec i (s0 a)), (Nat.ltb_spec i (s1 a)); lia.
    - cbn [d_dsplit delete_node_at set_segs set_nodes deleteSelectedSegments].
      destruct D as [D|D]; [left; exact D|right]. rewrite ES.
      apply NoDupSeg_map; [|apply NoDupSeg_filter; auto].
      intros a b Ha Hb N S. apply N.
      destruct (Wk a Ha) as (A & B & C & C0 & C1 & _), (Wk b Hb) as (A' & B' & C' & C0' & C1' & _).
      unfold same_seg in *. destruct (DEC a) as [E0 E1], (DEC b) as [E0' E1'].
      rewrite E0, E1, E0', E1' in S.
      destruct S as [[S1 S2]|[S1 S2]]; [left|right]; split; eapply dec_inj; eauto.
    - intros s Hs. rewrite ES in Hs. apply in_map_iff in Hs. destruct Hs as [a [<- Ha]].
      cbn. apply Wk in Ha. tauto.
  Qed.

  Lemma delete_loop_Inv2 : forall fuel i (st : drawingT),
    Inv2 st -> (fx = true \/ del_guard st) ->
    Inv2 (delete_nodes_loop G fx fuel i st) /\
    (d_dsplit st = true -> d_dsplit (delete_nodes_loop G fx fuel i st) = true).
  Proof.
    induction fuel as [|fuel IH]; intros i st I Gd; [cbn; auto|]. cbn [delete_nodes_loop].
    destruct (Nat.ltb_spec i (length (d_nodes st))) as [Hi|Hi]; [|auto].
    destruct (nsel (node_at G (d_nodes st) i)) eqn:S; [|apply IH; auto].
    assert (Hg : fx = true \/ forall s, In s (d_segs st) -> touches i s = true -> ssel s = false).
    { destruct Gd as [Gd|Gd]; [left; exact Gd|right].
      intros s Hs T. destruct (ssel s) eqn:E; auto. destruct (Gd s Hs E) as [A B].
      unfold touches in T. apply orb_true_iff in T. destruct T as [T|T]; apply Nat.eqb_eq in T; subst i; congruence. }
    destruct (delete_node_at_Inv2 st i I Hi Hg) as (I1 & U & Dd & _).
    destruct (IH i (delete_node_at fx st i) I1) as [I2 D2].
    { right. intros s Hs E. rewrite (U s Hs) in E. discriminate. }
    split; [exact I2|]. intros D. apply D2. rewrite Dd. exact D.
  Qed.

  Lemma deleteSelectedNodes_Inv2 (st : drawingT) :
    Inv2 st -> (fx = true \/ del_guard st) ->
    Inv2 (deleteSelectedNodes G fx st) /\ (d_dsplit st = true -> d_dsplit (deleteSelectedNodes G fx st) = true).
  Proof. intros. unfold deleteSelectedNodes. apply delete_loop_Inv2; auto. Qed.

  (* ---- the raw move / copy passes do not touch the ghost flag ------------------------------- *)
  Lemma move_raw_dsplit fn fl m (st : drawingT) : d_dsplit (move_raw fn fl m st) = d_dsplit st.
  Proof.
    unfold move_raw. destruct (mode_lines m), (mode_labels m), (Nat.eqb m 0 || _ || mode_arcs m); reflexivity.
  Qed.

  Lemma copy_lines_dsplit fn (st : drawingT) : d_dsplit (copy_lines G fn st) = d_dsplit st.
  Proof.
    unfold copy_lines. generalize (d_segs st) as l. intros l. revert st.
    induction l as [|a l IH]; cbn; intros st; auto.
    rewrite IH. destruct (ssel a); reflexivity.
  Qed.

  Lemma copy_pass_dsplit fn fl m (st : drawingT) : d_dsplit (copy_pass G fn fl m st) = d_dsplit st.
  Proof.
    unfold copy_pass. destruct (mode_labels m); cbn; destruct (mode_lines m); rewrite ?copy_lines_dsplit;
      destruct (mode_nodes m); reflexivity.
  Qed.

  Lemma translateCopy_raw_dsplit dx dy n m (st : drawingT) :
    d_dsplit st = true -> d_dsplit (translateCopy_raw G dx dy n m st) = true.
  Proof.
    unfold translateCopy_raw. generalize (seq 0 n) as l. intros l. revert st.
    induction l as [|a l IH]; cbn; intros st D; auto. apply IH. rewrite copy_pass_dsplit. exact D.
  Qed.

  Lemma rotateCopy_raw_dsplit c zs m (st : drawingT) :
    d_dsplit st = true -> d_dsplit (rotateCopy_raw G c zs m st) = true.
  Proof.
    unfold rotateCopy_raw. revert st.
    induction zs as [|a l IH]; cbn; intros st D; auto. apply IH. rewrite copy_pass_dsplit. exact D.
  Qed.

  (* ---- every command ------------------------------------------------------------------------- *)
  Definition op_guard (st : drawingT) (o : opT) : Prop :=
    match o with ODeleteSelectedNodes => fx = true \/ del_guard st | _ => True end.

  Lemma step_Inv2 fuel (st : drawingT) (o : opT) :
    Inv2 st -> op_guard st o ->
    Inv2 (step G fx fuel st o) /\ (d_dsplit st = true -> d_dsplit (step G fx fuel st o) = true).
  Proof.
    intros I Gd. destruct o; cbn [step].
    - (* OAddNode *) split; [apply Inv2_addNode; auto|apply ext_addNode].
    - (* OAddSegment *)
      destruct (addSegment_Inv2 fuel st (closestNode G st (x0, y0)) (closestNode G st (x1, y1)) None (g_zero G) I)
        as [A [_ B]]; [apply closest_pair|auto].
    - (* OAddLabel *)
      destruct (addBlockLabel_frame st (new_lab G (x, y)) (auto_tol G (d_nodes st))) as (A & B & C & _).
      split; [eapply Inv2_frame; eauto|rewrite C; auto].
    - (* OSelectNode *) split; [|auto].
      eapply Inv2_ends; [| | |exact I]; cbn; auto. unfold NN; cbn. rewrite upd_nth_length. auto.
    - (* OSelectSegment *) split; [apply Inv2_toggle_seg; auto|auto].
    - (* OSelectLabel *) split; [eapply Inv2_frame; [| | |exact I]; reflexivity|auto].
    - (* OSelectGroup *) split; [|auto].
      eapply Inv2_ends; [| | |exact I]; cbn; auto.
      + unfold NN; cbn. rewrite map_length. auto.
      + symmetry. apply ends_map_same. intros s. destruct (sgrp s =? g); cbn; auto.
    - (* OSetGroup *) split; [|auto]. apply Inv2_unselectAll.
      eapply Inv2_ends; [| | |exact I]; cbn; auto.
      + unfold NN; cbn. rewrite map_length. auto.
      + symmetry. apply ends_map_same. intros s. destruct (ssel s); cbn; auto.
    - (* OClearSelected *) split; [apply Inv2_unselectAll; auto|auto].
    - (* OSetNodeProp *) split; [|auto].
      eapply Inv2_ends; [| | |exact I]; cbn; auto. unfold NN; cbn. rewrite map_length. auto.
    - (* OSetSegProp *) split; [|auto].
      eapply Inv2_ends; [| | |exact I]; cbn; auto.
      symmetry. apply ends_map_same. intros s. destruct (ssel s); cbn; auto.
    - (* OSetLabelProp *) split; [eapply Inv2_frame; [| | |exact I]; reflexivity|auto].
    - (* ODeleteSelected *)
      destruct (deleteSelectedNodes_Inv2 (deleteSelectedSegments st)) as [A B].
      + apply Inv2_deleteSelectedSegments; auto.
      + right. intros s Hs E. cbn in Hs. apply filter_In in Hs. destruct Hs as [_ Hs]. rewrite E in Hs. discriminate.
      + split; [eapply Inv2_frame; [| | |exact A]; reflexivity|exact B].
    - (* ODeleteSelectedNodes *) apply deleteSelectedNodes_Inv2; auto.
    - (* ODeleteSelectedSegments *) split; [apply Inv2_deleteSelectedSegments; auto|auto].
    - (* ODeleteSelectedLabels *) split; [eapply Inv2_frame; [| | |exact I]; reflexivity|auto].
    - (* OMoveTranslate *) destruct (mode_valid mode); [|auto].
      destruct (enforcePSLG_Inv2 fuel (move_raw (g_translate G dx dy)
                  (fun l => lsetpt (g_translate G dx dy (lpt l)) l) mode st)) as [A B].
      split; [exact A|]. intros D. apply B. rewrite move_raw_dsplit. exact D.
    - (* OMoveRotate *) destruct (mode_valid mode); [|auto].
      destruct (enforcePSLG_Inv2 fuel (move_raw (g_rotate G (cx, cy) (zr, zi))
                  (fun l => lsetpt (g_rotate G (cx, cy) (zr, zi) (lpt l)) l) mode st)) as [A B].
      split; [exact A|]. intros D. apply B. rewrite move_raw_dsplit. exact D.
    - (* OScale *) destruct (mode_valid mode); [|auto].
      destruct (enforcePSLG_Inv2 fuel (move_raw (g_scale G bx by_ sf)
                  (fun l => lsetarea (g_scale_area G sf (larea l)) (lsetpt (g_scale G bx by_ sf (lpt l)) l)) mode st)) as [A B].
      split; [exact A|]. intros D. apply B. rewrite move_raw_dsplit. exact D.
    - (* OCopyTranslate *) destruct (mode_valid mode); [|auto].
      destruct (enforcePSLG_Inv2 fuel (translateCopy_raw G dx dy n mode st)) as [A B].
      split; [exact A|]. intros D. apply B. apply translateCopy_raw_dsplit. exact D.
    - (* OCopyRotate *) destruct (mode_valid mode); [|auto].
      destruct (enforcePSLG_Inv2 fuel (rotateCopy_raw G (cx, cy) zs mode st)) as [A B].
      split; [exact A|]. intros D. apply B. apply rotateCopy_raw_dsplit. exact D.
    - (* OMirror *) destruct (mode_valid mode); [|auto].
      destruct (g_mirror_axis G x0 y0 x1 y1) as [[x p]|]; [|auto].
      destruct (enforcePSLG_Inv2 fuel (copy_pass G (g_mirror G x p) (fun l => lsetpt (g_mirror G x p (lpt l)) l) mode st)) as [A B].
      split; [exact A|]. intros D. apply B. rewrite copy_pass_dsplit. exact D.
  Qed.

  (* ---- all sequences of commands --------------------------------------------------------------- *)
  Fixpoint guarded (fuel : nat) (st : drawingT) (ops : list opT) : Prop :=
    match ops with
    | [] => True
    | o :: r => op_guard st o /\ guarded fuel (step G fx fuel st o) r
    end.
  Definition is_delnodes (o : opT) : bool := match o with ODeleteSelectedNodes => true | _ => false end.

  Lemma Inv2_empty : Inv2 (@empty F).
  Proof. split; [constructor|right; exact I]. Qed.

  Lemma run_Inv2 fuel (ops : list opT) : forall (st : drawingT),
    Inv2 st -> guarded fuel st ops ->
    Inv2 (run G fx fuel ops st) /\ (d_dsplit st = true -> d_dsplit (run G fx fuel ops st) = true).
  Proof.
    unfold run. induction ops as [|o ops IH]; cbn; intros st I Gd; [auto|].
    destruct Gd as [G1 G2]. destruct (step_Inv2 fuel st o I G1) as [I1 D1].
    destruct (IH _ I1 G2) as [I2 D2]. split; auto.
  Qed.

  Lemma guarded_no_delnodes fuel (ops : list opT) : forall (st : drawingT),
    forallb (fun o => negb (is_delnodes o)) ops = true -> guarded fuel st ops.
  Proof.
    induction ops as [|o ops IH]; cbn; intros st H; auto.
    apply andb_true_iff in H. destruct H as [H1 H2]. split; [|apply IH; auto].
    destruct o; cbn in *; auto; discriminate.
  Qed.

  Lemma guarded_fixed fuel (ops : list opT) : forall (st : drawingT), fx = true -> guarded fuel st ops.
  Proof.
    induction ops as [|o ops IH]; cbn; intros st H; auto. split; [|apply IH; auto].
    destruct o; cbn; auto.
  Qed.

  (* the reachable drawings: every segment joins two distinct existing points *)
  Theorem wf_reachable fuel (ops : list opT) :
    guarded fuel empty ops -> WF (run G fx fuel ops empty).
  Proof. intros H. apply (run_Inv2 fuel ops empty Inv2_empty H). Qed.

  (* ... and no segment is duplicated unless some addNode split two segments with a common end *)
  Theorem nodup_reachable fuel (ops : list opT) :
    guarded fuel empty ops -> d_dsplit (run G fx fuel ops empty) = false -> NoDupSeg (d_segs (run G fx fuel ops empty)).
  Proof.
    intros H D. destruct (run_Inv2 fuel ops empty Inv2_empty H) as [[_ [E|E]] _]; [congruence|exact E].
  Qed.

  (* the repaired code (fx = true): no guard is needed, for all sequences *)
  Theorem inv_reachable_repaired fuel (ops : list opT) :
    fx = true ->
    WF (run G fx fuel ops empty) /\
    (d_dsplit (run G fx fuel ops empty) = false -> NoDupSeg (d_segs (run G fx fuel ops empty))).
  Proof.
    intros H. pose proof (guarded_fixed fuel ops empty H) as Gd.
    split; [apply wf_reachable; exact Gd|apply nodup_reachable; exact Gd].
  Qed.

  (* ---- addNode never puts a point within d of an existing point or block label ------------- *)
  Lemma addNode_respects_distance (st : drawingT) nd d :
    length (d_nodes (addNode G st nd d)) <> length (d_nodes st) ->
    d_nodes (addNode G st nd d) = d_nodes st ++ [nd] /\
    (forall n, In n (d_nodes st) -> g_lt G (g_dist G (npt n) (npt nd)) d = false) /\
    (forall l, In l (d_labs st) -> g_lt G (g_dist G (lpt l) (npt nd)) d = false).
  Proof.
    intros H. destruct (addNode_cases st nd d) as [[E _]|[E [A B]]]; [rewrite E in H; congruence|].
    rewrite E. split; [reflexivity|]. split.
    - intros n Hn. destruct (g_lt G (g_dist G (npt n) (npt nd)) d) eqn:X; auto.
      assert (existsb (near_node G (npt nd) d) (d_nodes st) = true) by (apply existsb_exists; eauto). congruence.
    - intros l Hl. destruct (g_lt G (g_dist G (lpt l) (npt nd)) d) eqn:X; auto.
      assert (existsb (near_lab G (npt nd) d) (d_labs st) = true) by (apply existsb_exists; eauto). congruence.
  Qed.

  (* list-length bookkeeping of addNode: at most one point more, one segment more per split *)
  Lemma addNode_lengths (st : drawingT) nd d :
    addNode G st nd d = st \/
    (length (d_nodes (addNode G st nd d)) = S (length (d_nodes st)) /\
     length (d_segs (addNode G st nd d)) =
       length (d_segs st) + length (filter (on_seg G (d_nodes st ++ [nd]) (npt nd) d) (d_segs st)) /\
     d_labs (addNode G st nd d) = d_labs st).
  Proof.
    destruct (addNode_cases st nd d) as [[E _]|[E _]]; [left; auto|right]. rewrite E.
    unfold addNode_added; cbn. rewrite !app_length, !map_length. cbn. repeat split; lia.
  Qed.

  Lemma deleteSelectedSegments_length (st : drawingT) :
    length (d_segs (deleteSelectedSegments st)) + length (filter ssel (d_segs st)) = length (d_segs st) /\
    d_nodes (deleteSelectedSegments st) = d_nodes st /\ d_labs (deleteSelectedSegments st) = d_labs st.
  Proof.
    cbn. split; auto. induction (d_segs st) as [|a l IH]; cbn; auto. destruct (ssel a); cbn; lia.
  Qed.

  (* ---- nothing remains selected ------------------------------------------------------------------ *)
  Definition nosel (st : drawingT) : Prop :=
    (forall n, In n (d_nodes st) -> nsel n = false) /\ (forall s, In s (d_segs st) -> ssel s = false) /\
    (forall l, In l (d_labs st) -> lsel l = false).

  Lemma nosel_unselectAll (st : drawingT) : nosel (unselectAll st).
  Proof.
    unfold nosel, unselectAll; cbn. repeat split; intros x Hx; apply in_map_iff in Hx;
      destruct Hx as [y [<- _]]; reflexivity.
  Qed.

  Lemma nosel_addNode (st : drawingT) nd d : nosel st -> nsel nd = false -> nosel (addNode G st nd d).
  Proof.
    intros (A & B & C) Hn. destruct (addNode_cases st nd d) as [[-> _]|[-> _]]; [repeat split; auto|].
    unfold addNode_added, nosel; cbn. repeat split; auto.
    - intros n Hx. apply in_app_or in Hx. destruct Hx as [Hx|[<-|[]]]; auto.
    - intros s Hx. apply in_app_or in Hx. destruct Hx as [Hx|Hx]; apply in_map_iff in Hx;
        destruct Hx as [a [<- Ha]].
      + destruct (on_seg G (d_nodes st ++ [nd]) (npt nd) d a); cbn; auto.
      + apply filter_In in Ha. cbn. apply B, Ha.
  Qed.

  Lemma nosel_fold_addNode t (ps : list pt) : forall (st : drawingT),
    nosel st -> nosel (fold_left (fun s p => addNode G s (new_node p) t) ps st).
  Proof.
    induction ps as [|p ps IH]; cbn; intros st H; auto. apply IH. apply nosel_addNode; auto.
  Qed.

  Lemma nosel_filter_segs (st : drawingT) f : nosel st -> nosel (set_segs st (filter f (d_segs st))).
  Proof.
    intros (A & B & C). repeat split; auto. cbn. intros s Hs. apply filter_In in Hs. apply B, Hs.
  Qed.

  Lemma nosel_delete_toggled (st : drawingT) k : nosel st -> nosel (deleteSelectedSegments (toggle_seg st k)).
  Proof.
    intros (A & B & C). repeat split; auto. cbn. intros s Hs. apply filter_In in Hs.
    destruct Hs as [_ Hs]. apply negb_true_iff in Hs. exact Hs.
  Qed.

  (* an accepted addSegment ends with nothing selected; a rejected one leaves the drawing alone *)
  Lemma addSegment_nosel_pres : forall fuel (st : drawingT) n0 n1 par tol,
    nosel st -> nosel (addSegment G fuel st n0 n1 par tol).
  Proof.
    induction fuel as [|fuel IH]; intros st n0 n1 par tol H; [exact H|].
    rewrite addSegment_S. destruct (Nat.eqb n0 n1); auto. destruct (dup_in n0 n1 (d_segs st)); auto.
    cbv zeta. set (st3 := as_st3 st n0 n1 par tol).
    assert (H3 : nosel st3) by apply nosel_unselectAll.
    destruct (find_first _ 0 (length (d_nodes st3))); auto.
    apply IH, IH. apply nosel_delete_toggled. exact H3.
  Qed.

  Lemma addSegment_clears_selection fuel (st : drawingT) n0 n1 par tol :
    addSegment G (S fuel) st n0 n1 par tol = st \/ nosel (addSegment G (S fuel) st n0 n1 par tol).
  Proof.
    rewrite addSegment_S. destruct (Nat.eqb n0 n1); auto. destruct (dup_in n0 n1 (d_segs st)); auto.
    right. cbv zeta. set (st3 := as_st3 st n0 n1 par tol).
    assert (H3 : nosel st3) by apply nosel_unselectAll.
    destruct (find_first _ 0 (length (d_nodes st3))); auto.
    apply addSegment_nosel_pres, addSegment_nosel_pres, nosel_delete_toggled. exact H3.
  Qed.

  (* enforcePSLG ends with unselectAll *)
  Lemma enforcePSLG_nosel fuel (st : drawingT) : nosel (enforcePSLG G fuel st).
  Proof. unfold enforcePSLG. apply nosel_unselectAll. Qed.

  (* ---- deleteSelectedNodes: which points and which segments remain ------------------------------ *)
  Lemma remove_nth_split {T} (l : list T) : forall i, remove_nth l i = firstn i l ++ skipn (S i) l.
  Proof. induction l as [|a l IH]; intros [|i]; cbn; auto. f_equal. apply IH. Qed.

  Lemma nth_split' {T} (l : list T) dflt : forall i, i < length l ->
    l = firstn i l ++ nth i l dflt :: skipn (S i) l.
  Proof.
    induction l as [|a l IH]; intros [|i] H; cbn in *; try lia; auto. f_equal. apply IH. lia.
  Qed.

  Lemma firstn_firstn_app {T} (l r : list T) : forall i, i <= length l -> firstn i (firstn i l ++ r) = firstn i l.
  Proof. induction l as [|a l IH]; intros [|i] H; cbn in *; try lia; auto. f_equal. apply IH. lia. Qed.
  Lemma skipn_firstn_app {T} (l r : list T) : forall i, i <= length l -> skipn i (firstn i l ++ r) = r.
  Proof. induction l as [|a l IH]; intros [|i] H; cbn in *; try lia; auto. apply IH. lia. Qed.
  Lemma firstn_S_nth {T} (l : list T) dflt : forall i, i < length l -> firstn (S i) l = firstn i l ++ [nth i l dflt].
  Proof. induction l as [|a l IH]; intros [|i] H; cbn in *; try lia; auto. f_equal. apply IH. lia. Qed.

  Lemma delete_node_at_nodes (st : drawingT) i : d_nodes (delete_node_at fx st i) = remove_nth (d_nodes st) i.
  Proof. reflexivity. Qed.

  Definition unsel (n : nodeT) : bool := negb (nsel n).

  Lemma delete_loop_nodes : forall fuel i (st : drawingT),
    length (d_nodes st) - i <= fuel -> i <= length (d_nodes st) ->
    d_nodes (delete_nodes_loop G fx fuel i st) = firstn i (d_nodes st) ++ filter unsel (skipn i (d_nodes st)).
  Proof.
    induction fuel as [|fuel IH]; intros i st Hf Hi.
    - cbn. assert (i = length (d_nodes st)) by lia. subst i.
      rewrite firstn_all, skipn_all. cbn. rewrite app_nil_r. reflexivity.
    - cbn [delete_nodes_loop]. destruct (Nat.ltb_spec i (length (d_nodes st))) as [H|H].
      + pose proof (nth_split' (d_nodes st) (dflt_node G) i H) as SP.
        fold (node_at G (d_nodes st) i) in SP.
        assert (SK : skipn i (d_nodes st) = node_at G (d_nodes st) i :: skipn (S i) (d_nodes st)).
        { rewrite SP at 1. rewrite skipn_firstn_app by lia. reflexivity. }
        destruct (nsel (node_at G (d_nodes st) i)) eqn:S.
        * rewrite IH; rewrite delete_node_at_nodes, remove_nth_split.
          -- rewrite firstn_firstn_app, skipn_firstn_app by lia. rewrite SK. cbn. unfold unsel at 2. rewrite S. reflexivity.
          -- rewrite app_length, firstn_length, skipn_length. lia.
          -- rewrite app_length, firstn_length, skipn_length. lia.
        * rewrite IH by lia. rewrite (firstn_S_nth _ (dflt_node G)) by lia.
          fold (node_at G (d_nodes st) i). rewrite SK. cbn. unfold unsel at 2. rewrite S. cbn.
          rewrite <- app_assoc. reflexivity.
      + assert (i = length (d_nodes st)) by lia. subst i.
        rewrite firstn_all, skipn_all. cbn. rewrite app_nil_r. reflexivity.
  Qed.

  (* the points that remain are exactly the unselected ones, in their order *)
  Lemma deleteSelectedNodes_nodes (st : drawingT) :
    d_nodes (deleteSelectedNodes G fx st) = filter unsel (d_nodes st).
  Proof. unfold deleteSelectedNodes. rewrite delete_loop_nodes by lia. reflexivity. Qed.

  (* what a segment refers to: its two end NODES (coordinates, group, properties) and its own attributes *)
  Definition sview (nodes : list nodeT) (s : seg) := (node_at G nodes (s0 s), node_at G nodes (s1 s), sgrp s, sprop s).
  Definition cview (st : drawingT) := map (sview (d_nodes st)) (d_segs st).
  Definition ends_unselected (v : nodeT * nodeT * nat * nat) : bool :=
    negb (nsel (fst (fst (fst v)))) && negb (nsel (snd (fst (fst v)))).

  Lemma node_at_remove (nodes : list nodeT) i j :
    j <> i -> node_at G (remove_nth nodes i) (if Nat.ltb i j then j - 1 else j) = node_at G nodes j.
  Proof.
    unfold node_at. revert i j. induction nodes as [|a l IH]; intros i j H.
    - destruct i, (Nat.ltb _ j), j; cbn; auto; destruct (j - 0); auto.
    - destruct i as [|i].
      + destruct j as [|j]; [congruence|]. cbn. rewrite Nat.sub_0_r. reflexivity.
      + destruct j as [|j]; [reflexivity|].
        change (Nat.ltb (S i) (S j)) with (Nat.ltb i j). cbn [remove_nth].
        specialize (IH i j). destruct (Nat.ltb_spec i j).
        * destruct j as [|j]; [lia|]. cbn. cbn in IH. rewrite Nat.sub_0_r in IH. apply IH. lia.
        * cbn. apply IH. lia.
  Qed.

  Lemma delete_node_at_cview (st : drawingT) i :
    segs_unselected st ->
    cview (delete_node_at fx st i) = map (sview (d_nodes st)) (filter (fun a => negb (touches i a)) (d_segs st)) /\
    segs_unselected (delete_node_at fx st i).
  Proof.
    intros U. pose proof (delete_node_at_segs st i (or_intror (fun s Hs _ => U s Hs))) as ES.
    assert (EF : filter (fun a => negb (ssel a) && negb (touches i a)) (d_segs st) =
                 filter (fun a => negb (touches i a)) (d_segs st)).
    { apply filter_ext_in. intros a Ha. rewrite (U a Ha). reflexivity. }
    rewrite EF in ES. split.
    - unfold cview. rewrite ES, delete_node_at_nodes, map_map. apply map_ext_in.
      intros a Ha. apply filter_In in Ha. destruct Ha as [_ Ha]. apply negb_true_iff in Ha.
      unfold touches in Ha. apply orb_false_iff in Ha. destruct Ha as [A B]. apply Nat.eqb_neq in A, B.
      unfold sview. cbn [dec_above s0 s1 sgrp sprop]. rewrite !node_at_remove; auto.
    - intros s Hs. rewrite ES in Hs. apply in_map_iff in Hs. destruct Hs as [a [<- Ha]].
      apply filter_In in Ha. cbn. apply U, Ha.
  Qed.

  Lemma delete_loop_cview : forall fuel i (st : drawingT),
    segs_unselected st ->
    filter ends_unselected (cview (delete_nodes_loop G fx fuel i st)) = filter ends_unselected (cview st).
  Proof.
    induction fuel as [|fuel IH]; intros i st U; [reflexivity|]. cbn [delete_nodes_loop].
    destruct (Nat.ltb i (length (d_nodes st))); [|reflexivity].
    destruct (nsel (node_at G (d_nodes st) i)) eqn:S; [|apply IH; auto].
    destruct (delete_node_at_cview st i U) as [E U'].
    rewrite IH by exact U'. rewrite E. clear E U U'. unfold cview.
    induction (d_segs st) as [|a l IHl]; cbn; auto.
    destruct (touches i a) eqn:T; cbn.
    - rewrite IHl.
      assert (X : ends_unselected (sview (d_nodes st) a) = false).
      { unfold ends_unselected, sview; cbn. unfold touches in T. apply orb_true_iff in T.
        destruct T as [T|T]; apply Nat.eqb_eq in T; rewrite T, S; cbn; auto. apply andb_false_r. }
      rewrite X. reflexivity.
    - rewrite IHl. reflexivity.
  Qed.

  Lemma node_at_unsel (nodes : list nodeT) j : (forall n, In n nodes -> nsel n = false) -> nsel (node_at G nodes j) = false.
  Proof.
    intros H. unfold node_at. destruct (Nat.lt_ge_cases j (length nodes)).
    - apply H, nth_In; auto.
    - rewrite nth_overflow by auto. reflexivity.
  Qed.

  (* after deleting the selected points every remaining segment still refers to the same two end
     nodes (same coordinates, group, properties) and keeps its own attributes; exactly the segments
     with a deleted end point disappear; the order is kept *)
  Theorem delete_renumbers_consistently (st : drawingT) :
    segs_unselected st ->
    cview (deleteSelectedNodes G fx st) = filter ends_unselected (cview st).
  Proof.
    intros U. rewrite <- (delete_loop_cview (length (d_nodes st)) 0 st U).
    fold (deleteSelectedNodes G fx st). symmetry.
    assert (A : forall n, In n (d_nodes (deleteSelectedNodes G fx st)) -> nsel n = false).
    { intros n Hn. rewrite deleteSelectedNodes_nodes in Hn. apply filter_In in Hn.
      destruct Hn as [_ Hn]. apply negb_true_iff in Hn. exact Hn. }
    unfold cview. induction (d_segs (deleteSelectedNodes G fx st)) as [|a l IH]; cbn; auto.
    unfold ends_unselected at 1, sview at 1. cbn. rewrite !node_at_unsel by exact A. cbn. f_equal. apply IH.
  Qed.

  (* ---- which commands end with an empty selection ------------------------------------------------ *)
  Lemma deleteSelectedNodes_segs_unsel (st : drawingT) :
    segs_unselected st -> segs_unselected (deleteSelectedNodes G fx st).
  Proof.
    unfold deleteSelectedNodes. generalize (length (d_nodes st)) as fuel. intros fuel.
    generalize 0 as i. revert st. induction fuel as [|fuel IH]; intros st i U; [exact U|]. cbn [delete_nodes_loop].
    destruct (Nat.ltb i (length (d_nodes st))); [|exact U].
    destruct (nsel (node_at G (d_nodes st) i)); [|apply IH; auto].
    apply IH. apply delete_node_at_cview. exact U.
  Qed.

  Lemma deleteSelectedNodes_labs (st : drawingT) : d_labs (deleteSelectedNodes G fx st) = d_labs st.
  Proof.
    unfold deleteSelectedNodes. generalize (length (d_nodes st)) as fuel. intros fuel.
    generalize 0 as i. revert st. induction fuel as [|fuel IH]; intros st i; [reflexivity|]. cbn [delete_nodes_loop].
    destruct (Nat.ltb i (length (d_nodes st))); [|reflexivity].
    destruct (nsel (node_at G (d_nodes st) i)); rewrite IH; reflexivity.
  Qed.

  Definition clears_selection (o : opT) : bool :=
    match o with
    | OSetGroup _ | OClearSelected | ODeleteSelected => true
    | OMoveTranslate _ _ m | OMoveRotate _ _ _ _ m | OScale _ _ _ m | OCopyTranslate _ _ _ m
    | OCopyRotate _ _ _ m => mode_valid m
    | OMirror x0 y0 x1 y1 m =>
        mode_valid m && match g_mirror_axis G x0 y0 x1 y1 with Some _ => true | None => false end
    | _ => false
    end.

  Theorem step_clears_selection fuel (st : drawingT) (o : opT) :
    clears_selection o = true -> nosel (step G fx fuel st o).
  Proof.
    destruct o; cbn [clears_selection step]; try discriminate; intros H.
    - apply nosel_unselectAll.
    - apply nosel_unselectAll.
    - (* ODeleteSelected *)
      set (st1 := deleteSelectedSegments st).
      assert (U1 : segs_unselected st1).
      { intros s Hs. cbn in Hs. apply filter_In in Hs. destruct Hs as [_ Hs]. apply negb_true_iff in Hs. exact Hs. }
      repeat split.
      + intros n Hn. change (In n (d_nodes (deleteSelectedNodes G fx st1))) in Hn.
        rewrite deleteSelectedNodes_nodes in Hn. apply filter_In in Hn.
        destruct Hn as [_ Hn]. apply negb_true_iff in Hn. exact Hn.
      + change (segs_unselected (deleteSelectedNodes G fx st1)). apply deleteSelectedNodes_segs_unsel. exact U1.
      + intros l Hl. change (In l (filter (fun l => negb (lsel l)) (d_labs (deleteSelectedNodes G fx st1)))) in Hl.
        apply filter_In in Hl. destruct Hl as [_ Hl]. apply negb_true_iff in Hl. exact Hl.
    - rewrite H. apply enforcePSLG_nosel.
    - rewrite H. apply enforcePSLG_nosel.
    - rewrite H. apply enforcePSLG_nosel.
    - rewrite H. apply enforcePSLG_nosel.
    - rewrite H. apply enforcePSLG_nosel.
    - apply andb_true_iff in H. destruct H as [H1 H2]. rewrite H1.
      destruct (g_mirror_axis G x0 y0 x1 y1) as [[x p]|]; [apply enforcePSLG_nosel|discriminate].
  Qed.

  (* mi_addsegment: either the drawing is untouched (degenerate or duplicate request) or nothing is selected *)
  Theorem addsegment_clears_selection fuel (st : drawingT) x0 y0 x1 y1 :
    step G fx (S fuel) st (OAddSegment x0 y0 x1 y1) = st \/ nosel (step G fx (S fuel) st (OAddSegment x0 y0 x1 y1)).
  Proof. cbn [step]. apply addSegment_clears_selection. Qed.

  (* ---- the copies made by one pass of translateCopy / rotateCopy / mirrorCopy --------------------- *)
  Definition resolve (nodes : list nodeT) (s : seg) :=
    (node_at G nodes (s0 s), node_at G nodes (s1 s), ssel s, sgrp s, sprop s).
  Definition sel_valid (st : drawingT) : Prop :=
    forall s, In s (d_segs st) -> ssel s = true -> s0 s < NN st /\ s1 s < NN st.

  Definition pair_img (fn : pt -> pt) (base : list nodeT) (ln : seg) : list nodeT :=
    [copy_node fn (node_at G base (s0 ln)); copy_node fn (node_at G base (s1 ln))].
  Definition seg_img (fn : pt -> pt) (base : list nodeT) (ln : seg) :=
    (copy_node fn (node_at G base (s0 ln)), copy_node fn (node_at G base (s1 ln)), false, sgrp ln, sprop ln).

  Definition node_block (fn : pt -> pt) (m : nat) (st : drawingT) : list nodeT :=
    (if mode_nodes m then map (copy_node fn) (filter nsel (d_nodes st)) else []) ++
    (if mode_lines m then flat_map (pair_img fn (d_nodes st)) (filter ssel (d_segs st)) else []).
  Definition seg_block (fn : pt -> pt) (m : nat) (st : drawingT) :=
    if mode_lines m then map (seg_img fn (d_nodes st)) (filter ssel (d_segs st)) else [].
  Definition lab_block (fl : labT -> labT) (m : nat) (st : drawingT) : list labT :=
    if mode_labels m then map (fun l => lsetsel false (fl l)) (filter lsel (d_labs st)) else [].

  Lemma node_at_app_l (nodes more : list nodeT) i : i < length nodes -> node_at G (nodes ++ more) i = node_at G nodes i.
  Proof. intros H. unfold node_at. apply app_nth1. exact H. Qed.
  Lemma node_at_len (nodes : list nodeT) a more : node_at G (nodes ++ a :: more) (length nodes) = a.
  Proof. unfold node_at. apply nth_middle. Qed.
  Lemma node_at_len1 (nodes : list nodeT) a b more : node_at G (nodes ++ a :: b :: more) (S (length nodes)) = b.
  Proof.
    unfold node_at. replace (nodes ++ a :: b :: more) with ((nodes ++ [a]) ++ b :: more) by (rewrite <- app_assoc; reflexivity).
    replace (S (length nodes)) with (length (nodes ++ [a])) by (rewrite app_length; cbn; lia). apply nth_middle.
  Qed.
  Lemma resolve_app_l (nodes more : list nodeT) x :
    s0 x < length nodes -> s1 x < length nodes -> resolve (nodes ++ more) x = resolve nodes x.
  Proof. intros A B. unfold resolve. rewrite !node_at_app_l by assumption. reflexivity. Qed.

  Definition copy_line_step (fn : pt -> pt) (s : drawingT) (ln : seg) : drawingT :=
    if ssel ln then
      mkDrawing (d_nodes s ++ [copy_node fn (node_at G (d_nodes s) (s0 ln)); copy_node fn (node_at G (d_nodes s) (s1 ln))])
                (d_segs s ++ [mkSeg (length (d_nodes s)) (S (length (d_nodes s))) false (sgrp ln) (sprop ln)])
                (d_labs s) (d_oof s) (d_dsplit s)
    else s.

  Lemma copy_lines_aux fn (base : list nodeT) : forall (l : list seg) (s : drawingT),
    (forall ln, In ln l -> ssel ln = true -> s0 ln < length base /\ s1 ln < length base) ->
    (exists extra, d_nodes s = base ++ extra) ->
    let r := fold_left (copy_line_step fn) l s in
    exists app,
      d_nodes r = d_nodes s ++ flat_map (pair_img fn base) (filter ssel l) /\
      d_segs r = d_segs s ++ app /\
      map (resolve (d_nodes r)) app = map (seg_img fn base) (filter ssel l) /\
      (forall x, In x app -> s0 x < length (d_nodes r) /\ s1 x < length (d_nodes r) /\ ssel x = false) /\
      d_labs r = d_labs s.
  Proof.
    induction l as [|a l IH]; intros s Hv [extra He]; cbn [fold_left].
    - exists []. cbn. rewrite !app_nil_r.
      split; [reflexivity|split; [reflexivity|split; [reflexivity|split; [intros x []|reflexivity]]]].
    - cbv zeta. destruct (ssel a) eqn:Sa.
      + destruct (Hv a (or_introl eq_refl) Sa) as [V0 V1].
        set (A := copy_node fn (node_at G (d_nodes s) (s0 a))). set (B := copy_node fn (node_at G (d_nodes s) (s1 a))).
        set (nw := mkSeg (length (d_nodes s)) (S (length (d_nodes s))) false (sgrp a) (sprop a)).
        set (s' := mkDrawing (d_nodes s ++ [A; B]) (d_segs s ++ [nw]) (d_labs s) (d_oof s) (d_dsplit s)).
        assert (Es : copy_line_step fn s a = s') by (unfold copy_line_step; rewrite Sa; reflexivity).
        rewrite Es.
        destruct (IH s') as (app & E1 & E2 & E3 & E4 & E5).
        { intros ln Hl. apply Hv. right; exact Hl. }
        { exists (extra ++ [A; B]). cbn. rewrite He, <- app_assoc. reflexivity. }
        assert (EA : A = copy_node fn (node_at G base (s0 a))) by (unfold A; rewrite He, node_at_app_l; auto).
        assert (EB : B = copy_node fn (node_at G base (s1 a))) by (unfold B; rewrite He, node_at_app_l; auto).
        cbn [d_nodes d_segs d_labs s'] in E1, E2, E5.
        exists (nw :: app).
        cbn [filter]. rewrite Sa. cbn [flat_map map].
        split; [|split; [|split; [|split]]].
        * rewrite E1, <- app_assoc. unfold pair_img at 2. rewrite <- EA, <- EB. reflexivity.
        * rewrite E2, <- app_assoc. reflexivity.
        * f_equal; [|exact E3]. unfold resolve, seg_img, nw. cbn [s0 s1 ssel sgrp sprop]. rewrite E1.
          rewrite <- app_assoc. cbn [List.app]. rewrite node_at_len, node_at_len1, EA, EB. reflexivity.
        * intros x [<-|H]; [|apply E4, H]. unfold nw; cbn [s0 s1 ssel]. rewrite E1, !app_length. cbn. lia.
        * exact E5.
      + assert (Es : copy_line_step fn s a = s) by (unfold copy_line_step; rewrite Sa; reflexivity).
        rewrite Es. cbn [filter]. rewrite Sa. apply IH; [|eauto]. intros ln Hl. apply Hv. right; exact Hl.
  Qed.

  Lemma copy_lines_unfold fn (st : drawingT) : copy_lines G fn st = fold_left (copy_line_step fn) (d_segs st) st.
  Proof. reflexivity. Qed.

  Theorem copy_pass_spec fn fl m (st : drawingT) :
    sel_valid st ->
    let r := copy_pass G fn fl m st in
    d_nodes r = d_nodes st ++ node_block fn m st /\
    (exists app, d_segs r = d_segs st ++ app /\
                 map (resolve (d_nodes r)) app = seg_block fn m st /\
                 (forall x, In x app -> s0 x < length (d_nodes r) /\ s1 x < length (d_nodes r) /\ ssel x = false)) /\
    d_labs r = d_labs st ++ lab_block fl m st.
  Proof.
    intros V. unfold copy_pass, node_block, seg_block, lab_block.
    set (st1 := if mode_nodes m then set_nodes st (d_nodes st ++ map (copy_node fn) (filter nsel (d_nodes st))) else st).
    assert (N1 : d_nodes st1 = d_nodes st ++ (if mode_nodes m then map (copy_node fn) (filter nsel (d_nodes st)) else [])).
    { unfold st1. destruct (mode_nodes m); cbn; [reflexivity|rewrite app_nil_r; reflexivity]. }
    assert (S1 : d_segs st1 = d_segs st) by (unfold st1; destruct (mode_nodes m); reflexivity).
    assert (L1 : d_labs st1 = d_labs st) by (unfold st1; destruct (mode_nodes m); reflexivity).
    destruct (mode_lines m).
    - rewrite copy_lines_unfold.
      destruct (copy_lines_aux fn (d_nodes st) (d_segs st1) st1) as (app & E1 & E2 & E3 & E4 & E5).
      { rewrite S1. intros ln Hl Sl. apply V; auto. }
      { eexists. exact N1. }
      set (st2 := fold_left (copy_line_step fn) (d_segs st1) st1) in *.
      assert (N2 : d_nodes (if mode_labels m then set_labs st2 (d_labs st2 ++ map (fun l => lsetsel false (fl l)) (filter lsel (d_labs st2))) else st2)
                   = d_nodes st2) by (destruct (mode_labels m); reflexivity).
      assert (S2 : d_segs (if mode_labels m then set_labs st2 (d_labs st2 ++ map (fun l => lsetsel false (fl l)) (filter lsel (d_labs st2))) else st2)
                   = d_segs st2) by (destruct (mode_labels m); reflexivity).
      cbv zeta. rewrite N2, S2. split; [|split].
      + rewrite E1, N1, S1, <- app_assoc. reflexivity.
      + exists app. rewrite E2, S1. rewrite S1 in E3. split; [reflexivity|split; [exact E3|exact E4]].
      + destruct (mode_labels m); cbn; rewrite E5, L1; [reflexivity|rewrite app_nil_r; reflexivity].
    - cbv zeta. split; [|split].
      + destruct (mode_labels m); cbn; rewrite N1, app_nil_r; reflexivity.
      + exists []. destruct (mode_labels m); cbn; rewrite S1, app_nil_r; (split; [reflexivity|split; [reflexivity|intros x []]]).
      + destruct (mode_labels m); cbn; rewrite L1; [reflexivity|rewrite app_nil_r; reflexivity].
  Qed.

  (* ---- several passes (ncopies): every pass copies the ORIGINAL selection ------------------------ *)
  Lemma flat_map_ext_in' {A B} (f g : A -> list B) (l : list A) :
    (forall a, In a l -> f a = g a) -> flat_map f l = flat_map g l.
  Proof.
    induction l as [|a l IH]; cbn; intros H; auto. rewrite H by (left; auto). f_equal. apply IH. intros; apply H; right; auto.
  Qed.

  Lemma filter_nil {A} (f : A -> bool) (l : list A) : (forall a, In a l -> f a = false) -> filter f l = [].
  Proof.
    induction l as [|a l IH]; cbn; intros H; auto. rewrite H by (left; auto). apply IH. intros; apply H; right; auto.
  Qed.

  Lemma node_block_unsel fn m (st : drawingT) : filter nsel (node_block fn m st) = [].
  Proof.
    apply filter_nil. intros a Ha. unfold node_block in Ha. apply in_app_or in Ha. destruct Ha as [Ha|Ha].
    - destruct (mode_nodes m); [|destruct Ha]. apply in_map_iff in Ha. destruct Ha as [b [<- _]]. reflexivity.
    - destruct (mode_lines m); [|destruct Ha]. apply in_flat_map in Ha. destruct Ha as [b [_ Hb]].
      destruct Hb as [<-|[<-|[]]]; reflexivity.
  Qed.

  Definition same_selection (st st' : drawingT) : Prop :=
    (exists more, d_nodes st' = d_nodes st ++ more /\ filter nsel more = []) /\
    (exists app, d_segs st' = d_segs st ++ app /\ filter ssel app = []) /\
    (exists ml, d_labs st' = d_labs st ++ ml /\ filter lsel ml = []).

  Lemma blocks_same_selection fn fl m (st st' : drawingT) :
    sel_valid st -> same_selection st st' ->
    node_block fn m st' = node_block fn m st /\ seg_block fn m st' = seg_block fn m st /\
    lab_block fl m st' = lab_block fl m st.
  Proof.
    intros V ((more & N & Nf) & (app & S & Sf) & (ml & L & Lf)).
    assert (FN : filter nsel (d_nodes st') = filter nsel (d_nodes st)) by (rewrite N, filter_app, Nf, app_nil_r; reflexivity).
    assert (FS : filter ssel (d_segs st') = filter ssel (d_segs st)) by (rewrite S, filter_app, Sf, app_nil_r; reflexivity).
    assert (FL : filter lsel (d_labs st') = filter lsel (d_labs st)) by (rewrite L, filter_app, Lf, app_nil_r; reflexivity).
    assert (VI : forall a, In a (filter ssel (d_segs st)) -> s0 a < length (d_nodes st) /\ s1 a < length (d_nodes st)).
    { intros a Ha. apply filter_In in Ha. apply V; tauto. }
    unfold node_block, seg_block, lab_block. rewrite FN, FS, FL. repeat split.
    - f_equal. destruct (mode_lines m); auto. apply flat_map_ext_in'. intros a Ha. destruct (VI a Ha).
      unfold pair_img. rewrite N, !node_at_app_l by assumption. reflexivity.
    - destruct (mode_lines m); auto. apply map_ext_in. intros a Ha. destruct (VI a Ha).
      unfold seg_img. rewrite N, !node_at_app_l by assumption. reflexivity.
  Qed.

  Definition passes (fs : list ((pt -> pt) * (labT -> labT))) (m : nat) (st : drawingT) : drawingT :=
    fold_left (fun s f => copy_pass G (fst f) (snd f) m s) fs st.

  Theorem passes_spec m (fs : list ((pt -> pt) * (labT -> labT))) : forall (st : drawingT),
    sel_valid st ->
    let r := passes fs m st in
    d_nodes r = d_nodes st ++ flat_map (fun f => node_block (fst f) m st) fs /\
    (exists app, d_segs r = d_segs st ++ app /\
                 map (resolve (d_nodes r)) app = flat_map (fun f => seg_block (fst f) m st) fs /\
                 (forall x, In x app -> s0 x < length (d_nodes r) /\ s1 x < length (d_nodes r) /\ ssel x = false)) /\
    d_labs r = d_labs st ++ flat_map (fun f => lab_block (snd f) m st) fs.
  Proof.
    unfold passes. induction fs as [|f fs IH]; intros st V; cbn [fold_left flat_map].
    - cbv zeta. rewrite !app_nil_r. split; [reflexivity|split; [|reflexivity]].
      exists []. rewrite app_nil_r. split; [reflexivity|split; [reflexivity|intros x []]].
    - destruct (copy_pass_spec (fst f) (snd f) m st V) as (N1 & (app1 & S1 & R1 & B1) & L1).
      set (st' := copy_pass G (fst f) (snd f) m st) in *.
      assert (US : filter ssel app1 = []).
      { apply filter_nil. intros a Ha. apply B1, Ha. }
      assert (SS : same_selection st st').
      { split; [|split].
        - exists (node_block (fst f) m st). split; [exact N1|apply node_block_unsel].
        - exists app1. split; [exact S1|exact US].
        - exists (lab_block (snd f) m st). split; [exact L1|]. apply filter_nil. intros a Ha.
          unfold lab_block in Ha. destruct (mode_labels m); [|destruct Ha].
          apply in_map_iff in Ha. destruct Ha as [b [<- _]]. reflexivity. }
      assert (V' : sel_valid st').
      { intros x Hx Sx. rewrite S1 in Hx. apply in_app_or in Hx. destruct Hx as [Hx|Hx].
        - destruct (V x Hx Sx) as [P Q]. unfold NN in *. rewrite N1, app_length. lia.
        - destruct (B1 x Hx) as (_ & _ & C). congruence. }
      destruct (IH st' V') as (N2 & (app2 & S2 & R2 & B2) & L2). cbv zeta in *.
      set (r := fold_left (fun s f0 => copy_pass G (fst f0) (snd f0) m s) fs st') in *.
      assert (BL : forall g, node_block (fst g) m st' = node_block (fst g) m st /\
                             seg_block (fst g) m st' = seg_block (fst g) m st /\
                             lab_block (snd g) m st' = lab_block (snd g) m st)
        by (intros g; apply blocks_same_selection; auto).
      assert (F1 : flat_map (fun g => node_block (fst g) m st') fs = flat_map (fun g => node_block (fst g) m st) fs)
        by (apply flat_map_ext; intros g; apply BL).
      assert (F2 : flat_map (fun g => seg_block (fst g) m st') fs = flat_map (fun g => seg_block (fst g) m st) fs)
        by (apply flat_map_ext; intros g; apply BL).
      assert (F3 : flat_map (fun g => lab_block (snd g) m st') fs = flat_map (fun g => lab_block (snd g) m st) fs)
        by (apply flat_map_ext; intros g; apply BL).
      rewrite F1 in N2. rewrite F2 in R2. rewrite F3 in L2.
      split; [|split].
      + rewrite N2, N1, <- app_assoc. reflexivity.
      + exists (app1 ++ app2). split; [rewrite S2, S1, <- app_assoc; reflexivity|]. split.
        * rewrite map_app, R2. f_equal. rewrite <- R1. apply map_ext_in. intros x Hx.
          destruct (B1 x Hx) as (X0 & X1 & _). rewrite N2. apply resolve_app_l; assumption.
        * intros x Hx. apply in_app_or in Hx. destruct Hx as [Hx|Hx]; [|apply B2, Hx].
          destruct (B1 x Hx) as (X0 & X1 & X2). rewrite N2, app_length. repeat split; [lia|lia|exact X2].
      + rewrite L2, L1, <- app_assoc. reflexivity.
  Qed.

  Lemma translateCopy_raw_passes dx dy n m (st : drawingT) :
    translateCopy_raw G dx dy n m st =
    passes (map (fun nc => (g_translate G (g_times G nc dx) (g_times G nc dy),
                            fun l : labT => lsetpt (g_translate G (g_times G nc dx) (g_times G nc dy) (lpt l)) l)) (seq 0 n)) m st.
  Proof.
    unfold translateCopy_raw, passes. generalize (seq 0 n) as l. intros l. revert st.
    induction l as [|a l IH]; cbn; intros st; auto.
  Qed.

  Lemma rotateCopy_raw_passes c zs m (st : drawingT) :
    rotateCopy_raw G c zs m st =
    passes (map (fun z => (g_rotate G c z, fun l : labT => lsetpt (g_rotate G c z (lpt l)) l)) zs) m st.
  Proof.
    unfold rotateCopy_raw, passes. revert st. induction zs as [|a l IH]; cbn; intros st; auto.
  Qed.

  Lemma WF_sel_valid (st : drawingT) : WF st -> sel_valid st.
  Proof.
    intros W s Hs _. unfold WF in W. rewrite Forall_forall in W. destruct (W s Hs) as (A & B & _). auto.
  Qed.

  (* translateCopy before its enforcePSLG: what is appended, for every reading of the oracles *)
  Theorem translateCopy_raw_spec dx dy n m (st : drawingT) :
    WF st ->
    let tr nc := g_translate G (g_times G nc dx) (g_times G nc dy) in
    let r := translateCopy_raw G dx dy n m st in
    d_nodes r = d_nodes st ++ flat_map (fun nc => node_block (tr nc) m st) (seq 0 n) /\
    (exists app, d_segs r = d_segs st ++ app /\
                 map (resolve (d_nodes r)) app = flat_map (fun nc => seg_block (tr nc) m st) (seq 0 n)) /\
    d_labs r = d_labs st ++ flat_map (fun nc => lab_block (fun l => lsetpt (tr nc (lpt l)) l) m st) (seq 0 n).
  Proof.
    intros W. cbv zeta. rewrite translateCopy_raw_passes.
    destruct (passes_spec m (map (fun nc => (g_translate G (g_times G nc dx) (g_times G nc dy),
                            fun l : labT => lsetpt (g_translate G (g_times G nc dx) (g_times G nc dy) (lpt l)) l)) (seq 0 n))
                          st (WF_sel_valid st W)) as (A & (app & B1 & B2 & _) & C).
    cbv zeta in *. rewrite !flat_map_concat_map, map_map in A, B2, C. cbn [fst snd] in A, B2, C.
    rewrite <- !flat_map_concat_map in A, B2, C.
    split; [exact A|split; [exists app; split; [exact B1|exact B2]|exact C]].
  Qed.

  (* the copies carry the original's group and properties, are unselected, and sit at the image *)
  Lemma copy_node_fields fn (n : nodeT) :
    npt (copy_node fn n) = fn (npt n) /\ ngrp (copy_node fn n) = ngrp n /\ nprop (copy_node fn n) = nprop n /\
    nsel (copy_node fn n) = false.
  Proof. unfold copy_node, npt; cbn. destruct (fn (nx n, ny n)); auto. Qed.

  Lemma copy_lab_fields (fp : pt -> pt) (l : labT) :
    lpt (lsetsel false (lsetpt (fp (lpt l)) l)) = fp (lpt l) /\
    lgrp (lsetsel false (lsetpt (fp (lpt l)) l)) = lgrp l /\ lprop (lsetsel false (lsetpt (fp (lpt l)) l)) = lprop l /\
    larea (lsetsel false (lsetpt (fp (lpt l)) l)) = larea l /\ lsel (lsetsel false (lsetpt (fp (lpt l)) l)) = false.
  Proof. unfold lpt; cbn. destruct (fp (lx l, ly l)); auto. Qed.

  Lemma node_block_ext fn fn' m (st : drawingT) : (forall p, fn p = fn' p) -> node_block fn m st = node_block fn' m st.
  Proof.
    intros E. unfold node_block. f_equal.
    - destruct (mode_nodes m); auto. apply map_ext. intros n. unfold copy_node. rewrite E. reflexivity.
    - destruct (mode_lines m); auto. apply flat_map_ext. intros a. unfold pair_img, copy_node. rewrite !E. reflexivity.
  Qed.
  Lemma seg_block_ext fn fn' m (st : drawingT) : (forall p, fn p = fn' p) -> seg_block fn m st = seg_block fn' m st.
  Proof.
    intros E. unfold seg_block. destruct (mode_lines m); auto. apply map_ext. intros a.
    unfold seg_img, copy_node. rewrite !E. reflexivity.
  Qed.
  Lemma lab_block_ext (fp fp' : pt -> pt) m (st : drawingT) :
    (forall p, fp p = fp' p) ->
    lab_block (fun l => lsetpt (fp (lpt l)) l) m st = lab_block (fun l => lsetpt (fp' (lpt l)) l) m st.
  Proof.
    intros E. unfold lab_block. destruct (mode_labels m); auto. apply map_ext. intros a. rewrite E. reflexivity.
  Qed.

  (* ---- the metric guarantee of ONE command: after enforcePSLG all points are pairwise at least
     that command's tolerance apart (as the oracle tests it: earlier point against later point) --- *)
  Definition ptsof (st : drawingT) : list pt := map npt (d_nodes st).
  Definition far (d : F) (pts : list pt) : Prop :=
    forall i j, i < j -> j < length pts ->
      g_lt G (g_dist G (nth i pts (g_zero G, g_zero G)) (nth j pts (g_zero G, g_zero G))) d = false.

  Lemma far_snoc d pts q :
    far d pts -> (forall p, In p pts -> g_lt G (g_dist G p q) d = false) -> far d (pts ++ [q]).
  Proof.
    intros Hf Hq i j Hij Hj. rewrite app_length in Hj. cbn in Hj.
    destruct (Nat.eq_dec j (length pts)) as [->|Hn].
    - rewrite nth_middle. rewrite app_nth1 by lia. apply Hq. apply nth_In. lia.
    - rewrite !app_nth1 by lia. apply Hf; lia.
  Qed.

  Lemma far_addNode d (st : drawingT) nd : far d (ptsof st) -> far d (ptsof (addNode G st nd d)).
  Proof.
    intros H. destruct (addNode_cases st nd d) as [[-> _]|[-> [A _]]]; auto.
    unfold ptsof, addNode_added; cbn. rewrite map_app. cbn. apply far_snoc; auto.
    intros p Hp. apply in_map_iff in Hp. destruct Hp as [n [<- Hn]].
    destruct (g_lt G (g_dist G (npt n) (npt nd)) d) eqn:X; auto.
    assert (existsb (near_node G (npt nd) d) (d_nodes st) = true) by (apply existsb_exists; eauto). congruence.
  Qed.

  Lemma far_fold_addNode {X} (mk : X -> nodeT) d (xs : list X) : forall (st : drawingT),
    far d (ptsof st) -> far d (ptsof (fold_left (fun s x => addNode G s (mk x) d) xs st)).
  Proof. induction xs as [|x xs IH]; cbn; intros st H; auto. apply IH, far_addNode, H. Qed.

  Lemma ptsof_unselectAll (st : drawingT) : ptsof (unselectAll st) = ptsof st.
  Proof. unfold ptsof, unselectAll; cbn. rewrite map_map. apply map_ext. intros n. reflexivity. Qed.

  Lemma addSegment_far d : g_is0 G d = false -> forall fuel (st : drawingT) n0 n1 par,
    far d (ptsof st) -> far d (ptsof (addSegment G fuel st n0 n1 par d)).
  Proof.
    intros Z. induction fuel as [|fuel IH]; intros st n0 n1 par H; [exact H|].
    rewrite addSegment_S. destruct (Nat.eqb n0 n1); auto. destruct (dup_in n0 n1 (d_segs st)); auto.
    cbv zeta.
    assert (H3 : far d (ptsof (as_st3 st n0 n1 par d))).
    { unfold as_st3. rewrite ptsof_unselectAll. unfold ptsof; cbn. fold (ptsof (as_st1 st n0 n1 d)).
      unfold as_st1, as_tol. rewrite Z. apply far_fold_addNode. exact H. }
    assert (D : as_dmin st n0 n1 par d = d) by (unfold as_dmin; rewrite Z; reflexivity).
    rewrite D. destruct (find_first _ 0 _); [apply IH, IH; exact H3|exact H3].
  Qed.

  Lemma fold_addSegment_far fuel d (cl : drawingT -> seg -> nat * nat) (ls : list seg) : g_is0 G d = false ->
    forall (st : drawingT), far d (ptsof st) ->
    far d (ptsof (fold_left (fun s ln => addSegment G fuel s (fst (cl s ln)) (snd (cl s ln)) (Some ln) d) ls st)).
  Proof.
    intros Z. induction ls as [|l ls IH]; cbn; intros st H; auto. apply IH. apply addSegment_far; auto.
  Qed.

  Theorem enforcePSLG_min_distance fuel (st : drawingT) :
    g_is0 G (auto_tol G (d_nodes st)) = false ->
    far (auto_tol G (d_nodes st)) (ptsof (enforcePSLG G fuel st)).
  Proof.
    intros Z. unfold enforcePSLG. set (d := auto_tol G (d_nodes st)) in *.
    set (st0 := mkDrawing [] [] [] (d_oof st) (d_dsplit st)).
    set (st1 := fold_left (fun s nd => addNode G s nd d) (d_nodes st) st0).
    assert (F1 : far d (ptsof st1)).
    { apply (far_fold_addNode (fun nd : nodeT => nd)). intros i j _ Hj. cbn in Hj. lia. }
    pose proof (fold_addSegment_far fuel d
                  (fun s ln => (closestNode G s (pt_at G (d_nodes st) (s0 ln)), closestNode G s (pt_at G (d_nodes st) (s1 ln))))
                  (d_segs st) Z st1 F1) as F2.
    cbn [fst snd] in F2.
    match type of F2 with far d (ptsof ?x) => set (st2 := x) in * end.
    destruct (fold_addBlockLabel d (d_labs st) st2) as (A & _).
    rewrite ptsof_unselectAll. unfold ptsof. rewrite A. exact F2.
  Qed.

  (* boolean forms of the invariants, for the refutations by evaluation *)
  Definition wfb (st : drawingT) : bool :=
    forallb (fun s => Nat.ltb (s0 s) (NN st) && Nat.ltb (s1 s) (NN st) && negb (Nat.eqb (s0 s) (s1 s))) (d_segs st).
  Lemma WF_wfb (st : drawingT) : WF st -> wfb st = true.
  Proof.
    unfold WF, wfb. intros W. apply forallb_forall. intros s Hs. rewrite Forall_forall in W.
    destruct (W s Hs) as (A & B & C). apply Nat.ltb_lt in A, B. apply Nat.eqb_neq in C. rewrite A, B, C. reflexivity.
  Qed.
End Generic.

Definition sameb (s t : seg) : bool :=
  (Nat.eqb (s0 s) (s0 t) && Nat.eqb (s1 s) (s1 t)) || (Nat.eqb (s0 s) (s1 t) && Nat.eqb (s1 s) (s0 t)).
Fixpoint nodupb (l : list seg) : bool :=
  match l with [] => true | s :: r => negb (existsb (sameb s) r) && nodupb r end.
Lemma NoDupSeg_nodupb l : NoDupSeg l -> nodupb l = true.
Proof.
  induction l as [|a l IH]; cbn; auto. intros [H1 H2]. rewrite IH by auto. rewrite andb_true_r.
  apply negb_true_iff. destruct (existsb (sameb a) l) eqn:E; auto.
  apply existsb_exists in E. destruct E as [t [Ht S]]. rewrite Forall_forall in H1. exfalso. apply (H1 t Ht).
  unfold sameb in S. unfold same_seg. apply orb_true_iff in S.
  destruct S as [S|S]; apply andb_true_iff in S; destruct S as [A B]; apply Nat.eqb_eq in A, B; auto.
Qed.

(* ------------------------------------------------------------------------------------- *)
(* the real-number reading *)
Section RealReading.
  Local Open Scope R_scope.
  Local Notation nodeR := (@node R).
  Local Notation drawingR := (@drawing R).

  Lemma translate_real (dx dy : R) (nc : nat) (p : R * R) :
    g_translate (geoA RA) (g_times (geoA RA) nc dx) (g_times (geoA RA) nc dy) p =
    (fst p + INR (S nc) * dx, snd p + INR (S nc) * dy).
  Proof.
    cbn [g_translate g_times geoA]. unfold f_translate, ofnat. ra_simpl. rewrite <- INR_IZR_INZ. reflexivity.
  Qed.

  (* translateCopy before enforcePSLG, real reading: copy nc of an entity sits exactly at the
     entity's place translated by (nc+1)*(dx,dy) *)
  Theorem copies_at_transformed_coordinates (dx dy : R) (n m : nat) (st : drawingR) :
    WF st ->
    let tr (nc : nat) (p : R * R) := (fst p + INR (S nc) * dx, snd p + INR (S nc) * dy) in
    let r := translateCopy_raw (geoA RA) dx dy n m st in
    d_nodes r = d_nodes st ++ flat_map (fun nc => node_block (geoA RA) (tr nc) m st) (seq 0 n) /\
    (exists app, d_segs r = d_segs st ++ app /\
                 map (resolve (geoA RA) (d_nodes r)) app = flat_map (fun nc => seg_block (geoA RA) (tr nc) m st) (seq 0 n)) /\
    d_labs r = d_labs st ++ flat_map (fun nc => lab_block (fun l => lsetpt (tr nc (lpt l)) l) m st) (seq 0 n).
  Proof.
    intros W. cbv zeta. destruct (translateCopy_raw_spec (geoA RA) dx dy n m st W) as (A & (app & B1 & B2) & C).
    cbv zeta in *.
    assert (E : forall nc p, g_translate (geoA RA) (g_times (geoA RA) nc dx) (g_times (geoA RA) nc dy) p =
                             (fst p + INR (S nc) * dx, snd p + INR (S nc) * dy)) by (intros; apply translate_real).
    split; [|split].
    - rewrite A. f_equal. apply flat_map_ext. intros nc. apply node_block_ext. apply E.
    - exists app. split; [exact B1|]. rewrite B2. apply flat_map_ext. intros nc. apply seg_block_ext. apply E.
    - rewrite C. f_equal. apply flat_map_ext. intros nc.
      apply (lab_block_ext (g_translate (geoA RA) (g_times (geoA RA) nc dx) (g_times (geoA RA) nc dy))
                           (fun p => (fst p + INR (S nc) * dx, snd p + INR (S nc) * dy))). apply E.
  Qed.

  (* addNode, real reading: a point that is added is at least d away from every existing point
     and block label (for the d of that call) *)
  Theorem addNode_min_distance_real (st : drawingR) (nd : nodeR) (d : R) :
    length (d_nodes (addNode (geoA RA) st nd d)) <> length (d_nodes st) ->
    (forall n, In n (d_nodes st) -> d <= R_sqrt.sqrt ((nx n - nx nd) * (nx n - nx nd) + (ny n - ny nd) * (ny n - ny nd))) /\
    (forall l, In l (d_labs st) -> d <= R_sqrt.sqrt ((lx l - nx nd) * (lx l - nx nd) + (ly l - ny nd) * (ly l - ny nd))).
  Proof.
    intros H. destruct (addNode_respects_distance (geoA RA) st nd d H) as (_ & A & B). split.
    - intros n Hn. specialize (A n Hn). cbn [g_lt g_dist geoA] in A. unfold f_dist, npt in A. cbn [fst snd] in A. ra_simpl.
      apply Rltb_false in A. apply Rnot_lt_le. exact A.
    - intros l Hl. specialize (B l Hl). cbn [g_lt g_dist geoA] in B. unfold f_dist, npt, lpt in B. cbn [fst snd] in B. ra_simpl.
      apply Rltb_false in B. apply Rnot_lt_le. exact B.
  Qed.

  (* real reading of [far]: earlier/later points are at least d apart *)
  Lemma far_real (d : R) (pts : list (R * R)) :
    far (geoA RA) d pts ->
    forall i j, (i < j)%nat -> (j < length pts)%nat ->
      d <= R_sqrt.sqrt ((fst (nth i pts (0, 0)) - fst (nth j pts (0, 0))) * (fst (nth i pts (0, 0)) - fst (nth j pts (0, 0))) +
                        (snd (nth i pts (0, 0)) - snd (nth j pts (0, 0))) * (snd (nth i pts (0, 0)) - snd (nth j pts (0, 0)))).
  Proof.
    intros H i j Hij Hj. specialize (H i j Hij Hj). cbn [g_lt g_dist g_zero geoA] in H. unfold f_dist in H.
    ra_simpl. apply Rltb_false in H. apply Rnot_lt_le. exact H.
  Qed.
End RealReading.

(* ------------------------------------------------------------------------------------- *)
(* refutations of the naive global claims, by evaluating the binary64 reading of the model *)
Section Refutations.
  Local Open Scope float_scope.
  Local Notation opF := (@op float).

  (* F1: mi_selectsegment + mi_selectnode + mi_deleteselectednodes: the segment that was already
     selected is toggled OFF by deleteSelectedNodes, survives, and now joins point 0 with itself *)
  Definition ops_F1 : list opF :=
    [OAddNode 0 0; OAddNode 1 0; OAddSegment 0 0 1 0; OSelectSegment 0x1p-1 0; OSelectNode 0 0; ODeleteSelectedNodes].
  Lemma wf_unguarded_refuted : exists ops : list opF, ~ WF (run (geoA FA) false FUEL ops empty).
  Proof.
    exists ops_F1. intros W. apply WF_wfb in W. revert W. vm_compute. discriminate.
  Qed.
  (* the same commands on the repaired code: the selected segment goes with its end point *)
  Lemma F1_repaired_state :
    d_segs (run (geoA FA) true FUEL ops_F1 empty) = [] /\ length (d_nodes (run (geoA FA) true FUEL ops_F1 empty)) = 1%nat.
  Proof. vm_compute. auto. Qed.
  Lemma F1_final_state :
    map (fun s => (s0 s, s1 s)) (d_segs (run (geoA FA) false FUEL ops_F1 empty)) = [(0, 0)%nat] /\
    length (d_nodes (run (geoA FA) false FUEL ops_F1 empty)) = 1%nat.
  Proof. vm_compute. auto. Qed.

  (* F2: a point within the tolerance of two segments that share an end point splits both:
     the two first halves are the same segment *)
  Definition ops_F2 : list opF :=
    [OAddNode 0 0; OAddNode 1 0; OAddNode 1 0x1.4f8b588e368f1p-16;
     OAddSegment 0 0 1 0; OAddSegment 0 0 1 0x1.4f8b588e368f1p-16;
     OAddNode 0x1.999999999999ap-5 0x1.0c6f7a0b5ed8dp-21].
  Lemma nodup_unflagged_refuted :
    exists ops : list opF, guarded (geoA FA) false FUEL empty ops /\ ~ NoDupSeg (d_segs (run (geoA FA) false FUEL ops empty)).
  Proof.
    exists ops_F2. split.
    - apply guarded_no_delnodes. reflexivity.
    - intros N. apply NoDupSeg_nodupb in N. revert N. vm_compute. discriminate.
  Qed.
  Lemma F2_final_state :
    map (fun s => (s0 s, s1 s)) (d_segs (run (geoA FA) false FUEL ops_F2 empty)) = [(0, 3); (0, 3); (3, 1); (3, 2)]%nat /\
    d_dsplit (run (geoA FA) false FUEL ops_F2 empty) = true.
  Proof. vm_compute. auto. Qed.

  (* F3: "no two points closer than the snap tolerance" is not an invariant: the tolerance is
     recomputed from the bounding box by every command, earlier points are never re-examined *)
  Definition snap_ok (st : @drawing float) : bool :=
    let d := auto_tol (geoA FA) (d_nodes st) in
    (fix go (l : list (@node float)) : bool :=
       match l with
       | [] => true
       | a :: r => forallb (fun b => negb (g_lt (geoA FA) (g_dist (geoA FA) (npt a) (npt b)) d)) r && go r
       end) (d_nodes st).
  Definition ops_F3 : list opF := [OAddNode 0 0; OAddNode 0x1.ad7f29abcaf48p-24 0; OAddNode 1000 0].
  Lemma snap_tolerance_global_refuted :
    exists ops : list opF, guarded (geoA FA) false FUEL empty ops /\ snap_ok (run (geoA FA) false FUEL ops empty) = false.
  Proof.
    exists ops_F3. split; [apply guarded_no_delnodes; reflexivity|]. vm_compute. reflexivity.
  Qed.

  (* F6: when all points of the drawing handed to enforcePSLG coincide its tolerance is 0 and nothing
     is merged: two points stay at the same place (and the segment between them is dropped) *)
  Definition distinct_pts (st : @drawing float) : bool :=
    (fix go (l : list (@node float)) : bool :=
       match l with
       | [] => true
       | a :: r => forallb (fun b => negb (PrimFloat.eqb (nx a) (nx b) && PrimFloat.eqb (ny a) (ny b))) r && go r
       end) (d_nodes st).
  Definition ops_F6 : list opF :=
    [OAddNode 0 0; OAddNode 1 0; OAddSegment 0 0 1 0; OSelectNode 0 0; OMoveTranslate 1 0 0].
  Lemma coincident_points_refuted :
    exists ops : list opF,
      guarded (geoA FA) false FUEL empty ops /\ (distinct_pts (run (geoA FA) false FUEL ops empty) = false) /\
      (length (d_segs (run (geoA FA) false FUEL ops empty)) = 0%nat).
  Proof.
    exists ops_F6. split; [apply guarded_no_delnodes; reflexivity|]. vm_compute. auto.
  Qed.

  (* non-vacuity: a reachable drawing with segments, on which every hypothesis used above holds *)
  Definition ops_ex : list opF :=
    [OAddNode 0 0; OAddNode 2 0; OAddNode 1 0; OAddNode 1 1; OAddSegment 0 0 2 0; OAddSegment 1 0 1 1;
     OSelectSegment 1 0x1p-1; OCopyTranslate 0 1 2 1].
  Lemma example_reachable :
    guarded (geoA FA) false FUEL empty ops_ex /\
    length (d_segs (run (geoA FA) false FUEL ops_ex empty)) = 5%nat /\
    length (d_nodes (run (geoA FA) false FUEL ops_ex empty)) = 6%nat /\
    d_dsplit (run (geoA FA) false FUEL ops_ex empty) = false /\ d_oof (run (geoA FA) false FUEL ops_ex empty) = false.
  Proof. split; [apply guarded_no_delnodes; reflexivity|]. vm_compute. auto. Qed.

  (* the hypotheses of the deletion, copy and metric theorems hold on that reachable drawing *)
  Lemma example_hypotheses :
    let st := run (geoA FA) false FUEL ops_ex empty in
    WF st /\ segs_unselected st /\ sel_valid st /\ g_is0 (geoA FA) (auto_tol (geoA FA) (d_nodes st)) = false.
  Proof.
    cbv zeta.
    assert (W : WF (run (geoA FA) false FUEL ops_ex empty)).
    { apply wf_reachable. apply guarded_no_delnodes. reflexivity. }
    split; [exact W|]. split; [|split; [apply WF_sel_valid; exact W|vm_compute; reflexivity]].
    intros s Hs.
    assert (E : forallb (fun s => negb (ssel s)) (d_segs (run (geoA FA) false FUEL ops_ex empty)) = true) by (vm_compute; reflexivity).
    rewrite forallb_forall in E. apply negb_true_iff. apply E. exact Hs.
  Qed.
End Refutations.
