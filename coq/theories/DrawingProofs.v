(* DrawingProofs.v — proofs about the drawing-edit model Drawing.v (property C16).
   Everything in Section Generic holds for EVERY record of geometric oracles [G : Geo F]. *)
From Coq Require Import ZArith List Bool Arith Lia Reals Lra Floats.
From XF Require Import Arith Drawing.
Import ListNotations.

(* ------------------------------------------------------------------------------------- *)
(* structural well-formedness of the segment list, and absence of duplicated segments *)
Definition seg_ok (N : nat) (s : seg) : Prop := s0 s < N /\ s1 s < N /\ s0 s <> s1 s.
Definition same_seg (s t : seg) : Prop :=
  (s0 s = s0 t /\ s1 s = s1 t) \/ (s0 s = s1 t /\ s1 s = s0 t).
Fixpoint NoDupSeg (l : list seg) : Prop :=
  match l with
  | [] => True
  | s :: r => Forall (fun t => ~ same_seg s t) r /\ NoDupSeg r
  end.
Definition ends (l : list seg) : list (nat * nat) := map (fun s => (s0 s, s1 s)) l.

Lemma seg_ok_mono N M s : N <= M -> seg_ok N s -> seg_ok M s.
Proof. unfold seg_ok; lia. Qed.

Lemma same_seg_refl s : same_seg s s.
Proof. left; auto. Qed.
Lemma same_seg_sym s t : same_seg s t -> same_seg t s.
Proof. unfold same_seg; intuition. Qed.

Lemma Forall_ok_ends N l l' : ends l = ends l' -> Forall (seg_ok N) l -> Forall (seg_ok N) l'.
Proof.
  revert l'; induction l as [|a l IH]; intros [|b l'] E H; try discriminate; auto.
  cbn in E. injection E as E0 E1 E. inversion H; subst.
  constructor; [|eapply IH; eauto]. unfold seg_ok in *. rewrite <- E0, <- E1. assumption.
Qed.

Lemma NoDupSeg_ends l l' : ends l = ends l' -> NoDupSeg l -> NoDupSeg l'.
Proof.
  revert l'; induction l as [|a l IH]; intros [|b l'] E H; try discriminate; auto.
  cbn in E. injection E as E0 E1 E. destruct H as [H1 H2]. split; [|eapply IH; eauto].
  clear IH H2. revert l' E. induction l as [|c l IH]; intros [|c' l'] E; try discriminate; auto.
  cbn in E. injection E as F0 F1 E. inversion H1; subst. constructor; [|eapply IH; eauto].
  unfold same_seg in *. rewrite <- E0, <- E1, <- F0, <- F1. assumption.
Qed.

Lemma NoDupSeg_app l1 l2 :
  NoDupSeg (l1 ++ l2) <->
  NoDupSeg l1 /\ NoDupSeg l2 /\ (forall a b, In a l1 -> In b l2 -> ~ same_seg a b).
Proof.
  induction l1 as [|a l1 IH]; cbn.
  - intuition.
  - rewrite Forall_app, IH. split.
    + intros [[H1 H2] [H3 [H4 H5]]]. repeat split; auto.
      intros x b [->|Hx] Hb; [|eauto]. rewrite Forall_forall in H2. auto.
    + intros [[H1 H2] [H3 H4]]. repeat split; auto.
      rewrite Forall_forall. intros b Hb. apply H4; auto.
Qed.

Lemma NoDupSeg_In l a b : NoDupSeg l -> In a l -> In b l -> same_seg a b -> a = b.
Proof.
  induction l as [|c l IH]; cbn; [tauto|]. intros [H1 H2] Ha Hb S.
  rewrite Forall_forall in H1.
  destruct Ha as [->|Ha], Hb as [->|Hb]; auto.
  - exfalso. eapply H1; eauto.
  - exfalso. eapply H1; eauto. apply same_seg_sym; auto.
Qed.

Lemma NoDupSeg_filter f l : NoDupSeg l -> NoDupSeg (filter f l).
Proof.
  induction l as [|a l IH]; cbn; auto. intros [H1 H2]. destruct (f a); cbn; auto.
  split; auto. rewrite Forall_forall in *. intros t Ht. apply filter_In in Ht. apply H1, Ht.
Qed.

Lemma NoDupSeg_map f l :
  (forall a b, In a l -> In b l -> ~ same_seg a b -> ~ same_seg (f a) (f b)) ->
  NoDupSeg l -> NoDupSeg (map f l).
Proof.
  induction l as [|a l IH]; cbn; auto. intros Hf [H1 H2]. split.
  - rewrite Forall_forall in *. intros t Ht. apply in_map_iff in Ht. destruct Ht as [b [<- Hb]].
    apply Hf; auto.
  - apply IH; auto.
Qed.

Lemma seg_eq_dec : forall a b : seg, {a = b} + {a <> b}.
Proof. decide equality; try apply Nat.eq_dec; apply Bool.bool_dec. Qed.

Section Generic.
  Context {F : Type}.
  Variable G : Geo F.
  Local Notation pt := (F * F)%type.
  Local Notation nodeT := (@node F).
  Local Notation labT := (@lab F).
  Local Notation drawingT := (@drawing F).
  Local Notation opT := (@op F).

  Definition NN (st : drawingT) : nat := length (d_nodes st).
  Definition WF (st : drawingT) : Prop := Forall (seg_ok (NN st)) (d_segs st).
  (* the duplicate-freeness invariant, up to the ghost flag of a double split *)
  Definition Inv2 (st : drawingT) : Prop :=
    WF st /\ (d_dsplit st = true \/ NoDupSeg (d_segs st)).

  Lemma WF_transfer (st st' : drawingT) :
    NN st <= NN st' -> ends (d_segs st) = ends (d_segs st') -> WF st -> WF st'.
  Proof.
    unfold WF. intros HN E H. eapply Forall_ok_ends; eauto.
    eapply Forall_impl; [|exact H]. intros s. apply seg_ok_mono; auto.
  Qed.

  (* ---- small list facts ---------------------------------------------------------------- *)
  Lemma upd_nth_length {T} (l : list T) i f : length (upd_nth l i f) = length l.
  Proof. revert i; induction l; intros [|i]; cbn; auto. Qed.

  Lemma ends_upd_nth l i f :
    (forall s, s0 (f s) = s0 s /\ s1 (f s) = s1 s) -> ends (upd_nth l i f) = ends l.
  Proof.
    intros Hf. revert i; induction l as [|a l IH]; intros [|i]; cbn; auto.
    - destruct (Hf a) as [-> ->]. reflexivity.
    - f_equal. apply IH.
  Qed.

  Lemma ends_map_same (f : seg -> seg) l :
    (forall s, s0 (f s) = s0 s /\ s1 (f s) = s1 s) -> ends (map f l) = ends l.
  Proof.
    intros Hf. induction l as [|a l IH]; cbn; auto. destruct (Hf a) as [-> ->]. f_equal. apply IH.
  Qed.

  (* ---- unselectAll, toggles, deleteSelectedSegments ------------------------------------- *)
  Lemma unselectAll_NN (st : drawingT) : NN (unselectAll st) = NN st.
  Proof. unfold NN, unselectAll; cbn. apply map_length. Qed.
  Lemma unselectAll_ends (st : drawingT) : ends (d_segs (unselectAll st)) = ends (d_segs st).
  Proof. unfold unselectAll; cbn. apply ends_map_same. intros; cbn; auto. Qed.
  Lemma unselectAll_dsplit (st : drawingT) : d_dsplit (unselectAll st) = d_dsplit st.
  Proof. reflexivity. Qed.

  Lemma WF_unselectAll (st : drawingT) : WF st -> WF (unselectAll st).
  Proof.
    apply WF_transfer; [rewrite unselectAll_NN; auto | symmetry; apply unselectAll_ends].
  Qed.

  Lemma Inv2_ends (st st' : drawingT) :
    NN st <= NN st' -> ends (d_segs st) = ends (d_segs st') -> d_dsplit st' = d_dsplit st ->
    Inv2 st -> Inv2 st'.
  Proof.
    intros HN E D [H1 H2]. split; [eapply WF_transfer; eauto|].
    rewrite D. destruct H2; [left; auto|right; eapply NoDupSeg_ends; eauto].
  Qed.

  Lemma Inv2_unselectAll (st : drawingT) : Inv2 st -> Inv2 (unselectAll st).
  Proof.
    apply Inv2_ends; [rewrite unselectAll_NN; auto | symmetry; apply unselectAll_ends | reflexivity].
  Qed.

  Lemma toggle_seg_ends (st : drawingT) k : ends (d_segs (toggle_seg st k)) = ends (d_segs st).
  Proof. unfold toggle_seg; cbn. apply ends_upd_nth. intros; cbn; auto. Qed.

  Lemma Inv2_toggle_seg (st : drawingT) k : Inv2 st -> Inv2 (toggle_seg st k).
  Proof. apply Inv2_ends; [apply Nat.le_refl | symmetry; apply toggle_seg_ends | reflexivity]. Qed.

  Lemma Inv2_deleteSelectedSegments (st : drawingT) : Inv2 st -> Inv2 (deleteSelectedSegments st).
  Proof.
    intros [H1 H2]. split.
    - unfold WF, deleteSelectedSegments in *; cbn. apply Forall_forall. intros s Hs.
      apply filter_In in Hs. rewrite Forall_forall in H1. apply H1, Hs.
    - cbn. destruct H2; [left; auto|right; apply NoDupSeg_filter; auto].
  Qed.

  (* ---- closestNode returns an index of the list ------------------------------------------ *)
  Lemma argmin_from_bound ds : forall i best d0 M,
    best < M -> i + length ds <= M -> argmin_from G ds i best d0 < M.
  Proof.
    induction ds as [|d ds IH]; cbn; intros; auto.
    destruct (g_lt G d d0); apply IH; lia.
  Qed.

  Lemma argmin_bound ds : ds <> [] -> argmin G ds < length ds.
  Proof.
    destruct ds as [|d ds]; [congruence|]. intros _. unfold argmin.
    apply argmin_from_bound; cbn; lia.
  Qed.

  Lemma closestNode_bound (st : drawingT) q : d_nodes st <> [] -> closestNode G st q < NN st.
  Proof.
    intros H. unfold closestNode, NN. rewrite <- (map_length (fun n => g_dist G (npt n) q)).
    apply argmin_bound. destruct (d_nodes st); [congruence|discriminate].
  Qed.

  Lemma closestNode_empty (st : drawingT) q : d_nodes st = [] -> closestNode G st q = 0.
  Proof. intros H. unfold closestNode. rewrite H. reflexivity. Qed.

  Lemma closest_pair (st : drawingT) q1 q2 :
    closestNode G st q1 = closestNode G st q2 \/
    (closestNode G st q1 < NN st /\ closestNode G st q2 < NN st).
  Proof.
    destruct (d_nodes st) eqn:E.
    - left. rewrite !closestNode_empty; auto.
    - right. split; apply closestNode_bound; congruence.
  Qed.

  (* ---- addNode ----------------------------------------------------------------------------- *)
  Definition addNode_added (st : drawingT) (nd : nodeT) (d : F) : drawingT :=
    let k := length (d_nodes st) in
    let nodes' := d_nodes st ++ [nd] in
    let hit := on_seg G nodes' (npt nd) d in
    mkDrawing nodes'
      (map (fun s => if hit s then sset1 k s else s) (d_segs st) ++ map (sset0 k) (filter hit (d_segs st)))
      (d_labs st) (d_oof st) (d_dsplit st || any_share (filter hit (d_segs st))).

  Lemma addNode_cases (st : drawingT) nd d :
    (addNode G st nd d = st /\
     (existsb (near_node G (npt nd) d) (d_nodes st) = true \/ existsb (near_lab G (npt nd) d) (d_labs st) = true)) \/
    (addNode G st nd d = addNode_added st nd d /\
     existsb (near_node G (npt nd) d) (d_nodes st) = false /\
     existsb (near_lab G (npt nd) d) (d_labs st) = false).
  Proof.
    unfold addNode, addNode_added.
    destruct (existsb (near_node G (npt nd) d) (d_nodes st)); [left; auto|].
    destruct (existsb (near_lab G (npt nd) d) (d_labs st)); [left; auto|].
    right; auto.
  Qed.

  Lemma seg_share_sym s t : seg_share s t = seg_share t s.
  Proof.
    unfold seg_share.
    rewrite (Nat.eqb_sym (s0 s) (s0 t)), (Nat.eqb_sym (s0 s) (s1 t)),
            (Nat.eqb_sym (s1 s) (s0 t)), (Nat.eqb_sym (s1 s) (s1 t)).
    destruct (s0 t =? s0 s), (s1 t =? s0 s), (s0 t =? s1 s), (s1 t =? s1 s); reflexivity.
  Qed.

  Lemma any_share_false l a b :
    any_share l = false -> In a l -> In b l -> a <> b -> seg_share a b = false.
  Proof.
    induction l as [|c l IH]; cbn; [tauto|]. intros H Ha Hb N.
    apply orb_false_iff in H. destruct H as [H1 H2].
    assert (E : forall t, In t l -> seg_share c t = false).
    { intros t Ht. destruct (seg_share c t) eqn:E; auto.
      assert (existsb (seg_share c) l = true) by (apply existsb_exists; eauto). congruence. }
    destruct Ha as [->|Ha], Hb as [->|Hb]; auto; try congruence.
    rewrite seg_share_sym. auto.
  Qed.

  Lemma seg_share_false s t :
    seg_share s t = false -> s0 s <> s0 t /\ s0 s <> s1 t /\ s1 s <> s0 t /\ s1 s <> s1 t.
  Proof.
    unfold seg_share. intros H. repeat (apply orb_false_iff in H; destruct H as [H ?]).
    repeat match goal with H : (_ =? _) = false |- _ => apply Nat.eqb_neq in H end. auto.
  Qed.

  Lemma Inv2_addNode_added (st : drawingT) nd d : Inv2 st -> Inv2 (addNode_added st nd d).
  Proof.
    intros [W D]. unfold addNode_added.
    set (k := length (d_nodes st)). set (nodes' := d_nodes st ++ [nd]).
    set (hit := on_seg G nodes' (npt nd) d).
    assert (Wk : forall s, In s (d_segs st) -> s0 s < k /\ s1 s < k /\ s0 s <> s1 s).
    { intros s Hs. unfold WF in W. rewrite Forall_forall in W. apply W, Hs. }
    split.
    - unfold WF, NN; cbn. unfold nodes'. rewrite app_length; cbn. fold k.
      apply Forall_app. split; apply Forall_forall; intros s Hs; apply in_map_iff in Hs;
        destruct Hs as [a [<- Ha]].
      + destruct (Wk a Ha) as (A & B & C). destruct (hit a); unfold seg_ok; cbn; lia.
      + apply filter_In in Ha. destruct (Wk a (proj1 Ha)) as (A & B & C). unfold seg_ok; cbn; lia.
    - cbn. destruct D as [D|D]; [left; rewrite D; auto|].
      destruct (any_share (filter hit (d_segs st))) eqn:AS; [left; apply orb_true_r|right].
      assert (SH : forall a b, In a (d_segs st) -> In b (d_segs st) -> hit a = true -> hit b = true ->
                   a <> b -> s0 a <> s0 b /\ s0 a <> s1 b /\ s1 a <> s0 b /\ s1 a <> s1 b).
      { intros a b Ha Hb Ta Tb N. apply seg_share_false.
        eapply any_share_false; eauto; apply filter_In; auto. }
      apply NoDupSeg_app. repeat split.
      + apply NoDupSeg_map; auto. intros a b Ha Hb N S.
        assert (AB : a <> b) by (intros ->; apply N, same_seg_refl).
        destruct (Wk a Ha) as (A1 & A2 & A3), (Wk b Hb) as (B1 & B2 & B3).
        destruct (hit a) eqn:Ta, (hit b) eqn:Tb; unfold same_seg in *; cbn in *.
        * destruct (SH a b Ha Hb Ta Tb AB) as (? & ? & ? & ?). lia.
        * lia.
        * lia.
        * tauto.
      + apply NoDupSeg_map; [|apply NoDupSeg_filter; auto]. intros a b Ha Hb N S.
        apply filter_In in Ha, Hb. destruct Ha as [Ha Ta], Hb as [Hb Tb].
        assert (AB : a <> b) by (intros ->; apply N, same_seg_refl).
        destruct (Wk a Ha) as (A1 & A2 & A3), (Wk b Hb) as (B1 & B2 & B3).
        destruct (SH a b Ha Hb Ta Tb AB) as (? & ? & ? & ?).
        unfold same_seg in *; cbn in *. lia.
      + intros x y Hx Hy S. apply in_map_iff in Hx, Hy.
        destruct Hx as [a [<- Ha]], Hy as [b [<- Hb]]. apply filter_In in Hb. destruct Hb as [Hb Tb].
        destruct (Wk a Ha) as (A1 & A2 & A3), (Wk b Hb) as (B1 & B2 & B3).
        destruct (hit a) eqn:Ta; unfold same_seg in S; cbn in S; [|lia].
        assert (E : s0 a = s1 b) by lia.
        destruct (seg_eq_dec a b) as [->|AB]; [lia|].
        destruct (SH a b Ha Hb Ta Tb AB) as (? & ? & ? & ?). lia.
  Qed.

  (* how a later state extends an earlier one: nodes are only appended, the ghost flag is sticky *)
  Definition ext (st st' : drawingT) : Prop :=
    NN st <= NN st' /\ (d_dsplit st = true -> d_dsplit st' = true).
  Lemma ext_refl (st : drawingT) : ext st st.
  Proof. split; auto. Qed.
  Lemma ext_trans (a b c : drawingT) : ext a b -> ext b c -> ext a c.
  Proof. unfold ext. intros [? ?] [? ?]. split; [lia|auto]. Qed.

  (* segments of a later state: either already there, or touching a node that is new *)
  Definition fresh_or_old (N0 : nat) (old l : list seg) : Prop :=
    forall s, In s l -> In s old \/ N0 <= s0 s \/ N0 <= s1 s.

  Lemma ext_addNode_added (st : drawingT) nd d : ext st (addNode_added st nd d).
  Proof.
    unfold ext, NN, addNode_added; cbn. rewrite app_length; cbn. split; [lia|].
    intros ->. reflexivity.
  Qed.

  Lemma Inv2_addNode (st : drawingT) nd d : Inv2 st -> Inv2 (addNode G st nd d).
  Proof.
    intros H. destruct (addNode_cases st nd d) as [[-> _]|[-> _]]; auto. apply Inv2_addNode_added; auto.
  Qed.
  Lemma ext_addNode (st : drawingT) nd d : ext st (addNode G st nd d).
  Proof.
    destruct (addNode_cases st nd d) as [[-> _]|[-> _]]; [apply ext_refl|apply ext_addNode_added].
  Qed.
  Lemma fresh_addNode (st : drawingT) nd d N0 old :
    N0 <= NN st -> fresh_or_old N0 old (d_segs st) -> fresh_or_old N0 old (d_segs (addNode G st nd d)).
  Proof.
    intros HN H. destruct (addNode_cases st nd d) as [[-> _]|[-> _]]; auto.
    unfold addNode_added; cbn. intros s Hs. apply in_app_or in Hs.
    destruct Hs as [Hs|Hs]; apply in_map_iff in Hs; destruct Hs as [a [<- Ha]].
    - destruct (on_seg G (d_nodes st ++ [nd]) (npt nd) d a); [|auto].
      right; right; cbn. exact HN.
    - right; left; cbn. exact HN.
  Qed.

  Lemma fold_addNode {X} (mk : X -> nodeT) (t : F) (xs : list X) : forall (st : drawingT) N0 old,
    Inv2 st -> N0 <= NN st -> fresh_or_old N0 old (d_segs st) ->
    let st1 := fold_left (fun s x => addNode G s (mk x) t) xs st in
    Inv2 st1 /\ ext st st1 /\ fresh_or_old N0 old (d_segs st1).
  Proof.
    induction xs as [|x xs IH]; cbn; intros st N0 old I HN Fr.
    - split; [auto|split; [apply ext_refl|auto]].
    - pose proof (ext_addNode st (mk x) t) as E.
      destruct (IH (addNode G st (mk x) t) N0 old) as (A & B & C).
      + apply Inv2_addNode; auto.
      + destruct E; lia.
      + apply fresh_addNode; auto.
      + split; [auto|split; [eapply ext_trans; eauto|auto]].
  Qed.

  (* ---- addSegment --------------------------------------------------------------------------- *)
  Definition seg_proto (n0 n1 : nat) (par : option seg) : seg :=
    match par with Some p => mkSeg n0 n1 false (sgrp p) (sprop p) | None => new_seg n0 n1 end.
  Definition as_tol (st : drawingT) (tol : F) : F :=
    if g_is0 G tol then auto_tol G (d_nodes st) else tol.
  Definition as_st1 (st : drawingT) (n0 n1 : nat) (tol : F) : drawingT :=
    fold_left (fun s p => addNode G s (new_node p) (as_tol st tol)) (intersections G st n0 n1 (d_segs st)) st.
  Definition as_st3 (st : drawingT) (n0 n1 : nat) (par : option seg) (tol : F) : drawingT :=
    let st1 := as_st1 st n0 n1 tol in
    unselectAll (set_segs st1 (d_segs st1 ++ [seg_proto n0 n1 par])).
  Definition as_dmin (st : drawingT) (n0 n1 : nat) (par : option seg) (tol : F) : F :=
    let nodes := d_nodes (as_st3 st n0 n1 par tol) in
    if g_is0 G tol then g_dmin G (g_cabs G (pt_at G nodes n1) (pt_at G nodes n0)) else tol.
  Definition as_par' (n0 n1 : nat) (par : option seg) : option seg :=
    match par with Some _ => Some (seg_proto n0 n1 par) | None => None end.
  Definition dup_in (n0 n1 : nat) (l : list seg) : bool :=
    existsb (fun s => (Nat.eqb (s0 s) n0 && Nat.eqb (s1 s) n1) || (Nat.eqb (s0 s) n1 && Nat.eqb (s1 s) n0)) l.

  Lemma addSegment_S fuel (st : drawingT) n0 n1 par tol :
    addSegment G (S fuel) st n0 n1 par tol =
    if Nat.eqb n0 n1 then st
    else if dup_in n0 n1 (d_segs st) then st
    else
      let st3 := as_st3 st n0 n1 par tol in
      let dmin := as_dmin st n0 n1 par tol in
      match find_first (passes_through G (d_nodes st3) n0 n1 dmin) 0 (length (d_nodes st3)) with
      | None => st3
      | Some i =>
          let st4 := deleteSelectedSegments (toggle_seg st3 (length (d_segs st3) - 1)) in
          addSegment G fuel (addSegment G fuel st4 n0 i (as_par' n0 n1 par) dmin) i n1 (as_par' n0 n1 par) dmin
      end.
  Proof. destruct par; reflexivity. Qed.

  Lemma find_first_spec f : forall n i j, find_first f i n = Some j -> i <= j < i + n /\ f j = true.
  Proof.
    induction n as [|n IH]; cbn; intros i j H; [discriminate|].
    destruct (f i) eqn:E.
    - injection H as <-. split; [lia|auto].
    - apply IH in H. split; [lia|tauto].
  Qed.

  Lemma seg_proto_ends n0 n1 par : s0 (seg_proto n0 n1 par) = n0 /\ s1 (seg_proto n0 n1 par) = n1.
  Proof. destruct par; cbn; auto. Qed.

  Lemma dup_in_false n0 n1 l s :
    dup_in n0 n1 l = false -> In s l -> ~ ((s0 s = n0 /\ s1 s = n1) \/ (s0 s = n1 /\ s1 s = n0)).
  Proof.
    unfold dup_in. intros H Hs C.
    assert (existsb (fun s => (Nat.eqb (s0 s) n0 && Nat.eqb (s1 s) n1) || (Nat.eqb (s0 s) n1 && Nat.eqb (s1 s) n0)) l = true).
    { apply existsb_exists. exists s. split; auto.
      destruct C as [[-> ->]|[-> ->]]; rewrite !Nat.eqb_refl; cbn; auto. apply orb_true_r. }
    congruence.
  Qed.

  Lemma Inv2_as_st3 (st : drawingT) n0 n1 par tol :
    Inv2 st -> n0 <> n1 -> n0 < NN st -> n1 < NN st -> dup_in n0 n1 (d_segs st) = false ->
    Inv2 (as_st3 st n0 n1 par tol) /\ ext st (as_st3 st n0 n1 par tol).
  Proof.
    intros I Hne H0 H1 Hd. unfold as_st3.
    destruct (fold_addNode (@new_node F) (as_tol st tol) (intersections G st n0 n1 (d_segs st)) st (NN st) (d_segs st))
      as (A & B & C); auto.
    { intros s Hs; auto. }
    fold (as_st1 st n0 n1 tol) in A, B, C. set (st1 := as_st1 st n0 n1 tol) in *.
    destruct (seg_proto_ends n0 n1 par) as [P0 P1].
    assert (I2 : Inv2 (set_segs st1 (d_segs st1 ++ [seg_proto n0 n1 par]))).
    { destruct A as [W D]. destruct B as [BN BD]. split.
      - unfold WF in *. cbn. apply Forall_app. split; [exact W|]. constructor; [|constructor].
        unfold seg_ok. rewrite P0, P1. unfold NN in *. cbn. lia.
      - cbn. destruct D as [D|D]; [left; auto|right].
        apply NoDupSeg_app. repeat split; cbn; auto.
        intros a b Ha [<-|[]] S. unfold same_seg in S. rewrite P0, P1 in S.
        destruct (C a Ha) as [Hold|Hnew].
        + eapply dup_in_false; eauto.
        + lia. }
    split.
    - apply Inv2_unselectAll; auto.
    - destruct B as [BN BD]. split; [rewrite unselectAll_NN; exact BN|exact BD].
  Qed.

  Lemma addSegment_Inv2 : forall fuel (st : drawingT) n0 n1 par tol,
    Inv2 st -> (n0 = n1 \/ (n0 < NN st /\ n1 < NN st)) ->
    Inv2 (addSegment G fuel st n0 n1 par tol) /\ ext st (addSegment G fuel st n0 n1 par tol).
  Proof.
    induction fuel as [|fuel IH]; intros st n0 n1 par tol I H.
    - cbn. split; [destruct I as [W D]; split; auto|split; auto].
    - rewrite addSegment_S. destruct (Nat.eqb n0 n1) eqn:E; [split; [auto|apply ext_refl]|].
      apply Nat.eqb_neq in E. destruct H as [H|[H0 H1]]; [congruence|].
      destruct (dup_in n0 n1 (d_segs st)) eqn:Hd; [split; [auto|apply ext_refl]|].
      destruct (Inv2_as_st3 st n0 n1 par tol I E H0 H1 Hd) as [I3 E3].
      cbv zeta. set (st3 := as_st3 st n0 n1 par tol) in *. set (dmin := as_dmin st n0 n1 par tol).
      destruct (find_first (passes_through G (d_nodes st3) n0 n1 dmin) 0 (length (d_nodes st3))) as [i|] eqn:FF; [|auto].
      apply find_first_spec in FF. destruct FF as [Hi _].
      set (st4 := deleteSelectedSegments (toggle_seg st3 (length (d_segs st3) - 1))).
      assert (I4 : Inv2 st4) by (apply Inv2_deleteSelectedSegments, Inv2_toggle_seg; auto).
      assert (E4 : ext st st4) by (destruct E3 as [A B]; split; [exact A|exact B]).
      assert (N4 : NN st4 = NN st3) by reflexivity.
      destruct (IH st4 n0 i (as_par' n0 n1 par) dmin I4) as [I5 E5].
      { right. destruct E3 as [A _]. rewrite N4. unfold NN in *. lia. }
      destruct (IH (addSegment G fuel st4 n0 i (as_par' n0 n1 par) dmin) i n1 (as_par' n0 n1 par) dmin I5) as [I6 E6].
      { right. destruct E3 as [A _], E5 as [B _]. rewrite N4 in B. unfold NN in *. lia. }
      split; auto. eapply ext_trans; [exact E4|]. eapply ext_trans; eauto.
  Qed.

  (* ---- addBlockLabel and the label deletions touch only the label list ---------------------- *)
  Lemma addBlockLabel_frame (st : drawingT) lb d :
    d_nodes (addBlockLabel G st lb d) = d_nodes st /\ d_segs (addBlockLabel G st lb d) = d_segs st /\
    d_dsplit (addBlockLabel G st lb d) = d_dsplit st /\ d_oof (addBlockLabel G st lb d) = d_oof st.
  Proof.
    unfold addBlockLabel.
    destruct (existsb (near_node G (lpt lb) d) (d_nodes st)); auto.
    destruct (existsb (fun s => g_lt G (seg_dist G (d_nodes st) (lpt lb) s) d) (d_segs st)); auto.
    destruct (existsb (near_lab G (lpt lb) d) (d_labs st)); auto.
  Qed.

  Lemma Inv2_frame (st st' : drawingT) :
    d_nodes st' = d_nodes st -> d_segs st' = d_segs st -> d_dsplit st' = d_dsplit st -> Inv2 st -> Inv2 st'.
  Proof.
    intros A B C. apply Inv2_ends; [unfold NN; rewrite A; auto|rewrite B; auto|auto].
  Qed.
  Lemma ext_frame (st st' : drawingT) :
    d_nodes st' = d_nodes st -> d_dsplit st' = d_dsplit st -> ext st st'.
  Proof. intros A C. unfold ext, NN. rewrite A, C. auto. Qed.

  Lemma fold_addBlockLabel d (ls : list labT) : forall (st : drawingT),
    let r := fold_left (fun s lb => addBlockLabel G s lb d) ls st in
    d_nodes r = d_nodes st /\ d_segs r = d_segs st /\ d_dsplit r = d_dsplit st.
  Proof.
    induction ls as [|l ls IH]; cbn; intros st; auto.
    destruct (IH (addBlockLabel G st l d)) as (A & B & C).
    destruct (addBlockLabel_frame st l d) as (A' & B' & C' & _).
    rewrite A, B, C. auto.
  Qed.

  (* ---- enforcePSLG re-establishes the invariant from ANY drawing ---------------------------- *)
  Lemma fold_addSegment_Inv2 fuel d (pp : seg -> pt * pt) (ls : list seg) : forall (st : drawingT),
    Inv2 st ->
    let r := fold_left (fun s ln => addSegment G fuel s (closestNode G s (fst (pp ln))) (closestNode G s (snd (pp ln)))
                                               (Some ln) d) ls st in
    Inv2 r /\ ext st r.
  Proof.
    induction ls as [|l ls IH]; cbn; intros st I; [split; [auto|apply ext_refl]|].
    destruct (addSegment_Inv2 fuel st (closestNode G st (fst (pp l))) (closestNode G st (snd (pp l))) (Some l) d I)
      as [I1 E1]; [apply closest_pair|].
    destruct (IH _ I1) as [I2 E2]. split; auto. eapply ext_trans; eauto.
  Qed.

  Lemma enforcePSLG_Inv2 fuel (st : drawingT) :
    Inv2 (enforcePSLG G fuel st) /\ (d_dsplit st = true -> d_dsplit (enforcePSLG G fuel st) = true).
  Proof.
    unfold enforcePSLG.
    set (d := auto_tol G (d_nodes st)).
    set (st0 := mkDrawing [] [] [] (d_oof st) (d_dsplit st)).
    assert (I0 : Inv2 st0) by (split; [constructor|right; exact I]).
    destruct (fold_addNode (fun nd : nodeT => nd) d (d_nodes st) st0 0 [] I0) as (I1 & E1 & _).
    { apply Nat.le_0_l. } { intros s []. }
    set (st1 := fold_left (fun s nd => addNode G s nd d) (d_nodes st) st0) in *.
    destruct (fold_addSegment_Inv2 fuel d
                (fun ln => (pt_at G (d_nodes st) (s0 ln), pt_at G (d_nodes st) (s1 ln))) (d_segs st) st1 I1) as [I2 E2].
    cbn [fst snd] in I2, E2.
    match type of I2 with Inv2 ?x => set (st2 := x) in * end.
    destruct (fold_addBlockLabel d (d_labs st) st2) as (A & B & C).
    match type of A with d_nodes ?x = _ => set (st3 := x) in * end.
    assert (I3 : Inv2 st3) by (eapply Inv2_frame; eauto).
    split; [apply Inv2_unselectAll; auto|].
    intros D. rewrite unselectAll_dsplit, C. apply E2, E1. exact D.
  Qed.

  (* ---- deleteSelectedNodes --------------------------------------------------------------------
     The C++ toggles the selection of the segments that contain the node and then deletes the
     selected segments: a segment that was ALREADY selected is thereby un-selected and survives
     with a stale index.  The invariant is preserved exactly when that cannot happen. *)
  Definition del_guard (st : drawingT) : Prop :=
    forall s, In s (d_segs st) -> ssel s = true ->
      nsel (node_at G (d_nodes st) (s0 s)) = false /\ nsel (node_at G (d_nodes st) (s1 s)) = false.
  Definition segs_unselected (st : drawingT) : Prop := forall s, In s (d_segs st) -> ssel s = false.

  Lemma remove_nth_length {T} (l : list T) i : i < length l -> length (remove_nth l i) = length l - 1.
  Proof.
    revert i; induction l as [|a l IH]; intros [|i] H; cbn in *; try lia.
    rewrite IH by lia. lia.
  Qed.

  Lemma delete_node_at_segs (st : drawingT) i :
    (forall s, In s (d_segs st) -> touches i s = true -> ssel s = false) ->
    d_segs (delete_node_at st i) =
    map (dec_above i) (filter (fun a => negb (ssel a) && negb (touches i a)) (d_segs st)).
  Proof.
    intros Hg. unfold delete_node_at; cbn. f_equal.
    induction (d_segs st) as [|a l IH]; cbn; auto.
    rewrite IH by (intros; apply Hg; cbn; auto).
    destruct (touches i a) eqn:T.
    - rewrite (Hg a) by (cbn; auto). cbn. reflexivity.
    - cbn. destruct (ssel a); cbn; reflexivity.
  Qed.

  Lemma delete_node_at_Inv2 (st : drawingT) i :
    Inv2 st -> i < NN st ->
    (forall s, In s (d_segs st) -> touches i s = true -> ssel s = false) ->
    Inv2 (delete_node_at st i) /\ segs_unselected (delete_node_at st i) /\
    d_dsplit (delete_node_at st i) = d_dsplit st /\ NN (delete_node_at st i) = NN st - 1.
  Proof.
    intros [W D] Hi Hg.
    pose proof (delete_node_at_segs st i Hg) as ES.
    assert (EN : NN (delete_node_at st i) = NN st - 1).
    { unfold NN, delete_node_at; cbn. apply remove_nth_length. exact Hi. }
    assert (Wk : forall a, In a (filter (fun a => negb (ssel a) && negb (touches i a)) (d_segs st)) ->
                 s0 a < NN st /\ s1 a < NN st /\ s0 a <> s1 a /\ s0 a <> i /\ s1 a <> i /\ ssel a = false).
    { intros a Ha. apply filter_In in Ha. destruct Ha as [Ha Hb].
      unfold WF in W. rewrite Forall_forall in W. destruct (W a Ha) as (A & B & C).
      apply andb_true_iff in Hb. destruct Hb as [Hb Hc]. apply negb_true_iff in Hb, Hc.
      unfold touches in Hc. apply orb_false_iff in Hc. destruct Hc as [Hc Hd].
      apply Nat.eqb_neq in Hc, Hd. auto 10. }
    assert (DEC : forall a, s0 (dec_above i a) = (if Nat.ltb i (s0 a) then s0 a - 1 else s0 a) /\
                            s1 (dec_above i a) = (if Nat.ltb i (s1 a) then s1 a - 1 else s1 a)) by (intros; cbn; auto).
    split; [split|split; [|split]]; auto.
    - unfold WF. rewrite EN, ES. apply Forall_forall. intros s Hs. apply in_map_iff in Hs.
      destruct Hs as [a [<- Ha]]. destruct (Wk a Ha) as (A & B & C & C0 & C1 & _).
      unfold seg_ok. destruct (DEC a) as [-> ->].
      destruct (Nat.ltb_spec i (s0 a)), (Nat.ltb_spec i (s1 a)); lia.
    - cbn [d_dsplit delete_node_at set_segs set_nodes deleteSelectedSegments].
      destruct D as [D|D]; [left; exact D|right]. rewrite ES.
      apply NoDupSeg_map; [|apply NoDupSeg_filter; auto].
      intros a b Ha Hb N S. apply N.
      destruct (Wk a Ha) as (A & B & C & C0 & C1 & _), (Wk b Hb) as (A' & B' & C' & C0' & C1' & _).
      unfold same_seg in *. destruct (DEC a) as [E0 E1], (DEC b) as [E0' E1'].
      rewrite E0, E1, E0', E1' in S.
      destruct (Nat.ltb_spec i (s0 a)), (Nat.ltb_spec i (s1 a)), (Nat.ltb_spec i (s0 b)), (Nat.ltb_spec i (s1 b)); lia.
    - intros s Hs. rewrite ES in Hs. apply in_map_iff in Hs. destruct Hs as [a [<- Ha]].
      cbn. apply Wk in Ha. tauto.
  Qed.

  Lemma delete_loop_Inv2 : forall fuel i (st : drawingT),
    Inv2 st -> del_guard st ->
    Inv2 (delete_nodes_loop G fuel i st) /\
    (d_dsplit st = true -> d_dsplit (delete_nodes_loop G fuel i st) = true).
  Proof.
    induction fuel as [|fuel IH]; intros i st I Gd; [cbn; auto|]. cbn [delete_nodes_loop].
    destruct (Nat.ltb_spec i (length (d_nodes st))) as [Hi|Hi]; [|auto].
    destruct (nsel (node_at G (d_nodes st) i)) eqn:S; [|apply IH; auto].
    assert (Hg : forall s, In s (d_segs st) -> touches i s = true -> ssel s = false).
    { intros s Hs T. destruct (ssel s) eqn:E; auto. destruct (Gd s Hs E) as [A B].
      unfold touches in T. apply orb_true_iff in T. destruct T as [T|T]; apply Nat.eqb_eq in T; subst i; congruence. }
    destruct (delete_node_at_Inv2 st i I Hi Hg) as (I1 & U & Dd & _).
    destruct (IH i (delete_node_at st i) I1) as [I2 D2].
    { intros s Hs E. rewrite (U s Hs) in E. discriminate. }
    split; [exact I2|]. intros D. apply D2. rewrite Dd. exact D.
  Qed.

  Lemma deleteSelectedNodes_Inv2 (st : drawingT) :
    Inv2 st -> del_guard st ->
    Inv2 (deleteSelectedNodes G st) /\ (d_dsplit st = true -> d_dsplit (deleteSelectedNodes G st) = true).
  Proof. intros. unfold deleteSelectedNodes. apply delete_loop_Inv2; auto. Qed.

  (* ---- the raw move / copy passes do not touch the ghost flag ------------------------------- *)
  Lemma move_raw_dsplit fn fl m (st : drawingT) : d_dsplit (move_raw fn fl m st) = d_dsplit st.
  Proof.
    unfold move_raw. destruct (mode_lines m), (mode_labels m), (Nat.eqb m 0 || _ || mode_arcs m); reflexivity.
  Qed.

  Lemma copy_lines_dsplit fn (st : drawingT) : d_dsplit (copy_lines G fn st) = d_dsplit st.
  Proof.
    unfold copy_lines. generalize (d_segs st) as l. intros l. revert st.
    induction l as [|a l IH]; cbn; intros st; auto.
    rewrite IH. destruct (ssel a); reflexivity.
  Qed.

  Lemma copy_pass_dsplit fn fl m (st : drawingT) : d_dsplit (copy_pass G fn fl m st) = d_dsplit st.
  Proof.
    unfold copy_pass. destruct (mode_labels m); cbn; destruct (mode_lines m); rewrite ?copy_lines_dsplit;
      destruct (mode_nodes m); reflexivity.
  Qed.

  Lemma translateCopy_raw_dsplit dx dy n m (st : drawingT) :
    d_dsplit st = true -> d_dsplit (translateCopy_raw G dx dy n m st) = true.
  Proof.
    unfold translateCopy_raw. generalize (seq 0 n) as l. intros l. revert st.
    induction l as [|a l IH]; cbn; intros st D; auto. apply IH. rewrite copy_pass_dsplit. exact D.
  Qed.

  Lemma rotateCopy_raw_dsplit c zs m (st : drawingT) :
    d_dsplit st = true -> d_dsplit (rotateCopy_raw G c zs m st) = true.
  Proof.
    unfold rotateCopy_raw. revert st.
    induction zs as [|a l IH]; cbn; intros st D; auto. apply IH. rewrite copy_pass_dsplit. exact D.
  Qed.

  (* ---- every command ------------------------------------------------------------------------- *)
  Definition op_guard (st : drawingT) (o : opT) : Prop :=
    match o with ODeleteSelectedNodes => del_guard st | _ => True end.

  Lemma step_Inv2 fuel (st : drawingT) (o : opT) :
    Inv2 st -> op_guard st o ->
    Inv2 (step G fuel st o) /\ (d_dsplit st = true -> d_dsplit (step G fuel st o) = true).
  Proof.
    intros I Gd. destruct o; cbn [step].
    - (* OAddNode *) split; [apply Inv2_addNode; auto|apply ext_addNode].
    - (* OAddSegment *)
      destruct (addSegment_Inv2 fuel st (closestNode G st (x0, y0)) (closestNode G st (x1, y1)) None (g_zero G) I)
        as [A [_ B]]; [apply closest_pair|auto].
    - (* OAddLabel *)
      destruct (addBlockLabel_frame st (new_lab G (x, y)) (auto_tol G (d_nodes st))) as (A & B & C & _).
      split; [eapply Inv2_frame; eauto|rewrite C; auto].
    - (* OSelectNode *) split; [|auto].
      eapply Inv2_ends; [| | |exact I]; cbn; auto. unfold NN; cbn. rewrite upd_nth_length. auto.
    - (* OSelectSegment *) split; [apply Inv2_toggle_seg; auto|auto].
    - (* OSelectLabel *) split; [eapply Inv2_frame; [| | |exact I]; reflexivity|auto].
    - (* OSelectGroup *) split; [|auto].
      eapply Inv2_ends; [| | |exact I]; cbn; auto.
      + unfold NN; cbn. rewrite map_length. auto.
      + symmetry. apply ends_map_same. intros s. destruct (sgrp s =? g); cbn; auto.
    - (* OSetGroup *) split; [|auto]. apply Inv2_unselectAll.
      eapply Inv2_ends; [| | |exact I]; cbn; auto.
      + unfold NN; cbn. rewrite map_length. auto.
      + symmetry. apply ends_map_same. intros s. destruct (ssel s); cbn; auto.
    - (* OClearSelected *) split; [apply Inv2_unselectAll; auto|auto].
    - (* OSetNodeProp *) split; [|auto].
      eapply Inv2_ends; [| | |exact I]; cbn; auto. unfold NN; cbn. rewrite map_length. auto.
    - (* OSetSegProp *) split; [|auto].
      eapply Inv2_ends; [| | |exact I]; cbn; auto.
      symmetry. apply ends_map_same. intros s. destruct (ssel s); cbn; auto.
    - (* OSetLabelProp *) split; [eapply Inv2_frame; [| | |exact I]; reflexivity|auto].
    - (* ODeleteSelected *)
      destruct (deleteSelectedNodes_Inv2 (deleteSelectedSegments st)) as [A B].
      + apply Inv2_deleteSelectedSegments; auto.
      + intros s Hs E. cbn in Hs. apply filter_In in Hs. destruct Hs as [_ Hs]. rewrite E in Hs. discriminate.
      + split; [eapply Inv2_frame; [| | |exact A]; reflexivity|exact B].
    - (* ODeleteSelectedNodes *) apply deleteSelectedNodes_Inv2; auto.
    - (* ODeleteSelectedSegments *) split; [apply Inv2_deleteSelectedSegments; auto|auto].
    - (* ODeleteSelectedLabels *) split; [eapply Inv2_frame; [| | |exact I]; reflexivity|auto].
    - (* OMoveTranslate *) destruct (mode_valid mode); [|auto].
      destruct (enforcePSLG_Inv2 fuel (move_raw (g_translate G dx dy)
                  (fun l => lsetpt (g_translate G dx dy (lpt l)) l) mode st)) as [A B].
      split; [exact A|]. intros D. apply B. rewrite move_raw_dsplit. exact D.
    - (* OMoveRotate *) destruct (mode_valid mode); [|auto].
      destruct (enforcePSLG_Inv2 fuel (move_raw (g_rotate G (cx, cy) (zr, zi))
                  (fun l => lsetpt (g_rotate G (cx, cy) (zr, zi) (lpt l)) l) mode st)) as [A B].
      split; [exact A|]. intros D. apply B. rewrite move_raw_dsplit. exact D.
    - (* OScale *) destruct (mode_valid mode); [|auto].
      destruct (enforcePSLG_Inv2 fuel (move_raw (g_scale G bx by_ sf)
                  (fun l => lsetarea (g_scale_area G sf (larea l)) (lsetpt (g_scale G bx by_ sf (lpt l)) l)) mode st)) as [A B].
      split; [exact A|]. intros D. apply B. rewrite move_raw_dsplit. exact D.
    - (* OCopyTranslate *) destruct (mode_valid mode); [|auto].
      destruct (enforcePSLG_Inv2 fuel (translateCopy_raw G dx dy n mode st)) as [A B].
      split; [exact A|]. intros D. apply B. apply translateCopy_raw_dsplit. exact D.
    - (* OCopyRotate *) destruct (mode_valid mode); [|auto].
      destruct (enforcePSLG_Inv2 fuel (rotateCopy_raw G (cx, cy) zs mode st)) as [A B].
      split; [exact A|]. intros D. apply B. apply rotateCopy_raw_dsplit. exact D.
    - (* OMirror *) destruct (mode_valid mode); [|auto].
      destruct (g_mirror_axis G x0 y0 x1 y1) as [[x p]|]; [|auto].
      destruct (enforcePSLG_Inv2 fuel (copy_pass G (g_mirror G x p) (fun l => lsetpt (g_mirror G x p (lpt l)) l) mode st)) as [A B].
      split; [exact A|]. intros D. apply B. rewrite copy_pass_dsplit. exact D.
  Qed.

  (* ---- all sequences of commands --------------------------------------------------------------- *)
  Fixpoint guarded (fuel : nat) (st : drawingT) (ops : list opT) : Prop :=
    match ops with
    | [] => True
    | o :: r => op_guard st o /\ guarded fuel (step G fuel st o) r
    end.
  Definition is_delnodes (o : opT) : bool := match o with ODeleteSelectedNodes => true | _ => false end.

  Lemma Inv2_empty : Inv2 (@empty F).
  Proof. split; [constructor|right; exact I]. Qed.

  Lemma run_Inv2 fuel (ops : list opT) : forall (st : drawingT),
    Inv2 st -> guarded fuel st ops ->
    Inv2 (run G fuel ops st) /\ (d_dsplit st = true -> d_dsplit (run G fuel ops st) = true).
  Proof.
    unfold run. induction ops as [|o ops IH]; cbn; intros st I Gd; [auto|].
    destruct Gd as [G1 G2]. destruct (step_Inv2 fuel st o I G1) as [I1 D1].
    destruct (IH _ I1 G2) as [I2 D2]. split; auto.
  Qed.

  Lemma guarded_no_delnodes fuel (ops : list opT) : forall (st : drawingT),
    forallb (fun o => negb (is_delnodes o)) ops = true -> guarded fuel st ops.
  Proof.
    induction ops as [|o ops IH]; cbn; intros st H; auto.
    apply andb_true_iff in H. destruct H as [H1 H2]. split; [|apply IH; auto].
    destruct o; cbn in *; auto; discriminate.
  Qed.

  (* the reachable drawings: every segment joins two distinct existing points *)
  Theorem wf_reachable fuel (ops : list opT) :
    guarded fuel empty ops -> WF (run G fuel ops empty).
  Proof. intros H. apply (run_Inv2 fuel ops empty Inv2_empty H). Qed.

  (* ... and no segment is duplicated unless some addNode split two segments with a common end *)
  Theorem nodup_reachable fuel (ops : list opT) :
    guarded fuel empty ops -> d_dsplit (run G fuel ops empty) = false -> NoDupSeg (d_segs (run G fuel ops empty)).
  Proof.
    intros H D. destruct (run_Inv2 fuel ops empty Inv2_empty H) as [[_ [E|E]] _]; [congruence|exact E].
  Qed.

  (* ---- addNode never puts a point within d of an existing point or block label ------------- *)
  Lemma addNode_respects_distance (st : drawingT) nd d :
    length (d_nodes (addNode G st nd d)) <> length (d_nodes st) ->
    d_nodes (addNode G st nd d) = d_nodes st ++ [nd] /\
    (forall n, In n (d_nodes st) -> g_lt G (g_dist G (npt n) (npt nd)) d = false) /\
    (forall l, In l (d_labs st) -> g_lt G (g_dist G (lpt l) (npt nd)) d = false).
  Proof.
    intros H. destruct (addNode_cases st nd d) as [[E _]|[E [A B]]]; [rewrite E in H; congruence|].
    rewrite E. split; [reflexivity|]. split.
    - intros n Hn. destruct (g_lt G (g_dist G (npt n) (npt nd)) d) eqn:X; auto.
      assert (existsb (near_node G (npt nd) d) (d_nodes st) = true) by (apply existsb_exists; eauto). congruence.
    - intros l Hl. destruct (g_lt G (g_dist G (lpt l) (npt nd)) d) eqn:X; auto.
      assert (existsb (near_lab G (npt nd) d) (d_labs st) = true) by (apply existsb_exists; eauto). congruence.
  Qed.

  (* list-length bookkeeping of addNode: at most one point more, one segment more per split *)
  Lemma addNode_lengths (st : drawingT) nd d :
    addNode G st nd d = st \/
    (length (d_nodes (addNode G st nd d)) = S (length (d_nodes st)) /\
     length (d_segs (addNode G st nd d)) =
       length (d_segs st) + length (filter (on_seg G (d_nodes st ++ [nd]) (npt nd) d) (d_segs st)) /\
     d_labs (addNode G st nd d) = d_labs st).
  Proof.
    destruct (addNode_cases st nd d) as [[E _]|[E _]]; [left; auto|right]. rewrite E.
    unfold addNode_added; cbn. rewrite !app_length, !map_length. cbn. repeat split; lia.
  Qed.

  Lemma deleteSelectedSegments_length (st : drawingT) :
    length (d_segs (deleteSelectedSegments st)) + length (filter ssel (d_segs st)) = length (d_segs st) /\
    d_nodes (deleteSelectedSegments st) = d_nodes st /\ d_labs (deleteSelectedSegments st) = d_labs st.
  Proof.
    cbn. split; auto. induction (d_segs st) as [|a l IH]; cbn; auto. destruct (ssel a); cbn; lia.
  Qed.

  (* ---- nothing remains selected ------------------------------------------------------------------ *)
  Definition nosel (st : drawingT) : Prop :=
    (forall n, In n (d_nodes st) -> nsel n = false) /\ (forall s, In s (d_segs st) -> ssel s = false) /\
    (forall l, In l (d_labs st) -> lsel l = false).

  Lemma nosel_unselectAll (st : drawingT) : nosel (unselectAll st).
  Proof.
    unfold nosel, unselectAll; cbn. repeat split; intros x Hx; apply in_map_iff in Hx;
      destruct Hx as [y [<- _]]; reflexivity.
  Qed.

  Lemma nosel_addNode (st : drawingT) nd d : nosel st -> nsel nd = false -> nosel (addNode G st nd d).
  Proof.
    intros (A & B & C) Hn. destruct (addNode_cases st nd d) as [[-> _]|[-> _]]; [repeat split; auto|].
    unfold addNode_added, nosel; cbn. repeat split; auto.
    - intros n Hx. apply in_app_or in Hx. destruct Hx as [Hx|[<-|[]]]; auto.
    - intros s Hx. apply in_app_or in Hx. destruct Hx as [Hx|Hx]; apply in_map_iff in Hx;
        destruct Hx as [a [<- Ha]].
      + destruct (on_seg G (d_nodes st ++ [nd]) (npt nd) d a); cbn; auto.
      + apply filter_In in Ha. cbn. apply B, Ha.
  Qed.

  Lemma nosel_fold_addNode t (ps : list pt) : forall (st : drawingT),
    nosel st -> nosel (fold_left (fun s p => addNode G s (new_node p) t) ps st).
  Proof.
    induction ps as [|p ps IH]; cbn; intros st H; auto. apply IH. apply nosel_addNode; auto.
  Qed.

  Lemma nosel_filter_segs (st : drawingT) f : nosel st -> nosel (set_segs st (filter f (d_segs st))).
  Proof.
    intros (A & B & C). repeat split; auto. cbn. intros s Hs. apply filter_In in Hs. apply B, Hs.
  Qed.

  Lemma nosel_delete_toggled (st : drawingT) k : nosel st -> nosel (deleteSelectedSegments (toggle_seg st k)).
  Proof.
    intros (A & B & C). repeat split; auto. cbn. intros s Hs. apply filter_In in Hs.
    destruct Hs as [_ Hs]. apply negb_true_iff in Hs. exact Hs.
  Qed.

  (* an accepted addSegment ends with nothing selected; a rejected one leaves the drawing alone *)
  Lemma addSegment_nosel_pres : forall fuel (st : drawingT) n0 n1 par tol,
    nosel st -> nosel (addSegment G fuel st n0 n1 par tol).
  Proof.
    induction fuel as [|fuel IH]; intros st n0 n1 par tol H; [exact H|].
    rewrite addSegment_S. destruct (Nat.eqb n0 n1); auto. destruct (dup_in n0 n1 (d_segs st)); auto.
    cbv zeta. set (st3 := as_st3 st n0 n1 par tol).
    assert (H3 : nosel st3) by apply nosel_unselectAll.
    destruct (find_first _ 0 (length (d_nodes st3))); auto.
    apply IH, IH. apply nosel_delete_toggled. exact H3.
  Qed.

  Lemma addSegment_clears_selection fuel (st : drawingT) n0 n1 par tol :
    addSegment G (S fuel) st n0 n1 par tol = st \/ nosel (addSegment G (S fuel) st n0 n1 par tol).
  Proof.
    rewrite addSegment_S. destruct (Nat.eqb n0 n1); auto. destruct (dup_in n0 n1 (d_segs st)); auto.
    right. cbv zeta. set (st3 := as_st3 st n0 n1 par tol).
    assert (H3 : nosel st3) by apply nosel_unselectAll.
    destruct (find_first _ 0 (length (d_nodes st3))); auto.
    apply addSegment_nosel_pres, addSegment_nosel_pres, nosel_delete_toggled. exact H3.
  Qed.

  (* enforcePSLG ends with unselectAll *)
  Lemma enforcePSLG_nosel fuel (st : drawingT) : nosel (enforcePSLG G fuel st).
  Proof. unfold enforcePSLG. apply nosel_unselectAll. Qed.
End Generic.
