(* Properties_C09_bandwidth.v — C09 (linear solvers): the bandwidth hint that Cuthill hands to
   CBigLinProb::Create bounds the index distance of every pair of coupled unknowns.

   THE GUARD.  [renumber_guard N edges] is   2 <= N  /\  every index of the edge list is below N.
   Every mesh written by fmesher satisfies it: a mesh has at least one triangle (3 nodes) and the
   .edge file is written by Triangle (switch -e) with indices of the .node file.  Nodes without any
   edge are allowed (the periodic path of fmesher runs Triangle without -j and keeps points drawn
   outside every meshed region in the .node file; Cuthill's restart branch numbers them), and so
   are meshes with fewer lines than nodes.  (Until /repo commit e99587c the start-node search could
   loop forever when NumNodes > n_lines + 1; the guard then also needed N <= S (length edges).)
   [mesh_guard N M]: meshnode has N entries and every node index held by an element, a pbc pair or
   an air-gap quad node is below N (LoadMesh reads them from the same Triangle output).
   Model: Renumber.v (FEASolver::Cuthill, SortElements, the three SortNodes overrides); proofs:
   RenumberProofs.v; correspondence with the real solver classes: tools/props/xcm.py through
   harness/h_cuthill.cpp.  Statements only. *)
From Coq Require Import List Arith Bool ZArith Lia Permutation Sorted.
From XF Require Import Renumber RenumberProofs.
Import ListNotations.

(* BandWidth >= 1 + |newnum a - newnum b| for every line (a,b) of the .edge file *)
Theorem C09_bandwidth_bounds_every_edge :
  forall (Nd P T W : Type) (N : nat) (edges : list (nat * nat)) (M : mesh Nd P T W) (r : result Nd P T W),
    renumber_guard N edges -> mesh_guard N M -> cuthill N edges M = Ok r ->
    forall a b, In (a, b) edges ->
      (1 + Z.abs (Z.of_nat (nnf (r_newnum r) a) - Z.of_nat (nnf (r_newnum r) b)) <= Z.of_nat (r_bandwidth r))%Z.
Proof. exact bandwidth_bounds_every_edge_thm. Qed.
Print Assumptions C09_bandwidth_bounds_every_edge.

(* ... hence for every element side, when every element side is a line of the .edge file (Triangle
   writes every edge of the triangulation; tools/props/xcm.py checks it on every generated mesh):
   the two unknowns coupled by an element always lie within BandWidth-1 of each other, which is
   what CBigLinProb::SetValue's band-limited column walk relies on. *)
Theorem C09_bandwidth_bounds_every_element_side :
  forall (Nd P T W : Type) (N : nat) (edges : list (nat * nat)) (M : mesh Nd P T W) (r : result Nd P T W),
    renumber_guard N edges -> mesh_guard N M -> cuthill N edges M = Ok r ->
    Forall (fun e => sides_in edges (fst e)) (m_eles M) ->
    Forall (fun e' => sides_within (r_bandwidth r) (fst e')) (m_eles (r_mesh r)).
Proof. exact bandwidth_bounds_every_element_side_thm. Qed.
Print Assumptions C09_bandwidth_bounds_every_element_side.

(* the hypotheses are satisfiable *)
Example C09_bandwidth_guards_satisfiable : renumber_guard 4 ex_edges /\ mesh_guard 4 ex_mesh.
Proof. exact ex_guards. Qed.

Example C09_bandwidth_element_sides_are_edges : Forall (fun e => sides_in ex_edges (fst e)) (m_eles ex_mesh).
Proof. exact ex_sides. Qed.

Example C09_bandwidth_of_two_triangles : exists r, cuthill 4 ex_edges ex_mesh = Ok r /\ r_bandwidth r = 3.
Proof. eexists. split; [exact ex_run|reflexivity]. Qed.
