(* RenumberProofs.v — proofs about Renumber.v (model of FEASolver::Cuthill, SortElements and the
   SortNodes overrides).  The theorems quoted by Properties_XCM.v are at the end of each part. *)
From Coq Require Import List Arith Bool ZArith NArith Lia Permutation.
From XF Require Import Renumber.
Import ListNotations.

Ltac Zify.zify_post_hook ::= Z.div_mod_to_equations.

(* ------------------------------------------------------------------------------------------ *)
(* Part 0: checked arrays, monadic folds                                                       *)
(* ------------------------------------------------------------------------------------------ *)
Lemma bind_ret {A} (m : res A) : (x <- m ;; Ok x) = m.
Proof. destruct m; reflexivity. Qed.

Lemma rd_ok {A} (l : list A) i d : i < length l -> rd l i = Ok (nth i l d).
Proof.
  revert i; induction l as [|x l IH]; intros i H; cbn in *; [lia|].
  destruct i; [reflexivity|]. apply IH; lia.
Qed.

Lemma rd_err {A} (l : list A) i : length l <= i -> rd l i = Err OutOfRange.
Proof.
  revert i; induction l as [|x l IH]; intros i H; cbn in *; [destruct i; reflexivity|].
  destruct i; [lia|]. apply IH; lia.
Qed.

Lemma rd_some {A} (l : list A) i : i < length l -> exists x, rd l i = Ok x /\ forall d, nth i l d = x.
Proof.
  revert i; induction l as [|y l IH]; intros [|i] H; cbn in *; try lia.
  - exists y. auto.
  - apply IH. lia.
Qed.

Lemma wr_ok {A} (l : list A) i x : i < length l -> wr l i x = Ok (upd l i x).
Proof.
  revert i; induction l as [|y l IH]; intros i H; cbn in *; [lia|].
  destruct i; [reflexivity|]. rewrite IH by lia. reflexivity.
Qed.

Lemma wr_err {A} (l : list A) i x : length l <= i -> wr l i x = Err OutOfRange.
Proof.
  revert i; induction l as [|y l IH]; intros i H; cbn in *; [destruct i; reflexivity|].
  destruct i; [lia|]. rewrite IH by lia. reflexivity.
Qed.

Lemma upd_length {A} (l : list A) i x : length (upd l i x) = length l.
Proof. revert i; induction l as [|y l IH]; intros [|i]; cbn; auto. Qed.

Lemma nth_upd_eq {A} (l : list A) i x d : i < length l -> nth i (upd l i x) d = x.
Proof.
  revert i; induction l as [|y l IH]; intros [|i] H; cbn in *; try lia; auto. apply IH; lia.
Qed.

Lemma nth_upd_neq {A} (l : list A) i j x d : i <> j -> nth j (upd l i x) d = nth j l d.
Proof.
  revert i j; induction l as [|y l IH]; intros [|i] [|j] H; cbn; auto; try lia.
Qed.

Lemma upd_app_here {A} (l1 l2 : list A) y x : upd (l1 ++ y :: l2) (length l1) x = l1 ++ x :: l2.
Proof. induction l1 as [|z l1 IH]; cbn; [reflexivity|]. now rewrite IH. Qed.

Lemma rd_app {A} (l1 l2 : list A) i : rd (l1 ++ l2) (length l1 + i) = rd l2 i.
Proof. induction l1; cbn; auto. Qed.

Lemma foldM_app {A S} (f : S -> A -> res S) l1 l2 s :
  foldM f (l1 ++ l2) s = (s' <- foldM f l1 s ;; foldM f l2 s').
Proof.
  revert s; induction l1 as [|a l1 IH]; intros s; cbn; [reflexivity|].
  destruct (f s a); cbn; auto.
Qed.

Lemma foldM_ext {A S} (f g : S -> A -> res S) l s :
  (forall s a, In a l -> f s a = g s a) -> foldM f l s = foldM g l s.
Proof.
  revert s; induction l as [|a l IH]; intros s H; cbn; [reflexivity|].
  rewrite H by (left; reflexivity). destruct (g s a); cbn; auto.
  apply IH. intros; apply H; right; assumption.
Qed.

Lemma foldM_flat_map {A B S} (f : S -> B -> res S) (g : A -> list B) l s :
  foldM f (flat_map g l) s = foldM (fun s a => foldM f (g a) s) l s.
Proof.
  revert s; induction l as [|a l IH]; intros s; cbn; [reflexivity|].
  rewrite foldM_app. destruct (foldM f (g a) s); cbn; auto.
Qed.

(* loop invariant indexed by the part of the list already processed and the part still to come *)
Lemma foldM_inv_split {A S} (f : S -> A -> res S) (I : list A -> list A -> S -> Prop) l :
  (forall pre a suf s, l = pre ++ a :: suf -> I pre (a :: suf) s ->
                       exists s', f s a = Ok s' /\ I (pre ++ [a]) suf s') ->
  forall s, I [] l s -> exists s', foldM f l s = Ok s' /\ I l [] s'.
Proof.
  intros Hstep.
  assert (G : forall suf pre s, l = pre ++ suf -> I pre suf s -> exists s', foldM f suf s = Ok s' /\ I l [] s').
  { induction suf as [|a suf IH]; intros pre s E HI; cbn.
    - rewrite app_nil_r in E; subst pre. eauto.
    - destruct (Hstep pre a suf s E HI) as (s' & Hf & HI'). rewrite Hf; cbn.
      apply (IH (pre ++ [a])); [rewrite <- app_assoc; exact E|exact HI']. }
  intros s HI. apply (G l [] s); auto.
Qed.

Lemma foldM_inv {A S} (f : S -> A -> res S) (I : S -> Prop) l :
  (forall s a, In a l -> I s -> exists s', f s a = Ok s' /\ I s') ->
  forall s, I s -> exists s', foldM f l s = Ok s' /\ I s'.
Proof.
  intros Hstep s HI.
  apply (foldM_inv_split f (fun _ _ s => I s) l); auto.
  intros pre a suf s0 E H0. apply Hstep; auto. subst l. apply in_or_app; right; left; reflexivity.
Qed.

Lemma mapM_ok {A B} (f : A -> res B) (g : A -> B) l :
  (forall a, In a l -> f a = Ok (g a)) -> mapM f l = Ok (map g l).
Proof.
  induction l as [|a l IH]; intros H; cbn; [reflexivity|].
  rewrite H by (left; reflexivity); cbn. rewrite IH; [reflexivity|]. intros; apply H; right; assumption.
Qed.

Lemma in_range a b i : In i (range a b) <-> a <= i < b.
Proof. unfold range. rewrite in_seq. lia. Qed.

(* an indexed loop over a row reads the row's entries in order *)
Lemma foldM_rd_row {S} (g : S -> nat -> res S) row s :
  foldM (fun st i => v <- rd row i ;; g st v) (range 0 (length row)) s = foldM g row s.
Proof.
  unfold range. rewrite Nat.sub_0_r.
  assert (G : forall suf pre s, row = pre ++ suf ->
              foldM (fun st i => v <- rd row i ;; g st v) (seq (length pre) (length suf)) s = foldM g suf s).
  { induction suf as [|x suf IH]; intros pre s0 E; cbn; [reflexivity|].
    assert (R : rd row (length pre) = Ok x).
    { rewrite E. replace (length pre) with (length pre + 0) by lia. rewrite rd_app. reflexivity. }
    rewrite R; cbn. destruct (g s0 x); cbn; [|reflexivity].
    specialize (IH (pre ++ [x]) a). rewrite app_length in IH; cbn in IH.
    rewrite Nat.add_1_r in IH. apply IH. rewrite <- app_assoc. exact E. }
  apply (G row [] s); reflexivity.
Qed.

(* exchanging two entries of an array permutes it *)
Lemma swap_perm {A} (l : list A) i j d :
  i < length l -> j < length l ->
  Permutation (upd (upd l i (nth j l d)) j (nth i l d)) l.
Proof.
  intros Hi Hj.
  apply (Permutation_nth _ _ d). split; [now rewrite !upd_length|].
  exists (fun x => if x =? i then j else if x =? j then i else x).
  rewrite !upd_length.
  split; [|split].
  - intros x Hx. destruct (x =? i); [lia|]. destruct (x =? j); lia.
  - intros x y Hx Hy.
    destruct (Nat.eqb_spec x i), (Nat.eqb_spec y i), (Nat.eqb_spec x j), (Nat.eqb_spec y j); lia.
  - intros x Hx.
    destruct (Nat.eqb_spec x i) as [->|Hxi].
    + rewrite nth_upd_eq by (rewrite upd_length; lia). reflexivity.
    + destruct (Nat.eqb_spec x j) as [->|Hxj].
      * rewrite nth_upd_neq by lia. rewrite nth_upd_eq by lia. reflexivity.
      * rewrite !nth_upd_neq by lia. reflexivity.
Qed.

(* ------------------------------------------------------------------------------------------ *)
(* Part 1: the connectivity lists                                                              *)
(* ------------------------------------------------------------------------------------------ *)
(* each line (a,b) of the .edge file is handled as the two half edges (a,b), (b,a) *)
Definition halves (edges : list (nat * nat)) : list (nat * nat) :=
  flat_map (fun e => [(fst e, snd e); (snd e, fst e)]) edges.

(* the neighbours of v, in file order *)
Definition adjH (v : nat) (hs : list (nat * nat)) : list nat :=
  map snd (filter (fun h => fst h =? v) hs).

Definition edges_ok (N : nat) (edges : list (nat * nat)) : Prop :=
  Forall (fun e => fst e < N /\ snd e < N) edges.

Lemma halves_ok N edges : edges_ok N edges -> Forall (fun h => fst h < N /\ snd h < N) (halves edges).
Proof.
  unfold edges_ok, halves. intros H. apply Forall_forall. intros h Hin.
  apply in_flat_map in Hin. destruct Hin as (e & He & Hh).
  rewrite Forall_forall in H. specialize (H e He).
  cbn in Hh. destruct Hh as [<-|[<-|[]]]; cbn; lia.
Qed.

Lemma in_halves a b edges : In (a, b) edges -> In (a, b) (halves edges) /\ In (b, a) (halves edges).
Proof.
  intros H. unfold halves. split; apply in_flat_map; exists (a, b); (split; [assumption|]); cbn; auto.
Qed.

Lemma adjH_app v l1 l2 : adjH v (l1 ++ l2) = adjH v l1 ++ adjH v l2.
Proof. unfold adjH. now rewrite filter_app, map_app. Qed.

Lemma adjH_cons_eq v b l : adjH v ((v, b) :: l) = b :: adjH v l.
Proof. unfold adjH. cbn. now rewrite Nat.eqb_refl. Qed.

Lemma adjH_cons_neq v a b l : a <> v -> adjH v ((a, b) :: l) = adjH v l.
Proof. intros H. unfold adjH. cbn. destruct (Nat.eqb_spec a v); [contradiction|reflexivity]. Qed.

Lemma in_adjH a b hs : In (a, b) hs -> In b (adjH a hs).
Proof.
  intros H. unfold adjH. apply in_map_iff. exists (a, b). split; [reflexivity|].
  apply filter_In. split; [assumption|]. cbn. apply Nat.eqb_refl.
Qed.

Lemma adjH_lt N v hs : Forall (fun h => fst h < N /\ snd h < N) hs -> Forall (fun w => w < N) (adjH v hs).
Proof.
  intros H. apply Forall_forall. intros w Hw. unfold adjH in Hw.
  apply in_map_iff in Hw. destruct Hw as (h & <- & Hh). apply filter_In in Hh.
  rewrite Forall_forall in H. apply H; tauto.
Qed.

Lemma count_pass_halves N edges :
  count_pass N edges = foldM (fun nc h => incr nc (fst h)) (halves edges) (repeat 0 N).
Proof.
  unfold count_pass, halves. rewrite foldM_flat_map. apply foldM_ext. intros s e _. cbn.
  destruct (incr s (fst e)); cbn; [|reflexivity]. now rewrite bind_ret.
Qed.

Lemma store_pass_halves N numcon edges :
  store_pass N numcon edges =
  foldM (fun st h => store1 st (fst h) (snd h)) (halves edges) (alloc_rows numcon, repeat 0 N).
Proof.
  unfold store_pass, halves. rewrite foldM_flat_map. apply foldM_ext. intros s e _. cbn.
  destruct (store1 s (fst e) (snd e)); cbn; [|reflexivity]. now rewrite bind_ret.
Qed.

Lemma count_pass_ok N edges :
  edges_ok N edges ->
  exists numcon, count_pass N edges = Ok numcon /\ length numcon = N /\
                 forall v, v < N -> nth v numcon 0 = length (adjH v (halves edges)).
Proof.
  intros Hok. apply halves_ok in Hok. rewrite count_pass_halves.
  set (hs := halves edges) in *.
  destruct (foldM_inv_split (fun nc h => incr nc (fst h))
              (fun pre _ nc => length nc = N /\ forall v, v < N -> nth v nc 0 = length (adjH v pre)) hs)
    with (s := repeat 0 N) as (nc & Hf & Hl & Hc).
  - intros pre [a b] suf nc E (Hl & Hc). cbn [fst].
    assert (Ha : a < N).
    { rewrite Forall_forall in Hok. apply (Hok (a, b)). rewrite E. apply in_or_app; right; left; reflexivity. }
    unfold incr. rewrite (rd_ok nc a 0) by lia. cbn. rewrite wr_ok by lia.
    eexists; split; [reflexivity|]. split; [now rewrite upd_length|].
    intros v Hv. rewrite adjH_app, app_length.
    destruct (Nat.eq_dec a v) as [->|Hne].
    + rewrite nth_upd_eq by lia. rewrite adjH_cons_eq. cbn. rewrite Hc by lia. lia.
    + rewrite nth_upd_neq by lia. rewrite adjH_cons_neq by assumption. cbn. rewrite Hc by lia. lia.
  - split; [apply repeat_length|]. intros v Hv. cbn. apply nth_repeat.
  - exists nc. auto.
Qed.

Lemma nth_alloc_rows numcon v : nth v (alloc_rows numcon) [] = repeat 0 (nth v numcon 0).
Proof.
  unfold alloc_rows. destruct (Nat.lt_ge_cases v (length numcon)) as [H|H].
  - rewrite (nth_indep _ [] (repeat 0 0)) by (rewrite map_length; lia).
    now rewrite (map_nth (fun c => repeat 0 c) numcon 0 v).
  - rewrite !nth_overflow; [reflexivity|lia|rewrite map_length; lia].
Qed.

Lemma store_pass_ok N numcon edges :
  edges_ok N edges -> length numcon = N ->
  (forall v, v < N -> nth v numcon 0 = length (adjH v (halves edges))) ->
  exists ocon nxt, store_pass N numcon edges = Ok (ocon, nxt) /\ length ocon = N /\
                   forall v, v < N -> nth v ocon [] = adjH v (halves edges).
Proof.
  intros Hok Hln Hnc. apply halves_ok in Hok. rewrite store_pass_halves.
  set (hs := halves edges) in *.
  destruct (foldM_inv_split (fun st h => store1 st (fst h) (snd h))
              (fun pre suf st => length (fst st) = N /\ length (snd st) = N /\
                 forall v, v < N -> nth v (snd st) 0 = length (adjH v pre) /\
                                    nth v (fst st) [] = adjH v pre ++ repeat 0 (length (adjH v suf))) hs)
    with (s := (alloc_rows numcon, repeat 0 N)) as ([ocon nxt] & Hf & Hl1 & Hl2 & Hc).
  - intros pre [a b] suf [ocon nxt] E (Hl1 & Hl2 & Hc). cbn [fst snd] in *.
    assert (Ha : a < N).
    { rewrite Forall_forall in Hok. apply (Hok (a, b)). rewrite E. apply in_or_app; right; left; reflexivity. }
    destruct (Hc a Ha) as (Hk & Hrow).
    unfold store1. rewrite (rd_ok nxt a 0) by lia. cbn.
    rewrite (rd_ok ocon a []) by lia. cbn.
    rewrite Hrow, Hk. rewrite adjH_cons_eq. cbn [length repeat].
    rewrite wr_ok by (rewrite app_length; cbn; lia). cbn.
    rewrite upd_app_here.
    rewrite wr_ok by lia. cbn. rewrite wr_ok by lia. cbn.
    eexists; split; [reflexivity|]. cbn [fst snd]. rewrite !upd_length.
    split; [assumption|]. split; [assumption|].
    intros v Hv. rewrite adjH_app.
    destruct (Nat.eq_dec a v) as [->|Hne].
    + rewrite !nth_upd_eq by lia. rewrite adjH_cons_eq. cbn [adjH filter map app].
      rewrite app_length. cbn. split; [lia|]. rewrite <- app_assoc. reflexivity.
    + rewrite !nth_upd_neq by lia. rewrite adjH_cons_neq by assumption.
      destruct (Hc v Hv) as (Hk' & Hrow'). rewrite Hk', Hrow'.
      rewrite adjH_cons_neq by assumption. cbn [adjH filter map]. rewrite app_nil_r. split; reflexivity.
  - cbn [fst snd]. split; [unfold alloc_rows; rewrite map_length; assumption|].
    split; [apply repeat_length|]. intros v Hv. split; [apply nth_repeat|].
    rewrite nth_alloc_rows. rewrite Hnc by assumption. reflexivity.
  - exists ocon, nxt. split; [assumption|]. split; [assumption|].
    intros v Hv. destruct (Hc v Hv) as (_ & H). cbn [fst] in H. rewrite H. cbn. apply app_nil_r.
Qed.

(* the bubble sort of one row only permutes the row *)
Lemma bubble_step_ok N numcon row j :
  length numcon = N -> Forall (fun w => w < N) row -> 1 <= j < length row ->
  exists row', bubble_step numcon row j = Ok row' /\ Permutation row' row.
Proof.
  intros Hln Hlt Hj. unfold bubble_step.
  rewrite (rd_ok row j 0) by lia. cbn. rewrite (rd_ok row (j - 1) 0) by lia. cbn.
  rewrite Forall_forall in Hlt.
  assert (Ha : nth j row 0 < N) by (apply Hlt, nth_In; lia).
  assert (Hb : nth (j - 1) row 0 < N) by (apply Hlt, nth_In; lia).
  rewrite (rd_ok numcon (nth j row 0) 0) by lia. cbn.
  rewrite (rd_ok numcon (nth (j - 1) row 0) 0) by lia. cbn.
  match goal with |- context [if ?c then _ else _] => destruct c end.
  - rewrite wr_ok by lia. cbn. rewrite wr_ok by (rewrite upd_length; lia).
    eexists; split; [reflexivity|]. apply swap_perm; lia.
  - eexists; split; [reflexivity|]. apply Permutation_refl.
Qed.

Lemma bubble_row_ok N numcon row :
  length numcon = N -> Forall (fun w => w < N) row ->
  exists row', bubble_row numcon (length row) row = Ok row' /\ Permutation row' row.
Proof.
  intros Hln Hlt. unfold bubble_row.
  apply (foldM_inv _ (fun r => Permutation r row)); [|apply Permutation_refl].
  intros r _ _ Hr.
  apply (foldM_inv _ (fun r => Permutation r row)); [|assumption].
  intros r' j Hj Hr'. apply in_range in Hj.
  destruct (bubble_step_ok N numcon r' j) as (r'' & Hs & Hp); auto.
  - apply (Permutation_Forall (Permutation_sym Hr')). assumption.
  - rewrite (Permutation_length Hr'). lia.
  - exists r''. split; [assumption|]. now rewrite Hp.
Qed.

(* what the rest of Cuthill uses of numcon / ocon *)
Definition graph_ok (N : nat) (hs : list (nat * nat)) (numcon : list nat) (ocon : list (list nat)) : Prop :=
  length numcon = N /\ length ocon = N /\
  forall v, v < N -> nth v numcon 0 = length (nth v ocon []) /\ Permutation (nth v ocon []) (adjH v hs).

Lemma bubble_all_ok N hs numcon ocon :
  Forall (fun h => fst h < N /\ snd h < N) hs ->
  length numcon = N -> length ocon = N ->
  (forall v, v < N -> nth v numcon 0 = length (adjH v hs)) ->
  (forall v, v < N -> nth v ocon [] = adjH v hs) ->
  exists ocon', bubble_all N numcon ocon = Ok ocon' /\ graph_ok N hs numcon ocon'.
Proof.
  intros Hok Hln Hlo Hnc Hoc. unfold bubble_all.
  destruct (foldM_inv (fun oc n0 => c <- rd numcon n0 ;; row <- rd oc n0 ;;
                                    row' <- bubble_row numcon c row ;; wr oc n0 row')
              (fun oc => length oc = N /\ forall v, v < N -> Permutation (nth v oc []) (adjH v hs))
              (range 0 N)) with (s := ocon) as (oc & Hf & Hl & Hp).
  - intros oc n0 Hn0 (Hl & Hp). apply in_range in Hn0.
    rewrite (rd_ok numcon n0 0) by lia. cbn. rewrite (rd_ok oc n0 []) by lia. cbn.
    assert (Hlen : nth n0 numcon 0 = length (nth n0 oc [])).
    { rewrite Hnc by lia. symmetry. apply Permutation_length, Hp. lia. }
    rewrite Hlen.
    destruct (bubble_row_ok N numcon (nth n0 oc [])) as (row' & Hb & Hperm); auto.
    { apply (Permutation_Forall (Permutation_sym (Hp n0 ltac:(lia)))). apply adjH_lt; assumption. }
    rewrite Hb. cbn. rewrite wr_ok by lia.
    eexists; split; [reflexivity|]. split; [now rewrite upd_length|].
    intros v Hv. destruct (Nat.eq_dec n0 v) as [->|Hne].
    + rewrite nth_upd_eq by lia. rewrite Hperm. apply Hp; lia.
    + rewrite nth_upd_neq by lia. apply Hp; lia.
  - split; [assumption|]. intros v Hv. rewrite Hoc by assumption. apply Permutation_refl.
  - exists oc. split; [assumption|]. split; [assumption|]. split; [assumption|].
    intros v Hv. split; [|apply Hp; assumption].
    rewrite Hnc by assumption. symmetry. apply Permutation_length, Hp. assumption.
Qed.

Lemma graph_rows_lt N hs numcon ocon v :
  Forall (fun h => fst h < N /\ snd h < N) hs -> graph_ok N hs numcon ocon -> v < N ->
  Forall (fun w => w < N) (nth v ocon []).
Proof.
  intros Hok (_ & _ & H) Hv. destruct (H v Hv) as (_ & Hp).
  apply (Permutation_Forall (Permutation_sym Hp)). apply adjH_lt; assumption.
Qed.

(* ------------------------------------------------------------------------------------------ *)
(* Part 2: start node                                                                          *)
(* ------------------------------------------------------------------------------------------ *)
Lemma start_loop_ok N numcon :
  length numcon = N ->
  forall is j n0, Forall (fun i => i < N) is -> n0 < N ->
  exists j' n0', start_loop numcon is j n0 = Ok (j', n0') /\ n0' < N.
Proof.
  intros Hln. induction is as [|i is IH]; intros j n0 Hlt Hn0; cbn [start_loop]; [eauto|].
  inversion Hlt as [|? ? Hi Hlt']; subst.
  rewrite (rd_ok numcon i 0) by lia. cbn [bind].
  set (c := nth i numcon 0).
  assert (Hn0' : (if c <? j then i else n0) < length numcon) by (destruct (c <? j); lia).
  destruct ((if c <? j then c else j) =? 2); [eauto|]. apply IH; assumption.
Qed.

Lemma start_search_ok N numcon :
  length numcon = N -> 1 <= N ->
  exists j n0, start_search N numcon = Ok (j, n0) /\ n0 < N.
Proof.
  intros Hln HN. unfold start_search. rewrite (rd_ok numcon 0 0) by lia. cbn [bind].
  apply start_loop_ok; [assumption| |lia].
  apply Forall_forall. intros i Hi. apply in_range in Hi. lia.
Qed.

(* the start search is bounded by its structure: whatever the arrays hold it ends, with a result or
   at an out-of-range access *)
Lemma rd_err_kind {A} (l : list A) i e : rd l i = Err e -> e = OutOfRange.
Proof.
  intros H. destruct (Nat.lt_ge_cases i (length l)) as [Hlt|Hge].
  - destruct (rd_some l i Hlt) as (x & R & _). congruence.
  - rewrite rd_err in H by assumption. congruence.
Qed.

Lemma start_loop_ends numcon is j n0 e : start_loop numcon is j n0 = Err e -> e = OutOfRange.
Proof.
  revert j n0; induction is as [|i is IH]; intros j n0; cbn [start_loop]; [discriminate|].
  destruct (rd numcon i) as [c|e'] eqn:R; cbn [bind].
  - destruct ((if c <? j then c else j) =? 2); [discriminate|]. apply IH.
  - intros H. injection H as <-. apply (rd_err_kind _ _ _ R).
Qed.

Lemma start_search_ends N numcon e : start_search N numcon = Err e -> e = OutOfRange.
Proof.
  unfold start_search. destruct (rd numcon 0) as [c|e'] eqn:R; cbn [bind].
  - apply start_loop_ends.
  - intros H. injection H as <-. apply (rd_err_kind _ _ _ R).
Qed.

(* ------------------------------------------------------------------------------------------ *)
(* Part 3: the numbering loop                                                                  *)
(* ------------------------------------------------------------------------------------------ *)
(* [order] lists the nodes numbered so far in the order of their new numbers (a ghost variable:
   it is what nxtnum[0..n-1] holds) *)
Record Inv (N : nat) (order : list nat) (newnum nxtnum : list (option nat)) (n : nat) : Prop := mkInv {
  inv_len_nn : length newnum = N;
  inv_len_nx : length nxtnum = N;
  inv_n : n = length order;
  inv_nodup : NoDup order;
  inv_lt : Forall (fun v => v < N) order;
  inv_nx1 : forall k, k < n -> nth k nxtnum None = Some (nth k order 0);
  inv_nx2 : forall k, n <= k -> nth k nxtnum None = None;
  inv_nn1 : forall k, k < n -> nth (nth k order 0) newnum None = Some k;
  inv_nn2 : forall v, ~ In v order -> nth v newnum None = None
}.

Lemma NoDup_app_intro_tail {A} (l : list A) v : NoDup l -> ~ In v l -> NoDup (l ++ [v]).
Proof.
  intros H Hn. apply (Permutation_NoDup (Permutation_cons_append l v)). constructor; assumption.
Qed.

Lemma nodup_lt_length N (l : list nat) : NoDup l -> Forall (fun v => v < N) l -> length l <= N.
Proof.
  intros Hnd Hlt. rewrite <- (seq_length N 0). apply NoDup_incl_length; [assumption|].
  intros v Hv. rewrite Forall_forall in Hlt. apply in_seq. specialize (Hlt v Hv). lia.
Qed.

Lemma Inv_n_le N order nn nx n : Inv N order nn nx n -> n <= N.
Proof. intros H. rewrite (inv_n _ _ _ _ _ H). apply nodup_lt_length; [apply (inv_nodup _ _ _ _ _ H)|apply (inv_lt _ _ _ _ _ H)]. Qed.

Lemma Inv_visited N order nn nx n v : Inv N order nn nx n -> In v order -> exists k, k < n /\ nth k order 0 = v /\ nth v nn None = Some k.
Proof.
  intros H Hin. destruct (In_nth _ _ 0 Hin) as (k & Hk & E).
  exists k. rewrite (inv_n _ _ _ _ _ H). split; [assumption|]. split; [assumption|].
  rewrite <- E. apply (inv_nn1 _ _ _ _ _ H). rewrite (inv_n _ _ _ _ _ H). assumption.
Qed.

Lemma Inv_unvisited N order nn nx n v : Inv N order nn nx n -> nth v nn None = None -> ~ In v order.
Proof.
  intros H Hnone Hin. destruct (Inv_visited _ _ _ _ _ _ H Hin) as (k & _ & _ & E). congruence.
Qed.

(* newnum[v]=n; nxtnum[n]=v; n++ on a node that has no number yet *)
Lemma number_node_ok N order nn nx n v :
  Inv N order nn nx n -> v < N -> nth v nn None = None ->
  exists nn' nx', number_node v (nn, nx, n) = Ok (nn', nx', S n) /\ Inv N (order ++ [v]) nn' nx' (S n) /\
                  nth v nn' None = Some n.
Proof.
  intros H Hv Hnone.
  pose proof (Inv_unvisited _ _ _ _ _ _ H Hnone) as Hnotin.
  pose proof (inv_n _ _ _ _ _ H) as Hn.
  assert (Hnd : NoDup (order ++ [v])).
  { apply NoDup_app_intro_tail; [apply (inv_nodup _ _ _ _ _ H)|assumption]. }
  assert (Hlt : Forall (fun w => w < N) (order ++ [v])).
  { apply Forall_app. split; [apply (inv_lt _ _ _ _ _ H)|constructor; [assumption|constructor]]. }
  assert (HnN : n < N).
  { pose proof (nodup_lt_length N _ Hnd Hlt) as L. rewrite app_length in L. cbn in L. lia. }
  unfold number_node. rewrite wr_ok by (rewrite (inv_len_nn _ _ _ _ _ H); lia). cbn.
  rewrite wr_ok by (rewrite (inv_len_nx _ _ _ _ _ H); lia). cbn.
  eexists _, _. split; [reflexivity|]. split.
  - constructor.
    + rewrite upd_length. apply (inv_len_nn _ _ _ _ _ H).
    + rewrite upd_length. apply (inv_len_nx _ _ _ _ _ H).
    + rewrite app_length. cbn. lia.
    + assumption.
    + assumption.
    + intros k Hk. destruct (Nat.eq_dec k n) as [->|Hne].
      * rewrite nth_upd_eq by (rewrite (inv_len_nx _ _ _ _ _ H); lia).
        rewrite Hn. rewrite app_nth2 by lia. now rewrite Nat.sub_diag.
      * rewrite nth_upd_neq by lia. rewrite app_nth1 by lia. apply (inv_nx1 _ _ _ _ _ H). lia.
    + intros k Hk. rewrite nth_upd_neq by lia. apply (inv_nx2 _ _ _ _ _ H). lia.
    + intros k Hk. destruct (Nat.eq_dec k n) as [->|Hne].
      * rewrite Hn at 1. rewrite app_nth2 by lia. rewrite Nat.sub_diag. cbn.
        rewrite nth_upd_eq by (rewrite (inv_len_nn _ _ _ _ _ H); lia). reflexivity.
      * rewrite app_nth1 by lia.
        assert (Hw : nth k order 0 <> v).
        { intros E. apply Hnotin. rewrite <- E. apply nth_In. lia. }
        rewrite nth_upd_neq by auto. apply (inv_nn1 _ _ _ _ _ H). lia.
    + intros w Hw. assert (w <> v) by (intros ->; apply Hw, in_or_app; right; left; reflexivity).
      rewrite nth_upd_neq by auto. apply (inv_nn2 _ _ _ _ _ H).
      intros Hin. apply Hw, in_or_app. left; assumption.
  - apply nth_upd_eq. rewrite (inv_len_nn _ _ _ _ _ H). lia.
Qed.

(* the state of the inner loop: some order extending the old one *)
Definition Ext (N : nat) (order : list nat) (st : list (option nat) * list (option nat) * nat) : Prop :=
  exists ext, Inv N (order ++ ext) (fst (fst st)) (snd (fst st)) (snd st).

Lemma visit_node_ok N order st v :
  Ext N order st -> v < N -> exists st', visit_node st v = Ok st' /\ Ext N order st'.
Proof.
  intros (ext & H) Hv. destruct st as [[nn nx] n]. cbn [fst snd] in *.
  unfold visit_node. cbn [fst snd].
  rewrite (rd_ok nn v None) by (rewrite (inv_len_nn _ _ _ _ _ H); lia). cbn [bind].
  destruct (nth v nn None) as [k|] eqn:E.
  - eexists; split; [reflexivity|]. exists ext. assumption.
  - destruct (number_node_ok _ _ _ _ _ _ H Hv E) as (nn' & nx' & Hn & HI & _).
    rewrite Hn. eexists; split; [reflexivity|]. exists (ext ++ [v]). cbn [fst snd].
    rewrite app_assoc. assumption.
Qed.

Lemma visit_row_ok N order st row :
  Ext N order st -> Forall (fun v => v < N) row ->
  exists st', foldM (visit_step row) (range 0 (length row)) st = Ok st' /\ Ext N order st'.
Proof.
  intros HE Hrow. unfold visit_step. rewrite (foldM_rd_row visit_node).
  apply (foldM_inv visit_node (Ext N order)); [|assumption].
  intros s v Hin Hs. apply (visit_node_ok N order s v Hs).
  rewrite Forall_forall in Hrow. auto.
Qed.

Lemma find_first_ok N nn numcon :
  length nn = N -> length numcon = N ->
  forall is j n0, Forall (fun i => i < N) is ->
  exists j' n0', find_first nn numcon is j n0 = Ok (j', n0') /\
                 ((n0' < N /\ nth n0' nn None = None) \/
                  ((forall i, In i is -> nth i nn None <> None) /\ j' = j /\ n0' = n0)).
Proof.
  intros Hl1 Hl2. induction is as [|i is IH]; intros j n0 Hlt; cbn [find_first].
  - eexists _, _. split; [reflexivity|]. right. split; [intros i []|auto].
  - inversion Hlt as [|? ? Hi Hlt']; subst.
    rewrite (rd_ok nn i None) by lia. cbn [bind].
    destruct (nth i nn None) as [k|] eqn:E.
    + destruct (IH j n0 Hlt') as (j' & n0' & Hf & Hc). exists j', n0'. split; [assumption|].
      destruct Hc as [Hc|(Hall & -> & ->)]; [left; assumption|right].
      split; [|auto]. intros i' [<-|Hin]; [congruence|auto].
    + rewrite (rd_ok numcon i 0) by lia. cbn [bind]. eexists _, _. split; [reflexivity|]. left. auto.
Qed.

Lemma find_best_ok N nn numcon :
  length nn = N -> length numcon = N ->
  forall is j n0, Forall (fun i => i < N) is -> n0 < N -> nth n0 nn None = None ->
  exists j' n0', find_best nn numcon is j n0 = Ok (j', n0') /\ n0' < N /\ nth n0' nn None = None.
Proof.
  intros Hl1 Hl2. induction is as [|i is IH]; intros j n0 Hlt Hn0 Hnone; cbn [find_best].
  - eauto.
  - inversion Hlt as [|? ? Hi Hlt']; subst.
    rewrite (rd_ok nn i None) by lia. cbn [bind].
    destruct (nth i nn None) as [k|] eqn:E; cbn [bind].
    + cbn [fst snd]. destruct (j =? 2); [eauto|]. apply IH; assumption.
    + rewrite (rd_ok numcon i 0) by lia. cbn [bind].
      destruct (nth i numcon 0 <? j); cbn [fst snd].
      * destruct (nth i numcon 0 =? 2); [eauto|]. apply IH; assumption.
      * destruct (j =? 2); [eauto|]. apply IH; assumption.
Qed.

Lemma range0_lt N : Forall (fun i => i < N) (range 0 N).
Proof. apply Forall_forall. intros i Hi. apply in_range in Hi. lia. Qed.

(* some node below N has no number as long as fewer than N numbers are handed out *)
Lemma exists_unvisited N order nn nx n :
  Inv N order nn nx n -> n < N -> ~ (forall i, In i (range 0 N) -> nth i nn None <> None).
Proof.
  intros H Hn Hall.
  assert (Hincl : incl (seq 0 N) order).
  { intros v Hv. destruct (in_dec Nat.eq_dec v order) as [Hin|Hnin]; [assumption|].
    exfalso. apply (Hall v); [unfold range; now rewrite Nat.sub_0_r|].
    apply (inv_nn2 _ _ _ _ _ H). assumption. }
  pose proof (NoDup_incl_length (seq_NoDup N 0) Hincl) as L.
  rewrite seq_length in L. rewrite <- (inv_n _ _ _ _ _ H) in L. lia.
Qed.

(* the state at the top of the do-while: n0 is the node with new number k0 *)
Definition Top (N : nat) (s : mstate) (k0 : nat) : Prop :=
  exists order, Inv N order (ms_newnum s) (ms_nxtnum s) (ms_n s) /\
                k0 < ms_n s /\ nth k0 order 0 = ms_n0 s.

Lemma main_body_ok N hs numcon ocon s k0 :
  Forall (fun h => fst h < N /\ snd h < N) hs -> graph_ok N hs numcon ocon ->
  Top N s k0 -> ms_n s < N ->
  exists s', main_body N numcon ocon s = Ok s' /\ Top N s' (S k0).
Proof.
  intros Hhs HG (order & HI & Hk0 & Hn0) HnN.
  pose proof HG as (Hln & Hlo & Hrows).
  assert (Hn0N : ms_n0 s < N).
  { pose proof (inv_lt _ _ _ _ _ HI) as L. rewrite Forall_forall in L. apply L.
    rewrite <- Hn0. apply nth_In. rewrite <- (inv_n _ _ _ _ _ HI). assumption. }
  unfold main_body.
  rewrite (rd_ok numcon (ms_n0 s) 0) by lia. cbn [bind].
  rewrite (rd_ok ocon (ms_n0 s) []) by lia. cbn [bind].
  destruct (Hrows _ Hn0N) as (Hc & _). rewrite Hc.
  destruct (visit_row_ok N order (ms_newnum s, ms_nxtnum s, ms_n s) (nth (ms_n0 s) ocon []))
    as ([[nn nx] n] & Hv & (ext & HI')).
  { exists []. rewrite app_nil_r. assumption. }
  { apply (graph_rows_lt N hs numcon ocon); assumption. }
  rewrite Hv. cbn [bind]. cbn [fst snd] in HI'.
  (* the old numbers are kept *)
  assert (Hnn' : n = length order + length ext) by (rewrite (inv_n _ _ _ _ _ HI'), app_length; reflexivity).
  pose proof (inv_n _ _ _ _ _ HI) as Hn.
  assert (Hk0' : nth (ms_n0 s) nn None = Some k0).
  { rewrite <- Hn0. rewrite <- (app_nth1 order ext 0) by lia. apply (inv_nn1 _ _ _ _ _ HI'). lia. }
  rewrite (rd_ok nn (ms_n0 s) None) by (rewrite (inv_len_nn _ _ _ _ _ HI'); lia). cbn [bind].
  rewrite Hk0'.
  rewrite (rd_ok nx (S k0) None) by (rewrite (inv_len_nx _ _ _ _ _ HI'); lia). cbn [bind].
  destruct (Nat.lt_ge_cases (S k0) n) as [Hlt|Hge].
  - (* the next node of the queue *)
    rewrite (inv_nx1 _ _ _ _ _ HI') by assumption.
    eexists; split; [reflexivity|]. exists (order ++ ext). cbn [ms_newnum ms_nxtnum ms_n ms_n0].
    split; [assumption|]. split; [assumption|reflexivity].
  - (* the queue is empty: restart on a node without number *)
    rewrite (inv_nx2 _ _ _ _ _ HI') by assumption.
    assert (HnN' : n < N) by lia.
    destruct (find_first_ok N nn numcon (inv_len_nn _ _ _ _ _ HI') Hln (range 0 N) (ms_j s) (ms_n0 s) (range0_lt N))
      as (j1 & n1 & Hf1 & Hc1).
    rewrite Hf1. cbn [bind fst snd].
    destruct Hc1 as [(Hn1 & Hnone1)|(Hall & _)]; [|exfalso; apply (exists_unvisited _ _ _ _ _ HI' HnN' Hall)].
    destruct (find_best_ok N nn numcon (inv_len_nn _ _ _ _ _ HI') Hln (range 0 N) j1 n1 (range0_lt N) Hn1 Hnone1)
      as (j2 & n2 & Hf2 & Hn2 & Hnone2).
    rewrite Hf2. cbn [bind fst snd].
    destruct (number_node_ok _ _ _ _ _ _ HI' Hn2 Hnone2) as (nn' & nx' & Hnum & HI'' & _).
    rewrite Hnum. cbn [bind].
    eexists; split; [reflexivity|]. exists ((order ++ ext) ++ [n2]). cbn [ms_newnum ms_nxtnum ms_n ms_n0].
    split; [assumption|]. split; [lia|].
    assert (E : S k0 = length (order ++ ext)) by (rewrite app_length; lia).
    rewrite E. rewrite app_nth2 by lia. now rewrite Nat.sub_diag.
Qed.

Lemma Top_n_le N s k0 : Top N s k0 -> ms_n s <= N.
Proof. intros (order & HI & _). apply (Inv_n_le _ _ _ _ _ HI). Qed.

(* the do-while ends within N - k0 turns, with every number handed out *)
Lemma main_loop_ok N hs numcon ocon :
  Forall (fun h => fst h < N /\ snd h < N) hs -> graph_ok N hs numcon ocon ->
  forall fuel s k0, Top N s k0 -> ms_n s < N -> N - k0 <= fuel ->
  exists s' order, main_loop fuel N numcon ocon s = Ok s' /\
                   Inv N order (ms_newnum s') (ms_nxtnum s') N.
Proof.
  intros Hhs HG. induction fuel as [|fuel IH]; intros s k0 HT HnN Hf.
  - destruct HT as (_ & _ & Hk & _). lia.
  - cbn [main_loop].
    destruct (main_body_ok N hs numcon ocon s k0 Hhs HG HT HnN) as (s' & Hb & HT').
    rewrite Hb. cbn [bind].
    destruct (Nat.ltb_spec (ms_n s') N) as [Hlt|Hge].
    + apply (IH s' (S k0)); [assumption|assumption|].
      destruct HT' as (_ & _ & Hk & _). lia.
    + pose proof (Top_n_le _ _ _ HT') as Hle.
      destruct HT' as (order & HI & _). exists s', order. split; [reflexivity|].
      replace N with (ms_n s') at 2 by lia. assumption.
Qed.

(* when all N numbers are handed out, newnum is a permutation of 0..N-1 *)
Lemma all_some_ok (l : list (option nat)) :
  (forall v, v < length l -> nth v l None <> None) ->
  exists nn, all_some l = Ok nn /\ length nn = length l /\
             forall v, v < length l -> nth v l None = Some (nth v nn 0).
Proof.
  induction l as [|[k|] l IH]; intros H; cbn [all_some].
  - exists []. split; [reflexivity|]. split; [reflexivity|]. cbn. intros; lia.
  - destruct IH as (nn & Ha & Hl & Hv).
    { intros v Hv. apply (H (S v)). cbn. lia. }
    rewrite Ha. cbn [bind]. exists (k :: nn). split; [reflexivity|]. split; [cbn; lia|].
    intros [|v] Hlt; [reflexivity|]. cbn. apply Hv. cbn in Hlt. lia.
  - exfalso. apply (H 0); [cbn; lia|reflexivity].
Qed.

Lemma Inv_full_all_visited N order nn nx : Inv N order nn nx N -> forall v, v < N -> In v order.
Proof.
  intros H v Hv.
  assert (Hincl : incl order (seq 0 N)).
  { intros w Hw. pose proof (inv_lt _ _ _ _ _ H) as L. rewrite Forall_forall in L. apply in_seq. specialize (L w Hw). lia. }
  apply (@NoDup_length_incl nat order (seq 0 N) (inv_nodup _ _ _ _ _ H)); [|assumption|apply in_seq; lia].
  rewrite seq_length. rewrite <- (inv_n _ _ _ _ _ H). lia.
Qed.

Lemma Inv_full_perm N order nnopt nx nn :
  Inv N order nnopt nx N -> length nn = N ->
  (forall v, v < N -> nth v nnopt None = Some (nth v nn 0)) ->
  Permutation nn (seq 0 N).
Proof.
  intros H Hl Hv.
  assert (Hvis : forall v, v < N -> exists k, k < N /\ nth k order 0 = v /\ nth v nn 0 = k).
  { intros v Hlt. destruct (Inv_visited _ _ _ _ _ _ H (Inv_full_all_visited _ _ _ _ H v Hlt)) as (k & Hk & Hko & E).
    exists k. split; [assumption|]. split; [assumption|]. rewrite Hv in E by assumption. congruence. }
  apply NoDup_Permutation.
  - apply (NoDup_nth nn 0). intros i j Hi Hj E. rewrite Hl in *.
    destruct (Hvis i Hi) as (ki & _ & Hoi & Eki). destruct (Hvis j Hj) as (kj & _ & Hoj & Ekj). congruence.
  - apply seq_NoDup.
  - intros x. rewrite in_seq. split.
    + intros Hin. destruct (In_nth _ _ 0 Hin) as (v & Hlt & <-). rewrite Hl in Hlt.
      destruct (Hvis v Hlt) as (k & Hk & _ & ->). lia.
    + intros Hx. assert (Hx' : x < N) by lia.
      pose proof (inv_nn1 _ _ _ _ _ H x Hx') as E.
      assert (Ho : nth x order 0 < N).
      { pose proof (inv_lt _ _ _ _ _ H) as L. rewrite Forall_forall in L. apply L, nth_In. rewrite <- (inv_n _ _ _ _ _ H). assumption. }
      rewrite Hv in E by assumption. injection E as E. rewrite <- E. apply nth_In. lia.
Qed.

Definition renumber_guard (N : nat) (edges : list (nat * nat)) : Prop :=
  2 <= N /\ edges_ok N edges.

(* Cuthill up to the end of the numbering loop: no out-of-range access, every loop ends within its
   fuel (the do-while within N turns), newnum is a permutation *)
Lemma numbering_ok N edges :
  renumber_guard N edges ->
  exists numcon ocon nn, numbering N edges = Ok (numcon, ocon, nn) /\
                         graph_ok N (halves edges) numcon ocon /\ Permutation nn (seq 0 N).
Proof.
  intros (HN & Hok). unfold numbering.
  destruct (count_pass_ok N edges Hok) as (numcon & Hc & Hln & Hnc). rewrite Hc. cbn [bind].
  destruct (store_pass_ok N numcon edges Hok Hln Hnc) as (ocon0 & nxt & Hs & Hlo & Hoc). rewrite Hs. cbn [bind fst].
  destruct (bubble_all_ok N (halves edges) numcon ocon0 (halves_ok _ _ Hok) Hln Hlo Hnc Hoc) as (ocon & Hb & HG).
  rewrite Hb. cbn [bind].
  destruct (start_search_ok N numcon Hln ltac:(lia)) as (j & n0 & Hss & Hn0).
  rewrite Hss. cbn [bind fst snd].
  rewrite wr_ok by (rewrite repeat_length; lia). cbn [bind].
  rewrite wr_ok by (rewrite repeat_length; lia). cbn [bind].
  set (nn0 := upd (repeat None N) n0 (Some 0)). set (nx0 := upd (repeat None N) 0 (Some n0)).
  assert (HI0 : Inv N [n0] nn0 nx0 1).
  { subst nn0 nx0. constructor.
    - now rewrite upd_length, repeat_length.
    - now rewrite upd_length, repeat_length.
    - reflexivity.
    - constructor; [intros []|constructor].
    - constructor; [assumption|constructor].
    - intros k Hk. assert (k = 0) by lia. subst k. rewrite nth_upd_eq by (rewrite repeat_length; lia). reflexivity.
    - intros k Hk. rewrite nth_upd_neq by lia. apply nth_repeat.
    - intros k Hk. assert (k = 0) by lia. subst k. cbn. rewrite nth_upd_eq by (rewrite repeat_length; lia). reflexivity.
    - intros v Hv. rewrite nth_upd_neq by (intros ->; apply Hv; left; reflexivity). apply nth_repeat. }
  destruct (main_loop_ok N (halves edges) numcon ocon (halves_ok _ _ Hok) HG N (mkMs nn0 nx0 1 n0 j) 0)
    as (s' & order & Hm & HI).
  { exists [n0]. cbn. split; [assumption|]. split; [lia|reflexivity]. }
  { cbn. lia. }
  { lia. }
  rewrite Hm. cbn [bind].
  destruct (all_some_ok (ms_newnum s')) as (nn & Ha & Hl & Hv).
  { rewrite (inv_len_nn _ _ _ _ _ HI). intros v Hlt E.
    apply (Inv_unvisited _ _ _ _ _ _ HI E). apply (Inv_full_all_visited _ _ _ _ HI). assumption. }
  rewrite Ha. cbn [bind]. rewrite (inv_len_nn _ _ _ _ _ HI) in *.
  exists numcon, ocon, nn. split; [reflexivity|]. split; [assumption|].
  apply (Inv_full_perm N order (ms_newnum s') (ms_nxtnum s') nn); assumption.
Qed.

(* ------------------------------------------------------------------------------------------ *)
(* Part 4: permutations of 0..N-1, remapping, bandwidth                                         *)
(* ------------------------------------------------------------------------------------------ *)
Definition is_perm (N : nat) (nn : list nat) : Prop := Permutation nn (seq 0 N).

Lemma perm_length N nn : is_perm N nn -> length nn = N.
Proof. intros H. rewrite (Permutation_length H). apply seq_length. Qed.

Lemma perm_lt N nn i : is_perm N nn -> i < N -> nth i nn 0 < N.
Proof.
  intros H Hi. assert (Hin : In (nth i nn 0) (seq 0 N)).
  { apply (Permutation_in _ H). apply nth_In. rewrite (perm_length _ _ H). assumption. }
  apply in_seq in Hin. lia.
Qed.

Lemma perm_nodup N nn : is_perm N nn -> NoDup nn.
Proof. intros H. apply (Permutation_NoDup (Permutation_sym H)). apply seq_NoDup. Qed.

Lemma perm_inj N nn i j : is_perm N nn -> i < N -> j < N -> nth i nn 0 = nth j nn 0 -> i = j.
Proof.
  intros H Hi Hj E. pose proof (perm_nodup _ _ H) as Hnd. rewrite (NoDup_nth nn 0) in Hnd.
  apply Hnd; rewrite ?(perm_length _ _ H); assumption.
Qed.

Lemma perm_surj N nn t : is_perm N nn -> t < N -> exists i, i < N /\ nth i nn 0 = t.
Proof.
  intros H Ht. assert (Hin : In t nn).
  { apply (Permutation_in _ (Permutation_sym H)). apply in_seq. lia. }
  destruct (In_nth _ _ 0 Hin) as (i & Hi & E). exists i. rewrite (perm_length _ _ H) in Hi. auto.
Qed.

Lemma nth_map_rows (f : nat -> nat) (ocon : list (list nat)) v :
  nth v (map (map f) ocon) [] = map f (nth v ocon []).
Proof.
  destruct (Nat.lt_ge_cases v (length ocon)) as [H|H].
  - rewrite (nth_indep _ [] (map f [])) by (rewrite map_length; lia). apply map_nth.
  - rewrite !nth_overflow; [reflexivity|lia|rewrite map_length; lia].
Qed.

Lemma remap_rows_ok N hs numcon ocon nn :
  Forall (fun h => fst h < N /\ snd h < N) hs -> graph_ok N hs numcon ocon -> length nn = N ->
  mapM (mapM (rd nn)) ocon = Ok (map (map (fun v => nth v nn 0)) ocon).
Proof.
  intros Hhs HG Hl. apply mapM_ok. intros row Hrow. apply mapM_ok. intros v Hv.
  apply rd_ok. rewrite Hl.
  destruct (In_nth _ _ [] Hrow) as (k & Hk & E). pose proof HG as (_ & Hlo & _). rewrite Hlo in Hk.
  pose proof (graph_rows_lt N hs numcon ocon k Hhs HG Hk) as L. rewrite E in L.
  rewrite Forall_forall in L. auto.
Qed.

Lemma absdiff_sym a b : absdiff a b = absdiff b a.
Proof. unfold absdiff. destruct (Nat.leb_spec a b), (Nat.leb_spec b a); lia. Qed.

Lemma bw_row_ok a row w :
  exists w', foldM (fun w' b => Ok (if w' <? absdiff a b then absdiff a b else w')) row w = Ok w' /\
             w <= w' /\ forall b, In b row -> absdiff a b <= w'.
Proof.
  revert w; induction row as [|b row IH]; intros w; cbn [foldM].
  - exists w. split; [reflexivity|]. split; [lia|intros b []].
  - cbn [bind]. destruct (IH (if w <? absdiff a b then absdiff a b else w)) as (w' & Hf & Hle & Hall).
    exists w'. split; [assumption|].
    destruct (Nat.ltb_spec w (absdiff a b)); (split; [lia|]); intros b' [<-|Hin]; auto; lia.
Qed.

Lemma bw_all_ok N numcon nn oconR :
  length numcon = N -> length nn = N -> length oconR = N ->
  (forall v, v < N -> nth v numcon 0 = length (nth v oconR [])) ->
  exists w, bw_all N numcon nn oconR = Ok w /\
            forall v b, v < N -> In b (nth v oconR []) -> absdiff (nth v nn 0) b <= w.
Proof.
  intros Hln Hl Hlo Hc. unfold bw_all.
  destruct (foldM_inv_split
              (fun w n0 => c <- rd numcon n0 ;; a <- rd nn n0 ;; row <- rd oconR n0 ;;
                 foldM (fun w' i => b <- rd row i ;; Ok (if w' <? absdiff a b then absdiff a b else w')) (range 0 c) w)
              (fun pre _ w => forall v b, In v pre -> In b (nth v oconR []) -> absdiff (nth v nn 0) b <= w)
              (range 0 N)) with (s := 0) as (w & Hf & HI).
  - intros pre n0 suf w E HI.
    assert (Hn0 : n0 < N).
    { assert (Hin : In n0 (range 0 N)) by (rewrite E; apply in_or_app; right; left; reflexivity).
      apply in_range in Hin. lia. }
    rewrite (rd_ok numcon n0 0) by lia. cbn [bind]. rewrite (rd_ok nn n0 0) by lia. cbn [bind].
    rewrite (rd_ok oconR n0 []) by lia. cbn [bind]. rewrite Hc by assumption.
    rewrite (foldM_rd_row (fun w' b => Ok (if w' <? absdiff (nth n0 nn 0) b then absdiff (nth n0 nn 0) b else w'))).
    destruct (bw_row_ok (nth n0 nn 0) (nth n0 oconR []) w) as (w' & Hr & Hle & Hall).
    exists w'. split; [assumption|]. intros v b Hv Hb. apply in_app_or in Hv.
    destruct Hv as [Hv|[<-|[]]]; [specialize (HI v b Hv Hb); lia|auto].
  - intros v b [].
  - exists w. split; [assumption|]. intros v b Hv Hb. apply HI; [|assumption]. apply in_range. lia.
Qed.

(* BandWidth - 1 bounds the distance of the new numbers of the two ends of every line of the .edge file *)
Lemma bandwidth_bound N edges numcon ocon nn w :
  edges_ok N edges -> graph_ok N (halves edges) numcon ocon -> length nn = N ->
  (forall v b, v < N -> In b (nth v (map (map (fun u => nth u nn 0)) ocon) []) -> absdiff (nth v nn 0) b <= w) ->
  forall a b, In (a, b) edges -> absdiff (nth a nn 0) (nth b nn 0) <= w.
Proof.
  intros Hok HG Hl Hw a b Hin.
  assert (Ha : a < N) by (unfold edges_ok in Hok; rewrite Forall_forall in Hok; apply (Hok (a, b) Hin)).
  apply Hw; [assumption|]. rewrite nth_map_rows. apply (in_map (fun u => nth u nn 0)).
  destruct HG as (_ & _ & Hrows). destruct (Hrows a Ha) as (_ & Hp).
  apply (Permutation_in _ (Permutation_sym Hp)). apply in_adjH. apply (in_halves a b edges Hin).
Qed.

(* ------------------------------------------------------------------------------------------ *)
(* Part 5: SortNodes                                                                           *)
(* ------------------------------------------------------------------------------------------ *)
Lemma nth_swap {A} (l : list A) i j x y p d :
  i < length l -> j < length l ->
  nth p (upd (upd l i y) j x) d = if p =? j then x else if p =? i then y else nth p l d.
Proof.
  intros Hi Hj. destruct (Nat.eqb_spec p j) as [->|Hpj].
  - apply nth_upd_eq. now rewrite upd_length.
  - rewrite nth_upd_neq by lia. destruct (Nat.eqb_spec p i) as [->|Hpi].
    + now apply nth_upd_eq.
    + apply nth_upd_neq. lia.
Qed.

(* number of p < n with f p *)
Definition cnt (f : nat -> bool) (n : nat) : nat := length (filter f (seq 0 n)).

Lemma cnt_S f n : cnt f (S n) = cnt f n + (if f n then 1 else 0).
Proof. unfold cnt. rewrite seq_S, filter_app, app_length. cbn. destruct (f n); reflexivity. Qed.

Lemma cnt_le f g n : (forall p, p < n -> g p = true -> f p = true) -> cnt g n <= cnt f n.
Proof.
  induction n as [|n IH]; intros H; [reflexivity|]. rewrite !cnt_S.
  specialize (IH ltac:(intros; apply H; [lia|assumption])).
  specialize (H n ltac:(lia)). destruct (g n), (f n); try lia; try discriminate (H eq_refl).
Qed.

Lemma cnt_lt f g n j :
  (forall p, p < n -> g p = true -> f p = true) -> j < n -> f j = true -> g j = false -> cnt g n < cnt f n.
Proof.
  induction n as [|n IH]; intros H Hj Hf Hg; [lia|]. rewrite !cnt_S.
  destruct (Nat.eq_dec j n) as [->|Hne].
  - rewrite Hf, Hg. pose proof (cnt_le f g n ltac:(intros; apply H; [lia|assumption])). lia.
  - specialize (IH ltac:(intros; apply H; [lia|assumption]) ltac:(lia) Hf Hg).
    specialize (H n ltac:(lia)). destruct (g n), (f n); try lia; try discriminate (H eq_refl).
Qed.

Lemma cnt_bound f n : cnt f n <= n.
Proof.
  induction n as [|n IH]; [reflexivity|]. rewrite cnt_S. destruct (f n); lia.
Qed.

Section SortNodes.
Context {Nd : Type} (d : Nd).

Definition nonfixed (nn : list nat) (p : nat) : bool := negb (nth p nn 0 =? p).

(* every position holds a (target, node) pair of the original arrays *)
Definition SN (N : nat) (nn0 : list nat) (nodes0 : list Nd) (nn : list nat) (nodes : list Nd) : Prop :=
  is_perm N nn /\ length nodes = N /\
  forall p, p < N -> exists i, i < N /\ nth p nn 0 = nth i nn0 0 /\ nth p nodes d = nth i nodes0 d.

Lemma sn_while_ok N nn0 nodes0 i :
  i < N ->
  forall fuel nn nodes, SN N nn0 nodes0 nn nodes -> cnt (nonfixed nn) N < fuel ->
  exists nn' nodes', sn_while fuel i nn nodes = Ok (nn', nodes') /\ SN N nn0 nodes0 nn' nodes' /\
                     nth i nn' 0 = i /\ forall p, nth p nn 0 = p -> nth p nn' 0 = p.
Proof.
  intros Hi. induction fuel as [|fuel IH]; intros nn nodes HS Hc; [lia|].
  destruct HS as (Hp & Hln & Hpairs). pose proof (perm_length _ _ Hp) as Hl.
  cbn [sn_while]. rewrite (rd_ok nn i 0) by lia. cbn [bind].
  destruct (Nat.eqb_spec (nth i nn 0) i) as [E|Hne].
  - eexists _, _. split; [reflexivity|]. split; [repeat split; assumption|]. auto.
  - set (j := nth i nn 0) in *.
    assert (Hj : j < N) by (apply perm_lt; assumption).
    rewrite (rd_ok nn j 0) by lia. cbn [bind].
    rewrite wr_ok by lia. cbn [bind]. rewrite wr_ok by (rewrite upd_length; lia). cbn [bind].
    rewrite (rd_ok nodes i d) by lia. cbn [bind]. rewrite (rd_ok nodes j d) by lia. cbn [bind].
    rewrite wr_ok by lia. cbn [bind]. rewrite wr_ok by (rewrite upd_length; lia). cbn [bind].
    set (nn1 := upd (upd nn i (nth j nn 0)) j j).
    set (nodes1 := upd (upd nodes i (nth j nodes d)) j (nth i nodes d)).
    assert (Hnn1 : forall p, nth p nn1 0 = if p =? j then nth i nn 0 else if p =? i then nth j nn 0 else nth p nn 0).
    { intros p. unfold nn1. rewrite nth_swap by lia. reflexivity. }
    assert (Hnd1 : forall p, nth p nodes1 d = if p =? j then nth i nodes d else if p =? i then nth j nodes d else nth p nodes d).
    { intros p. unfold nodes1. rewrite nth_swap by lia. reflexivity. }
    assert (Hjj : nth j nn 0 <> j).
    { intros E. apply Hne. symmetry. apply (perm_inj N nn i j Hp Hi Hj). fold j. congruence. }
    assert (HS1 : SN N nn0 nodes0 nn1 nodes1).
    { split; [|split].
      - unfold is_perm, nn1.
        change (Permutation (upd (upd nn i (nth j nn 0)) j (nth i nn 0)) (seq 0 N)).
        apply (Permutation_trans (swap_perm nn i j 0 ltac:(lia) ltac:(lia))). exact Hp.
      - unfold nodes1. now rewrite !upd_length.
      - intros p Hlt. rewrite Hnn1, Hnd1.
        destruct (Nat.eqb_spec p j); [apply Hpairs; assumption|].
        destruct (Nat.eqb_spec p i); [apply Hpairs; assumption|]. apply Hpairs; assumption. }
    assert (Hc1 : cnt (nonfixed nn1) N < cnt (nonfixed nn) N).
    { apply (cnt_lt _ _ N j).
      - intros p Hlt. unfold nonfixed. rewrite Hnn1.
        destruct (Nat.eqb_spec p j) as [->|Hpj].
        + fold j. rewrite Nat.eqb_refl. discriminate.
        + destruct (Nat.eqb_spec p i) as [->|Hpi]; [|auto].
          intros _. fold j. destruct (Nat.eqb_spec j i); [contradiction|reflexivity].
      - assumption.
      - unfold nonfixed. destruct (Nat.eqb_spec (nth j nn 0) j); [contradiction|reflexivity].
      - unfold nonfixed. rewrite Hnn1, Nat.eqb_refl. fold j. now rewrite Nat.eqb_refl. }
    destruct (IH nn1 nodes1 HS1 ltac:(lia)) as (nn' & nodes' & Hw & HS' & Hfix & Hkeep).
    exists nn', nodes'. split; [exact Hw|]. split; [assumption|]. split; [assumption|].
    intros p Hpfix. apply Hkeep. rewrite Hnn1.
    destruct (Nat.eqb_spec p j) as [->|Hpj]; [contradiction|].
    destruct (Nat.eqb_spec p i) as [->|Hpi]; [contradiction|assumption].
Qed.

Lemma sort_nodes_ok N nn0 (nodes0 : list Nd) :
  is_perm N nn0 -> length nodes0 = N ->
  exists nodes', sort_nodes N nn0 nodes0 = Ok (seq 0 N, nodes') /\ length nodes' = N /\
                 forall i, i < N -> nth (nth i nn0 0) nodes' d = nth i nodes0 d.
Proof.
  intros Hp Hln. unfold sort_nodes.
  destruct (foldM_inv_split (fun st i => sn_while (S N) i (fst st) (snd st))
              (fun pre _ st => SN N nn0 nodes0 (fst st) (snd st) /\ forall p, In p pre -> nth p (fst st) 0 = p)
              (range 0 N)) with (s := (nn0, nodes0)) as ([nn nodes] & Hf & HS & Hfix).
  - intros pre i suf [nn nodes] E (HS & Hfix). cbn [fst snd] in *.
    assert (Hi : i < N).
    { assert (Hin : In i (range 0 N)) by (rewrite E; apply in_or_app; right; left; reflexivity).
      apply in_range in Hin. lia. }
    destruct (sn_while_ok N nn0 nodes0 i Hi (S N) nn nodes HS) as (nn' & nodes' & Hw & HS' & Hi' & Hkeep).
    { pose proof (cnt_bound (nonfixed nn) N). lia. }
    exists (nn', nodes'). split; [assumption|]. cbn [fst snd]. split; [assumption|].
    intros p Hin. apply in_app_or in Hin. destruct Hin as [Hin|[<-|[]]]; auto.
  - cbn [fst snd]. split; [|intros p []]. split; [assumption|]. split; [assumption|].
    intros p Hlt. exists p. auto.
  - cbn [fst snd] in *. destruct HS as (Hp' & Hln' & Hpairs).
    assert (Hall : forall p, p < N -> nth p nn 0 = p) by (intros p Hlt; apply Hfix, in_range; lia).
    assert (Enn : nn = seq 0 N).
    { apply (nth_ext _ _ 0 0); [rewrite seq_length; apply (perm_length _ _ Hp')|].
      intros p Hlt. rewrite (perm_length _ _ Hp') in Hlt. rewrite seq_nth by assumption. cbn. auto. }
    exists nodes. split; [rewrite Hf, Enn; reflexivity|]. split; [assumption|].
    intros i Hi. pose proof (perm_lt N nn0 i Hp Hi) as Ht.
    destruct (Hpairs _ Ht) as (i' & Hi' & E1 & E2). rewrite Hall in E1 by assumption.
    assert (i = i') by (apply (perm_inj N nn0); assumption). subst i'. assumption.
Qed.

(* the scatter specification *)
Lemma scatter_length (l : list (nat * Nd)) r :
  length (fold_left (fun r tx => upd r (fst tx) (snd tx)) l r) = length r.
Proof. revert r; induction l as [|tx l IH]; intros r; cbn; [reflexivity|]. rewrite IH. apply upd_length. Qed.

Lemma scatter_untouched (l : list (nat * Nd)) r t :
  ~ In t (map fst l) -> nth t (fold_left (fun r tx => upd r (fst tx) (snd tx)) l r) d = nth t r d.
Proof.
  revert r; induction l as [|tx l IH]; intros r H; cbn; [reflexivity|].
  rewrite IH by (intros Hin; apply H; right; assumption).
  apply nth_upd_neq. intros E. apply H. left. assumption.
Qed.

Lemma scatter_nth (l : list (nat * Nd)) r t x :
  NoDup (map fst l) -> Forall (fun tx => fst tx < length r) l -> In (t, x) l ->
  nth t (fold_left (fun r tx => upd r (fst tx) (snd tx)) l r) d = x.
Proof.
  revert r; induction l as [|tx l IH]; intros r Hnd Hlt Hin; [destruct Hin|].
  cbn [fold_left]. cbn [map] in Hnd. inversion Hnd as [|? ? Hnotin Hnd']; subst.
  inversion Hlt as [|? ? Ht Hlt']; subst.
  destruct Hin as [->|Hin].
  - cbn [fst snd] in *. rewrite scatter_untouched by assumption. now apply nth_upd_eq.
  - apply IH; [assumption| |assumption].
    apply Forall_forall. intros tx' Htx'. rewrite upd_length. rewrite Forall_forall in Hlt'. auto.
Qed.

Lemma map_fst_combine' {A B} (l1 : list A) (l2 : list B) : length l1 = length l2 -> map fst (combine l1 l2) = l1.
Proof.
  revert l2; induction l1 as [|a l1 IH]; intros [|b l2] H; cbn in *; try lia; [reflexivity|].
  rewrite IH by lia. reflexivity.
Qed.

Lemma sort_nodes_spec_ok N nn0 (nodes0 : list Nd) :
  is_perm N nn0 -> length nodes0 = N ->
  length (sort_nodes_spec nn0 nodes0) = N /\
  forall i, i < N -> nth (nth i nn0 0) (sort_nodes_spec nn0 nodes0) d = nth i nodes0 d.
Proof.
  intros Hp Hln. pose proof (perm_length _ _ Hp) as Hl. unfold sort_nodes_spec.
  split; [now rewrite scatter_length|].
  intros i Hi. apply scatter_nth.
  - rewrite map_fst_combine' by lia. apply (perm_nodup _ _ Hp).
  - apply Forall_forall. intros [t x] Hin. cbn [fst]. apply in_combine_l in Hin.
    destruct (In_nth _ _ 0 Hin) as (k & Hk & <-). rewrite Hln. apply perm_lt; [assumption|lia].
  - rewrite <- (combine_nth nn0 nodes0 i 0 d) by lia. apply nth_In. rewrite combine_length. lia.
Qed.

(* the in-place loop of the C++ computes exactly the scatter *)
Lemma sort_nodes_is_spec N nn0 (nodes0 : list Nd) :
  is_perm N nn0 -> length nodes0 = N ->
  sort_nodes N nn0 nodes0 = Ok (seq 0 N, sort_nodes_spec nn0 nodes0).
Proof.
  intros Hp Hln. destruct (sort_nodes_ok N nn0 nodes0 Hp Hln) as (nodes' & Hs & Hl' & Hn).
  destruct (sort_nodes_spec_ok N nn0 nodes0 Hp Hln) as (Hl2 & Hn2).
  rewrite Hs. f_equal. f_equal. apply (nth_ext _ _ d d); [lia|].
  intros p Hlt. rewrite Hl' in Hlt. destruct (perm_surj N nn0 p Hp Hlt) as (i & Hi & <-).
  rewrite Hn, Hn2 by assumption. reflexivity.
Qed.

End SortNodes.

(* ------------------------------------------------------------------------------------------ *)
(* Part 6: SortElements                                                                        *)
(* ------------------------------------------------------------------------------------------ *)
Lemma rd_map {A B} (f : A -> B) (l : list A) i :
  rd (map f l) i = match rd l i with Ok x => Ok (f x) | Err e => Err e end.
Proof. revert i; induction l as [|y l IH]; intros [|i]; cbn; auto. Qed.

Lemma map_upd {A B} (f : A -> B) (l : list A) i x : map f (upd l i x) = upd (map f l) i (f x).
Proof. revert i; induction l as [|y l IH]; intros [|i]; cbn; auto. now rewrite IH. Qed.

Lemma next_gap_lt gap : 1 < gap -> next_gap gap < gap.
Proof.
  intros H. unfold next_gap. destruct (Nat.ltb_spec 1 gap); [|lia].
  pose proof (Nat.div_mod (gap * 10) 13 ltac:(lia)) as D.
  pose proof (Nat.mod_upper_bound (gap * 10) 13 ltac:(lia)) as U.
  destruct (Nat.eqb_spec (gap * 10 / 13) 10); cbn [orb]; [lia|].
  destruct (Nat.eqb_spec (gap * 10 / 13) 9); lia.
Qed.

Lemma next_gap_small gap : gap <= 1 -> next_gap gap = gap.
Proof. intros H. unfold next_gap. destruct (Nat.ltb_spec 1 gap); [lia|reflexivity]. Qed.

Section SortElements.
Context {P : Type}.
Local Notation elemP := (elem P).

(* Score[] stays the score of meshele[], and meshele[] a permutation of what it was *)
Definition CS (ele0 : list elemP) (st : list Z * list elemP * bool) : Prop :=
  fst (fst st) = map score (snd (fst st)) /\ Permutation (snd (fst st)) ele0.

Lemma comb_step_ok ele0 gap st j :
  CS ele0 st -> j + gap < length ele0 -> exists st', comb_step gap st j = Ok st' /\ CS ele0 st'.
Proof.
  intros (HS & Hp) Hj. destruct st as [[Score ele] sw]. cbn [fst snd] in *.
  pose proof (Permutation_length Hp) as Hl.
  destruct (rd_some ele j ltac:(lia)) as (ej & Rj & Nj).
  destruct (rd_some ele (j + gap) ltac:(lia)) as (ek & Rk & Nk).
  unfold comb_step. rewrite HS, !rd_map, Rj, Rk. cbn [bind].
  destruct (score ek <? score ej)%Z.
  - rewrite wr_ok by (rewrite map_length; lia). cbn [bind].
    rewrite wr_ok by (rewrite upd_length, map_length; lia). cbn [bind].
    rewrite wr_ok by lia. cbn [bind]. rewrite wr_ok by (rewrite upd_length; lia). cbn [bind].
    eexists; split; [reflexivity|]. split; cbn [fst snd].
    + now rewrite !map_upd.
    + rewrite <- (Nj ej) at 1. rewrite <- (Nk ej).
      apply (Permutation_trans (swap_perm ele (j + gap) j ej ltac:(lia) ltac:(lia))). assumption.
  - eexists; split; [reflexivity|]. split; cbn [fst snd]; [reflexivity|assumption].
Qed.

Lemma comb_pass_ok ele0 gap Score ele :
  CS ele0 (Score, ele, false) ->
  exists st', comb_pass (length ele0) gap Score ele = Ok st' /\ CS ele0 st'.
Proof.
  intros H. unfold comb_pass. apply (foldM_inv (comb_step gap) (CS ele0)); [|assumption].
  intros s j Hin Hs. apply in_range in Hin. apply comb_step_ok; [assumption|lia].
Qed.

Lemma comb_loop_ok ele0 :
  forall fuel gap Score ele, CS ele0 (Score, ele, false) -> gap < fuel ->
  exists Score' ele', comb_loop fuel (length ele0) gap Score ele = Ok (Score', ele') /\
                      CS ele0 (Score', ele', false).
Proof.
  induction fuel as [|fuel IH]; intros gap Score ele H Hf; [lia|].
  cbn [comb_loop].
  destruct (comb_pass_ok ele0 (next_gap gap) Score ele H) as ([[Score' ele'] sw] & Hp & HC).
  rewrite Hp. cbn [bind].
  assert (HC' : CS ele0 (Score', ele', false)) by exact HC.
  destruct (Nat.ltb_spec 1 (next_gap gap)) as [Hg|Hg]; cbn [andb].
  - destruct sw; [|eauto].
    apply IH; [assumption|].
    destruct (Nat.lt_ge_cases 1 gap) as [Hgap|Hgap].
    + pose proof (next_gap_lt gap Hgap). lia.
    + rewrite next_gap_small in Hg by assumption. lia.
  - eauto.
Qed.

(* SortElements returns, and returns a permutation of the element list (every record intact) *)
Lemma sort_elements_ok (ele : list elemP) :
  exists ele', sort_elements ele = Ok ele' /\ Permutation ele' ele.
Proof.
  unfold sort_elements.
  destruct (comb_loop_ok ele (S (length ele)) (length ele) (map score ele) ele) as (Score' & ele' & Hc & _ & Hp).
  - split; [reflexivity|apply Permutation_refl].
  - lia.
  - rewrite Hc. cbn [bind snd]. exists ele'. split; [reflexivity|exact Hp].
Qed.

End SortElements.

(* ------------------------------------------------------------------------------------------ *)
(* Part 7: the whole of Cuthill                                                                *)
(* ------------------------------------------------------------------------------------------ *)
Definition nnf (nn : list nat) (v : nat) : nat := nth v nn 0.

Definition tri_lt (N : nat) (t : tri) : Prop := let '(a, b, c) := t in a < N /\ b < N /\ c < N.
Definition quad_lt (N : nat) (q : quad) : Prop := let '(a, b, c, d) := q in a < N /\ b < N /\ c < N /\ d < N.
Definition map_tri (f : nat -> nat) (t : tri) : tri := let '(a, b, c) := t in (f a, f b, f c).
Definition map_quad (f : nat -> nat) (q : quad) : quad := let '(a, b, c, d) := q in (f a, f b, f c, f d).

Section Whole.
Context {Nd P T W : Type}.
Local Notation meshT := (mesh Nd P T W).
Local Notation resultT := (result Nd P T W).

Definition mesh_guard (N : nat) (M : meshT) : Prop :=
  length (m_nodes M) = N /\
  Forall (fun e => tri_lt N (fst e)) (m_eles M) /\
  Forall (fun p => fst (fst p) < N /\ snd (fst p) < N) (m_pbcs M) /\
  Forall (Forall (fun qw => quad_lt N (fst qw))) (m_ages M).

Definition remap_ele_spec (nn : list nat) (e : elem P) : elem P := (map_tri (nnf nn) (fst e), snd e).
Definition remap_pbc_spec (nn : list nat) (p : nat * nat * T) : nat * nat * T :=
  (nnf nn (fst (fst p)), nnf nn (snd (fst p)), snd p).
Definition remap_qw_spec (nn : list nat) (qw : quad * W) : quad * W := (map_quad (nnf nn) (fst qw), snd qw).

Lemma remap_tri_ok N nn t : length nn = N -> tri_lt N t -> remap_tri nn t = Ok (map_tri (nnf nn) t).
Proof.
  intros Hl. destruct t as [[a b] c]. cbn. intros (Ha & Hb & Hc).
  rewrite (rd_ok nn a 0), (rd_ok nn b 0), (rd_ok nn c 0) by lia. reflexivity.
Qed.

Lemma remap_quad_ok N nn q : length nn = N -> quad_lt N q -> remap_quad nn q = Ok (map_quad (nnf nn) q).
Proof.
  intros Hl. destruct q as [[[a b] c] e]. cbn. intros (Ha & Hb & Hc & He).
  rewrite (rd_ok nn a 0), (rd_ok nn b 0), (rd_ok nn c 0), (rd_ok nn e 0) by lia. reflexivity.
Qed.

Theorem cuthill_ok (d : Nd) (N : nat) (edges : list (nat * nat)) (M : meshT) :
  renumber_guard N edges -> mesh_guard N M ->
  exists r : resultT,
    cuthill N edges M = Ok r /\
    is_perm N (r_newnum r) /\
    m_nodes (r_mesh r) = sort_nodes_spec (r_newnum r) (m_nodes M) /\
    length (m_nodes (r_mesh r)) = N /\
    (forall i, i < N -> nth (nnf (r_newnum r) i) (m_nodes (r_mesh r)) d = nth i (m_nodes M) d) /\
    Permutation (m_eles (r_mesh r)) (map (remap_ele_spec (r_newnum r)) (m_eles M)) /\
    m_pbcs (r_mesh r) = map (remap_pbc_spec (r_newnum r)) (m_pbcs M) /\
    m_ages (r_mesh r) = map (map (remap_qw_spec (r_newnum r))) (m_ages M) /\
    (forall a b, In (a, b) edges -> S (absdiff (nnf (r_newnum r) a) (nnf (r_newnum r) b)) <= r_bandwidth r).
Proof.
  intros HG (Hln & Hel & Hpb & Hag).
  destruct (numbering_ok N edges HG) as (numcon & ocon & nn & Hnum & Hgr & Hperm).
  destruct HG as (HN & Hok).
  pose proof (perm_length N nn Hperm) as Hl.
  unfold cuthill. rewrite Hnum. cbn [bind].
  rewrite (remap_rows_ok N (halves edges) numcon ocon nn (halves_ok _ _ Hok) Hgr Hl). cbn [bind].
  rewrite (mapM_ok (remap_pbc nn) (remap_pbc_spec nn)).
  2:{ intros [[x y] t] Hin. rewrite Forall_forall in Hpb. specialize (Hpb _ Hin). cbn in Hpb.
      unfold remap_pbc, remap_pbc_spec, nnf. cbn [fst snd].
      rewrite (rd_ok nn x 0), (rd_ok nn y 0) by lia. reflexivity. }
  cbn [bind].
  rewrite (mapM_ok (remap_age nn) (map (remap_qw_spec nn))).
  2:{ intros a Hin. unfold remap_age. apply mapM_ok. intros qw Hq.
      rewrite Forall_forall in Hag. specialize (Hag _ Hin). rewrite Forall_forall in Hag.
      rewrite (remap_quad_ok N nn (fst qw) Hl (Hag _ Hq)). reflexivity. }
  cbn [bind].
  destruct Hgr as (Hlnc & Hlo & Hrows).
  destruct (bw_all_ok N numcon nn (map (map (fun v => nth v nn 0)) ocon)) as (w & Hbw & Hw); auto.
  { now rewrite map_length. }
  { intros v Hv. rewrite nth_map_rows, map_length. apply (Hrows v Hv). }
  rewrite Hbw. cbn [bind].
  rewrite (mapM_ok (remap_ele nn) (remap_ele_spec nn)).
  2:{ intros e Hin. rewrite Forall_forall in Hel. unfold remap_ele, remap_ele_spec.
      rewrite (remap_tri_ok N nn (fst e) Hl (Hel _ Hin)). reflexivity. }
  cbn [bind].
  rewrite (sort_nodes_is_spec d N nn (m_nodes M) Hperm Hln). cbn [bind snd].
  destruct (sort_elements_ok (map (remap_ele_spec nn) (m_eles M))) as (ele' & Hse & Hpe).
  rewrite Hse. cbn [bind].
  eexists. split; [reflexivity|]. cbn [r_newnum r_bandwidth r_mesh m_nodes m_eles m_pbcs m_ages].
  destruct (sort_nodes_spec_ok d N nn (m_nodes M) Hperm Hln) as (Hl2 & Hn2).
  repeat split; try assumption; try reflexivity.
  intros a b Hin. apply le_n_S.
  apply (bandwidth_bound N edges numcon ocon nn w Hok); auto.
  exact (conj Hlnc (conj Hlo Hrows)).
Qed.

End Whole.

(* ------------------------------------------------------------------------------------------ *)
(* Part 8: the renumbered mesh is the isomorphic image                                         *)
(* ------------------------------------------------------------------------------------------ *)
Section Iso.
Context {Nd P T W : Type} (d : Nd).
Local Notation meshT := (mesh Nd P T W).
Local Notation resultT := (result Nd P T W).

(* what an element / pbc pair / quad node refers to: the node RECORDS (coordinates, boundary
   marker, conductor, ...) of its corners in corner order, and its own payload *)
Definition tri_nodes (nodes : list Nd) (t : tri) : Nd * Nd * Nd :=
  let '(a, b, c) := t in (nth a nodes d, nth b nodes d, nth c nodes d).
Definition quad_nodes (nodes : list Nd) (q : quad) : Nd * Nd * Nd * Nd :=
  let '(a, b, c, e) := q in (nth a nodes d, nth b nodes d, nth c nodes d, nth e nodes d).
Definition elem_view (nodes : list Nd) (e : elem P) : (Nd * Nd * Nd) * P := (tri_nodes nodes (fst e), snd e).
Definition pbc_view (nodes : list Nd) (p : nat * nat * T) : Nd * Nd * T :=
  (nth (fst (fst p)) nodes d, nth (snd (fst p)) nodes d, snd p).
Definition age_view (nodes : list Nd) (qw : quad * W) : (Nd * Nd * Nd * Nd) * W := (quad_nodes nodes (fst qw), snd qw).

Definition mesh_view (M : meshT) :=
  (map (elem_view (m_nodes M)) (m_eles M), map (pbc_view (m_nodes M)) (m_pbcs M),
   map (map (age_view (m_nodes M))) (m_ages M)).

Theorem renumbered_mesh_isomorphic (N : nat) (edges : list (nat * nat)) (M : meshT) (r : resultT) :
  renumber_guard N edges -> mesh_guard N M -> cuthill N edges M = Ok r ->
  (* the node records are permuted, node old i sits at position newnum[i] *)
  Permutation (m_nodes (r_mesh r)) (m_nodes M) /\
  (forall i, i < N -> nth (nnf (r_newnum r) i) (m_nodes (r_mesh r)) d = nth i (m_nodes M) d) /\
  (* the elements are permuted, each with its payload, each corner on the same node record *)
  Permutation (map (elem_view (m_nodes (r_mesh r))) (m_eles (r_mesh r))) (map (elem_view (m_nodes M)) (m_eles M)) /\
  (* pbc pairs and air-gap quad nodes keep their order and refer to the same node records *)
  map (pbc_view (m_nodes (r_mesh r))) (m_pbcs (r_mesh r)) = map (pbc_view (m_nodes M)) (m_pbcs M) /\
  map (map (age_view (m_nodes (r_mesh r)))) (m_ages (r_mesh r)) = map (map (age_view (m_nodes M))) (m_ages M).
Proof.
  intros HG HM Hc.
  destruct (cuthill_ok d N edges M HG HM) as (r' & Hc' & Hperm & _ & Hlen & Hnodes & Hel & Hpb & Hag & _).
  rewrite Hc in Hc'. injection Hc' as <-.
  destruct HM as (Hln & Helt & Hpbt & Hagt).
  set (nn := r_newnum r) in *. set (nodes' := m_nodes (r_mesh r)) in *.
  assert (Hnode : forall a, a < N -> nth (nnf nn a) nodes' d = nth a (m_nodes M) d) by exact Hnodes.
  split; [|split; [exact Hnodes|split; [|split]]].
  - apply (Permutation_nth _ _ d). split; [lia|].
    exists (nnf nn). rewrite Hlen. split; [|split].
    + intros x Hx. apply perm_lt; assumption.
    + intros x y Hx Hy E. apply (perm_inj N nn); assumption.
    + intros x Hx. symmetry. apply Hnode. assumption.
  - apply (Permutation_trans (Permutation_map (elem_view nodes') Hel)).
    rewrite map_map. apply Permutation_refl'. apply map_ext_in. intros e Hin.
    rewrite Forall_forall in Helt. specialize (Helt e Hin).
    unfold elem_view, remap_ele_spec. cbn [fst snd]. f_equal.
    destruct (fst e) as [[a b] c]. cbn in Helt. destruct Helt as (Ha & Hb & Hc3).
    cbn. rewrite !Hnode by assumption. reflexivity.
  - rewrite Hpb, map_map. apply map_ext_in. intros [[x y] t] Hin.
    rewrite Forall_forall in Hpbt. specialize (Hpbt _ Hin). cbn in Hpbt.
    unfold pbc_view, remap_pbc_spec. cbn [fst snd]. rewrite !Hnode by lia. reflexivity.
  - rewrite Hag, map_map. apply map_ext_in. intros a Hin. rewrite map_map. apply map_ext_in. intros qw Hq.
    rewrite Forall_forall in Hagt. specialize (Hagt _ Hin). rewrite Forall_forall in Hagt. specialize (Hagt _ Hq).
    unfold age_view, remap_qw_spec. cbn [fst snd]. f_equal.
    destruct (fst qw) as [[[q0 q1] q2] q3]. cbn in Hagt. destruct Hagt as (H0 & H1 & H2 & H3).
    cbn. rewrite !Hnode by assumption. reflexivity.
Qed.

End Iso.

(* ------------------------------------------------------------------------------------------ *)
(* Part 9: what happens outside the guard; SortElements does not sort                          *)
(* ------------------------------------------------------------------------------------------ *)
(* NumNodes = 1: nxtnum has one entry and the do-while reads nxtnum[newnum[n0]+1] = nxtnum[1] *)
Lemma single_node_out_of_range : numbering 1 [(0, 0)] = Err OutOfRange.
Proof. vm_compute. reflexivity. Qed.

(* NumNodes = 0: j = numcon[0] reads an empty vector *)
Lemma no_node_out_of_range : numbering 0 [] = Err OutOfRange.
Proof. vm_compute. reflexivity. Qed.

(* a forest of 7 nodes and 5 lines in which every node has a line.  Until /repo commit e99587c the
   start search ("if(j==2) i=n_lines;") never ended on it: the counter was set back to n_lines = 5
   whenever it stood at node 6.  With "if(j==2) break;" the search ends at node 1 and the numbering
   goes through (three restarts for the three components). *)
Definition forest_edges : list (nat * nat) := [(0, 1); (0, 2); (1, 3); (6, 4); (6, 5)].
Definition forest_numcon : list nat := [2; 2; 1; 1; 1; 1; 2].

Lemma forest_numcon_ok : count_pass 7 forest_edges = Ok forest_numcon.
Proof. vm_compute. reflexivity. Qed.

Lemma forest_start_search : start_search 7 forest_numcon = Ok (2, 0).
Proof. vm_compute. reflexivity. Qed.

Lemma forest_numbering :
  numbering 7 forest_edges =
  Ok (forest_numcon, [[2; 1]; [3; 0]; [0]; [1]; [6]; [6]; [4; 5]], [0; 2; 1; 3; 4; 6; 5]).
Proof. vm_compute. reflexivity. Qed.

Lemma forest_guard : renumber_guard 7 forest_edges /\ ~ 7 <= S (length forest_edges).
Proof.
  split; [split; [lia|]|cbn; lia]. unfold edges_ok, forest_edges. repeat constructor; cbn; lia.
Qed.

(* SortElements: scores 1, 3, 2 — the single comb with gap 2 finds Score[0] <= Score[2], makes
   no swap, and the do-while condition (gap>1)&&(i>0) ends the loop *)
Definition unsorted_witness : list (elem unit) := [((0, 0, 1), tt); ((1, 1, 1), tt); ((0, 1, 1), tt)].

Lemma sort_elements_leaves_unsorted :
  sort_elements unsorted_witness = Ok unsorted_witness /\ map score unsorted_witness = [1; 3; 2]%Z.
Proof. split; vm_compute; reflexivity. Qed.

(* non-vacuity: a square of two triangles (4 nodes, 5 edges) satisfies both guards *)
Definition ex_edges : list (nat * nat) := [(0, 1); (1, 2); (2, 3); (3, 0); (0, 2)].
Definition ex_mesh : mesh nat nat bool unit :=
  mkMesh [100; 101; 102; 103] [((0, 1, 2), 7); ((0, 2, 3), 8)] [(1, 3, true)] [[((0, 1, 2, 3), tt)]].

Lemma ex_guards : renumber_guard 4 ex_edges /\ mesh_guard 4 ex_mesh.
Proof.
  split.
  - split; [lia|]. unfold edges_ok, ex_edges. repeat constructor; cbn; lia.
  - unfold mesh_guard, ex_mesh. cbn. split; [reflexivity|]. repeat constructor; cbn; lia.
Qed.

Lemma ex_run :
  cuthill 4 ex_edges ex_mesh =
  Ok (mkResult [1; 0; 2; 3] 3
        (mkMesh [101; 100; 102; 103] [((1, 0, 2), 7); ((1, 2, 3), 8)] [(0, 3, true)] [[((1, 0, 2, 3), tt)]])).
Proof. vm_compute. reflexivity. Qed.

(* the checks of rd / wr are exactly the C++ preconditions of operator[] *)
Lemma rd_ok_inv {A} (l : list A) i x : rd l i = Ok x -> i < length l.
Proof. intros H. destruct (Nat.lt_ge_cases i (length l)); [assumption|]. rewrite rd_err in H by assumption. discriminate. Qed.

Lemma wr_ok_inv {A} (l : list A) i x l' : wr l i x = Ok l' -> i < length l.
Proof. intros H. destruct (Nat.lt_ge_cases i (length l)); [assumption|]. rewrite wr_err in H by assumption. discriminate. Qed.

Lemma absdiff_Z a b : Z.of_nat (absdiff a b) = Z.abs (Z.of_nat a - Z.of_nat b).
Proof. unfold absdiff. destruct (Nat.leb_spec a b); lia. Qed.

From Coq Require Import Sorted.

Lemma unsorted_witness_not_sorted : ~ Sorted Z.le (map score unsorted_witness).
Proof.
  change (map score unsorted_witness) with [1; 3; 2]%Z. intros H.
  inversion H as [|? ? H1 _]; subst. inversion H1 as [|? ? _ H2]; subst.
  inversion H2 as [|? ? H3]; subst. lia.
Qed.

(* ------------------------------------------------------------------------------------------ *)
(* Part 10: the bandwidth and the element sides                                                *)
(* ------------------------------------------------------------------------------------------ *)
Definition edge_in (edges : list (nat * nat)) (a b : nat) : Prop := In (a, b) edges \/ In (b, a) edges.
Definition sides_in (edges : list (nat * nat)) (t : tri) : Prop :=
  let '(a, b, c) := t in edge_in edges a b /\ edge_in edges b c /\ edge_in edges c a.
Definition sides_within (bw : nat) (t : tri) : Prop :=
  let '(a, b, c) := t in absdiff a b < bw /\ absdiff b c < bw /\ absdiff c a < bw.

Theorem bandwidth_bounds_element_sides {Nd P T W : Type} (N : nat) (edges : list (nat * nat))
        (M : mesh Nd P T W) (r : result Nd P T W) :
  renumber_guard N edges -> mesh_guard N M -> cuthill N edges M = Ok r ->
  Forall (fun e => sides_in edges (fst e)) (m_eles M) ->
  Forall (fun e' => sides_within (r_bandwidth r) (fst e')) (m_eles (r_mesh r)).
Proof.
  intros HG HM Hc Hs.
  assert (d : Nd).
  { destruct HM as (Hl & _). destruct HG as (HN & _). destruct (m_nodes M) as [|d ?]; [cbn in Hl; lia|exact d]. }
  destruct (cuthill_ok d N edges M HG HM) as (r' & Hc' & _ & _ & _ & _ & Hel & _ & _ & Hbw).
  rewrite Hc in Hc'. injection Hc' as <-.
  assert (Hside : forall a b, edge_in edges a b -> absdiff (nnf (r_newnum r) a) (nnf (r_newnum r) b) < r_bandwidth r).
  { intros a b [Hin|Hin]; [|rewrite absdiff_sym]; specialize (Hbw _ _ Hin); lia. }
  apply Forall_forall. intros e' Hin.
  apply (Permutation_in _ Hel) in Hin. apply in_map_iff in Hin. destruct Hin as (e & <- & He).
  rewrite Forall_forall in Hs. specialize (Hs e He).
  unfold remap_ele_spec. cbn [fst]. destruct (fst e) as [[a b] c]. cbn in *.
  destruct Hs as (H1 & H2 & H3). auto.
Qed.

(* ------------------------------------------------------------------------------------------ *)
(* Part 11: the statements quoted by the Properties_*_renumber.v / Properties_C09_bandwidth.v    *)
(* files (glue)                                                                                *)
(* ------------------------------------------------------------------------------------------ *)
Lemma inhabitant_of_nodes {Nd P T W : Type} (N : nat) (edges : list (nat * nat)) (M : mesh Nd P T W) :
  renumber_guard N edges -> mesh_guard N M -> Nd.
Proof.
  intros HG HM. destruct (m_nodes M) as [|d ?] eqn:E; [|exact d].
  exfalso. destruct HM as (Hl & _). destruct HG as (HN & _). rewrite E in Hl. cbn in Hl. lia.
Qed.

Lemma renumber_checked_access_is_in_range_thm :
  forall (A : Type) (l l' : list A) (i : nat) (x : A),
    (rd l i = Ok x -> i < length l) /\ (wr l i x = Ok l' -> i < length l).
Proof. intros. split; [apply rd_ok_inv|apply wr_ok_inv]. Qed.

Lemma renumber_no_out_of_range_access_and_termination_thm :
  forall (Nd P T W : Type) (N : nat) (edges : list (nat * nat)) (M : mesh Nd P T W),
    renumber_guard N edges -> mesh_guard N M -> exists r, cuthill N edges M = Ok r.
Proof.
  intros Nd P T W N edges M HG HM.
  destruct (cuthill_ok (inhabitant_of_nodes N edges M HG HM) N edges M HG HM) as (r & H & _). exists r. exact H.
Qed.

Lemma renumber_start_search_terminates_thm :
  (forall (N : nat) (numcon : list nat) (e : rerr), start_search N numcon = Err e -> e = OutOfRange) /\
  (forall (N : nat) (edges : list (nat * nat)),
     1 <= N -> edges_ok N edges ->
     exists numcon j n0, count_pass N edges = Ok numcon /\ start_search N numcon = Ok (j, n0) /\ n0 < N).
Proof.
  split; [exact start_search_ends|].
  intros N edges HN Hok. destruct (count_pass_ok N edges Hok) as (numcon & Hc & Hl & _).
  destruct (start_search_ok N numcon Hl HN) as (j & n0 & Hs & Hn0). exists numcon, j, n0. auto.
Qed.

Lemma renumber_numbering_ends_within_NumNodes_turns_with_a_permutation_thm :
  forall (N : nat) (edges : list (nat * nat)),
    renumber_guard N edges ->
    exists numcon ocon nn, numbering N edges = Ok (numcon, ocon, nn) /\ Permutation nn (seq 0 N).
Proof.
  intros N edges HG. destruct (numbering_ok N edges HG) as (numcon & ocon & nn & H & _ & Hp).
  exists numcon, ocon, nn. auto.
Qed.

Lemma renumber_sortnodes_terminates_for_every_permutation_thm :
  forall (Nd : Type) (N : nat) (nn : list nat) (nodes : list Nd),
    Permutation nn (seq 0 N) -> length nodes = N ->
    sort_nodes N nn nodes = Ok (seq 0 N, sort_nodes_spec nn nodes).
Proof.
  intros Nd N nn nodes Hp Hl. destruct nodes as [|d t] eqn:E.
  - cbn in Hl. subst N. apply Permutation_sym, Permutation_nil in Hp. subst nn. reflexivity.
  - rewrite <- E in *. apply (sort_nodes_is_spec d); assumption.
Qed.

Lemma renumber_sortelements_terminates_thm :
  forall (P : Type) (ele : list (elem P)), exists ele', sort_elements ele = Ok ele'.
Proof. intros P ele. destruct (sort_elements_ok ele) as (ele' & H & _). eauto. Qed.

Lemma renumber_single_node_out_of_range_refuted_thm :
  exists (N : nat) (edges : list (nat * nat)),
    1 <= N /\ edges_ok N edges /\ numbering N edges = Err OutOfRange.
Proof.
  exists 1, [(0, 0)]. split; [lia|]. split; [repeat constructor; cbn; lia|]. exact single_node_out_of_range.
Qed.

Lemma renumber_former_hang_forest_terminates_thm :
  renumber_guard 7 forest_edges /\ ~ 7 <= S (length forest_edges) /\
  count_pass 7 forest_edges = Ok forest_numcon /\ start_search 7 forest_numcon = Ok (2, 0) /\
  numbering 7 forest_edges =
  Ok (forest_numcon, [[2; 1]; [3; 0]; [0]; [1]; [6]; [6]; [4; 5]], [0; 2; 1; 3; 4; 6; 5]).
Proof.
  destruct forest_guard as (H1 & H2). split; [exact H1|]. split; [exact H2|].
  split; [exact forest_numcon_ok|]. split; [exact forest_start_search|exact forest_numbering].
Qed.

Lemma renumber_mesh_is_isomorphic_image_thm :
  forall (Nd P T W : Type) (d : Nd) (N : nat) (edges : list (nat * nat)) (M : mesh Nd P T W) (r : result Nd P T W),
    renumber_guard N edges -> mesh_guard N M -> cuthill N edges M = Ok r ->
    Permutation (m_nodes (r_mesh r)) (m_nodes M) /\
    (forall i, i < N -> nth (nnf (r_newnum r) i) (m_nodes (r_mesh r)) d = nth i (m_nodes M) d) /\
    Permutation (map (elem_view d (m_nodes (r_mesh r))) (m_eles (r_mesh r)))
                (map (elem_view d (m_nodes M)) (m_eles M)).
Proof.
  intros Nd P T W d N edges M r HG HM Hc.
  destruct (renumbered_mesh_isomorphic d N edges M r HG HM Hc) as (H1 & H2 & H3 & _). auto.
Qed.

Lemma renumber_element_corners_keep_their_markers_thm :
  forall (Nd P T W X : Type) (f : Nd -> X) (d : Nd) (N : nat) (edges : list (nat * nat))
         (M : mesh Nd P T W) (r : result Nd P T W),
    renumber_guard N edges -> mesh_guard N M -> cuthill N edges M = Ok r ->
    forall e', In e' (m_eles (r_mesh r)) ->
    exists e, In e (m_eles M) /\ snd e' = snd e /\
      let '(a', b', c') := fst e' in let '(a, b, c) := fst e in
      f (nth a' (m_nodes (r_mesh r)) d) = f (nth a (m_nodes M) d) /\
      f (nth b' (m_nodes (r_mesh r)) d) = f (nth b (m_nodes M) d) /\
      f (nth c' (m_nodes (r_mesh r)) d) = f (nth c (m_nodes M) d).
Proof.
  intros Nd P T W X f d N edges M r HG HM Hc e' Hin.
  destruct (renumbered_mesh_isomorphic d N edges M r HG HM Hc) as (_ & _ & H3 & _).
  assert (Hv : In (elem_view d (m_nodes (r_mesh r)) e') (map (elem_view d (m_nodes M)) (m_eles M))).
  { apply (Permutation_in _ H3). apply in_map. exact Hin. }
  apply in_map_iff in Hv. destruct Hv as (e & Hv & He). exists e. split; [exact He|].
  unfold elem_view in Hv. injection Hv as Ht Hp. split; [auto|].
  destruct (fst e') as [[a' b'] c'], (fst e) as [[a b] c]. cbn in Ht. injection Ht as -> -> ->. auto.
Qed.

Lemma renumber_sortnodes_loop_equals_specification_thm :
  forall (Nd : Type) (d : Nd) (N : nat) (nn : list nat) (nodes : list Nd),
    Permutation nn (seq 0 N) -> length nodes = N ->
    sort_nodes N nn nodes = Ok (seq 0 N, sort_nodes_spec nn nodes) /\
    length (sort_nodes_spec nn nodes) = N /\
    forall i, i < N -> nth (nth i nn 0) (sort_nodes_spec nn nodes) d = nth i nodes d.
Proof.
  intros Nd d N nn nodes Hp Hl. split; [apply (sort_nodes_is_spec d); assumption|].
  apply (sort_nodes_spec_ok d); assumption.
Qed.

Lemma renumber_sortelements_returns_a_permutation_thm :
  forall (P : Type) (ele : list (elem P)), exists ele', sort_elements ele = Ok ele' /\ Permutation ele' ele.
Proof. intros P ele. apply sort_elements_ok. Qed.

Lemma renumber_sortelements_sorted_refuted_thm :
  exists (ele ele' : list (elem unit)),
    sort_elements ele = Ok ele' /\ ~ Sorted Z.le (map score ele').
Proof.
  exists unsorted_witness, unsorted_witness. split; [apply sort_elements_leaves_unsorted|].
  exact unsorted_witness_not_sorted.
Qed.

Lemma renumber_pbc_pairs_refer_to_the_same_physical_nodes_thm :
  forall (Nd P T W : Type) (d : Nd) (N : nat) (edges : list (nat * nat)) (M : mesh Nd P T W) (r : result Nd P T W),
    renumber_guard N edges -> mesh_guard N M -> cuthill N edges M = Ok r ->
    map (pbc_view d (m_nodes (r_mesh r))) (m_pbcs (r_mesh r)) = map (pbc_view d (m_nodes M)) (m_pbcs M) /\
    map (map (age_view d (m_nodes (r_mesh r)))) (m_ages (r_mesh r)) = map (map (age_view d (m_nodes M))) (m_ages M).
Proof.
  intros Nd P T W d N edges M r HG HM Hc.
  destruct (renumbered_mesh_isomorphic d N edges M r HG HM Hc) as (_ & _ & _ & H4 & H5). auto.
Qed.

Lemma renumber_pbc_list_is_remapped_entrywise_thm :
  forall (Nd P T W : Type) (N : nat) (edges : list (nat * nat)) (M : mesh Nd P T W) (r : result Nd P T W),
    renumber_guard N edges -> mesh_guard N M -> cuthill N edges M = Ok r ->
    m_pbcs (r_mesh r) = map (remap_pbc_spec (r_newnum r)) (m_pbcs M).
Proof.
  intros Nd P T W N edges M r HG HM Hc.
  destruct (cuthill_ok (inhabitant_of_nodes N edges M HG HM) N edges M HG HM) as (r' & Hc' & _ & _ & _ & _ & _ & Hpb & _).
  rewrite Hc in Hc'. injection Hc' as <-. exact Hpb.
Qed.

Lemma bandwidth_bounds_every_edge_thm :
  forall (Nd P T W : Type) (N : nat) (edges : list (nat * nat)) (M : mesh Nd P T W) (r : result Nd P T W),
    renumber_guard N edges -> mesh_guard N M -> cuthill N edges M = Ok r ->
    forall a b, In (a, b) edges ->
      (1 + Z.abs (Z.of_nat (nnf (r_newnum r) a) - Z.of_nat (nnf (r_newnum r) b)) <= Z.of_nat (r_bandwidth r))%Z.
Proof.
  intros Nd P T W N edges M r HG HM Hc a b Hin.
  destruct (cuthill_ok (inhabitant_of_nodes N edges M HG HM) N edges M HG HM) as (r' & Hc' & _ & _ & _ & _ & _ & _ & _ & Hbw).
  rewrite Hc in Hc'. injection Hc' as <-. specialize (Hbw a b Hin).
  rewrite <- absdiff_Z. lia.
Qed.

Lemma bandwidth_bounds_every_element_side_thm :
  forall (Nd P T W : Type) (N : nat) (edges : list (nat * nat)) (M : mesh Nd P T W) (r : result Nd P T W),
    renumber_guard N edges -> mesh_guard N M -> cuthill N edges M = Ok r ->
    Forall (fun e => sides_in edges (fst e)) (m_eles M) ->
    Forall (fun e' => sides_within (r_bandwidth r) (fst e')) (m_eles (r_mesh r)).
Proof. intros Nd P T W. exact bandwidth_bounds_element_sides. Qed.

Lemma ex_sides : Forall (fun e => sides_in ex_edges (fst e)) (m_eles ex_mesh).
Proof.
  unfold ex_mesh. cbn [m_eles]. constructor; [|constructor; [|constructor]]; cbn; unfold edge_in; cbn; intuition auto.
Qed.
