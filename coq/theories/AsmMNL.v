(* AsmMNL.v — executable model of the NONLINEAR (B-H curve) branch of FSolver::Static2D
   (cfemm/fsolver/static2d.cpp:177-1016): the loop  do { assemble; solve; exit test / relaxation }
   while(LinearFlag==false),  statement by statement and in the same floating-point operation order.
   Reuses AsmM.v (everything of the element loop that does not depend on the iterate: shape
   parameters, Mx/My/Mxy, mixed boundaries, current density, magnets, the scatter, point currents,
   fixed points / segments, periodic ties), Sparse.v (CBigLinProb incl. Wipe) and BH.v
   (CMSolverMaterialProp::GetBHProps on the table GetSlopes left).
   Three pieces:
     nl_pass     one pass of the loop body up to (not including) L.PCGSolve: the system assembled from
                 the previous iterate L.V and the per-element permeabilities (static2d.cpp:186-946)
     nl_update   the per-element permeability update and the tangent term Mn (static2d.cpp:683-797)
     nl_control  the exit test and the relaxation (static2d.cpp:953-1013)
   and the loop  nl_iterate solve fuel  over an abstract linear solver (L.PCGSolve is C09's subject).
   The C++ loop has NO iteration cap: it runs until res < 100*Precision (or the iterate is exactly 0);
   the model's fuel is explicit.
   NOT modelled: air-gap elements (192-350), previous-solution runs (bIncremental <> 0, 640-679; so
   v12 = 0 and LinearFlag = false as soon as one element's block has a B-H table), polar boundary
   coordinates.  No proofs in this file. *)
From Coq Require Import ZArith List Bool Arith.
From XF Require Import Arith Sparse AsmE AsmM BH.
Import ListNotations.

Section AsmMNL.
  Context {F : Type} (A : Arith F).
  Local Notation "x +. y" := (aadd A x y) (at level 50, left associativity).
  Local Notation "x -. y" := (asub A x y) (at level 50, left associativity).
  Local Notation "x *. y" := (amul A x y) (at level 40, left associativity).
  Local Notation "x /. y" := (adiv A x y) (at level 40, left associativity).
  Local Notation zero := (azero A).
  Local Notation one := (aone A).
  Local Notation "'#' z" := (aofZ A z) (at level 9).
  Local Notation linF := (lin (F:=F)).
  Local Notation matF := (mat (F:=F)).
  Local Notation probF := (mprob (F:=F)).
  Local Notation elemF := (melem (F:=F)).

  (* a block without table: BHpoints = 0 *)
  Definition dmat : matF := mkMat [] [] [] one one.
  Definition bhpoints (m : matF) : nat := length (mB m).

  Definition idx9 : list (nat * nat) := [(0,0);(0,1);(0,2);(1,0);(1,1);(1,2);(2,0);(2,1);(2,2)].

  (* for(j=0,s=0.;j<3;j++) s += f(j) *)
  Definition sum3 (f : nat -> F) : F := zero +. f 0 +. f 1 +. f 2.

  (* ---- the part of the element loop body that does not depend on the iterate
          (static2d.cpp:368-598): (Mx, My, Mxy, Me, be) ---- *)
  Definition el_parts (P : probF) (res : list (nat * F * F)) (el : elemF)
    : list F * list F * list F * list F * list F :=
    let g := mel_geom A P el in
    let blk := nth (mblk el) (mblocks P) (dmblock A) in
    let z9 := repeat zero 9 in
    let K := aneg A one /. (#4 *. ga g) in
    let Mx := stiff_add A z9 K (gp g) in
    let My := stiff_add A z9 K (gq g) in
    let Mxy := xy_add A z9 K (gp g) (gq g) in
    let '(Me, be) := fold_left (mixed_step A P g el) [0;1;2] (z9, repeat zero 3) in
    let t := circ_t A P res el in
    let Kj := aneg A (bJre blk +. t) *. ga g /. #3 in
    let be := v3add A (v3add A (v3add A be 0 Kj) 1 Kj) 2 Kj in
    let be := fold_left (magnet_step A P el) [0;1;2] be in
    (Mx, My, Mxy, Me, be).

  (* for j for k: Me[j][k] += Mx[j][k]/Re(mu2) + My[j][k]/Re(mu1) + Mxy[j][k]*Re(v12) + Mn[j][k];
                  be[j] += Mn[j][k]*L.V[n[k]];        v12 = 0   (static2d.cpp:800-805) *)
  Definition nl_combine (Me be Mx My Mxy Mn : list F) (mu1 mu2 : F) (V3 : list F) : list F * list F :=
    fold_left (fun acc jk =>
      let '(Me, be) := acc in
      let '(j, k) := jk in
      (m3add A Me j k (m3get A Mx j k /. mu2 +. m3get A My j k /. mu1 +. m3get A Mxy j k *. zero +. m3get A Mn j k),
       v3add A be j (m3get A Mn j k *. vget A V3 k)))
      idx9 (Me, be).

  (* B = c*sqrt(B1*B1+B2*B2)/(0.02*a) *)
  Definition nl_Bmag (a B1 B2 : F) : F :=
    c4pi A *. asqrt A (B1 *. B1 +. B2 *. B2) /. (adec A 2 (-2) *. a).

  (* blockproplist[k].GetBHProps(B,mu,dv);  mu = 1./(muo*mu);   result (mu, dv) *)
  Definition nl_mu_of (m : matF) (B : F) : F * F :=
    let '(v, dv) := getBHProps A m B in (one /. (mMuo m *. v), dv).

  (* Iter > 0 (static2d.cpp:683-797): new (mu1, mu2) and the 3x3 matrix Mn of one element;
     V3 = L.V at the element's nodes, mu = the element's current (mu1, mu2) *)
  Definition nl_update (m : matF) (blk : mblock (F:=F)) (g : egeom (F:=F)) (Mx My : list F) (V3 : list F) (mu : F * F)
    : (F * F) * list F :=
    let c := c4pi A in
    let a := ga g in
    let p := gp g in
    let q := gq g in
    let nl := Nat.ltb 0 (bhpoints m) in
    let t := bLamFill blk in
    let r := (mu, repeat zero 9) in
    (* if ((LamType==0) && (mu1==mu2) && (BHpoints>0)) *)
    let r :=
      if Nat.eqb (bLamType blk) 0 && aeqb A (fst (fst r)) (snd (fst r)) && nl then
        let B1 := sum3 (fun j => vget A V3 j *. vget A q j) in
        let B2 := sum3 (fun j => vget A V3 j *. vget A p j) in
        let '(mu', dv) := nl_mu_of m (nl_Bmag a B1 B2) in
        let v := map (fun j => sum3 (fun w => (m3get A Mx j w +. m3get A My j w) *. vget A V3 w)) [0;1;2] in
        let K := aneg A #200 *. c *. c *. c *. dv /. a in
        ((mu', mu'), map (fun jw => K *. vget A v (fst jw) *. vget A v (snd jw)) idx9)
      else r in
    (* if ((LamType==1) && (BHpoints>0)) *)
    let r :=
      if Nat.eqb (bLamType blk) 1 && nl then
        let B1 := sum3 (fun j => vget A V3 j *. vget A q j) in
        let B2 := sum3 (fun j => vget A V3 j *. vget A p j /. t) in
        let '(mu', dv) := nl_mu_of m (nl_Bmag a B1 B2) in
        let v := map (fun j => sum3 (fun w => (m3get A My j w /. t +. m3get A Mx j w) *. vget A V3 w)) [0;1;2] in
        let u := map (fun j => sum3 (fun w => (m3get A My j w /. t +. t *. m3get A Mx j w) *. vget A V3 w)) [0;1;2] in
        let K := aneg A #100 *. c *. c *. c *. dv /. a in
        ((mu' *. t, mu' /. (t +. mu' *. (one -. t))),
         map (fun jw => K *. (vget A v (fst jw) *. vget A u (snd jw) +. vget A v (snd jw) *. vget A u (fst jw))) idx9)
      else r in
    (* if ((LamType==2) && (BHpoints>0)) *)
    let r :=
      if Nat.eqb (bLamType blk) 2 && nl then
        let B1 := sum3 (fun j => (vget A V3 j *. vget A q j) /. t) in
        let B2 := sum3 (fun j => vget A V3 j *. vget A p j) in
        let '(mu', dv) := nl_mu_of m (nl_Bmag a B1 B2) in
        let v := map (fun j => sum3 (fun w => (m3get A Mx j w /. t +. m3get A My j w) *. vget A V3 w)) [0;1;2] in
        let u := map (fun j => sum3 (fun w => (m3get A Mx j w /. t +. t *. m3get A My j w) *. vget A V3 w)) [0;1;2] in
        let K := aneg A #100 *. c *. c *. c *. dv /. a in
        ((mu' /. (t +. mu' *. (one -. t)), mu' *. t),
         map (fun jw => K *. (vget A v (fst jw) *. vget A u (snd jw) +. vget A v (snd jw) *. vget A u (fst jw))) idx9)
      else r in
    r.

  Definition el_V3 (V : list F) (el : elemF) : list F :=
    map (fun j => vget A V (tri_get (mp el) j)) [0;1;2].

  (* (mu1, mu2) and Mn of one element in pass [iter]: Iter==0 -> the block's (laminated) linear
     permeability, for a nonlinear block from the initial slope mu_x = mu_y GetSlopes stored
     (static2d.cpp:603-631), Mn = 0 *)
  Definition el_mu_Mn (P : probF) (mats : list matF) (iter : nat) (V : list F) (el : elemF)
             (parts : list F * list F * list F * list F * list F) (mu_old : F * F) : (F * F) * list F :=
    let '(Mx, My, Mxy, Me, be) := parts in
    let blk := nth (mblk el) (mblocks P) (dmblock A) in
    if Nat.eqb iter 0 then (el_mu A blk, repeat zero 9)
    else nl_update (nth (mblk el) mats dmat) blk (mel_geom A P el) Mx My (el_V3 V el) mu_old.

  (* element matrices (Me, be) of pass [iter] and the element's new (mu1, mu2) *)
  Definition nl_elem_matrices (P : probF) (mats : list matF) (res : list (nat * F * F)) (iter : nat) (V : list F)
             (el : elemF) (mu_old : F * F) : list F * list F * (F * F) :=
    let parts := el_parts P res el in
    let '(mu, Mn) := el_mu_Mn P mats iter V el parts mu_old in
    let '(Mx, My, Mxy, Me, be) := parts in
    let '(Me, be) := nl_combine Me be Mx My Mxy Mn (fst mu) (snd mu) (el_V3 V el) in
    (Me, be, mu).

  Definition nl_elem_step (P : probF) (mats : list matF) (res : list (nat * F * F)) (iter : nat) (V : list F)
             (s : list (list (nat * F)) * list F * list (F * F)) (em : elemF * (F * F))
    : list (list (nat * F)) * list F * list (F * F) :=
    let '(M, b, rmus) := s in
    let '(Me, be, mu) := nl_elem_matrices P mats res iter V (fst em) (snd em) in
    let '(M, b) := mscatter A (mp (fst em)) Me be M b in
    (M, b, mu :: rmus).

  (* what follows the element loop (static2d.cpp:818-940): the same statements as in AsmM.asmM *)
  Definition nl_finish (P : probF) (L0 : linF) (M : list (list (nat * F))) (b : list F) : linF :=
    let b := point_currents A P b in
    let L := lwithMb L0 M b in
    let L := fixed_points A P L in
    let L := fixed_segments A P L in
    mapply_pbcs A P L.

  (* one pass up to the solve: L0 is L after Create (Iter = 0) or after Wipe (Iter > 0), its V is the
     previous (relaxed) iterate; mus the per-element (mu1, mu2) of the previous pass *)
  Definition nl_pass (P : probF) (mats : list matF) (res : list (nat * F * F)) (iter : nat) (L0 : linF)
             (mus : list (F * F)) : linF * list (F * F) :=
    let '(M, b, rmus) :=
      fold_left (nl_elem_step P mats res iter (Sparse.lV L0)) (combine (melems P) mus) (lM L0, lb L0, []) in
    (nl_finish P L0 M b, rev rmus).

  (* LinearFlag after the first element loop: false as soon as one element's block has BHpoints != 0 *)
  Definition nl_any (P : probF) (mats : list matF) : bool :=
    existsb (fun el => negb (Nat.eqb (bhpoints (nth (mblk el) mats dmat)) 0)) (melems P).

  (* ---- exit test and relaxation (static2d.cpp:953-1013) ---- *)
  Record nlctl := mkCtl { cIter : nat; cRes : F; cLast : F; cRelax : F; cLinear : bool }.

  (* x = sum (V-V_old)^2, y = sum V^2 *)
  Definition nl_x (V Vold : list F) : F :=
    fold_left (fun x vo => x +. (fst vo -. snd vo) *. (fst vo -. snd vo)) (combine V Vold) zero.
  Definition nl_y (V : list F) : F := fold_left (fun y v => y +. v *. v) V zero.

  (* if ((res>lastres) && (Relax>0.125)) Relax/=2.; else Relax+= 0.1 * (1. - Relax); *)
  Definition nl_relax (res lastres relax : F) : F :=
    if altb A lastres res && altb A (adec A 125 (-3)) relax then relax /. #2
    else relax +. adec A 1 (-1) *. (one -. relax).

  (* L.V[j] = Relax*L.V[j]+(1.0-Relax)*V_old[j] *)
  Definition nl_blend (relax : F) (V Vold : list F) : list F :=
    map (fun vo => relax *. fst vo +. (one -. relax) *. snd vo) (combine V Vold).

  (* V = L.V after PCGSolve, Vold = L.V before; result: the control variables after Iter++ and L.V *)
  Definition nl_control (prec : F) (Vold V : list F) (c : nlctl) : nlctl * list F :=
    let '(c1, V1) :=
      if cLinear c then (c, V)
      else
        let x := nl_x V Vold in
        let y := nl_y V in
        let c' := if aeqb A y zero then mkCtl (cIter c) (cRes c) (cLast c) (cRelax c) true
                  else mkCtl (cIter c) (asqrt A (x /. y)) (cRes c) (cRelax c) false in
        if Nat.ltb 5 (cIter c) then
          let rl := nl_relax (cRes c') (cLast c') (cRelax c') in
          (mkCtl (cIter c') (cRes c') (cLast c') rl (cLinear c'), nl_blend rl V Vold)
        else (c', V) in
    (* if((res<100.*Precision) && (Iter>0)) LinearFlag = true;  Iter++; *)
    let lf := cLinear c1 || (altb A (cRes c1) (#100 *. prec) && Nat.ltb 0 (cIter c1)) in
    (mkCtl (S (cIter c1)) (cRes c1) (cLast c1) (cRelax c1) lf, V1).

  (* res = 0, Relax = 1 (FSolver::LoadProblemFile), LinearFlag from the first element loop *)
  Definition nl_ctl0 (P : probF) (mats : list matF) : nlctl :=
    mkCtl 0 zero zero one (negb (nl_any P mats)).

  Definition lwithV (L : linF) (V : list F) : linF :=
    mkLin (ln L) (lbdw L) (lM L) (lb L) V (lprec L) (llam L).

  (* state between passes: L (matrix / right-hand side of the last pass, V = current iterate), the
     per-element permeabilities, the control variables *)
  Definition nlstate := (linF * list (F * F) * nlctl)%type.

  Definition nl_state0 (P : probF) (mats : list matF) (bw : nat) (prec : F) : nlstate :=
    (lcreate A (length (mnodes P)) bw prec (adec A 15 (-1)), map (fun _ => (aneg A one, aneg A one)) (melems P),
     nl_ctl0 P mats).

  (* the system of the next pass:  if(Iter>0) L.Wipe();  ... element loop ... boundary conditions *)
  Definition nl_assemble (P : probF) (mats : list matF) (res : list (nat * F * F)) (st : nlstate) : linF * list (F * F) :=
    let '(L, mus, c) := st in
    let L0 := if Nat.eqb (cIter c) 0 then L else wipe A L in
    nl_pass P mats res (cIter c) L0 mus.

  (* one trip through the loop body with the solver's answer V for the assembled system L1 *)
  Definition nl_after_solve (st : nlstate) (L1 : linF) (mus1 : list (F * F)) (V : list F) : nlstate :=
    let '(L, mus, c) := st in
    let '(c', V') := nl_control (lprec L) (Sparse.lV L1) V c in
    (lwithV L1 V', mus1, c').

  (* do { ... } while(LinearFlag==false) with an abstract PCGSolve(Iter) (None = "return false").
     Result: None = the solver failed; Some (true, st) = the loop exited; Some (false, st) = out of fuel *)
  Fixpoint nl_iterate (solve : nat -> linF -> option (list F)) (P : probF) (mats : list matF)
           (res : list (nat * F * F)) (fuel : nat) (st : nlstate) : option (bool * nlstate) :=
    match fuel with
    | O => Some (false, st)
    | S fuel' =>
        let '(L1, mus1) := nl_assemble P mats res st in
        match solve (cIter (snd st)) L1 with
        | None => None
        | Some V =>
            let st' := nl_after_solve st L1 mus1 V in
            if cLinear (snd st') then Some (true, st') else nl_iterate solve P mats res fuel' st'
        end
    end.

  Definition nl_static2d (solve : nat -> linF -> option (list F)) (P : probF) (mats : list matF)
             (bw : nat) (prec : F) (fuel : nat) : option (bool * nlstate) :=
    nl_iterate solve P mats (circ_results A P) fuel (nl_state0 P mats bw prec).

  (* ---- what the correspondence compares: the passes of a run whose solved vectors are given ---- *)
  Definition ctl_out (c : nlctl) : list F :=
    [#(Z.of_nat (cIter c)); cRes c; cRelax c; if cLinear c then one else zero].

  (* per pass: (assembled system, element permeabilities, control variables after the pass, L.V after the pass) *)
  Fixpoint nl_trace (P : probF) (mats : list matF) (res : list (nat * F * F)) (Vs : list (list F)) (st : nlstate)
    : list (list F * list F * list F * list F) :=
    match Vs with
    | [] => []
    | V :: Vs' =>
        let '(L1, mus1) := nl_assemble P mats res st in
        let st' := nl_after_solve st L1 mus1 V in
        (dump_rows A (lM L1) ++ lb L1, concat (map (fun m => [fst m; snd m]) mus1), ctl_out (snd st'),
         Sparse.lV (fst (fst st')))
        :: nl_trace P mats res Vs' st'
    end.

  Definition nl_run (P : probF) (mats : list matF) (bw : nat) (prec : F) (Vs : list (list F))
    : list (list F * list F * list F * list F) * list F :=
    let res := circ_results A P in
    (nl_trace P mats res Vs (nl_state0 P mats bw prec),
     concat (map (fun r => let '(case, J, dV) := r in [#(Z.of_nat case); J; dV]) res)).
End AsmMNL.
