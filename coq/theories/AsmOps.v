(* AsmOps.v — assembly as a sequence of "add v at the unordered position {p,q}" operations on
   the sparse matrix and "add v at i" on the right-hand side: the common shape of the element
   loops of all solvers (L.Put(L.Get(p,q) +/- v, p, q); L.b[i] +/-= v).  Model file. *)
From Coq Require Import ZArith List Bool Arith.
From XF Require Import Arith Sparse.
Import ListNotations.

Section AsmOps.
  Context {F : Type} (A : Arith F).
  Local Notation matrix := (list (list (nat * F))).

  Definition mop := (nat * nat * F)%type.       (* M[p,q] += v *)
  Definition bop := (nat * F)%type.             (* b[i] += v *)

  Definition apply_mop (M : matrix) (o : mop) : matrix :=
    let '(p, q, v) := o in mput M (aadd A (mget A M p q) v) p q.
  Definition apply_bop (b : list F) (o : bop) : list F :=
    let '(i, v) := o in vset b i (aadd A (vget A b i) v).
  Definition apply_mops (M : matrix) (ops : list mop) : matrix := fold_left apply_mop ops M.
  Definition apply_bops (b : list F) (ops : list bop) : list F := fold_left apply_bop ops b.
End AsmOps.
