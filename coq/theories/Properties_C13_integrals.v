(* Properties_XINT.v — theorem statements about the per-element terms of the post-processors' block
   integrals (part of C13: integrals are additive and agree with geometry and terminals).
   Models: IntegralsE.v (epproc), IntegralsH.v (hpproc), IntegralsM.v (fpproc); proofs:
   Integrals{E,H,M}Proofs.v.  All statements are about the real-number reading RA. *)
From Coquelicot Require Import Coquelicot.
From Coq Require Import ZArith List Bool Arith Lia Reals Lra Permutation.
From XF Require Import Arith Sparse SparseProofs AsmOps AsmOpsProofs AsmE AsmEProofs AsmM AsmMProofs KT Sums
                       Integrals IntegralsProofs IntegralsE IntegralsEProofs IntegralsH IntegralsHProofs
                       IntegralsM IntegralsMProofs IntegralsRevolProofs.
Import ListNotations.
Local Open Scope R_scope.

(* ============ the closed forms are the Riemann integrals they stand for (Coquelicot) ============ *)
(* triangle parametrised by (s,t) |-> P0 + s (P1-P0) + t (P2-P0), 0 <= s <= 1, 0 <= t <= 1-s, Jacobian jac *)

(* the area term: half of rarea2 is the integral of 1 over the triangle *)
Theorem C13_area_term_is_triangle_integral : forall (X : nat -> R * R) (a b c : nat),
  rarea2 X (a, b, c) / 2
  = RInt (fun s => RInt (fun t => jac (fst (X a)) (snd (X a)) (fst (X b)) (snd (X b)) (fst (X c)) (snd (X c))) 0 (1 - s)) 0 1.
Proof. exact rarea2_is_area_integral. Qed.
Print Assumptions C13_area_term_is_triangle_integral.

(* Pappus: 2 pi (centroid radius) (area) is the exact volume int int 2 pi r dr dz of the revolved triangle *)
Theorem C13_volume_term_is_revolved_triangle_integral : forall (X : nat -> R * R) (a b c : nat),
  rpappus X (a, b, c)
  = RInt (fun s => RInt (fun t => 2 * PI * r_at (fst (X a)) (fst (X b)) (fst (X c)) s t
                                 * jac (fst (X a)) (snd (X a)) (fst (X b)) (snd (X b)) (fst (X c)) (snd (X c))) 0 (1 - s)) 0 1.
Proof. exact rpappus_is_revolved_volume. Qed.
Print Assumptions C13_volume_term_is_revolved_triangle_integral.

(* the boundary term of the revolved volume is the line integral of pi r^2 dz along the edge *)
Theorem C13_revolved_boundary_term_is_line_integral : forall (X : nat -> R * R) (e : nat * nat),
  rrevol X e = RInt (fun t => PI * (fst (X (fst e)) + t * (fst (X (snd e)) - fst (X (fst e))))
                                * (fst (X (fst e)) + t * (fst (X (snd e)) - fst (X (fst e))))
                                * (snd (X (snd e)) - snd (X (fst e)))) 0 1.
Proof. exact rrevol_is_edge_integral. Qed.
Print Assumptions C13_revolved_boundary_term_is_line_integral.

(* ================================ electrostatics (epproc) ================================= *)

(* integral types 0/1/2 of ElectrostaticsPostProcessor::blockIntegral return (sum over the elements
   of the selected labels of the element term, 0) *)
Theorem C13_E_block_integral_is_sum_of_selected_terms :
  forall (P : ie_prob) (sel : list bool) (t : nat), (t < 3)%nat ->
  ie_block_integral RA P (ie_Ds RA P) sel t
  = (lsum (fun el => if e_sel sel el then e_term P t el else 0) (ie_elems P), 0).
Proof. exact ie_block_integral_real. Qed.
Print Assumptions C13_E_block_integral_is_sum_of_selected_terms.

(* ... i.e. Integrals.block_integral of the (label, term) pairs, the object of C13's additivity,
   selection-order and element-order theorems *)
Theorem C13_E_block_integral_is_abstract_block_integral :
  forall (P : ie_prob) (sel : list bool) (t : nat), (t < 3)%nat ->
  fst (ie_block_integral RA P (ie_Ds RA P) sel t)
  = block_integral RA sel (map (fun el => (ie_lbl el, e_term P t el)) (ie_elems P)).
Proof. exact ie_block_integral_is_block_integral. Qed.
Print Assumptions C13_E_block_integral_is_abstract_block_integral.

(* integral types 3/4 (average D, average E): volume-weighted component sums over the selected
   elements divided by the selected volume *)
Theorem C13_E_block_integral_average :
  forall (P : ie_prob) (sel : list bool) (t : nat), (t = 3 \/ t = 4)%nat ->
  let vol := lsum (fun el => if e_sel sel el then ie_vol RA P el else 0) (ie_elems P) in
  vol <> 0 ->
  ie_block_integral RA P (ie_Ds RA P) sel t
  = (lsum (fun el => if e_sel sel el then ie_vol RA P el * fst (e_cterm P t el) else 0) (ie_elems P) / vol,
     lsum (fun el => if e_sel sel el then ie_vol RA P el * snd (e_cterm P t el) else 0) (ie_elems P) / vol).
Proof. exact ie_block_integral_average. Qed.
Print Assumptions C13_E_block_integral_average.

(* area term = signed element area in m^2 (da = twice the signed area in file units) *)
Theorem C13_E_area_term_is_signed_area : forall (P : ie_prob) (el : ie_elem),
  ie_area RA P el = ie_lc P * ie_lc P * (e_da P el / 2) /\
  e_da P el = (e_x P el 1 - e_x P el 0) * (e_y P el 2 - e_y P el 0) - (e_x P el 2 - e_x P el 0) * (e_y P el 1 - e_y P el 0).
Proof. intros. split; [apply ie_area_R|apply e_da_is_area2]. Qed.
Print Assumptions C13_E_area_term_is_signed_area.

(* block area = shoelace formula of the boundary polygon of the element set *)
Theorem C13_E_area_is_shoelace_of_boundary : forall (P : ie_prob) (els : list ie_elem),
  NoDup (rall_dedges (map ie_p els)) ->
  lsum (ie_area RA P) els = ie_lc P * ie_lc P * (lsum (rcross (e_X P)) (rboundary (map ie_p els)) / 2).
Proof. exact area_integral_is_shoelace. Qed.
Print Assumptions C13_E_area_is_shoelace_of_boundary.

Theorem C13_E_volume_planar_is_depth_times_area : forall (P : ie_prob) (els : list ie_elem),
  ie_axi P = false -> lsum (ie_vol RA P) els = ie_depth RA P * lsum (ie_area RA P) els.
Proof. exact volume_integral_planar. Qed.
Print Assumptions C13_E_volume_planar_is_depth_times_area.

(* axisymmetric volume term = 2 pi (centroid radius) (signed area) (Pappus) *)
Theorem C13_E_volume_term_is_pappus : forall (P : ie_prob) (el : ie_elem), ie_axi P = true ->
  ie_vol RA P el = ie_lc P * ie_lc P * ie_lc P * rpappus (e_X P) (ie_p el).
Proof. exact ie_vol_pappus. Qed.
Print Assumptions C13_E_volume_term_is_pappus.

(* block volume = volume of revolution of the boundary polygon (closed line integral of pi r^2 dz) *)
Theorem C13_E_volume_axisymmetric_is_revolved_boundary : forall (P : ie_prob) (els : list ie_elem),
  ie_axi P = true -> NoDup (rall_dedges (map ie_p els)) ->
  lsum (ie_vol RA P) els = ie_lc P * ie_lc P * ie_lc P * lsum (rrevol (e_X P)) (rboundary (map ie_p els)).
Proof. exact volume_integral_axisymmetric. Qed.
Print Assumptions C13_E_volume_axisymmetric_is_revolved_boundary.

(* getElementD / E(): D = eps0 eps_r (-grad V) / AECF and E() returns -grad V of the P1 interpolant *)
Theorem C13_E_field_is_gradient : forall (P : ie_prob) (el : ie_elem),
  e_ex P el <> 0 -> e_ey P el <> 0 -> ie_eo P <> 0 -> ie_aecf RA P el <> 0 ->
  ie_D RA P el = (ie_eo P * (e_gx P el * e_ex P el) / ie_aecf RA P el, ie_eo P * (e_gy P el * e_ey P el) / ie_aecf RA P el) /\
  ie_E RA P el (ie_D RA P el) = (e_gx P el, e_gy P el).
Proof. intros. split; [apply ie_D_R|apply ie_E_R; assumption]. Qed.
Print Assumptions C13_E_field_is_gradient.

(* stored-energy term = 1/2 v_e^T K_e v_e, K_e the SI element stiffness ... *)
Theorem C13_E_energy_term_is_half_vKv : forall (P : ie_prob) (el : ie_elem),
  e_ex P el <> 0 -> e_ey P el <> 0 -> ie_eo P <> 0 -> ie_aecf RA P el <> 0 ->
  ie_energy_term RA P el = e_quad P el / 2.
Proof. exact ie_energy_is_quadratic_form. Qed.
Print Assumptions C13_E_energy_term_is_half_vKv.

(* ... and K_e is the element matrix ESolver::AnalyzeProblem assembles (AsmE.elem_matrices), up to
   the solver's unit factor: K_e = -(eps0 LengthConv / u) Me, u = millimetres per file unit *)
Theorem C13_E_stiffness_is_solver_element_matrix :
  forall (P : ie_prob) (SP : eprob) (u : R), axi SP = ie_axi P -> u <> 0 -> ie_lc P <> 0 -> ie_depth_file P <> - (1) ->
  forall el sl j k, same_elem P SP u el sl -> ee sl = (None, None, None) -> (j < 3)%nat -> (k < 3)%nat ->
  e_da P el <> 0 -> ie_aecf RA P el <> 0 -> (e_ext P el = true -> ie_extRo P * ie_extRi P <> 0) ->
  let r := elem_matrices RA SP (u * ie_extRo P) (u * ie_extRi P) (u * ie_extZo P) (u * ie_depth_file P) 1 sl in
  e_K P el j k = - (ie_eo P * ie_lc P / u) * m3get RA (snd (fst r)) j k.
Proof. exact solver_matrix_is_e_K. Qed.
Print Assumptions C13_E_stiffness_is_solver_element_matrix.

(* W = 1/2 V^T K V = 1/2 sum_i V_i R_i over any set of elements *)
Theorem C13_E_energy_is_half_VtKV : forall (P : ie_prob) (els : list ie_elem) (nn : nat),
  ie_eo P <> 0 -> Forall (e_ok P) els -> Forall (e_in_range nn) els ->
  lsum (ie_energy_term RA P) els = / 2 * rsum (fun i => e_Vn P i * e_react P els i) nn.
Proof. exact energy_is_half_VtKV. Qed.
Print Assumptions C13_E_energy_is_half_VtKV.

(* the strongest terminal identity that holds without assuming any field equation:
   W = 1/2 sum_c V_c Q_c + 1/2 sum over nodes on no conductor of V_i R_i *)
Theorem C13_E_energy_conductor_split : forall (P : ie_prob) els nn nc (Vc : nat -> R),
  ie_eo P <> 0 -> Forall (e_ok P) els -> Forall (e_in_range nn) els ->
  (forall c i, (c < nc)%nat -> (i < nn)%nat -> e_onc P c i = true -> e_Vn P i = Vc c) ->
  lsum (ie_energy_term RA P) els =
  / 2 * rsum (fun c => Vc c * e_cond_flux P els nn c) nc
  + / 2 * rsum (fun i => if e_on_any P nc i then 0 else e_Vn P i * e_react P els i) nn.
Proof. exact energy_conductor_split. Qed.
Print Assumptions C13_E_energy_conductor_split.

(* no charge densities, other boundaries grounded: W = 1/2 sum V_c Q_c *)
Theorem C13_E_energy_is_half_sum_VQ : forall (P : ie_prob) els nn nc (Vc : nat -> R),
  ie_eo P <> 0 -> Forall (e_ok P) els -> Forall (e_in_range nn) els ->
  (forall c i, (c < nc)%nat -> (i < nn)%nat -> e_onc P c i = true -> e_Vn P i = Vc c) ->
  (forall i, (i < nn)%nat -> e_on_any P nc i = false -> e_Vn P i = 0 \/ e_react P els i = 0) ->
  lsum (ie_energy_term RA P) els = / 2 * rsum (fun c => Vc c * e_cond_flux P els nn c) nc.
Proof. exact energy_is_half_sum_VQ. Qed.
Print Assumptions C13_E_energy_is_half_sum_VQ.

(* with volume / surface / point charge densities: the free nodes contribute the work of the loads *)
Theorem C13_E_energy_with_loads : forall (P : ie_prob) els nn nc (Vc : nat -> R) (free : nat -> bool) (Fl : nat -> R),
  ie_eo P <> 0 -> Forall (e_ok P) els -> Forall (e_in_range nn) els ->
  (forall c i, (c < nc)%nat -> (i < nn)%nat -> e_onc P c i = true -> e_Vn P i = Vc c) ->
  (forall i, (i < nn)%nat -> free i = true -> e_react P els i = Fl i) ->
  lsum (ie_energy_term RA P) els =
  / 2 * rsum (fun c => Vc c * e_cond_flux P els nn c) nc
  + / 2 * rsum (fun i => if e_on_any P nc i then 0 else if free i then e_Vn P i * Fl i else 0) nn
  + / 2 * rsum (fun i => if e_on_any P nc i then 0 else if free i then 0 else e_Vn P i * e_react P els i) nn.
Proof. exact energy_with_loads. Qed.
Print Assumptions C13_E_energy_with_loads.

(* Q_c: the charge ESolver::ChargeOnConductor computes (AsmE.charge_on_conductor, variant with the
   exterior-region scaling) IS the flux e_cond_flux of the post-processor's stiffness *)
Theorem C13_E_conductor_charge_is_flux :
  forall (P : ie_prob) (SP : eprob) (u : R),
  axi SP = ie_axi P -> eo SP = ie_eo P -> nth (AsmE.unit_idx SP) (eunits RA) (aone RA) = u -> ie_lc P = u / 1000 -> u <> 0 ->
  ie_depth_file P <> - (1) -> extRo_raw SP = ie_extRo P -> extRi_raw SP = ie_extRi P -> extZo_raw SP = ie_extZo P ->
  forall nn c,
  Forall2 (same_elem P SP u) (ie_elems P) (elems SP) ->
  Forall (e_nondeg P) (ie_elems P) -> Forall (e_in_range nn) (ie_elems P) ->
  (forall i, (i < nn)%nat -> vget RA (cond_weights SP c) i = if e_onc P c i then 1 else 0) ->
  charge_on_conductor RA SP true (u * ie_depth_file P) (map ie_V (ie_nodes P)) c = e_cond_flux P (ie_elems P) nn c.
Proof. exact charge_on_conductor_is_flux. Qed.
Print Assumptions C13_E_conductor_charge_is_flux.


(* the loads of C13_E_energy_with_loads come from the solver: in a planar problem, a node i that is not prescribed
   (flag -2), whose elements carry no mixed / surface-charge edge and no floating conductor, and whose assembled row of
   ESolver::AnalyzeProblem holds for the potentials the post-processor reads (zero residual after the element loop,
   AsmEProofs.loop_rows), has  reaction = load:  R_i = sum over its elements of qv x volume / 3 *)
Theorem C13_E_solved_row_gives_load :
  forall (P : ie_prob) (SP : eprob) (u : R),
  axi SP = false -> ie_axi P = false -> eo SP = ie_eo P -> ie_eo P <> 0 -> ie_lc P = u / 1000 -> u <> 0 ->
  ie_depth_file P <> - (1) ->
  forall (qvb : nat -> R) (Vp : list R) (Q : list Z) (nn : nat) (els : list ie_elem) (sels : list eelem) (s : estate) (i : nat),
  Forall2 (same_elem_q P SP u qvb) els sels -> Forall (inert_edges SP) sels -> Forall (e_nondeg2 P) els ->
  (forall n, flagged Q n = true -> vget RA (map ie_V (ie_nodes P)) n = vget RA Vp n) -> flagged Q i = false ->
  mat_wf (sM s) -> length (sb s) = length (sM s) -> Forall (elem_ok SP nn (length (sM s))) sels ->
  sDepth s = u * ie_depth_file P -> sKludge s = 1 -> (i < length (sM s))%nat ->
  Ax (sM s) (map ie_V (ie_nodes P)) i - vget RA (sb s) i = 0 ->
  let s' := fold_left (elem_step RA SP nn (u * ie_extRo P) (u * ie_extRi P) (u * ie_extZo P) Vp Q) sels s in
  Ax (sM s') (map ie_V (ie_nodes P)) i - vget RA (sb s') i = 0 ->
  e_react P els i = e_qload P qvb els i.
Proof. exact solved_row_gives_load. Qed.
Print Assumptions C13_E_solved_row_gives_load.

(* non-vacuity: a unit square between two conductors at 0 V and 1 V (two elements, eps0 := 1) satisfies every
   hypothesis of the terminal identities, and its energy is 1/2 *)
Example C13_E_example_hypotheses_hold :
  ie_eo ex_E <> 0 /\ Forall (e_ok ex_E) (ie_elems ex_E) /\ Forall (e_in_range 4) (ie_elems ex_E) /\
  (forall c i, (c < 2)%nat -> (i < 4)%nat -> e_onc ex_E c i = true -> e_Vn ex_E i = INR c) /\
  (forall i, (i < 4)%nat -> e_on_any ex_E 2 i = false -> e_Vn ex_E i = 0 \/ e_react ex_E (ie_elems ex_E) i = 0) /\
  NoDup (rall_dedges (map ie_p (ie_elems ex_E))).
Proof. exact ex_E_hypotheses_hold. Qed.
Example C13_E_example_energy : lsum (ie_energy_term RA ex_E) (ie_elems ex_E) = 1 / 2.
Proof. exact ex_E_energy. Qed.

(* ===================================== heat flow (hpproc) ================================== *)

(* area (1) and volume (2): plain sums over the selected elements ... *)
Theorem C13_H_block_integral_is_sum_of_selected_terms :
  forall (P : ih_prob) (sel : list bool) (t : nat), (t = 1 \/ t = 2)%nat ->
  ih_block_integral RA P (ih_Ds RA P) sel t = (lsum (fun el => if h_sel sel el then h_term P t el else 0) (ih_elems P), 0).
Proof. exact ih_block_integral_real. Qed.
Print Assumptions C13_H_block_integral_is_sum_of_selected_terms.

Theorem C13_H_block_integral_is_abstract_block_integral :
  forall (P : ih_prob) (sel : list bool) (t : nat), (t = 1 \/ t = 2)%nat ->
  fst (ih_block_integral RA P (ih_Ds RA P) sel t)
  = block_integral RA sel (map (fun el => (ie_lbl el, h_term P t el)) (ih_elems P)).
Proof. exact ih_block_integral_is_block_integral. Qed.
Print Assumptions C13_H_block_integral_is_abstract_block_integral.

(* average temperature (0): volume-weighted mean of the element means, divided by the selected volume *)
Theorem C13_H_average_temperature : forall (P : ih_prob) (sel : list bool),
  let vol := lsum (fun el => if h_sel sel el then ih_vol RA P el else 0) (ih_elems P) in
  vol <> 0 ->
  ih_block_integral RA P (ih_Ds RA P) sel 0
  = (lsum (fun el => if h_sel sel el then ih_vol RA P el * ih_Tavg RA P el else 0) (ih_elems P) / vol, 0).
Proof. exact ih_block_integral_avgT. Qed.
Print Assumptions C13_H_average_temperature.

(* average flux density F (3) and gradient G (4) *)
Theorem C13_H_block_integral_average : forall (P : ih_prob) (sel : list bool) (t : nat), (t = 3 \/ t = 4)%nat ->
  let vol := lsum (fun el => if h_sel sel el then ih_vol RA P el else 0) (ih_elems P) in
  vol <> 0 ->
  ih_block_integral RA P (ih_Ds RA P) sel t
  = (lsum (fun el => if h_sel sel el then ih_vol RA P el * fst (h_cterm P t el) else 0) (ih_elems P) / vol,
     lsum (fun el => if h_sel sel el then ih_vol RA P el * snd (h_cterm P t el) else 0) (ih_elems P) / vol).
Proof. exact ih_block_integral_average. Qed.
Print Assumptions C13_H_block_integral_average.

(* the element temperature term: exact integral of the P1 temperature in the planar case ... *)
Theorem C13_H_temperature_term_planar_exact : forall (P : ih_prob) (el : ie_elem), ih_axi P = false ->
  ih_vol RA P el * ih_Tavg RA P el = h_exact_T_integral P el.
Proof. exact ih_T_term_planar_exact. Qed.
Print Assumptions C13_H_temperature_term_planar_exact.

(* ... and the centroid rule in the axisymmetric case: it differs from the exact integral of r T by the
   covariance of radius and temperature over the element's nodes (second order in the element size) *)
Theorem C13_H_temperature_term_axisymmetric_is_centroid_rule : forall (P : ih_prob) (el : ie_elem), ih_axi P = true ->
  let V := ih_view RA P in
  let T0 := ih_T RA P el 0 in let T1 := ih_T RA P el 1 in let T2 := ih_T RA P el 2 in
  let r0 := e_x V el 0 * ih_lc P in let r1 := e_x V el 1 * ih_lc P in let r2 := e_x V el 2 * ih_lc P in
  let Rm := (r0 + r1 + r2) / 3 in let Tm := (T0 + T1 + T2) / 3 in
  h_exact_T_integral P el - ih_vol RA P el * ih_Tavg RA P el
  = 2 * PI * ih_area RA P el / 12 * ((r0 - Rm) * (T0 - Tm) + (r1 - Rm) * (T1 - Tm) + (r2 - Rm) * (T2 - Tm)).
Proof. exact ih_T_term_axisymmetric_centroid_rule. Qed.
Print Assumptions C13_H_temperature_term_axisymmetric_is_centroid_rule.

(* h_exact_T_integral is the Riemann integral of the P1 temperature (times 2 pi r, resp. the depth) over the element *)
Theorem C13_H_exact_T_integral_is_integral : forall (P : ih_prob (F:=R)) (el : ie_elem),
  let V := ih_view RA P in
  let lc := ih_lc P in
  let x := fun j => e_x V el j * lc in let y := fun j => e_y V el j * lc in
  let T := fun j => ih_T RA P el j in
  h_exact_T_integral P el =
  if ih_axi P then
    RInt (fun s => RInt (fun t => 2 * PI * r_at (x 0%nat) (x 1%nat) (x 2%nat) s t * T_at (T 0%nat) (T 1%nat) (T 2%nat) s t
                                  * jac (x 0%nat) (y 0%nat) (x 1%nat) (y 1%nat) (x 2%nat) (y 2%nat)) 0 (1 - s)) 0 1
  else
    ie_depth RA V * RInt (fun s => RInt (fun t => T_at (T 0%nat) (T 1%nat) (T 2%nat) s t
                                  * jac (x 0%nat) (y 0%nat) (x 1%nat) (y 1%nat) (x 2%nat) (y 2%nat)) 0 (1 - s)) 0 1.
Proof. exact h_exact_T_integral_is_integral. Qed.
Print Assumptions C13_H_exact_T_integral_is_integral.

(* getElementD / E(): F = -k grad T / AECF, G = -grad T *)
Theorem C13_H_field_is_gradient : forall (P : ih_prob) (el : ie_elem),
  h_kx P el <> 0 -> h_ky P el <> 0 -> ih_aecf RA P el <> 0 ->
  ih_D RA P el = (e_gx (ih_view RA P) el * h_kx P el / ih_aecf RA P el, e_gy (ih_view RA P) el * h_ky P el / ih_aecf RA P el) /\
  ih_E RA P el (ih_D RA P el) = (e_gx (ih_view RA P) el, e_gy (ih_view RA P) el).
Proof. intros. split; [apply ih_D_R|apply ih_E_R; assumption]. Qed.
Print Assumptions C13_H_field_is_gradient.

Theorem C13_H_area_is_shoelace_of_boundary : forall (P : ih_prob) (els : list ie_elem),
  NoDup (rall_dedges (map ie_p els)) ->
  lsum (ih_area RA P) els = ih_lc P * ih_lc P * (lsum (rcross (e_X (ih_view RA P))) (rboundary (map ie_p els)) / 2).
Proof. exact h_area_integral_is_shoelace. Qed.
Print Assumptions C13_H_area_is_shoelace_of_boundary.

Theorem C13_H_volume_planar_is_depth_times_area : forall (P : ih_prob) (els : list ie_elem),
  ih_axi P = false -> lsum (ih_vol RA P) els = ie_depth RA (ih_view RA P) * lsum (ih_area RA P) els.
Proof. exact h_volume_integral_planar. Qed.
Print Assumptions C13_H_volume_planar_is_depth_times_area.

Theorem C13_H_volume_axisymmetric_is_revolved_boundary : forall (P : ih_prob) (els : list ie_elem),
  ih_axi P = true -> NoDup (rall_dedges (map ie_p els)) ->
  lsum (ih_vol RA P) els = ih_lc P * ih_lc P * ih_lc P * lsum (rrevol (e_X (ih_view RA P))) (rboundary (map ie_p els)).
Proof. exact h_volume_integral_axisymmetric. Qed.
Print Assumptions C13_H_volume_axisymmetric_is_revolved_boundary.

(* non-vacuity: unit square, 300 K at the bottom and 400 K at the top: the selected volume is 1 and the
   average temperature 350 K *)
Example C13_H_example_average_temperature :
  lsum (fun el => if h_sel [true] el then ih_vol RA ex_H el else 0) (ih_elems ex_H) = 1 /\
  ih_block_integral RA ex_H (ih_Ds RA ex_H) [true] 0 = (350, 0).
Proof. exact ex_H_average_temperature. Qed.

(* ==================================== magnetics (fpproc) =================================== *)

(* every modelled integral type: BlockIntegral = component-wise sum over the selected elements of a term
   that depends on the element only ... *)
Theorem C13_M_block_integral_is_sum_of_selected_terms : forall (P : im_prob) (sel : list bool) (t : nat),
  im_loop RA P (im_Bs RA P) sel t
  = (lsum (fun el => if m_sel sel el then fst (m_delta P t el (im_B RA P el)) else 0) (im_elems P),
     lsum (fun el => if m_sel sel el then snd (m_delta P t el (im_B RA P el)) else 0) (im_elems P)).
Proof. exact im_loop_is_sum. Qed.
Print Assumptions C13_M_block_integral_is_sum_of_selected_terms.

(* ... i.e. Integrals.block_integral on (label, term) pairs, real and imaginary part *)
Theorem C13_M_block_integral_is_abstract_block_integral : forall (P : im_prob) (sel : list bool) (t : nat), t <> 6%nat ->
  fst (im_block_integral RA P (im_Bs RA P) sel t)
  = block_integral RA sel (map (fun el => (im_lbl el, fst (m_delta P t el (im_B RA P el)))) (im_elems P)) /\
  snd (im_block_integral RA P (im_Bs RA P) sel t)
  = block_integral RA sel (map (fun el => (im_lbl el, snd (m_delta P t el (im_B RA P el)))) (im_elems P)).
Proof. exact im_block_integral_is_block_integral. Qed.
Print Assumptions C13_M_block_integral_is_abstract_block_integral.

(* the terms of area (5), volume (10), B integrals (8, 9), total current (7), energy (2) *)
Theorem C13_M_simple_terms : forall (P : im_prob) el B,
  m_delta P 5 el B = (im_area RA P el, 0) /\ m_delta P 10 el B = (im_vol RA P el, 0) /\
  m_delta P 8 el B = (im_vol RA P el * fst (fst B), im_vol RA P el * snd (fst B)) /\
  m_delta P 9 el B = (im_vol RA P el * fst (snd B), im_vol RA P el * snd (snd B)) /\
  m_delta P 7 el B = (im_area RA P el * fst (m_J P el), im_area RA P el * snd (m_J P el)) /\
  m_delta P 2 el B = im_energy_term RA P el B.
Proof.
  intros. repeat split; [apply m_delta_area|apply m_delta_volume|apply m_delta_B1|apply m_delta_B2|apply m_delta_current|apply m_delta_energy].
Qed.
Print Assumptions C13_M_simple_terms.

Theorem C13_M_area_is_shoelace_of_boundary : forall (P : im_prob) els,
  NoDup (rall_dedges (map im_p els)) ->
  lsum (im_area RA P) els = im_lc P * im_lc P * (lsum (rcross (m_X P)) (rboundary (map im_p els)) / 2).
Proof. exact m_area_integral_is_shoelace. Qed.
Print Assumptions C13_M_area_is_shoelace_of_boundary.

Theorem C13_M_volume_planar_is_depth_times_area : forall (P : im_prob) els,
  im_axi P = false -> lsum (im_vol RA P) els = im_depth RA P * lsum (im_area RA P) els.
Proof. exact m_volume_integral_planar. Qed.
Print Assumptions C13_M_volume_planar_is_depth_times_area.

Theorem C13_M_volume_axisymmetric_is_revolved_boundary : forall (P : im_prob) els,
  im_axi P = true -> NoDup (rall_dedges (map im_p els)) ->
  lsum (im_vol RA P) els = im_lc P * im_lc P * im_lc P * lsum (rrevol (m_X P)) (rboundary (map im_p els)).
Proof. exact m_volume_integral_axisymmetric. Qed.
Print Assumptions C13_M_volume_axisymmetric_is_revolved_boundary.

(* planar GetElementB: B = curl of the P1 potential *)
Theorem C13_M_flux_density_is_curl : forall (P : im_prob) el, im_axi P = false ->
  fst (fst (im_B RA P el)) = m_B1 P el /\ fst (snd (im_B RA P el)) = m_B2 P el.
Proof. exact im_B_planar_re. Qed.
Print Assumptions C13_M_flux_density_is_curl.

(* stored-energy term (planar, no magnet, laminations in-plane or none) = 1/2 a_e^T K_e a_e ... *)
Theorem C13_M_energy_term_is_half_aKa : forall (P : im_prob) el,
  im_axi P = false -> im_Hc (m_mat P el) = 0 -> im_lamtype (m_mat P el) = 0%nat ->
  im_energy_term RA P el (im_B RA P el) = (m_quad P el / 2, 0).
Proof. exact im_energy_is_quadratic_form. Qed.
Print Assumptions C13_M_energy_term_is_half_aKa.

(* ... with K_e = -(Depth/mu0) x the element matrix FSolver::Static2D assembles (AsmM.melem_matrices) *)
Theorem C13_M_stiffness_is_solver_element_matrix :
  forall (P : im_prob) (SP : mprob) (res : list (nat * R * R)) (u : R) el sl j k,
  im_axi P = false -> same_melem P SP u el sl -> no_mixed_edge SP sl -> (j < 3)%nat -> (k < 3)%nat ->
  u <> 0 -> im_lc P <> 0 -> m_da P el <> 0 -> m_mu1 P el <> 0 -> m_mu2 P el <> 0 -> im_muo P <> 0 ->
  m_K P el j k = - (im_depth RA P / im_muo P) * m3get RA (fst (fst (melem_matrices RA SP res sl))) j k.
Proof. exact solver_matrix_is_m_K. Qed.
Print Assumptions C13_M_stiffness_is_solver_element_matrix.

(* the A.J term (planar) = depth x exact integral of the P1 potential x conj(J) *)
Theorem C13_M_AJ_term_planar : forall (P : im_prob) el B z, im_axi P = false ->
  im_term RA P 0 el B z
  = (fst z + im_depth RA P * im_area RA P el / 3
             * (fst (m_J P el) * (m_a P el 0 + m_a P el 1 + m_a P el 2) + snd (m_J P el) * (m_ai P el 0 + m_ai P el 1 + m_ai P el 2)),
     snd z + im_depth RA P * im_area RA P el / 3
             * (fst (m_J P el) * (m_ai P el 0 + m_ai P el 1 + m_ai P el 2) - snd (m_J P el) * (m_a P el 0 + m_a P el 1 + m_a P el 2))).
Proof. exact im_AJ_term_planar. Qed.
Print Assumptions C13_M_AJ_term_planar.

(* W = 1/2 A^T K A *)
Theorem C13_M_energy_is_half_AtKA : forall (P : im_prob) els nn,
  im_axi P = false -> Forall (m_ok P) els -> Forall (m_in_range nn) els ->
  lsum (m_W P) els = / 2 * rsum (fun i => m_An P i * m_react P els i) nn.
Proof. exact m_energy_is_half_AtKA. Qed.
Print Assumptions C13_M_energy_is_half_AtKA.

(* W = 1/2 int A.J when the only sources are J / circuits and the prescribed boundary values are zero *)
Theorem C13_M_energy_is_half_AJ : forall (P : im_prob) els nn,
  im_axi P = false -> Forall (m_ok P) els -> Forall (fun el => snd (m_J P el) = 0) els -> Forall (m_in_range nn) els ->
  (forall i, (i < nn)%nat -> m_An P i = 0 \/ m_react P els i = m_load P els i) ->
  lsum (m_W P) els = / 2 * lsum (m_AJ P) els.
Proof. exact m_energy_is_half_AJ. Qed.
Print Assumptions C13_M_energy_is_half_AJ.

(* in general the difference is the potential-weighted residual of the nodal equations *)
Theorem C13_M_energy_minus_half_AJ : forall (P : im_prob) els nn,
  im_axi P = false -> Forall (m_ok P) els -> Forall (fun el => snd (m_J P el) = 0) els -> Forall (m_in_range nn) els ->
  lsum (m_W P) els - / 2 * lsum (m_AJ P) els = / 2 * rsum (fun i => m_An P i * (m_react P els i - m_load P els i)) nn.
Proof. exact m_energy_minus_half_AJ. Qed.
Print Assumptions C13_M_energy_minus_half_AJ.

(* circuits: GetFluxLinkage(c) x conj(I_c) = BlockIntegral(0) over the blocks of circuit c (planar and axisymmetric) *)
Theorem C13_M_flux_linkage_times_current : forall (P : im_prob) c sel,
  (forall el, In el (im_elems P) -> snd (im_o (im_label_of RA P el)) = 0) ->
  (forall el, In el (im_elems P) -> selected sel (im_lbl el) = in_circuit P c el) ->
  nth c (im_amps P) (0, 0) <> (0, 0) ->
  cmul RA (im_flux_linkage RA P c) (cconj RA (nth c (im_amps P) (0, 0))) = im_block_integral RA P (im_Bs RA P) sel 0.
Proof. exact flux_linkage_times_current. Qed.
Print Assumptions C13_M_flux_linkage_times_current.

(* CMMaterialProp::DoEnergy: correct for LamType 0 ... *)
Theorem C13_M_do_energy_lam0 : forall (fx : bool) (m : im_mat) muo b1 b2, im_lamtype m = 0%nat ->
  im_do_energy RA fx m muo b1 b2
  = (b1 * b1 / ((1 + im_lamfill m * (im_mux m - 1)) * muo) + b2 * b2 / ((1 + im_lamfill m * (im_muy m - 1)) * muo)) / 2.
Proof. exact do_energy_lam0. Qed.
Print Assumptions C13_M_do_energy_lam0.

(* ... refuted for laminations on edge (LamType 1, 2) in the text the source has (variant false): a flux density
   along y stores no energy *)
Theorem C13_M_do_energy_lam1_refuted :
  exists (m : im_mat (F:=R)) muo b1 b2, im_lamtype m = 1%nat /\ 0 < muo /\ 0 < im_mux m /\ 0 < im_muy m /\
    0 < im_lamfill m <= 1 /\ (b1, b2) <> (0, 0) /\
    im_do_energy RA false m muo b1 b2 = 0 /\ im_do_energy_intended RA m muo b1 b2 > 0.
Proof. exact do_energy_lam1_refuted. Qed.
Print Assumptions C13_M_do_energy_lam1_refuted.

Theorem C13_M_do_energy_lam2_refuted :
  exists (m : im_mat (F:=R)) muo b1 b2, im_lamtype m = 2%nat /\ 0 < muo /\ 0 < im_mux m /\ 0 < im_muy m /\
    0 < im_lamfill m <= 1 /\ (b1, b2) <> (0, 0) /\
    im_do_energy RA false m muo b1 b2 = 0 /\ im_do_energy_intended RA m muo b1 b2 > 0.
Proof. exact do_energy_lam2_refuted. Qed.
Print Assumptions C13_M_do_energy_lam2_refuted.

(* ... and correct in the repaired text (variant true, /repo fcf383d; which variant the tree has is read from the source on
   every run by props/xint.py): every direction stores the energy of its own flux density component, and the energy is
   positive for every non-zero flux density *)
Theorem C13_M_do_energy_lam1_repaired : forall (m : im_mat) muo b1 b2, im_lamtype m = 1%nat ->
  im_do_energy RA true m muo b1 b2
  = (b1 * b1 / ((1 + im_lamfill m * (im_mux m - 1)) * muo)
     + b2 * b2 * (im_lamfill m / (im_muy m * muo) + (1 - im_lamfill m) / muo)) / 2.
Proof. exact do_energy_lam1_repaired. Qed.
Print Assumptions C13_M_do_energy_lam1_repaired.

Theorem C13_M_do_energy_lam2_repaired : forall (m : im_mat) muo b1 b2, im_lamtype m = 2%nat ->
  im_do_energy RA true m muo b1 b2
  = (b1 * b1 * (im_lamfill m / (im_mux m * muo) + (1 - im_lamfill m) / muo)
     + b2 * b2 / ((1 + im_lamfill m * (im_muy m - 1)) * muo)) / 2.
Proof. exact do_energy_lam2_repaired. Qed.
Print Assumptions C13_M_do_energy_lam2_repaired.

Theorem C13_M_do_energy_repaired_positive : forall (m : im_mat) muo b1 b2,
  (im_lamtype m <= 2)%nat -> 0 < muo -> 1 <= im_mux m -> 1 <= im_muy m -> 0 < im_lamfill m <= 1 -> (b1, b2) <> (0, 0) ->
  0 < im_do_energy RA true m muo b1 b2.
Proof. exact do_energy_repaired_positive. Qed.
Print Assumptions C13_M_do_energy_repaired_positive.

(* non-vacuity: a unit square of air with J = 1 A/m^2, A = 0 on the boundary and the centre node at the potential
   that solves its nodal equation (four elements, mu0 := 1): all hypotheses of W = 1/2 int A.J hold, W = 1/72 *)
Example C13_M_example_hypotheses_hold :
  im_axi ex_M = false /\ Forall (m_ok ex_M) (im_elems ex_M) /\ Forall (fun el => snd (m_J ex_M el) = 0) (im_elems ex_M) /\
  Forall (m_in_range 5) (im_elems ex_M) /\
  (forall i, (i < 5)%nat -> m_An ex_M i = 0 \/ m_react ex_M (im_elems ex_M) i = m_load ex_M (im_elems ex_M) i).
Proof. exact ex_M_hypotheses_hold. Qed.
Example C13_M_example_energy : lsum (m_W ex_M) (im_elems ex_M) = 1 / 72 /\ lsum (m_AJ ex_M) (im_elems ex_M) = 1 / 36.
Proof. exact ex_M_energy. Qed.
