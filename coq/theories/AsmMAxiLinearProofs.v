(* AsmMAxiLinearProofs.v — C11 for the model of FSolver::StaticAxisymmetric (real reading): through the WHOLE
   assembly (circuit pre-pass, element loop, point currents, SetValue on the axis / at points / along
   segments, periodic pairs) the matrix does not depend on the excitations and the right-hand side is linear
   in them. *)
From Coq Require Import ZArith List Bool Arith Lia Reals Lra.
From XF Require Import Arith Sparse SparseProofs AsmOps AsmOpsProofs AsmE AsmEProofs AsmM AsmMProofs AsmMAxi AsmMAxiProofs.
Import ListNotations.
Local Open Scope R_scope.

Local Notation vgetR := (vget RA).
Local Notation probR := (mprob (F:=R)).
Local Notation aprobR := (aprob (F:=R)).
Local Notation elemR := (melem (F:=R)).
Local Notation alogsR := (alogs (F:=R)).
Local Notation linR := (lin (F:=R)).

(* ---- linear combinations of vectors ---- *)
Fixpoint vlin (a b : R) (v1 v2 : vecT R) : vecT R :=
  match v1, v2 with
  | x :: t1, y :: t2 => (a * x + b * y) :: vlin a b t1 t2
  | _, _ => []
  end.

Section Vlin.
  Variables a b : R.

  Lemma vlin_length v1 : forall v2, length v1 = length v2 -> length (vlin a b v1 v2) = length v1.
  Proof. induction v1 as [|x t IH]; intros [|y t2] H; cbn in *; try discriminate; auto. Qed.

  Lemma vget_vlin v1 : forall v2 i, length v1 = length v2 ->
    vgetR (vlin a b v1 v2) i = a * vgetR v1 i + b * vgetR v2 i.
  Proof.
    unfold vget. induction v1 as [|x t IH]; intros [|y t2] i H; cbn in *; try discriminate.
    - destruct i; cbn; ring.
    - destruct i as [|i]; cbn; [ring|]. apply IH. lia.
  Qed.

  Lemma vset_vlin v1 : forall v2 i x1 x2, length v1 = length v2 ->
    vset (vlin a b v1 v2) i (a * x1 + b * x2) = vlin a b (vset v1 i x1) (vset v2 i x2).
  Proof.
    induction v1 as [|x t IH]; intros [|y t2] i x1 x2 H; cbn in *; try discriminate; [reflexivity|].
    destruct i as [|i]; cbn; [reflexivity|]. rewrite IH by lia. reflexivity.
  Qed.

  Lemma vlin_repeat0 n : vlin a b (repeat 0 n) (repeat 0 n) = repeat 0 n.
  Proof. induction n; cbn; [reflexivity|]. rewrite IHn. f_equal. ring. Qed.

  (* b[i] += v  and  b[i] -= v *)
  Lemma vadd_vlin v1 v2 i k1 k2 : length v1 = length v2 ->
    vset (vlin a b v1 v2) i (vgetR (vlin a b v1 v2) i + (a * k1 + b * k2))
    = vlin a b (vset v1 i (vgetR v1 i + k1)) (vset v2 i (vgetR v2 i + k2)).
  Proof.
    intros H. rewrite vget_vlin by exact H.
    replace (a * vgetR v1 i + b * vgetR v2 i + (a * k1 + b * k2)) with (a * (vgetR v1 i + k1) + b * (vgetR v2 i + k2)) by ring.
    apply vset_vlin. exact H.
  Qed.
  Lemma vsub_vlin v1 v2 i k1 k2 : length v1 = length v2 ->
    vset (vlin a b v1 v2) i (vgetR (vlin a b v1 v2) i - (a * k1 + b * k2))
    = vlin a b (vset v1 i (vgetR v1 i - k1)) (vset v2 i (vgetR v2 i - k2)).
  Proof.
    intros H. rewrite vget_vlin by exact H.
    replace (a * vgetR v1 i + b * vgetR v2 i - (a * k1 + b * k2)) with (a * (vgetR v1 i - k1) + b * (vgetR v2 i - k2)) by ring.
    apply vset_vlin. exact H.
  Qed.

  Lemma v3add_vlin v1 v2 j k1 k2 : length v1 = length v2 ->
    v3add RA (vlin a b v1 v2) j (a * k1 + b * k2) = vlin a b (v3add RA v1 j k1) (v3add RA v2 j k2).
  Proof. intros H. unfold v3add. ra_simpl. apply vadd_vlin. exact H. Qed.
  Lemma v3add_length (v : vecT R) j k : length (v3add RA v j k) = length v.
  Proof. unfold v3add. apply vset_length. Qed.

  (* ---- the linear systems: same matrix, combined right-hand side ---- *)
  Definition lin3 (L1 L2 L : linR) : Prop :=
    ln L = ln L1 /\ ln L = ln L2 /\ lbdw L = lbdw L1 /\ lbdw L = lbdw L2 /\
    lM L = lM L1 /\ lM L = lM L2 /\ length (lb L1) = length (lb L2) /\ lb L = vlin a b (lb L1) (lb L2).

  Lemma sv_loop_lin i x1 x2 : forall ks (M : matrixT R) (b1 b2 : vecT R), length b1 = length b2 ->
    let r1 := sv_loop RA ks i x1 M b1 in
    let r2 := sv_loop RA ks i x2 M b2 in
    let r := sv_loop RA ks i (a * x1 + b * x2) M (vlin a b b1 b2) in
    fst r = fst r1 /\ fst r = fst r2 /\ length (snd r1) = length (snd r2) /\ snd r = vlin a b (snd r1) (snd r2).
  Proof.
    induction ks as [|k ks IH]; intros M b1 b2 H.
    - cbn. repeat split; auto.
    - cbn [sv_loop]. destruct (aeqb RA (mget RA M k i) (azero RA)); [apply IH; exact H|].
      ra_simpl.
      replace (mget RA M k i * (a * x1 + b * x2)) with (a * (mget RA M k i * x1) + b * (mget RA M k i * x2)) by ring.
      rewrite vsub_vlin by exact H.
      apply IH. rewrite !vset_length. exact H.
  Qed.

  Lemma setvalue_lin3 L1 L2 L i x1 x2 :
    lin3 L1 L2 L -> lin3 (setvalue RA L1 i x1) (setvalue RA L2 i x2) (setvalue RA L i (a * x1 + b * x2)).
  Proof.
    intros (N1 & N2 & B1 & B2 & M1 & M2 & HL & Hb).
    unfold setvalue. rewrite <- N1, <- N2, <- B1, <- B2, <- M1, <- M2, Hb.
    destruct (sv_window (ln L) (lbdw L) i) as [fs ls].
    destruct (sv_loop_lin i x1 x2 (seq fs (ls - fs)) (lM L) (lb L1) (lb L2) HL) as (E1 & E2 & EL & Eb).
    destruct (sv_loop RA (seq fs (ls - fs)) i x1 (lM L) (lb L1)) as [Ma ba].
    destruct (sv_loop RA (seq fs (ls - fs)) i x2 (lM L) (lb L2)) as [Mb bb].
    destruct (sv_loop RA (seq fs (ls - fs)) i (a * x1 + b * x2) (lM L) (vlin a b (lb L1) (lb L2))) as [Mc bc].
    cbn [fst snd] in *. subst Ma Mb bc.
    unfold lin3, lwithMb. cbn [ln lbdw lM lb]. ra_simpl.
    repeat split; auto.
    - rewrite !vset_length. exact EL.
    - replace (mget RA Mc i i * (a * x1 + b * x2)) with (a * (mget RA Mc i i * x1) + b * (mget RA Mc i i * x2)) by ring.
      apply vset_vlin. exact EL.
  Qed.

  Lemma periodicity_lin3 L1 L2 L i j :
    lin3 L1 L2 L -> lin3 (periodicity RA L1 i j) (periodicity RA L2 i j) (periodicity RA L i j).
  Proof.
    intros (N1 & N2 & B1 & B2 & M1 & M2 & HL & Hb).
    unfold periodicity. rewrite <- N1, <- N2, <- M1, <- M2, Hb.
    destruct (if Nat.ltb j i then (j, i) else (i, j)) as [i' j'].
    unfold lin3, lwithMb. cbn [ln lbdw lM lb]. ra_simpl.
    repeat split; auto.
    - rewrite !vset_length. exact HL.
    - rewrite !vget_vlin by exact HL.
      replace (half RA * (a * vgetR (lb L1) i' + b * vgetR (lb L2) i' + (a * vgetR (lb L1) j' + b * vgetR (lb L2) j')))
        with (a * (half RA * (vgetR (lb L1) i' + vgetR (lb L1) j')) + b * (half RA * (vgetR (lb L2) i' + vgetR (lb L2) j'))) by ring.
      rewrite vset_vlin by exact HL. apply vset_vlin. rewrite !vset_length. exact HL.
  Qed.

  Lemma antiperiodicity_lin3 L1 L2 L i j :
    lin3 L1 L2 L -> lin3 (antiperiodicity RA L1 i j) (antiperiodicity RA L2 i j) (antiperiodicity RA L i j).
  Proof.
    intros (N1 & N2 & B1 & B2 & M1 & M2 & HL & Hb).
    unfold antiperiodicity. rewrite <- N1, <- N2, <- M1, <- M2, Hb.
    destruct (if Nat.ltb j i then (j, i) else (i, j)) as [i' j'].
    unfold lin3, lwithMb. cbn [ln lbdw lM lb]. ra_simpl.
    repeat split; auto.
    - rewrite !vset_length. exact HL.
    - rewrite !vget_vlin by exact HL.
      replace (half RA * (a * vgetR (lb L1) i' + b * vgetR (lb L2) i' - (a * vgetR (lb L1) j' + b * vgetR (lb L2) j')))
        with (a * (half RA * (vgetR (lb L1) i' - vgetR (lb L1) j')) + b * (half RA * (vgetR (lb L2) i' - vgetR (lb L2) j'))) by ring.
      rewrite vset_vlin by exact HL.
      replace (- (a * (half RA * (vgetR (lb L1) i' - vgetR (lb L1) j')) + b * (half RA * (vgetR (lb L2) i' - vgetR (lb L2) j'))))
        with (a * - (half RA * (vgetR (lb L1) i' - vgetR (lb L1) j')) + b * - (half RA * (vgetR (lb L2) i' - vgetR (lb L2) j'))) by ring.
      apply vset_vlin. rewrite !vset_length. exact HL.
  Qed.
End Vlin.

(* ---- three problems: the same passive data, excitations of P = a * those of P1 + b * those of P2 ---- *)
Definition pfix (pp : mpoint (F:=R)) : bool := (aeqb RA (pJre pp) (azero RA) && aeqb RA (pJim pp) (azero RA))%bool.

Record exc_lin (a b : R) (AP1 AP2 AP : aprobR) : Prop := mkExcLin {
  (* mesh, labels (circuit membership, turns), periodic pairs, length unit, logarithms, exterior region:
     identical (the magnetisation DIRECTION cos/sin is part of the mesh data, its strength H_c is not) *)
  xl_nodes1 : mnodes (ap AP) = mnodes (ap AP1);   xl_nodes2 : mnodes (ap AP) = mnodes (ap AP2);
  xl_elems1 : melems (ap AP) = melems (ap AP1);   xl_elems2 : melems (ap AP) = melems (ap AP2);
  xl_labels1 : mlabels (ap AP) = mlabels (ap AP1); xl_labels2 : mlabels (ap AP) = mlabels (ap AP2);
  xl_pbcs1 : mpbcs (ap AP) = mpbcs (ap AP1);       xl_pbcs2 : mpbcs (ap AP) = mpbcs (ap AP2);
  xl_unit1 : unit_idx (ap AP) = unit_idx (ap AP1); xl_unit2 : unit_idx (ap AP) = unit_idx (ap AP2);
  xl_alg1 : alg AP = alg AP1;                      xl_alg2 : alg AP = alg AP2;
  xl_ext1 : aext AP = aext AP1;                    xl_ext2 : aext AP = aext AP2;
  xl_Ro1 : aRo_raw AP = aRo_raw AP1;               xl_Ro2 : aRo_raw AP = aRo_raw AP2;
  xl_Ri1 : aRi_raw AP = aRi_raw AP1;               xl_Ri2 : aRi_raw AP = aRi_raw AP2;
  xl_Zo1 : aZo_raw AP = aZo_raw AP1;               xl_Zo2 : aZo_raw AP = aZo_raw AP2;
  xl_ncirc1 : length (mcircs (ap AP)) = length (mcircs (ap AP1));
  xl_ncirc2 : length (mcircs (ap AP)) = length (mcircs (ap AP2));
  (* block properties: permeabilities, lamination and conductivity passive; J and H_c combined *)
  xl_block : forall i,
    let B := nth i (mblocks (ap AP)) (dmblock RA) in
    let B1 := nth i (mblocks (ap AP1)) (dmblock RA) in
    let B2 := nth i (mblocks (ap AP2)) (dmblock RA) in
    bmux B = bmux B1 /\ bmux B = bmux B2 /\ bmuy B = bmuy B1 /\ bmuy B = bmuy B2 /\
    bLamType B = bLamType B1 /\ bLamType B = bLamType B2 /\ bLamFill B = bLamFill B1 /\ bLamFill B = bLamFill B2 /\
    bCduct B = bCduct B1 /\ bCduct B = bCduct B2 /\
    bJre B = a * bJre B1 + b * bJre B2 /\ bHc B = a * bHc B1 + b * bHc B2;
  (* boundary properties: type, c0 and the phase factor passive; A0, A1, A2, c1 combined *)
  xl_line : forall i,
    let B := nth i (mlines (ap AP)) (dmline RA) in
    let B1 := nth i (mlines (ap AP1)) (dmline RA) in
    let B2 := nth i (mlines (ap AP2)) (dmline RA) in
    mlfmt B = mlfmt B1 /\ mlfmt B = mlfmt B2 /\ lc0re B = lc0re B1 /\ lc0re B = lc0re B2 /\
    lcosphi B = lcosphi B1 /\ lcosphi B = lcosphi B2 /\
    lA0 B = a * lA0 B1 + b * lA0 B2 /\ lA1 B = a * lA1 B1 + b * lA1 B2 /\ lA2 B = a * lA2 B1 + b * lA2 B2 /\
    lc1re B = a * lc1re B1 + b * lc1re B2;
  (* point properties: whether the property prescribes A (J == 0) is structure; J and A combined *)
  xl_point : forall i,
    let B := nth i (mpoints (ap AP)) (dmpoint RA) in
    let B1 := nth i (mpoints (ap AP1)) (dmpoint RA) in
    let B2 := nth i (mpoints (ap AP2)) (dmpoint RA) in
    pfix B = pfix B1 /\ pfix B = pfix B2 /\
    pJre B = a * pJre B1 + b * pJre B2 /\ pAre B = a * pAre B1 + b * pAre B2;
  (* circuit properties: the type passive; total current / voltage gradient combined *)
  xl_circ : forall i,
    let B := nth i (mcircs (ap AP)) (dmcirc RA) in
    let B1 := nth i (mcircs (ap AP1)) (dmcirc RA) in
    let B2 := nth i (mcircs (ap AP2)) (dmcirc RA) in
    cType B = cType B1 /\ cType B = cType B2 /\
    cAre B = a * cAre B1 + b * cAre B2 /\ cdVre B = a * cdVre B1 + b * cdVre B2 }.

Section Linear.
  Variables (a b : R) (AP1 AP2 AP : aprobR).
  Hypothesis X : exc_lin a b AP1 AP2 AP.
  Local Notation P := (ap AP).
  Local Notation P1 := (ap AP1).
  Local Notation P2 := (ap AP2).

  (* ---- things that only read passive data ---- *)
  Lemma geom_same el : mel_geom RA P el = mel_geom RA P1 el /\ mel_geom RA P el = mel_geom RA P2 el.
  Proof. unfold mel_geom. rewrite <- (xl_nodes1 _ _ _ _ _ X), <- (xl_nodes2 _ _ _ _ _ X). split; reflexivity. Qed.
  Lemma rn_same el : el_rn RA P el = el_rn RA P1 el /\ el_rn RA P el = el_rn RA P2 el.
  Proof. unfold el_rn. rewrite <- (xl_nodes1 _ _ _ _ _ X), <- (xl_nodes2 _ _ _ _ _ X). split; reflexivity. Qed.
  Lemma zn_same el : el_zn RA P el = el_zn RA P1 el /\ el_zn RA P el = el_zn RA P2 el.
  Proof. unfold el_zn. rewrite <- (xl_nodes1 _ _ _ _ _ X), <- (xl_nodes2 _ _ _ _ _ X). split; reflexivity. Qed.
  Lemma aunit_same : aunit RA P = aunit RA P1 /\ aunit RA P = aunit RA P2.
  Proof. unfold aunit. rewrite <- (xl_unit1 _ _ _ _ _ X), <- (xl_unit2 _ _ _ _ _ X). split; reflexivity. Qed.
  Lemma atol_same : atol RA P = atol RA P1 /\ atol RA P = atol RA P2.
  Proof. unfold atol. destruct aunit_same as [<- <-]. split; reflexivity. Qed.
  Lemma shape_same el lg : ael_shape RA P el lg = ael_shape RA P1 el lg /\ ael_shape RA P el lg = ael_shape RA P2 el lg.
  Proof.
    unfold ael_shape. destruct (geom_same el) as [<- <-]. destruct (rn_same el) as [<- <-]. destruct atol_same as [<- <-].
    split; reflexivity.
  Qed.
  Lemma wound_same l : is_wound RA P l = is_wound RA P1 l /\ is_wound RA P l = is_wound RA P2 l.
  Proof.
    unfold is_wound. destruct (xl_block _ _ _ _ _ X (lblk l)) as (_ & _ & _ & _ & T1 & T2 & _).
    cbv zeta in T1, T2. rewrite <- T1, <- T2. split; reflexivity.
  Qed.
  Lemma el_mu_same i :
    el_mu RA (nth i (mblocks P) (dmblock RA)) = el_mu RA (nth i (mblocks P1) (dmblock RA)) /\
    el_mu RA (nth i (mblocks P) (dmblock RA)) = el_mu RA (nth i (mblocks P2) (dmblock RA)).
  Proof.
    destruct (xl_block _ _ _ _ _ X i) as (U1 & U2 & V1 & V2 & T1 & T2 & F1 & F2 & _). cbv zeta in *.
    unfold el_mu. rewrite <- U1, <- U2, <- V1, <- V2, <- T1, <- T2, <- F1, <- F2. split; reflexivity.
  Qed.
  Lemma ael_mu_same extRo extRi extZo el R zn :
    ael_mu RA AP extRo extRi extZo el R zn = ael_mu RA AP1 extRo extRi extZo el R zn /\
    ael_mu RA AP extRo extRi extZo el R zn = ael_mu RA AP2 extRo extRi extZo el R zn.
  Proof.
    unfold ael_mu. destruct (el_mu_same (mblk el)) as [<- <-].
    rewrite <- (xl_ext1 _ _ _ _ _ X), <- (xl_ext2 _ _ _ _ _ X). split; reflexivity.
  Qed.

  (* ---- circuit pre-pass: CircInt1, CircInt2 passive, CircInt3 combined ---- *)
  Lemma acirc_step_lin (c1 c2 c3a c3b : vecT R) el : length c3a = length c3b ->
    let r1 := acirc_step RA P1 (c1, c2, c3a) el in
    let r2 := acirc_step RA P2 (c1, c2, c3b) el in
    let r := acirc_step RA P (c1, c2, vlin a b c3a c3b) el in
    fst r = fst r1 /\ fst r = fst r2 /\ length (snd r1) = length (snd r2) /\ snd r = vlin a b (snd r1) (snd r2).
  Proof.
    intros H. unfold acirc_step.
    rewrite <- (xl_labels1 _ _ _ _ _ X), <- (xl_labels2 _ _ _ _ _ X).
    destruct (lcirc (nth (mlbl el) (mlabels P) dmlabel)) as [ic|]; [|cbn [fst snd]; repeat split; auto].
    destruct (geom_same el) as [<- <-].
    destruct (wound_same (nth (mlbl el) (mlabels P) dmlabel)) as [<- <-].
    destruct (xl_block _ _ _ _ _ X (mblk el)) as (_ & _ & _ & _ & _ & _ & _ & _ & C1 & C2 & J & _). cbv zeta in C1, C2, J.
    rewrite <- C1, <- C2, J. cbn [fst snd]. ra_simpl.
    repeat split; auto.
    - rewrite !vset_length. exact H.
    - replace ((a * bJre (nth (mblk el) (mblocks P1) (dmblock RA)) + b * bJre (nth (mblk el) (mblocks P2) (dmblock RA)))
               * ga (mel_geom RA P el) * 100)
        with (a * (bJre (nth (mblk el) (mblocks P1) (dmblock RA)) * ga (mel_geom RA P el) * 100)
              + b * (bJre (nth (mblk el) (mblocks P2) (dmblock RA)) * ga (mel_geom RA P el) * 100)) by ring.
      apply vadd_vlin. exact H.
  Qed.

  Lemma acirc_fold_lin : forall (els : list elemR) (c1 c2 c3a c3b : vecT R), length c3a = length c3b ->
    let r1 := fold_left (acirc_step RA P1) els (c1, c2, c3a) in
    let r2 := fold_left (acirc_step RA P2) els (c1, c2, c3b) in
    let r := fold_left (acirc_step RA P) els (c1, c2, vlin a b c3a c3b) in
    fst r = fst r1 /\ fst r = fst r2 /\ length (snd r1) = length (snd r2) /\ snd r = vlin a b (snd r1) (snd r2).
  Proof.
    induction els as [|el els IH]; intros c1 c2 c3a c3b H; [cbn; repeat split; auto|].
    cbn [fold_left].
    destruct (acirc_step_lin c1 c2 c3a c3b el H) as (E1 & E2 & EL & E3).
    destruct (acirc_step RA P1 (c1, c2, c3a) el) as [[d1 d2] d3a].
    destruct (acirc_step RA P2 (c1, c2, c3b) el) as [[d1' d2'] d3b].
    destruct (acirc_step RA P (c1, c2, vlin a b c3a c3b) el) as [[e1 e2] e3].
    cbn [fst snd] in *. inversion E1; subst e1 e2. inversion E2; subst d1' d2'. subst e3.
    apply IH. exact EL.
  Qed.

  Definition res_lin (res1 res2 res : list (nat * R * R)) : Prop :=
    forall k, let r := nth k res (dres RA) in let r1 := nth k res1 (dres RA) in let r2 := nth k res2 (dres RA) in
      fst (fst r) = fst (fst r1) /\ fst (fst r) = fst (fst r2) /\
      snd (fst r) = a * snd (fst r1) + b * snd (fst r2) /\ snd r = a * snd r1 + b * snd r2.

  Lemma circ_case_lin c c1 c2 i1 i2 i3a i3b :
    cType c = cType c1 -> cType c = cType c2 ->
    cAre c = a * cAre c1 + b * cAre c2 -> cdVre c = a * cdVre c1 + b * cdVre c2 ->
    let r := circ_case RA c i1 i2 (a * i3a + b * i3b) in
    let r1 := circ_case RA c1 i1 i2 i3a in let r2 := circ_case RA c2 i1 i2 i3b in
    fst (fst r) = fst (fst r1) /\ fst (fst r) = fst (fst r2) /\
    snd (fst r) = a * snd (fst r1) + b * snd (fst r2) /\ snd r = a * snd r1 + b * snd r2.
  Proof.
    intros T1 T2 HA HV. unfold circ_case. rewrite <- T1, <- T2.
    destruct (Nat.eqb (cType c) 0); [|cbn [fst snd]; ra_simpl; repeat split; auto; ring].
    destruct (aeqb RA i2 (azero RA)).
    - destruct (aeqb RA i1 (azero RA)); cbn [fst snd]; ra_simpl; repeat split; auto; try ring.
      rewrite HA. unfold Rdiv. ring.
    - cbn [fst snd]. ra_simpl. repeat split; auto; try ring. rewrite HA. unfold Rdiv. ring.
  Qed.

  Lemma acirc_results_nth (Q : probR) k :
    nth k (acirc_results RA Q) (dres RA) =
      if Nat.ltb k (length (mcircs Q)) then
        let c := acirc_ints RA Q (length (mcircs Q)) in
        circ_case RA (nth k (mcircs Q) (dmcirc RA)) (vgetR (fst (fst c)) k) (vgetR (snd (fst c)) k) (vgetR (snd c) k)
      else dres RA.
  Proof.
    unfold acirc_results. destruct (acirc_ints RA Q (length (mcircs Q))) as [[c1 c2] c3]. cbn [fst snd].
    destruct (Nat.ltb_spec k (length (mcircs Q))) as [Hk|Hk].
    - rewrite (nth_map_combine_seq _ (mcircs Q) (dmcirc RA)) by exact Hk. reflexivity.
    - apply nth_overflow. rewrite map_length, combine_length, seq_length. lia.
  Qed.

  Lemma acirc_results_lin : res_lin (acirc_results RA P1) (acirc_results RA P2) (acirc_results RA P).
  Proof.
    intros k. cbv zeta. rewrite !acirc_results_nth.
    rewrite <- (xl_ncirc1 _ _ _ _ _ X), <- (xl_ncirc2 _ _ _ _ _ X).
    set (nc := length (mcircs P)).
    destruct (Nat.ltb k nc); [|cbn; repeat split; auto; ring].
    unfold acirc_ints. rewrite <- (xl_elems1 _ _ _ _ _ X), <- (xl_elems2 _ _ _ _ _ X).
    pose proof (acirc_fold_lin (melems P) (repeat 0 nc) (repeat 0 nc) (repeat 0 nc) (repeat 0 nc) eq_refl) as G.
    cbv zeta in G. rewrite vlin_repeat0 in G. ra_simpl.
    destruct G as (E1 & E2 & EL & E3).
    destruct (fold_left (acirc_step RA P1) (melems P) (repeat 0 nc, repeat 0 nc, repeat 0 nc)) as [[d1 d2] d3a].
    destruct (fold_left (acirc_step RA P2) (melems P) (repeat 0 nc, repeat 0 nc, repeat 0 nc)) as [[d1' d2'] d3b].
    destruct (fold_left (acirc_step RA P) (melems P) (repeat 0 nc, repeat 0 nc, repeat 0 nc)) as [[e1 e2] e3].
    cbn [fst snd] in *. inversion E1; subst e1 e2. inversion E2; subst d1' d2'. subst e3.
    rewrite (vget_vlin a b d3a d3b k EL).
    destruct (xl_circ _ _ _ _ _ X k) as (T1 & T2 & HA & HV). cbv zeta in T1, T2, HA, HV.
    apply circ_case_lin; assumption.
  Qed.

  (* ---- element matrices ---- *)
  Variables (extRo extRi extZo : R) (res1 res2 res : list (nat * R * R)).
  Hypothesis HRes : res_lin res1 res2 res.

  Lemma acirc_t_lin el Rc :
    acirc_t RA P res el Rc = a * acirc_t RA P1 res1 el Rc + b * acirc_t RA P2 res2 el Rc.
  Proof.
    unfold acirc_t. rewrite <- (xl_labels1 _ _ _ _ _ X), <- (xl_labels2 _ _ _ _ _ X).
    destruct (lcirc (nth (mlbl el) (mlabels P) dmlabel)) as [k|]; [|ra_simpl; ring].
    destruct (HRes k) as (C1 & C2 & HJ & HV). cbv zeta in C1, C2, HJ, HV.
    destruct (xl_block _ _ _ _ _ X (mblk el)) as (_ & _ & _ & _ & _ & _ & _ & _ & D1 & D2 & _). cbv zeta in D1, D2.
    rewrite <- D1, <- D2.
    destruct (nth k res (dres RA)) as [[c J] dV]. destruct (nth k res1 (dres RA)) as [[c1 J1] dV1].
    destruct (nth k res2 (dres RA)) as [[c2 J2] dV2]. cbn [fst snd] in *. subst c1 c2 J dV.
    destruct (Nat.eqb c 0); destruct (Nat.eqb c 1); ra_simpl; unfold Rdiv; ring.
  Qed.

  Lemma amixed_step_lin g rn el Me (be1 be2 : vecT R) j : length be1 = length be2 ->
    let r1 := amixed_step RA P1 g rn el (Me, be1) j in
    let r2 := amixed_step RA P2 g rn el (Me, be2) j in
    let r := amixed_step RA P g rn el (Me, vlin a b be1 be2) j in
    fst r = fst r1 /\ fst r = fst r2 /\ length (snd r1) = length (snd r2) /\ snd r = vlin a b (snd r1) (snd r2).
  Proof.
    intros H. unfold amixed_step.
    destruct (tri_get (me el) j) as [s|]; [|cbn [fst snd]; repeat split; auto].
    destruct (xl_line _ _ _ _ _ X s) as (F1 & F2 & C1 & C2 & _ & _ & _ & _ & _ & HC). cbv zeta in F1, F2, C1, C2, HC.
    rewrite <- F1, <- F2, <- C1, <- C2.
    destruct (Nat.eqb (mlfmt (nth s (mlines P) (dmline RA))) 2); [|cbn [fst snd]; repeat split; auto].
    cbn [fst snd]. rewrite HC. ra_simpl. repeat split; auto.
    - rewrite !v3add_length. exact H.
    - match goal with |- v3add RA (v3add RA _ _ ?K) _ _ = vlin a b (v3add RA (v3add RA _ _ ?K1) _ _) (v3add RA (v3add RA _ _ ?K2) _ _) =>
        replace K with (a * K1 + b * K2) by (unfold Rdiv; ring) end.
      rewrite v3add_vlin by exact H. apply v3add_vlin. rewrite !v3add_length. exact H.
  Qed.

  Lemma amixed_fold_lin g rn el Me (be1 be2 : vecT R) : length be1 = length be2 ->
    let r1 := fold_left (amixed_step RA P1 g rn el) [0%nat; 1%nat; 2%nat] (Me, be1) in
    let r2 := fold_left (amixed_step RA P2 g rn el) [0%nat; 1%nat; 2%nat] (Me, be2) in
    let r := fold_left (amixed_step RA P g rn el) [0%nat; 1%nat; 2%nat] (Me, vlin a b be1 be2) in
    fst r = fst r1 /\ fst r = fst r2 /\ length (snd r1) = length (snd r2) /\ snd r = vlin a b (snd r1) (snd r2).
  Proof.
    intros H. cbn [fold_left].
    destruct (amixed_step_lin g rn el Me be1 be2 0%nat H) as (E1 & E2 & EL & E3).
    destruct (amixed_step RA P1 g rn el (Me, be1) 0%nat) as [Ma ba].
    destruct (amixed_step RA P2 g rn el (Me, be2) 0%nat) as [Mb bb].
    destruct (amixed_step RA P g rn el (Me, vlin a b be1 be2) 0%nat) as [Mc bc].
    cbn [fst snd] in *. subst Ma Mb bc. clear H.
    destruct (amixed_step_lin g rn el Mc ba bb 1%nat EL) as (E1 & E2 & EL' & E3).
    destruct (amixed_step RA P1 g rn el (Mc, ba) 1%nat) as [Ma ba'].
    destruct (amixed_step RA P2 g rn el (Mc, bb) 1%nat) as [Mb bb'].
    destruct (amixed_step RA P g rn el (Mc, vlin a b ba bb) 1%nat) as [Md bd].
    cbn [fst snd] in *. subst Ma Mb bd.
    apply (amixed_step_lin g rn el Md ba' bb' 2%nat EL').
  Qed.

  Lemma amagnet_step_lin rn zn el (be1 be2 : vecT R) j : length be1 = length be2 ->
    amagnet_step RA P rn zn el (vlin a b be1 be2) j
      = vlin a b (amagnet_step RA P1 rn zn el be1 j) (amagnet_step RA P2 rn zn el be2 j) /\
    length (amagnet_step RA P1 rn zn el be1 j) = length (amagnet_step RA P2 rn zn el be2 j).
  Proof.
    intros H. unfold amagnet_step.
    destruct (xl_block _ _ _ _ _ X (mblk el)) as (_ & _ & _ & _ & _ & _ & _ & _ & _ & _ & _ & HH). cbv zeta in HH.
    rewrite HH. ra_simpl. split; [|rewrite !v3add_length; exact H].
    match goal with |- v3add RA (v3add RA _ _ ?K) _ _ = vlin a b (v3add RA (v3add RA _ _ ?K1) _ _) (v3add RA (v3add RA _ _ ?K2) _ _) =>
      replace K with (a * K1 + b * K2) by ring end.
    rewrite v3add_vlin by exact H. apply v3add_vlin. rewrite !v3add_length. exact H.
  Qed.

  (* the element matrix and the element's permeabilities do not depend on the excitations; the element load
     is the same linear combination as the excitations *)
  Theorem amelem_matrices_lin ela :
    let r1 := amelem_matrices RA AP1 extRo extRi extZo res1 ela in
    let r2 := amelem_matrices RA AP2 extRo extRi extZo res2 ela in
    let r := amelem_matrices RA AP extRo extRi extZo res ela in
    fst (fst r) = fst (fst r1) /\ fst (fst r) = fst (fst r2) /\ snd r = snd r1 /\ snd r = snd r2 /\
    length (snd (fst r1)) = length (snd (fst r2)) /\ snd (fst r) = vlin a b (snd (fst r1)) (snd (fst r2)).
  Proof.
    destruct ela as [el lg]. unfold amelem_matrices. cbv zeta.
    destruct (shape_same el lg) as [<- <-]. destruct (geom_same el) as [<- <-].
    destruct (rn_same el) as [<- <-]. destruct (zn_same el) as [<- <-].
    destruct (ael_shape RA P el lg) as [[Mx My] Mxy].
    pose proof (amixed_fold_lin (mel_geom RA P el) (el_rn RA P el) el (repeat (azero RA) 9)
                  (repeat (azero RA) 3) (repeat (azero RA) 3) eq_refl) as G. cbv zeta in G.
    replace (vlin a b (repeat (azero RA) 3) (repeat (azero RA) 3)) with (repeat (azero RA) 3) in G
      by (symmetry; apply (vlin_repeat0 a b 3)).
    destruct G as (E1 & E2 & EL & E3).
    destruct (fold_left (amixed_step RA P1 (mel_geom RA P el) (el_rn RA P el) el) [0%nat; 1%nat; 2%nat]
                        (repeat (azero RA) 9, repeat (azero RA) 3)) as [Ma ba].
    destruct (fold_left (amixed_step RA P2 (mel_geom RA P el) (el_rn RA P el) el) [0%nat; 1%nat; 2%nat]
                        (repeat (azero RA) 9, repeat (azero RA) 3)) as [Mb bb].
    destruct (fold_left (amixed_step RA P (mel_geom RA P el) (el_rn RA P el) el) [0%nat; 1%nat; 2%nat]
                        (repeat (azero RA) 9, repeat (azero RA) 3)) as [Mc bc].
    cbn [fst snd] in E1, E2, EL, E3. subst Ma Mb bc.
    destruct (ael_mu_same extRo extRi extZo el (gr (mel_geom RA P el)) (el_zn RA P el)) as [<- <-].
    destruct (ael_mu RA AP extRo extRi extZo el (gr (mel_geom RA P el)) (el_zn RA P el)) as [mu1 mu2].
    cbn [fst snd]. split; [reflexivity|]. split; [reflexivity|]. split; [reflexivity|]. split; [reflexivity|].
    rewrite (acirc_t_lin el (gr (mel_geom RA P el))).
    destruct (xl_block _ _ _ _ _ X (mblk el)) as (_ & _ & _ & _ & _ & _ & _ & _ & _ & _ & HJ & _). cbv zeta in HJ.
    rewrite HJ. ra_simpl.
    set (t1 := acirc_t RA P1 res1 el (gr (mel_geom RA P el))). set (t2 := acirc_t RA P2 res2 el (gr (mel_geom RA P el))).
    set (J1 := bJre (nth (mblk el) (mblocks P1) (dmblock RA))). set (J2 := bJre (nth (mblk el) (mblocks P2) (dmblock RA))).
    replace (- (2) * gr (mel_geom RA P el) * (a * J1 + b * J2 + (a * t1 + b * t2)) * ga (mel_geom RA P el) / 3)
      with (a * (- (2) * gr (mel_geom RA P el) * (J1 + t1) * ga (mel_geom RA P el) / 3)
            + b * (- (2) * gr (mel_geom RA P el) * (J2 + t2) * ga (mel_geom RA P el) / 3)) by (unfold Rdiv; ring).
    rewrite v3add_vlin by exact EL. rewrite v3add_vlin by (rewrite !v3add_length; exact EL).
    rewrite v3add_vlin by (rewrite !v3add_length; exact EL).
    cbn [fold_left].
    match goal with |- context [amagnet_step RA P ?rn ?zn el (vlin a b ?x ?y) 0] =>
      destruct (amagnet_step_lin rn zn el x y 0%nat) as [G0 L0]; [rewrite !v3add_length; exact EL|]; rewrite G0 end.
    match goal with |- context [amagnet_step RA P ?rn ?zn el (vlin a b ?x ?y) 1] =>
      destruct (amagnet_step_lin rn zn el x y 1%nat L0) as [G1 L1]; rewrite G1 end.
    match goal with |- context [amagnet_step RA P ?rn ?zn el (vlin a b ?x ?y) 2] =>
      destruct (amagnet_step_lin rn zn el x y 2%nat L1) as [G2 L2]; rewrite G2 end.
    split; [exact L2 | reflexivity].
  Qed.

  (* ---- scatter and element loop ---- *)
  Lemma ascatter_lin n Me (be1 be2 : vecT R) M (b1 b2 : vecT R) : length be1 = length be2 -> length b1 = length b2 ->
    let r1 := ascatter RA n Me be1 M b1 in let r2 := ascatter RA n Me be2 M b2 in
    let r := ascatter RA n Me (vlin a b be1 be2) M (vlin a b b1 b2) in
    fst r = fst r1 /\ fst r = fst r2 /\ length (snd r1) = length (snd r2) /\ snd r = vlin a b (snd r1) (snd r2).
  Proof.
    intros He Hb. unfold ascatter. cbn [fold_left fst snd]. ra_simpl.
    rewrite !(vget_vlin a b be1 be2) by exact He.
    rewrite vsub_vlin by exact Hb.
    rewrite vsub_vlin by (rewrite !vset_length; exact Hb).
    rewrite vsub_vlin by (rewrite !vset_length; exact Hb).
    repeat split; auto. rewrite !vset_length. exact Hb.
  Qed.

  Lemma amelem_step_lin M (b1 b2 : vecT R) ela : length b1 = length b2 ->
    let r1 := amelem_step RA AP1 extRo extRi extZo res1 (M, b1) ela in
    let r2 := amelem_step RA AP2 extRo extRi extZo res2 (M, b2) ela in
    let r := amelem_step RA AP extRo extRi extZo res (M, vlin a b b1 b2) ela in
    fst r = fst r1 /\ fst r = fst r2 /\ length (snd r1) = length (snd r2) /\ snd r = vlin a b (snd r1) (snd r2).
  Proof.
    intros Hb. unfold amelem_step.
    destruct (amelem_matrices_lin ela) as (E1 & E2 & _ & _ & EL & E3).
    destruct (amelem_matrices RA AP1 extRo extRi extZo res1 ela) as [[Ma ba] mua].
    destruct (amelem_matrices RA AP2 extRo extRi extZo res2 ela) as [[Mb bb] mub].
    destruct (amelem_matrices RA AP extRo extRi extZo res ela) as [[Mc bc] muc].
    cbn [fst snd] in *. subst Ma Mb bc.
    apply ascatter_lin; assumption.
  Qed.

  Lemma aloop_lin : forall (els : list (elemR * alogsR)) M (b1 b2 : vecT R), length b1 = length b2 ->
    let r1 := fold_left (amelem_step RA AP1 extRo extRi extZo res1) els (M, b1) in
    let r2 := fold_left (amelem_step RA AP2 extRo extRi extZo res2) els (M, b2) in
    let r := fold_left (amelem_step RA AP extRo extRi extZo res) els (M, vlin a b b1 b2) in
    fst r = fst r1 /\ fst r = fst r2 /\ length (snd r1) = length (snd r2) /\ snd r = vlin a b (snd r1) (snd r2).
  Proof.
    induction els as [|ela els IH]; intros M b1 b2 Hb; [cbn; repeat split; auto|].
    cbn [fold_left].
    destruct (amelem_step_lin M b1 b2 ela Hb) as (E1 & E2 & EL & E3).
    destruct (amelem_step RA AP1 extRo extRi extZo res1 (M, b1) ela) as [Ma ba].
    destruct (amelem_step RA AP2 extRo extRi extZo res2 (M, b2) ela) as [Mb bb].
    destruct (amelem_step RA AP extRo extRi extZo res (M, vlin a b b1 b2) ela) as [Mc bc].
    cbn [fst snd] in *. subst Ma Mb bc. apply IH. exact EL.
  Qed.

  (* ---- point currents ---- *)
  Lemma apoint_currents_lin (b1 b2 : vecT R) : length b1 = length b2 ->
    apoint_currents RA P (vlin a b b1 b2) = vlin a b (apoint_currents RA P1 b1) (apoint_currents RA P2 b2) /\
    length (apoint_currents RA P1 b1) = length (apoint_currents RA P2 b2).
  Proof.
    unfold apoint_currents. rewrite <- (xl_nodes1 _ _ _ _ _ X), <- (xl_nodes2 _ _ _ _ _ X).
    generalize (combine (seq 0 (length (mnodes P))) (mnodes P)). intros l. revert b1 b2.
    induction l as [|[i nd] l IH]; intros b1 b2 Hb; [cbn; auto|].
    cbn [fold_left fst snd]. destruct (mbm nd) as [m|]; [|apply IH; exact Hb].
    destruct (xl_point _ _ _ _ _ X m) as (_ & _ & HJ & _). cbv zeta in HJ. rewrite HJ. ra_simpl.
    match goal with |- context [vset (vlin a b b1 b2) i (_ + ?K)] =>
      replace K with (a * (e2 RA * pJre (nth m (mpoints P1) (dmpoint RA)) * 2 * mx nd)
                      + b * (e2 RA * pJre (nth m (mpoints P2) (dmpoint RA)) * 2 * mx nd)) by ring end.
    rewrite vadd_vlin by exact Hb. apply IH. rewrite !vset_length. exact Hb.
  Qed.

  (* ---- prescribed values ---- *)
  Lemma afixed_points_lin L1 L2 L : lin3 a b L1 L2 L ->
    lin3 a b (afixed_points RA P1 L1) (afixed_points RA P2 L2) (afixed_points RA P L).
  Proof.
    unfold afixed_points. rewrite <- (xl_nodes1 _ _ _ _ _ X), <- (xl_nodes2 _ _ _ _ _ X).
    destruct atol_same as [<- <-].
    generalize (combine (seq 0 (length (mnodes P))) (mnodes P)). intros l. revert L1 L2 L.
    induction l as [|[i nd] l IH]; intros L1 L2 L HL; [exact HL|].
    cbn [fold_left fst snd].
    destruct (altb RA (aabs RA (mx nd)) (atol RA P)).
    - apply IH. replace (azero RA) with (a * azero RA + b * azero RA) at 3 by (ra_simpl; ring).
      apply setvalue_lin3. exact HL.
    - destruct (mbm nd) as [m|]; [|apply IH; exact HL].
      destruct (xl_point _ _ _ _ _ X m) as (F1 & F2 & _ & HA). cbv zeta in F1, F2, HA. unfold pfix in F1, F2.
      rewrite <- F1, <- F2.
      destruct (aeqb RA (pJre (nth m (mpoints P) (dmpoint RA))) (azero RA) && aeqb RA (pJim (nth m (mpoints P) (dmpoint RA))) (azero RA))%bool;
        [|apply IH; exact HL].
      apply IH. rewrite HA. ra_simpl.
      replace ((a * pAre (nth m (mpoints P1) (dmpoint RA)) + b * pAre (nth m (mpoints P2) (dmpoint RA))) / c4pi RA)
        with (a * (pAre (nth m (mpoints P1) (dmpoint RA)) / c4pi RA) + b * (pAre (nth m (mpoints P2) (dmpoint RA)) / c4pi RA))
        by (unfold Rdiv; ring).
      apply setvalue_lin3. exact HL.
  Qed.

  Lemma aseg_set_lin s L1 L2 L p : lin3 a b L1 L2 L ->
    lin3 a b (aseg_set RA P1 (nth s (mlines P1) (dmline RA)) L1 p) (aseg_set RA P2 (nth s (mlines P2) (dmline RA)) L2 p)
             (aseg_set RA P (nth s (mlines P) (dmline RA)) L p).
  Proof.
    intros HL. unfold aseg_set. rewrite <- (xl_nodes1 _ _ _ _ _ X), <- (xl_nodes2 _ _ _ _ _ X).
    destruct aunit_same as [<- <-].
    match goal with |- context [if ?c then _ else _] => destruct c end; [|exact HL].
    destruct (xl_line _ _ _ _ _ X s) as (_ & _ & _ & _ & C1 & C2 & H0 & H1 & H2 & _). cbv zeta in C1, C2, H0, H1, H2.
    unfold seg_value. rewrite <- (xl_unit1 _ _ _ _ _ X), <- (xl_unit2 _ _ _ _ _ X), <- C1, <- C2, H0, H1, H2. ra_simpl.
    match goal with |- lin3 a b (setvalue RA L1 p ?x1) (setvalue RA L2 p ?x2) (setvalue RA L p ?x) =>
      replace x with (a * x1 + b * x2) by (unfold Rdiv; ring) end.
    apply setvalue_lin3. exact HL.
  Qed.

  Lemma afixed_segments_lin L1 L2 L : lin3 a b L1 L2 L ->
    lin3 a b (afixed_segments RA P1 L1) (afixed_segments RA P2 L2) (afixed_segments RA P L).
  Proof.
    unfold afixed_segments. rewrite <- (xl_elems1 _ _ _ _ _ X), <- (xl_elems2 _ _ _ _ _ X).
    generalize (melems P). intros els. revert L1 L2 L.
    induction els as [|el els IH]; intros L1 L2 L HL; [exact HL|].
    cbn [fold_left]. apply IH.
    assert (G : forall j L1 L2 L, lin3 a b L1 L2 L ->
      lin3 a b
        (match tri_get (me el) j with
         | Some s => let lp := nth s (mlines P1) (dmline RA) in
                     if Nat.eqb (mlfmt lp) 0 then aseg_set RA P1 lp (aseg_set RA P1 lp L1 (tri_get (mp el) j)) (tri_get (mp el) (nxt j)) else L1
         | None => L1 end)
        (match tri_get (me el) j with
         | Some s => let lp := nth s (mlines P2) (dmline RA) in
                     if Nat.eqb (mlfmt lp) 0 then aseg_set RA P2 lp (aseg_set RA P2 lp L2 (tri_get (mp el) j)) (tri_get (mp el) (nxt j)) else L2
         | None => L2 end)
        (match tri_get (me el) j with
         | Some s => let lp := nth s (mlines P) (dmline RA) in
                     if Nat.eqb (mlfmt lp) 0 then aseg_set RA P lp (aseg_set RA P lp L (tri_get (mp el) j)) (tri_get (mp el) (nxt j)) else L
         | None => L end)).
    { intros j K1 K2 K HK. destruct (tri_get (me el) j) as [s|]; [|exact HK]. cbv zeta.
      destruct (xl_line _ _ _ _ _ X s) as (F1 & F2 & _). cbv zeta in F1, F2. rewrite <- F1, <- F2.
      destruct (Nat.eqb (mlfmt (nth s (mlines P) (dmline RA))) 0); [|exact HK].
      apply aseg_set_lin. apply aseg_set_lin. exact HK. }
    apply G. apply G. apply G. exact HL.
  Qed.

  Lemma mapply_pbcs_lin L1 L2 L : lin3 a b L1 L2 L ->
    lin3 a b (mapply_pbcs RA P1 L1) (mapply_pbcs RA P2 L2) (mapply_pbcs RA P L).
  Proof.
    unfold mapply_pbcs. rewrite <- (xl_pbcs1 _ _ _ _ _ X), <- (xl_pbcs2 _ _ _ _ _ X).
    generalize (mpbcs P). intros l. revert L1 L2 L.
    induction l as [|[[x y] t] l IH]; intros L1 L2 L HL; [exact HL|].
    cbn [fold_left]. apply IH.
    destruct (Nat.eqb t 0); destruct (Nat.eqb t 1);
      repeat first [apply antiperiodicity_lin3 | apply periodicity_lin3]; exact HL.
  Qed.
End Linear.

(* ---- the whole assembly ---- *)
Section Whole.
  Variables (a b : R) (AP1 AP2 AP : aprobR) (bw : nat) (prec : R).
  Hypothesis X : exc_lin a b AP1 AP2 AP.

  (* C11: the matrix handed to the linear solver is the same for the three problems and the right-hand
     side of the combined excitation is the combination of the right-hand sides *)
  Theorem asmMAxi_linear :
    lin3 a b (fst (asmMAxi RA AP1 bw prec)) (fst (asmMAxi RA AP2 bw prec)) (fst (asmMAxi RA AP bw prec)).
  Proof.
    unfold asmMAxi. cbn [fst].
    apply (mapply_pbcs_lin a b AP1 AP2 AP X). apply (afixed_segments_lin a b AP1 AP2 AP X).
    apply (afixed_points_lin a b AP1 AP2 AP X).
    unfold asmMAxi_raw.
    rewrite <- (xl_nodes1 _ _ _ _ _ X), <- (xl_nodes2 _ _ _ _ _ X), <- (xl_elems1 _ _ _ _ _ X), <- (xl_elems2 _ _ _ _ _ X).
    rewrite <- (xl_alg1 _ _ _ _ _ X), <- (xl_alg2 _ _ _ _ _ X).
    rewrite <- (xl_Ro1 _ _ _ _ _ X), <- (xl_Ro2 _ _ _ _ _ X), <- (xl_Ri1 _ _ _ _ _ X), <- (xl_Ri2 _ _ _ _ _ X).
    rewrite <- (xl_Zo1 _ _ _ _ _ X), <- (xl_Zo2 _ _ _ _ _ X).
    destruct (aunit_same a b AP1 AP2 AP X) as [<- <-].
    set (nn := length (mnodes (ap AP))).
    pose proof (aloop_lin a b AP1 AP2 AP X (aRo_raw AP * aunit RA (ap AP)) (aRi_raw AP * aunit RA (ap AP))
                  (aZo_raw AP * aunit RA (ap AP)) _ _ _ (acirc_results_lin a b AP1 AP2 AP X)
                  (combine (melems (ap AP)) (alg AP)) (mcreate RA nn) (vzero RA nn) (vzero RA nn) eq_refl) as G.
    cbv zeta in G. unfold vzero in G. ra_simpl. rewrite (vlin_repeat0 a b nn) in G.
    destruct G as (E1 & E2 & EL & E3).
    unfold lcreate. cbn [lM lb]. unfold vzero. ra_simpl.
    destruct (fold_left (amelem_step RA AP1 _ _ _ _) _ _) as [Ma ba].
    destruct (fold_left (amelem_step RA AP2 _ _ _ _) _ _) as [Mb bb].
    destruct (fold_left (amelem_step RA AP _ _ _ _) _ _) as [Mc bc].
    cbn [fst snd] in *. subst Ma Mb bc.
    destruct (apoint_currents_lin a b AP1 AP2 AP X ba bb EL) as [G1 G2].
    unfold lin3, lwithMb. cbn [ln lbdw lM lb]. repeat split; auto.
  Qed.

  (* read off: matrix entries equal, right-hand side entries combined *)
  Corollary asmMAxi_matrix_independent_rhs_linear :
    let L1 := fst (asmMAxi RA AP1 bw prec) in let L2 := fst (asmMAxi RA AP2 bw prec) in
    let L := fst (asmMAxi RA AP bw prec) in
    lM L = lM L1 /\ lM L = lM L2 /\ forall i, vgetR (lb L) i = a * vgetR (lb L1) i + b * vgetR (lb L2) i.
  Proof.
    destruct asmMAxi_linear as (_ & _ & _ & _ & M1 & M2 & HL & Hb). cbv zeta.
    split; [exact M1|]. split; [exact M2|]. intros i. rewrite Hb. apply vget_vlin. exact HL.
  Qed.
End Whole.

(* zero excitation: every entry of the right-hand side is zero *)
Theorem asmMAxi_zero_excitation (AP : aprobR) (bw : nat) (prec : R) :
  exc_lin 0 0 AP AP AP -> forall i, vgetR (lb (fst (asmMAxi RA AP bw prec))) i = 0.
Proof.
  intros X i. destruct (asmMAxi_matrix_independent_rhs_linear 0 0 AP AP AP bw prec X) as (_ & _ & H).
  rewrite (H i). ring.
Qed.
