(* FaultExceptions.v — C20: rows of gen/FaultTable.v (tool, step) that are KNOWN to break the
   property on the current /repo.  Hand-maintained and committed; the check never writes it.

   The Coq build fails (FaultsProofs.v: check_all_ok / exceptions_fail_ok) when this list and the
   regenerated table disagree in either direction:
     - a row of the table breaks the property and is not listed here   (new defect / regression),
     - a row listed here no longer decides any failing run              (defect repaired: delete it).
   ./check C20 prints the list the current table calls for ("exceptions_expected" in
   evidence/C20.json).  When every defect below is repaired in /repo this list is [] and
   Properties_C20.C20_full_when_no_exceptions is the property at full strength.

   D2   hsolver.cpp:runSolver drops LoadPrev()'s error; Tprev stays null and is dereferenced.
   F2   hsolver.cpp:runSolver `return 6` (a true bool) when WriteResults fails: exit status 0
        without a solution file.
   F3   esolver.cpp / hsolver.cpp LoadMesh, fsolver.cpp LoadMeshElementsFromSolution: labellist[elm.lbl]
        is indexed without a range test (fsolver's LoadMesh has one): a problem without block
        labels (and, with a previous solution, a region without block label) is read out of bounds.
   F4   writepoly.cpp:DoPeriodicBCTriangulation drops the result of writeTriangulationFiles and
        reads the .edge/.ele files back: with an unwritable directory it parses whatever stale
        mesh files are there. *)
From Coq Require Import List String.
From XF Require Import Faults.
Import ListNotations.
Local Open Scope string_scope.

(* all four defects (D2, F2, F3, F4) were repaired in /repo (commits 39a4f46, 7d12a23, 34f9995, 7f13438) *)
Definition exceptions : list exc := [].
