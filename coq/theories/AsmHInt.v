(* AsmHInt.v — the edge integrals behind the boundary terms of HSolver::AnalyzeProblem
   (Riemann integrals, Coquelicot).  Along an edge from node j to node k, parametrised by
   t in [0,1], the linear shape functions are phi_j = 1-t, phi_k = t and, in axisymmetric
   problems, the radius is r(t) = xj(1-t) + xk t.  The weights used by the solver,
     (3xj+xk)/4, (xj+3xk)/4, (xj+xk)/2 (times l/6 resp. 2l/6)  and  (2xj+xk)/3, (xj+2xk)/3 (times l/2),
   are the exact integrals of r phi_a phi_b and r phi_a; the planar weights are the case r = 1. *)
From Coq Require Import Reals Lra ssreflect.
Set Warnings "-ambiguous-paths".
From Coquelicot Require Import Coquelicot.
Local Open Scope R_scope.

Lemma poly_RInt (f F : R -> R) (v : R) :
  (forall t, is_derive F t (f t)) -> (forall t, continuous f t) -> F 1 - F 0 = v -> is_RInt f 0 1 v.
Proof.
  intros HD HC <-. apply (is_RInt_derive F f 0 1).
  - intros x _. apply HD.
  - intros x _. apply HC.
Qed.

Definition rlin (xj xk t : R) : R := xj * (1 - t) + xk * t.
Definition phi_j (t : R) : R := 1 - t.
Definition phi_k (t : R) : R := t.

Lemma int_r_jj xj xk : is_RInt (fun t => rlin xj xk t * phi_j t * phi_j t) 0 1 ((3 * xj + xk) / 12).
Proof.
  apply (poly_RInt _ (fun t => xj * (t - 3*t^2/2 + t^3 - t^4/4) + xk * (t^2/2 - 2*t^3/3 + t^4/4))).
  - intros t. unfold rlin, phi_j. auto_derive; [exact I|]. field.
  - intros t. unfold rlin, phi_j. apply: ex_derive_continuous. auto_derive. exact I.
  - field.
Qed.

Lemma int_r_kk xj xk : is_RInt (fun t => rlin xj xk t * phi_k t * phi_k t) 0 1 ((xj + 3 * xk) / 12).
Proof.
  apply (poly_RInt _ (fun t => xj * (t^3/3 - t^4/4) + xk * (t^4/4))).
  - intros t. unfold rlin, phi_k. auto_derive; [exact I|]. field.
  - intros t. unfold rlin, phi_k. apply: ex_derive_continuous. auto_derive. exact I.
  - field.
Qed.

Lemma int_r_jk xj xk : is_RInt (fun t => rlin xj xk t * phi_j t * phi_k t) 0 1 ((xj + xk) / 12).
Proof.
  apply (poly_RInt _ (fun t => xj * (t^2/2 - 2*t^3/3 + t^4/4) + xk * (t^3/3 - t^4/4))).
  - intros t. unfold rlin, phi_j, phi_k. auto_derive; [exact I|]. field.
  - intros t. unfold rlin, phi_j, phi_k. apply: ex_derive_continuous. auto_derive. exact I.
  - field.
Qed.

Lemma int_r_j xj xk : is_RInt (fun t => rlin xj xk t * phi_j t) 0 1 ((2 * xj + xk) / 6).
Proof.
  apply (poly_RInt _ (fun t => xj * (t - t^2 + t^3/3) + xk * (t^2/2 - t^3/3))).
  - intros t. unfold rlin, phi_j. auto_derive; [exact I|]. field.
  - intros t. unfold rlin, phi_j. apply: ex_derive_continuous. auto_derive. exact I.
  - field.
Qed.

Lemma int_r_k xj xk : is_RInt (fun t => rlin xj xk t * phi_k t) 0 1 ((xj + 2 * xk) / 6).
Proof.
  apply (poly_RInt _ (fun t => xj * (t^2/2 - t^3/3) + xk * (t^3/3))).
  - intros t. unfold rlin, phi_k. auto_derive; [exact I|]. field.
  - intros t. unfold rlin, phi_k. apply: ex_derive_continuous. auto_derive. exact I.
  - field.
Qed.

(* a linear temperature T(t) = Tj(1-t) + Tk t against a shape function: the edge "mass" rows *)
Lemma int_T_j Tj Tk : is_RInt (fun t => (Tj * phi_j t + Tk * phi_k t) * phi_j t) 0 1 ((2 * Tj + Tk) / 6).
Proof.
  apply (poly_RInt _ (fun t => Tj * (t - t^2 + t^3/3) + Tk * (t^2/2 - t^3/3))).
  - intros t. unfold phi_j, phi_k. auto_derive; [exact I|]. field.
  - intros t. unfold phi_j, phi_k. apply: ex_derive_continuous. auto_derive. exact I.
  - field.
Qed.

Lemma int_T_k Tj Tk : is_RInt (fun t => (Tj * phi_j t + Tk * phi_k t) * phi_k t) 0 1 ((Tj + 2 * Tk) / 6).
Proof.
  apply (poly_RInt _ (fun t => Tj * (t^2/2 - t^3/3) + Tk * (t^3/3))).
  - intros t. unfold phi_j, phi_k. auto_derive; [exact I|]. field.
  - intros t. unfold phi_j, phi_k. apply: ex_derive_continuous. auto_derive. exact I.
  - field.
Qed.
