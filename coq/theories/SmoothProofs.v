(* SmoothProofs.v — lemmas about the smoothing model (Smooth.v), real-number reading.  Statements: Properties_XSMOOTH.v *)
From Coq Require Import ZArith List Bool Arith Lia Reals Lra.
From XF Require Import Arith Sparse AsmE KT Integrals IntegralsE IntegralsEProofs IntegralsH IntegralsHProofs IntegralsM
                       PointVals PointValsProofs Smooth.
Import ListNotations.
Local Open Scope R_scope.

(* ---------------------------------------------------------------------------------------------- *)
(* (a) the smoothed field inside an element: interpolation of the three nodal values                *)
(* ---------------------------------------------------------------------------------------------- *)
Lemma cx_eq (a b : R * R) : fst a = fst b -> snd a = snd b -> a = b.
Proof. destruct a, b; cbn; intros; subst; reflexivity. Qed.

Lemma interp_c_nodal x0 y0 x1 y1 x2 y2 (d0 d1 d2 : R * R) :
  da_r x0 y0 x1 y1 x2 y2 <> 0 ->
  let s := shape RA x0 y0 x1 y1 x2 y2 in
  interp_c RA s d0 d1 d2 x0 y0 = d0 /\ interp_c RA s d0 d1 d2 x1 y1 = d1 /\ interp_c RA s d0 d1 d2 x2 y2 = d2.
Proof.
  intros H s.
  destruct (interp_r_nodal x0 y0 x1 y1 x2 y2 (fst d0) (fst d1) (fst d2) H) as (A0 & A1 & A2).
  destruct (interp_r_nodal x0 y0 x1 y1 x2 y2 (snd d0) (snd d1) (snd d2) H) as (B0 & B1 & B2).
  repeat split; apply cx_eq;
    first [rewrite (proj1 (interp_c_components _ _ _ _ _ _)) | rewrite (proj2 (interp_c_components _ _ _ _ _ _))]; assumption.
Qed.

Lemma interp_c_barycentric x0 y0 x1 y1 x2 y2 (d0 d1 d2 : R * R) x y :
  da_r x0 y0 x1 y1 x2 y2 <> 0 ->
  let s := shape RA x0 y0 x1 y1 x2 y2 in
  let L := fun i => wgt RA s i x y / sda s in
  L 0%nat + L 1%nat + L 2%nat = 1 /\
  interp_c RA s d0 d1 d2 x y = (fst d0 * L 0%nat + fst d1 * L 1%nat + fst d2 * L 2%nat,
                                snd d0 * L 0%nat + snd d1 * L 1%nat + snd d2 * L 2%nat).
Proof.
  intros H s L.
  destruct (interp_r_barycentric x0 y0 x1 y1 x2 y2 (fst d0) (fst d1) (fst d2) x y H) as (S1 & A).
  destruct (interp_r_barycentric x0 y0 x1 y1 x2 y2 (snd d0) (snd d1) (snd d2) x y H) as (_ & B).
  split; [exact S1|].
  apply cx_eq; cbn [fst snd].
  - rewrite (proj1 (interp_c_components _ _ _ _ _ _)). exact A.
  - rewrite (proj2 (interp_c_components _ _ _ _ _ _)). exact B.
Qed.

Lemma interp_c_continuous xp yp xq yq (dp dq : R * R) xs ys ds xs' ys' ds' t :
  da_r xp yp xq yq xs ys <> 0 -> da_r xq yq xp yp xs' ys' <> 0 ->
  let x := (1 - t) * xp + t * xq in let y := (1 - t) * yp + t * yq in
  interp_c RA (shape RA xp yp xq yq xs ys) dp dq ds x y = interp_c RA (shape RA xq yq xp yp xs' ys') dq dp ds' x y.
Proof.
  intros H H' x y. apply cx_eq.
  - rewrite !(proj1 (interp_c_components _ _ _ _ _ _)). apply interp_r_continuous; assumption.
  - rewrite !(proj2 (interp_c_components _ _ _ _ _ _)). apply interp_r_continuous; assumption.
Qed.

Lemma interp_c_const x0 y0 x1 y1 x2 y2 (d : R * R) x y :
  da_r x0 y0 x1 y1 x2 y2 <> 0 -> interp_c RA (shape RA x0 y0 x1 y1 x2 y2) d d d x y = d.
Proof.
  intros H.
  pose proof (interp_r_affine x0 y0 x1 y1 x2 y2 (fst d) 0 0 x y H) as A.
  pose proof (interp_r_affine x0 y0 x1 y1 x2 y2 (snd d) 0 0 x y H) as B.
  replace (fst d + 0 * x0 + 0 * y0) with (fst d) in A by ring. replace (fst d + 0 * x1 + 0 * y1) with (fst d) in A by ring.
  replace (fst d + 0 * x2 + 0 * y2) with (fst d) in A by ring. replace (fst d + 0 * x + 0 * y) with (fst d) in A by ring.
  replace (snd d + 0 * x0 + 0 * y0) with (snd d) in B by ring. replace (snd d + 0 * x1 + 0 * y1) with (snd d) in B by ring.
  replace (snd d + 0 * x2 + 0 * y2) with (snd d) in B by ring. replace (snd d + 0 * x + 0 * y) with (snd d) in B by ring.
  apply cx_eq.
  - rewrite (proj1 (interp_c_components _ _ _ _ _ _)). exact A.
  - rewrite (proj2 (interp_c_components _ _ _ _ _ _)). exact B.
Qed.

(* ---------------------------------------------------------------------------------------------- *)
(* (b) the plane fit is exact on affine data                                                        *)
(* ---------------------------------------------------------------------------------------------- *)
Section Fit.
  Variable nodes : list (ie_node (F:=R)).
  Variables al be ga : R.
  Definition affine_at (k : nat) : Prop :=
    ie_V (node_at RA nodes k) = al + be * ie_x (node_at RA nodes k) + ga * ie_y (node_at RA nodes k).

  Definition fs_inv (s : fsum (F:=R)) : Prop :=
    s_iv s = - (be * s_xi s + ga * s_yi s) /\
    s_xv s = - (be * s_xx s + ga * s_xy s) /\
    s_yv s = - (be * s_xy s + ga * s_yy s).

  Lemma fs_step_inv j s k : affine_at j -> affine_at k -> fs_inv s -> fs_inv (fs_step RA nodes j s k).
  Proof.
    unfold affine_at, fs_inv, fs_step. intros Hj Hk (A & B & C). cbn [s_iv s_xv s_yv s_xi s_yi s_xx s_xy s_yy]. ra_simpl.
    rewrite A, B, C, Hj, Hk. repeat split; ring.
  Qed.

  Lemma fs_fold_inv j l : affine_at j -> (forall k, In k l -> affine_at k) ->
    forall s, fs_inv s -> fs_inv (fold_left (fs_step RA nodes j) l s).
  Proof.
    intros Hj. induction l as [|k l IH]; intros Hl s Hs; cbn [fold_left]; [exact Hs|].
    apply IH; [intros k' Hk'; apply Hl; right; exact Hk'|].
    apply fs_step_inv; [exact Hj|apply Hl; left; reflexivity|exact Hs].
  Qed.

  Lemma fs0_inv : fs_inv (fs0 RA).
  Proof. unfold fs_inv, fs0. cbn. ra_simpl. repeat split; ring. Qed.

  Lemma nodal_fit_affine j q lc Ex Ey :
    (forall k, In k (q ++ [j]) -> affine_at k) ->
    nodal_fit RA nodes j q lc = Some (Ex, Ey) ->
    Ex = - be / lc /\ Ey = - ga / lc.
  Proof.
    intros Hq. unfold nodal_fit. cbv zeta.
    assert (Hj : affine_at j) by (apply Hq, in_or_app; right; left; reflexivity).
    pose proof (fs_fold_inv j (q ++ [j]) Hj Hq (fs0 RA) fs0_inv) as Hinv.
    unfold fs_sums. set (s := fold_left (fs_step RA nodes j) (q ++ [j]) (fs0 RA)) in *.
    destruct s as [ii xi yi xx xy yy iv xv yv]. unfold fs_inv in Hinv. cbn [s_iv s_xv s_yv s_xi s_yi s_xx s_xy s_yy] in Hinv.
    destruct Hinv as (A & B & C). unfold fs_det, fs_Ex, fs_Ey. ra_simpl.
    destruct (Reqb _ 0) eqn:E; [discriminate|]. apply Reqb_false in E.
    intros H. injection H as H1 H2. subst Ex Ey. subst iv xv yv.
    set (d0 := - (ii * xy * xy) + 2 * xi * xy * yi - xx * yi * yi - xi * xi * yy + ii * xx * yy) in *.
    assert (Hd : d0 <> 0) by (intros Z; apply E; rewrite Z; ring).
    assert (Hl : lc <> 0) by (intros Z; apply E; rewrite Z; ring).
    split.
    - replace (- (be * xi + ga * yi) * xy * yi - - (be * xx + ga * xy) * yi * yi - ii * xy * - (be * xy + ga * yy)
               + xi * yi * - (be * xy + ga * yy) - - (be * xi + ga * yi) * xi * yy + ii * - (be * xx + ga * xy) * yy)
        with (- be * d0) by (unfold d0; ring).
      field. split; assumption.
    - replace (- (be * xi + ga * yi) * xi * xy - ii * - (be * xx + ga * xy) * xy + xi * - (be * xx + ga * xy) * yi
               - - (be * xi + ga * yi) * xx * yi - xi * xi * - (be * xy + ga * yy) + ii * xx * - (be * xy + ga * yy))
        with (- ga * d0) by (unfold d0; ring).
      field. split; assumption.
  Qed.
End Fit.

(* ---- the element's own field for an affine potential ---- *)
Section ExactE.
  Variable P : ie_prob (F:=R).
  Variable X : sm_aux (F:=R).
  Variables al be ga : R.
  Local Notation aff := (affine_at (ie_nodes P) al be ga).

  Lemma ie_nd_node_at el i : ie_nd RA P el i = node_at RA (ie_nodes P) (tri_get (ie_p el) i).
  Proof. reflexivity. Qed.

  Lemma e_grad_affine el :
    aff (tri_get (ie_p el) 0) -> aff (tri_get (ie_p el) 1) -> aff (tri_get (ie_p el) 2) ->
    e_da P el <> 0 -> ie_lc P <> 0 ->
    e_gx P el = - be / ie_lc P /\ e_gy P el = - ga / ie_lc P.
  Proof.
    unfold affine_at. rewrite <- !ie_nd_node_at. intros H0 H1 H2 Hda Hlc.
    unfold e_gx, e_gy. unfold e_v. rewrite H0, H1, H2.
    assert (Hda' := Hda). unfold e_da, e_b, e_c, e_x, e_y in Hda'.
    unfold e_da, e_b, e_c, e_x, e_y. split; field; split; assumption.
  Qed.

  Definition not_exterior (el : ie_elem) : Prop := ie_axi P && nth (ie_lbl el) (ie_label_ext P) false = false.

  Lemma ie_aecf_pt_interior el x y : not_exterior el -> ie_aecf_pt RA P el x y = 1.
  Proof. unfold not_exterior, ie_aecf_pt. intros H. rewrite pp_aecf_pt_R, H. reflexivity. Qed.
  Lemma ie_aecf_interior el : not_exterior el -> ie_aecf RA P el = 1.
  Proof. unfold not_exterior. intros H. rewrite ie_aecf_R. unfold e_ext. rewrite H. reflexivity. Qed.

  Lemma se_fromE_interior el j Ex Ey : not_exterior el ->
    se_fromE RA P el j Ex Ey = (ie_eo P * (Ex * fst (ie_mat RA P el)), ie_eo P * (Ey * snd (ie_mat RA P el))).
  Proof.
    intros H. unfold se_fromE. destruct (ie_mat RA P el) as [ex ey]. cbv zeta. rewrite ie_aecf_pt_interior by exact H.
    unfold cdivr, dplusc, cmuld, ci_times. cbn [fst snd]. ra_simpl. f_equal; field.
  Qed.

  (* the nodal value getNodalD computes is the element's own D when the potential is affine on the patch *)
  Lemma se_nodal_exact N i :
    let el := elem_at (ie_elems P) N in
    let w := se_walk RA P X N i in
    (forall k, In k (w_q w ++ [w_j w]) -> aff k) ->
    aff (tri_get (ie_p el) 0) -> aff (tri_get (ie_p el) 1) -> aff (tri_get (ie_p el) 2) ->
    e_da P el <> 0 -> ie_lc P <> 0 -> not_exterior el ->
    se_nodal RA P X N i = ie_D RA P el.
  Proof.
    intros el w Hq H0 H1 H2 Hda Hlc Hext. unfold se_nodal. fold el. fold w.
    destruct (sm_punt _ _ _ _ _); [reflexivity|].
    destruct (nodal_fit RA (ie_nodes P) (w_j w) (w_q w) (ie_lc P)) as [[Ex Ey]|] eqn:Ef; [|reflexivity].
    destruct (nodal_fit_affine _ _ _ _ _ _ _ _ _ Hq Ef) as (HEx & HEy).
    rewrite se_fromE_interior by exact Hext. rewrite ie_D_R, ie_aecf_interior by exact Hext.
    destruct (e_grad_affine el H0 H1 H2 Hda Hlc) as (Gx & Gy). rewrite Gx, Gy, HEx, HEy.
    unfold e_ex, e_ey. f_equal; field; exact Hlc.
  Qed.
End ExactE.

Section ExactH.
  Variable P : ih_prob (F:=R).
  Variable X : sm_aux (F:=R).
  Variables al be ga : R.
  Local Notation V := (ih_view RA P).
  Local Notation aff := (affine_at (ih_nodes P) al be ga).

  Lemma sh_fromE_interior el j Ex Ey :
    not_exterior V el -> ih_tk (nth (ie_blk el) (ih_mats P) (ih_dmat RA)) = [] ->
    sh_fromE RA false P el j Ex Ey =
    (ih_kx (nth (ie_blk el) (ih_mats P) (ih_dmat RA)) * Ex, ih_ky (nth (ie_blk el) (ih_mats P) (ih_dmat RA)) * Ey).
  Proof.
    intros H Ht. unfold sh_fromE. cbv zeta. rewrite Ht. unfold getk, k_linear, dplusc, cmuld, ci_times. cbn [fst snd]. ra_simpl.
    f_equal; ring.
  Qed.

  Lemma sh_nodal_exact N i :
    let el := elem_at (ih_elems P) N in
    let w := sh_walk RA P X N i in
    (forall k, In k (w_q w ++ [w_j w]) -> aff k) ->
    aff (tri_get (ie_p el) 0) -> aff (tri_get (ie_p el) 1) -> aff (tri_get (ie_p el) 2) ->
    e_da V el <> 0 -> ih_lc P <> 0 -> not_exterior V el ->
    ih_tk (nth (ie_blk el) (ih_mats P) (ih_dmat RA)) = [] ->
    sh_nodal RA false P X N i = ih_D RA P el.
  Proof.
    intros el w Hq H0 H1 H2 Hda Hlc Hext Ht. unfold sh_nodal. fold el. fold w.
    destruct (sm_punt _ _ _ _ _); [reflexivity|].
    destruct (nodal_fit RA (ih_nodes P) (w_j w) (w_q w) (ih_lc P)) as [[Ex Ey]|] eqn:Ef; [|reflexivity].
    destruct (nodal_fit_affine _ _ _ _ _ _ _ _ _ Hq Ef) as (HEx & HEy).
    rewrite sh_fromE_interior by assumption. rewrite ih_D_R. unfold ih_aecf. rewrite (ie_aecf_interior V el Hext).
    destruct (e_grad_affine V al be ga el H0 H1 H2 Hda Hlc) as (Gx & Gy). rewrite Gx, Gy, HEx, HEy.
    unfold h_kx, h_ky. rewrite (ih_kn_linear P el Ht). cbn [fst snd]. change (ie_lc V) with (ih_lc P). f_equal; field; exact Hlc.
  Qed.
End ExactH.

(* ---------------------------------------------------------------------------------------------- *)
(* (c) the walk never leaves the material                                                           *)
(* ---------------------------------------------------------------------------------------------- *)
Section WalkInv.
  Context {F : Type} (A : Arith F).
  Variable nodes : list (ie_node (F:=F)).
  Variable elems : list ie_elem.
  Variable same : nat -> nat -> bool.

  Definition corner_of (n p : nat) : Prop := exists c, (c < 3)%nat /\ tri_get (ie_p (elem_at elems n)) c = p.
  (* every visited element is of the starting element's material and has the node j as a corner; every collected node
     is a corner of a visited element *)
  Definition walk_ok (el : ie_elem) (j : nat) (q vis : list nat) : Prop :=
    Forall (fun n => same (ie_blk el) (ie_blk (elem_at elems n)) = true /\ corner_of n j) vis /\
    Forall (fun p => exists n, In n vis /\ corner_of n p) q.

  Lemma find_pos_corner p j nos : find_pos p j = Some nos -> (nos < 3)%nat /\ tri_get p nos = j.
  Proof.
    destruct p as [[a b] c]. unfold find_pos.
    destruct (Nat.eqb a j) eqn:Ea; [intros H; injection H as <-; apply Nat.eqb_eq in Ea; cbn; split; [lia|exact Ea]|].
    destruct (Nat.eqb b j) eqn:Eb; [intros H; injection H as <-; apply Nat.eqb_eq in Eb; cbn; split; [lia|exact Eb]|].
    destruct (Nat.eqb c j) eqn:Ec; [intros H; injection H as <-; apply Nat.eqb_eq in Ec; cbn; split; [lia|exact Ec]|].
    discriminate.
  Qed.

  Lemma prev3_lt nos : (nos < 3)%nat -> (prev3 nos < 3)%nat.
  Proof. destruct nos as [|[|[|?]]]; cbn; lia. Qed.
  Lemma next3_lt nos : (next3 nos < 3)%nat.
  Proof. destruct nos as [|[|[|?]]]; cbn; lia. Qed.

  Lemma walk_ok_weaken el j q vis n : walk_ok el j q vis ->
    same (ie_blk el) (ie_blk (elem_at elems n)) = true -> corner_of n j -> walk_ok el j q (vis ++ [n]).
  Proof.
    intros (Hv & Hq) Hs Hc. split.
    - apply Forall_app. split; [exact Hv|]. constructor; [split; assumption|constructor].
    - eapply Forall_impl; [|exact Hq]. intros p (n' & Hin & Hc'). exists n'. split; [apply in_or_app; left; exact Hin|exact Hc'].
  Qed.

  Lemma walk_ok_push el j q vis n p : walk_ok el j q (vis ++ [n]) -> corner_of n p ->
    walk_ok el j (if Nat.ltb (length q) 20 then q ++ [p] else q) (vis ++ [n]).
  Proof.
    intros (Hv & Hq) Hc. split; [exact Hv|].
    destruct (Nat.ltb (length q) 20); [|exact Hq].
    apply Forall_app. split; [exact Hq|]. constructor; [|constructor].
    exists n. split; [apply in_or_app; right; left; reflexivity|exact Hc].
  Qed.

  Lemma scan_ok ccw el j cl : forall fuel m q vis q' hit vis',
    walk_ok el j q vis ->
    scan A nodes elems same ccw el j cl fuel m q vis = (q', hit, vis') ->
    walk_ok el j q' vis' /\
    (forall p, hit = Some p -> In p q' \/ (20 <= length q')%nat).
  Proof.
    induction fuel as [|f IH]; intros m q vis q' hit vis' Hok; cbn [scan].
    - intros H; injection H as <- <- <-. split; [exact Hok|intros p Hp; discriminate].
    - cbv zeta.
      destruct (negb (same (ie_blk el) (ie_blk (elem_at elems (nth m cl 0%nat))))) eqn:Es.
      { intros H; injection H as <- <- <-. split; [exact Hok|intros p Hp; discriminate]. }
      apply negb_false_iff in Es.
      destruct (find_pos (ie_p (elem_at elems (nth m cl 0%nat))) j) as [nos|] eqn:Ep.
      2:{ intros H; injection H as <- <- <-. split; [exact Hok|intros p Hp; discriminate]. }
      destruct (find_pos_corner _ _ _ Ep) as (Hn & Hj).
      set (n := nth m cl 0%nat) in *.
      set (p := tri_get (ie_p (elem_at elems n)) (if ccw then prev3 nos else next3 nos)).
      assert (Hcj : corner_of n j) by (exists nos; split; assumption).
      assert (Hcp : corner_of n p).
      { exists (if ccw then prev3 nos else next3 nos). split; [destruct ccw; [apply prev3_lt; exact Hn|apply next3_lt]|reflexivity]. }
      pose proof (walk_ok_push el j q vis n p (walk_ok_weaken el j q vis n Hok Es Hcj) Hcp) as Hok'.
      destruct (both_flagged A nodes j p).
      + intros H; injection H as <- <- <-. split; [exact Hok'|].
        intros p' Hp'. injection Hp' as <-.
        destruct (Nat.ltb (length q) 20) eqn:El.
        * left. apply in_or_app. right. left. reflexivity.
        * right. apply Nat.ltb_ge in El. exact El.
      + intros H. eapply IH; [exact Hok'|exact H].
  Qed.

  Lemma walk_stays_in_material con N i :
    let el := elem_at elems N in
    let w := walk A nodes elems same con N i in
    Forall (fun n => same (ie_blk el) (ie_blk (elem_at elems n)) = true /\ corner_of n (w_j w)) (w_ccw w ++ w_cw w) /\
    Forall (fun p => exists n, In n (w_ccw w ++ w_cw w) /\ corner_of n p) (w_q w).
  Proof.
    intros el w. unfold w, walk. fold el. cbv zeta.
    set (j := tri_get (ie_p el) i). set (cl := nth j con []).
    destruct (scan A nodes elems same true el j cl (length cl) (index_of N cl) [] []) as [[q1 rt] v1] eqn:E1.
    destruct (scan A nodes elems same false el j cl (length cl) (index_of N cl) q1 []) as [[q2 lf] v2] eqn:E2.
    cbn [w_j w_q w_ccw w_cw].
    assert (H0 : walk_ok el j [] []) by (split; constructor).
    destruct (scan_ok _ _ _ _ _ _ _ _ _ _ _ H0 E1) as ((Hv1 & Hq1) & _).
    (* second scan: start from (q1, []) — the q1 part refers to v1, so carry it separately *)
    assert (Hgen : forall fuel m q vis q' hit vis',
              Forall (fun n => same (ie_blk el) (ie_blk (elem_at elems n)) = true /\ corner_of n j) vis ->
              Forall (fun p => exists n, In n (v1 ++ vis) /\ corner_of n p) q ->
              scan A nodes elems same false el j cl fuel m q vis = (q', hit, vis') ->
              Forall (fun n => same (ie_blk el) (ie_blk (elem_at elems n)) = true /\ corner_of n j) vis' /\
              Forall (fun p => exists n, In n (v1 ++ vis') /\ corner_of n p) q').
    { induction fuel as [|f IH]; intros m q vis q' hit vis' Hv Hq; cbn [scan].
      - intros H; injection H as <- <- <-. split; assumption.
      - cbv zeta.
        destruct (negb (same (ie_blk el) (ie_blk (elem_at elems (nth m cl 0%nat))))) eqn:Es.
        { intros H; injection H as <- <- <-. split; assumption. }
        apply negb_false_iff in Es.
        destruct (find_pos (ie_p (elem_at elems (nth m cl 0%nat))) j) as [nos|] eqn:Ep.
        2:{ intros H; injection H as <- <- <-. split; assumption. }
        destruct (find_pos_corner _ _ _ Ep) as (Hn & Hj).
        set (n := nth m cl 0%nat) in *.
        set (p := tri_get (ie_p (elem_at elems n)) (next3 nos)).
        assert (Hv' : Forall (fun n => same (ie_blk el) (ie_blk (elem_at elems n)) = true /\ corner_of n j) (vis ++ [n])).
        { apply Forall_app. split; [exact Hv|]. constructor; [|constructor]. split; [exact Es|exists nos; split; assumption]. }
        assert (Hq' : Forall (fun p => exists n0, In n0 (v1 ++ vis ++ [n]) /\ corner_of n0 p)
                             (if Nat.ltb (length q) 20 then q ++ [p] else q)).
        { assert (Hqw : Forall (fun p => exists n0, In n0 (v1 ++ vis ++ [n]) /\ corner_of n0 p) q).
          { eapply Forall_impl; [|exact Hq]. intros p0 (n0 & Hin & Hc). exists n0. split; [|exact Hc].
            rewrite app_assoc. apply in_or_app. left. exact Hin. }
          destruct (Nat.ltb (length q) 20); [|exact Hqw].
          apply Forall_app. split; [exact Hqw|]. constructor; [|constructor].
          exists n. split; [rewrite app_assoc; apply in_or_app; right; left; reflexivity|].
          exists (next3 nos). split; [apply next3_lt|reflexivity]. }
        destruct (both_flagged A nodes j p).
        + intros H; injection H as <- <- <-. split; assumption.
        + intros H. eapply IH; [exact Hv'|exact Hq'|exact H]. }
    assert (Hq1' : Forall (fun p => exists n, In n (v1 ++ []) /\ corner_of n p) q1) by (rewrite app_nil_r; exact Hq1).
    destruct (Hgen _ _ _ _ _ _ _ (Forall_nil _) Hq1' E2) as (Hv2 & Hq2).
    split; [apply Forall_app; split; assumption|exact Hq2].
  Qed.
End WalkInv.

(* ---------------------------------------------------------------------------------------------- *)
(* isSameMaterialAs                                                                                 *)
(* ---------------------------------------------------------------------------------------------- *)
Lemma Reqb_refl a : Reqb a a = true.
Proof. apply Reqb_true. reflexivity. Qed.
Lemma Reqb_sym a b : Reqb a b = Reqb b a.
Proof.
  destruct (Reqb a b) eqn:E; [apply Reqb_true in E|apply Reqb_false in E]; symmetry; [apply Reqb_true|apply Reqb_false]; congruence.
Qed.

Lemma cs_same_refl (mats : list (R * R)) b : cs_same RA mats b b = true.
Proof. unfold cs_same. rewrite Nat.eqb_refl. reflexivity. Qed.

Lemma cs_same_sym (mats : list (R * R)) b1 b2 : cs_same RA mats b1 b2 = cs_same RA mats b2 b1.
Proof.
  unfold cs_same. rewrite (Nat.eqb_sym b1 b2). destruct (nth b1 mats _) as [e1 f1], (nth b2 mats _) as [e2 f2]. ra_simpl.
  rewrite (Reqb_sym e1 e2), (Reqb_sym f1 f2). reflexivity.
Qed.

Lemma cs_same_iff (mats : list (R * R)) b1 b2 :
  cs_same RA mats b1 b2 = true <-> b1 = b2 \/ nth b1 mats (0, 0) = nth b2 mats (0, 0).
Proof.
  unfold cs_same. ra_simpl. destruct (nth b1 mats _) as [e1 f1], (nth b2 mats _) as [e2 f2].
  rewrite orb_true_iff, andb_true_iff, Nat.eqb_eq, !Reqb_true. split.
  - intros [H|(H1 & H2)]; [left; exact H|right; congruence].
  - intros [H|H]; [left; exact H|right; injection H as -> ->; split; reflexivity].
Qed.

Lemma tk_eqb_iff (a b : list (R * R)) : length a = length b -> (tk_eqb RA a b = true <-> a = b).
Proof.
  revert b. induction a as [|[t1 k1] a IH]; intros [|[t2 k2] b] Hl; cbn in Hl; try discriminate.
  - cbn. split; reflexivity.
  - cbn [tk_eqb]. ra_simpl. injection Hl as Hl.
    destruct (Reqb t1 t2) eqn:Et; [apply Reqb_true in Et|apply Reqb_false in Et]; cbn [negb orb].
    + destruct (Reqb k1 k2) eqn:Ek; [apply Reqb_true in Ek|apply Reqb_false in Ek]; cbn [negb].
      * rewrite (IH b Hl). subst. split; [intros ->; reflexivity|intros H; injection H as ->; reflexivity].
      * split; [discriminate|intros H; injection H as _ H2 _; contradiction].
    + split; [discriminate|intros H; injection H as H1 _ _; contradiction].
Qed.

(* what the two-material comparison decides *)
Definition ch_same_spec (m1 m2 : ih_mat (F:=R)) : Prop :=
  (ih_tk m1 = [] /\ ih_tk m2 = [] /\ ih_kx m1 = ih_kx m2 /\ ih_ky m1 = ih_ky m2) \/
  (ih_tk m1 <> [] /\ ih_tk m1 = ih_tk m2).

Lemma length_zero_iff {T} (l : list T) : Nat.eqb (length l) 0 = true <-> l = [].
Proof. destruct l; cbn; split; try reflexivity; discriminate. Qed.

Lemma ch_same_mat_iff m1 m2 : ch_same_mat RA m1 m2 = true <-> ch_same_spec m1 m2.
Proof.
  unfold ch_same_mat, ch_same_spec. ra_simpl.
  destruct (Reqb (ih_kx m1) (ih_kx m2) && Reqb (ih_ky m1) (ih_ky m2) && Nat.eqb (length (ih_tk m1)) 0 && Nat.eqb (length (ih_tk m2)) 0) eqn:E1.
  - rewrite !andb_true_iff, !Reqb_true, !length_zero_iff in E1. destruct E1 as (((Hx & Hy) & H1) & H2).
    split; [intros _; left; repeat split; assumption|reflexivity].
  - destruct (ih_tk m1) as [|a l1] eqn:T1.
    + cbn [length Nat.ltb Nat.leb]. split; [discriminate|].
      intros [(_ & H2 & Hx & Hy)|(H & _)]; [|contradiction].
      rewrite H2, Hx, Hy, !Reqb_refl in E1. cbn in E1. discriminate.
    + cbn [length Nat.ltb Nat.leb].
      destruct (Nat.eqb (S (length l1)) (length (ih_tk m2))) eqn:El.
      * apply Nat.eqb_eq in El. change (S (length l1)) with (length (a :: l1)) in El.
        rewrite (tk_eqb_iff (a :: l1) (ih_tk m2) El). split.
        -- intros H. right. split; [discriminate|exact H].
        -- intros [(H & _)|(_ & H)]; [discriminate|exact H].
      * apply Nat.eqb_neq in El. split; [discriminate|].
        intros [(H & _)|(_ & H)]; [discriminate|]. rewrite <- H in El. cbn in El. contradiction.
Qed.

Lemma ch_same_spec_refl m : ch_same_spec m m.
Proof. unfold ch_same_spec. destruct (ih_tk m) eqn:E; [left; repeat split; reflexivity|right; split; [discriminate|reflexivity]]. Qed.
Lemma ch_same_spec_sym m1 m2 : ch_same_spec m1 m2 -> ch_same_spec m2 m1.
Proof.
  intros [(A & B & C & D)|(A & B)]; [left; repeat split; congruence|right; split; congruence].
Qed.

Lemma ch_same_refl (mats : list ih_mat) b : ch_same RA mats b b = true.
Proof. unfold ch_same. rewrite Nat.eqb_refl. reflexivity. Qed.

Lemma ch_same_sym (mats : list ih_mat) b1 b2 : ch_same RA mats b1 b2 = ch_same RA mats b2 b1.
Proof.
  unfold ch_same. rewrite (Nat.eqb_sym b1 b2). f_equal.
  destruct (ch_same_mat RA (nth b1 mats _) (nth b2 mats _)) eqn:E1, (ch_same_mat RA (nth b2 mats _) (nth b1 mats _)) eqn:E2; try reflexivity.
  - apply ch_same_mat_iff, ch_same_spec_sym, ch_same_mat_iff in E1. congruence.
  - apply ch_same_mat_iff, ch_same_spec_sym, ch_same_mat_iff in E2. congruence.
Qed.

(* the scan of a T-k table finds an interval for every temperature between its first and last entries: the
   fall-through `return (Kx+I*Ky)` of GetK is not reached, so Kx, Ky do not matter when there is a table *)
Lemma getk_scan_some t : forall tk t0 k0, t0 <= t -> t < fst (last ((t0, k0) :: tk) (t0, k0)) ->
  getk_scan RA t ((t0, k0) :: tk) <> None.
Proof.
  induction tk as [|[t1 k1] tk IH]; intros t0 k0 H0 Hl.
  - cbn in Hl. lra.
  - cbn [getk_scan]. ra_simpl.
    destruct (Rleb t0 t) eqn:E0; [|apply Rleb_false in E0; contradiction].
    destruct (Rleb t t1) eqn:E1; cbn [andb]; [discriminate|].
    apply Rleb_false in E1. apply IH; [lra|].
    replace (last ((t1, k1) :: tk) (t1, k1)) with (last ((t0, k0) :: (t1, k1) :: tk) (t0, k0)); [exact Hl|].
    cbn [last]. destruct tk; [reflexivity|]. clear. revert p. induction tk; intros p; [reflexivity|]. cbn [last] in *. apply IHtk.
Qed.

Lemma getk_table_ignores_kxky kx ky kx' ky' tk t : tk <> [] -> getk RA kx ky tk t = getk RA kx' ky' tk t.
Proof.
  intros Hn. destruct tk as [|[t0 k0] tk]; [contradiction|]. unfold getk.
  destruct tk as [|p tk]; [reflexivity|].
  ra_simpl. destruct (Rleb t t0) eqn:E0; [reflexivity|]. apply Rleb_false in E0.
  destruct (last ((t0, k0) :: p :: tk) (t0, k0)) as [tl kl] eqn:El.
  destruct (Rleb tl t) eqn:E1; [reflexivity|]. apply Rleb_false in E1.
  pose proof (getk_scan_some t (p :: tk) t0 k0 ltac:(lra)) as Hs. rewrite El in Hs. cbn [fst] in Hs.
  destruct (getk_scan RA t ((t0, k0) :: p :: tk)); [reflexivity|]. exfalso. apply Hs; [lra|reflexivity].
Qed.

Lemma ch_same_same_conductivity m1 m2 t : ch_same_mat RA m1 m2 = true ->
  getk RA (ih_kx m1) (ih_ky m1) (ih_tk m1) t = getk RA (ih_kx m2) (ih_ky m2) (ih_tk m2) t.
Proof.
  intros H. apply ch_same_mat_iff in H. destruct H as [(A & B & C & D)|(A & B)].
  - rewrite A, B, C, D. reflexivity.
  - rewrite <- B. apply getk_table_ignores_kxky. exact A.
Qed.

(* ---------------------------------------------------------------------------------------------- *)
(* (d) the fall-backs                                                                               *)
(* ---------------------------------------------------------------------------------------------- *)
Lemma sm_punt_free {F} (A : Arith F) lf rt ang : sm_punt A (-2) lf rt ang = false.
Proof. reflexivity. Qed.

Lemma sm_punt_flagged_end {F} (A : Arith F) Qj lf rt ang : Qj <> (-2)%Z ->
  (lf = None \/ rt = None \/ lf = rt) -> sm_punt A Qj lf rt ang = true.
Proof.
  intros HQ H. unfold sm_punt. destruct (Z.eqb Qj (-2)) eqn:E; [apply Z.eqb_eq in E; contradiction|].
  destruct lf as [l|], rt as [r|]; try reflexivity.
  destruct H as [H|[H|H]]; try discriminate. injection H as ->. rewrite Nat.eqb_refl. reflexivity.
Qed.

Lemma se_nodal_punt (P : ie_prob (F:=R)) X N i :
  let w := se_walk RA P X N i in
  sm_punt RA (nodeQ RA (ie_nodes P) (w_j w)) (w_lf w) (w_rt w) (walk_ang RA X w) = true \/
  nodal_fit RA (ie_nodes P) (w_j w) (w_q w) (ie_lc P) = None ->
  se_nodal RA P X N i = ie_D RA P (elem_at (ie_elems P) N).
Proof.
  intros w H. unfold se_nodal. fold w. destruct (sm_punt _ _ _ _ _); [reflexivity|].
  destruct H as [H|H]; [discriminate|]. rewrite H. reflexivity.
Qed.

Lemma sh_nodal_punt hfix (P : ih_prob (F:=R)) X N i :
  let w := sh_walk RA P X N i in
  sm_punt RA (nodeQ RA (ih_nodes P) (w_j w)) (w_lf w) (w_rt w) (walk_ang RA X w) = true \/
  nodal_fit RA (ih_nodes P) (w_j w) (w_q w) (ih_lc P) = None ->
  sh_nodal RA hfix P X N i = ih_D RA P (elem_at (ih_elems P) N).
Proof.
  intros w H. unfold sh_nodal. fold w. destruct (sm_punt _ _ _ _ _); [reflexivity|].
  destruct H as [H|H]; [discriminate|]. rewrite H. reflexivity.
Qed.

(* the smoothed point values with the element's own field are the unsmoothed ones *)
Lemma pe_point_of_elem (P : ie_prob (F:=R)) k x y :
  pe_point_of RA P k x y (ie_D RA P (nth k (ie_elems P) ie_delem)) = pe_point RA P k x y.
Proof. unfold pe_point_of, pe_point. destruct (ie_mat RA P _). reflexivity. Qed.
Lemma ph_point_of_elem (P : ih_prob (F:=R)) k x y :
  ph_point_of RA P k x y (ih_D RA P (nth k (ih_elems P) ie_delem)) = ph_point RA P k x y.
Proof. reflexivity. Qed.

(* ---------------------------------------------------------------------------------------------- *)
(* the exterior-region factor in the nodal value (finding XSMOOTH-1)                                *)
(* ---------------------------------------------------------------------------------------------- *)
(* electrostatics: dividing the nodal D by the permittivity getPointValues uses AT THE NODE gives the fitted field back,
   in the exterior region too *)
Lemma se_fromE_field_at_node (P : ie_prob (F:=R)) el j Ex Ey :
  let nj := node_at RA (ie_nodes P) j in
  let a := ie_aecf_pt RA P el (ie_x nj) (ie_y nj) in
  let D := se_fromE RA P el j Ex Ey in
  fst (ie_mat RA P el) <> 0 -> snd (ie_mat RA P el) <> 0 -> ie_eo P <> 0 -> a <> 0 ->
  fst D / (fst (ie_mat RA P el) / a * ie_eo P) = Ex /\ snd D / (snd (ie_mat RA P el) / a * ie_eo P) = Ey.
Proof.
  intros nj a D. unfold D, se_fromE. fold nj. fold a. destruct (ie_mat RA P el) as [ex ey]. cbn [fst snd].
  unfold cdivr, dplusc, cmuld, ci_times. cbn [fst snd]. ra_simpl. intros Hx Hy He Ha. split; field; repeat split; assumption.
Qed.

Lemma sh_fromE_field_at_node hfix (P : ih_prob (F:=R)) el j Ex Ey :
  let nj := node_at RA (ih_nodes P) j in
  let a := ie_aecf_pt RA (ih_view RA P) el (ie_x nj) (ie_y nj) in
  let m := nth (ie_blk el) (ih_mats P) (ih_dmat RA) in
  let K := getk RA (ih_kx m) (ih_ky m) (ih_tk m) (ie_V nj) in
  let Fl := sh_fromE RA hfix P el j Ex Ey in
  fst K <> 0 -> snd K <> 0 -> a <> 0 ->
  fst Fl / (fst K / a) = (if hfix then Ex else Ex * a) /\ snd Fl / (snd K / a) = (if hfix then Ey else Ey * a).
Proof.
  intros nj a m K Fl. unfold Fl, sh_fromE. fold m. fold nj. fold K. fold a. intros Hx Hy Ha.
  destruct hfix; unfold cdivr, dplusc, cmuld, ci_times; cbn [fst snd]; ra_simpl; split; field; repeat split; assumption.
Qed.

(* a concrete exterior element: axisymmetric, exterior label, extRo = extRi = 1, node (2, 0): factor 4 *)
Definition ex_heat_P : ih_prob (F:=R) :=
  mkIHProb true 1 1 0 1 1 [mkIENode 2 0 300 (-2); mkIENode 3 0 300 (-2); mkIENode 2 1 300 (-2)]
           [mkIEElem (0, 1, 2)%nat 0 0] [true] [mkIHMat 1 1 []].

Lemma ex_heat_factor : ie_aecf_pt RA (ih_view RA ex_heat_P) (mkIEElem (0, 1, 2)%nat 0 0) 2 0 = 4.
Proof.
  unfold ie_aecf_pt. rewrite pp_aecf_pt_R. cbn [ih_view ie_axi ie_label_ext ie_lbl nth andb ie_extZo ie_extRo ie_extRi ex_heat_P
    ih_axi ih_label_ext ih_extZo ih_extRo ih_extRi].
  destruct (Reqb (2 * 2 + (0 - 0) * (0 - 0)) 0) eqn:E; [apply Reqb_true in E; lra|]. field.
Qed.

Lemma sh_nodal_exterior_not_scaled :
  exists (P : ih_prob (F:=R)) el j Ex Ey,
    let nj := node_at RA (ih_nodes P) j in
    let a := ie_aecf_pt RA (ih_view RA P) el (ie_x nj) (ie_y nj) in
    let m := nth (ie_blk el) (ih_mats P) (ih_dmat RA) in
    let K := getk RA (ih_kx m) (ih_ky m) (ih_tk m) (ie_V nj) in
    fst K <> 0 /\ snd K <> 0 /\ a <> 0 /\ fst (sh_fromE RA false P el j Ex Ey) / (fst K / a) <> Ex.
Proof.
  exists ex_heat_P, (mkIEElem (0, 1, 2)%nat 0 0), 0%nat, 1, 0. cbv zeta.
  change (ie_x (node_at RA (ih_nodes ex_heat_P) 0)) with 2. change (ie_y (node_at RA (ih_nodes ex_heat_P) 0)) with 0.
  rewrite ex_heat_factor.
  unfold sh_fromE. cbn [ex_heat_P ih_mats ie_blk nth ih_tk ih_kx ih_ky]. unfold getk, k_linear, dplusc, cmuld, ci_times. cbn [fst snd].
  ra_simpl. repeat split; try lra.
Qed.

(* ---------------------------------------------------------------------------------------------- *)
(* magnetics: the inverse-distance mean of GetNodalB reproduces a uniform field                     *)
(* ---------------------------------------------------------------------------------------------- *)
Definition avg_inv (b1 b2 : R * R) (acc : R * (R * R) * (R * R)) : Prop :=
  let '(Rs, s1, s2) := acc in s1 = (Rs * fst b1, Rs * snd b1) /\ s2 = (Rs * fst b2, Rs * snd b2).

Lemma sm_avg_fold_inv px py b1 b2 around : Forall (fun e : (R * R) * (R * R) * (R * R) => snd (fst e) = b1 /\ snd e = b2) around ->
  forall acc, avg_inv b1 b2 acc -> avg_inv b1 b2 (fold_left (sm_avg_step RA px py) around acc).
Proof.
  induction 1 as [|e l He Hl IH]; intros acc Hacc; cbn [fold_left]; [exact Hacc|].
  apply IH. destruct acc as [[Rs s1] s2]. destruct e as [[ctr B1] B2]. cbn [fst snd] in He. destruct He as (-> & ->).
  unfold avg_inv in *. destruct Hacc as (-> & ->). unfold sm_avg_step. cbv zeta. unfold cadd, dmulc. cbn [fst snd]. ra_simpl.
  split; f_equal; ring.
Qed.

Lemma sm_avgB_uniform px py b1 b2 around :
  Forall (fun e : (R * R) * (R * R) * (R * R) => snd (fst e) = b1 /\ snd e = b2) around ->
  fst (fst (fold_left (sm_avg_step RA px py) around (0, (0, 0), (0, 0)))) <> 0 ->
  sm_avgB RA px py around = (b1, b2).
Proof.
  intros Hf. unfold sm_avgB. ra_simpl.
  assert (H0 : avg_inv b1 b2 (0, (0, 0), (0, 0))) by (unfold avg_inv; cbn [fst snd]; split; f_equal; ring).
  pose proof (sm_avg_fold_inv px py b1 b2 around Hf _ H0) as Hinv.
  destruct (fold_left (sm_avg_step RA px py) around (0, (0, 0), (0, 0))) as [[Rs s1] s2]. cbn [fst snd].
  unfold avg_inv in Hinv. destruct Hinv as (-> & ->). intros HR. unfold cdivr. cbn [fst snd]. ra_simpl.
  destruct b1 as [u v], b2 as [u' v']. cbn [fst snd]. f_equal; f_equal; field; exact HR.
Qed.
