(* Renumber.v — executable model of the node / element renumbering that every solver performs
   between LoadMesh and assembly:

     FEASolver::Cuthill(bool)     cfemm/libfemm/cuthill.cpp:87-391
     FEASolver::SortElements()    cfemm/libfemm/cuthill.cpp:33-85
     FSolver/ESolver/HSolver::SortNodes(std::vector<int>)
                                  cfemm/fsolver/fsolver.cpp:1355, esolver/esolver.cpp:872,
                                  hsolver/hsolver.cpp:1074 (three identical bodies)

   The model follows the C++ statement by statement.  C++ vectors / arrays are lists; EVERY element
   access of the C++ is a checked [rd] / [wr] that yields [Err OutOfRange] when the index is not
   below the length (a C++ out-of-range access is undefined behaviour).  Loops that are not bounded
   by their structure (the main do-while, SortNodes' while, SortElements' do-while) carry fuel and yield [Err OutOfFuel] when it
   runs out; the fuel handed in by [cuthill] is proved sufficient in RenumberProofs.v.

   Encoding of the C++ ints: node indices and counters are [nat] (the files written by Triangle hold
   no negative index); the entries of newnum[] / nxtnum[] during the numbering loop are [option nat]
   where [None] stands for the value -1 (the only negative value the code ever stores, and it is only
   ever tested with "<0").  After the loop the code uses newnum[] entries as indices (SortNodes reads
   newnum[newnum[i]]); a remaining -1 is reported as [Err Unnumbered] at that point.

   Payloads the renumbering only carries along are type parameters: node records [Nd] (coordinates,
   BoundaryMarker, InConductor, ... — SortNodes swaps whole CNode objects), the rest of an element
   record [P] (e[], blk, lbl, ...; std::swap(meshele[k],meshele[j]) swaps whole elements), the t
   field of a pbclist entry [T], the weights of an air-gap quadNode [W].

   Model file: no proofs here (RenumberProofs.v). *)
From Coq Require Import List Arith Bool ZArith NArith.
Import ListNotations.

(* ------------------------------------------------------------------------------------------ *)
(* results of checked evaluation                                                                *)
(* ------------------------------------------------------------------------------------------ *)
Inductive rerr : Type :=
| OutOfRange      (* an element access outside the vector / array: undefined behaviour in C++ *)
| OutOfFuel       (* a loop did not end within the fuel: the C++ loop runs longer than that *)
| Unnumbered.     (* newnum[] still holds -1 after the numbering loop and is used as an index *)

Inductive res (A : Type) : Type :=
| Ok (a : A)
| Err (e : rerr).
Arguments Ok {A} a.
Arguments Err {A} e.

Definition bind {A B : Type} (m : res A) (f : A -> res B) : res B :=
  match m with Ok a => f a | Err e => Err e end.

Notation "x <- m ;; k" := (bind m (fun x => k))
  (at level 61, m at next level, right associativity).

(* v[i] as an rvalue *)
Fixpoint rd {A : Type} (l : list A) (i : nat) : res A :=
  match l, i with
  | [], _ => Err OutOfRange
  | x :: _, O => Ok x
  | _ :: t, S i' => rd t i'
  end.

(* v[i] = x *)
Fixpoint wr {A : Type} (l : list A) (i : nat) (x : A) : res (list A) :=
  match l, i with
  | [], _ => Err OutOfRange
  | _ :: t, O => Ok (x :: t)
  | y :: t, S i' => match wr t i' x with Ok t' => Ok (y :: t') | Err e => Err e end
  end.

(* unchecked v[i] = x (no effect when i is out of range): used by specifications only *)
Fixpoint upd {A : Type} (l : list A) (i : nat) (x : A) : list A :=
  match l, i with
  | [], _ => []
  | _ :: t, O => x :: t
  | y :: t, S i' => y :: upd t i' x
  end.

(* for (a : l) s = f(s, a) *)
Fixpoint foldM {A S : Type} (f : S -> A -> res S) (l : list A) (s : S) : res S :=
  match l with
  | [] => Ok s
  | a :: t => s' <- f s a ;; foldM f t s'
  end.

Fixpoint mapM {A B : Type} (f : A -> res B) (l : list A) : res (list B) :=
  match l with
  | [] => Ok []
  | a :: t => b <- f a ;; bs <- mapM f t ;; Ok (b :: bs)
  end.

(* for (i = a; i < b; i++) : the indices a, a+1, ..., b-1 *)
Definition range (a b : nat) : list nat := seq a (b - a).

(* ------------------------------------------------------------------------------------------ *)
(* Cuthill, part 1: connectivity lists                              cuthill.cpp:126-230         *)
(* ------------------------------------------------------------------------------------------ *)

(* numcon[n0]++ *)
Definition incr (l : list nat) (i : nat) : res (list nat) :=
  c <- rd l i ;; wr l i (S c).

(* first pass over the .edge file (l. 143-164): numcon[n0]++; numcon[n1]++ per line.
   numcon.resize(NumNodes) value-initialises to 0 (l. 129). *)
Definition count_pass (N : nat) (edges : list (nat * nat)) : res (list nat) :=
  foldM (fun nc e => nc' <- incr nc (fst e) ;; incr nc' (snd e)) edges (repeat 0 N).

(* l. 167-172: ocon[i].resize(numcon[i]) — zero-filled rows *)
Definition alloc_rows (numcon : list nat) : list (list nat) :=
  map (fun c => repeat 0 c) numcon.

(* ocon[a][nxtnum[a]] = b; nxtnum[a]++;                                       (l. 206-209) *)
Definition store1 (st : list (list nat) * list nat) (a b : nat) : res (list (list nat) * list nat) :=
  let (ocon, nxt) := st in
  k <- rd nxt a ;;
  row <- rd ocon a ;;
  row' <- wr row k b ;;
  ocon' <- wr ocon a row' ;;
  nxt' <- wr nxt a (S k) ;;
  Ok (ocon', nxt').

(* second pass (l. 187-210); nxtnum.resize(NumNodes) gave zeros (l. 127) *)
Definition store_pass (N : nat) (numcon : list nat) (edges : list (nat * nat))
  : res (list (list nat) * list nat) :=
  foldM (fun st e => st' <- store1 st (fst e) (snd e) ;; store1 st' (snd e) (fst e))
        edges (alloc_rows numcon, repeat 0 N).

(* if (numcon[ocon[n0][j]] < numcon[ocon[n0][j-1]]) swap the two entries       (l. 224-229) *)
Definition bubble_step (numcon : list nat) (row : list nat) (j : nat) : res (list nat) :=
  a <- rd row j ;;
  b <- rd row (j - 1) ;;
  ca <- rd numcon a ;;
  cb <- rd numcon b ;;
  if ca <? cb then (row' <- wr row j b ;; wr row' (j - 1) a) else Ok row.

(* for(i=1; i<numcon[n0]; i++) for(j=1; j<numcon[n0]; j++) ...                 (l. 222-223) *)
Definition bubble_row (numcon : list nat) (c : nat) (row : list nat) : res (list nat) :=
  foldM (fun r _ => foldM (bubble_step numcon) (range 1 c) r) (range 1 c) row.

(* for(n0=0; n0<NumNodes; n0++) ...                                            (l. 220) *)
Definition bubble_all (N : nat) (numcon : list nat) (ocon : list (list nat)) : res (list (list nat)) :=
  foldM (fun oc n0 =>
           c <- rd numcon n0 ;;
           row <- rd oc n0 ;;
           row' <- bubble_row numcon c row ;;
           wr oc n0 row')
        (range 0 N) ocon.

(* ------------------------------------------------------------------------------------------ *)
(* Cuthill, part 2: start node                                      cuthill.cpp:233-245         *)
(* ------------------------------------------------------------------------------------------ *)
(* for(i=1; i<NumNodes; i++) { if(numcon[i]<j){ j=numcon[i]; n0=i; } if(j==2) break; }
   (Until /repo commit e99587c the last statement was "if(j==2) i=n_lines;", which overwrote the
   counter with the number of lines of the .edge file and could loop forever when
   n_lines+1 < NumNodes.)  The loop is bounded by its structure: [is] are the indices still to visit. *)
Fixpoint start_loop (numcon : list nat) (is : list nat) (j n0 : nat) : res (nat * nat) :=
  match is with
  | [] => Ok (j, n0)
  | i :: t =>
      c <- rd numcon i ;;
      let j' := if c <? j then c else j in
      let n0' := if c <? j then i else n0 in
      if j' =? 2 then Ok (j', n0') else start_loop numcon t j' n0'
  end.

(* j = numcon[0]; n0 = 0; then the loop.  Returns (j, n0). *)
Definition start_search (N : nat) (numcon : list nat) : res (nat * nat) :=
  j <- rd numcon 0 ;; start_loop numcon (range 1 N) j 0.

(* ------------------------------------------------------------------------------------------ *)
(* Cuthill, part 3: the numbering loop                              cuthill.cpp:247-306         *)
(* ------------------------------------------------------------------------------------------ *)
Record mstate : Type := mkMs {
  ms_newnum : list (option nat);     (* newnum[] ; None = -1 *)
  ms_nxtnum : list (option nat);     (* nxtnum[] ; None = -1 *)
  ms_n : nat;                        (* n  : next number to hand out *)
  ms_n0 : nat;                       (* n0 : node being expanded *)
  ms_j : nat                         (* j  : smallest connection count seen by the last search *)
}.

(* newnum[v]=n; nxtnum[n]=v; n++;     (l. 261-263 with v = ocon[n0][i]; l. 298-300 with v = n0) *)
Definition number_node (v : nat) (st : list (option nat) * list (option nat) * nat)
  : res (list (option nat) * list (option nat) * nat) :=
  let '(newnum, nxtnum, n) := st in
  newnum' <- wr newnum v (Some n) ;;
  nxtnum' <- wr nxtnum n (Some v) ;;
  Ok (newnum', nxtnum', S n).

(* if (newnum[v]<0) { number it }                                              (l. 259-264) *)
Definition visit_node (st : list (option nat) * list (option nat) * nat) (v : nat)
  : res (list (option nat) * list (option nat) * nat) :=
  nv <- rd (fst (fst st)) v ;;
  match nv with
  | Some _ => Ok st
  | None => number_node v st
  end.

(* one turn of for(i=0; i<numcon[n0]; i++) with v = ocon[n0][i]                (l. 257-265) *)
Definition visit_step (row : list nat) (st : list (option nat) * list (option nat) * nat) (i : nat) :=
  v <- rd row i ;; visit_node st v.

(* for(i=0; i<NumNodes; i++) if(newnum[i]<0) { j=numcon[i]; n0=i; break; }     (l. 275-281) *)
Fixpoint find_first (newnum : list (option nat)) (numcon : list nat) (is : list nat) (j n0 : nat)
  : res (nat * nat) :=
  match is with
  | [] => Ok (j, n0)
  | i :: t =>
      nv <- rd newnum i ;;
      match nv with
      | None => c <- rd numcon i ;; Ok (c, i)
      | Some _ => find_first newnum numcon t j n0
      end
  end.

(* for(i=0; i<NumNodes; i++) { if((newnum[i]<0) && (numcon[i]<j)) { j=numcon[i]; n0=i; }
                               if(j==2) break; }                               (l. 285-295) *)
Fixpoint find_best (newnum : list (option nat)) (numcon : list nat) (is : list nat) (j n0 : nat)
  : res (nat * nat) :=
  match is with
  | [] => Ok (j, n0)
  | i :: t =>
      nv <- rd newnum i ;;
      r <- match nv with
           | None => c <- rd numcon i ;; Ok (if c <? j then (c, i) else (j, n0))
           | Some _ => Ok (j, n0)
           end ;;
      if fst r =? 2 then Ok r else find_best newnum numcon t (fst r) (snd r)
  end.

(* the body of the do-while                                                    (l. 253-305) *)
Definition main_body (N : nat) (numcon : list nat) (ocon : list (list nat)) (s : mstate) : res mstate :=
  c <- rd numcon (ms_n0 s) ;;
  row <- rd ocon (ms_n0 s) ;;
  st <- foldM (visit_step row) (range 0 c) (ms_newnum s, ms_nxtnum s, ms_n s) ;;
  let '(newnum, nxtnum, n) := st in
  k <- rd newnum (ms_n0 s) ;;
  (* newnum[n0]+1 ; a -1 would give index 0 *)
  nx <- rd nxtnum (match k with Some k' => S k' | None => 0 end) ;;
  match nx with
  | None =>
      (* multiply connected: restart *)
      r1 <- find_first newnum numcon (range 0 N) (ms_j s) (ms_n0 s) ;;
      r2 <- find_best newnum numcon (range 0 N) (fst r1) (snd r1) ;;
      st' <- number_node (snd r2) (newnum, nxtnum, n) ;;
      let '(newnum', nxtnum', n') := st' in
      Ok (mkMs newnum' nxtnum' n' (snd r2) (fst r2))
  | Some m => Ok (mkMs newnum nxtnum n m (ms_j s))
  end.

(* do { body } while (n<NumNodes); *)
Fixpoint main_loop (fuel N : nat) (numcon : list nat) (ocon : list (list nat)) (s : mstate) : res mstate :=
  match fuel with
  | O => Err OutOfFuel
  | S fuel' =>
      s' <- main_body N numcon ocon s ;;
      if ms_n s' <? N then main_loop fuel' N numcon ocon s' else Ok s'
  end.

(* the ints of newnum[] used as indices from here on *)
Fixpoint all_some (l : list (option nat)) : res (list nat) :=
  match l with
  | [] => Ok []
  | Some k :: t => r <- all_some t ;; Ok (k :: r)
  | None :: _ => Err Unnumbered
  end.

(* the graph part of Cuthill up to the end of the numbering loop: (numcon, ocon, newnum) *)
Definition numbering (N : nat) (edges : list (nat * nat)) : res (list nat * list (list nat) * list nat) :=
  numcon <- count_pass N edges ;;
  st <- store_pass N numcon edges ;;
  ocon <- bubble_all N numcon (fst st) ;;
  s <- start_search N numcon ;;
  (* for(i=0; i<NumNodes; i++) nxtnum[i]=-1;  newnum[n0]=0; n=1; nxtnum[0]=n0;   (l. 248-251);
     newnum[] was set to -1 at l. 133-136 *)
  newnum <- wr (repeat None N) (snd s) (Some 0) ;;
  nxtnum <- wr (repeat None N) 0 (Some (snd s)) ;;
  fin <- main_loop N N numcon ocon (mkMs newnum nxtnum 1 (snd s) (fst s)) ;;
  nn <- all_some (ms_newnum fin) ;;
  Ok (numcon, ocon, nn).

(* ------------------------------------------------------------------------------------------ *)
(* Cuthill, part 4: remapping and bandwidth                         cuthill.cpp:308-363         *)
(* ------------------------------------------------------------------------------------------ *)
Definition absdiff (a b : nat) : nat := if a <=? b then b - a else a - b.

(* for n0, for i<numcon[n0]: if(abs(newnum[n0]-ocon[n0][i])>newwide) newwide=...  (l. 341-348);
   ocon here is the remapped one (l. 309-311) *)
Definition bw_all (N : nat) (numcon nn : list nat) (oconR : list (list nat)) : res nat :=
  foldM (fun w n0 =>
           c <- rd numcon n0 ;;
           a <- rd nn n0 ;;
           row <- rd oconR n0 ;;
           foldM (fun w' i => b <- rd row i ;; Ok (if w' <? absdiff a b then absdiff a b else w'))
                 (range 0 c) w)
        (range 0 N) 0.

Definition tri : Type := (nat * nat * nat)%type.
Definition quad : Type := (nat * nat * nat * nat)%type.

Definition remap_tri (nn : list nat) (t : tri) : res tri :=
  let '(a, b, c) := t in
  a' <- rd nn a ;; b' <- rd nn b ;; c' <- rd nn c ;; Ok (a', b', c').

Definition remap_quad (nn : list nat) (q : quad) : res quad :=
  let '(a, b, c, d) := q in
  a' <- rd nn a ;; b' <- rd nn b ;; c' <- rd nn c ;; d' <- rd nn d ;; Ok (a', b', c', d').

(* ------------------------------------------------------------------------------------------ *)
(* SortNodes (three identical overrides)                                                       *)
(* ------------------------------------------------------------------------------------------ *)
Section WithPayloads.
Context {Nd P T W : Type}.

(* while(newnum[i] != i) { int j = newnum[i]; swap(newnum[i],newnum[j]); swap(meshnode[i],meshnode[j]); } *)
Fixpoint sn_while (fuel i : nat) (nn : list nat) (nodes : list Nd) : res (list nat * list Nd) :=
  match fuel with
  | O => Err OutOfFuel
  | S fuel' =>
      j <- rd nn i ;;
      if j =? i then Ok (nn, nodes)
      else
        nj <- rd nn j ;;
        nn1 <- wr nn i nj ;;
        nn2 <- wr nn1 j j ;;
        xi <- rd nodes i ;;
        xj <- rd nodes j ;;
        nodes1 <- wr nodes i xj ;;
        nodes2 <- wr nodes1 j xi ;;
        sn_while fuel' i nn2 nodes2
  end.

(* for(int i = 0; i < NumNodes; i++) while ... ; returns (newnum afterwards, meshnode afterwards) *)
Definition sort_nodes (N : nat) (nn : list nat) (nodes : list Nd) : res (list nat * list Nd) :=
  foldM (fun st i => sn_while (S N) i (fst st) (snd st)) (range 0 N) (nn, nodes).

(* the specification of SortNodes: "node old i ends at position newnum[i]", written as the
   out-of-place scatter  r[newnum[i]] = old[i]  (unchecked list update) *)
Definition sort_nodes_spec (nn : list nat) (nodes : list Nd) : list Nd :=
  fold_left (fun r tx => upd r (fst tx) (snd tx)) (combine nn nodes) nodes.

(* ------------------------------------------------------------------------------------------ *)
(* SortElements                                                     cuthill.cpp:33-85           *)
(* ------------------------------------------------------------------------------------------ *)
Definition elem : Type := (tri * P)%type.

(* Score[k]=meshele[k].p[0]+meshele[k].p[1]+meshele[k].p[2] *)
Definition score (e : elem) : Z :=
  let '(a, b, c) := fst e in (Z.of_nat a + Z.of_nat b + Z.of_nat c)%Z.

(* if (Score[j]>Score[j+gap]) { swap Score[j],Score[j+gap]; swap meshele[j],meshele[j+gap]; i=1; } *)
Definition comb_step (gap : nat) (st : list Z * list elem * bool) (j : nat) : res (list Z * list elem * bool) :=
  let '(Score, ele, sw) := st in
  sj <- rd Score j ;;
  sk <- rd Score (j + gap) ;;
  if (sk <? sj)%Z then
    Score1 <- wr Score (j + gap) sj ;;
    Score2 <- wr Score1 j sk ;;
    ej <- rd ele j ;;
    ek <- rd ele (j + gap) ;;
    ele1 <- wr ele (j + gap) ej ;;
    ele2 <- wr ele1 j ek ;;
    Ok (Score2, ele2, true)
  else Ok st.

(* for(j=0,i=0; (j+gap)<NumEls; j++) ... : the flag i starts at 0 in every comb *)
Definition comb_pass (NumEls gap : nat) (Score : list Z) (ele : list elem) : res (list Z * list elem * bool) :=
  foldM (comb_step gap) (range 0 (NumEls - gap)) (Score, ele, false).

(* if (gap > 1) { gap=(gap*10)/13; if ((gap==10) || (gap==9)) gap=11; } *)
Definition next_gap (gap : nat) : nat :=
  if 1 <? gap then
    let g := (gap * 10) / 13 in
    if (g =? 10) || (g =? 9) then 11 else g
  else gap.

(* do { gap update; comb } while((gap>1)&&(i>0));
   NOTE the condition: the loop ends as soon as the gap has reached 1 OR a comb made no swap. *)
Fixpoint comb_loop (fuel NumEls gap : nat) (Score : list Z) (ele : list elem) : res (list Z * list elem) :=
  match fuel with
  | O => Err OutOfFuel
  | S fuel' =>
      let gap' := next_gap gap in
      r <- comb_pass NumEls gap' Score ele ;;
      let '(Score', ele', sw) := r in
      if (1 <? gap') && sw then comb_loop fuel' NumEls gap' Score' ele' else Ok (Score', ele')
  end.

Definition sort_elements (ele : list elem) : res (list elem) :=
  let NumEls := length ele in
  r <- comb_loop (S NumEls) NumEls NumEls (map score ele) ele ;;
  Ok (snd r).

(* ------------------------------------------------------------------------------------------ *)
(* the whole of Cuthill(...)                                                                   *)
(* ------------------------------------------------------------------------------------------ *)
Record mesh : Type := mkMesh {
  m_nodes : list Nd;                      (* meshnode[0..NumNodes-1] *)
  m_eles : list elem;                     (* meshele *)
  m_pbcs : list (nat * nat * T);          (* pbclist: x, y, t *)
  m_ages : list (list (quad * W))         (* agelist[i].quadNode[0..totalArcElements]: n0..n3, weights *)
}.

Record result : Type := mkResult {
  r_newnum : list nat;                    (* the local newnum[] at the end of Cuthill *)
  r_bandwidth : nat;                      (* BandWidth *)
  r_mesh : mesh                           (* meshnode, meshele, pbclist, agelist afterwards *)
}.

Definition remap_ele (nn : list nat) (e : elem) : res elem :=
  t <- remap_tri nn (fst e) ;; Ok (t, snd e).

(* pbclist[i].x=newnum[pbclist[i].x]; pbclist[i].y=newnum[pbclist[i].y];          (l. 314-318) *)
Definition remap_pbc (nn : list nat) (p : nat * nat * T) : res (nat * nat * T) :=
  let '(x, y, t) := p in
  x' <- rd nn x ;; y' <- rd nn y ;; Ok (x', y', t).

(* l. 321-330 *)
Definition remap_age (nn : list nat) (a : list (quad * W)) : res (list (quad * W)) :=
  mapM (fun qw => q <- remap_quad nn (fst qw) ;; Ok (q, snd qw)) a.

Definition cuthill (N : nat) (edges : list (nat * nat)) (M : mesh) : res result :=
  g <- numbering N edges ;;
  let '(numcon, ocon, nn) := g in
  (* ocon[i][j]=newnum[ocon[i][j]]                                                (l. 309-311) *)
  oconR <- mapM (mapM (rd nn)) ocon ;;
  pbcs <- mapM (remap_pbc nn) (m_pbcs M) ;;
  ages <- mapM (remap_age nn) (m_ages M) ;;
  w <- bw_all N numcon nn oconR ;;
  (* meshele[i].p[j]=newnum[meshele[i].p[j]]                                      (l. 361-363) *)
  eles <- mapM (remap_ele nn) (m_eles M) ;;
  sn <- sort_nodes N nn (m_nodes M) ;;
  eles' <- sort_elements eles ;;
  Ok (mkResult nn (S w) (mkMesh (snd sn) eles' pbcs ages)).

End WithPayloads.

Arguments mesh : clear implicits.
Arguments result : clear implicits.
Arguments elem : clear implicits.

(* ------------------------------------------------------------------------------------------ *)
(* reader for the correspondence runs (tools/props/xcm.py): indices arrive as binary numbers and
   are turned into the SHARED unary numbers of one table (seq 0 (N+1)), so that a mesh of a few
   thousand nodes does not allocate a fresh unary number per occurrence.  An index that is not
   below the table length maps to N (out of range for every array of the model).               *)
(* ------------------------------------------------------------------------------------------ *)
Fixpoint nthN {A : Type} (l : list A) (k : N) (d : A) : A :=
  match l with
  | [] => d
  | x :: t => if N.eqb k 0 then x else nthN t (N.pred k) d
  end.

Definition errcode {A : Type} (r : res A) : N :=
  match r with Ok _ => 0 | Err OutOfRange => 1 | Err OutOfFuel => 2 | Err Unnumbered => 3 end%N.

Definition io_result : Type :=
  (N * (list N * N * list N * list (N * N * N * N) * list (N * N * N) * list (list (N * N * N * N))))%type.

(* nodes carry their old index, elements their old position: the result shows where each went *)
Definition cuthill_io (Nn : N) (edges : list (N * N)) (eles : list (N * N * N))
           (pbcs : list (N * N * N)) (ages : list (list (N * N * N * N))) : io_result :=
  let Nnat := N.to_nat Nn in
  let tab := seq 0 (S Nnat) in
  let cv := fun k => nthN tab k Nnat in
  let edges' := map (fun e => (cv (fst e), cv (snd e))) edges in
  let eles' := map (fun '(k, (a, b, c)) => ((cv a, cv b, cv c), k)) (combine (seq 0 (length eles)) eles) in
  let pbcs' := map (fun '(x, y, t) => (cv x, cv y, t)) pbcs in
  let ages' := map (map (fun '(a, b, c, d) => ((cv a, cv b, cv c, cv d), tt))) ages in
  let r := cuthill Nnat edges' (mkMesh (seq 0 Nnat) eles' pbcs' ages') in
  let f := N.of_nat in
  (errcode r,
   match r with
   | Ok x =>
       (map f (r_newnum x), f (r_bandwidth x), map f (m_nodes (r_mesh x)),
        map (fun '((a, b, c), k) => (f a, f b, f c, f k)) (m_eles (r_mesh x)),
        map (fun '(a, b, t) => (f a, f b, t)) (m_pbcs (r_mesh x)),
        map (map (fun '((a, b, c, d), _) => (f a, f b, f c, f d))) (m_ages (r_mesh x)))
   | Err _ => ([], 0%N, [], [], [], [])
   end).

(* the graph part alone (newnum only), for hand-made edge lists *)
Definition numbering_io (Nn : N) (edges : list (N * N)) : N * list N :=
  let Nnat := N.to_nat Nn in
  let tab := seq 0 (S Nnat) in
  let cv := fun k => nthN tab k Nnat in
  let r := numbering Nnat (map (fun e => (cv (fst e), cv (snd e))) edges) in
  (errcode r, match r with Ok (_, _, nn) => map N.of_nat nn | Err _ => [] end).

(* the start-node search alone: (error code, (j, n0)) *)
Definition start_search_io (Nn : N) (edges : list (N * N)) : N * (N * N) :=
  let Nnat := N.to_nat Nn in
  let e' := map (fun e => (N.to_nat (fst e), N.to_nat (snd e))) edges in
  let r := (numcon <- count_pass Nnat e' ;; start_search Nnat numcon) in
  (errcode r, match r with Ok (j, n0) => (N.of_nat j, N.of_nat n0) | Err _ => (0, 0)%N end).
