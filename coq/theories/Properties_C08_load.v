(* Properties_C08_load.v — C08 part of the mesh-reader model (LoadMesh.v; vocabulary in Properties_C02_load.v): a mesh the
   model loads has every corner index inside the node table; the readers themselves check none of the indices they take
   from the mesh files (element corners, boundary-property numbers, edge nodes): with mesh files that do not belong to the
   problem the accesses nmbr[p[j]], lineproplist[j], meshnode[n1] are out of range (UB in the model; the 13 such inputs of
   the correspondence abort on the sanitizer build).  Statements only. *)
From Coq Require Import ZArith List Bool Floats.
From XF Require Import Arith Marker MarkerProofs LoadMesh LoadMeshProofs.
From XF.gen Require Import MarkerConsts LoadConsts.
Import ListNotations.
Local Open Scope Z_scope.

Theorem C08_load_loaded_mesh_has_corner_indices_in_range :
  forall (F : Type) (A : Arith F) v del units labels fmts nodes pbcs ages eles edges m,
    load_mesh A v del units labels fmts nodes pbcs ages eles edges = Loaded m ->
    rows_in_range (length nodes) eles.
Proof. exact (@load_in_range_thm). Qed.
Print Assumptions C08_load_loaded_mesh_has_corner_indices_in_range.

Theorem C08_load_element_corner_index_is_checked_refuted :
  forall (F : Type) (A : Arith F), exists v nodes eles,
    ~ rows_in_range (length nodes) eles /\
    load_mesh A v false 1 [(false, 0)] [] nodes [] [] eles [] = UB.
Proof. exact (@ub_element_corner_thm). Qed.
Print Assumptions C08_load_element_corner_index_is_checked_refuted.

Theorem C08_load_boundary_property_index_is_checked_refuted :
  forall (F : Type) (A : Arith F), exists v fmts nodes eles edges,
    rows_in_range (length nodes) eles /\
    (forall r, In r edges -> 0 <= en0 r < Z.of_nat (length nodes) /\ 0 <= en1 r < Z.of_nat (length nodes)) /\
    load_mesh A v false 1 [(false, 0)] fmts nodes [] [] eles edges = UB.
Proof. exact (@ub_lineprop_index_thm). Qed.
Print Assumptions C08_load_boundary_property_index_is_checked_refuted.

Theorem C08_load_edge_node_index_is_checked_refuted :
  forall (F : Type) (A : Arith F),
    (exists v nodes eles edges, rows_in_range (length nodes) eles /\
       load_mesh A v false 1 [(false, 0)] [0] nodes [] [] eles edges = UB) /\
    (exists nodes eles edges, rows_in_range (length nodes) eles /\
       load_mesh A VM false 1 [(false, 0)] [] nodes [] [] eles edges = UB).
Proof. intros F A. split; [exact (ub_edge_node_thm A)|exact (ub_edge_node_mag_thm A)]. Qed.
Print Assumptions C08_load_edge_node_index_is_checked_refuted.
