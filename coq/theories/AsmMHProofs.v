(* AsmMHProofs.v — theorems about the model of FSolver::Harmonic2D (complex numbers read as
   pairs of reals, [CA RA]). *)
From Coq Require Import ZArith List Bool Arith Lia Reals Lra.
From XF Require Import Arith Sparse CSparse SparseProofs AsmOps AsmOpsProofs AsmE AsmEProofs AsmM AsmMProofs AsmMH.
Import ListNotations.
Local Open Scope R_scope.

Local Notation vgetR := (vget RA).
Local Notation probR := (mprob (F:=R)).
Local Notation elemR := (melem (F:=R)).
Local Notation C := (R * R)%type.

(* ---- complex arithmetic on pairs of reals ------------------------------------------------- *)
Definition Cadd (x y : C) : C := (fst x + fst y, snd x + snd y).
Definition Cmul (x y : C) : C := (fst x * fst y - snd x * snd y, fst x * snd y + snd x * fst y).
Definition Cscal (d : R) (x : C) : C := (d * fst x, d * snd x).
Definition Cinv (z : C) : C := (fst z / (fst z * fst z + snd z * snd z), - snd z / (fst z * fst z + snd z * snd z)).
Definition Cj : C := (0, 1).

Lemma Cnorm_pos (z : C) : z <> (0, 0) -> fst z * fst z + snd z * snd z <> 0.
Proof.
  destruct z as [a b]. cbn. intros H Hz. apply H.
  assert (a = 0) by nra. assert (b = 0) by nra. subst. reflexivity.
Qed.

(* the reciprocal computed inside CComplex::operator/ is the complex inverse, in both branches *)
Lemma cinv_spec (z : C) : z <> (0, 0) -> cinv RA z = Cinv z.
Proof.
  intros Hz. pose proof (Cnorm_pos z Hz) as Hn. destruct z as [a b]. cbn [fst snd] in *.
  unfold cinv, Cinv. cbn [fst snd]. ra_simpl.
  destruct (Rltb (Rabs b) (Rabs a)) eqn:E.
  - apply Rltb_true in E.
    assert (Ha : a <> 0). { intro; subst. rewrite Rabs_R0 in E. pose proof (Rabs_pos b). lra. }
    f_equal; field; split; auto; intro Hq; apply Hn; field_simplify in Hq; try assumption; nra.
  - apply Rltb_false in E.
    assert (Hb : b <> 0).
    { intro; subst. rewrite Rabs_R0 in E. apply E. apply Rabs_pos_lt. intro; subst. apply Hz. reflexivity. }
    f_equal; field; split; auto; intro Hq; apply Hn; field_simplify in Hq; try assumption; nra.
Qed.

Lemma cdiv_spec (x z : C) : z <> (0, 0) -> cdiv RA x z = Cmul x (Cinv z).
Proof. intros Hz. unfold cdiv. rewrite cinv_spec by exact Hz. reflexivity. Qed.

Lemma Cmul_inv (z : C) : z <> (0, 0) -> Cmul z (Cinv z) = (1, 0).
Proof.
  intros Hz. pose proof (Cnorm_pos z Hz) as Hn. destruct z as [a b]. unfold Cmul, Cinv. cbn [fst snd] in *.
  f_equal; field; exact Hn.
Qed.

(* ------------------------------------------------------------------------------------------ *)
Section Eddy.
  (* (d) for j, k>=j: Me[j][k]+=K; Me[k][j]+=K  is  K * [2 1 1; 1 2 1; 1 1 2] *)
  Theorem eddy_add_pattern (K : C) j k : (j < 3)%nat -> (k < 3)%nat ->
    h3get RA (eddy_add RA (repeat (0, 0) 9) K) j k = Cscal (if Nat.eqb j k then 2 else 1) K.
  Proof.
    intros Hj Hk. destruct K as [a b].
    destruct j as [|[|[|j]]]; try lia; destruct k as [|[|[|k]]]; try lia;
      cbn; unfold cadd; cbn [fst snd]; ra_simpl; unfold Cscal; cbn [fst snd]; f_equal; ring.
  Qed.

  (* ... and K = -I*a*w*Cduct*c/12. is  -j w sigma c a/12 : the added term is -j*omega*sigma*c times
     the consistent mass matrix a/12 [2 1 1; 1 2 1; 1 1 2] *)
  Theorem eddy_K_value (P : probR) w el a :
    let blk := nth (mblk el) (mblocks P) (dmblock RA) in
    is_wound RA P (nth (mlbl el) (mlabels P) dmlabel) = false ->
    (bLamType blk <> 0%nat \/ ~ (0 < bLamd blk)) ->
    eddy_K RA P w el a = Cscal (- (w * bCduct blk * c4pi RA) * (a / 12)) Cj.
  Proof.
    intros blk Hw Hl. unfold eddy_K. fold blk. rewrite Hw.
    assert (E : (Nat.eqb (bLamType blk) 0 && altb RA (azero RA) (bLamd blk))%bool = false).
    { destruct Hl as [Hl|Hl].
      - apply Nat.eqb_neq in Hl. rewrite Hl. reflexivity.
      - ra_simpl. replace (Rltb 0 (bLamd blk)) with false by (symmetry; apply Rltb_false; exact Hl).
        apply andb_false_r. }
    rewrite E. unfold cdivd, cmuld, cneg, cI, Cscal, Cj. cbn [fst snd]. ra_simpl. f_equal; field.
  Qed.

  Theorem eddy_mass_consistent (P : probR) w el a j k :
    let blk := nth (mblk el) (mblocks P) (dmblock RA) in
    (j < 3)%nat -> (k < 3)%nat ->
    is_wound RA P (nth (mlbl el) (mlabels P) dmlabel) = false ->
    (bLamType blk <> 0%nat \/ ~ (0 < bLamd blk)) ->
    h3get RA (eddy_add RA (repeat (0, 0) 9) (eddy_K RA P w el a)) j k
      = Cscal (- (w * bCduct blk * c4pi RA) * (a / 12 * (if Nat.eqb j k then 2 else 1))) Cj.
  Proof.
    intros blk Hj Hk Hw Hl. rewrite eddy_add_pattern by assumption.
    rewrite (eddy_K_value P w el a Hw Hl). fold blk. unfold Cscal, Cj. cbn [fst snd].
    destruct (Nat.eqb j k); f_equal; ring.
  Qed.

  (* wound regions and in-plane laminated blocks get no eddy term at all *)
  Theorem eddy_K_zero (P : probR) w el a :
    let blk := nth (mblk el) (mblocks P) (dmblock RA) in
    (is_wound RA P (nth (mlbl el) (mlabels P) dmlabel) = true \/ (bLamType blk = 0%nat /\ 0 < bLamd blk)) ->
    eddy_K RA P w el a = (0, 0).
  Proof.
    intros blk [Hw|[Hl Hd]]; unfold eddy_K; fold blk.
    - rewrite Hw. reflexivity.
    - rewrite Hl. cbn [Nat.eqb andb]. ra_simpl.
      replace (Rltb 0 (bLamd blk)) with true by (symmetry; apply Rltb_true; exact Hd).
      destruct (is_wound RA P _); reflexivity.
  Qed.
End Eddy.

(* ------------------------------------------------------------------------------------------ *)
Section HElement.
  Variables (P : probR) (X : list (hexp (F:=R))) (w : R) (res : list (nat * C * C)).

  Lemma clen9_explicit (Me : list C) : length Me = 9%nat ->
    exists m0 m1 m2 m3 m4 m5 m6 m7 m8, Me = [m0; m1; m2; m3; m4; m5; m6; m7; m8].
  Proof.
    intros H. repeat (destruct Me as [|? Me]; try discriminate H). do 9 eexists. reflexivity.
  Qed.

  Lemma hstiff_add_get (K : C) s0 s1 s2 j k : (j < 3)%nat -> (k < 3)%nat ->
    length (hstiff_add RA (repeat (0, 0) 9) K [s0; s1; s2]) = 9%nat /\
    h3get RA (hstiff_add RA (repeat (0, 0) 9) K [s0; s1; s2]) j k = Cscal (vgetR [s0; s1; s2] j * vgetR [s0; s1; s2] k) K.
  Proof.
    intros Hj Hk. split; [reflexivity|]. destruct K as [a b].
    destruct j as [|[|[|j]]]; try lia; destruct k as [|[|[|k]]]; try lia;
      cbn; unfold cadd, cmuld; cbn [fst snd]; ra_simpl; unfold Cscal; cbn [fst snd]; f_equal; ring.
  Qed.

  Lemma hxy_add_len (K : C) p0 p1 p2 q0 q1 q2 :
    length (hxy_add RA (repeat (0, 0) 9) K [p0; p1; p2] [q0; q1; q2]) = 9%nat.
  Proof. reflexivity. Qed.

  Lemma hcombine_me_get (Me Mx My Mxy : list C) mu1 mu2 j k :
    length Me = 9%nat -> length Mx = 9%nat -> length My = 9%nat -> length Mxy = 9%nat -> (j < 3)%nat -> (k < 3)%nat ->
    h3get RA (hcombine_me RA Me Mx My Mxy mu1 mu2) j k
      = Cadd (h3get RA Me j k) (Cadd (cdiv RA (h3get RA Mx j k) mu2) (cdiv RA (h3get RA My j k) mu1)).
  Proof.
    intros H1 H2 H3 H4 Hj Hk.
    destruct (clen9_explicit Me H1) as (a0 & a1 & a2 & a3 & a4 & a5 & a6 & a7 & a8 & ->).
    destruct (clen9_explicit Mx H2) as (b0 & b1 & b2 & b3 & b4 & b5 & b6 & b7 & b8 & ->).
    destruct (clen9_explicit My H3) as (c0 & c1 & c2 & c3 & c4 & c5 & c6 & c7 & c8 & ->).
    destruct (clen9_explicit Mxy H4) as (d0 & d1 & d2 & d3 & d4 & d5 & d6 & d7 & d8 & ->).
    destruct j as [|[|[|j]]]; try lia; destruct k as [|[|[|k]]]; try lia;
      unfold hcombine_me; cbn [fold_left]; unfold h3add, h3get; cbn [Nat.mul Nat.add nth vset];
      unfold Cadd, cadd, cmul; cbn [fst snd]; ra_simpl; f_equal; ring.
  Qed.

  Lemma hmixed_none g el acc :
    no_mixed_edge P el -> fold_left (hmixed_step RA P g el) [0%nat; 1%nat; 2%nat] acc = acc.
  Proof.
    intros He. unfold hmixed_step. cbn [fold_left].
    pose proof (He 0%nat ltac:(lia)) as H0. pose proof (He 1%nat ltac:(lia)) as H1. pose proof (He 2%nat ltac:(lia)) as H2.
    destruct (tri_get (me el) 0) as [s0|]; [apply Nat.eqb_neq in H0; rewrite H0|];
      (destruct (tri_get (me el) 1) as [s1|]; [apply Nat.eqb_neq in H1; rewrite H1|]);
      (destruct (tri_get (me el) 2) as [s2|]; [apply Nat.eqb_neq in H2; rewrite H2|]); reflexivity.
  Qed.

  Lemma eddy_add_len (K : C) : length (eddy_add RA (repeat (0, 0) 9) K) = 9%nat.
  Proof. reflexivity. Qed.

  (* the complex element matrix of Harmonic2D (no mixed-boundary edge):
       Me[j][k] = eddy term  -  area * ( (1/mu2) dphi_j/dx dphi_k/dx + (1/mu1) dphi_j/dy dphi_k/dy )
     with complex reluctivities 1/mu1 (x direction, on the y-derivatives) and 1/mu2; the matrix is
     ADDED to the system and the right-hand side is be, i.e. the equations are those of
     curl(nu curl A) + j w sigma A = J multiplied by -1 *)
  Theorem hMel_is_curlcurl el j k :
    no_mixed_edge P el -> (j < 3)%nat -> (k < 3)%nat ->
    let g := mel_geom RA P el in
    let blk := nth (mblk el) (mblocks P) (dmblock RA) in
    let mu := block_mu RA w blk (nth (mblk el) X (dhexp RA)) in
    ga g <> 0 -> fst mu <> (0, 0) -> snd mu <> (0, 0) ->
    h3get RA (fst (fst (fst (helem_matrices RA P X w res el)))) j k =
      Cadd (h3get RA (eddy_add RA (repeat (0, 0) 9) (eddy_K RA P w el (ga g))) j k)
           (Cscal (- ga g) (Cadd (Cscal (dphidx g j * dphidx g k) (Cinv (snd mu)))
                                 (Cscal (dphidy g j * dphidy g k) (Cinv (fst mu))))).
  Proof.
    intros He Hj Hk g blk mu Ha H1 H2. unfold helem_matrices. cbv zeta.
    fold g. fold blk. rewrite hmixed_none by exact He. fold mu.
    destruct mu as [mu1 mu2] eqn:Emu. cbn [fst snd] in *.
    assert (Hgp : gp g = [vgetR (gp g) 0; vgetR (gp g) 1; vgetR (gp g) 2]) by reflexivity.
    assert (Hgq : gq g = [vgetR (gq g) 0; vgetR (gq g) 1; vgetR (gq g) 2]) by reflexivity.
    set (K := (aneg RA (aone RA) / (4 * ga g), 0) : C).
    destruct (hstiff_add_get K (vgetR (gp g) 0) (vgetR (gp g) 1) (vgetR (gp g) 2) j k Hj Hk) as [Lx Gx].
    destruct (hstiff_add_get K (vgetR (gq g) 0) (vgetR (gq g) 1) (vgetR (gq g) 2) j k Hj Hk) as [Ly Gy].
    pose proof (hxy_add_len K (vgetR (gp g) 0) (vgetR (gp g) 1) (vgetR (gp g) 2)
                  (vgetR (gq g) 0) (vgetR (gq g) 1) (vgetR (gq g) 2)) as Lxy.
    rewrite <- Hgp in Lx, Gx, Lxy. rewrite <- Hgq in Ly, Gy, Lxy.
    ra_simpl. fold K.
    rewrite hcombine_me_get; auto using eddy_add_len.
    rewrite Gx, Gy. rewrite !cdiv_spec by assumption.
    unfold Cadd, Cscal, Cmul, Cinv, K, dphidx, dphidy. cbn [fst snd]. ra_simpl.
    pose proof (Cnorm_pos mu1 H1) as N1. pose proof (Cnorm_pos mu2 H2) as N2.
    destruct mu1 as [a1 b1]. destruct mu2 as [a2 b2]. cbn [fst snd] in *.
    f_equal; field; repeat split; assumption.
  Qed.
End HElement.

(* ------------------------------------------------------------------------------------------ *)
Section HLamination.
  (* what Harmonic2D takes as complex permeability of a LamType-0 block *)
  Theorem hlam_mixing (w : R) (b : mblock (F:=R)) (x : hexp (F:=R)) :
    bLamType b = 0%nat ->
    (bLamd b = 0 -> block_mu RA w b x = (Cscal (bmux b) (hex x), Cscal (bmuy b) (hey x))) /\
    (bLamd b <> 0 -> bCduct b = 0 ->
       block_mu RA w b x = (Cadd (Cscal (bLamFill b) (Cscal (bmux b) (hex x))) (1 - bLamFill b, 0),
                            Cadd (Cscal (bLamFill b) (Cscal (bmuy b) (hey x))) (1 - bLamFill b, 0))) /\
    (bLamd b <> 0 -> bCduct b <> 0 ->
       block_mu RA w b x = (lam_mix RA b (cmuld RA (hex x) (bmux b)) (htx x) (lam_K RA w b (bmux b) (hhx x)),
                            lam_mix RA b (cmuld RA (hey x) (bmuy b)) (hty x) (lam_K RA w b (bmuy b) (hhy x)))).
  Proof.
    intros Ht. unfold block_mu. rewrite Ht. cbn [Nat.eqb]. ra_simpl. repeat split.
    - intros Hd. replace (Reqb (bLamd b) 0) with true by (symmetry; apply Reqb_true; exact Hd).
      unfold cmuld, Cscal. ra_simpl. f_equal; f_equal; ring.
    - intros Hd Hc. replace (Reqb (bLamd b) 0) with false by (symmetry; apply Reqb_false; exact Hd).
      replace (Reqb (bCduct b) 0) with true by (symmetry; apply Reqb_true; exact Hc).
      unfold caddd, cmuld, Cadd, Cscal. cbn [fst snd]. ra_simpl. f_equal; f_equal; ring.
    - intros Hd Hc. replace (Reqb (bLamd b) 0) with false by (symmetry; apply Reqb_false; exact Hd).
      replace (Reqb (bCduct b) 0) with false by (symmetry; apply Reqb_false; exact Hc). reflexivity.
  Qed.

  (* the eddy-current lamination formula: fill * mu * tanh(K)/K + (1 - fill) *)
  Theorem lam_mix_formula (b : mblock (F:=R)) (Mu th K : C) : K <> (0, 0) ->
    lam_mix RA b Mu th K = Cadd (Cscal (bLamFill b) (Cmul (Cmul Mu th) (Cinv K))) (1 - bLamFill b, 0).
  Proof.
    intros HK. unfold lam_mix. rewrite cdiv_spec by exact HK.
    unfold caddd, cmuld, Cadd, Cscal, cmul, Cmul. cbn [fst snd]. ra_simpl. f_equal; ring.
  Qed.

  (* the static solver mixes iron and air with the fill factor whatever d_lam is; the harmonic solver
     drops the fill factor when d_lam = 0: not the parallel mixture *)
  Theorem harmonic_fill_without_dlam_refuted :
    exists (w : R) (b : mblock (F:=R)) (x : hexp (F:=R)),
      bLamType b = 0%nat /\ x = dhexp RA /\
      el_mu RA b = (mu_par (bLamFill b) (bmux b), mu_par (bLamFill b) (bmuy b)) /\
      fst (block_mu RA w b x) <> (mu_par (bLamFill b) (bmux b), 0).
  Proof.
    exists 1, (mkMBlock 3 3 0 0 0 0 0 0 0 0 (1 / 2)), (dhexp RA).
    split; [reflexivity|]. split; [reflexivity|]. split.
    - apply (proj1 (lam_mixing_series_parallel _)). reflexivity.
    - unfold block_mu, mu_par. cbn [bLamType bLamd bmux bLamFill Nat.eqb]. ra_simpl.
      replace (Reqb 0 0) with true by (symmetry; apply Reqb_true; reflexivity).
      unfold cmuld, dhexp. cbn [fst snd hex]. ra_simpl. intro H. inversion H. lra.
  Qed.
End HLamination.

(* ------------------------------------------------------------------------------------------ *)
Section HWritten.
  (* the potentials written are V*c, the voltage gradient of a Case-2 circuit is j c w V *)
  Theorem hwritten_node nn freq (V : list C) i : (i < nn)%nat -> (i < length V)%nat ->
    nth i (hwritten RA nn freq V) (0, 0) = Cscal (c4pi RA) (nth i V (0, 0)).
  Proof.
    intros Hn Hi. unfold hwritten.
    assert (G : forall (V : list C) a i, (i < length V)%nat ->
      nth i (map (fun iv : nat * C => if Nat.ltb (fst iv) nn then cmuld RA (snd iv) (c4pi RA)
                                     else cmul RA (cmuld RA (cmuld RA (cI RA) (c4pi RA)) (wfreq RA freq)) (snd iv))
                 (combine (seq a (length V)) V)) (0, 0)
      = (fun iv : nat * C => if Nat.ltb (fst iv) nn then cmuld RA (snd iv) (c4pi RA)
                             else cmul RA (cmuld RA (cmuld RA (cI RA) (c4pi RA)) (wfreq RA freq)) (snd iv)) ((a + i)%nat, nth i V (0, 0))).
    { clear. induction V as [|v V IH]; intros a i Hi; [cbn in Hi; lia|].
      destruct i as [|i]; cbn [length seq combine map nth].
      - rewrite Nat.add_0_r. reflexivity.
      - rewrite IH by (cbn in Hi; lia). cbn [fst snd]. replace (S a + i)%nat with (a + S i)%nat by lia. reflexivity. }
    rewrite (G V 0%nat i Hi). cbn [fst snd Nat.add].
    replace (Nat.ltb i nn) with true by (symmetry; apply Nat.ltb_lt; exact Hn).
    unfold cmuld, Cscal. ra_simpl. f_equal; ring.
  Qed.

  Theorem hwritten_circuit_coefficient freq :
    cmuld RA (cmuld RA (cI RA) (c4pi RA)) (wfreq RA freq) = Cscal (c4pi RA * (freq * 2 * PI)) Cj.
  Proof. unfold cmuld, cI, wfreq, Cscal, Cj. cbn [fst snd]. ra_simpl. f_equal; ring. Qed.
End HWritten.

(* ------------------------------------------------------------------------------------------ *)
Section CStructure.
  Local Notation CC := (CA RA).
  Implicit Type M : matrixT C.

  Definition capply_mop M (o : nat * nat * C) : matrixT C := let '(p, q, v) := o in caddto RA M v p q.
  Definition capply_bop (b : list C) (o : nat * C) : list C := let '(i, v) := o in vset b i (cadd RA (vget CC b i) v).
  Definition capply_mops M (ops : list (nat * nat * C)) : matrixT C := fold_left capply_mop ops M.
  Definition capply_bops (b : list C) (ops : list (nat * C)) : list C := fold_left capply_bop ops b.

  Definition cmop_entry (o : nat * nat * C) (i j : nat) : C :=
    let '(p, q, v) := o in if same_key p q i j then v else (0, 0).
  Definition cbop_entry (o : nat * C) (i : nat) : C := let '(k, v) := o in if Nat.eqb k i then v else (0, 0).
  Fixpoint clsum {T} (f : T -> C) (l : list T) : C :=
    match l with [] => (0, 0) | x :: t => Cadd (f x) (clsum f t) end.

  Definition cmops_in_range (n : nat) (ops : list (nat * nat * C)) : Prop :=
    Forall (fun o => (fst (fst o) < n)%nat /\ (snd (fst o) < n)%nat) ops.

  Lemma Cadd_assoc x y z : Cadd (Cadd x y) z = Cadd x (Cadd y z).
  Proof. unfold Cadd. cbn [fst snd]. f_equal; ring. Qed.
  Lemma Cadd_0_r x : Cadd x (0, 0) = x.
  Proof. destruct x. unfold Cadd. cbn [fst snd]. f_equal; ring. Qed.

  Lemma capply_mop_spec M o : mat_ok M -> (fst (fst o) < length M)%nat -> (snd (fst o) < length M)%nat ->
    mat_ok (capply_mop M o) /\ length (capply_mop M o) = length M /\
    forall i j, mget CC (capply_mop M o) i j = Cadd (mget CC M i j) (cmop_entry o i j).
  Proof.
    destruct o as [[p q] v]. cbn [fst snd capply_mop]. intros Hok Hp Hq. unfold caddto, maddto.
    split; [apply mput_ok; auto|]. split; [apply mput_length|].
    intros i j. pose proof (abs_mput CC M (aadd CC (mget CC M p q) v) p q Hok Hp Hq i j) as G.
    unfold abs, aput in G. rewrite G. unfold cmop_entry.
    destruct (same_key p q i j) eqn:E; [|rewrite Cadd_0_r; reflexivity].
    apply same_key_spec in E. destruct E as [[-> ->]|[-> ->]]; [reflexivity|].
    rewrite (mget_sym CC M q p). reflexivity.
  Qed.

  (* the complex system matrix after any sequence of  L.AddTo / L.Put(L.Get(..)+v,..)  statements:
     every entry is the initial entry plus the sum of the statements' contributions *)
  Theorem capply_mops_spec ops : forall M, mat_ok M -> cmops_in_range (length M) ops ->
    mat_ok (capply_mops M ops) /\ length (capply_mops M ops) = length M /\
    forall i j, mget CC (capply_mops M ops) i j = Cadd (mget CC M i j) (clsum (fun o => cmop_entry o i j) ops).
  Proof.
    induction ops as [|o ops IH]; intros M Hok Hr.
    - cbn. split; [auto|]. split; [auto|]. intros. rewrite Cadd_0_r. reflexivity.
    - apply Forall_cons_iff in Hr. destruct Hr as [[Hp Hq] Hr].
      destruct (capply_mop_spec M o Hok Hp Hq) as (W1 & L1 & E1).
      destruct (IH (capply_mop M o) W1) as (W & L & E); [rewrite L1; auto|].
      unfold capply_mops in *. cbn [fold_left].
      split; [auto|]. split; [lia|]. intros i j. rewrite E, E1. cbn [clsum]. apply Cadd_assoc.
  Qed.

  Theorem capply_bops_spec ops : forall (b : list C), Forall (fun o => (fst o < length b)%nat) ops ->
    length (capply_bops b ops) = length b /\
    forall i, vget CC (capply_bops b ops) i = Cadd (vget CC b i) (clsum (fun o => cbop_entry o i) ops).
  Proof.
    induction ops as [|[k v] ops IH]; intros b Hr.
    - cbn. split; [auto|]. intros. rewrite Cadd_0_r. reflexivity.
    - apply Forall_cons_iff in Hr. destruct Hr as [Hk Hr]. cbn [fst] in Hk.
      unfold capply_bops in *. cbn [fold_left capply_bop].
      destruct (IH (vset b k (cadd RA (vget CC b k) v))) as [L E]; [rewrite vset_length; auto|].
      split; [rewrite L; apply vset_length|].
      intros i. rewrite E, (vget_vset CC) by auto. cbn [clsum cbop_entry].
      rewrite (Nat.eqb_sym k i). destruct (Nat.eqb_spec i k) as [->|].
      + rewrite <- Cadd_assoc. reflexivity.
      + rewrite <- Cadd_assoc, Cadd_0_r. reflexivity.
  Qed.

  Lemma capply_mops_app M o1 o2 : capply_mops M (o1 ++ o2) = capply_mops (capply_mops M o1) o2.
  Proof. unfold capply_mops. apply fold_left_app. Qed.
  Lemma capply_bops_app b o1 o2 : capply_bops b (o1 ++ o2) = capply_bops (capply_bops b o1) o2.
  Proof. unfold capply_bops. apply fold_left_app. Qed.
End CStructure.

(* ------------------------------------------------------------------------------------------ *)
Section HLoop.
  Variables (P : probR) (X : list (hexp (F:=R))) (w : R) (res : list (nat * C * C)) (nn : nat).

  Definition case2_K (el : elemR) : C :=
    cmuld RA (cmuld RA (cmuld RA (cmuld RA (cneg RA (cI RA)) (ga (mel_geom RA P el))) w)
                           (bCduct (nth (mblk el) (mblocks P) (dmblock RA)))) (c4pi RA).

  Definition hstep_mops (el : elemR) : list (nat * nat * C) :=
    let r := helem_matrices RA P X w res el in
    let Me := fst (fst (fst r)) in
    let t := tri_get (mp el) in
    (match snd (hcirc_Jv RA P res el) with
     | None => []
     | Some k => [(t 0%nat, (nn + k)%nat, cdivd RA (case2_K el) 3); (t 1%nat, (nn + k)%nat, cdivd RA (case2_K el) 3);
                  (t 2%nat, (nn + k)%nat, cdivd RA (case2_K el) 3); ((nn + k)%nat, (nn + k)%nat, case2_K el)]
     end) ++
    [(t 0%nat, t 0%nat, h3get RA Me 0 0); (t 0%nat, t 1%nat, h3get RA Me 0 1); (t 0%nat, t 2%nat, h3get RA Me 0 2);
     (t 1%nat, t 1%nat, h3get RA Me 1 1); (t 1%nat, t 2%nat, h3get RA Me 1 2); (t 2%nat, t 2%nat, h3get RA Me 2 2)].

  Definition hstep_bops (el : elemR) : list (nat * C) :=
    let r := helem_matrices RA P X w res el in
    let be := snd (fst (fst r)) in let Kj := snd (fst r) in
    let t := tri_get (mp el) in
    (match snd (hcirc_Jv RA P res el) with
     | None => []
     | Some k => [((nn + k)%nat, Cadd (Cadd Kj Kj) Kj)]
     end) ++ [(t 0%nat, vget (CA RA) be 0); (t 1%nat, vget (CA RA) be 1); (t 2%nat, vget (CA RA) be 2)].

  Lemma helem_step_rhs M b el :
    snd (helem_step RA P X w res nn (M, b) el) = capply_bops b (hstep_bops el).
  Proof.
    unfold helem_step, hstep_bops.
    destruct (helem_matrices RA P X w res el) as [[[Me be] Kj] mu]. cbn [fst snd].
    destruct (snd (hcirc_Jv RA P res el)) as [k|]; cbn [fold_left Nat.leb app capply_bops capply_bop fst snd]; ra_simpl;
      [|reflexivity].
    replace (cadd RA (cadd RA (cadd RA (vget (CA RA) b (nn + k)) Kj) Kj) Kj)
      with (cadd RA (vget (CA RA) b (nn + k)) (Cadd (Cadd Kj Kj) Kj))
      by (unfold cadd, Cadd; cbn [fst snd]; ra_simpl; f_equal; ring).
    reflexivity.
  Qed.

  Theorem hloop_rhs : forall els M b,
    snd (fold_left (helem_step RA P X w res nn) els (M, b)) = capply_bops b (flat_map hstep_bops els).
  Proof.
    induction els as [|el els IH]; intros M b; [reflexivity|].
    cbn [fold_left flat_map]. rewrite capply_bops_app.
    rewrite <- (helem_step_rhs M b el).
    destruct (helem_step RA P X w res nn (M, b) el) as [M1 b1]. cbn [snd]. apply IH.
  Qed.

  Lemma helem_step_matrix M b el :
    fst (helem_step RA P X w res nn (M, b) el) = capply_mops M (hstep_mops el).
  Proof.
    unfold helem_step, hstep_mops.
    destruct (helem_matrices RA P X w res el) as [[[Me be] Kj] mu]. cbn [fst snd].
    fold (case2_K el).
    destruct (snd (hcirc_Jv RA P res el)) as [k|]; cbn [fold_left Nat.leb app capply_mops capply_mop fst snd]; ra_simpl; reflexivity.
  Qed.

  (* the matrix part of the element loop of Harmonic2D is a sequence of "+= contribution" statements *)
  Theorem hloop_matrix : forall els M b,
    fst (fold_left (helem_step RA P X w res nn) els (M, b)) = capply_mops M (flat_map hstep_mops els).
  Proof.
    induction els as [|el els IH]; intros M b; [reflexivity|].
    cbn [fold_left flat_map]. rewrite capply_mops_app.
    rewrite <- (helem_step_matrix M b el).
    destruct (helem_step RA P X w res nn (M, b) el) as [M1 b1]. cbn [fst]. apply IH.
  Qed.
End HLoop.

(* ------------------------------------------------------------------------------------------ *)
Section HCircuits.
  Variable P : probR.
  Local Notation CC := (CA RA).

  Definition I3im (i : nat) : R := csum P (fun el => bJim (el_blk P el) * el_area P el * 100) i (melems P).

  Lemma hcirc_step_spec (c1 c2 c3 : list C) el i :
    (i < length c1)%nat -> (i < length c2)%nat -> (i < length c3)%nat ->
    let r := hcirc_step RA P (c1, c2, c3) el in
    (length (fst (fst r)) = length c1 /\ length (snd (fst r)) = length c2 /\ length (snd r) = length c3) /\
    vget CC (fst (fst r)) i = Cadd (vget CC c1 i) (if in_circ P el i then (el_area P el, 0) else (0, 0)) /\
    vget CC (snd (fst r)) i = Cadd (vget CC c2 i)
       (if in_circ P el i then (el_area P el * (if el_wound P el then 0 else bCduct (el_blk P el)), 0) else (0, 0)) /\
    vget CC (snd r) i = Cadd (vget CC c3 i)
       (if in_circ P el i then (bJre (el_blk P el) * el_area P el * 100, bJim (el_blk P el) * el_area P el * 100) else (0, 0)).
  Proof.
    intros H1 H2 H3. unfold hcirc_step, in_circ.
    fold (el_wound P el). fold (el_blk P el). fold (el_area P el).
    destruct (lcirc (nth (mlbl el) (mlabels P) dmlabel)) as [ic|]; cbn [fst snd].
    - rewrite !vset_length. split; [auto|].
      destruct (Nat.eqb_spec ic i) as [->|Hne].
      + rewrite !(vget_vset_same CC) by auto.
        unfold re_I_im, cI. unfold caddd, cadd, cmuld, Cadd. cbn [fst snd]. ra_simpl.
        destruct (el_wound P el); repeat split; f_equal; ring.
      + rewrite !(vget_vset_other CC) by auto. unfold Cadd. cbn [fst snd].
        repeat split; destruct (vget CC _ i); cbn [fst snd]; f_equal; ring.
    - split; [auto|]. unfold Cadd. cbn [fst snd].
      repeat split; destruct (vget CC _ i); cbn [fst snd]; f_equal; ring.
  Qed.

  Definition Ccsum (fr fi : elemR -> R) (i : nat) (els : list elemR) : C := (csum P fr i els, csum P fi i els).

  Lemma hcirc_fold_spec els : forall (c1 c2 c3 : list C) i,
    (i < length c1)%nat -> (i < length c2)%nat -> (i < length c3)%nat ->
    let r := fold_left (hcirc_step RA P) els (c1, c2, c3) in
    vget CC (fst (fst r)) i = Cadd (vget CC c1 i) (Ccsum (el_area P) (fun _ => 0) i els) /\
    vget CC (snd (fst r)) i = Cadd (vget CC c2 i)
        (Ccsum (fun el => el_area P el * (if el_wound P el then 0 else bCduct (el_blk P el))) (fun _ => 0) i els) /\
    vget CC (snd r) i = Cadd (vget CC c3 i)
        (Ccsum (fun el => bJre (el_blk P el) * el_area P el * 100) (fun el => bJim (el_blk P el) * el_area P el * 100) i els).
  Proof.
    induction els as [|el els IH]; intros c1 c2 c3 i H1 H2 H3.
    - cbv zeta. cbn [fold_left fst snd]. unfold Ccsum, csum, Cadd. cbn [lsum fst snd].
      repeat split; destruct (vget CC _ i); cbn [fst snd]; f_equal; ring.
    - cbn [fold_left].
      destruct (hcirc_step_spec c1 c2 c3 el i H1 H2 H3) as ((L1 & L2 & L3) & S1 & S2 & S3).
      destruct (hcirc_step RA P (c1, c2, c3) el) as [[d1 d2] d3]. cbn [fst snd] in *.
      destruct (IH d1 d2 d3 i) as (G1 & G2 & G3); try lia.
      cbv zeta in *. rewrite G1, G2, G3, S1, S2, S3. unfold Ccsum, csum, Cadd. cbn [lsum fst snd].
      repeat split; destruct (in_circ P el i); cbn [fst snd]; f_equal; ring.
  Qed.

  Lemma vget_repeat00 n i : vget CC (repeat (0, 0) n) i = (0, 0).
  Proof. unfold vget. revert i. induction n; intros [|i]; cbn; auto. Qed.

  Lemma csum_zero i els : csum P (fun _ => 0) i els = 0.
  Proof. unfold csum. induction els as [|el els IH]; cbn [lsum]; [reflexivity|]. rewrite IH. destruct (in_circ P el i); lra. Qed.

  Lemma hcirc_results_nth i : (i < length (mcircs P))%nat ->
    nth i (hcirc_results RA P) (dhres RA)
      = hcirc_case RA (nth i (mcircs P) (dmcirc RA)) (I1 P i, 0) (I2 P i, 0) (I3 P i, I3im i).
  Proof.
    intros Hi. unfold hcirc_results, hcirc_ints.
    destruct (hcirc_fold_spec (melems P) (repeat (0, 0) (length (mcircs P))) (repeat (0, 0) (length (mcircs P)))
                (repeat (0, 0) (length (mcircs P))) i) as (G1 & G2 & G3); try (rewrite repeat_length; exact Hi).
    ra_simpl.
    destruct (fold_left (hcirc_step RA P) (melems P) _) as [[c1 c2] c3]. cbn [fst snd] in *.
    rewrite (nth_map_combine_seq _ (mcircs P) (dmcirc RA)) by exact Hi. cbn [fst snd].
    rewrite G1, G2, G3, !vget_repeat00. unfold Ccsum, Cadd. cbn [fst snd]. rewrite !csum_zero.
    unfold I1, I2, I3, I3im. repeat (f_equal; try ring).
  Qed.

  Lemma hcirc_Jv_in res el i : in_circ P el i = true ->
    fst (hcirc_Jv RA P res el) =
      (let '(case, J, dV) := nth i res (dhres RA) in
       if Nat.eqb case 0 then cmuld RA (cneg RA dV) (bCduct (el_blk P el)) else if Nat.eqb case 1 then J else (0, 0)).
  Proof.
    unfold in_circ, hcirc_Jv. destruct (lcirc (nth (mlbl el) (mlabels P) dmlabel)) as [c|]; [|discriminate].
    intros E. apply Nat.eqb_eq in E. subst c.
    destruct (nth i res (dhres RA)) as [[case J] dV]. fold (el_blk P el). cbn [fst].
    destruct (Nat.eqb case 0); reflexivity.
  Qed.

  (* (e) harmonic Case 1: complex flat current density; the total of the applied (block + circuit) source
     density over the circuit's elements is the prescribed complex current *)
  Theorem hcircuit_current_reproduced i :
    (i < length (mcircs P))%nat ->
    let c := nth i (mcircs P) (dmcirc RA) in
    cType c = 0%nat -> I2 P i = 0 -> I1 P i <> 0 ->
    let res := hcirc_results RA P in
    fst (fst (nth i res (dhres RA))) = 1%nat /\
    (csum P (fun el => (bJre (el_blk P el) + fst (fst (hcirc_Jv RA P res el))) * el_area P el * 100) i (melems P),
     csum P (fun el => (bJim (el_blk P el) + snd (fst (hcirc_Jv RA P res el))) * el_area P el * 100) i (melems P))
      = (cAre c, cAim c).
  Proof.
    intros Hi c Ht H2 H1 res.
    assert (E : nth i res (dhres RA) =
                (1%nat, ((cAre c - I3 P i) * (1 / 100) / I1 P i, (cAim c - I3im i) * (1 / 100) / I1 P i), (0, 0))).
    { unfold res. rewrite hcirc_results_nth by exact Hi. fold c. unfold hcirc_case. rewrite Ht. cbn [Nat.eqb].
      unfold ceq0. cbn [fst snd]. ra_simpl. rewrite H2.
      replace (Reqb 0 0) with true by (symmetry; apply Reqb_true; reflexivity).
      replace (Reqb (I1 P i) 0) with false by (symmetry; apply Reqb_false; exact H1). cbn [andb].
      rewrite cdiv_spec by (intro Hz; inversion Hz; contradiction).
      f_equal. f_equal. unfold re_I_im, cI. unfold Cmul, Cinv, cmuld, csub. cbn [fst snd]. ra_simpl. rewrite e2_val.
      f_equal; field; exact H1. }
    split; [rewrite E; reflexivity|].
    f_equal.
    - rewrite (csum_ext P _ (fun el => bJre (el_blk P el) * el_area P el * 100
                                     + ((cAre c - I3 P i) * (1 / 100) / I1 P i * 100) * el_area P el)).
      + match goal with |- csum P (fun el => _ + ?K * _) _ _ = _ =>
          assert (Q : csum P (fun el => bJre (el_blk P el) * el_area P el * 100 + K * el_area P el) i (melems P) = I3 P i + K * I1 P i)
            by (rewrite csum_plus, csum_scal; reflexivity); rewrite Q end.
        field. exact H1.
      + intros el Hin. rewrite (hcirc_Jv_in res el i Hin), E. cbn [Nat.eqb fst snd]. ring.
    - rewrite (csum_ext P _ (fun el => bJim (el_blk P el) * el_area P el * 100
                                     + ((cAim c - I3im i) * (1 / 100) / I1 P i * 100) * el_area P el)).
      + match goal with |- csum P (fun el => _ + ?K * _) _ _ = _ =>
          assert (Q : csum P (fun el => bJim (el_blk P el) * el_area P el * 100 + K * el_area P el) i (melems P) = I3im i + K * I1 P i)
            by (rewrite csum_plus, csum_scal; reflexivity); rewrite Q end.
        field. exact H1.
      + intros el Hin. rewrite (hcirc_Jv_in res el i Hin), E. cbn [Nat.eqb fst snd]. ring.
  Qed.

  (* the label lines of WriteHarmonic2D reproduce the applied source density (Case 0 / 1; for Case 2 the
     line carries the solved voltage gradient b[NumNodes+i] = j c w V, which enters the equations through
     the circuit unknown) *)
  Definition happlied_from_written (wl : nat * C) (sigma : R) : C :=
    if Nat.eqb (fst wl) 0 then cmuld RA (cneg RA (snd wl)) sigma else snd wl.

  Theorem hwritten_circuit_data_matches_applied res nn bfinal el :
    (forall k, fst (fst (nth k res (dhres RA))) <> 2%nat) ->
    (forall k, (fst (fst (nth k res (dhres RA))) <= 2)%nat) ->
    fst (hcirc_Jv RA P res el)
      = happlied_from_written (hwritten_label RA res nn bfinal (nth (mlbl el) (mlabels P) dmlabel)) (bCduct (el_blk P el)).
  Proof.
    intros Hn2 Hle. unfold hcirc_Jv, hwritten_label, happlied_from_written.
    destruct (lcirc (nth (mlbl el) (mlabels P) dmlabel)) as [k|]; [|reflexivity].
    specialize (Hn2 k). specialize (Hle k).
    destruct (nth k res (dhres RA)) as [[case J] dV]. cbn [fst snd] in *. fold (el_blk P el).
    destruct case as [|[|[|case]]]; try lia; try congruence; cbn [Nat.eqb fst snd]; reflexivity.
  Qed.
End HCircuits.
