(* AsmMH.v — executable model of the LINEAR path of FSolver::Harmonic2D and of the per-label
   lines of FSolver::WriteHarmonic2D (cfemm/fsolver/harmonic2d.cpp), statement by statement and
   operator by operator as femmcomplex.cpp evaluates the mixed double / CComplex expressions,
   on the post-LoadMesh / post-Cuthill data (AsmM.mprob) plus the libm values of the complex
   permeabilities.  The linear system is the CBigComplexLinProb of CSparse.v with
   NumNodes + NumCircProps unknowns.
   NOT modelled (never generated): air-gap elements, BH curves (successive approximation /
   Newton, ACSolver = 1), LamType > 2 (ProximityMu), LamType 1/2 (Harmonic2D refuses them),
   BdryFormat 1 (small skin depth), polar boundary coordinates, previous solutions.  With
   BHpoints = 0 the loop runs once, Mn = 0 and  be[j] += Mn[j][k]*L.V[n[k]]  adds 0.
   libm inputs per block (hexp): ex = exp(-I*Theta_hx*DEG), ey, hx = exp(-I*Theta_hx*DEG/2.),
   hy, tx = tanh(K) for the K of harmonic2d.cpp:190, ty (line 196); per boundary property
   exp(I*phi*DEG) (AsmM.lexre/lexim).  No proofs in this file. *)
From Coq Require Import ZArith List Bool Arith.
From XF Require Import Arith Sparse CSparse AsmE AsmM.
Import ListNotations.

Section AsmMH.
  Context {F : Type} (A : Arith F).
  Local Notation "x +. y" := (aadd A x y) (at level 50, left associativity).
  Local Notation "x -. y" := (asub A x y) (at level 50, left associativity).
  Local Notation "x *. y" := (amul A x y) (at level 40, left associativity).
  Local Notation "x /. y" := (adiv A x y) (at level 40, left associativity).
  Local Notation zero := (azero A).
  Local Notation one := (aone A).
  Local Notation "'#' z" := (aofZ A z) (at level 9).
  Local Notation C := (CA A).
  Local Notation cplx := (F * F)%type.
  Local Notation cmatrix := (list (list (nat * (F * F)))).
  Local Notation cvec := (list (F * F)).
  Local Notation c0 := (zero, zero).

  Record hexp := mkHExp { hex : cplx; hey : cplx; hhx : cplx; hhy : cplx; htx : cplx; hty : cplx }.
  Definition dhexp := mkHExp (one, zero) (one, zero) (one, zero) (one, zero) c0 c0.

  (* ---- the mixed operators of femmcomplex.cpp ---- *)
  Definition cmuld (z : cplx) (d : F) : cplx := (fst z *. d, snd z *. d).      (* CComplex*double, double*CComplex *)
  Definition cdivd (z : cplx) (d : F) : cplx := (fst z /. d, snd z /. d).      (* CComplex/double *)
  Definition caddd (z : cplx) (d : F) : cplx := (fst z +. d, snd z).           (* CComplex+double *)
  Definition cI : cplx := (zero, one).                                         (* #define I CComplex(0,1) *)
  Definition re_I_im (re im : F) : cplx := (re +. fst (cmuld cI im), snd (cmuld cI im)).   (* re + I*im *)
  Definition ceq0 (z : cplx) : bool := aeqb A (fst z) zero && aeqb A (snd z) zero.          (* z == 0 *)

  Definition wfreq (freq : F) : F := freq *. #2 *. api A.                      (* w=Frequency*2.*PI *)
  Definition deg45 : cplx := (#1 +. zero, one).                                (* 1+I *)

  (* ---- circuit pre-pass (harmonic2d.cpp:96-170) ---- *)
  Definition hcirc_step (P : mprob (F:=F)) (acc : cvec * cvec * cvec) (el : melem (F:=F)) : cvec * cvec * cvec :=
    let '(c1, c2, c3) := acc in
    let lab := nth (mlbl el) (mlabels P) (dmlabel) in
    match lcirc lab with
    | None => acc
    | Some ic =>
        let a := ga (mel_geom A P el) in
        let blk := nth (mblk el) (mblocks P) (dmblock A) in
        let Cduct := if is_wound A P lab then zero else bCduct blk in
        (vset c1 ic (caddd (vget C c1 ic) a),
         vset c2 ic (caddd (vget C c2 ic) (a *. Cduct)),
         vset c3 ic (cadd A (vget C c3 ic) (cmuld (cmuld (re_I_im (bJre blk) (bJim blk)) a) #100)))
    end.

  Definition hcirc_ints (P : mprob (F:=F)) (nc : nat) : cvec * cvec * cvec :=
    fold_left (hcirc_step P) (melems P) (repeat c0 nc, repeat c0 nc, repeat c0 nc).

  (* (Case, J, dV) *)
  Definition hcirc_case (c : mcirc (F:=F)) (i1 i2 i3 : cplx) : nat * cplx * cplx :=
    if Nat.eqb (cType c) 0 then
      if ceq0 i2 then
        (1, (if ceq0 i1 then c0 else cdiv A (cmuld (csub A (re_I_im (cAre c) (cAim c)) i3) (e2 A)) i1), c0)
      else (2, c0, c0)
    else (0, c0, re_I_im (cdVre c) (cdVim c)).

  Definition hcirc_results (P : mprob (F:=F)) : list (nat * cplx * cplx) :=
    let nc := length (mcircs P) in
    let '(c1, c2, c3) := hcirc_ints P nc in
    map (fun ic => hcirc_case (snd ic) (vget C c1 (fst ic)) (vget C c2 (fst ic)) (vget C c3 (fst ic)))
        (combine (seq 0 nc) (mcircs P)).

  Definition dhres : nat * cplx * cplx := (1, c0, c0).

  (* ---- effective permeability of a block type (harmonic2d.cpp:176-215) ---- *)
  Definition lam_K (w : F) (b : mblock (F:=F)) (mu : F) (halflag : cplx) : cplx :=
    let ds := asqrt A (#2 /. (adec A 4 (-1) *. api A *. w *. bCduct b *. mu)) in
    cdivd (cmuld (cmuld (cmul A halflag deg45) (bLamd b)) (adec A 1 (-3))) (#2 *. ds).

  Definition lam_mix (b : mblock (F:=F)) (Mu th K : cplx) : cplx :=
    caddd (cmuld (cdiv A (cmul A Mu th) K) (bLamFill b)) (one -. bLamFill b).

  Definition block_mu (w : F) (b : mblock (F:=F)) (x : hexp) : cplx * cplx :=
    if Nat.eqb (bLamType b) 0 then
      let m0 := cmuld (hex x) (bmux b) in
      let m1 := cmuld (hey x) (bmuy b) in
      if aeqb A (bLamd b) zero then (m0, m1)
      else if aeqb A (bCduct b) zero then
        (caddd (cmuld m0 (bLamFill b)) (one -. bLamFill b), caddd (cmuld m1 (bLamFill b)) (one -. bLamFill b))
      else
        (lam_mix b m0 (htx x) (lam_K w b (bmux b) (hhx x)), lam_mix b m1 (hty x) (lam_K w b (bmuy b) (hhy x)))
    else ((#1, zero), (#1, zero)).

  (* ---- 3x3 complex element matrices ---- *)
  Definition h3get (M : cvec) (j k : nat) : cplx := nth (j * 3 + k) M c0.
  Definition h3add (M : cvec) (j k : nat) (v : cplx) : cvec := vset M (j * 3 + k) (cadd A (h3get M j k) v).
  Definition hv3add (b : cvec) (j : nat) (v : cplx) : cvec := vset b j (cadd A (vget C b j) v).

  Definition upper : list (nat * nat) := [(0,0);(0,1);(0,2);(1,1);(1,2);(2,2)].

  (* Mx[j][k] += K*p[j]*p[k]; if (j!=k) Mx[k][j]+=K*p[j]*p[k];   K complex, p double *)
  Definition hstiff_add (Me : cvec) (K : cplx) (s : list F) : cvec :=
    fold_left (fun Me jk =>
      let '(j, k) := jk in
      let v := cmuld (cmuld K (vget A s j)) (vget A s k) in
      let Me := h3add Me j k v in
      if Nat.eqb j k then Me else h3add Me k j v) upper Me.

  Definition hxy_add (Me : cvec) (K : cplx) (p q : list F) : cvec :=
    fold_left (fun Me jk =>
      let '(j, k) := jk in
      let v := cmuld K (vget A p j *. vget A q k +. vget A p k *. vget A q j) in
      let Me := h3add Me j k v in
      if Nat.eqb j k then Me else h3add Me k j v) upper Me.

  (* the eddy-current coefficient K=-I*a*w*Cduct*c/12. and its two overrides (lines 460-470) *)
  Definition eddy_K (P : mprob (F:=F)) (w : F) (el : melem (F:=F)) (a : F) : cplx :=
    let blk := nth (mblk el) (mblocks P) (dmblock A) in
    let K := cdivd (cmuld (cmuld (cmuld (cmuld (cneg A cI) a) w) (bCduct blk)) (c4pi A)) #12 in
    let K := if Nat.eqb (bLamType blk) 0 && altb A zero (bLamd blk) then c0 else K in
    if is_wound A P (nth (mlbl el) (mlabels P) dmlabel) then c0 else K.

  (* for j, for k>=j:  Me[j][k]+=K; Me[k][j]+=K; *)
  Definition eddy_add (Me : cvec) (K : cplx) : cvec :=
    fold_left (fun Me jk => let '(j, k) := jk in h3add (h3add Me j k K) k j K) upper Me.

  (* BdryFormat 2 (lines 486-500) *)
  Definition hmixed_step (P : mprob (F:=F)) (g : egeom) (el : melem (F:=F)) (acc : cvec * cvec) (j : nat) : cvec * cvec :=
    match tri_get (me el) j with
    | None => acc
    | Some s =>
        let lp := nth s (mlines P) (dmline A) in
        if Nat.eqb (mlfmt lp) 2 then
          let '(Me, be) := acc in
          let K := cdivd (cmuld (cmuld (lc0re lp, lc0im lp) (aneg A (e4 A) *. c4pi A)) (vget A (gl g) j)) #6 in
          let k := nxt j in
          let Me := h3add Me j j (cmuld K #2) in
          let Me := h3add Me k k (cmuld K #2) in
          let Me := h3add Me j k K in
          let Me := h3add Me k j K in
          let K := cmuld (cdivd (cmuld (lc1re lp, lc1im lp) (vget A (gl g) j)) #2) (e4 A) in
          (Me, hv3add (hv3add be j K) k K)
        else acc
    end.

  (* Jv of an element (lines 521-528) and whether its circuit is Case 2 *)
  Definition hcirc_Jv (P : mprob (F:=F)) (res : list (nat * cplx * cplx)) (el : melem (F:=F)) : cplx * option nat :=
    match lcirc (nth (mlbl el) (mlabels P) dmlabel) with
    | None => (c0, None)
    | Some k =>
        let '(case, J, dV) := nth k res dhres in
        let Jv := if Nat.eqb case 1 then J else c0 in
        let Jv := if Nat.eqb case 0 then cmuld (cneg A dV) (bCduct (nth (mblk el) (mblocks P) (dmblock A))) else Jv in
        (Jv, if Nat.eqb case 2 then Some k else None)
    end.

  (* Me[j][k]+= (Mx[j][k]/(El->mu2) + My[j][k]/(El->mu1) + Mxy[j][k] * (El->v12));  v12 = 0
     (harmonic2d.cpp:671-689, ACSolver == 0) *)
  Definition hcombine_me (Me Mx My Mxy : cvec) (mu1 mu2 : cplx) : cvec :=
    fold_left (fun Me jk =>
      let '(j, k) := jk in
      h3add Me j k (cadd A (cadd A (cdiv A (h3get Mx j k) mu2) (cdiv A (h3get My j k) mu1))
                           (cmul A (h3get Mxy j k) c0)))
      [(0,0);(0,1);(0,2);(1,0);(1,1);(1,2);(2,0);(2,1);(2,2)] Me.

  (* element matrices: (Me, be, K of the current density, (mu1, mu2)) *)
  Definition helem_matrices (P : mprob (F:=F)) (X : list hexp) (w : F) (res : list (nat * cplx * cplx)) (el : melem (F:=F))
    : cvec * cvec * cplx * (cplx * cplx) :=
    let g := mel_geom A P el in
    let blk := nth (mblk el) (mblocks P) (dmblock A) in
    let z9 := repeat c0 9 in
    let K := (aneg A one /. (#4 *. ga g), zero) in
    let Mx := hstiff_add z9 K (gp g) in
    let My := hstiff_add z9 K (gq g) in
    let Mxy := hxy_add z9 K (gp g) (gq g) in
    let Me := eddy_add z9 (eddy_K P w el (ga g)) in
    let '(Me, be) := fold_left (hmixed_step P g el) [0;1;2] (Me, repeat c0 3) in
    let Jv := fst (hcirc_Jv P res el) in
    let Kj := cdivd (cmuld (cneg A (cadd A (re_I_im (bJre blk) (bJim blk)) Jv)) (ga g)) #3 in
    let be := hv3add (hv3add (hv3add be 0 Kj) 1 Kj) 2 Kj in
    let '(mu1, mu2) := block_mu w blk (nth (mblk el) X dhexp) in
    (hcombine_me Me Mx My Mxy mu1 mu2, be, Kj, (mu1, mu2)).

  Definition caddto (M : cmatrix) (v : cplx) (p q : nat) : cmatrix := maddto C M v p q.

  (* Case 2 circuit entries of an element (lines 532-549), then the scatter (lines 691-707) *)
  Definition helem_step (P : mprob (F:=F)) (X : list hexp) (w : F) (res : list (nat * cplx * cplx)) (nn : nat)
    (s : cmatrix * cvec) (el : melem (F:=F)) : cmatrix * cvec :=
    let '(Me, be, Kj, _) := helem_matrices P X w res el in
    let '(M, b) := s in
    let n := mp el in
    let '(M, b) :=
      match snd (hcirc_Jv P res el) with
      | None => (M, b)
      | Some k =>
          let r := nn + k in
          let b := vset b r (cadd A (cadd A (cadd A (vget C b r) Kj) Kj) Kj) in
          let blk := nth (mblk el) (mblocks P) (dmblock A) in
          let K := cmuld (cmuld (cmuld (cmuld (cneg A cI) (ga (mel_geom A P el))) w) (bCduct blk)) (c4pi A) in
          let M := fold_left (fun M j => caddto M (cdivd K #3) (tri_get n j) r) [0;1;2] M in
          (caddto M K r r, b)
      end in
    fold_left (fun acc j =>
      let '(M, b) := acc in
      let nj := tri_get n j in
      let M := fold_left (fun M k => if Nat.leb j k then caddto M (h3get Me j k) nj (tri_get n k) else M) [0;1;2] M in
      (M, vset b nj (cadd A (vget C b nj) (vget C be j)))) [0;1;2] (M, b).

  (* point currents (lines 711-717) *)
  Definition hpoint_currents (P : mprob (F:=F)) (b : cvec) : cvec :=
    fold_left (fun b in_ =>
      match mbm (snd in_) with
      | Some m =>
          let pp := nth m (mpoints P) (dmpoint A) in
          vset b (fst in_) (cadd A (vget C b (fst in_)) (cneg A (cmuld (re_I_im (pJre pp) (pJim pp)) (e2 A))))
      | None => b end) (combine (seq 0 (length (mnodes P))) (mnodes P)) b.

  (* total current constraints (lines 720-725) *)
  Definition hcirc_constraints (P : mprob (F:=F)) (res : list (nat * cplx * cplx)) (nn : nat) (b : cvec) : cvec :=
    fold_left (fun b ic =>
      let '(i, (c, r)) := ic in
      if Nat.eqb (fst (fst r)) 2 then vset b (nn + i) (cadd A (vget C b (nn + i)) (cmuld (re_I_im (cAre c) (cAim c)) (e2 A)))
      else b) (combine (seq 0 (length (mcircs P))) (combine (mcircs P) res)) b.

  Definition hfixed_points (P : mprob (F:=F)) (L : clin (F:=F)) : clin :=
    fold_left (fun L in_ =>
      match mbm (snd in_) with
      | Some m =>
          let pp := nth m (mpoints P) (dmpoint A) in
          if aeqb A (pJre pp) zero && aeqb A (pJim pp) zero
          then csetvalue A L (fst in_) (cdivd (re_I_im (pAre pp) (pAim pp)) (c4pi A)) else L
      | None => L end) (combine (seq 0 (length (mnodes P))) (mnodes P)) L.

  (* K=(a/c)*exp(I*phi*DEG) (lines 750-758) *)
  Definition hseg_value (P : mprob (F:=F)) (lp : mline (F:=F)) (nd : mnode (F:=F)) : cplx :=
    let u := nth (unit_idx P) (munits A) one in
    let x := mx nd /. u in
    let y := my nd /. u in
    let a := lA0 lp +. x *. lA1 lp +. y *. lA2 lp in
    cmuld (lexre lp, lexim lp) (a /. c4pi A).

  Definition hfixed_segments (P : mprob (F:=F)) (L : clin (F:=F)) : clin :=
    fold_left (fun L el =>
      fold_left (fun L j =>
        match tri_get (me el) j with
        | Some s =>
            let lp := nth s (mlines P) (dmline A) in
            if Nat.eqb (mlfmt lp) 0 then
              let pj := tri_get (mp el) j in
              let pk := tri_get (mp el) (nxt j) in
              let L := csetvalue A L pj (hseg_value P lp (nth pj (mnodes P) (dmnode A))) in
              csetvalue A L pk (hseg_value P lp (nth pk (mnodes P) (dmnode A)))
            else L
        | None => L end) [0;1;2] L) (melems P) L.

  (* "fix" diagonal entries of circuits with a priori known current or voltage (lines 806-807) *)
  Definition hfix_diag (res : list (nat * cplx * cplx)) (nn : nat) (M : cmatrix) : cmatrix :=
    fold_left (fun M jr =>
      if Nat.ltb (fst (fst (snd jr))) 2 then mput M (mget C M 0 0) (nn + fst jr) (nn + fst jr) else M)
      (combine (seq 0 (length res)) res) M.

  Definition happly_pbcs (P : mprob (F:=F)) (L : clin (F:=F)) : clin :=
    fold_left (fun L pbc =>
      let '(x, y, t) := pbc in
      let L := if Nat.eqb t 0 then cperiodicity A L x y else L in
      if Nat.eqb t 1 then cantiperiodicity A L x y else L) (mpbcs P) L.

  Definition asmMH (P : mprob (F:=F)) (X : list hexp) (freq : F) (bw : nat) (prec : F)
    : clin (F:=F) * list (nat * cplx * cplx) :=
    let nn := length (mnodes P) in
    let nc := length (mcircs P) in
    let w := wfreq freq in
    let res := hcirc_results P in
    let L0 := ccreate A (nn + nc) bw nn prec (adec A 15 (-1)) in
    let '(M, b) := fold_left (helem_step P X w res nn) (melems P) (CSparse.cM L0, cb L0) in
    let b := hpoint_currents P b in
    let b := hcirc_constraints P res nn b in
    let L := cwith L0 M b in
    let L := hfixed_points P L in
    let L := hfixed_segments P L in
    let L := cwith L (hfix_diag res nn (CSparse.cM L)) (cb L) in
    let L := happly_pbcs P L in
    (L, res).

  (* L.b[i]=(L.V[i]*c);  L.b[NumNodes+i]=(I*c*w*L.V[NumNodes+i])  (lines 875-877) *)
  Definition hwritten (nn : nat) (freq : F) (V : cvec) : cvec :=
    map (fun iv => if Nat.ltb (fst iv) nn then cmuld (snd iv) (c4pi A)
                   else cmul A (cmuld (cmuld cI (c4pi A)) (wfreq freq)) (snd iv))
        (combine (seq 0 (length V)) V).

  (* per-label lines of WriteHarmonic2D (lines 969-992): (flag, value) *)
  Definition hwritten_label (res : list (nat * cplx * cplx)) (nn : nat) (bfinal : cvec) (l : mlabel) : nat * cplx :=
    match lcirc l with
    | None => (1, c0)
    | Some i =>
        let '(case, J, dV) := nth i res dhres in
        if Nat.eqb case 0 then (0, dV) else if Nat.eqb case 1 then (1, J) else (0, vget C bfinal (nn + i))
    end.

  Definition hside_outputs (P : mprob (F:=F)) (X : list hexp) (freq : F) (res : list (nat * cplx * cplx)) (bfinal : cvec) : list F :=
    let nn := length (mnodes P) in
    concat (map (fun r => let '(case, J, dV) := r in [#(Z.of_nat case); fst J; snd J; fst dV; snd dV]) res)
    ++ concat (map (fun l => let '(f, v) := hwritten_label res nn bfinal l in [#(Z.of_nat f); fst v; snd v]) (mlabels P))
    ++ map (fun l => if is_wound A P l then one else zero) (mlabels P)
    ++ concat (map (fun el => let '(m1, m2) := block_mu (wfreq freq) (nth (mblk el) (mblocks P) (dmblock A)) (nth (mblk el) X dhexp)
                              in [fst m1; snd m1; fst m2; snd m2]) (melems P)).
End AsmMH.
