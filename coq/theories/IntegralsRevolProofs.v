(* IntegralsRevolProofs.v — the closed forms used by the block-integral theorems are the Riemann
   integrals they stand for (Coquelicot):
     * over a triangle P0 P1 P2, parametrised by (s,t) |-> P0 + s (P1-P0) + t (P2-P0) on
       0 <= s <= 1, 0 <= t <= 1-s with Jacobian J = twice the signed area:
         int int 1        = J/2                              (area term)
         int int 2 pi r   = 2 pi (r0+r1+r2)/3 * J/2          (Pappus: the axisymmetric volume term)
         int int T        = J/2 (T0+T1+T2)/3                 (P1 function, planar)
         int int 2 pi r T = 2 pi J/24 ((sum r)(sum T) + sum r_i T_i)   (P1 function, axisymmetric)
     * along a straight edge u -> v:  int pi r^2 dz = pi (z_v-z_u)(r_u^2 + r_u r_v + r_v^2)/3
       (the edge term of the revolved-volume Green identity). *)
From Coq Require Import Reals Lra Lia List.
From Coquelicot Require Import Coquelicot.
From XF Require Import Arith Sparse AsmE Integrals IntegralsE IntegralsEProofs IntegralsH IntegralsHProofs.
Local Open Scope R_scope.

(* integral of a polynomial of degree <= 3 over [0, x] *)
Lemma RInt_cubic (c0 c1 c2 c3 x : R) :
  RInt (fun t => c0 + c1 * t + c2 * t * t + c3 * t * t * t) 0 x
  = c0 * x + c1 * x * x / 2 + c2 * x * x * x / 3 + c3 * x * x * x * x / 4.
Proof.
  apply is_RInt_unique.
  evar_last.
  - apply (is_RInt_derive (fun t => c0 * t + c1 * t * t / 2 + c2 * t * t * t / 3 + c3 * t * t * t * t / 4)).
    + intros t _. auto_derive; [exact I|]. field.
    + intros t _. apply (ex_derive_continuous (fun t => c0 + c1 * t + c2 * t * t + c3 * t * t * t)). auto_derive. exact I.
  - cbn. unfold minus, plus, opp. cbn. field.
Qed.

Lemma RInt_poly_ext (f : R -> R) (c0 c1 c2 c3 x : R) :
  (forall t, f t = c0 + c1 * t + c2 * t * t + c3 * t * t * t) ->
  RInt f 0 x = c0 * x + c1 * x * x / 2 + c2 * x * x * x / 3 + c3 * x * x * x * x / 4.
Proof.
  intros H. rewrite <- RInt_cubic. apply RInt_ext. intros t _. apply H.
Qed.

(* RInt lives in R_CompleteNormedModule: present the goal as an equation in R for ring / field *)
Ltac as_R := match goal with |- @eq _ ?a ?b => change (@eq R a b) end.

Section Triangle.
  Variables r0 z0 r1 z1 r2 z2 : R.
  Definition jac : R := (r1 - r0) * (z2 - z0) - (r2 - r0) * (z1 - z0).
  Definition r_at (s t : R) : R := r0 + s * (r1 - r0) + t * (r2 - r0).

  Theorem triangle_area_integral :
    RInt (fun s => RInt (fun t => jac) 0 (1 - s)) 0 1 = jac / 2.
  Proof.
    rewrite (RInt_poly_ext _ jac (- jac) 0 0 1).
    - as_R. field.
    - intros s. rewrite (RInt_poly_ext _ jac 0 0 0 (1 - s)); [as_R; field|intros; as_R; ring].
  Qed.

  (* the volume of the solid obtained by revolving the triangle about the axis r = 0 *)
  Theorem triangle_revolved_volume_integral :
    RInt (fun s => RInt (fun t => 2 * PI * r_at s t * jac) 0 (1 - s)) 0 1
    = 2 * PI * ((r0 + r1 + r2) / 3) * (jac / 2).
  Proof.
    set (d1 := r1 - r0). set (d2 := r2 - r0).
    rewrite (RInt_poly_ext _ (2 * PI * jac * (r0 + d2 / 2)) (2 * PI * jac * (d1 - r0 - d2))
                             (2 * PI * jac * (d2 / 2 - d1)) 0 1).
    - unfold d1, d2. as_R. field.
    - intros s.
      rewrite (RInt_poly_ext _ (2 * PI * jac * (r0 + s * d1)) (2 * PI * jac * d2) 0 0 (1 - s)).
      + as_R. field.
      + intros t. unfold r_at. fold d1 d2. as_R. ring.
  Qed.

  Variables T0 T1 T2 : R.
  Definition T_at (s t : R) : R := T0 + s * (T1 - T0) + t * (T2 - T0).

  (* integral of the P1 interpolant over the triangle *)
  Theorem triangle_P1_integral :
    RInt (fun s => RInt (fun t => T_at s t * jac) 0 (1 - s)) 0 1 = jac / 2 * ((T0 + T1 + T2) / 3).
  Proof.
    set (e1 := T1 - T0). set (e2 := T2 - T0).
    rewrite (RInt_poly_ext _ (jac * (T0 + e2 / 2)) (jac * (e1 - T0 - e2)) (jac * (e2 / 2 - e1)) 0 1).
    - unfold e1, e2. as_R. field.
    - intros s.
      rewrite (RInt_poly_ext _ (jac * (T0 + s * e1)) (jac * e2) 0 0 (1 - s)).
      + as_R. field.
      + intros t. unfold T_at. fold e1 e2. as_R. ring.
  Qed.

  (* integral of 2 pi r times the P1 interpolant over the triangle *)
  Theorem triangle_rP1_integral :
    RInt (fun s => RInt (fun t => 2 * PI * r_at s t * T_at s t * jac) 0 (1 - s)) 0 1
    = 2 * PI * (jac / 2) / 12 * ((r0 + r1 + r2) * (T0 + T1 + T2) + r0 * T0 + r1 * T1 + r2 * T2).
  Proof.
    set (d1 := r1 - r0). set (d2 := r2 - r0). set (e1 := T1 - T0). set (e2 := T2 - T0).
    set (k := 2 * PI * jac).
    (* inner integral: with a = r0 + s d1, b = T0 + s e1:  k (a b x + (a e2 + b d2) x^2/2 + d2 e2 x^3/3), x = 1 - s *)
    rewrite (RInt_poly_ext _
       (k * (r0 * T0 + (r0 * e2 + T0 * d2) / 2 + d2 * e2 / 3))
       (k * (- (r0 * T0) + r0 * e1 + d1 * T0 - (r0 * e2 + T0 * d2) + (d1 * e2 + e1 * d2) / 2 - d2 * e2))
       (k * (- (r0 * e1 + d1 * T0) + d1 * e1 + (r0 * e2 + T0 * d2) / 2 - (d1 * e2 + e1 * d2) + d2 * e2))
       (k * (- (d1 * e1) + (d1 * e2 + e1 * d2) / 2 - d2 * e2 / 3)) 1).
    - unfold k, d1, d2, e1, e2. as_R. field.
    - intros s.
      rewrite (RInt_poly_ext _ (k * ((r0 + s * d1) * (T0 + s * e1))) (k * ((r0 + s * d1) * e2 + (T0 + s * e1) * d2))
                               (k * (d2 * e2)) 0 (1 - s)).
      + as_R. field.
      + intros t. unfold r_at, T_at, k. fold d1 d2 e1 e2. as_R. ring.
  Qed.
End Triangle.

(* the edge term of the revolved-volume identity: int_edge pi r^2 dz *)
Theorem edge_revolved_integral (ru zu rv zv : R) :
  RInt (fun t => PI * (ru + t * (rv - ru)) * (ru + t * (rv - ru)) * (zv - zu)) 0 1
  = PI * (zv - zu) * (ru * ru + ru * rv + rv * rv) / 3.
Proof.
  set (d := rv - ru).
  rewrite (RInt_poly_ext _ (PI * (zv - zu) * ru * ru) (PI * (zv - zu) * 2 * ru * d) (PI * (zv - zu) * d * d) 0 1).
  - unfold d. as_R. field.
  - intros t. fold d. as_R. ring.
Qed.

(* ---- links to the definitions used in IntegralsEProofs / IntegralsHProofs ---- *)
Theorem rrevol_is_edge_integral (X : nat -> R * R) (e : nat * nat) :
  rrevol X e = RInt (fun t => PI * (fst (X (fst e)) + t * (fst (X (snd e)) - fst (X (fst e))))
                                * (fst (X (fst e)) + t * (fst (X (snd e)) - fst (X (fst e))))
                                * (snd (X (snd e)) - snd (X (fst e)))) 0 1.
Proof. rewrite edge_revolved_integral. unfold rrevol. reflexivity. Qed.

Theorem rpappus_is_revolved_volume (X : nat -> R * R) (a b c : nat) :
  rpappus X (a, b, c)
  = RInt (fun s => RInt (fun t => 2 * PI * r_at (fst (X a)) (fst (X b)) (fst (X c)) s t
                                 * jac (fst (X a)) (snd (X a)) (fst (X b)) (snd (X b)) (fst (X c)) (snd (X c))) 0 (1 - s)) 0 1.
Proof.
  rewrite triangle_revolved_volume_integral. unfold rpappus, rarea2, jac. reflexivity.
Qed.

Theorem rarea2_is_area_integral (X : nat -> R * R) (a b c : nat) :
  rarea2 X (a, b, c) / 2
  = RInt (fun s => RInt (fun t => jac (fst (X a)) (snd (X a)) (fst (X b)) (snd (X b)) (fst (X c)) (snd (X c))) 0 (1 - s)) 0 1.
Proof. rewrite triangle_area_integral. unfold rarea2, jac. reflexivity. Qed.

(* the heat post-processor's "exact integral of the P1 temperature" is the Riemann integral *)
Theorem h_exact_T_integral_is_integral (P : ih_prob (F:=R)) (el : ie_elem) :
  let V := ih_view RA P in
  let lc := ih_lc P in
  let x := fun j => e_x V el j * lc in let y := fun j => e_y V el j * lc in
  let T := fun j => ih_T RA P el j in
  h_exact_T_integral P el =
  if ih_axi P then
    RInt (fun s => RInt (fun t => 2 * PI * r_at (x 0%nat) (x 1%nat) (x 2%nat) s t * T_at (T 0%nat) (T 1%nat) (T 2%nat) s t
                                  * jac (x 0%nat) (y 0%nat) (x 1%nat) (y 1%nat) (x 2%nat) (y 2%nat)) 0 (1 - s)) 0 1
  else
    ie_depth RA V * RInt (fun s => RInt (fun t => T_at (T 0%nat) (T 1%nat) (T 2%nat) s t
                                  * jac (x 0%nat) (y 0%nat) (x 1%nat) (y 1%nat) (x 2%nat) (y 2%nat)) 0 (1 - s)) 0 1.
Proof.
  intros V lc x y T. unfold h_exact_T_integral. unfold ih_area. rewrite ie_area_R. cbn [ie_lc ih_view]. fold V lc.
  assert (J : jac (x 0%nat) (y 0%nat) (x 1%nat) (y 1%nat) (x 2%nat) (y 2%nat) = lc * lc * e_da V el).
  { unfold jac, x, y. rewrite e_da_is_area2. ring. }
  destruct (ih_axi P).
  - rewrite triangle_rP1_integral, J. fold (T 0%nat) (T 1%nat) (T 2%nat). unfold x. field.
  - rewrite triangle_P1_integral, J. fold (T 0%nat) (T 1%nat) (T 2%nat). field.
Qed.
