(* Properties_C16_arc.v — theorem statements for the ARC-SEGMENT part of property C16 (geometry edits keep
   the drawing a planar line graph), each closed by [exact] of a lemma of DrawingArcProofs.v.
   (Run by ./check C16 through the extension tools/props/xarc.py.)

   Model: DrawingArc.v = Drawing.v + the arc list (n0, n1, ArcLength, MaxSideLength, group, selection,
   boundary name, other properties) and addArcSegment, createRadius, the arc branches of addNode,
   addSegment, enforcePSLG, deleteSelectedNodes, the move / copy / mirror commands, select / delete arcs.
   Theorems quantified over [GA : GeoArc F] hold for EVERY instantiation of the geometric oracles
   (those of Drawing.v and: distance to an arc, line-arc and arc-arc intersection, the angles of the two
   halves of a split arc, the arc tolerances, the "same angle" test, the three create-radius constructions);
   the binary64 instance [geoArcA FA L] with the libm values [L] recorded from the implementation is what
   the correspondence compares with the C++.

   [fx] as in Properties_C16.v (false: deleteSelectedNodes toggles the lines AND arcs at a deleted point,
   true: selects them; the working tree is fx = true).

   What the faithful model does NOT satisfy is stated as a [_refuted] theorem with its witness:
   - a new point within the tolerance of two arcs that start (or end) at the same point splits both; the two
     halves can then be "the same arc" by addArcSegment's own test (the arc analogue of C16-F2).
   Not proved: that arcs meet lines and arcs only at points (metric: it depends on what the intersection
   oracles find; [C16_arc_new_point_splits_the_arcs_it_lies_on_partial] is the combinatorial half; the rest is
   checked on the implementation by the exact-rational oracle); termination of the recursive splits (fuel).
   addArcSegment's split used to recurse without end when a third point lay within dmin of an end point of the
   proposed arc (C16-A1, fixed in /repo 0d96bcd by the end-point guard of addSegment): the model follows the
   repaired code; [C16_arc_split_point_is_never_near_an_end_point] states what the guard guarantees and
   [C16_arc_A1_regression_state] is the former crash input on the repaired code. *)
From Coq Require Import ZArith List Bool Arith Lia Reals Floats.
From XF Require Import Arith Drawing DrawingProofs DrawingArc DrawingArcProofs.
Import ListNotations.

(* -- the invariant ------------------------------------------------------------------------------------
   InvA st = Inv2 of the lines (Properties_C16.v)  /\  every arc joins two DISTINCT EXISTING points  /\
   (no two arcs have the same start point, the same end point and ArcLengths closer than 1e-2 — which is
   precisely what addArcSegment's duplicate test rejects; arcs between the same points with different angles or
   opposite orientation are different arcs — unless the ghost flag ad_asplit records a double split) *)
Theorem C16_arc_inv_init : forall (F : Type) (GA : GeoArc F), InvA GA (@emptyA F).
Proof. exact (@InvA_emptyA). Qed.
Print Assumptions C16_arc_inv_init.

(* every command preserves it; mi_deleteselectednodes needs [del_guardA] (no selected line or arc has a
   selected end point) when fx = false *)
Theorem C16_arc_inv_step :
  forall (F : Type) (GA : GeoArc F) (fx : bool) (fuel : nat) (st : @adrawing F) (o : @aop F),
  InvA GA st -> aop_guard GA fx st o -> InvA GA (stepA GA fx fuel st o).
Proof. exact (@stepA_InvA). Qed.
Print Assumptions C16_arc_inv_step.

(* move / rotate / scale / copy / mirror end in enforcePSLG, which re-establishes the invariant from ANY
   drawing whatsoever (arcs with stale, equal or out-of-range end points included) *)
Theorem C16_arc_enforcePSLG_establishes_invariant :
  forall (F : Type) (GA : GeoArc F) (fuel : nat) (st : @adrawing F), InvA GA (enforcePSLGA GA fuel st).
Proof. exact (@enforcePSLGA_InvA). Qed.
Print Assumptions C16_arc_enforcePSLG_establishes_invariant.

(* per call: addArcSegment and addSegment (with its arc loop), whatever the recursion does within its fuel *)
Theorem C16_arc_addArcSegment_preserves_invariant :
  forall (F : Type) (GA : GeoArc F) (fuel : nat) (st : @adrawing F) (ar : @arc F) (tol : F),
  InvA GA st -> (an0 ar = an1 ar \/ (an0 ar < NNA st /\ an1 ar < NNA st)) ->
  InvA GA (addArcSegmentA GA fuel st ar tol) /\ aext st (addArcSegmentA GA fuel st ar tol).
Proof. exact (@addArcSegmentA_InvA). Qed.
Print Assumptions C16_arc_addArcSegment_preserves_invariant.

Theorem C16_arc_addSegment_preserves_invariant :
  forall (F : Type) (GA : GeoArc F) (fuel : nat) (st : @adrawing F) (n0 n1 : nat) (par : option seg) (tol : F),
  InvA GA st -> (n0 = n1 \/ (n0 < NNA st /\ n1 < NNA st)) ->
  InvA GA (addSegmentA GA fuel st n0 n1 par tol) /\ aext st (addSegmentA GA fuel st n0 n1 par tol).
Proof. exact (@addSegmentA_InvA). Qed.
Print Assumptions C16_arc_addSegment_preserves_invariant.

Theorem C16_arc_createRadius_preserves_invariant :
  forall (F : Type) (GA : GeoArc F) (fx : bool) (fuel : nat) (st : @adrawing F) (n : nat) (r : F),
  InvA GA st -> InvA GA (createRadiusA GA fx fuel st n r).
Proof. exact (@createRadiusA_InvA). Qed.
Print Assumptions C16_arc_createRadius_preserves_invariant.

(* all sequences, no length bound.  _partial: for fx = false only sequences in which mi_deleteselectednodes is
   never issued while a selected line or arc has a selected end point *)
Theorem C16_arc_arcs_and_lines_join_distinct_existing_points_partial :
  forall (F : Type) (GA : GeoArc F) (fx : bool) (fuel : nat) (ops : list (@aop F)),
  guardedA GA fx fuel emptyA ops ->
  AWF (runA GA fx fuel ops emptyA) /\ WF (ad_base (runA GA fx fuel ops emptyA)).
Proof. exact (@arcs_wf_reachable). Qed.
Print Assumptions C16_arc_arcs_and_lines_join_distinct_existing_points_partial.

(* the code as it stands (fx = true): for ALL sequences, without any guard *)
Theorem C16_arc_inv_reachable_repaired :
  forall (F : Type) (GA : GeoArc F) (fuel : nat) (ops : list (@aop F)),
  InvA GA (runA GA true fuel ops emptyA).
Proof. intros. apply inv_reachableA. apply guardedA_fixed. reflexivity. Qed.
Print Assumptions C16_arc_inv_reachable_repaired.

Theorem C16_arc_no_duplicate_arc_partial :
  forall (F : Type) (GA : GeoArc F) (fx : bool) (fuel : nat) (ops : list (@aop F)),
  guardedA GA fx fuel emptyA ops -> ad_asplit (runA GA fx fuel ops emptyA) = false ->
  NoDupArc GA (ad_arcs (runA GA fx fuel ops emptyA)).
Proof. exact (@arcs_nodup_reachable). Qed.
Print Assumptions C16_arc_no_duplicate_arc_partial.

Theorem C16_arc_no_duplicate_arc_refuted :
  guardedA (geoArcA FA libm_A2) true FUEL emptyA ops_A2 /\
  ~ NoDupArc (geoArcA FA libm_A2) (ad_arcs (runA (geoArcA FA libm_A2) true FUEL ops_A2 emptyA)).
Proof. exact arc_double_split_refuted. Qed.
Print Assumptions C16_arc_no_duplicate_arc_refuted.

(* the lines of drawings that also contain arcs: no duplicate unless the (line) double-split flag fired *)
Theorem C16_arc_no_duplicate_line_partial :
  forall (F : Type) (GA : GeoArc F) (fx : bool) (fuel : nat) (ops : list (@aop F)),
  guardedA GA fx fuel emptyA ops -> d_dsplit (ad_base (runA GA fx fuel ops emptyA)) = false ->
  NoDupSeg (d_segs (ad_base (runA GA fx fuel ops emptyA))).
Proof. exact (@lines_nodup_reachableA). Qed.
Print Assumptions C16_arc_no_duplicate_line_partial.

(* -- nothing remains selected after a completed command ---------------------------------------------- *)
Theorem C16_arc_commands_end_with_empty_selection :
  forall (F : Type) (GA : GeoArc F) (fx : bool) (fuel : nat) (st : @adrawing F) (o : @aop F),
  clears_selectionA GA o = true -> noselA (stepA GA fx fuel st o).
Proof. exact (@stepA_clears_selection). Qed.
Print Assumptions C16_arc_commands_end_with_empty_selection.

Theorem C16_arc_addarc_ends_with_empty_selection :
  forall (F : Type) (GA : GeoArc F) (fx : bool) (fuel : nat) (st : @adrawing F) (x0 y0 x1 y1 ang ms : F),
  anodes st <> [] -> noselA (stepA GA fx fuel st (AAddArc x0 y0 x1 y1 ang ms)).
Proof. exact (@addarc_clears_selection). Qed.
Print Assumptions C16_arc_addarc_ends_with_empty_selection.

Theorem C16_arc_addArcSegment_ends_with_empty_selection_or_no_change :
  forall (F : Type) (GA : GeoArc F) (fuel : nat) (st : @adrawing F) (ar : @arc F) (tol : F),
  addArcSegmentA GA (S fuel) st ar tol = st \/ noselA (addArcSegmentA GA (S fuel) st ar tol).
Proof. exact (@addArcSegmentA_clears_selection). Qed.
Print Assumptions C16_arc_addArcSegment_ends_with_empty_selection_or_no_change.

Theorem C16_arc_createradius_ends_with_empty_selection_or_no_change :
  forall (F : Type) (GA : GeoArc F) (fx : bool) (fuel : nat) (st : @adrawing F) (x y r : F),
  stepA GA fx fuel st (ACreateRadius x y r) = st \/ noselA (stepA GA fx fuel st (ACreateRadius x y r)).
Proof. exact (@createradius_clears_selection). Qed.
Print Assumptions C16_arc_createradius_ends_with_empty_selection_or_no_change.

(* -- deletion renumbers consistently ------------------------------------------------------------------ *)
(* the points and lines: exactly Drawing.v's deleteSelectedNodes (so its theorems apply) *)
Theorem C16_arc_delete_points_and_lines_as_Drawing :
  forall (F : Type) (GA : GeoArc F) (fx : bool) (st : @adrawing F),
  ad_base (deleteSelectedNodesA GA fx st) = deleteSelectedNodes (ga_geo GA) fx (ad_base st).
Proof. exact (@deleteSelectedNodesA_base). Qed.
Print Assumptions C16_arc_delete_points_and_lines_as_Drawing.

(* the arcs: every remaining arc refers to the same two end nodes and keeps ArcLength, MaxSideLength, group,
   boundary name, properties; exactly the arcs with a deleted end point disappear; the order is kept *)
Theorem C16_arc_delete_renumbers_arcs_consistently :
  forall (F : Type) (GA : GeoArc F) (fx : bool) (st : @adrawing F),
  arcs_unselected st ->
  acview GA (deleteSelectedNodesA GA fx st) = filter aends_unselected (acview GA st).
Proof. exact (@delete_renumbers_arcs_consistently). Qed.
Print Assumptions C16_arc_delete_renumbers_arcs_consistently.

(* -- copies --------------------------------------------------------------------------------------------- *)
(* one pass of a copy command (mirror: the only pass, rev = true; translate / rotate: one value of nc, rev = false):
   the point list grows by the images of the selected points, of the ends of the selected lines and of the ends of
   the selected arcs; one new arc per selected arc, which joins the images of its ends *)
Theorem C16_arc_copy_pass_appends_images :
  forall (F : Type) (GA : GeoArc F) (rev : bool) (fn : F * F -> F * F) (fl : @lab F -> @lab F) (m : nat) (st : @adrawing F),
  sel_valid (ad_base st) -> asel_valid st ->
  let r := copy_passA GA rev fn fl m st in
  anodes r = anodes st ++ node_block (ga_geo GA) fn m (ad_base st) ++ arc_node_block GA fn m st /\
  (exists sapp, asegs r = asegs st ++ sapp /\
                map (resolve (ga_geo GA) (anodes r)) sapp = seg_block (ga_geo GA) fn m (ad_base st) /\
                (forall x, In x sapp -> s0 x < length (anodes r) /\ s1 x < length (anodes r) /\ ssel x = false)) /\
  (exists app, ad_arcs r = ad_arcs st ++ app /\
               map (aresolve GA (anodes r)) app = arc_block GA rev fn m st /\
               (forall x, In x app -> an0 x < length (anodes r) /\ an1 x < length (anodes r) /\ an0 x <> an1 x /\
                                       asel x = false)) /\
  alabs r = alabs st ++ lab_block fl m (ad_base st).
Proof. exact (@copy_passA_spec). Qed.
Print Assumptions C16_arc_copy_pass_appends_images.

(* ncopies passes of translateCopy / rotateCopy before their enforcePSLG: every pass copies the ORIGINAL selection *)
Theorem C16_arc_translateCopy_appends_images_of_every_pass :
  forall (F : Type) (GA : GeoArc F) (dx dy : F) (n m : nat) (st : @adrawing F),
  sel_valid (ad_base st) -> asel_valid st ->
  let tr nc := g_translate (ga_geo GA) (g_times (ga_geo GA) nc dx) (g_times (ga_geo GA) nc dy) in
  let r := translateCopy_rawA GA dx dy n m st in
  anodes r = anodes st ++ flat_map (fun nc => node_block (ga_geo GA) (tr nc) m (ad_base st) ++ arc_node_block GA (tr nc) m st) (seq 0 n) /\
  exists app, ad_arcs r = ad_arcs st ++ app /\
              map (aresolve GA (anodes r)) app = flat_map (fun nc => arc_block GA false (tr nc) m st) (seq 0 n).
Proof. exact (@translateCopy_rawA_arcs_spec). Qed.
Print Assumptions C16_arc_translateCopy_appends_images_of_every_pass.

Theorem C16_arc_rotateCopy_appends_images_of_every_pass :
  forall (F : Type) (GA : GeoArc F) (c : F * F) (zs : list (F * F)) (m : nat) (st : @adrawing F),
  sel_valid (ad_base st) -> asel_valid st ->
  let r := rotateCopy_rawA GA c zs m st in
  anodes r = anodes st ++ flat_map (fun z => node_block (ga_geo GA) (g_rotate (ga_geo GA) c z) m (ad_base st) ++
                                             arc_node_block GA (g_rotate (ga_geo GA) c z) m st) zs /\
  exists app, ad_arcs r = ad_arcs st ++ app /\
              map (aresolve GA (anodes r)) app = flat_map (fun z => arc_block GA false (g_rotate (ga_geo GA) c z) m st) zs.
Proof. exact (@rotateCopy_rawA_arcs_spec). Qed.
Print Assumptions C16_arc_rotateCopy_appends_images_of_every_pass.

(* real-number reading, for every libm: copy nc of a selected arc joins the original's end points translated by exactly
   (nc+1)*(dx,dy) *)
Theorem C16_arc_copies_at_transformed_coordinates :
  forall (L : Libm R) (dx dy : R) (n m : nat) (st : @adrawing R),
  sel_valid (ad_base st) -> asel_valid st ->
  let tr (nc : nat) (p : R * R) := (fst p + INR (S nc) * dx, snd p + INR (S nc) * dy)%R in
  let r := translateCopy_rawA (geoArcA RA L) dx dy n m st in
  anodes r = anodes st ++ flat_map (fun nc => node_block (geoA RA) (tr nc) m (ad_base st) ++
                                              arc_node_block (geoArcA RA L) (tr nc) m st) (seq 0 n) /\
  exists app, ad_arcs r = ad_arcs st ++ app /\
              map (aresolve (geoArcA RA L) (anodes r)) app =
              flat_map (fun nc => arc_block (geoArcA RA L) false (tr nc) m st) (seq 0 n).
Proof. exact arc_copies_at_transformed_coordinates. Qed.
Print Assumptions C16_arc_copies_at_transformed_coordinates.

(* the entries of arc_block: the copy starts at the image of the original's start and ends at the image of its end —
   a MIRRORED copy the other way round —, has the same ArcLength, MaxSideLength, group, boundary name and properties,
   and is not selected *)
Theorem C16_arc_copies_keep_angle_and_properties_mirror_reverses :
  forall (F : Type) (GA : GeoArc F) (fn : F * F -> F * F) (base : list (@node F)) (a : @arc F),
  arc_img GA false fn base a =
    (copy_node fn (node_at (ga_geo GA) base (an0 a)), copy_node fn (node_at (ga_geo GA) base (an1 a)),
     false, agrp a, alen a, amax a, abdry a, aprop a) /\
  arc_img GA true fn base a =
    (copy_node fn (node_at (ga_geo GA) base (an1 a)), copy_node fn (node_at (ga_geo GA) base (an0 a)),
     false, agrp a, alen a, amax a, abdry a, aprop a).
Proof. intros. split; reflexivity. Qed.
Print Assumptions C16_arc_copies_keep_angle_and_properties_mirror_reverses.

(* the hypotheses of the copy theorem hold in every reachable drawing *)
Theorem C16_arc_reachable_selections_are_valid :
  forall (F : Type) (GA : GeoArc F) (st : @adrawing F), InvA GA st -> sel_valid (ad_base st) /\ asel_valid st.
Proof. exact (@InvA_sel_valid). Qed.
Print Assumptions C16_arc_reachable_selections_are_valid.

(* -- the arc-free fragment is Drawing.v's model: all theorems of Properties_C16.v transfer ----------------- *)
Theorem C16_arc_free_step_is_Drawing :
  forall (F : Type) (GA : GeoArc F) (fx : bool) (fuel : nat) (b : @drawing F) (f : bool) (o : @op F),
  stepA GA fx fuel (mkAD b [] f) (ABase o) = mkAD (step (ga_geo GA) fx fuel b o) [] f.
Proof. exact (@stepA_arcfree). Qed.
Print Assumptions C16_arc_free_step_is_Drawing.

Theorem C16_arc_free_fragment_is_Drawing :
  forall (F : Type) (GA : GeoArc F) (fx : bool) (fuel : nat) (ops : list (@op F)),
  runA GA fx fuel (map ABase ops) emptyA = lift (run (ga_geo GA) fx fuel ops empty).
Proof. exact (@runA_arcfree_empty). Qed.
Print Assumptions C16_arc_free_fragment_is_Drawing.

(* in drawings WITH arcs the point / line / label part of addNode is still Drawing.v's addNode (so
   C16_addNode_respects_distance, C16_addNode_min_distance_real, C16_addNode_lengths apply to [ad_base]) *)
Theorem C16_arc_addNode_points_and_lines_as_Drawing :
  forall (F : Type) (GA : GeoArc F) (st : @adrawing F) (nd : @node F) (d : F),
  ad_base (addNodeA GA st nd d) = addNode (ga_geo GA) (ad_base st) nd d.
Proof. exact (@addNodeA_base). Qed.
Print Assumptions C16_arc_addNode_points_and_lines_as_Drawing.

(* -- "arcs meet lines and arcs only at points": the combinatorial half ------------------------------------
   _partial: a new point becomes an end point of EVERY arc that the distance oracle says it lies on (the arc is
   replaced by two arcs meeting at the new point, attributes kept) and the other arcs are untouched.  Missing: that
   the intersection oracles report every crossing and that the distance oracle is the true distance — metric facts,
   checked on the implementation by the exact-rational oracle of tools/props/c16_oracle.py *)
Theorem C16_arc_new_point_splits_the_arcs_it_lies_on_partial :
  forall (F : Type) (GA : GeoArc F) (st : @adrawing F) (nd : @node F) (d : F),
  length (anodes (addNodeA GA st nd d)) <> length (anodes st) ->
  let k := length (anodes st) in
  let hit := on_arc GA (anodes st ++ [nd]) (npt nd) d in
  anodes (addNodeA GA st nd d) = anodes st ++ [nd] /\
  exists firsts seconds,
    ad_arcs (addNodeA GA st nd d) = firsts ++ seconds /\
    length firsts = length (ad_arcs st) /\ length seconds = length (filter hit (ad_arcs st)) /\
    (forall j a, nth_error (ad_arcs st) j = Some a ->
       exists a', nth_error firsts j = Some a' /\
         (if hit a then an0 a' = an0 a /\ an1 a' = k else a' = a)) /\
    (forall j a, nth_error (filter hit (ad_arcs st)) j = Some a ->
       exists a', nth_error seconds j = Some a' /\ an0 a' = k /\ an1 a' = an1 a /\
                  agrp a' = agrp a /\ amax a' = amax a /\ abdry a' = abdry a /\ aprop a' = aprop a).
Proof. exact (@addNodeA_splits_the_arcs_it_lies_on). Qed.
Print Assumptions C16_arc_new_point_splits_the_arcs_it_lies_on_partial.

(* -- the end-point guard of addArcSegment (repair of C16-A1) ---------------------------------------------------
   a point closer than dmin to an end point of the proposed arc is never the point at which the arc is split — for
   every oracle record in which 2*dmin is not below dmin (true of the reals for dmin >= 0, next theorem) *)
Theorem C16_arc_split_point_is_never_near_an_end_point :
  forall (F : Type) (GA : GeoArc F) (nodes : list (@node F)) (ar : @arc F) (dmin : F) (i : nat),
  g_lt (ga_geo GA) (g_twice (ga_geo GA) dmin) dmin = false ->
  arc_passes_through GA nodes ar dmin i = true ->
  i <> an0 ar /\ i <> an1 ar /\
  g_lt (ga_geo GA) (g_cabs (ga_geo GA) (pt_at (ga_geo GA) nodes i) (pt_at (ga_geo GA) nodes (an0 ar))) dmin = false /\
  g_lt (ga_geo GA) (g_cabs (ga_geo GA) (pt_at (ga_geo GA) nodes i) (pt_at (ga_geo GA) nodes (an1 ar))) dmin = false /\
  g_lt (ga_geo GA) (arc_dist GA nodes (pt_at (ga_geo GA) nodes i) ar) dmin = true.
Proof. exact (@arc_split_point_not_near_ends). Qed.
Print Assumptions C16_arc_split_point_is_never_near_an_end_point.

Theorem C16_arc_twice_dmin_not_below_dmin_real :
  forall dmin : R, (0 <= dmin)%R -> g_lt (geoA RA) (g_twice (geoA RA) dmin) dmin = false.
Proof. exact twice_not_less_real. Qed.
Print Assumptions C16_arc_twice_dmin_not_below_dmin_real.

(* one call of addArcSegment: when the node loop finds a point i, the call is exactly the two recursive calls on the
   halves cut at i, and i is not within this call's dmin of either end point of the proposed arc *)
Theorem C16_arc_addArcSegment_splits_away_from_end_points :
  forall (F : Type) (GA : GeoArc F) (fuel : nat) (st : @adrawing F) (ar0 : @arc F) (tol : F) (i : nat),
  let G := ga_geo GA in
  let ar := asetsel false ar0 in
  let st3 := aaA_st3 GA st ar tol in
  let dmin := aaA_dmin GA st ar tol in
  g_lt G (g_twice G dmin) dmin = false ->
  find_first (arc_passes_through GA (anodes st3) ar dmin) 0 (length (anodes st3)) = Some i ->
  g_lt G (g_cabs G (pt_at G (anodes st3) i) (pt_at G (anodes st3) (an0 ar0))) dmin = false /\
  g_lt G (g_cabs G (pt_at G (anodes st3) i) (pt_at G (anodes st3) (an1 ar0))) dmin = false /\
  addArcSegmentA GA (S fuel) st ar0 tol =
    (if Nat.eqb (an0 ar0) (an1 ar0) then st
     else if existsb (arc_dup GA ar0) (ad_arcs st) then st
     else addArcSegmentA GA fuel
            (addArcSegmentA GA fuel (deleteSelectedArcs (toggle_arc st3 (length (ad_arcs st3) - 1)))
                            (fst (aaA_halves GA st ar tol i)) dmin)
            (snd (aaA_halves GA st ar tol i)) dmin).
Proof. exact (@addArcSegmentA_splits_away_from_ends). Qed.
Print Assumptions C16_arc_addArcSegment_splits_away_from_end_points.

(* -- non-vacuity and witnesses (binary64 reading, libm values recorded from the implementation) ------------- *)
Example C16_arc_hypotheses_satisfiable :
  guardedA (geoArcA FA libm_exA) true FUEL emptyA ops_exA /\
  length (anodes (runA (geoArcA FA libm_exA) true FUEL ops_exA emptyA)) = 9 /\
  length (asegs (runA (geoArcA FA libm_exA) true FUEL ops_exA emptyA)) = 4 /\
  map (fun a => (an0 a, an1 a, agrp a, abdry a)) (ad_arcs (runA (geoArcA FA libm_exA) true FUEL ops_exA emptyA)) =
    [(0, 4, 1, 2); (4, 1, 0, 0); (6, 5, 0, 0); (8, 7, 1, 2)] /\
  ad_asplit (runA (geoArcA FA libm_exA) true FUEL ops_exA emptyA) = false /\
  d_dsplit (ad_base (runA (geoArcA FA libm_exA) true FUEL ops_exA emptyA)) = false /\
  d_oof (ad_base (runA (geoArcA FA libm_exA) true FUEL ops_exA emptyA)) = false.
Proof. exact example_reachableA. Qed.

Example C16_arc_hypotheses_satisfiable_2 :
  let st := runA (geoArcA FA libm_exA) true FUEL ops_exA emptyA in
  InvA (geoArcA FA libm_exA) st /\ arcs_unselected st /\ asel_valid st /\ sel_valid (ad_base st) /\
  NoDupArc (geoArcA FA libm_exA) (ad_arcs st).
Proof. exact example_hypothesesA. Qed.

Example C16_arc_A2_witness_state :
  map (fun a => (an0 a, an1 a)) (ad_arcs (runA (geoArcA FA libm_A2) true FUEL ops_A2 emptyA)) = [(0, 2); (0, 2); (2, 1); (2, 1)] /\
  ad_asplit (runA (geoArcA FA libm_A2) true FUEL ops_A2 emptyA) = true /\
  d_oof (ad_base (runA (geoArcA FA libm_A2) true FUEL ops_A2 emptyA)) = false.
Proof. exact A2_final_state. Qed.

(* the former crash input addnode(0,0), addnode(1,0), addnode(1,5e-6), addarc(0,0,1,0,90,5) (C16-A1) on the repaired
   code: one arc 0 -> 1 of 90 degrees, three points, the fuel is not exhausted *)
Example C16_arc_A1_regression_state :
  map (fun a => (an0 a, an1 a, alen a)) (ad_arcs (runA (geoArcA FA libm_A1) true FUEL ops_A1 emptyA)) = [(0, 1, 90%float)] /\
  length (anodes (runA (geoArcA FA libm_A1) true FUEL ops_A1 emptyA)) = 3 /\
  d_oof (ad_base (runA (geoArcA FA libm_A1) true FUEL ops_A1 emptyA)) = false.
Proof. exact A1_repaired_state. Qed.

(* ... although the third point is within dmin of the arc and of its end point 1: it is the guard that excludes it *)
Example C16_arc_A1_point_is_near_the_arc_and_its_end :
  let GA := geoArcA FA libm_A1 in
  let st := runA GA true FUEL ops_A1 emptyA in
  let ar := mkArc 0 1 false 0 90%float 5%float 0 0 in
  let dmin := ga_arc_dmin GA (pt_at (ga_geo GA) (anodes st) 0) (pt_at (ga_geo GA) (anodes st) 1) 90%float in
  g_lt (ga_geo GA) (arc_dist GA (anodes st) (pt_at (ga_geo GA) (anodes st) 2) ar) dmin = true /\
  g_lt (ga_geo GA) (g_cabs (ga_geo GA) (pt_at (ga_geo GA) (anodes st) 2) (pt_at (ga_geo GA) (anodes st) 1)) dmin = true /\
  arc_passes_through GA (anodes st) ar dmin 2 = false.
Proof. exact A1_point_is_near_the_arc_and_its_end. Qed.
