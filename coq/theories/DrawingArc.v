(* DrawingArc.v — the drawing-edit model of Drawing.v (property C16) extended with ARC SEGMENTS:
   femm::FemmProblem::addArcSegment, createRadius, getCircle, the arc branches of addNode /
   addSegment / enforcePSLG / deleteSelectedNodes / the move, copy and mirror commands,
   getLineArcIntersection, getArcArcIntersection, shortestDistanceFromArc, closestArcSegment
   (all in cfemm/libfemm/FemmProblem.cpp), driven as cfemm/femmcli/LuaCommonCommands.cpp drives
   them (luaAddArc, luaSelectArcsegment, luaDeleteSelectedArcSegments, luaCreateRadius, ...).

   State: [adrawing] = a drawing of Drawing.v (points, lines, block labels, the ghost flags d_oof
   and d_dsplit) + the arc list + one more ghost flag [ad_asplit] (some addNode call split two
   arcs that start at the same point or end at the same point: the only way the code creates two
   arcs with the same end points and nearly the same angle, see DrawingArcProofs.v).

   Part 1 (Section CoreA) is written over a record [GeoArc F] = the record [Geo F] of Drawing.v +
   one field per C++ helper that looks at arc geometry.  The theorems of DrawingArcProofs.v hold
   for EVERY such record.  Part 2 (Section FormulasA) instantiates the new fields with the
   formulas of the C++ over an [Arith F] and a record [Libm F] of the libm functions the C++
   calls (sin, tan, atan2) and the constant DEG; with [FA] and the libm values recorded from the
   implementation (a finite table, [libm_of_tables]) the result is bit-comparable with the
   implementation.

   [fx] as in Drawing.v (false: deleteSelectedNodes toggles the selection of the lines AND arcs
   at a deleted point, true: it selects them — findings/C16-F1-fix.diff, which is what the working
   tree has).  No proofs in this file. *)
From Coq Require Import ZArith List Bool Arith Floats.
From XF Require Import Arith Drawing.
Import ListNotations.

(* CArcSegment.h: n0, n1, ArcLength [deg], MaxSideLength, InGroup, IsSelected;
   [abdry] stands for BoundaryMarkerName (the one property createRadius hands on),
   [aprop] for the remaining fields the editing code only copies (Hidden, BoundaryMarker,
   InConductor, InConductorName). *)
Record arc {F : Type} := mkArc {
  an0 : nat; an1 : nat; asel : bool; agrp : nat; alen : F; amax : F; abdry : nat; aprop : nat }.
Arguments mkArc {F}.
Record adrawing {F : Type} := mkAD {
  ad_base : @drawing F; ad_arcs : list (@arc F); ad_asplit : bool }.
Arguments mkAD {F}.

Record GeoArc (F : Type) := mkGeoArc {
  ga_geo : Geo F;
  ga_m1 : F;                                     (* -1, CSegment()'s MaxSideLength *)
  ga_le0 : F -> bool;                            (* r <= 0 *)
  ga_close : F -> F -> bool;                     (* fabs(existing - proposed) < 1.e-02 *)
  (* getLineArcIntersection: line ends, arc ends, ArcLength; the valid points in p[] order *)
  ga_linearc : F * F -> F * F -> F * F -> F * F -> F -> list (F * F);
  (* getArcArcIntersection(arc0, arc1): ends and ArcLength of arc0, of arc1 *)
  ga_arcarc : F * F -> F * F -> F -> F * F -> F * F -> F -> list (F * F);
  (* shortestDistanceFromArc: query, arc ends, ArcLength *)
  ga_arcdist : F * F -> F * F -> F * F -> F -> F;
  (* the ArcLengths of the two halves of an arc (ends a0 a1, ArcLength) cut at a2:
     arg((a2-c)/(a0-c))*180/PI and arg((a1-c)/(a2-c))*180/PI *)
  ga_split : F * F -> F * F -> F * F -> F -> F * F;
  ga_arc_dmin : F * F -> F * F -> F -> F;        (* fabs(R*PI*ArcLength/180)*1.e-05 *)
  (* createRadius, the geometric part of the three cases.  Result: the two points handed to
     addNode, their tolerance, the two points whose closest nodes become n0 and n1 of the new
     arc, its ArcLength.  Two lines: corner, the two far ends, r; also whether seg[0] and seg[1]
     were swapped.  Line and arc: arc ends and ArcLength, corner, far end of the line, the line's
     ends n0 n1, r.  Two arcs: both arcs, corner, r. *)
  ga_rad_ll : F * F -> F * F -> F * F -> F ->
              option (bool * ((F * F) * (F * F) * F * (F * F) * (F * F) * F));
  ga_rad_la : F * F -> F * F -> F -> F * F -> F * F -> F * F -> F * F -> F ->
              option ((F * F) * (F * F) * F * (F * F) * (F * F) * F);
  ga_rad_aa : F * F -> F * F -> F -> F * F -> F * F -> F -> F * F -> F ->
              option ((F * F) * (F * F) * F * (F * F) * (F * F) * F) }.
Arguments ga_geo {F}. Arguments ga_m1 {F}. Arguments ga_le0 {F}. Arguments ga_close {F}.
Arguments ga_linearc {F}. Arguments ga_arcarc {F}. Arguments ga_arcdist {F}. Arguments ga_split {F}.
Arguments ga_arc_dmin {F}. Arguments ga_rad_ll {F}. Arguments ga_rad_la {F}. Arguments ga_rad_aa {F}.

(* the commands: those of Drawing.v (with their arc branches) and the arc commands *)
Inductive aop {F : Type} :=
| ABase (o : @op F)
| AAddArc (x0 y0 x1 y1 ang maxseg : F)          (* luaAddArc *)
| ASelectArc (x y : F)                           (* luaSelectArcsegment *)
| ASetArcProp (k g : nat) (maxseg : F)           (* luaSetArcsegmentProperty, as the harness issues it *)
| ADeleteSelectedArcs                            (* luaDeleteSelectedArcSegments *)
| ACreateRadius (x y r : F).                     (* luaCreateRadius *)

Section CoreA.
  Context {F : Type} (GA : GeoArc F).
  Local Notation G := (ga_geo GA).
  Local Notation pt := (F * F)%type.
  Local Notation nodeT := (@node F).
  Local Notation labT := (@lab F).
  Local Notation arcT := (@arc F).
  Local Notation drawingT := (@drawing F).
  Local Notation adrawingT := (@adrawing F).
  Local Notation opT := (@op F).
  Local Notation aopT := (@aop F).
  Variable fx : bool.

  Definition anodes (st : adrawingT) : list nodeT := d_nodes (ad_base st).
  Definition asegs (st : adrawingT) : list seg := d_segs (ad_base st).
  Definition alabs (st : adrawingT) : list labT := d_labs (ad_base st).
  Definition with_base (st : adrawingT) (b : drawingT) : adrawingT := mkAD b (ad_arcs st) (ad_asplit st).
  Definition set_arcs (st : adrawingT) (l : list arcT) : adrawingT := mkAD (ad_base st) l (ad_asplit st).
  (* a drawing without arcs, and back *)
  Definition lift (b : drawingT) : adrawingT := mkAD b [] false.
  Definition emptyA : adrawingT := lift empty.

  Definition asetsel (b : bool) (a : arcT) : arcT :=
    mkArc (an0 a) (an1 a) b (agrp a) (alen a) (amax a) (abdry a) (aprop a).
  Definition aset0 (k : nat) (a : arcT) : arcT :=
    mkArc k (an1 a) (asel a) (agrp a) (alen a) (amax a) (abdry a) (aprop a).
  Definition aset1 (k : nat) (a : arcT) : arcT :=
    mkArc (an0 a) k (asel a) (agrp a) (alen a) (amax a) (abdry a) (aprop a).
  Definition asetlen (l : F) (a : arcT) : arcT :=
    mkArc (an0 a) (an1 a) (asel a) (agrp a) l (amax a) (abdry a) (aprop a).

  (* FemmProblem::unselectAll *)
  Definition unselectAllA (st : adrawingT) : adrawingT :=
    mkAD (unselectAll (ad_base st)) (map (asetsel false) (ad_arcs st)) (ad_asplit st).

  Definition closestNodeA (st : adrawingT) (q : pt) : nat := closestNode G (ad_base st) q.

  (* shortestDistanceFromArc(q, arc) *)
  Definition arc_dist (nodes : list nodeT) (q : pt) (a : arcT) : F :=
    ga_arcdist GA q (pt_at G nodes (an0 a)) (pt_at G nodes (an1 a)) (alen a).
  (* FemmProblem::closestArcSegment *)
  Definition closestArc (st : adrawingT) (q : pt) : nat :=
    argmin G (map (arc_dist (anodes st) q) (ad_arcs st)).

  (* ---- FemmProblem::addNode, with its arc loop --------------------------------------------- *)
  (* shortestDistanceFromArc(CComplex(x,y),*arclist[i]) < d   (no fabs here) *)
  Definition on_arc (nodes : list nodeT) (q : pt) (d : F) (a : arcT) : bool :=
    g_lt G (arc_dist nodes q a) d.
  Definition arc_share (s t : arcT) : bool := Nat.eqb (an0 s) (an0 t) || Nat.eqb (an1 s) (an1 t).
  Fixpoint any_ashare (l : list arcT) : bool :=
    match l with [] => false | s :: r => existsb (arc_share s) r || any_ashare r end.
  (* arclist[i]->n1 = new; arclist[i]->ArcLength = arg((a2-c)/(a0-c))*180./PI;
     asegm = copy of the arc as it was; asegm->n0 = new; asegm->ArcLength = arg((a1-c)/(a2-c))*180./PI *)
  Definition arc_halves (nodes : list nodeT) (q : pt) (k : nat) (a : arcT) : arcT * arcT :=
    let ls := ga_split GA (pt_at G nodes (an0 a)) (pt_at G nodes (an1 a)) q (alen a) in
    (asetlen (fst ls) (aset1 k a), asetlen (snd ls) (aset0 k a)).

  Definition addNodeA (st : adrawingT) (nd : nodeT) (d : F) : adrawingT :=
    let q := npt nd in
    if existsb (near_node G q d) (anodes st) then st         (* too close to an existing node *)
    else if existsb (near_lab G q d) (alabs st) then st      (* on top of a block label *)
    else
      (* the point and the line loop: Drawing.addNode (the same two tests, then push_back and split) *)
      let b' := addNode G (ad_base st) nd d in
      let k := length (anodes st) in
      let nodes' := anodes st ++ [nd] in
      let hit := on_arc nodes' q d in
      let arcs' := map (fun a => if hit a then fst (arc_halves nodes' q k a) else a) (ad_arcs st)
                   ++ map (fun a => snd (arc_halves nodes' q k a)) (filter hit (ad_arcs st)) in
      mkAD b' arcs' (ad_asplit st || any_ashare (filter hit (ad_arcs st))).

  (* ---- deleteSelectedArcSegments ------------------------------------------------------------ *)
  Definition deleteSelectedArcs (st : adrawingT) : adrawingT :=
    set_arcs st (filter (fun a => negb (asel a)) (ad_arcs st)).
  Definition toggle_arc (st : adrawingT) (k : nat) : adrawingT :=
    set_arcs st (upd_nth (ad_arcs st) k (fun a => asetsel (negb (asel a)) a)).

  (* ---- FemmProblem::addSegment with its arc loop; the recursion runs on fuel ---------------- *)
  Definition line_arc_points (st : adrawingT) (n0 n1 : nat) : list pt :=
    flat_map (fun a => ga_linearc GA (pt_at G (anodes st) n0) (pt_at G (anodes st) n1)
                                    (pt_at G (anodes st) (an0 a)) (pt_at G (anodes st) (an1 a)) (alen a))
             (ad_arcs st).
  Definition set_oofA (st : adrawingT) : adrawingT := with_base st (set_oof (ad_base st)).

  Fixpoint addSegmentA (fuel : nat) (st : adrawingT) (n0 n1 : nat) (par : option seg) (tol : F)
    : adrawingT :=
    match fuel with
    | O => set_oofA st
    | S fuel' =>
      if Nat.eqb n0 n1 then st
      else if existsb (fun s => (Nat.eqb (s0 s) n0 && Nat.eqb (s1 s) n1)
                                || (Nat.eqb (s0 s) n1 && Nat.eqb (s1 s) n0)) (asegs st)
      then st
      else
        let proto := match par with
                     | Some p => mkSeg n0 n1 false (sgrp p) (sprop p)
                     | None => new_seg n0 n1
                     end in
        let newnodes := intersections G (ad_base st) n0 n1 (asegs st) ++ line_arc_points st n0 n1 in
        let t := if g_is0 G tol then auto_tol G (anodes st) else tol in
        let st1 := fold_left (fun s p => addNodeA s (new_node p) t) newnodes st in
        let st2 := with_base st1 (set_segs (ad_base st1) (asegs st1 ++ [proto])) in
        let st3 := unselectAllA st2 in
        let nodes := anodes st3 in
        let dmin := if g_is0 G tol then g_dmin G (g_cabs G (pt_at G nodes n1) (pt_at G nodes n0)) else tol in
        let k := length (asegs st3) - 1 in
        match find_first (passes_through G nodes n0 n1 dmin) 0 (length nodes) with
        | None => st3
        | Some i =>
            let st4 := with_base st3 (deleteSelectedSegments (toggle_seg (ad_base st3) k)) in
            let par' := match par with Some _ => Some proto | None => None end in
            let st5 := addSegmentA fuel' st4 n0 i par' dmin in
            addSegmentA fuel' st5 i n1 par' dmin
        end
    end.

  (* ---- FemmProblem::addArcSegment(asegm, tol); the recursion runs on fuel ------------------- *)
  Definition arc_dup (ar e : arcT) : bool :=
    Nat.eqb (an0 e) (an0 ar) && Nat.eqb (an1 e) (an1 ar) && ga_close GA (alen e) (alen ar).
  Definition arc_new_points (st : adrawingT) (ar : arcT) : list pt :=
    let P := pt_at G (anodes st) in
    flat_map (fun s => ga_linearc GA (P (s0 s)) (P (s1 s)) (P (an0 ar)) (P (an1 ar)) (alen ar)) (asegs st)
    ++ flat_map (fun e => ga_arcarc GA (P (an0 ar)) (P (an1 ar)) (alen ar) (P (an0 e)) (P (an1 e)) (alen e))
                (ad_arcs st).
  (* the node loop at the end: first i (other than n0, n1) with d < dmin, where d = shortestDistanceFromArc, replaced by
     2*dmin for a point closer than dmin to an end point of the arc (the two tests of addSegment, in addArcSegment
     since /repo 0d96bcd; without them the split recursed without end, C16-A1) *)
  Definition arc_passes_through (nodes : list nodeT) (ar : arcT) (dmin : F) (i : nat) : bool :=
    if Nat.eqb i (an0 ar) || Nat.eqb i (an1 ar) then false
    else
      let p := pt_at G nodes i in
      let d := arc_dist nodes p ar in
      let d := if g_lt G (g_cabs G p (pt_at G nodes (an0 ar))) dmin then g_twice G dmin else d in
      let d := if g_lt G (g_cabs G p (pt_at G nodes (an1 ar))) dmin then g_twice G dmin else d in
      g_lt G d dmin.

  Fixpoint addArcSegmentA (fuel : nat) (st : adrawingT) (ar0 : arcT) (tol : F) : adrawingT :=
    match fuel with
    | O => set_oofA st
    | S fuel' =>
      if Nat.eqb (an0 ar0) (an1 ar0) then st                        (* degenerate *)
      else if existsb (arc_dup ar0) (ad_arcs st) then st           (* already in the list *)
      else
        let ar := asetsel false ar0 in
        let newnodes := arc_new_points st ar in
        let t := if g_is0 G tol then auto_tol G (anodes st) else tol in
        let st1 := fold_left (fun s p => addNodeA s (new_node p) t) newnodes st in
        let st2 := set_arcs st1 (ad_arcs st1 ++ [ar]) in
        let st3 := unselectAllA st2 in
        let nodes := anodes st3 in
        let dmin := if g_is0 G tol
                    then ga_arc_dmin GA (pt_at G nodes (an0 ar)) (pt_at G nodes (an1 ar)) (alen ar) else tol in
        let k := length (ad_arcs st3) - 1 in
        match find_first (arc_passes_through nodes ar dmin) 0 (length nodes) with
        | None => st3
        | Some i =>
            let ls := ga_split GA (pt_at G nodes (an0 ar)) (pt_at G nodes (an1 ar)) (pt_at G nodes i) (alen ar) in
            let st4 := deleteSelectedArcs (toggle_arc st3 k) in
            let st5 := addArcSegmentA fuel' st4 (asetlen (fst ls) (aset1 i ar)) dmin in
            addArcSegmentA fuel' st5 (asetlen (snd ls) (aset0 i ar)) dmin
        end
    end.

  (* ---- FemmProblem::deleteSelectedNodes with its arc part ------------------------------------ *)
  Definition atouches (i : nat) (a : arcT) : bool := Nat.eqb (an0 a) i || Nat.eqb (an1 a) i.
  Definition adec_above (i : nat) (a : arcT) : arcT :=
    mkArc (if Nat.ltb i (an0 a) then an0 a - 1 else an0 a) (if Nat.ltb i (an1 a) then an1 a - 1 else an1 a)
          (asel a) (agrp a) (alen a) (amax a) (abdry a) (aprop a).
  (* lines and the point itself: Drawing.delete_node_at; arcs: mark (fx: select / toggle), delete the
     selected arcs, renumber *)
  Definition delete_node_atA (st : adrawingT) (i : nat) : adrawingT :=
    let marked := map (fun a => if atouches i a then asetsel (if fx then true else negb (asel a)) a else a)
                      (ad_arcs st) in
    mkAD (delete_node_at fx (ad_base st) i)
         (map (adec_above i) (filter (fun a => negb (asel a)) marked)) (ad_asplit st).
  Fixpoint delete_nodes_loopA (fuel i : nat) (st : adrawingT) : adrawingT :=
    match fuel with
    | O => st
    | S fuel' =>
      if Nat.ltb i (length (anodes st)) then
        if nsel (node_at G (anodes st) i) then delete_nodes_loopA fuel' i (delete_node_atA st i)
        else delete_nodes_loopA fuel' (S i) st
      else st
    end.
  Definition deleteSelectedNodesA (st : adrawingT) : adrawingT :=
    delete_nodes_loopA (length (anodes st)) 0 st.

  (* ---- FemmProblem::enforcePSLG(tol = 0) ------------------------------------------------------ *)
  Definition enforcePSLGA (fuel : nat) (st : adrawingT) : adrawingT :=
    let old := anodes st in
    let d := auto_tol G old in
    let st0 := mkAD (mkDrawing [] [] [] (d_oof (ad_base st)) (d_dsplit (ad_base st))) [] (ad_asplit st) in
    let st1 := fold_left (fun s nd => addNodeA s nd d) old st0 in
    let st2 := fold_left (fun s ln =>
                 addSegmentA fuel s (closestNodeA s (pt_at G old (s0 ln))) (closestNodeA s (pt_at G old (s1 ln)))
                             (Some ln) d) (asegs st) st1 in
    let st3 := fold_left (fun s a =>
                 addArcSegmentA fuel s (aset1 (closestNodeA s (pt_at G old (an1 a)))
                                              (aset0 (closestNodeA s (pt_at G old (an0 a))) a)) d)
                         (ad_arcs st) st2 in
    let st4 := with_base st3 (fold_left (fun b lb => addBlockLabel G b lb d) (alabs st) (ad_base st3)) in
    unselectAllA st4.

  (* ---- translateMove / rotateMove / scaleMove before their enforcePSLG ---------------------- *)
  Definition select_arc_ends (arcs : list arcT) (b : drawingT) : drawingT :=
    set_nodes b (fold_left (fun ns a => if asel a then upd_nth (upd_nth ns (an0 a) (nsetsel true)) (an1 a) (nsetsel true)
                                        else ns) arcs (d_nodes b)).
  Definition move_rawA (fn : pt -> pt) (fl : labT -> labT) (m : nat) (st : adrawingT) : adrawingT :=
    let b := ad_base st in
    let b1 := if mode_lines m then select_ends b else b in
    let b1a := if mode_arcs m then select_arc_ends (ad_arcs st) b1 else b1 in
    let processNodes := Nat.eqb m 0 || mode_lines m || mode_arcs m in
    let b2 := if mode_labels m
              then set_labs b1a (map (fun l => if lsel l then fl l else l) (d_labs b1a)) else b1a in
    with_base st (if processNodes
                  then set_nodes b2 (map (fun n => if nsel n then nsetpt (fn (npt n)) n else n) (d_nodes b2))
                  else b2).

  (* ---- one pass (one value of nc) of translateCopy / rotateCopy / mirrorCopy ----------------- *)
  (* arcs: copies of the two end points are appended, the copy of the arc joins them; a MIRRORED arc
     runs the other way round ([rev], mirrorCopy: newarc->n1 = size; push n0; newarc->n0 = size; push n1) *)
  Definition copy_arcs (rev : bool) (fn : pt -> pt) (st : adrawingT) : adrawingT :=
    fold_left (fun s a =>
      if asel a then
        let b := ad_base s in
        let A := copy_node fn (node_at G (d_nodes b) (an0 a)) in
        let B := copy_node fn (node_at G (d_nodes b) (an1 a)) in
        let k := length (d_nodes b) in
        mkAD (set_nodes b (d_nodes b ++ [A; B]))
             (ad_arcs s ++ [mkArc (if rev then S k else k) (if rev then k else S k) false (agrp a) (alen a) (amax a)
                                  (abdry a) (aprop a)])
             (ad_asplit s)
      else s) (ad_arcs st) st.
  (* translateCopy and mirrorCopy: points, lines, block labels (Drawing.copy_pass), then arcs;
     rotateCopy copies the arcs before the block labels — the two loops read and write disjoint lists *)
  Definition copy_passA (rev : bool) (fn : pt -> pt) (fl : labT -> labT) (m : nat) (st : adrawingT) : adrawingT :=
    let st1 := with_base st (copy_pass G fn fl m (ad_base st)) in
    if mode_arcs m then copy_arcs rev fn st1 else st1.

  Definition translateCopy_rawA (dx dy : F) (n m : nat) (st : adrawingT) : adrawingT :=
    fold_left (fun s nc =>
      let fn := g_translate G (g_times G nc dx) (g_times G nc dy) in
      copy_passA false fn (fun l => lsetpt (fn (lpt l)) l) m s) (seq 0 n) st.
  Definition rotateCopy_rawA (c : pt) (zs : list pt) (m : nat) (st : adrawingT) : adrawingT :=
    fold_left (fun s z =>
      let fn := g_rotate G c z in
      copy_passA false fn (fun l => lsetpt (fn (lpt l)) l) m s) zs st.

  (* ---- FemmProblem::createRadius(n, r) --------------------------------------------------------- *)
  Definition other_end (n : nat) (s : seg) : nat := if Nat.eqb (s0 s) n then s1 s else s0 s.
  (* addNode twice, unselectAll, delete the corner, add the arc between the closest nodes.
     The new arc is a default CArcSegment with InGroup and BoundaryMarkerName inherited. *)
  Definition radius_finish (fuel : nat) (st : adrawingT) (p0 : pt)
             (plan : pt * pt * F * pt * pt * F) (grp bdry : nat) : adrawingT :=
    let '(q1, q2, tol, e0, e1, len) := plan in
    let st1 := addNodeA st (new_node q1) tol in
    let st2 := addNodeA st1 (new_node q2) tol in
    let st3 := unselectAllA st2 in
    let n' := closestNodeA st3 p0 in
    let st4 := with_base st3 (set_nodes (ad_base st3) (upd_nth (anodes st3) n' (nsetsel true))) in
    let st5 := deleteSelectedNodesA st4 in
    let ar := mkArc (closestNodeA st5 e0) (closestNodeA st5 e1) false grp len (ga_m1 GA) bdry 0 in
    addArcSegmentA fuel st5 ar (g_zero G).

  Definition createRadiusA (fuel : nat) (st : adrawingT) (n : nat) (r : F) : adrawingT :=
    if ga_le0 GA r then st
    else
      let P := pt_at G (anodes st) in
      match filter (touches n) (asegs st), filter (atouches n) (ad_arcs st) with
      | [sA; sB], [] =>                                      (* two lines *)
          match ga_rad_ll GA (P n) (P (other_end n sA)) (P (other_end n sB)) r with
          | None => st
          | Some (swapped, plan) =>
              let s := if swapped then sB else sA in
              radius_finish fuel st (P n) plan (sgrp s) (sprop s)
          end
      | [sA], [aA] =>                                        (* one line and one arc *)
          match ga_rad_la GA (P (an0 aA)) (P (an1 aA)) (alen aA) (P n) (P (other_end n sA))
                          (P (s0 sA)) (P (s1 sA)) r with
          | None => st
          | Some plan => radius_finish fuel st (P n) plan (agrp aA) (abdry aA)
          end
      | [], [aA; aB] =>                                      (* two arcs *)
          match ga_rad_aa GA (P (an0 aA)) (P (an1 aA)) (alen aA) (P (an0 aB)) (P (an1 aB)) (alen aB) (P n) r with
          | None => st
          | Some plan => radius_finish fuel st (P n) plan (agrp aA) (abdry aA)
          end
      | _, _ => st                                           (* canCreateRadius: not exactly two *)
      end.

  (* ---- the commands ----------------------------------------------------------------------------- *)
  Definition on_base (st : adrawingT) (f : drawingT -> drawingT) : adrawingT := with_base st (f (ad_base st)).

  Definition stepA (fuel : nat) (st : adrawingT) (o : aopT) : adrawingT :=
    match o with
    | ABase (OAddNode x y) => addNodeA st (new_node (x, y)) (auto_tol G (anodes st))
    | ABase (OAddSegment x0 y0 x1 y1) =>
        addSegmentA fuel st (closestNodeA st (x0, y0)) (closestNodeA st (x1, y1)) None (g_zero G)
    | ABase (OSelectGroup g) =>
        mkAD (step G fx fuel (ad_base st) (OSelectGroup g))
             (map (fun a => if Nat.eqb (agrp a) g then asetsel true a else a) (ad_arcs st)) (ad_asplit st)
    | ABase (OSetGroup g) =>
        mkAD (step G fx fuel (ad_base st) (OSetGroup g))
             (map (fun a => asetsel false (if asel a then mkArc (an0 a) (an1 a) (asel a) g (alen a) (amax a) (abdry a) (aprop a)
                                           else a)) (ad_arcs st)) (ad_asplit st)
    | ABase OClearSelected => unselectAllA st
    | ABase ODeleteSelected =>
        (* deleteSelectedSegments; deleteSelectedArcSegments; deleteSelectedNodes; deleteSelectedBlockLabels *)
        let st1 := deleteSelectedArcs (on_base st deleteSelectedSegments) in
        on_base (deleteSelectedNodesA st1) deleteSelectedLabels
    | ABase ODeleteSelectedNodes => deleteSelectedNodesA st
    | ABase (OMoveTranslate dx dy m) =>
        if mode_valid m then
          let fn := g_translate G dx dy in
          enforcePSLGA fuel (move_rawA fn (fun l => lsetpt (fn (lpt l)) l) m st)
        else st
    | ABase (OMoveRotate cx cy zr zi m) =>
        if mode_valid m then
          let fn := g_rotate G (cx, cy) (zr, zi) in
          enforcePSLGA fuel (move_rawA fn (fun l => lsetpt (fn (lpt l)) l) m st)
        else st
    | ABase (OScale bx by_ sf m) =>
        if mode_valid m then
          let fn := g_scale G bx by_ sf in
          enforcePSLGA fuel (move_rawA fn (fun l => lsetarea (g_scale_area G sf (larea l)) (lsetpt (fn (lpt l)) l)) m st)
        else st
    | ABase (OCopyTranslate dx dy n m) =>
        if mode_valid m then enforcePSLGA fuel (translateCopy_rawA dx dy n m st) else st
    | ABase (OCopyRotate cx cy zs m) =>
        if mode_valid m then enforcePSLGA fuel (rotateCopy_rawA (cx, cy) zs m st) else st
    | ABase (OMirror x0 y0 x1 y1 m) =>
        if mode_valid m then
          match g_mirror_axis G x0 y0 x1 y1 with
          | None => st
          | Some (x, p) =>
              let fn := g_mirror G x p in
              enforcePSLGA fuel (copy_passA true fn (fun l => lsetpt (fn (lpt l)) l) m st)
          end
        else st
    (* addBlockLabel (it never looks at arcs), the point / line / label selections, property
       assignments and the line / label deletions do not touch the arc list: Drawing.step *)
    | ABase o => on_base st (fun b => step G fx fuel b o)
    | AAddArc x0 y0 x1 y1 ang ms =>
        match anodes st with
        | [] => st                                           (* luaAddArc: no nodes yet *)
        | _ =>
            let n0 := closestNodeA st (x0, y0) in
            let n1 := closestNodeA st (x1, y1) in
            let st1 := on_base st (fun b => toggle_node b n1) in
            unselectAllA (addArcSegmentA fuel st1 (mkArc n0 n1 false 0 ang ms 0 0) (g_zero G))
        end
    | ASelectArc x y => toggle_arc st (closestArc st (x, y))
    | ASetArcProp k g ms =>
        set_arcs st (map (fun a => if asel a then mkArc (an0 a) (an1 a) (asel a) g (alen a) ms k k else a) (ad_arcs st))
    | ADeleteSelectedArcs => deleteSelectedArcs st
    | ACreateRadius x y r =>
        match anodes st with
        | [] => st                                           (* closestNode < 0 *)
        | _ => createRadiusA fuel st (closestNodeA st (x, y)) (g_fabs G r)
        end
    end.

  Definition runA (fuel : nat) (ops : list aopT) (st : adrawingT) : adrawingT :=
    fold_left (stepA fuel) ops st.

  Fixpoint traceA (fuel : nat) (ops : list aopT) (st : adrawingT) : list adrawingT :=
    match ops with
    | [] => []
    | o :: r => let st' := stepA fuel st o in st' :: traceA fuel r st'
    end.

  Definition dumpA (st : adrawingT) :=
    (dump (ad_base st),
     map (fun a => (an0 a, an1 a, asel a, agrp a, alen a, amax a, abdry a, aprop a)) (ad_arcs st),
     ad_asplit st).
End CoreA.

(* ------------------------------------------------------------------------------------- *)
(* Part 2: the arc oracles as the C++ computes them.  libm functions and the constant DEG
   (femmconstants.h, 28 digits) come in a record. *)
Record Libm (F : Type) := mkLibm {
  l_sin : F -> F; l_tan : F -> F; l_atan2 : F -> F -> F; l_deg : F }.
Arguments l_sin {F}. Arguments l_tan {F}. Arguments l_atan2 {F}. Arguments l_deg {F}.

Section FormulasA.
  Context {F : Type} (A : Arith F) (L : Libm F).
  Local Notation "x +. y" := (aadd A x y) (at level 50, left associativity).
  Local Notation "x -. y" := (asub A x y) (at level 50, left associativity).
  Local Notation "x *. y" := (amul A x y) (at level 40, left associativity).
  Local Notation "x /. y" := (adiv A x y) (at level 40, left associativity).
  Local Notation zero := (azero A).
  Local Notation one := (aone A).
  Local Notation two := (aofZ A 2).
  Local Notation pt := (F * F)%type.
  Local Notation "a +c b" := (cadd A a b) (at level 50, left associativity).
  Local Notation "a -c b" := (csub A a b) (at level 50, left associativity).
  Local Notation "a *c b" := (cmul A a b) (at level 40, left associativity).
  Local Notation "a /c b" := (cdiv A a b) (at level 40, left associativity).

  Definition cabs1 (z : pt) : F := f_cabs1 A z.
  (* double * CComplex *)
  Definition rmulc (x : F) (z : pt) : pt := (x *. fst z, x *. snd z).
  (* CComplex * double, CComplex / double *)
  Definition cmulr (z : pt) (x : F) : pt := (fst z *. x, snd z *. x).
  Definition cdivd (z : pt) (x : F) : pt := (fst z /. x, snd z /. x).
  (* I*x = CComplex(0,1)*x ;  d + I*x ; d - I*x  (double op CComplex) *)
  Definition itimes (x : F) : pt := (zero *. x, one *. x).
  Definition rplusc (d : F) (z : pt) : pt := (d +. fst z, snd z).
  Definition rminusc (d : F) (z : pt) : pt := (d -. fst z, aneg A (snd z)).
  (* arg(const CComplex&) *)
  Definition carg (z : pt) : F :=
    if aeqb A (fst z) zero && aeqb A (snd z) zero then zero else l_atan2 L (snd z) (fst z).
  Definition k180 : F := aofZ A 180.
  Definition gtb (a b : F) : bool := altb A b a.

  (* getCircle: d, t, tta, R, c *)
  Definition f_circle (a0 a1 : pt) (len : F) : pt * F :=
    let d := cabs1 (a1 -c a0) in
    let t := cdivd (a1 -c a0) d in
    let tta := len *. api A /. k180 in
    let R := d /. (two *. l_sin L (tta /. two)) in
    (a0 +c (rplusc (d /. two) (itimes (asqrt A (R *. R -. d *. d /. aofZ A 4))) *c t), R).

  (* shortestDistanceFromArc(p, arc) *)
  Definition f_arcdist (p a0 a1 : pt) (len : F) : F :=
    let cR := f_circle a0 a1 len in
    let c := fst cR in let R := snd cR in
    let d := cabs1 (p -c c) in
    if aeqb A d zero then R
    else
      let t := cdivd (p -c c) d in
      let l := cabs1 (p -c c -c rmulc R t) in
      let z := carg (t /c (a0 -c c)) *. k180 /. api A in
      if gtb z zero && altb A z len then l
      else
        let z := cabs1 (p -c a0) in
        let l := cabs1 (p -c a1) in
        if altb A z l then z else l.

  (* getLineArcIntersection(seg, arc, p) *)
  Definition f_linearc (p0 p1 a0 a1 : pt) (len : F) : list pt :=
    let d := cabs1 (a1 -c a0) in
    let t := cdivd (a1 -c a0) d in
    let tta := len *. api A /. k180 in
    let R := d /. (two *. l_sin L (tta /. two)) in
    let c := a0 +c (rplusc (d /. two) (itimes (asqrt A (R *. R -. d *. d /. aofZ A 4))) *c t) in
    let d := cabs1 (p1 -c p0) in
    let t := cdivd (p1 -c p0) d in
    let v := (c -c p0) /c t in
    if gtb (aabs A (snd v)) R then []
    else
      let l := asqrt A (R *. R -. snd v *. snd v) in
      let ok (p : pt) : bool :=
        let R' := fst ((p -c p0) /c t) in
        let z := carg ((p -c c) /c (a0 -c c)) in
        gtb R' zero && altb A R' d && gtb z zero && altb A z tta in
      if altb A (l /. R) (adec A 1 (-5)) then
        let p := p0 +c rmulc (fst v) t in
        if ok p then [p] else []
      else
        let pa := p0 +c rmulc (fst v +. l) t in
        let pb := p0 +c rmulc (fst v -. l) t in
        (if ok pa then [pa] else []) ++ (if ok pb then [pb] else []).

  (* getArcArcIntersection(arc0, arc1, p) *)
  Definition f_arcarc (a0 a0e : pt) (len0 : F) (a1 a1e : pt) (len1 : F) : list pt :=
    let cR1 := f_circle a1 a1e len1 in
    let cR0 := f_circle a0 a0e len0 in
    let c1 := fst cR1 in let R1 := snd cR1 in
    let c0 := fst cR0 in let R0 := snd cR0 in
    let d := cabs1 (c1 -c c0) in
    if gtb d (R0 +. R1) || altb A d (adec A 1 (-8)) then []
    else
      let l := asqrt A ((R0 +. R1 -. d) *. (d +. R0 -. R1) *. (d -. R0 +. R1) *. (d +. R0 +. R1)) /. (two *. d) in
      let c := one +. (R0 /. d) *. (R0 /. d) -. (R1 /. d) *. (R1 /. d) in
      let t := cdivd (c1 -c c0) d in
      let tta0 := len0 *. api A /. k180 in
      let tta1 := len1 *. api A /. k180 in
      let ok (p : pt) : bool :=
        let z0 := carg ((p -c c0) /c (a0 -c c0)) in
        let z1 := carg ((p -c c1) /c (a1 -c c1)) in
        gtb z0 zero && altb A z0 tta0 && gtb z1 zero && altb A z1 tta1 in
      let pa := c0 +c (rplusc (c *. d /. two) (itimes l) *c t) in
      let first := if ok pa then [pa] else [] in
      if altb A (aabs A (d -. R0 +. R1) /. (R0 +. R1)) (adec A 1 (-5)) then first
      else
        let pb := c0 +c (rminusc (c *. d /. two) (itimes l) *c t) in
        first ++ (if ok pb then [pb] else []).

  Definition f_split (a0 a1 a2 : pt) (len : F) : F * F :=
    let c := fst (f_circle a0 a1 len) in
    (carg ((a2 -c c) /c (a0 -c c)) *. k180 /. api A, carg ((a1 -c c) /c (a2 -c c)) *. k180 /. api A).

  Definition f_arc_dmin (a0 a1 : pt) (len : F) : F :=
    let R := snd (f_circle a0 a1 len) in
    aabs A (R *. api A *. len /. k180) *. adec A 1 (-5).

  Definition f_close (e n : F) : bool := altb A (aabs A (e -. n)) (adec A 1 (-2)).

  Definition tenk : F := aofZ A 10000.

  (* createRadius, case 2: two lines *)
  Definition f_rad_ll (p0 p1 p2 : pt) (r : F) : option (bool * (pt * pt * F * pt * pt * F)) :=
    let phi := carg ((p2 -c p0) /c (p1 -c p0)) in
    if gtb (aabs A phi) (aofZ A 179 *. l_deg L) then None
    else
      let swapped := altb A phi zero in
      let p1' := if swapped then p2 else p1 in
      let p2' := if swapped then p1 else p2 in
      let phi := if swapped then aabs A phi else phi in
      let len := r /. l_tan L (phi /. two) in
      if altb A (cabs1 (p1' -c p0)) len || altb A (cabs1 (p2' -c p0)) len then None
      else
        let q1 := cdivd (rmulc len (p1' -c p0)) (cabs1 (p1' -c p0)) +c p0 in
        let q2 := cdivd (rmulc len (p2' -c p0)) (cabs1 (p2' -c p0)) +c p0 in
        Some (swapped, (q1, q2, len /. tenk, q2, q1, k180 -. phi /. l_deg L)).

  (* the common end of cases 0 and -2: the first two admissible candidates (i1, i2, centre), the one
     whose centre is closer to the corner, the angle spanned and the orientation *)
  Fixpoint first_two {T} (ok : T -> bool) (l : list T) (have : list T) : list T :=
    match l with
    | [] => have
    | x :: r => if ok x then match have with [] => first_two ok r [x] | h :: _ => [h; x] end
                else first_two ok r have
    end.
  Definition pick_plan (cands : list (pt * pt * pt)) (corner : pt) (tol : F) : option (pt * pt * F * pt * pt * F) :=
    let chosen := match cands with
                  | [] => None
                  | [x] => Some x
                  | x :: y :: _ =>
                      if altb A (cabs1 (snd x -c corner)) (cabs1 (snd y -c corner)) then Some x else Some y
                  end in
    match chosen with
    | None => None
    | Some (i1, i2, v) =>
        let phi := carg ((i2 -c v) /c (i1 -c v)) in
        if altb A phi zero then Some (i1, i2, tol, i2, i1, aabs A phi /. l_deg L)
        else Some (i1, i2, tol, i1, i2, phi /. l_deg L)
    end.

  (* createRadius, case 0: one arc and one line *)
  Definition f_rad_la (a0 a1 : pt) (len : F) (p0 p1 s0p s1p : pt) (r : F) : option (pt * pt * F * pt * pt * F) :=
    let cR := f_circle a0 a1 len in
    let c := fst cR in let rc := snd cR in
    let u := cdivd (p1 -c p0) (cabs1 (p1 -c p0)) in
    let q := p0 +c cmulr u (fst ((c -c p0) /c u)) in
    let u2 := cdivd (q -c c) (cabs1 (q -c c)) in
    let pk := [(q +c rmulc r u2, rc +. r); (q -c rmulc r u2, rc +. r);
               (q +c rmulc r u2, rc -. r); (q -c rmulc r u2, rc -. r)] in
    let vs := flat_map (fun pR : pt * F =>
                let p := fst pR in let Rk := snd pR in
                let b := Rk *. Rk -. cabs1 (p -c c) *. cabs1 (p -c c) in
                if aleb A zero b then
                  let b := asqrt A b in
                  [p +c cdivd (itimes b *c (p -c c)) (cabs1 (p -c c));
                   p -c cdivd (itimes b *c (p -c c)) (cabs1 (p -c c))]
                else []) pk in
    let tol := r /. tenk in
    let cand (v : pt) : pt * pt * pt :=
      (p0 +c cmulr u (fst ((v -c p0) /c u)), c +c cdivd (rmulc rc (v -c c)) (cabs1 (v -c c)), v) in
    let ok (x : pt * pt * pt) : bool :=
      let i1 := fst (fst x) in let i2 := snd (fst x) in
      altb A (f_arcdist i2 a0 a1 len) tol && altb A (f_segdist A i1 s0p s1p) tol && gtb (cabs1 (i1 -c i2)) tol in
    pick_plan (first_two ok (map cand vs) []) p0 tol.

  (* createRadius, case -2: two arcs *)
  Definition f_rad_aa (a0 a1 : pt) (lenA : F) (b0 b1 : pt) (lenB : F) (c0 : pt) (r0 : F)
    : option (pt * pt * F * pt * pt * F) :=
    let cR1 := f_circle a0 a1 lenA in
    let cR2 := f_circle b0 b1 lenB in
    let c1 := fst cR1 in let r1 := snd cR1 in
    let c2 := fst cR2 in let r2 := snd cR2 in
    let c := cabs1 (c2 -c c1) in
    let ab := [(r1 +. r0, r2 +. r0); (r1 -. r0, r2 -. r0); (r1 -. r0, r2 +. r0); (r1 +. r0, r2 -. r0)] in
    let ps := flat_map (fun abk : F * F =>
                let a := fst abk in let b := snd abk in
                let x := (b *. b +. c *. c -. a *. a) /. (two *. c *. c) in
                let d := asqrt A (b *. b -. x *. x *. c *. c) in
                [cdivd (rplusc ((one -. x) *. c) (itimes d) *c (c2 -c c1)) (cabs1 (c2 -c c1)) +c c1;
                 cdivd (rminusc ((one -. x) *. c) (itimes d) *c (c2 -c c1)) (cabs1 (c2 -c c1)) +c c1]) ab in
    let tolr := r0 /. tenk in
    let cand (p : pt) : pt * pt * pt :=
      (c1 +c cdivd (rmulc r1 (p -c c1)) (cabs1 (p -c c1)), c2 +c cdivd (rmulc r2 (p -c c2)) (cabs1 (p -c c2)), p) in
    let ok (x : pt * pt * pt) : bool :=
      let i1 := fst (fst x) in let i2 := snd (fst x) in
      altb A (f_arcdist i1 a0 a1 lenA) tolr && altb A (f_arcdist i2 b0 b1 lenB) tolr && gtb (cabs1 (i1 -c i2)) tolr in
    pick_plan (first_two ok (map cand ps) []) c0 (c /. tenk).

  Definition geoArcA : GeoArc F := {|
    ga_geo := geoA A;
    ga_m1 := aneg A one;
    ga_le0 := fun r => aleb A r zero;
    ga_close := f_close;
    ga_linearc := f_linearc;
    ga_arcarc := f_arcarc;
    ga_arcdist := f_arcdist;
    ga_split := f_split;
    ga_arc_dmin := f_arc_dmin;
    ga_rad_ll := f_rad_ll;
    ga_rad_la := f_rad_la;
    ga_rad_aa := f_rad_aa |}.
End FormulasA.

(* ------------------------------------------------------------------------------------- *)
(* The libm values of one run of the implementation, as finite tables (binary search trees keyed by
   the argument bits; built by tools/props/xarc.py from the values harness/h_drawing_arc.cpp
   records).  An argument that is not in the table reads as nan: the model then disagrees with the
   implementation, which the correspondence reports. *)
Inductive tbl1 := T1leaf | T1node (l : tbl1) (k v : float) (r : tbl1).
Inductive tbl2 := T2leaf | T2node (l : tbl2) (k1 k2 v : float) (r : tbl2).

(* total order on non-nan floats that separates -0 from +0 *)
Definition fcmp (x k : float) : comparison :=
  if PrimFloat.ltb x k then Lt
  else if PrimFloat.ltb k x then Gt
  else if PrimFloat.ltb (PrimFloat.div 1 x) (PrimFloat.div 1 k) then Lt
  else if PrimFloat.ltb (PrimFloat.div 1 k) (PrimFloat.div 1 x) then Gt
  else Eq.
Fixpoint look1 (t : tbl1) (x : float) : float :=
  match t with
  | T1leaf => nan
  | T1node l k v r => match fcmp x k with Lt => look1 l x | Gt => look1 r x | Eq => v end
  end.
Fixpoint look2 (t : tbl2) (x y : float) : float :=
  match t with
  | T2leaf => nan
  | T2node l k1 k2 v r =>
      match fcmp x k1 with
      | Lt => look2 l x y
      | Gt => look2 r x y
      | Eq => match fcmp y k2 with Lt => look2 l x y | Gt => look2 r x y | Eq => v end
      end
  end.
Definition libm_of_tables (ts tt : tbl1) (ta : tbl2) : Libm float := {|
  l_sin := fun x => if PrimFloat.eqb x x then look1 ts x else nan;
  l_tan := fun x => if PrimFloat.eqb x x then look1 tt x else nan;
  l_atan2 := fun y x => if PrimFloat.eqb x x && PrimFloat.eqb y y then look2 ta y x else nan;
  l_deg := 0x1.1df46a2529d39p-6%float |}.
