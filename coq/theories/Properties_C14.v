(* Properties_C14.v — theorem statements for property C14 (problem files survive load and save),
   each closed by [exact] of a lemma of SchemaProofs.v / SchemaGaps.v (or a vm_compute over the
   regenerated schemas gen/Schemas.v).  Nothing else lives here. *)
From Coq Require Import String List ZArith Bool Reals.
From Coq Require PrimFloat.
From XF Require Import Arith Schema SchemaProofs SchemaGaps.
From XF.gen Require Import Schemas.
Import ListNotations.
Local Open Scope string_scope.

(* -- the generic, unbounded theorem: for ALL schemas, ALL records, any number type ------------ *)
Theorem C14_parse_print_roundtrip : forall (F : Type) (A : Arith F) (ps : parse_schema) (pr : print_schema),
  wf_parse ps = true -> wf_print pr = true -> compatible ps pr = true ->
  forall r : list (string * @value F), in_domain A ps pr r -> parse A ps (print A pr r) = r.
Proof. exact (fun F A => parse_print_roundtrip A). Qed.
Print Assumptions C14_parse_print_roundtrip.

(* stronger: gaps need not be empty — [in_domain] then pins the unwritten fields to their defaults *)
Theorem C14_parse_print_roundtrip_modulo_gaps : forall (F : Type) (A : Arith F) ps pr,
  compatible_modulo_gaps ps pr = true ->
  forall r : list (string * @value F), in_domain A ps pr r -> parse A ps (print A pr r) = r.
Proof. exact (fun F A => parse_print_roundtrip_gen A). Qed.
Print Assumptions C14_parse_print_roundtrip_modulo_gaps.

Theorem C14_print_parse_print_idempotent : forall (F : Type) (A : Arith F) ps pr,
  compatible_modulo_gaps ps pr = true ->
  forall r : list (string * @value F), in_domain A ps pr r ->
  print A pr (parse A ps (print A pr r)) = print A pr r.
Proof. exact (fun F A => print_parse_print_idempotent A). Qed.
Print Assumptions C14_print_parse_print_idempotent.

(* saving is idempotent on whatever was loaded (a block written by anybody, in any key order,
   with unknown keys): save(load(save(load b))) = save(load b) *)
Theorem C14_save_load_save_fixpoint : forall (F : Type) (A : Arith F) ps pr,
  compatible_modulo_gaps ps pr = true ->
  forall b : list (string * @value F), in_domain A ps pr (parse A ps b) ->
  print A pr (parse A ps (print A pr (parse A ps b))) = print A pr (parse A ps b).
Proof. exact (fun F A => save_load_save_fixpoint A). Qed.
Print Assumptions C14_save_load_save_fixpoint.

Theorem C14_unknown_keys_are_skipped : forall (F : Type) (A : Arith F) ps (b : list (string * @value F)) k v,
  find_pe ps (lower k) = None -> parse A ps (b ++ [(k, v)]) = parse A ps b.
Proof. exact (fun F A => parse_unknown_key A). Qed.
Print Assumptions C14_unknown_keys_are_skipped.

Theorem C14_no_gaps_means_every_field_is_written : forall ps pr, gaps ps pr = [] ->
  forall e, In e ps -> pe_field e <> "" ->
  exists w, In w pr /\ exists e', find_pe ps (lower (we_key w)) = Some e' /\ pe_field e' = pe_field e.
Proof. exact gap_free_covers. Qed.
Print Assumptions C14_no_gaps_means_every_field_is_written.

(* -- the schemas translated from the sources of /repo on this run ------------------------------ *)
(* every reader/writer pair is compatible, except exactly the committed gaps (SchemaGaps.v) *)
Theorem C14_schemas_compatible_except_known_gaps :
  compatible_except gen_schemas (known_gaps ++ not_in_format) = true.
Proof. vm_compute. reflexivity. Qed.
Print Assumptions C14_schemas_compatible_except_known_gaps.

(* the solvers' own header reader accepts every key the writer writes, with the same kind *)
Theorem C14_solver_readers_accept_written_keys :
  forallb (fun n => compatible_modulo_gaps (snd (fst n)) (snd n)) gen_accept_schemas = true.
Proof. vm_compute. reflexivity. Qed.
Print Assumptions C14_solver_readers_accept_written_keys.

(* hence the round trip holds for every translated class, on its domain *)
Theorem C14_roundtrip_all_classes : forall (F : Type) (A : Arith F) c ps pr,
  In (c, ps, pr) gen_schemas ->
  forall r : list (string * @value F), in_domain A ps pr r -> parse A ps (print A pr r) = r.
Proof.
  intros F A c ps pr Hin. apply parse_print_roundtrip_gen.
  pose proof C14_schemas_compatible_except_known_gaps as H. unfold compatible_except in H.
  apply andb_true_iff in H as [H _]. apply andb_true_iff in H as [H _].
  rewrite forallb_forall in H. exact (H _ Hin).
Qed.
Print Assumptions C14_roundtrip_all_classes.

(* D6: each committed gap really loses the field on load -> save (witness found by vm_compute) *)
Theorem C14_known_gaps_refuted : forall g, In g known_gaps -> gap_loses gen_schemas g.
Proof. apply gap_checks_sound. vm_compute. reflexivity. Qed.
Print Assumptions C14_known_gaps_refuted.

(* -- value codecs ---------------------------------------------------------------------------------- *)
Local Open Scope R_scope.
Theorem C14_maxarea_roundtrip : forall d : R, d > 0 -> sqrt (4 * (PI * d ^ 2 / 4) / PI) = d.
Proof. exact maxarea_roundtrip. Qed.
Print Assumptions C14_maxarea_roundtrip.

(* real-number reading: a well-typed value in range is read back unchanged (ints with +1 offsets,
   flag bits within the mask, bools 0/1, MaxArea >= 0 through sqrt(4A/PI) and d*(PI*d/4),
   MaxSideLength >= 0 or -1, tables within the reader's capacity, enumerators the writer knows) *)
Theorem C14_value_codecs_R : forall pk wk pt wt (v : @value R), value_ok pk wk pt wt v ->
  conv RA pk pt (tf_print RA wt wk v) = Some v.
Proof. exact codec_R. Qed.
Print Assumptions C14_value_codecs_R.
Local Close Scope R_scope.

(* names: the text between the first and the LAST quote of the line — quotes inside survive *)
Theorem C14_unquote_quote : forall s : string, unquote (quote s) = Some s.
Proof. exact unquote_quote. Qed.
Print Assumptions C14_unquote_quote.

(* -- non-vacuity: a record with non-default values that is in the domain --------------------------- *)
Example C14_domain_inhabited :
  in_domain FA ps_CSPointProp pr_CSPointProp
    [("V", VNum PrimFloat.two); ("qp", VNum (PrimFloat.div PrimFloat.one PrimFloat.two)); ("PointName", VStr "a ""b"" c")].
Proof.
  repeat split.
  - intros w f v e Hw Hc Hs Hg He.
    simpl in Hw. destruct Hw as [<-|[<-|[<-|[]]]]; simpl in *;
      injection Hs as <-; injection He as <-; simpl in Hg; injection Hg as <-; reflexivity.
  - intros w c e Hw Hc Hs He Hn.
    simpl in Hw. destruct Hw as [<-|[<-|[<-|[]]]]; simpl in Hs; discriminate.
  - intros f Hf Hl. exfalso. simpl in Hf.
    destruct Hf as [<-|[<-|[<-|[]]]].
    + apply (Hl (mkWE "<Vp>" (SField "V") KNum TId CAlways)); simpl; auto.
    + apply (Hl (mkWE "<qp>" (SField "qp") KNum TId CAlways)); simpl; auto.
    + apply (Hl (mkWE "<PointName>" (SField "PointName") KStr TId CAlways)); simpl; auto.
Qed.
