(* AsmMAxiNLProofs.v — theorems about the model AsmMAxiNL.v of the nonlinear loop of
   FSolver::StaticAxisymmetric (real-number reading).  Structure of AsmMNLProofs.v; the lemmas about
   nl_combine, GetBHProps of a straight-line table, nl_control and the Newton identity of one element
   are AsmMNLProofs' (the model shares those definitions). *)
From Coq Require Import ZArith List Bool Arith Lia Reals Lra.
From XF Require Import Arith Sparse SparseProofs AsmOps AsmOpsProofs AsmE AsmEProofs AsmM AsmMProofs BH ClosedFormProofs.
Set Warnings "-ambiguous-paths".
From Coquelicot Require Import Coquelicot.
From XF Require Import BHProofs AsmMNL AsmMNLProofs AsmMAxi AsmMAxiProofs AsmMAxiNL.
Import ListNotations.
Local Open Scope R_scope.

Local Notation vgetR := (vget RA).
Local Notation probR := (mprob (F:=R)).
Local Notation aprobR := (aprob (F:=R)).
Local Notation elemR := (melem (F:=R)).
Local Notation alogsR := (alogs (F:=R)).
Local Notation matR := (mat (F:=R)).
Local Notation linR := (lin (F:=R)).
Local Notation elaR := (elemR * alogsR)%type.

Ltac len9x Me H := let m0 := fresh "m" in let m1 := fresh "m" in let m2 := fresh "m" in let m3 := fresh "m" in
  let m4 := fresh "m" in let m5 := fresh "m" in let m6 := fresh "m" in let m7 := fresh "m" in let m8 := fresh "m" in
  destruct (len9_explicit Me H) as (m0 & m1 & m2 & m3 & m4 & m5 & m6 & m7 & m8 & ->).

(* ========================================================================================== *)
(* 1. the iterate-independent part of the element loop body is that of the linear model        *)
(* ========================================================================================== *)
Section Parts.
  Variables (AP : aprobR) (extRo extRi extZo : R) (res : list (nat * R * R)).
  Local Notation P := (ap AP).

  (* the linear element matrices for an arbitrary pair of permeabilities: what StaticAxisymmetric assembles
     for a linear material with effective permeabilities (mu1, mu2) in this element *)
  Definition asecant_matrices (ela : elaR) (mu : R * R) : vecT R * vecT R :=
    let '(Mx, My, Mxy, Me, be) := ael_parts RA AP res ela in
    (combine_me RA Me Mx My Mxy (fst mu) (snd mu), be).

  Lemma amelem_matrices_parts (ela : elaR) :
    amelem_matrices RA AP extRo extRi extZo res ela =
      (fst (asecant_matrices ela (e_mu AP extRo extRi extZo (fst ela))),
       snd (asecant_matrices ela (e_mu AP extRo extRi extZo (fst ela))), e_mu AP extRo extRi extZo (fst ela)).
  Proof.
    destruct ela as [el lg]. unfold amelem_matrices, asecant_matrices, ael_parts, e_mu, e_R. cbv zeta. cbn [fst snd].
    destruct (ael_shape RA P el lg) as [[Mx My] Mxy].
    destruct (fold_left (amixed_step RA P (mel_geom RA P el) (el_rn RA P el) el) [0%nat; 1%nat; 2%nat]
                        (repeat (azero RA) 9, repeat (azero RA) 3)) as [Me be].
    destruct (ael_mu RA AP extRo extRi extZo el (gr (mel_geom RA P el)) (el_zn RA P el)) as [mu1 mu2]. reflexivity.
  Qed.

  Lemma ael_parts_lengths (ela : elaR) :
    let '(Mx, My, Mxy, Me, be) := ael_parts RA AP res ela in
    length Mx = 9%nat /\ length My = 9%nat /\ length Mxy = 9%nat /\ length Me = 9%nat /\ length be = 3%nat.
  Proof.
    destruct ela as [el lg]. unfold ael_parts. cbv zeta.
    destruct (ael_shape_spec AP el lg) as (Sx & Sy & Sxy & _).
    destruct (ael_shape RA P el lg) as [[Mx My] Mxy]. cbn [fst snd] in Sx, Sy, Sxy.
    assert (S0 : sym9 (repeat (azero RA) 9)) by (cbn; do 6 eexists; reflexivity).
    assert (B0 : AsmEProofs.len3 (repeat (azero RA) 3)) by (cbn; do 3 eexists; reflexivity).
    destruct (amixed_fold_shape AP (mel_geom RA P el) (el_rn RA P el) el _ _ S0 B0) as [S1 B1].
    destruct (fold_left (amixed_step RA P (mel_geom RA P el) (el_rn RA P el) el) [0%nat; 1%nat; 2%nat]
                        (repeat (azero RA) 9, repeat (azero RA) 3)) as [Me be].
    cbn [fst snd] in S1, B1.
    split; [apply sym9_len; exact Sx|]. split; [apply sym9_len; exact Sy|]. split; [apply sym9_len; exact Sxy|].
    split; [apply sym9_len; exact S1|].
    destruct B1 as (b0 & b1 & b2 & ->).
    cbn [fold_left]. unfold amagnet_step. rewrite !v3add_length. reflexivity.
  Qed.

  (* ascatter and mscatter are the same "+= contribution" operations *)
  Lemma ascatter_is_mscatter n (Me be : vecT R) (M : matrixT R) (b : vecT R) :
    ascatter RA n Me be M b = mscatter RA n Me be M b.
  Proof. rewrite ascatter_as_ops, mscatter_as_ops. reflexivity. Qed.
End Parts.

(* ========================================================================================== *)
(* 2. reduction to the linear case                                                             *)
(* ========================================================================================== *)
Section Reduction.
  Variables (AP : aprobR) (extRo extRi extZo : R) (mats : list matR) (res : list (nat * R * R)).
  Local Notation P := (ap AP).

  Definition ael_blk (el : elemR) : mblock (F:=R) := nth (mblk el) (mblocks P) (dmblock RA).

  (* the element's block either has no table, or is LamType 0 with a straight-line table (H = k B, slopes k,
     from B = 0) whose permeability 1/(muo k) is the element's effective first-pass permeability e_mu
     (= AsmM.el_mu of the block outside the exterior region, see [e_mu_not_external]) *)
  Definition ael_lin_ok (ela : elaR) : Prop :=
    let el := fst ela in
    let m := nth (mblk el) mats (dmat RA) in
    bhpoints m = 0%nat \/
    (bLamType (ael_blk el) = 0%nat /\
     exists k Bd mux, m = line_mat (k, 0) Bd mux (mMuo m) /\ incr Bd /\ (2 <= length Bd)%nat /\ hd 0 Bd = 0 /\
       e_mu AP extRo extRi extZo el = (1 / (mMuo m * k), 1 / (mMuo m * k))).

  Lemma e_mu_not_external el :
    nth (mlbl el) (aext AP) false = false -> e_mu AP extRo extRi extZo el = el_mu RA (ael_blk el).
  Proof.
    intros H. unfold e_mu, ael_mu, ael_blk. destruct (el_mu RA (nth (mblk el) (mblocks P) (dmblock RA))) as [m1 m2].
    rewrite H. reflexivity.
  Qed.

  Lemma Rmult_0_list9 (K : R) (v : vecT R) : K = 0 ->
    map (fun jw : nat * nat => K * vgetR v (fst jw) * vgetR v (snd jw)) idx9 = repeat 0 9.
  Proof. intros ->. cbn. repeat f_equal; ring. Qed.

  (* permeability update of an element of a straight-line block: the linear permeability again, no tangent term *)
  Lemma ael_mu_Mn_line iter V (ela : elaR) parts :
    ael_lin_ok ela ->
    ael_mu_Mn RA AP extRo extRi extZo mats iter V ela parts (e_mu AP extRo extRi extZo (fst ela))
      = (e_mu AP extRo extRi extZo (fst ela), repeat 0 9).
  Proof.
    intros Hok. unfold ael_mu_Mn. destruct parts as [[[[Mx My] Mxy] Me] be]. cbv zeta.
    destruct (Nat.eqb iter 0); [reflexivity|].
    unfold anl_update. cbv zeta. fold (ael_blk (fst ela)).
    destruct Hok as [H0 | (HL & k & Bd & mux & Hm & Hi & Hlen & Hhd & Hmu)].
    - rewrite H0. cbn [Nat.ltb Nat.leb]. rewrite !andb_false_r. cbn [fst snd]. reflexivity.
    - rewrite HL. cbn [Nat.eqb andb]. rewrite Hmu. cbn [fst snd].
      assert (Hq : aeqb RA (1 / (mMuo (nth (mblk (fst ela)) mats (dmat RA)) * k)) (1 / (mMuo (nth (mblk (fst ela)) mats (dmat RA)) * k)) = true)
        by (apply Reqb_true; reflexivity).
      rewrite Hq. cbn [andb].
      assert (Hnl : Nat.ltb 0 (bhpoints (nth (mblk (fst ela)) mats (dmat RA))) = true).
      { apply Nat.ltb_lt. rewrite Hm. unfold bhpoints, line_mat. cbn [mB]. lia. }
      rewrite Hnl. unfold nl_mu_of.
      set (B := anl_Bmag RA _ _ _).
      rewrite Hm at 1. rewrite (line_getBHProps k Bd mux _ B Hi Hlen Hhd).
      ra_simpl. f_equal. apply Rmult_0_list9. unfold Rdiv. ring.
  Qed.

  (* hence the element matrices of every pass are the linear ones *)
  Lemma anl_elem_matrices_line iter V (ela : elaR) :
    ael_lin_ok ela ->
    anl_elem_matrices RA AP extRo extRi extZo mats res iter V ela (e_mu AP extRo extRi extZo (fst ela))
      = amelem_matrices RA AP extRo extRi extZo res ela.
  Proof.
    intros Hok. unfold anl_elem_matrices. rewrite (ael_mu_Mn_line iter V ela _ Hok).
    rewrite amelem_matrices_parts. unfold asecant_matrices.
    pose proof (ael_parts_lengths AP res ela) as HL.
    destruct (ael_parts RA AP res ela) as [[[[Mx My] Mxy] Me] be].
    destruct HL as (_ & _ & _ & HMe & Hbe).
    rewrite nl_combine_zero by auto. reflexivity.
  Qed.

  (* first pass, ANY problem (no hypothesis on the tables): Iter = 0 assembles the linear problem whose
     permeabilities are the blocks' mu_x, mu_y — for a block with a table the initial slope GetSlopes stored *)
  Lemma anl_elem_matrices_first V (ela : elaR) mu_old :
    anl_elem_matrices RA AP extRo extRi extZo mats res 0 V ela mu_old = amelem_matrices RA AP extRo extRi extZo res ela.
  Proof.
    unfold anl_elem_matrices, ael_mu_Mn. cbn [Nat.eqb].
    rewrite amelem_matrices_parts. unfold asecant_matrices.
    pose proof (ael_parts_lengths AP res ela) as HL.
    destruct (ael_parts RA AP res ela) as [[[[Mx My] Mxy] Me] be].
    destruct HL as (_ & _ & _ & HMe & Hbe).
    fold (e_R AP (fst ela)). fold (e_mu AP extRo extRi extZo (fst ela)).
    rewrite nl_combine_zero by auto. reflexivity.
  Qed.

  Definition alin_mus (els : list elaR) : list (R * R) := map (fun ela => e_mu AP extRo extRi extZo (fst ela)) els.

  Lemma anl_step_is_amelem_step iter V M b rmus (ela : elaR) mu_old :
    anl_elem_matrices RA AP extRo extRi extZo mats res iter V ela mu_old = amelem_matrices RA AP extRo extRi extZo res ela ->
    anl_elem_step RA AP extRo extRi extZo mats res iter V (M, b, rmus) (ela, mu_old)
      = (fst (amelem_step RA AP extRo extRi extZo res (M, b) ela), snd (amelem_step RA AP extRo extRi extZo res (M, b) ela),
         e_mu AP extRo extRi extZo (fst ela) :: rmus).
  Proof.
    intros E. unfold anl_elem_step, amelem_step. cbn [fst snd]. rewrite E.
    rewrite amelem_matrices_parts.
    destruct (asecant_matrices AP res ela (e_mu AP extRo extRi extZo (fst ela))) as [Me be]. cbn [fst snd].
    destruct (ascatter RA (mp (fst ela)) Me be M b) as [M' b']. reflexivity.
  Qed.

  Lemma anl_loop_line iter V : forall (els : list elaR) M b rmus, List.Forall ael_lin_ok els ->
    fold_left (anl_elem_step RA AP extRo extRi extZo mats res iter V) (combine els (alin_mus els)) (M, b, rmus)
      = (fst (fold_left (amelem_step RA AP extRo extRi extZo res) els (M, b)),
         snd (fold_left (amelem_step RA AP extRo extRi extZo res) els (M, b)), rev (alin_mus els) ++ rmus).
  Proof.
    induction els as [|el els IH]; intros M b rmus Hok; [reflexivity|].
    apply Forall_cons_iff in Hok. destruct Hok as [Hel Hok].
    cbn [alin_mus map combine fold_left].
    rewrite (anl_step_is_amelem_step iter V M b rmus el _ (anl_elem_matrices_line iter V el Hel)).
    destruct (amelem_step RA AP extRo extRi extZo res (M, b) el) as [M1 b1] eqn:E1. cbn [fst snd].
    fold (alin_mus els). rewrite (IH M1 b1 _ Hok). cbn [rev]. rewrite <- app_assoc. reflexivity.
  Qed.

  Lemma anl_loop_first V : forall (els : list elaR) mus M b rmus, length mus = length els ->
    fold_left (anl_elem_step RA AP extRo extRi extZo mats res 0 V) (combine els mus) (M, b, rmus)
      = (fst (fold_left (amelem_step RA AP extRo extRi extZo res) els (M, b)),
         snd (fold_left (amelem_step RA AP extRo extRi extZo res) els (M, b)), rev (alin_mus els) ++ rmus).
  Proof.
    induction els as [|el els IH]; intros mus M b rmus Hlen; [destruct mus; reflexivity|].
    destruct mus as [|mu mus]; [discriminate Hlen|].
    cbn [alin_mus map combine fold_left].
    rewrite (anl_step_is_amelem_step 0 V M b rmus el mu (anl_elem_matrices_first V el mu)).
    destruct (amelem_step RA AP extRo extRi extZo res (M, b) el) as [M1 b1] eqn:E1. cbn [fst snd].
    fold (alin_mus els). rewrite (IH mus M1 b1 _ ltac:(cbn in Hlen; lia)). cbn [rev]. rewrite <- app_assoc. reflexivity.
  Qed.
End Reduction.

Section ReductionPass.
  Variables (AP : aprobR) (mats : list matR) (res : list (nat * R * R)).
  Local Notation P := (ap AP).
  (* extRo*=units[LengthUnits]; ...  (staticaxi.cpp:69-71) *)
  Definition xRo : R := aRo_raw AP * aunit RA P.
  Definition xRi : R := aRi_raw AP * aunit RA P.
  Definition xZo : R := aZo_raw AP * aunit RA P.
  Definition aelas : list elaR := combine (melems P) (alg AP).

  (* the LINEAR assembly of AsmMAxi.asmMAxi, started from an arbitrary CBigLinProb state L0 (Create'd or Wipe'd) *)
  Definition aasm_from (L0 : linR) : linR :=
    let s := fold_left (amelem_step RA AP xRo xRi xZo res) aelas (lM L0, lb L0) in
    anl_finish RA P L0 (fst s) (snd s).

  Definition alin_mus_all : list (R * R) := alin_mus AP xRo xRi xZo aelas.

  Theorem anl_pass_line iter L0 :
    List.Forall (ael_lin_ok AP xRo xRi xZo mats) aelas ->
    anl_pass RA AP mats res iter L0 alin_mus_all = (aasm_from L0, alin_mus_all).
  Proof.
    intros Hok. unfold anl_pass, aasm_from, alin_mus_all. cbv zeta. ra_simpl. fold xRo xRi xZo aelas.
    rewrite (anl_loop_line AP xRo xRi xZo mats res iter _ _ _ _ _ Hok).
    rewrite app_nil_r, rev_involutive. reflexivity.
  Qed.

  Theorem anl_pass_first L0 mus :
    length mus = length aelas ->
    anl_pass RA AP mats res 0 L0 mus = (aasm_from L0, alin_mus_all).
  Proof.
    intros Hlen. unfold anl_pass, aasm_from, alin_mus_all. cbv zeta. ra_simpl. fold xRo xRi xZo aelas.
    rewrite (anl_loop_first AP xRo xRi xZo mats res _ _ _ _ _ _ Hlen).
    rewrite app_nil_r, rev_involutive. reflexivity.
  Qed.
End ReductionPass.

(* AsmMAxi.asmMAxi is aasm_from the freshly created CBigLinProb *)
Lemma asmMAxi_is_aasm_from (AP : aprobR) bw prec :
  asmMAxi RA AP bw prec
    = (aasm_from AP (acirc_results RA (ap AP)) (lcreate RA (length (mnodes (ap AP))) bw prec (adec RA 15 (-1))),
       acirc_results RA (ap AP)).
Proof.
  unfold asmMAxi, asmMAxi_raw, aasm_from, anl_finish, aelas, xRo, xRi, xZo. cbv zeta. ra_simpl.
  destruct (fold_left (amelem_step RA AP _ _ _ (acirc_results RA (ap AP))) (combine (melems (ap AP)) (alg AP)) _) as [M b].
  reflexivity.
Qed.

(* ========================================================================================== *)
(* 3. the whole iteration on straight-line tables: an inductive invariant                      *)
(* ========================================================================================== *)
Section IterateLine.
  Variables (AP : aprobR) (mats : list matR) (res : list (nat * R * R)).

  (* before the first pass the stored permeabilities are irrelevant; afterwards they are the linear ones *)
  Definition aline_inv (st : nlstate (F:=R)) : Prop :=
    let '(L, mus, c) := st in
    (cIter c = 0%nat /\ length mus = length (aelas AP)) \/ (cIter c <> 0%nat /\ mus = alin_mus_all AP).

  (* the stored list has one entry per element when the problem carries one alogs per element *)
  Lemma aline_inv_state0 bw prec :
    length (alg AP) = length (melems (ap AP)) -> aline_inv (anl_state0 RA AP mats bw prec).
  Proof.
    intros HL. unfold aline_inv, anl_state0, nl_state0, nl_ctl0. left. cbn [cIter]. split; [reflexivity|].
    unfold aelas. rewrite map_length, combine_length, HL. lia.
  Qed.

  (* EVERY pass of the loop assembles the linear system of the linear material (started from the Create'd
     matrix in the first pass and from the Wipe'd one afterwards), whatever the linear solver returns *)
  Theorem anl_every_pass_line (st : nlstate (F:=R)) :
    List.Forall (ael_lin_ok AP (xRo AP) (xRi AP) (xZo AP) mats) (aelas AP) -> aline_inv st ->
    let '(L, mus, c) := st in
    anl_assemble RA AP mats res st
      = (aasm_from AP res (if Nat.eqb (cIter c) 0 then L else wipe RA L), alin_mus_all AP) /\
    forall V, aline_inv (nl_after_solve RA st (fst (anl_assemble RA AP mats res st)) (snd (anl_assemble RA AP mats res st)) V).
  Proof.
    intros Hok Hinv. destruct st as [[L mus] c]. unfold aline_inv in Hinv.
    assert (E : anl_assemble RA AP mats res (L, mus, c)
                = (aasm_from AP res (if Nat.eqb (cIter c) 0 then L else wipe RA L), alin_mus_all AP)).
    { unfold anl_assemble. destruct Hinv as [[H0 Hlen] | [Hn ->]].
      - rewrite H0. cbn [Nat.eqb]. apply anl_pass_first. exact Hlen.
      - apply anl_pass_line. exact Hok. }
    split; [exact E|]. intros V. rewrite E. cbn [fst snd]. unfold nl_after_solve, aline_inv.
    destruct (nl_control RA (lprec L) _ V c) as [c' V'] eqn:Ec.
    right. split; [|reflexivity].
    pose proof (nl_control_iter (lprec L) (Sparse.lV (aasm_from AP res (if Nat.eqb (cIter c) 0 then L else wipe RA L))) V c) as Hi.
    rewrite Ec in Hi. cbn [fst] in Hi. lia.
  Qed.

  (* ... so when the loop ends (or runs out of fuel) the stored permeabilities are the linear ones *)
  Theorem anl_iterate_line solve : forall fuel st b st',
    List.Forall (ael_lin_ok AP (xRo AP) (xRi AP) (xZo AP) mats) (aelas AP) -> aline_inv st ->
    anl_iterate RA solve AP mats res fuel st = Some (b, st') -> aline_inv st'.
  Proof.
    induction fuel as [|fuel IH]; intros st b st' Hok Hinv E.
    - cbn in E. injection E as _ <-. exact Hinv.
    - cbn [anl_iterate] in E.
      pose proof (anl_every_pass_line st Hok Hinv) as HP.
      destruct st as [[L mus] c]. destruct HP as [EA HV].
      destruct (anl_assemble RA AP mats res (L, mus, c)) as [L1 mus1] eqn:EA'. cbn [fst snd] in *.
      destruct (solve (cIter c) L1) as [V|]; [|discriminate E].
      specialize (HV V).
      destruct (cLinear (snd (nl_after_solve RA (L, mus, c) L1 mus1 V))).
      + injection E as _ <-. exact HV.
      + eapply IH; eauto.
  Qed.
End IterateLine.

(* ========================================================================================== *)
(* 4. what one Newton pass solves                                                              *)
(* ========================================================================================== *)
Section Newton.
  Variables (AP : aprobR) (extRo extRi extZo : R) (mats : list matR) (res : list (nat * R * R)).
  Local Notation P := (ap AP).

  Lemma sym3_zero : sym3 (repeat (azero RA) 9).
  Proof. intros j k Hj Hk. destruct j as [|[|[|j]]]; try lia; destruct k as [|[|[|k]]]; try lia; reflexivity. Qed.

  (* the tangent term of anl_update is symmetric and a 3x3 matrix *)
  Lemma anl_update_Mn m blk vol Mx My V3 mu :
    length (snd (anl_update RA m blk vol Mx My V3 mu)) = 9%nat /\ sym3 (snd (anl_update RA m blk vol Mx My V3 mu)).
  Proof.
    unfold anl_update. cbv zeta.
    set (c1 := Nat.eqb (bLamType blk) 0 && _ && _).
    set (c2 := Nat.eqb (bLamType blk) 1 && _).
    set (c3 := Nat.eqb (bLamType blk) 2 && _).
    destruct c3.
    - destruct (nl_mu_of RA m _) as [mu' dv]. cbn [snd]. split; [reflexivity|].
      intros j k Hj Hk. destruct j as [|[|[|j]]]; try lia; destruct k as [|[|[|k]]]; try lia;
        unfold m3get, idx9; cbn [map nth fst snd Nat.mul Nat.add]; ra_simpl; ring.
    - destruct c2.
      + destruct (nl_mu_of RA m _) as [mu' dv]. cbn [snd]. split; [reflexivity|].
        intros j k Hj Hk. destruct j as [|[|[|j]]]; try lia; destruct k as [|[|[|k]]]; try lia;
          unfold m3get, idx9; cbn [map nth fst snd Nat.mul Nat.add]; ra_simpl; ring.
      + destruct c1.
        * destruct (nl_mu_of RA m _) as [mu' dv]. cbn [snd]. split; [reflexivity|].
          intros j k Hj Hk. destruct j as [|[|[|j]]]; try lia; destruct k as [|[|[|k]]]; try lia;
            unfold m3get, idx9; cbn [map nth fst snd Nat.mul Nat.add]; ra_simpl; ring.
        * split; [reflexivity|apply sym3_zero].
  Qed.

  Lemma ael_mu_Mn_sym iter V (ela : elaR) parts mu_old :
    length (snd (ael_mu_Mn RA AP extRo extRi extZo mats iter V ela parts mu_old)) = 9%nat /\
    sym3 (snd (ael_mu_Mn RA AP extRo extRi extZo mats iter V ela parts mu_old)).
  Proof.
    unfold ael_mu_Mn. destruct parts as [[[[Mx My] Mxy] Me] be]. cbv zeta.
    destruct (Nat.eqb iter 0); [|apply anl_update_Mn].
    cbn [snd]. split; [reflexivity|apply sym3_zero].
  Qed.

  (* THE NEWTON STEP, element level, as assembled: in every pass, for every element, the assembled local
     equation is (nonlinear residual at the previous iterate V, with the UPDATED permeability) + tangent * step:
        (S+Mn) U - (f + Mn V) = (S V - f) + (S+Mn)(U - V) *)
  Theorem anewton_step_element iter V U (ela : elaR) mu_old a : (a < 3)%nat ->
    let r := anl_elem_matrices RA AP extRo extRi extZo mats res iter V ela mu_old in
    let Me := fst (fst r) in let be := snd (fst r) in let mu := snd r in
    let S := asecant_matrices AP res ela mu in
    local_resid Me be (mp (fst ela)) U a
      = local_resid (fst S) (snd S) (mp (fst ela)) V a
        + (tangent_row Me (mp (fst ela)) U a - tangent_row Me (mp (fst ela)) V a).
  Proof.
    intros Ha. unfold anl_elem_matrices, asecant_matrices.
    pose proof (ael_parts_lengths AP res ela) as HL.
    pose proof (ael_mu_Mn_sym iter V ela (ael_parts RA AP res ela) mu_old) as [HMn Hsym].
    destruct (ael_mu_Mn RA AP extRo extRi extZo mats iter V ela (ael_parts RA AP res ela) mu_old) as [mu Mn].
    cbn [snd] in HMn, Hsym.
    destruct (ael_parts RA AP res ela) as [[[[Mx My] Mxy] Me] be].
    destruct HL as (Lx & Ly & Lxy & LMe & Lbe).
    pose proof (newton_step_local Me be Mx My Mxy Mn (fst mu) (snd mu) (mp (fst ela)) V U a LMe Lx Ly Lxy HMn Lbe Hsym Ha) as HN.
    cbv zeta in HN. unfold el_V3. cbn [map]. unfold nodal3 in HN.
    destruct (nl_combine RA Me be Mx My Mxy Mn (fst mu) (snd mu) _) as [Me' be']. cbn [fst snd] in *. exact HN.
  Qed.

  (* consistency: at U = V the assembled local equation IS the nonlinear residual  K(nu(B(V))) V - f *)
  Corollary anewton_consistent_element iter V (ela : elaR) mu_old a : (a < 3)%nat ->
    let r := anl_elem_matrices RA AP extRo extRi extZo mats res iter V ela mu_old in
    let S := asecant_matrices AP res ela (snd r) in
    local_resid (fst (fst r)) (snd (fst r)) (mp (fst ela)) V a = local_resid (fst S) (snd S) (mp (fst ela)) V a.
  Proof. intros Ha. cbv zeta. rewrite (anewton_step_element iter V V ela mu_old a Ha). ring. Qed.

  (* contribution of one element of pass [iter] to row i of the residual at U *)
  Definition anl_el_resid iter V (em : elaR * (R * R)) (U : vecT R) (i : nat) : R :=
    let r := anl_elem_matrices RA AP extRo extRi extZo mats res iter V (fst em) (snd em) in
    resid3 (mp (fst (fst em))) (fst (fst r)) (snd (fst r)) U i.

  (* ... and of the nonlinear (secant) equations at V, with the permeability the pass computed from V *)
  Definition asecant_el_resid iter V (em : elaR * (R * R)) (i : nat) : R :=
    let r := anl_elem_matrices RA AP extRo extRi extZo mats res iter V (fst em) (snd em) in
    let S := asecant_matrices AP res (fst em) (snd r) in
    resid3 (mp (fst (fst em))) (fst S) (snd S) V i.

  Lemma anl_el_resid_at_iterate iter V em i : anl_el_resid iter V em V i = asecant_el_resid iter V em i.
  Proof.
    unfold anl_el_resid, asecant_el_resid, resid3.
    rewrite !(anewton_consistent_element iter V (fst em) (snd em)) by lia. reflexivity.
  Qed.

  Theorem anl_loop_rows iter V U : forall (ems : list (elaR * (R * R))) (M : matrixT R) (b : vecT R) rmus,
    mat_wf M -> length b = length M -> List.Forall (fun em => elem_okM (length M) (fst (fst em))) ems ->
    let s' := fold_left (anl_elem_step RA AP extRo extRi extZo mats res iter V) ems (M, b, rmus) in
    mat_wf (fst (fst s')) /\ length (fst (fst s')) = length M /\ length (snd (fst s')) = length b /\
    forall i, (i < length M)%nat ->
      Ax (fst (fst s')) U i - vgetR (snd (fst s')) i
        = (Ax M U i - vgetR b i) - lsum (fun em => anl_el_resid iter V em U i) ems.
  Proof.
    induction ems as [|em ems IH]; intros M b rmus Hwf Hb Hok.
    - cbn [fold_left fst snd lsum]. split; [exact Hwf|]. split; [reflexivity|]. split; [reflexivity|]. intros i Hi. lra.
    - apply Forall_cons_iff in Hok. destruct Hok as [(Hd & H0 & H1 & H2) Hok].
      cbn [fold_left].
      destruct (anl_elem_matrices RA AP extRo extRi extZo mats res iter V (fst em) (snd em)) as [[Me be] mu] eqn:Er.
      destruct (scatter_rows M b (mp (fst (fst em))) Me be U Hwf Hb Hd H0 H1 H2) as (W1 & L1 & L2 & HR).
      assert (Es : anl_elem_step RA AP extRo extRi extZo mats res iter V (M, b, rmus) em
                   = (fst (mscatter RA (mp (fst (fst em))) Me be M b), snd (mscatter RA (mp (fst (fst em))) Me be M b), mu :: rmus)).
      { unfold anl_elem_step. rewrite Er. rewrite ascatter_is_mscatter.
        destruct (mscatter RA (mp (fst (fst em))) Me be M b); reflexivity. }
      rewrite Es.
      destruct (mscatter RA (mp (fst (fst em))) Me be M b) as [M1 b1]. cbn [fst snd] in *.
      destruct (IH M1 b1 (mu :: rmus) W1 ltac:(lia) ltac:(rewrite L1; exact Hok)) as (W & L & Lb & HR2).
      split; [exact W|]. split; [lia|]. split; [lia|].
      intros i Hi. rewrite HR2 by lia. rewrite HR by auto. cbn [lsum].
      unfold anl_el_resid at 2. rewrite Er. cbn [fst snd]. lra.
  Qed.

  (* FIXED POINT.  Take any pass whose element loop starts from an all-zero matrix and right-hand side (the
     Create'd or Wipe'd CBigLinProb) and was assembled from the iterate V.  V satisfies row i of the assembled
     element-loop system iff the NONLINEAR axisymmetric equations
        sum_el [ K_el(nu(B_el(V))) V - f_el ]_i = 0
     hold at row i, K_el and f_el being the linear axisymmetric element matrix / source vector for the
     permeability the pass computed from V (asecant_matrices). *)
  Theorem anl_fixed_point_row iter V (ems : list (elaR * (R * R))) (M : matrixT R) (b : vecT R) rmus i :
    mat_wf M -> length b = length M -> List.Forall (fun em => elem_okM (length M) (fst (fst em))) ems ->
    (i < length M)%nat -> Ax M V i = 0 -> vgetR b i = 0 ->
    let s' := fold_left (anl_elem_step RA AP extRo extRi extZo mats res iter V) ems (M, b, rmus) in
    Ax (fst (fst s')) V i = vgetR (snd (fst s')) i <-> lsum (fun em => asecant_el_resid iter V em i) ems = 0.
  Proof.
    intros Hwf Hb Hok Hi HA Hbi s'.
    destruct (anl_loop_rows iter V V ems M b rmus Hwf Hb Hok) as (_ & _ & _ & HR).
    fold s' in HR. specialize (HR i Hi). rewrite HA, Hbi in HR.
    assert (E : lsum (fun em => anl_el_resid iter V em V i) ems = lsum (fun em => asecant_el_resid iter V em i) ems).
    { clear. induction ems as [|em ems IH]; cbn [lsum]; [reflexivity|]. rewrite IH, anl_el_resid_at_iterate. reflexivity. }
    rewrite E in HR. split; intros H; lra.
  Qed.
End Newton.

(* ========================================================================================== *)
(* 5. the secant matrices are the modified-potential matrices of AsmMAxi for the updated mu    *)
(* ========================================================================================== *)
Section SecantForm.
  Variables (AP : aprobR) (res : list (nat * R * R)).
  Local Notation P := (ap AP).

  Lemma m3get_zero9 j k : (j < 3)%nat -> (k < 3)%nat -> m3get RA (repeat (azero RA) 9) j k = 0.
  Proof. intros Hj Hk. destruct j as [|[|[|j]]]; try lia; destruct k as [|[|[|k]]]; try lia; reflexivity. Qed.

  (* the shape matrices an element's secant matrix is combined from *)
  Lemma asecant_get el lg (mu : R * R) j k : no_mixed_edge P el -> (j < 3)%nat -> (k < 3)%nat ->
    let s := ael_shape RA P el lg in
    m3get RA (fst (asecant_matrices AP res (el, lg) mu)) j k
      = m3get RA (fst (fst s)) j k / snd mu + m3get RA (snd (fst s)) j k / fst mu.
  Proof.
    intros He Hj Hk s. unfold asecant_matrices, ael_parts. cbv zeta.
    destruct (ael_shape_spec AP el lg) as (Sx & Sy & Sxy & _). fold s in Sx, Sy, Sxy. fold s.
    destruct s as [[Mx My] Mxy]. cbn [fst snd] in *.
    rewrite amixed_none by exact He. cbn [fst snd].
    rewrite combine_me_get by first [reflexivity | assumption | apply sym9_len; assumption].
    rewrite m3get_zero9 by assumption. lra.
  Qed.

  (* every entry except the diagonal entry of an on-axis node:
       S[j][k] = -( vol bz_j bz_k / mu2 + vol/(R R_hat) br_j br_k / mu1 )
     — Properties_C05_axi.v (c) with the permeabilities of the pass instead of the block's *)
  Theorem asecant_is_modified_potential_form el lg (mu : R * R) j k :
    no_mixed_edge P el -> (j < 3)%nat -> (k < 3)%nat -> (j <> k \/ e_axis AP el j = false) ->
    e_ah AP el <> 0 -> e_R AP el <> 0 -> e_Rh AP el lg <> 0 -> fst mu <> 0 -> snd mu <> 0 ->
    m3get RA (fst (asecant_matrices AP res (el, lg) mu)) j k
      = - (e_vol AP el * e_bz AP el j * e_bz AP el k / snd mu
           + e_vol AP el / (e_R AP el * e_Rh AP el lg) * e_br AP el j * e_br AP el k / fst mu).
  Proof.
    intros He Hj Hk Hax Hah HR HRh H1 H2.
    rewrite (asecant_get el lg mu j k He Hj Hk).
    destruct (ael_shape_spec AP el lg) as (_ & _ & _ & HX & HY).
    rewrite (HX j k Hj Hk Hax), (HY j k Hj Hk).
    unfold e_bz, e_br, e_vol. field. repeat split; assumption.
  Qed.

  (* the source vector does not depend on the permeability: it is the linear model's *)
  Lemma asecant_rhs extRo extRi extZo ela mu :
    snd (asecant_matrices AP res ela mu) = snd (fst (amelem_matrices RA AP extRo extRi extZo res ela)).
  Proof.
    rewrite amelem_matrices_parts. cbn [fst snd]. unfold asecant_matrices.
    destruct (ael_parts RA AP res ela) as [[[[Mx My] Mxy] Me] be]. reflexivity.
  Qed.
End SecantForm.

(* ========================================================================================== *)
(* 6. the flux density of the update                                                           *)
(* ========================================================================================== *)
Section FluxDensity.
  Variables (AP : aprobR).
  Local Notation P := (ap AP).

  (* S = Mx + My of the element *)
  Definition aS (el : elemR) (lg : alogsR) (j k : nat) : R :=
    m3get RA (fst (fst (ael_shape RA P el lg))) j k + m3get RA (snd (fst (ael_shape RA P el lg))) j k.

  Lemma ael_vol_is_e_vol el : ael_vol RA AP el = e_vol AP el.
  Proof. unfold ael_vol, e_vol, e_ah, e_R. ra_simpl. reflexivity. Qed.

  Lemma aS_sym el lg j k : (j < 3)%nat -> (k < 3)%nat -> aS el lg j k = aS el lg k j.
  Proof.
    intros Hj Hk. unfold aS. destruct (ael_shape_spec AP el lg) as (Sx & Sy & _).
    rewrite (sym9_get _ j k Sx Hj Hk), (sym9_get _ j k Sy Hj Hk). reflexivity.
  Qed.

  (* v = (Mx+My) V3 as computed by the code *)
  Lemma mv3_get (f : nat -> nat -> R) (v0 v1 v2 : R) j : (j < 3)%nat ->
    vgetR (mv3 RA f [v0; v1; v2]) j = f j 0%nat * v0 + f j 1%nat * v1 + f j 2%nat * v2.
  Proof. intros Hj. destruct j as [|[|[|j]]]; try lia; unfold mv3, sum3, vget; cbn [map nth]; ra_simpl; ring. Qed.

  (* the quadratic form the code evaluates: dv = V.(Mx+My)V * (10000 c^2/vol),  B = sqrt|dv| *)
  Definition aquad (el : elemR) (lg : alogsR) (v0 v1 v2 : R) : R :=
    let V := fun j : nat => match j with 0%nat => v0 | 1%nat => v1 | _ => v2 end in
    V 0%nat * (aS el lg 0 0 * v0 + aS el lg 0 1 * v1 + aS el lg 0 2 * v2)
    + V 1%nat * (aS el lg 1 0 * v0 + aS el lg 1 1 * v1 + aS el lg 1 2 * v2)
    + V 2%nat * (aS el lg 2 0 * v0 + aS el lg 2 1 * v1 + aS el lg 2 2 * v2).

  (* Bsq = -(10000 c^2 / vol) V.(Mx+My)V: the signed quantity whose modulus the code takes the root of *)
  Definition aBsq (el : elemR) (lg : alogsR) (v0 v1 v2 : R) : R :=
    - (10000 * c4pi RA * c4pi RA / e_vol AP el) * aquad el lg v0 v1 v2.
  Definition adBsq (el : elemR) (lg : alogsR) (v0 v1 v2 : R) (w : nat) : R :=
    - (20000 * c4pi RA * c4pi RA / e_vol AP el) * (aS el lg w 0 * v0 + aS el lg w 1 * v1 + aS el lg w 2 * v2).

  Lemma anl_Bmag_sq el lg v0 v1 v2 :
    let V3 := [v0; v1; v2] in
    let Mx := fst (fst (ael_shape RA P el lg)) in let My := snd (fst (ael_shape RA P el lg)) in
    let v := mv3 RA (fun j w => m3get RA Mx j w + m3get RA My j w) V3 in
    let B := anl_Bmag RA (ael_vol RA AP el) V3 v in
    B * B = Rabs (aBsq el lg v0 v1 v2).
  Proof.
    intros V3 Mx My v B. unfold B, anl_Bmag. cbv zeta. ra_simpl.
    rewrite sqrt_sqrt by apply Rabs_pos.
    unfold sum3, v, V3. rewrite !(mv3_get _ v0 v1 v2) by lia. unfold vget. cbn [nth]. ra_simpl.
    rewrite ael_vol_is_e_vol. unfold aBsq, aquad, aS. fold Mx My.
    rewrite <- Rabs_Ropp. f_equal. unfold Rdiv. ring.
  Qed.

  (* THE FLUX DENSITY OF THE UPDATE is the volume-weighted rms flux density of the modified-potential element
     (Properties_C05_axi.v (c): B_z = sum bz_j A_j constant, r B_r = -sum br_j A_j; weights vol/2 for r dr dz and
     vol/(2 R R_hat) for (1/r) dr dz, A = c V, 100 converting 1/cm to 1/m):
        B^2 = (100 c)^2 | (sum_j bz_j V_j)^2 + (sum_j br_j V_j)^2 / (R R_hat) |
     provided the iterate vanishes at the element's on-axis nodes (their diagonal entries of Mx carry the extra
     scaling term of staticaxi.cpp:278-279; SetValue(i,0) makes every solved iterate vanish there). *)
  Theorem anl_B_is_rms_flux_density el lg v0 v1 v2 :
    e_ah AP el <> 0 -> e_R AP el <> 0 -> e_Rh AP el lg <> 0 ->
    (e_axis AP el 0 = false \/ v0 = 0) -> (e_axis AP el 1 = false \/ v1 = 0) -> (e_axis AP el 2 = false \/ v2 = 0) ->
    let Bz := e_bz AP el 0 * v0 + e_bz AP el 1 * v1 + e_bz AP el 2 * v2 in
    let rBr := e_br AP el 0 * v0 + e_br AP el 1 * v1 + e_br AP el 2 * v2 in
    aBsq el lg v0 v1 v2 = (100 * c4pi RA) * (100 * c4pi RA) * (Bz * Bz + rBr * rBr / (e_R AP el * e_Rh AP el lg)).
  Proof.
    intros Hah HR HRh A0 A1 A2 Bz rBr.
    destruct (ael_shape_spec AP el lg) as (_ & _ & _ & HX & HY).
    set (FX := fun j k => -1 / (2 * e_ah AP el * e_R AP el) * e_p AP el j * e_r AP el j * e_p AP el k * e_r AP el k).
    assert (Hoff : forall j k, (j < 3)%nat -> (k < 3)%nat -> j <> k ->
              m3get RA (fst (fst (ael_shape RA P el lg))) j k = FX j k).
    { intros j k Hj Hk Hn. apply HX; auto. }
    assert (Hd : forall j vj, (j < 3)%nat -> (e_axis AP el j = false \/ vj = 0) ->
              vj * (m3get RA (fst (fst (ael_shape RA P el lg))) j j * vj) = vj * (FX j j * vj)).
    { intros j vj Hj [Hax | ->]; [rewrite (HX j j Hj Hj (or_intror Hax)); reflexivity | ring]. }
    unfold aBsq, aquad, aS.
    rewrite !HY by lia.
    rewrite (Hoff 0%nat 1%nat), (Hoff 0%nat 2%nat), (Hoff 1%nat 0%nat), (Hoff 1%nat 2%nat), (Hoff 2%nat 0%nat), (Hoff 2%nat 1%nat) by lia.
    pose proof (Hd 0%nat v0 ltac:(lia) A0) as D0. pose proof (Hd 1%nat v1 ltac:(lia) A1) as D1. pose proof (Hd 2%nat v2 ltac:(lia) A2) as D2.
    set (X00 := m3get RA (fst (fst (ael_shape RA P el lg))) 0 0) in *.
    set (X11 := m3get RA (fst (fst (ael_shape RA P el lg))) 1 1) in *.
    set (X22 := m3get RA (fst (fst (ael_shape RA P el lg))) 2 2) in *.
    match goal with |- - ?c * ?q = _ =>
      replace q with ((v0 * (X00 * v0) + v1 * (X11 * v1) + v2 * (X22 * v2)) + (q - (v0 * (X00 * v0) + v1 * (X11 * v1) + v2 * (X22 * v2)))) by ring end.
    rewrite D0 at 1. rewrite D1 at 1. rewrite D2 at 1.
    unfold FX, Bz, rBr, e_bz, e_br, e_vol. field. repeat split; assumption.
  Qed.
End FluxDensity.

(* dBsq is the gradient of Bsq with respect to the three nodal values (S = Mx + My is symmetric) *)
Theorem aBsq_is_derive (AP : aprobR) (el : elemR) (lg : alogsR) (v0 v1 v2 : R) :
  is_derive (fun x => aBsq AP el lg x v1 v2) v0 (adBsq AP el lg v0 v1 v2 0) /\
  is_derive (fun x => aBsq AP el lg v0 x v2) v1 (adBsq AP el lg v0 v1 v2 1) /\
  is_derive (fun x => aBsq AP el lg v0 v1 x) v2 (adBsq AP el lg v0 v1 v2 2).
Proof.
  unfold aBsq, adBsq, aquad.
  rewrite (aS_sym AP el lg 1 0), (aS_sym AP el lg 2 0), (aS_sym AP el lg 2 1) by lia.
  replace (20000 * c4pi RA * c4pi RA / e_vol AP el) with (2 * (10000 * c4pi RA * c4pi RA / e_vol AP el)) by (unfold Rdiv; ring).
  generalize (aS AP el lg 0 0) (aS AP el lg 0 1) (aS AP el lg 0 2) (aS AP el lg 1 1) (aS AP el lg 1 2) (aS AP el lg 2 2)
             (10000 * c4pi RA * c4pi RA / e_vol AP el).
  intros s00 s01 s02 s11 s12 s22 c.
  split; [|split]; (auto_derive; [repeat split; auto | ring]).
Qed.

Section Tangent.
  Variables (AP : aprobR).
  Local Notation P := (ap AP).

  (* THE TANGENT TERM (LamType 0, isotropic current permeability, block with a table):
       Mn[j][w] = (c/100) * dv * dBsq/dV_w * ((Mx+My) V)_j,     dv = d(H/B)/d(B^2) from GetBHProps,
     i.e. -Mn is the derivative w.r.t. V_w of the secant row  -(1/mu(B)) ((Mx+My) V)_j  at fixed (Mx+My) V, with
     1/mu = muo * H/B and muo = c/100 (c = 4 pi 1e-5) *)
  Theorem atangent_term_lam0 (m : matR) (blk : mblock (F:=R)) (el : elemR) (lg : alogsR) (mu : R * R) v0 v1 v2 j w :
    bLamType blk = 0%nat -> fst mu = snd mu -> (0 < bhpoints m)%nat -> (j < 3)%nat -> (w < 3)%nat ->
    e_vol AP el <> 0 ->
    let Mx := fst (fst (ael_shape RA P el lg)) in let My := snd (fst (ael_shape RA P el lg)) in
    let V3 := [v0; v1; v2] in
    let v := mv3 RA (fun j w => m3get RA Mx j w + m3get RA My j w) V3 in
    let B := anl_Bmag RA (ael_vol RA AP el) V3 v in
    let r := anl_update RA m blk (ael_vol RA AP el) Mx My V3 mu in
    fst r = (fst (nl_mu_of RA m B), fst (nl_mu_of RA m B)) /\
    m3get RA (snd r) j w
      = c4pi RA / 100 * snd (nl_mu_of RA m B) * adBsq AP el lg v0 v1 v2 w * vgetR v j.
  Proof.
    intros HL Hmu Hn Hj Hw Hvol Mx My V3 v B r.
    unfold r, anl_update. cbv zeta. rewrite HL. cbn [Nat.eqb andb fst snd].
    assert (Hq : aeqb RA (fst mu) (snd mu) = true) by (apply Reqb_true; exact Hmu).
    rewrite Hq. apply Nat.ltb_lt in Hn. rewrite Hn. cbn [andb]. ra_simpl. fold v. fold B.
    destruct (nl_mu_of RA m B) as [mu' dv]. cbn [fst snd]. split; [reflexivity|].
    assert (Ew : adBsq AP el lg v0 v1 v2 w = - (20000 * c4pi RA * c4pi RA / e_vol AP el) * vgetR v w).
    { unfold adBsq, v. rewrite (mv3_get _ v0 v1 v2 w Hw). unfold aS. fold Mx My. reflexivity. }
    rewrite Ew. rewrite ael_vol_is_e_vol. ra_simpl.
    destruct j as [|[|[|j]]]; try lia; destruct w as [|[|[|w]]]; try lia;
      unfold m3get, idx9; cbn [map nth fst snd Nat.mul Nat.add]; field; exact Hvol.
  Qed.
End Tangent.

(* ========================================================================================== *)
(* 7. laminations on edge and the exterior region: the reduction to the linear case FAILS       *)
(* ========================================================================================== *)
Section Refuted.
  (* LamType 1, fill 1/2, straight-line table of relative permeability 2 (muo = 1, k = 1/2): the first pass
     (and the linear material) use mu1 = mu*t + (1-t) = 3/2, every later pass uses mu1 = mu*t = 1
     (AsmMNLProofs.wit_blk / wit_mat: the same witness as in the planar solver) *)
  Theorem alam_on_edge_not_linear : forall (vol : R) (Mx My V3 : vecT R),
    el_mu RA wit_blk = (3 / 2, 4 / 3) /\
    fst (anl_update RA wit_mat wit_blk vol Mx My V3 (el_mu RA wit_blk)) = (1, 4 / 3).
  Proof.
    intros vol Mx My V3. split.
    - unfold el_mu, wit_blk. cbn. ra_simpl. f_equal; lra.
    - unfold anl_update. cbv zeta. cbn [bLamType wit_blk Nat.eqb andb].
      replace (Nat.ltb 0 (bhpoints wit_mat)) with true by reflexivity. cbn [andb].
      unfold nl_mu_of, wit_mat.
      match goal with |- context [getBHProps RA _ ?b] =>
        rewrite (line_getBHProps (1 / 2) [0; 1] 2 1 b ltac:(cbn; lra) ltac:(cbn; lia) ltac:(reflexivity)) end.
      cbn [fst snd bLamFill wit_blk mMuo line_mat]. ra_simpl. f_equal; field.
  Qed.

  (* LamType 2: the mirror image *)
  Definition wit_blk2 : mblock (F:=R) := mkMBlock 2 2 0 0 0 0 0 0 0 2 (1 / 2).
  Theorem alam_on_edge2_not_linear : forall (vol : R) (Mx My V3 : vecT R),
    el_mu RA wit_blk2 = (4 / 3, 3 / 2) /\
    fst (anl_update RA wit_mat wit_blk2 vol Mx My V3 (el_mu RA wit_blk2)) = (4 / 3, 1).
  Proof.
    intros vol Mx My V3. split.
    - unfold el_mu, wit_blk2. cbn. ra_simpl. f_equal; lra.
    - unfold anl_update. cbv zeta. cbn [bLamType wit_blk2 Nat.eqb andb].
      replace (Nat.ltb 0 (bhpoints wit_mat)) with true by reflexivity. cbn [andb].
      unfold nl_mu_of, wit_mat.
      match goal with |- context [getBHProps RA _ ?b] =>
        rewrite (line_getBHProps (1 / 2) [0; 1] 2 1 b ltac:(cbn; lra) ltac:(cbn; lia) ltac:(reflexivity)) end.
      cbn [fst snd bLamFill wit_blk2 mMuo line_mat]. ra_simpl. f_equal; field.
  Qed.

  (* EXTERIOR REGION.  One element (0,0) (1,0) (0,1)... of a LamType 0 block with the straight-line table of relative
     permeability 2 (its mu_x = mu_y = 2) whose label is external, extRo = 1, extRi = 1/2, extZo = 0: the first pass and the
     linear material use mu/kludge with kludge = (R^2+Z^2) extRi/extRo^3, every later pass stores the bare mu = 2. *)
  Definition xwit_blk : mblock (F:=R) := mkMBlock 2 2 0 0 0 0 0 0 0 0 1.
  Definition xwit_P : probR :=
    mkMProb 2 [mkMNode 1 0 None; mkMNode 2 0 None; mkMNode 1 1 None]
            [mkMElem (0, 1, 2)%nat (None, None, None) 0 0 1 0] [xwit_blk] [] [] [] [mkMLabel 0 None 1] [].
  Definition xwit_AP : aprobR := mkAProb xwit_P [mkALogs (0, 0, 0) (0, 0, 0)] [true] 1 (1 / 2) 0.
  Definition xwit_el : elemR := mkMElem (0, 1, 2)%nat (None, None, None) 0 0 1 0.
  Definition xwit_ela : elaR := (xwit_el, mkALogs (0, 0, 0) (0, 0, 0)).

  Lemma xwit_first_pass_mu : e_mu xwit_AP 1 (1 / 2) 0 xwit_el = (36 / 17, 36 / 17).
  Proof.
    unfold e_mu, ael_mu, e_R, el_mu, xwit_AP, xwit_el, xwit_P, xwit_blk, el_zn, mel_geom, geom. cbn. ra_simpl. f_equal; field.
  Qed.

  Theorem aexternal_not_linear : forall (iter : nat) (V : vecT R) parts,
    iter <> 0%nat ->
    fst (ael_mu_Mn RA xwit_AP 1 (1 / 2) 0 [wit_mat] iter V xwit_ela parts (e_mu xwit_AP 1 (1 / 2) 0 xwit_el)) = (2, 2).
  Proof.
    intros iter V parts Hi. unfold ael_mu_Mn. destruct parts as [[[[Mx My] Mxy] Me] be]. cbv zeta.
    apply Nat.eqb_neq in Hi. rewrite Hi. rewrite xwit_first_pass_mu.
    unfold anl_update. cbv zeta.
    replace (nth (mblk (fst xwit_ela)) (mblocks (ap xwit_AP)) (dmblock RA)) with xwit_blk by reflexivity.
    replace (nth (mblk (fst xwit_ela)) [wit_mat] (dmat RA)) with wit_mat by reflexivity.
    cbn [bLamType xwit_blk Nat.eqb andb fst snd].
    assert (Hq : aeqb RA (36 / 17) (36 / 17) = true) by (apply Reqb_true; reflexivity).
    rewrite Hq. replace (Nat.ltb 0 (bhpoints wit_mat)) with true by reflexivity. cbn [andb].
    unfold nl_mu_of, wit_mat.
    match goal with |- context [getBHProps RA _ ?b] =>
      rewrite (line_getBHProps (1 / 2) [0; 1] 2 1 b ltac:(cbn; lra) ltac:(cbn; lia) ltac:(reflexivity)) end.
    cbn [fst snd mMuo line_mat]. ra_simpl. f_equal; field.
  Qed.
End Refuted.
