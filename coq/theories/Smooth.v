(* Smooth.v — executable model of the nodal smoothing of the post-processors' field values (extension XSMOOTH of
   property C12; smoothing ON is the default of the post-processor classes and of femmcli):

     cfemm/libfemm/PostProcessor.cpp : PostProcessor::getNodalD(d, N)   (895-1093): for each corner j of element N the
                                         walk around j over ConList[j] (counter-clockwise, then clockwise, starting at N's
                                         place in the list), stopping where isSameMaterial fails, at a fixed boundary
                                         (both j and the neighbour carry a boundary flag Q != -2), or after NumList[j]
                                         steps; the special cases that fall back to the element's own D; the plane fit
                                         through the collected nodal potentials; D = eps E eo / AECF(elem, node)
                                         (electrostatics) resp. F = k(T_j) G (heat flow)
                                       PostProcessor::getPointD(x, y, D, elem) with Smooth == true (1154-1189): the linear
                                         interpolation of the three stored nodal values (PointVals.interp_c)
                                       PostProcessor::isSameMaterial (432-435)
     cfemm/libfemm/CMaterialProp.cpp : CSMaterialProp::isSameMaterialAs (1617-1624), CHMaterialProp::isSameMaterialAs
                                       (1496-1526)
     cfemm/epproc/epproc.cpp         : ElectrostaticsPostProcessor::getPointValues with Smooth == true
     cfemm/hpproc/hpproc.cpp         : HPProc::getPointValues with Smooth == true
     cfemm/fpproc/fpproc.cpp         : FPProc::GetPointB with Smooth == true (2772-2805) and the branch of
                                       FPProc::GetNodalB (2807 ff) taken at a node ALL of whose elements count as the same
                                       material: the 1/distance-weighted mean of the surrounding elements' B

   statement by statement, every CComplex operator written out (femmcomplex.cpp), same operation order.
   Inputs taken from the implementation: the connection lists ConList (epproc / hpproc sort them counter-clockwise with
   arg = atan2) and, for a node on a fixed boundary with two boundary neighbours, the value arg(x/y) of the corner test.
   [sh_fix]: source variant of the heat-flow case of getNodalD: false = as shipped (d[i] is NOT divided by the
   exterior-region factor), true = with the division electrostatics has (finding XSMOOTH-1).
   No proofs in this file. *)
From Coq Require Import ZArith List Bool Arith.
From XF Require Import Arith Sparse AsmE KT Integrals IntegralsE IntegralsH IntegralsM PointVals.
Import ListNotations.

Section Smooth.
  Context {F : Type} (A : Arith F).
  Local Notation "x +. y" := (aadd A x y) (at level 50, left associativity).
  Local Notation "x -. y" := (asub A x y) (at level 50, left associativity).
  Local Notation "x *. y" := (amul A x y) (at level 40, left associativity).
  Local Notation "x /. y" := (adiv A x y) (at level 40, left associativity).
  Local Notation zero := (azero A).
  Local Notation one := (aone A).
  Local Notation "'#' z" := (aofZ A z) (at level 9).
  Local Notation cx := (F * F)%type.

  (* ------------------------------------------------------------------------------------------ *)
  (* isSameMaterialAs (on indices into blockproplist: `other == this` is equality of the indices)  *)
  (* ------------------------------------------------------------------------------------------ *)
  (* CSMaterialProp: if (other == this) return true; return (m2 != nullptr && (ex==m2->ex) && (ey==m2->ey)); *)
  Definition cs_same (mats : list (F * F)) (b1 b2 : nat) : bool :=
    Nat.eqb b1 b2 ||
    (let '(ex1, ey1) := nth b1 mats (zero, zero) in
     let '(ex2, ey2) := nth b2 mats (zero, zero) in
     aeqb A ex1 ex2 && aeqb A ey1 ey2).

  (* for k: if ((Kn[k].re!=m2->Kn[k].re) || (Kn[k].im!=m2->Kn[k].im)) return false;   return true; *)
  Fixpoint tk_eqb (a b : list (F * F)) : bool :=
    match a, b with
    | (t1, k1) :: a', (t2, k2) :: b' =>
        if negb (aeqb A t1 t2) || negb (aeqb A k1 k2) then false else tk_eqb a' b'
    | _, _ => true            (* the loop runs over npts entries of tables of the same length *)
    end.

  (* CHMaterialProp *)
  Definition ch_same_mat (m1 m2 : ih_mat (F:=F)) : bool :=
    if aeqb A (ih_kx m1) (ih_kx m2) && aeqb A (ih_ky m1) (ih_ky m2)
       && Nat.eqb (length (ih_tk m1)) 0 && Nat.eqb (length (ih_tk m2)) 0 then true
    else if Nat.ltb 0 (length (ih_tk m1)) then
      if Nat.eqb (length (ih_tk m1)) (length (ih_tk m2)) then tk_eqb (ih_tk m1) (ih_tk m2) else false
    else false.
  Definition ch_same (mats : list ih_mat) (b1 b2 : nat) : bool :=
    Nat.eqb b1 b2 || ch_same_mat (nth b1 mats (ih_dmat A)) (nth b2 mats (ih_dmat A)).

  (* ------------------------------------------------------------------------------------------ *)
  (* the walk around a node                                                                       *)
  (* ------------------------------------------------------------------------------------------ *)
  Section Walk.
    Variable nodes : list (ie_node (F:=F)).
    Variable elems : list ie_elem.
    Variable same : nat -> nat -> bool.         (* isSameMaterial on the elements' blk *)

    Definition elem_at (n : nat) : ie_elem := nth n elems ie_delem.
    Definition node_at (p : nat) : ie_node := nth p nodes (ie_dnode A).
    Definition nodeQ (p : nat) : Z := ie_Q (node_at p).

    (* for(nos=0;nos<3;nos++) if(conElem->p[nos]==j) break; *)
    Definition find_pos (p : nat * nat * nat) (j : nat) : option nat :=
      let '(a, b, c) := p in
      if Nat.eqb a j then Some 0 else if Nat.eqb b j then Some 1 else if Nat.eqb c j then Some 2 else None.
    (* nos--; if(nos<0) nos=2;      nos++; if(nos>2) nos=0; *)
    Definition prev3 (nos : nat) : nat := match nos with 0 => 2 | S n => n end.
    Definition next3 (nos : nat) : nat := match nos with 0 => 1 | 1 => 2 | _ => 0 end.
    (* m++; if(m==NumList[j]) m=0;      m--; if(m<0) m=NumList[j]-1; *)
    Definition m_up (num m : nat) : nat := if Nat.eqb (S m) num then 0 else S m.
    Definition m_down (num m : nat) : nat := match m with 0 => num - 1 | S m' => m' end.
    (* (meshnodes[j]->Q!=-2) && (meshnodes[p]->Q!=-2) *)
    Definition both_flagged (j p : nat) : bool := negb (Z.eqb (nodeQ j) (-2)) && negb (Z.eqb (nodeQ p) (-2)).

    (* one of the two scan loops; [fuel] counts the remaining passes of for(k=0;k<NumList[j];k++).
       Result: the node list q, the boundary neighbour that ended the scan (rt resp. lf; None = -1), and the elements
       that contributed a node, in order. *)
    Fixpoint scan (ccw : bool) (el : ie_elem) (j : nat) (cl : list nat) (fuel m : nat) (q vis : list nat)
      : list nat * option nat * list nat :=
      match fuel with
      | O => (q, None, vis)
      | S f =>
          let n := nth m cl 0 in                                          (* n=ConList[j][m]; *)
          let ce := elem_at n in
          if negb (same (ie_blk el) (ie_blk ce)) then (q, None, vis)       (* if(!isSameMaterial( *elem, *conElem)) break; *)
          else match find_pos (ie_p ce) j with
               | None => (q, None, vis)                                   (* if(nos==3) break; *)
               | Some nos =>
                   let p := tri_get (ie_p ce) (if ccw then prev3 nos else next3 nos) in
                   let q' := if Nat.ltb (length q) 20 then q ++ [p] else q in      (* if (qn<20) q[qn++]=p; *)
                   if both_flagged j p then (q', Some p, vis ++ [n])      (* rt=p; break; *)
                   else scan ccw el j cl f (if ccw then m_up (length cl) m else m_down (length cl) m) q' (vis ++ [n])
               end
      end.

    (* for(eos=0;eos<NumList[j];eos++) if(ConList[j][eos]==N) break; *)
    Fixpoint index_of (N : nat) (cl : list nat) : nat :=
      match cl with [] => 0 | h :: t => if Nat.eqb h N then 0 else S (index_of N t) end.

    Record walk_res := mkWalk { w_j : nat; w_q : list nat; w_lf : option nat; w_rt : option nat;
                                w_ccw : list nat; w_cw : list nat }.

    Definition walk (con : list (list nat)) (N i : nat) : walk_res :=
      let el := elem_at N in
      let j := tri_get (ie_p el) i in
      let cl := nth j con [] in
      let eos := index_of N cl in
      let '(q1, rt, v1) := scan true el j cl (length cl) eos [] [] in
      let '(q2, lf, v2) := scan false el j cl (length cl) eos q1 [] in
      mkWalk j q2 lf rt v1 v2.

    (* the "annoying special cases": true = punt (d[i]=elem->D).  ang = arg(x/y) of the corner test *)
    Definition sm_punt (Qj : Z) (lf rt : option nat) (ang : F) : bool :=
      if Z.eqb Qj (-2) then false
      else match lf, rt with
           | Some l, Some r =>
               if Nat.eqb l r then true
               else altb A (adec A 100001 (-4) *. api A /. #180) (aabs A ang)    (* std::abs(arg(x/y))>10.0001*PI/180. *)
           | _, _ => true
           end.

    (* ---- the plane fit ---- *)
    Record fsum := mkFS { s_ii : F; s_xi : F; s_yi : F; s_xx : F; s_xy : F; s_yy : F; s_iv : F; s_xv : F; s_yv : F }.
    Definition fs0 : fsum := mkFS zero zero zero zero zero zero zero zero zero.
    Definition fs_step (j : nat) (s : fsum) (k : nat) : fsum :=
      let dx := ie_x (node_at k) -. ie_x (node_at j) in
      let dy := ie_y (node_at k) -. ie_y (node_at j) in
      let dv := ie_V (node_at j) -. ie_V (node_at k) in
      mkFS (s_ii s +. one) (s_xi s +. dx) (s_yi s +. dy) (s_xx s +. dx *. dx) (s_xy s +. dx *. dy) (s_yy s +. dy *. dy)
           (s_iv s +. dv) (s_xv s +. dx *. dv) (s_yv s +. dy *. dv).
    (* q[qn++]=j; for(k=0;k<qn;k++) ... *)
    Definition fs_sums (j : nat) (q : list nat) : fsum := fold_left (fs_step j) (q ++ [j]) fs0.
    (* det=(-(ii*xy*xy) + 2*xi*xy*yi - xx*yi*yi - xi*xi*yy + ii*xx*yy)*LengthConv[problem->LengthUnits]; *)
    Definition fs_det (s : fsum) (lc : F) : F :=
      let '(mkFS ii xi yi xx xy yy iv xv yv) := s in
      (aneg A (ii *. xy *. xy) +. #2 *. xi *. xy *. yi -. xx *. yi *. yi -. xi *. xi *. yy +. ii *. xx *. yy) *. lc.
    (* Ex=(iv*xy*yi - xv*yi*yi - ii*xy*yv + xi*yi*yv - iv*xi*yy + ii*xv*yy)/det; *)
    Definition fs_Ex (s : fsum) (det : F) : F :=
      let '(mkFS ii xi yi xx xy yy iv xv yv) := s in
      (iv *. xy *. yi -. xv *. yi *. yi -. ii *. xy *. yv +. xi *. yi *. yv -. iv *. xi *. yy +. ii *. xv *. yy) /. det.
    (* Ey=(iv*xi*xy - ii*xv*xy + xi*xv*yi - iv*xx*yi - xi*xi*yv + ii*xx*yv)/det; *)
    Definition fs_Ey (s : fsum) (det : F) : F :=
      let '(mkFS ii xi yi xx xy yy iv xv yv) := s in
      (iv *. xi *. xy -. ii *. xv *. xy +. xi *. xv *. yi -. iv *. xx *. yi -. xi *. xi *. yv +. ii *. xx *. yv) /. det.

    (* None: det == 0 (d[i]=elem->D) *)
    Definition nodal_fit (j : nat) (q : list nat) (lc : F) : option (F * F) :=
      let s := fs_sums j q in
      let det := fs_det s lc in
      if aeqb A det zero then None else Some (fs_Ex s det, fs_Ey s det).
  End Walk.

  (* what the model takes from the implementation besides the mesh *)
  Record sm_aux := mkSMAux {
    sm_con : list (list nat);                    (* ConList[j][0..NumList[j]-1] *)
    sm_angs : list (nat * nat * nat * F) }.      (* (j, lf, rt, arg(x/y)) for the nodes that reach the corner test *)

  Fixpoint ang_lookup (angs : list (nat * nat * nat * F)) (j l r : nat) : F :=
    match angs with
    | [] => zero
    | (j', l', r', a) :: t => if Nat.eqb j j' && Nat.eqb l l' && Nat.eqb r r' then a else ang_lookup t j l r
    end.
  Definition walk_ang (X : sm_aux) (w : walk_res) : F :=
    match w_lf w, w_rt w with Some l, Some r => ang_lookup (sm_angs X) (w_j w) l r | _, _ => zero end.

  (* ------------------------------------------------------------------------------------------ *)
  (* electrostatics                                                                               *)
  (* ------------------------------------------------------------------------------------------ *)
  Definition se_walk (P : ie_prob (F:=F)) (X : sm_aux) (N i : nat) : walk_res :=
    walk (ie_nodes P) (ie_elems P) (cs_same (ie_mats P)) (sm_con X) N i.

  (* d[i] = bprop->ex * Ex * eo + I * bprop->ey * Ey * eo;   d[i]/=AECF(elem,meshnodes[j]->CC()); *)
  Definition se_fromE (P : ie_prob (F:=F)) (el : ie_elem) (j : nat) (Ex Ey : F) : cx :=
    let '(ex, ey) := ie_mat A P el in
    let nj := node_at (ie_nodes P) j in
    cdivr A (dplusc A (ex *. Ex *. ie_eo P) (cmuld A (cmuld A (ci_times A ey) Ey) (ie_eo P)))
          (ie_aecf_pt A P el (ie_x nj) (ie_y nj)).

  (* getNodalD(d, N), one corner *)
  Definition se_nodal (P : ie_prob (F:=F)) (X : sm_aux) (N i : nat) : cx :=
    let el := elem_at (ie_elems P) N in
    let w := se_walk P X N i in
    if sm_punt (nodeQ (ie_nodes P) (w_j w)) (w_lf w) (w_rt w) (walk_ang X w) then ie_D A P el
    else match nodal_fit (ie_nodes P) (w_j w) (w_q w) (ie_lc P) with
         | None => ie_D A P el
         | Some (Ex, Ey) => se_fromE P el (w_j w) Ex Ey
         end.

  (* getPointD, Smooth == true: D=0; for i: D+=(elm.d[i]*(a[i]+b[i]*x+c[i]*y)/da); *)
  Definition se_pointD (P : ie_prob (F:=F)) (X : sm_aux) (k : nat) (x y : F) : cx :=
    let el := elem_at (ie_elems P) k in
    interp_c A (ie_shape A P el) (se_nodal P X k 0) (se_nodal P X k 1) (se_nodal P X k 2) x y.

  (* ElectrostaticsPostProcessor::getPointValues(x,y,k,u) for a given u.D (the text of PointVals.pe_point):
     [V; D.re; D.im; E.re; E.im; e.re; e.im; nrg] *)
  Definition pe_point_of (P : ie_prob (F:=F)) (k : nat) (x y : F) (D : cx) : list F :=
    let el := nth k (ie_elems P) ie_delem in
    let '(ex, ey) := ie_mat A P el in
    let e := cdivr A (dplusc A ex (ci_times A ey)) (ie_aecf_pt A P el x y) in
    let V := interp_r A (ie_shape A P el) (ie_V (ie_nd A P el 0)) (ie_V (ie_nd A P el 1)) (ie_V (ie_nd A P el 2)) x y in
    let Ex := fst D /. (fst e *. ie_eo P) in
    let Ey := snd D /. (snd e *. ie_eo P) in
    let nrg := (fst D *. Ex -. snd D *. aneg A Ey) /. #2 in
    [V; fst D; snd D; Ex; Ey; fst e; snd e; nrg].
  Definition se_point (P : ie_prob (F:=F)) (X : sm_aux) (k : nat) (x y : F) : list F :=
    pe_point_of P k x y (se_pointD P X k x y).

  (* ------------------------------------------------------------------------------------------ *)
  (* heat flow                                                                                    *)
  (* ------------------------------------------------------------------------------------------ *)
  Definition sh_walk (P : ih_prob (F:=F)) (X : sm_aux) (N i : nat) : walk_res :=
    walk (ih_nodes P) (ih_elems P) (ch_same (ih_mats P)) (sm_con X) N i.

  (* CComplex kn=bprop->GetK(nodej->T);  d[i]= Re(kn)*Ex + I*Im(kn)*Ey;
     [hfix]: followed by d[i]/=AECF(elem,meshnodes[j]->CC()) (not in the shipped source) *)
  Definition sh_fromE (hfix : bool) (P : ih_prob (F:=F)) (el : ie_elem) (j : nat) (Ex Ey : F) : cx :=
    let m := nth (ie_blk el) (ih_mats P) (ih_dmat A) in
    let nj := node_at (ih_nodes P) j in
    let kn := getk A (ih_kx m) (ih_ky m) (ih_tk m) (ie_V nj) in
    let d := dplusc A (fst kn *. Ex) (cmuld A (ci_times A (snd kn)) Ey) in
    if hfix then cdivr A d (ie_aecf_pt A (ih_view A P) el (ie_x nj) (ie_y nj)) else d.

  Definition sh_nodal (hfix : bool) (P : ih_prob (F:=F)) (X : sm_aux) (N i : nat) : cx :=
    let el := elem_at (ih_elems P) N in
    let w := sh_walk P X N i in
    if sm_punt (nodeQ (ih_nodes P) (w_j w)) (w_lf w) (w_rt w) (walk_ang X w) then ih_D A P el
    else match nodal_fit (ih_nodes P) (w_j w) (w_q w) (ih_lc P) with
         | None => ih_D A P el
         | Some (Ex, Ey) => sh_fromE hfix P el (w_j w) Ex Ey
         end.

  Definition sh_pointD (hfix : bool) (P : ih_prob (F:=F)) (X : sm_aux) (k : nat) (x y : F) : cx :=
    let el := elem_at (ih_elems P) k in
    interp_c A (ie_shape A (ih_view A P) el) (sh_nodal hfix P X k 0) (sh_nodal hfix P X k 1) (sh_nodal hfix P X k 2) x y.

  (* HPProc::getPointValues(x,y,k,u) for a given u.F (the text of PointVals.ph_point):
     [T; F.re; F.im; G.re; G.im; K.re; K.im] *)
  Definition ph_point_of (P : ih_prob (F:=F)) (k : nat) (x y : F) (Fl : cx) : list F :=
    let V := ih_view A P in
    let el := nth k (ih_elems P) ie_delem in
    let T := interp_r A (ie_shape A V el) (ih_T A P el 0) (ih_T A P el 1) (ih_T A P el 2) x y in
    let m := nth (ie_blk el) (ih_mats P) (ih_dmat A) in
    let K := cdivr A (getk A (ih_kx m) (ih_ky m) (ih_tk m) T) (ie_aecf_pt A V el x y) in
    [T; fst Fl; snd Fl; fst Fl /. fst K; snd Fl /. snd K; fst K; snd K].
  Definition sh_point (hfix : bool) (P : ih_prob (F:=F)) (X : sm_aux) (k : nat) (x y : F) : list F :=
    ph_point_of P k x y (sh_pointD hfix P X k x y).

  (* ------------------------------------------------------------------------------------------ *)
  (* magnetics: GetPointB with Smooth == true, and the "normal smoothing" branch of GetNodalB      *)
  (* ------------------------------------------------------------------------------------------ *)
  (* B1.Set(0,0); for i: B1+=(elm.b1[i]*(a[i]+b[i]*x+c[i]*y)/da);   (the same for B2) *)
  Definition sm_pointB (s : shp (F:=F)) (b0 b1 b2 : cx) (x y : F) : cx := interp_c A s b0 b1 b2 x y.

  (* for j: m=ConList[k][j]; z=1./abs(p-Ctr(m)); R+=z; b1[i]+=(z*meshelem[m].B1); b2[i]+=(z*meshelem[m].B2);
     b1[i]/=R; b2[i]/=R;     an entry of [around] is (Ctr(m), B1, B2) of one surrounding element, in ConList order *)
  Definition sm_avg_step (px py : F) (acc : F * cx * cx) (e : cx * cx * cx) : F * cx * cx :=
    let '(R, s1, s2) := acc in
    let '(ctr, B1, B2) := e in
    let z := one /. cabsf A (csub A (px, py) ctr) in
    (R +. z, cadd A s1 (dmulc A z B1), cadd A s2 (dmulc A z B2)).
  Definition sm_avgB (px py : F) (around : list (cx * cx * cx)) : cx * cx :=
    let '(R, s1, s2) := fold_left (sm_avg_step px py) around (zero, (zero, zero), (zero, zero)) in
    (cdivr A s1 R, cdivr A s2 R).
End Smooth.
