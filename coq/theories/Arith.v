(* Arith.v — one algorithm text, several readings (DESIGN §2.1).
   All numerical models are written over an abstract [Arith F]; the float instance [FA]
   is what the correspondence check runs (vm_compute), the real instance [RA] is what the
   theorems are about. *)
From Coq Require Import ZArith Reals Floats Uint63 List Bool.
Import ListNotations.

Record Arith (F : Type) := mkArith {
  azero : F; aone : F;
  aadd : F -> F -> F; asub : F -> F -> F; amul : F -> F -> F; adiv : F -> F -> F;
  aneg : F -> F; asqrt : F -> F; aabs : F -> F;
  aofZ : Z -> F;
  api : F;
  aeqb : F -> F -> bool; altb : F -> F -> bool; aleb : F -> F -> bool }.

Arguments azero {F}. Arguments aone {F}. Arguments aadd {F}. Arguments asub {F}.
Arguments amul {F}. Arguments adiv {F}. Arguments aneg {F}. Arguments asqrt {F}.
Arguments aabs {F}. Arguments aofZ {F}. Arguments api {F}. Arguments aeqb {F}.
Arguments altb {F}. Arguments aleb {F}.

(* ---- binary64 reading ------------------------------------------------------------ *)
Definition float_of_pos_Z (z : Z) : float := PrimFloat.of_uint63 (Uint63.of_Z z).
Definition float_of_Z (z : Z) : float :=
  if (z <? 0)%Z then PrimFloat.opp (float_of_pos_Z (Z.opp z)) else float_of_pos_Z z.

Definition FA : Arith float := {|
  azero := 0%float; aone := 1%float;
  aadd := PrimFloat.add; asub := PrimFloat.sub; amul := PrimFloat.mul; adiv := PrimFloat.div;
  aneg := PrimFloat.opp; asqrt := PrimFloat.sqrt; aabs := PrimFloat.abs;
  aofZ := float_of_Z;
  api := 0x1.921fb54442d18p+1%float;
  aeqb := PrimFloat.eqb; altb := PrimFloat.ltb; aleb := PrimFloat.leb |}.

(* ---- real-number reading --------------------------------------------------------- *)
Definition Reqb (a b : R) : bool := if Req_EM_T a b then true else false.
Definition Rltb (a b : R) : bool := if Rlt_dec a b then true else false.
Definition Rleb (a b : R) : bool := if Rle_dec a b then true else false.

Definition RA : Arith R := {|
  azero := 0%R; aone := 1%R;
  aadd := Rplus; asub := Rminus; amul := Rmult; adiv := Rdiv;
  aneg := Ropp; asqrt := R_sqrt.sqrt; aabs := Rabs;
  aofZ := IZR;
  api := PI;
  aeqb := Reqb; altb := Rltb; aleb := Rleb |}.

Lemma Reqb_true a b : Reqb a b = true <-> a = b.
Proof. unfold Reqb; destruct (Req_EM_T a b); split; congruence. Qed.
Lemma Reqb_false a b : Reqb a b = false <-> a <> b.
Proof. unfold Reqb; destruct (Req_EM_T a b); split; congruence. Qed.
Lemma Rltb_true a b : Rltb a b = true <-> (a < b)%R.
Proof. unfold Rltb; destruct (Rlt_dec a b); split; try congruence; tauto. Qed.
Lemma Rltb_false a b : Rltb a b = false <-> ~ (a < b)%R.
Proof. unfold Rltb; destruct (Rlt_dec a b); split; try congruence; tauto. Qed.
Lemma Rleb_true a b : Rleb a b = true <-> (a <= b)%R.
Proof. unfold Rleb; destruct (Rle_dec a b); split; try congruence; tauto. Qed.
Lemma Rleb_false a b : Rleb a b = false <-> ~ (a <= b)%R.
Proof. unfold Rleb; destruct (Rle_dec a b); split; try congruence; tauto. Qed.

(* decimal constants m * 10^e as the C++ compiler reads them: for |m| < 2^53 and
   |e| <= 22 both m and 10^|e| are exact doubles, so one correctly rounded division or
   multiplication gives the double nearest to the decimal (the strtod fast path). *)
Section Generic.
  Context {F : Type} (A : Arith F).
  Definition adec (m e : Z) : F :=
    if (e <? 0)%Z then adiv A (aofZ A m) (aofZ A (10 ^ (- e))%Z)
    else amul A (aofZ A m) (aofZ A (10 ^ e)%Z).
  Definition atwo : F := aofZ A 2.
  Definition ahalf (x : F) : F := adiv A x (aofZ A 2).
  Definition aneb (a b : F) : bool := negb (aeqb A a b).
  Definition amax (a b : F) : F := if altb A a b then b else a.
  Definition amin (a b : F) : F := if altb A b a then b else a.
  Definition asum (l : list F) : F := fold_left (aadd A) l (azero A).
End Generic.

(* ---- complex numbers over any reading, operator by operator as femmcomplex.cpp ---------- *)
Section Complex.
  Context {F : Type} (A : Arith F).
  Definition cplx := (F * F)%type.
  Definition cre (z : cplx) : F := fst z.
  Definition cim (z : cplx) : F := snd z.
  Definition cadd (x y : cplx) : cplx := (aadd A (fst x) (fst y), aadd A (snd x) (snd y)).
  Definition csub (x y : cplx) : cplx := (asub A (fst x) (fst y), asub A (snd x) (snd y)).
  (* CComplex::operator*( const CComplex& ) *)
  Definition cmul (x z : cplx) : cplx :=
    (asub A (amul A (fst x) (fst z)) (amul A (snd x) (snd z)),
     aadd A (amul A (fst x) (snd z)) (amul A (snd x) (fst z))).
  (* the reciprocal computed inside operator/( const CComplex& ) *)
  Definition cinv (z : cplx) : cplx :=
    if altb A (aabs A (snd z)) (aabs A (fst z)) then
      let c := adiv A (snd z) (fst z) in
      let yre := adiv A (aone A) (amul A (fst z) (aadd A (aone A) (amul A c c))) in
      (yre, amul A (aneg A c) yre)
    else
      let c := adiv A (fst z) (snd z) in
      let yim := adiv A (aneg A (aone A)) (amul A (snd z) (aadd A (aone A) (amul A c c))) in
      (amul A (aneg A c) yim, yim).
  Definition cdiv (x z : cplx) : cplx := cmul x (cinv z).
  Definition cneg (x : cplx) : cplx := (aneg A (fst x), aneg A (snd x)).
  Definition cconj (x : cplx) : cplx := (fst x, aneg A (snd x)).
  Definition cscale (d : F) (x : cplx) : cplx := (amul A (fst x) d, amul A (snd x) d).
  Definition cofR (d : F) : cplx := (d, azero A).
  (* operator/( double ) and abs( const CComplex& ) of femmcomplex.cpp *)
  Definition cdivr (x : cplx) (d : F) : cplx := (adiv A (fst x) d, adiv A (snd x) d).
  Definition cabsf (x : cplx) : F :=
    if aeqb A (fst x) (azero A) && aeqb A (snd x) (azero A) then azero A
    else if altb A (aabs A (snd x)) (aabs A (fst x)) then
      amul A (aabs A (fst x)) (asqrt A (aadd A (aone A) (amul A (adiv A (snd x) (fst x)) (adiv A (snd x) (fst x)))))
    else
      amul A (aabs A (snd x)) (asqrt A (aadd A (aone A) (amul A (adiv A (fst x) (snd x)) (adiv A (fst x) (snd x))))).
  Definition ceqb (x y : cplx) : bool := aeqb A (fst x) (fst y) && aeqb A (snd x) (snd y).
  (* abs( const CComplex& ) is not used by the solvers; sqrt is not defined on complex *)
  Definition CA : Arith cplx := {|
    azero := (azero A, azero A); aone := (aone A, azero A);
    aadd := cadd; asub := csub; amul := cmul; adiv := cdiv; aneg := cneg;
    asqrt := fun z => z; aabs := fun z => z;
    aofZ := fun z => (aofZ A z, azero A);
    api := (api A, azero A);
    aeqb := ceqb;
    altb := fun x y => altb A (fst x) (fst y);
    aleb := fun x y => aleb A (fst x) (fst y) |}.
End Complex.

(* unfold the record projections of [RA] so that ring / field / lra see plain R terms *)
Ltac ra_simpl :=
  cbn [azero aone aadd asub amul adiv aneg asqrt aabs aofZ api aeqb altb aleb RA
       adec atwo ahalf aneb amax amin] in *.
