(* LuaCmds.v — C17: the Lua command set of femmcli.

   (a) checks over the REGENERATED registration table gen/LuaTable.v
       (cfemm/femmcli/Lua{Base,Magnetics,Electrostatics,Heatflow}Commands.cpp: registerCommands);
   (b) a command-semantics model of the BUILDER commands on an abstract problem record
       (LuaCommonCommands.cpp: luaAddNode / luaAddLine / luaAddArc / luaAddBlocklabel /
        luaSelectNode / luaSelectSegment / luaSelectArcsegment / luaSelectBlocklabel /
        luaSetNodeProperty / luaSetSegmentProperty / luaSetBlocklabelProperty / luaClearSelected,
        Lua<Physics>Commands.cpp: luaAdd*Property / luaProblemDefinition / luaSetArcsegmentProperty /
        luaSetBlocklabelProperty ..., FemmProblem.cpp: addNode / addSegment / addArcSegment /
        addBlockLabel / closestNode ...), with the script generator script_of;
   (c) the document state machine of FemmState.cpp (setDocument / close) and LuaBaseCommands.cpp
       (luaNewDocument / luaOpenDocument).

   What is abstracted (see DESIGN.md C17): parameters of properties and of the problem definition
   are opaque payloads; coordinates are integers (any common binary scaling of the generated
   binary64 coordinates); "too close" (|p-q| < d) is modelled as "equal"; the automatic splitting of
   segments/arcs at intersections and at nodes lying on them (FemmProblem::addSegment/addNode) is not
   modelled (well-formed input = a planar straight-line graph, no such splitting occurs);
   closestSegment / closestArcSegment are modelled as "nearest handle" where the handle of a segment is
   its (doubled) midpoint and the handle of an arc is a point on its bulge side; angles of arcs are in
   units of 0.01 degree (addArcSegment treats arcs with |angle difference| < 0.01 as the same).
   No proofs in this file. *)
From Coq Require Import List String ZArith Bool Arith Ascii.
Import ListNotations.
Local Open Scope string_scope.

(* ------------------------------------------------------------------ (a) registration table -- *)
Definition lrow := (string * string * string)%type.
Definition rname (r : lrow) : string := fst (fst r).
Definition rhandler (r : lrow) : string := snd (fst r).

Fixpoint strip_us (s : string) : string :=
  match s with
  | EmptyString => EmptyString
  | String c r => if Ascii.eqb c "_"%char then strip_us r else String c (strip_us r)
  end.

(* the two spellings of a command: with and without underscores; "analyse" = "analyze" *)
Definition canon (s : string) : string :=
  let t := strip_us s in
  if t =? "mianalyse" then "mianalyze" else
  if t =? "eianalyse" then "eianalyze" else
  if t =? "hianalyse" then "hianalyze" else t.

Fixpoint lookup (n : string) (t : list lrow) : option string :=
  match t with
  | [] => None
  | r :: rest => if rname r =? n then Some (rhandler r) else lookup n rest
  end.

Definition spellings_agree_b (t : list lrow) : bool :=
  let cs := map (fun r => (canon (rname r), rhandler r)) t in
  forallb (fun a => forallb (fun b => implb (fst a =? fst b) (snd a =? snd b)) cs) cs.

(* lua_register with the same name twice: the later registration silently wins *)
Fixpoint distinct_str (l : list string) : bool :=
  match l with
  | [] => true
  | x :: r => negb (existsb (String.eqb x) r) && distinct_str r
  end.
Definition names_unique_b (t : list lrow) : bool := distinct_str (map rname t).

(* the spelling without underscores: "mi_add_node" -> "mi_addnode", "new_document" -> "newdocument" *)
Definition plain (s : string) : string :=
  match s with
  | String a (String b (String "_" r)) => String a (String b (String "_" (strip_us r)))
  | _ => strip_us s
  end.
Definition every_spelling_has_plain_b (t : list lrow) : bool :=
  forallb (fun r => if rname r =? "_ALERT" then true else
                    match lookup (plain (rname r)) t with Some _ => true | None => false end) t.

Definition nop : string := "LuaInstance::luaNOP".
Definition real_handler_b (t : list lrow) (n : string) : bool :=
  match lookup n t with Some h => negb (h =? nop) | None => false end.

(* Builder / analysis / query commands the script generator of the tie (tools/props/c17.py) uses,
   per physics, in both spellings.  hi_setarcsegmentprop is documented by FEMM but not registered
   by xfemm (finding C17-1): it is listed separately. *)
Definition base_required : list string :=
  ["newdocument"; "new_document"; "create"; "open"].
Definition common_pre (p : string) : list string :=
  map (fun s => p ++ s)
    ["probdef"; "prob_def"; "addmaterial"; "add_material"; "addboundprop"; "add_bound_prop";
     "addpointprop"; "add_point_prop"; "addnode"; "add_node"; "addsegment"; "add_segment";
     "addarc"; "add_arc"; "addblocklabel"; "add_block_label";
     "selectnode"; "select_node"; "selectsegment"; "select_segment";
     "selectarcsegment"; "select_arcsegment"; "selectlabel"; "select_label";
     "setnodeprop"; "set_node_prop"; "setsegmentprop"; "set_segment_prop";
     "setblockprop"; "set_block_prop"; "clearselected"; "clear_selected";
     "saveas"; "save_as"; "analyze"; "analyse"; "loadsolution"; "load_solution";
     "createmesh"; "create_mesh"; "getprobleminfo"; "newdocument"; "new_document";
     "defineouterspace"; "define_outer_space"; "attachouterspace"; "attach_outer_space";
     "attachdefault"; "attach_default"; "setgroup"; "set_group"].
Definition common_post (p : string) : list string :=
  map (fun s => p ++ s)
    ["getpointvalues"; "get_point_values"; "blockintegral"; "block_integral";
     "selectblock"; "select_block"; "clearblock"; "clear_block";
     "numnodes"; "num_nodes"; "numelements"; "num_elements";
     "getprobleminfo"; "get_problem_info"; "getnode"; "get_node"; "getelement"; "get_element";
     "lineintegral"; "line_integral"; "addcontour"; "add_contour"; "clearcontour"; "clear_contour"].
Definition required_mag : list string :=
  common_pre "mi_" ++ common_post "mo_" ++
  ["mi_addcircprop"; "mi_add_circ_prop"; "mi_addbhpoint"; "mi_add_bh_point";
   "mi_setarcsegmentprop"; "mi_set_arcsegment_prop";
   "mo_getcircuitproperties"; "mo_get_circuit_properties"].
Definition required_elec : list string :=
  common_pre "ei_" ++ common_post "eo_" ++
  ["ei_addconductorprop"; "ei_add_conductor_prop"; "ei_setarcsegmentprop"; "ei_set_arcsegment_prop";
   "eo_getconductorproperties"; "eo_get_conductor_properties"].
Definition required_heat : list string :=
  common_pre "hi_" ++ common_post "ho_" ++
  ["hi_addconductorprop"; "hi_add_conductor_prop"; "hi_addtkpoint"; "hi_add_tk_point";
   "ho_getconductorproperties"; "ho_get_conductor_properties"].
Definition required_all : list string := base_required ++ required_mag ++ required_elec ++ required_heat.
Definition documented_missing : list string := ["hi_setarcsegmentprop"; "hi_set_arcsegment_prop"].

Definition every_required_registered_b (t : list lrow) : bool := forallb (real_handler_b t) required_all.

(* ------------------------------------------------------------------ (b) builder commands ---- *)
Inductive kind := Mag | Elec | Heat.
Definition kind_eqb (a b : kind) : bool :=
  match a, b with Mag, Mag | Elec, Elec | Heat, Heat => true | _, _ => false end.

Definition pt := (Z * Z)%type.
Definition pt_eqb (a b : pt) : bool := Z.eqb (fst a) (fst b) && Z.eqb (snd a) (snd b).
Definition dist2 (a b : pt) : Z :=
  ((fst a - fst b) * (fst a - fst b) + (snd a - snd b) * (snd a - snd b))%Z.

(* FemmProblem::closestNode / closestBlockLabel / closestSegment / closestArcSegment:
   idx=0; d0=dist(0); for i in 0..n-1: d1=dist(i); if d1<d0 then (d0,idx)=(d1,i) *)
Fixpoint closest_from (q : pt) (l : list pt) (i best : nat) (dbest : Z) : nat :=
  match l with
  | [] => best
  | p :: r => let d := dist2 p q in
              if (d <? dbest)%Z then closest_from q r (S i) i d else closest_from q r (S i) best dbest
  end.
Definition closest (l : list pt) (q : pt) : option nat :=
  match l with
  | [] => None
  | p0 :: _ => Some (closest_from q l 0 0 (dist2 p0 q))
  end.

(* references to properties are stored as in the file format: 0 = none, S i = i-th property *)
Record nodeT := mkNode { n_at : pt; n_prop : nat; n_group : nat; n_cond : nat }.
Record segT := mkSeg { s_n0 : nat; s_n1 : nat; s_bdry : nat; s_size : option Z; s_hide : bool;
                       s_group : nat; s_cond : nat }.
Record arcT := mkArc { a_n0 : nat; a_n1 : nat; a_angle : Z; a_maxseg : Z; a_bdry : nat; a_hide : bool;
                       a_group : nat; a_cond : nat }.
Record labT := mkLab { l_at : pt; l_block : nat; l_size : option Z; l_circ : nat; l_magdir : Z;
                       l_group : nat; l_turns : Z }.

Definition NONE : string := "<None>".
Definition NOMESH : string := "<No Mesh>".

Section Model.
  Context {Pay : Type}.          (* opaque parameter payload of a property / of the problem definition *)
  Local Notation propT := (string * Pay)%type.

  Record problem := mkProblem {
    p_kind : kind; p_def : option Pay;
    p_pointprops : list propT; p_bdryprops : list propT; p_materials : list propT; p_circuits : list propT;
    p_nodes : list nodeT; p_segs : list segT; p_arcs : list arcT; p_labels : list labT }.

  (* names <-> references: the Lua commands assign by NAME (blockMap / lineMap / nodeMap / circuitMap) *)
  Fixpoint index_of (n : string) (l : list propT) : option nat :=
    match l with
    | [] => None
    | (m, _) :: r => if n =? m then Some 0 else option_map S (index_of n r)
    end.
  Definition ref_of_name (n : string) (l : list propT) : nat :=
    match index_of n l with Some i => S i | None => 0 end.
  Definition name_of_ref (none : string) (r : nat) (l : list propT) : string :=
    match r with
    | 0 => none
    | S i => match nth_error l i with Some (m, _) => m | None => none end
    end.

  (* ---- selection machinery shared by the four entity lists (IsSelected flags) ---- *)
  Section Sel.
    Context {E : Type} (handle : E -> pt).
    Definition unsel (l : list E) : list (E * bool) := map (fun e => (e, false)) l.
    Fixpoint toggle_nth (i : nat) (l : list (E * bool)) : list (E * bool) :=
      match l with
      | [] => []
      | x :: r => match i with
                  | 0 => (fst x, negb (snd x)) :: r
                  | S j => x :: toggle_nth j r
                  end
      end.
    Definition toggle_closest (l : list (E * bool)) (q : pt) : list (E * bool) :=
      match closest (map (fun x : E * bool => handle (fst x)) l) q with
      | None => l
      | Some i => toggle_nth i l
      end.
    Definition set_selected (f : E -> E) (l : list (E * bool)) : list (E * bool) :=
      map (fun x : E * bool => if snd x then (f (fst x), snd x) else x) l.
    Definition clear_sel (l : list (E * bool)) : list (E * bool) := map (fun x : E * bool => (fst x, false)) l.
  End Sel.

  (* the open document: the problem plus the selection flags *)
  Record doc := mkDoc {
    d_kind : kind; d_def : option Pay;
    d_pp : list propT; d_bp : list propT; d_mat : list propT; d_circ : list propT;
    d_nodes : list (nodeT * bool); d_segs : list (segT * bool); d_arcs : list (arcT * bool);
    d_labs : list (labT * bool) }.
  Definition empty_doc (k : kind) : doc := mkDoc k None [] [] [] [] [] [] [] [].
  Definition problem_of (d : doc) : problem :=
    mkProblem (d_kind d) (d_def d) (d_pp d) (d_bp d) (d_mat d) (d_circ d)
              (map fst (d_nodes d)) (map fst (d_segs d)) (map fst (d_arcs d)) (map fst (d_labs d)).
  Definition doc_of (p : problem) : doc :=
    mkDoc (p_kind p) (p_def p) (p_pointprops p) (p_bdryprops p) (p_materials p) (p_circuits p)
          (unsel (p_nodes p)) (unsel (p_segs p)) (unsel (p_arcs p)) (unsel (p_labels p)).

  Definition pts_of (ns : list (nodeT * bool)) : list pt := map (fun x => n_at (fst x)) ns.
  Definition pt_at (pts : list pt) (i : nat) : pt := nth i pts (0, 0)%Z.
  (* handles: twice the midpoint of a segment; for an arc n0 -> n1 (counter-clockwise) the chord midpoint
     displaced by half the chord to the bulge side (for a half circle: the arc's own midpoint), doubled *)
  Definition seg_handle (pts : list pt) (s : segT) : pt :=
    let a := pt_at pts (s_n0 s) in let b := pt_at pts (s_n1 s) in
    (fst a + fst b, snd a + snd b)%Z.
  Definition arc_handle (pts : list pt) (a : arcT) : pt :=
    let p := pt_at pts (a_n0 a) in let q := pt_at pts (a_n1 a) in
    (fst p + fst q + (snd q - snd p), snd p + snd q - (fst q - fst p))%Z.

  Definition dflt_node (q : pt) : nodeT := mkNode q 0 0 0.
  Definition dflt_seg (n0 n1 : nat) : segT := mkSeg n0 n1 0 None false 0 0.
  Definition dflt_arc (n0 n1 : nat) (angle maxseg : Z) : arcT := mkArc n0 n1 angle maxseg 0 false 0 0.
  Definition dflt_lab (q : pt) : labT := mkLab q 0 None 0 0%Z 0 1%Z.

  Inductive cmd :=
  (* document state machine *)
  | NewDoc (k : kind)                                   (* newdocument(k) / create(k) / xi_newdocument() *)
  | OpenDoc (p : problem) (path : string)               (* open("file") *)
  | CloseDoc                                            (* xi_close() *)
  | SaveAs (path : string)                              (* xi_saveas("file") *)
  | Analyze                                             (* xi_analyze() *)
  | LoadSolution                                        (* xi_loadsolution() *)
  (* builder commands *)
  | ProbDef (d : Pay)                                   (* xi_probdef(...) *)
  | AddPointProp (n : string) (v : Pay)                 (* xi_addpointprop("name", ...) *)
  | AddBoundProp (n : string) (v : Pay)                 (* xi_addboundprop("name", ...) *)
  | AddMaterial (n : string) (v : Pay)                  (* xi_addmaterial("name", ...) (+ addbhpoint/addtkpoint) *)
  | AddCircProp (n : string) (v : Pay)                  (* mi_addcircprop / [eh]i_addconductorprop *)
  | AddNode (q : pt)                                    (* xi_addnode(x,y) *)
  | AddSegment (a b : pt)                               (* xi_addsegment(x1,y1,x2,y2) *)
  | AddArc (a b : pt) (angle maxseg : Z)                (* xi_addarc(x1,y1,x2,y2,angle,maxseg) *)
  | AddLabel (q : pt)                                   (* xi_addblocklabel(x,y) *)
  | SelectNode (q : pt)                                 (* xi_selectnode(x,y) *)
  | SelectSegment (q2 : pt)                             (* xi_selectsegment(x,y); q2 = TWICE the point *)
  | SelectArc (q2 : pt)                                 (* xi_selectarcsegment(x,y); q2 = TWICE the point *)
  | SelectLabel (q : pt)                                (* xi_selectlabel(x,y) *)
  | SetNodeProp (prop : string) (group : nat) (cond : string)
      (* mi_setnodeprop("propname",groupno) / [eh]i_setnodeprop("propname",groupno,"inconductor") *)
  | SetSegmentProp (prop : string) (size : Z) (automesh hide : bool) (group : nat) (cond : string)
      (* xi_setsegmentprop("propname", elementsize, automesh, hide, group [, "inconductor"]) *)
  | SetArcProp (maxseg : Z) (prop : string) (hide : bool) (group : nat) (cond : string)
      (* xi_setarcsegmentprop(maxsegdeg, "propname", hide, group [, "inconductor"]) *)
  | SetBlockProp (block : string) (automesh : bool) (size : Z) (circ : string) (magdir : Z) (group : nat) (turns : Z)
      (* mi_setblockprop("blockname", automesh, meshsize, "incircuit", magdirection, group, turns)
         [eh]i_setblockprop("blockname", automesh, meshsize, group) *)
  | ClearSelected.                                      (* xi_clearselected() *)

  (* what the set commands do to ONE selected entity, for a document of kind k *)
  Definition app_node (d : doc) (prop : string) (group : nat) (cond : string) (n : nodeT) : nodeT :=
    mkNode (n_at n) (ref_of_name prop (d_pp d)) group
           (match d_kind d with Mag => n_cond n | _ => ref_of_name cond (d_circ d) end).
  Definition app_seg (d : doc) (prop : string) (size : Z) (automesh hide : bool) (group : nat) (cond : string)
             (s : segT) : segT :=
    mkSeg (s_n0 s) (s_n1 s) (ref_of_name prop (d_bp d))
          (if automesh then None else if (0 <? size)%Z then Some size else s_size s)
          hide group
          (match d_kind d with Mag => s_cond s | _ => ref_of_name cond (d_circ d) end).
  Definition app_arc (d : doc) (maxseg : Z) (prop : string) (hide : bool) (group : nat) (cond : string)
             (a : arcT) : arcT :=
    mkArc (a_n0 a) (a_n1 a) (a_angle a) maxseg (ref_of_name prop (d_bp d)) hide group
          (match d_kind d with Mag => a_cond a | _ => ref_of_name cond (d_circ d) end).
  Definition app_lab (d : doc) (block : string) (automesh : bool) (size : Z) (circ : string) (magdir : Z)
             (group : nat) (turns : Z) (l : labT) : labT :=
    let sz := if automesh then None else if (0 <? size)%Z then Some size else None in
    match d_kind d with
    | Mag => mkLab (l_at l) (ref_of_name block (d_mat d)) sz (ref_of_name circ (d_circ d)) magdir group
                   (if (turns =? 0)%Z then 1%Z else turns)
    | _ => mkLab (l_at l) (ref_of_name block (d_mat d)) sz (l_circ l) (l_magdir l) group (l_turns l)
    end.

  Definition same_seg (n0 n1 : nat) (s : segT) : bool :=
    (Nat.eqb (s_n0 s) n0 && Nat.eqb (s_n1 s) n1) || (Nat.eqb (s_n0 s) n1 && Nat.eqb (s_n1 s) n0).
  Definition same_arc (n0 n1 : nat) (angle : Z) (a : arcT) : bool :=
    Nat.eqb (a_n0 a) n0 && Nat.eqb (a_n1 a) n1 && Z.eqb (a_angle a) angle.

  (* one builder command on the open document *)
  Definition step (d : doc) (c : cmd) : doc :=
    let pts := pts_of (d_nodes d) in
    match c with
    | ProbDef v => mkDoc (d_kind d) (Some v) (d_pp d) (d_bp d) (d_mat d) (d_circ d) (d_nodes d) (d_segs d) (d_arcs d) (d_labs d)
    | AddPointProp n v => mkDoc (d_kind d) (d_def d) (d_pp d ++ [(n, v)]) (d_bp d) (d_mat d) (d_circ d) (d_nodes d) (d_segs d) (d_arcs d) (d_labs d)
    | AddBoundProp n v => mkDoc (d_kind d) (d_def d) (d_pp d) (d_bp d ++ [(n, v)]) (d_mat d) (d_circ d) (d_nodes d) (d_segs d) (d_arcs d) (d_labs d)
    | AddMaterial n v => mkDoc (d_kind d) (d_def d) (d_pp d) (d_bp d) (d_mat d ++ [(n, v)]) (d_circ d) (d_nodes d) (d_segs d) (d_arcs d) (d_labs d)
    | AddCircProp n v => mkDoc (d_kind d) (d_def d) (d_pp d) (d_bp d) (d_mat d) (d_circ d ++ [(n, v)]) (d_nodes d) (d_segs d) (d_arcs d) (d_labs d)
    | AddNode q =>
        (* FemmProblem::addNode: refused on top of an existing node or block label *)
        if existsb (pt_eqb q) pts || existsb (fun x => pt_eqb q (l_at (fst x))) (d_labs d) then d
        else mkDoc (d_kind d) (d_def d) (d_pp d) (d_bp d) (d_mat d) (d_circ d) (d_nodes d ++ [(dflt_node q, false)]) (d_segs d) (d_arcs d) (d_labs d)
    | AddSegment a b =>
        match closest pts a, closest pts b with
        | Some n0, Some n1 =>
            (* FemmProblem::addSegment: refused when degenerate or already present (either direction) *)
            if Nat.eqb n0 n1 || existsb (fun x => same_seg n0 n1 (fst x)) (d_segs d) then d
            else mkDoc (d_kind d) (d_def d) (d_pp d) (d_bp d) (d_mat d) (d_circ d) (d_nodes d) (d_segs d ++ [(dflt_seg n0 n1, false)]) (d_arcs d) (d_labs d)
        | _, _ => d
        end
    | AddArc a b angle maxseg =>
        match closest pts a, closest pts b with
        | Some n0, Some n1 =>
            if Nat.eqb n0 n1 || existsb (fun x => same_arc n0 n1 angle (fst x)) (d_arcs d) then d
            else mkDoc (d_kind d) (d_def d) (d_pp d) (d_bp d) (d_mat d) (d_circ d) (d_nodes d) (d_segs d) (d_arcs d ++ [(dflt_arc n0 n1 angle maxseg, false)]) (d_labs d)
        | _, _ => d
        end
    | AddLabel q =>
        (* FemmProblem::addBlockLabel: refused on a node; not added again on an existing label *)
        if existsb (pt_eqb q) pts || existsb (fun x => pt_eqb q (l_at (fst x))) (d_labs d) then d
        else mkDoc (d_kind d) (d_def d) (d_pp d) (d_bp d) (d_mat d) (d_circ d) (d_nodes d) (d_segs d) (d_arcs d) (d_labs d ++ [(dflt_lab q, false)])
    | SelectNode q => mkDoc (d_kind d) (d_def d) (d_pp d) (d_bp d) (d_mat d) (d_circ d) (toggle_closest n_at (d_nodes d) q) (d_segs d) (d_arcs d) (d_labs d)
    | SelectSegment q => mkDoc (d_kind d) (d_def d) (d_pp d) (d_bp d) (d_mat d) (d_circ d) (d_nodes d) (toggle_closest (seg_handle pts) (d_segs d) q) (d_arcs d) (d_labs d)
    | SelectArc q => mkDoc (d_kind d) (d_def d) (d_pp d) (d_bp d) (d_mat d) (d_circ d) (d_nodes d) (d_segs d) (toggle_closest (arc_handle pts) (d_arcs d) q) (d_labs d)
    | SelectLabel q => mkDoc (d_kind d) (d_def d) (d_pp d) (d_bp d) (d_mat d) (d_circ d) (d_nodes d) (d_segs d) (d_arcs d) (toggle_closest l_at (d_labs d) q)
    | SetNodeProp prop group cond =>
        mkDoc (d_kind d) (d_def d) (d_pp d) (d_bp d) (d_mat d) (d_circ d) (set_selected (app_node d prop group cond) (d_nodes d)) (d_segs d) (d_arcs d) (d_labs d)
    | SetSegmentProp prop size automesh hide group cond =>
        mkDoc (d_kind d) (d_def d) (d_pp d) (d_bp d) (d_mat d) (d_circ d) (d_nodes d) (set_selected (app_seg d prop size automesh hide group cond) (d_segs d)) (d_arcs d) (d_labs d)
    | SetArcProp maxseg prop hide group cond =>
        mkDoc (d_kind d) (d_def d) (d_pp d) (d_bp d) (d_mat d) (d_circ d) (d_nodes d) (d_segs d) (set_selected (app_arc d maxseg prop hide group cond) (d_arcs d)) (d_labs d)
    | SetBlockProp block automesh size circ magdir group turns =>
        mkDoc (d_kind d) (d_def d) (d_pp d) (d_bp d) (d_mat d) (d_circ d) (d_nodes d) (d_segs d) (d_arcs d) (set_selected (app_lab d block automesh size circ magdir group turns) (d_labs d))
    | ClearSelected =>
        mkDoc (d_kind d) (d_def d) (d_pp d) (d_bp d) (d_mat d) (d_circ d) (clear_sel (d_nodes d)) (clear_sel (d_segs d)) (clear_sel (d_arcs d)) (clear_sel (d_labs d))
    | _ => d
    end.

  (* ------------------------------------------------------------- (c) document state machine ---- *)
  (* FemmState::current = { document, mesher, postProcessor }; FemmProblem::pathName belongs to the document *)
  Record state := mkState { st_doc : option doc; st_path : option string; st_mesher : bool; st_solution : bool }.
  Definition no_doc : state := mkState None None false false.
  Definition init (k : kind) : state := mkState (Some (empty_doc k)) None false false.
  Definition opened (p : problem) (path : string) : state := mkState (Some (doc_of p)) (Some path) false false.

  Definition exec (s : state) (c : cmd) : state :=
    match c with
    | NewDoc k => init k                          (* setDocument: close(); current.document = new *)
    | OpenDoc p path => opened p path
    | CloseDoc => no_doc
    | SaveAs path => match st_doc s with Some _ => mkState (st_doc s) (Some path) (st_mesher s) (st_solution s) | None => s end
    | Analyze => match st_doc s, st_path s with Some _, Some _ => mkState (st_doc s) (st_path s) true (st_solution s) | _, _ => s end
    | LoadSolution => match st_doc s, st_path s with Some _, Some _ => mkState (st_doc s) (st_path s) (st_mesher s) true | _, _ => s end
    | _ => match st_doc s with
           | Some d => mkState (Some (step d c)) (st_path s) (st_mesher s) (st_solution s)
           | None => s
           end
    end.
  Definition run_from (s : state) (cs : list cmd) : state := fold_left exec cs s.
  Definition run (cs : list cmd) : state := run_from no_doc cs.
  Definition build (cs : list cmd) : option problem := option_map problem_of (st_doc (run cs)).

  (* ------------------------------------------------------------------- script generator -------- *)
  Definition node_cmds (p : problem) (n : nodeT) : list cmd :=
    [SelectNode (n_at n);
     SetNodeProp (name_of_ref NONE (n_prop n) (p_pointprops p)) (n_group n) (name_of_ref NONE (n_cond n) (p_circuits p));
     ClearSelected].
  Definition size_arg (o : option Z) : Z := match o with Some z => z | None => 0%Z end.
  Definition auto_arg (o : option Z) : bool := match o with Some _ => false | None => true end.
  Definition seg_cmds (p : problem) (pts : list pt) (s : segT) : list cmd :=
    [SelectSegment (seg_handle pts s);
     SetSegmentProp (name_of_ref NONE (s_bdry s) (p_bdryprops p)) (size_arg (s_size s)) (auto_arg (s_size s))
                    (s_hide s) (s_group s) (name_of_ref NONE (s_cond s) (p_circuits p));
     ClearSelected].
  Definition arc_cmds (p : problem) (pts : list pt) (a : arcT) : list cmd :=
    [SelectArc (arc_handle pts a);
     SetArcProp (a_maxseg a) (name_of_ref NONE (a_bdry a) (p_bdryprops p)) (a_hide a) (a_group a)
                (name_of_ref NONE (a_cond a) (p_circuits p));
     ClearSelected].
  Definition lab_cmds (p : problem) (l : labT) : list cmd :=
    [SelectLabel (l_at l);
     SetBlockProp (name_of_ref NOMESH (l_block l) (p_materials p)) (auto_arg (l_size l)) (size_arg (l_size l))
                  (name_of_ref NONE (l_circ l) (p_circuits p)) (l_magdir l) (l_group l) (l_turns l);
     ClearSelected].

  Definition script_of (p : problem) : list cmd :=
    let pts := map n_at (p_nodes p) in
    [NewDoc (p_kind p)] ++
    (match p_def p with Some v => [ProbDef v] | None => [] end) ++
    map (fun x => AddPointProp (fst x) (snd x)) (p_pointprops p) ++
    map (fun x => AddBoundProp (fst x) (snd x)) (p_bdryprops p) ++
    map (fun x => AddMaterial (fst x) (snd x)) (p_materials p) ++
    map (fun x => AddCircProp (fst x) (snd x)) (p_circuits p) ++
    map (fun n => AddNode (n_at n)) (p_nodes p) ++
    map (fun s => AddSegment (pt_at pts (s_n0 s)) (pt_at pts (s_n1 s))) (p_segs p) ++
    map (fun a => AddArc (pt_at pts (a_n0 a)) (pt_at pts (a_n1 a)) (a_angle a) (a_maxseg a)) (p_arcs p) ++
    map (fun l => AddLabel (l_at l)) (p_labels p) ++
    flat_map (node_cmds p) (p_nodes p) ++
    flat_map (seg_cmds p pts) (p_segs p) ++
    flat_map (arc_cmds p pts) (p_arcs p) ++
    flat_map (lab_cmds p) (p_labels p).

  (* ------------------------------------------------------------------- well-formedness --------- *)
  Fixpoint distinct_pt (l : list pt) : bool :=
    match l with
    | [] => true
    | x :: r => negb (existsb (pt_eqb x) r) && distinct_pt r
    end.
  Definition names_ok (none : string) (l : list propT) : bool :=
    distinct_str (map fst l) && negb (existsb (String.eqb none) (map fst l)).
  Definition size_ok (o : option Z) : bool := match o with Some z => (0 <? z)%Z | None => true end.
  Definition is_mag (k : kind) : bool := kind_eqb k Mag.

  Definition node_ok (p : problem) (n : nodeT) : bool :=
    (n_prop n <=? List.length (p_pointprops p))%nat && (n_cond n <=? List.length (p_circuits p))%nat &&
    implb (is_mag (p_kind p)) (n_cond n =? 0)%nat.
  Definition seg_ok (p : problem) (s : segT) : bool :=
    (s_n0 s <? List.length (p_nodes p))%nat && (s_n1 s <? List.length (p_nodes p))%nat && negb (s_n0 s =? s_n1 s)%nat &&
    (s_bdry s <=? List.length (p_bdryprops p))%nat && (s_cond s <=? List.length (p_circuits p))%nat && size_ok (s_size s) &&
    implb (is_mag (p_kind p)) (s_cond s =? 0)%nat.
  Definition arc_ok (p : problem) (a : arcT) : bool :=
    (a_n0 a <? List.length (p_nodes p))%nat && (a_n1 a <? List.length (p_nodes p))%nat && negb (a_n0 a =? a_n1 a)%nat &&
    (a_bdry a <=? List.length (p_bdryprops p))%nat && (a_cond a <=? List.length (p_circuits p))%nat &&
    implb (is_mag (p_kind p)) (a_cond a =? 0)%nat.
  Definition lab_ok (p : problem) (l : labT) : bool :=
    (l_block l <=? List.length (p_materials p))%nat && (l_circ l <=? List.length (p_circuits p))%nat && size_ok (l_size l) &&
    (if is_mag (p_kind p) then negb (l_turns l =? 0)%Z
     else (l_circ l =? 0)%nat && (l_magdir l =? 0)%Z && (l_turns l =? 1)%Z).

  (* names unique and not the reserved "none" name; references valid; node and label coordinates pairwise
     distinct; the selection handles of segments and of arcs pairwise distinct *)
  Definition wf (p : problem) : bool :=
    let pts := map n_at (p_nodes p) in
    names_ok NONE (p_pointprops p) && names_ok NONE (p_bdryprops p) &&
    names_ok NOMESH (p_materials p) && names_ok NONE (p_circuits p) &&
    distinct_pt (pts ++ map l_at (p_labels p)) &&
    distinct_pt (map (seg_handle pts) (p_segs p)) && distinct_pt (map (arc_handle pts) (p_arcs p)) &&
    forallb (node_ok p) (p_nodes p) && forallb (seg_ok p) (p_segs p) &&
    forallb (arc_ok p) (p_arcs p) && forallb (lab_ok p) (p_labels p).

  (* the Lua name of a model command, per physics (plain spelling) *)
  Definition prefix (k : kind) : string := match k with Mag => "mi_" | Elec => "ei_" | Heat => "hi_" end.
  Definition lua_name (k : kind) (c : cmd) : string :=
    match c with
    | NewDoc _ => "newdocument" | OpenDoc _ _ => "open"
    | CloseDoc => prefix k ++ "close" | SaveAs _ => prefix k ++ "saveas"
    | Analyze => prefix k ++ "analyze" | LoadSolution => prefix k ++ "loadsolution"
    | ProbDef _ => prefix k ++ "probdef"
    | AddPointProp _ _ => prefix k ++ "addpointprop" | AddBoundProp _ _ => prefix k ++ "addboundprop"
    | AddMaterial _ _ => prefix k ++ "addmaterial"
    | AddCircProp _ _ => match k with Mag => "mi_addcircprop" | _ => prefix k ++ "addconductorprop" end
    | AddNode _ => prefix k ++ "addnode" | AddSegment _ _ => prefix k ++ "addsegment"
    | AddArc _ _ _ _ => prefix k ++ "addarc" | AddLabel _ => prefix k ++ "addblocklabel"
    | SelectNode _ => prefix k ++ "selectnode" | SelectSegment _ => prefix k ++ "selectsegment"
    | SelectArc _ => prefix k ++ "selectarcsegment" | SelectLabel _ => prefix k ++ "selectlabel"
    | SetNodeProp _ _ _ => prefix k ++ "setnodeprop" | SetSegmentProp _ _ _ _ _ _ => prefix k ++ "setsegmentprop"
    | SetArcProp _ _ _ _ _ => prefix k ++ "setarcsegmentprop"
    | SetBlockProp _ _ _ _ _ _ _ => prefix k ++ "setblockprop"
    | ClearSelected => prefix k ++ "clearselected"
    end.
End Model.

Arguments problem : clear implicits.
Arguments doc : clear implicits.
Arguments cmd : clear implicits.
Arguments state : clear implicits.

(* ------------------------------------------------------------------ run-time tie (tools/props/c17.py) ---- *)
(* The tie evaluates, for every generated problem P (payloads = indices), wf P, build (script_of P) and the
   rendering of script_of P by vm_compute, and compares the rendering with the Lua script it actually runs. *)
Definition enc_opt (o : option Z) : bool * Z := match o with Some z => (true, z) | None => (false, 0%Z) end.
Definition enc_node (n : nodeT) := (n_at n, n_prop n, n_group n, n_cond n).
Definition enc_seg (s : segT) := (s_n0 s, s_n1 s, s_bdry s, enc_opt (s_size s), s_hide s, s_group s, s_cond s).
Definition enc_arc (a : arcT) := (a_n0 a, a_n1 a, a_angle a, a_maxseg a, a_bdry a, a_hide a, a_group a, a_cond a).
Definition enc_lab (l : labT) := (l_at l, l_block l, enc_opt (l_size l), l_circ l, l_magdir l, l_group l, l_turns l).
Definition kind_code (k : kind) : nat := match k with Mag => 0 | Elec => 1 | Heat => 2 end.
Definition enc_problem (p : problem nat) :=
  (kind_code (p_kind p), match p_def p with Some v => [v] | None => [] end,
   (p_pointprops p, p_bdryprops p, p_materials p, p_circuits p),
   (map enc_node (p_nodes p), map enc_seg (p_segs p), map enc_arc (p_arcs p), map enc_lab (p_labels p))).
Definition enc_build (p : problem nat) :=
  match build (script_of p) with Some q => [enc_problem q] | None => [] end.

Definition zb (b : bool) : Z := if b then 1%Z else 0%Z.
Definition zn (n : nat) : Z := Z.of_nat n.
(* (Lua name, string arguments, numeric arguments) of a command; coordinates as given to the model *)
Definition render (k : kind) (c : cmd nat) : string * list string * list Z :=
  (lua_name k c,
   match c with
   | AddPointProp n _ | AddBoundProp n _ | AddMaterial n _ | AddCircProp n _ => [n]
   | SetNodeProp pr _ cd => [pr; cd]
   | SetSegmentProp pr _ _ _ _ cd => [pr; cd]
   | SetArcProp _ pr _ _ cd => [pr; cd]
   | SetBlockProp bl _ _ ci _ _ _ => [bl; ci]
   | _ => []
   end,
   match c with
   | NewDoc k' => [zn (kind_code k')]
   | AddNode q | AddLabel q | SelectNode q | SelectLabel q | SelectSegment q | SelectArc q => [fst q; snd q]
   | AddSegment a b => [fst a; snd a; fst b; snd b]
   | AddArc a b an ms => [fst a; snd a; fst b; snd b; an; ms]
   | SetNodeProp _ g _ => [zn g]
   | SetSegmentProp _ sz au hd g _ => [sz; zb au; zb hd; zn g]
   | SetArcProp ms _ hd g _ => [ms; zb hd; zn g]
   | SetBlockProp _ au sz _ md g t => [zb au; sz; md; zn g; t]
   | _ => []
   end).
Definition render_script (p : problem nat) := map (render (p_kind p)) (script_of p).
