(* Properties_C02_renumber.v — C02 (the mesh carries materials, boundary conditions and conductors to
   the right places) through the renumbering between LoadMesh and assembly: materials, boundary
   markers and conductors stay with the same physical node and element.

   THE GUARD.  [renumber_guard N edges] is   2 <= N  /\  every index of the edge list is below N.
   Every mesh written by fmesher satisfies it: a mesh has at least one triangle (3 nodes) and the
   .edge file is written by Triangle (switch -e) with indices of the .node file.  Nodes without any
   edge are allowed (the periodic path of fmesher runs Triangle without -j and keeps points drawn
   outside every meshed region in the .node file; Cuthill's restart branch numbers them), and so
   are meshes with fewer lines than nodes.  (Until /repo commit e99587c the start-node search could
   loop forever when NumNodes > n_lines + 1; the guard then also needed N <= S (length edges).)
   [mesh_guard N M]: meshnode has N entries and every node index held by an element, a pbc pair or
   an air-gap quad node is below N (LoadMesh reads them from the same Triangle output).
   Model: Renumber.v (FEASolver::Cuthill, SortElements, the three SortNodes overrides); proofs:
   RenumberProofs.v; correspondence with the real solver classes: tools/props/xcm.py through
   harness/h_cuthill.cpp.  Statements only. *)
From Coq Require Import List Arith Bool ZArith Lia Permutation Sorted.
From XF Require Import Renumber RenumberProofs.
Import ListNotations.

(* The renumbered mesh is the isomorphic image of the loaded one.  [elem_view nodes e] is the triple
   of node RECORDS (x, y, BoundaryMarker, InConductor, ...: an arbitrary type Nd) at the corners of
   e, in corner order, together with the rest of the element record (e[], blk, lbl, ...: an
   arbitrary type P).  The node records are permuted (old i to newnum[i]) and the multiset of element
   views is unchanged: every element keeps its payload and each of its corners still is the same
   physical node with the same markers. *)
Theorem C02_renumber_mesh_is_isomorphic_image :
  forall (Nd P T W : Type) (d : Nd) (N : nat) (edges : list (nat * nat)) (M : mesh Nd P T W) (r : result Nd P T W),
    renumber_guard N edges -> mesh_guard N M -> cuthill N edges M = Ok r ->
    Permutation (m_nodes (r_mesh r)) (m_nodes M) /\
    (forall i, i < N -> nth (nnf (r_newnum r) i) (m_nodes (r_mesh r)) d = nth i (m_nodes M) d) /\
    Permutation (map (elem_view d (m_nodes (r_mesh r))) (m_eles (r_mesh r)))
                (map (elem_view d (m_nodes M)) (m_eles M)).
Proof. exact renumber_mesh_is_isomorphic_image_thm. Qed.
Print Assumptions C02_renumber_mesh_is_isomorphic_image.

(* ... spelled out for one element: every element of the renumbered mesh comes from an element of
   the loaded mesh with the same payload whose three corners carry, one by one, the same value of
   every field of the node record (f = BoundaryMarker, InConductor, x, y, ...). *)
Theorem C02_renumber_element_corners_keep_their_markers :
  forall (Nd P T W X : Type) (f : Nd -> X) (d : Nd) (N : nat) (edges : list (nat * nat))
         (M : mesh Nd P T W) (r : result Nd P T W),
    renumber_guard N edges -> mesh_guard N M -> cuthill N edges M = Ok r ->
    forall e', In e' (m_eles (r_mesh r)) ->
    exists e, In e (m_eles M) /\ snd e' = snd e /\
      let '(a', b', c') := fst e' in let '(a, b, c) := fst e in
      f (nth a' (m_nodes (r_mesh r)) d) = f (nth a (m_nodes M) d) /\
      f (nth b' (m_nodes (r_mesh r)) d) = f (nth b (m_nodes M) d) /\
      f (nth c' (m_nodes (r_mesh r)) d) = f (nth c (m_nodes M) d).
Proof. exact renumber_element_corners_keep_their_markers_thm. Qed.
Print Assumptions C02_renumber_element_corners_keep_their_markers.

(* SortNodes' in-place cycle loop = its specification "node old i ends at position newnum[i]",
   for EVERY permutation newnum and every node array *)
Theorem C02_renumber_sortnodes_loop_equals_specification :
  forall (Nd : Type) (d : Nd) (N : nat) (nn : list nat) (nodes : list Nd),
    Permutation nn (seq 0 N) -> length nodes = N ->
    sort_nodes N nn nodes = Ok (seq 0 N, sort_nodes_spec nn nodes) /\
    length (sort_nodes_spec nn nodes) = N /\
    forall i, i < N -> nth (nth i nn 0) (sort_nodes_spec nn nodes) d = nth i nodes d.
Proof. exact renumber_sortnodes_loop_equals_specification_thm. Qed.
Print Assumptions C02_renumber_sortnodes_loop_equals_specification.

(* SortElements returns a permutation of the element list: the multiset of element records is
   preserved, every record intact (p[], e[], blk, lbl travel together) *)
Theorem C02_renumber_sortelements_returns_a_permutation :
  forall (P : Type) (ele : list (elem P)), exists ele', sort_elements ele = Ok ele' /\ Permutation ele' ele.
Proof. exact renumber_sortelements_returns_a_permutation_thm. Qed.
Print Assumptions C02_renumber_sortelements_returns_a_permutation.

(* ... but the result is NOT always sorted by p0+p1+p2: the do-while condition (gap>1)&&(i>0)
   ends the loop after the first comb that makes no swap (and always after the comb with gap 1).
   Witness: three elements with scores 1, 3, 2 come back unchanged.  (Nothing downstream relies on
   the order; the sort only improves memory locality of the assembly.) *)
Theorem C02_renumber_sortelements_sorted_refuted :
  exists (ele ele' : list (elem unit)),
    sort_elements ele = Ok ele' /\ ~ Sorted Z.le (map score ele').
Proof. exact renumber_sortelements_sorted_refuted_thm. Qed.
Print Assumptions C02_renumber_sortelements_sorted_refuted.

(* the hypotheses are satisfiable *)
Example C02_renumber_guards_satisfiable : renumber_guard 4 ex_edges /\ mesh_guard 4 ex_mesh.
Proof. exact ex_guards. Qed.
