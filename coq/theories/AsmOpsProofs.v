(* AsmOpsProofs.v — the assembled system is the sum of the operations' contributions, and so
   is every row of its residual (real reading). *)
From Coq Require Import ZArith List Bool Arith Lia Reals Lra.
From XF Require Import Arith Sparse SparseProofs AsmOps.
Import ListNotations.
Local Open Scope R_scope.

Section R.
  Local Notation vgetR := (vget RA).
  Local Notation mgetR := (mget RA).
  Implicit Type M : matrixT R.
  Implicit Type V b : vecT R.

  Definition mops_in_range (n : nat) (ops : list (nat * nat * R)) : Prop :=
    Forall (fun o => (fst (fst o) < n)%nat /\ (snd (fst o) < n)%nat) ops.
  Definition bops_in_range (n : nat) (ops : list (nat * R)) : Prop :=
    Forall (fun o => (fst o < n)%nat) ops.

  (* contribution of one matrix operation to entry (i,j) and to row i of M*V *)
  Definition mop_entry (o : nat * nat * R) (i j : nat) : R :=
    let '(p, q, v) := o in if same_key p q i j then v else 0.
  Definition mop_row (V : vecT R) (o : nat * nat * R) (i : nat) : R :=
    let '(p, q, v) := o in
    (if Nat.eqb p i then v * vgetR V q else 0) +
    (if (Nat.eqb q i && negb (Nat.eqb p q))%bool then v * vgetR V p else 0).
  Definition bop_entry (o : nat * R) (i : nat) : R :=
    let '(k, v) := o in if Nat.eqb k i then v else 0.

  Fixpoint lsum {T} (f : T -> R) (l : list T) : R :=
    match l with [] => 0 | x :: t => f x + lsum f t end.

  Lemma lsum_app {T} (f : T -> R) l1 l2 : lsum f (l1 ++ l2) = lsum f l1 + lsum f l2.
  Proof. induction l1; simpl; [lra|]. rewrite IHl1. lra. Qed.

  Lemma apply_mop_spec M o : mat_wf M -> (fst (fst o) < length M)%nat -> (snd (fst o) < length M)%nat ->
    mat_wf (apply_mop RA M o) /\ length (apply_mop RA M o) = length M /\
    forall i j, mgetR (apply_mop RA M o) i j = mgetR M i j + mop_entry o i j.
  Proof.
    destruct o as [[p q] v]. simpl. intros Hwf Hp Hq.
    split; [apply mat_wf_mput; auto|]. split; [apply mput_length|].
    intros i j. pose proof (abs_mput RA M (mgetR M p q + v) p q (proj1 Hwf) Hp Hq i j) as G.
    unfold abs, aput in G. ra_simpl. rewrite G.
    destruct (same_key p q i j) eqn:E; [|lra].
    apply same_key_spec in E. destruct E as [[-> ->]|[-> ->]]; [lra|].
    rewrite (mget_sym RA M q p). lra.
  Qed.

  Lemma apply_mops_spec ops : forall M, mat_wf M -> mops_in_range (length M) ops ->
    mat_wf (apply_mops RA M ops) /\ length (apply_mops RA M ops) = length M /\
    forall i j, mgetR (apply_mops RA M ops) i j = mgetR M i j + lsum (fun o => mop_entry o i j) ops.
  Proof.
    induction ops as [|o ops IH]; intros M Hwf Hr.
    - simpl. split; [auto|]. split; [auto|]. intros; lra.
    - apply Forall_cons_iff in Hr. destruct Hr as [[Hp Hq] Hr].
      destruct (apply_mop_spec M o Hwf Hp Hq) as (W1 & L1 & E1).
      destruct (IH (apply_mop RA M o) W1) as (W & L & E); [rewrite L1; auto|].
      unfold apply_mops in *. simpl fold_left.
      split; [auto|]. split; [lia|]. intros i j. rewrite E, E1. simpl. lra.
  Qed.

  Lemma apply_bops_spec ops : forall b, bops_in_range (length b) ops ->
    length (apply_bops RA b ops) = length b /\
    forall i, vgetR (apply_bops RA b ops) i = vgetR b i + lsum (fun o => bop_entry o i) ops.
  Proof.
    induction ops as [|[k v] ops IH]; intros b Hr.
    - simpl. split; [auto|]. intros; lra.
    - apply Forall_cons_iff in Hr. destruct Hr as [Hk Hr]. simpl in Hk.
      unfold apply_bops in *. simpl fold_left.
      destruct (IH (vset b k (vgetR b k + v))) as [L E]; [rewrite vset_length; auto|].
      ra_simpl. split; [rewrite L; apply vset_length|].
      intros i. rewrite E, (vget_vset RA) by auto. simpl.
      rewrite (Nat.eqb_sym k i). destruct (Nat.eqb_spec i k) as [->|]; lra.
  Qed.

  (* one operation's contribution to row i of the product with V *)
  Lemma mop_row_sum V o n i : (fst (fst o) < n)%nat -> (snd (fst o) < n)%nat ->
    rsum (fun j => mop_entry o i j * vgetR V j) n = mop_row V o i.
  Proof.
    destruct o as [[p q] v]. simpl. intros Hp Hq.
    rewrite (rsum_ext _ (fun j =>
       (if Nat.eqb q j then (if Nat.eqb p i then v * vgetR V j else 0) else 0) +
       (if Nat.eqb p j then (if (Nat.eqb q i && negb (Nat.eqb p q))%bool then v * vgetR V j else 0) else 0))).
    - rewrite rsum_plus.
      rewrite (rsum_single q (fun j => if Nat.eqb p i then v * vgetR V j else 0)) by auto.
      rewrite (rsum_single p (fun j => if (Nat.eqb q i && negb (Nat.eqb p q))%bool then v * vgetR V j else 0)) by auto.
      reflexivity.
    - intros j _. unfold same_key.
      destruct (Nat.eqb_spec i p); destruct (Nat.eqb_spec j q); destruct (Nat.eqb_spec i q);
        destruct (Nat.eqb_spec j p); destruct (Nat.eqb_spec q j); destruct (Nat.eqb_spec p i);
        destruct (Nat.eqb_spec p j); destruct (Nat.eqb_spec q i); destruct (Nat.eqb_spec p q);
        cbn [andb orb negb]; subst; try lia; try lra.
  Qed.

  Lemma rsum_lsum {T} (g : T -> nat -> R) (l : list T) n :
    rsum (fun j => lsum (fun o => g o j) l) n = lsum (fun o => rsum (g o) n) l.
  Proof.
    induction l as [|x t IH]; simpl.
    - apply rsum_zero.
    - rewrite rsum_plus, IH. reflexivity.
  Qed.

  (* Assembled system = initial system + sum of contributions, row by row of the residual *)
  Theorem assembled_rows M b mops bops V :
    mat_wf M -> mops_in_range (length M) mops -> bops_in_range (length b) bops ->
    let M' := apply_mops RA M mops in
    let b' := apply_bops RA b bops in
    mat_wf M' /\ length M' = length M /\ length b' = length b /\
    forall i, (i < length M)%nat ->
      Ax M' V i - vgetR b' i =
      (Ax M V i - vgetR b i) + lsum (fun o => mop_row V o i) mops - lsum (fun o => bop_entry o i) bops.
  Proof.
    intros Hwf Hm Hb M' b'.
    destruct (apply_mops_spec mops M Hwf Hm) as (W & L & E).
    destruct (apply_bops_spec bops b Hb) as (Lb & Eb).
    split; [exact W|]. split; [exact L|]. split; [exact Lb|].
    intros i Hi. unfold Ax, M', b'. rewrite L, Eb.
    rewrite (rsum_ext _ (fun j => mgetR M i j * vgetR V j + lsum (fun o => mop_entry o i j * vgetR V j) mops)).
    - rewrite rsum_plus, (rsum_lsum (fun o j => mop_entry o i j * vgetR V j)).
      assert (G : lsum (fun o => rsum (fun j => mop_entry o i j * vgetR V j) (length M)) mops
                  = lsum (fun o => mop_row V o i) mops).
      { clear - Hm. induction mops as [|o t IH]; simpl; [reflexivity|].
        apply Forall_cons_iff in Hm. destruct Hm as [[Hp Hq] Hm].
        rewrite mop_row_sum by auto. rewrite IH by auto. reflexivity. }
      rewrite G. lra.
    - intros j Hj. rewrite E.
      assert (G : forall l, lsum (fun o => mop_entry o i j) l * vgetR V j = lsum (fun o => mop_entry o i j * vgetR V j) l).
      { induction l; simpl; [lra|]. rewrite <- IHl. lra. }
      rewrite <- G. lra.
  Qed.
End R.
