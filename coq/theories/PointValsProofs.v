(* PointValsProofs.v — lemmas about PointVals.v (real-number reading; complex numbers are pairs of reals). *)
From Coq Require Import ZArith List Bool Arith Lia Reals Lra Psatz.
From XF Require Import Arith Sparse AsmE KT Integrals IntegralsE IntegralsH IntegralsM AsmMHProofs IntegralsEProofs PointVals.
Import ListNotations.
Local Open Scope R_scope.

Ltac pv_unfold :=
  unfold interp_r, interp_c, wgt, shape, pq, quad, mid, axi_A, rV, cV, cadd, csub, cmuld, cdivr, dmulc;
  cbn [sa sb sc sda tri_get fst snd v_add v_sub v_smul v_sdiv]; ra_simpl.

(* ---------------------------------------------------------------------------------------------- *)
(* 1. the linear interpolant                                                                       *)
(* ---------------------------------------------------------------------------------------------- *)
(* twice the signed area: da of the code *)
Definition da_r (x0 y0 x1 y1 x2 y2 : R) : R := (y1 - y2) * (x0 - x2) - (y2 - y0) * (x2 - x1).

Lemma shape_da x0 y0 x1 y1 x2 y2 : sda (shape RA x0 y0 x1 y1 x2 y2) = da_r x0 y0 x1 y1 x2 y2.
Proof. reflexivity. Qed.

Lemma da_r_rotate x0 y0 x1 y1 x2 y2 : da_r x1 y1 x2 y2 x0 y0 = da_r x0 y0 x1 y1 x2 y2.
Proof. unfold da_r. ring. Qed.

Lemma interp_r_nodal x0 y0 x1 y1 x2 y2 v0 v1 v2 :
  da_r x0 y0 x1 y1 x2 y2 <> 0 ->
  let s := shape RA x0 y0 x1 y1 x2 y2 in
  interp_r RA s v0 v1 v2 x0 y0 = v0 /\ interp_r RA s v0 v1 v2 x1 y1 = v1 /\ interp_r RA s v0 v1 v2 x2 y2 = v2.
Proof. unfold da_r. intros H. pv_unfold. repeat split; field; exact H. Qed.

Lemma interp_r_affine x0 y0 x1 y1 x2 y2 al be ga x y :
  da_r x0 y0 x1 y1 x2 y2 <> 0 ->
  interp_r RA (shape RA x0 y0 x1 y1 x2 y2) (al + be * x0 + ga * y0) (al + be * x1 + ga * y1) (al + be * x2 + ga * y2) x y
  = al + be * x + ga * y.
Proof. unfold da_r. intros H. pv_unfold. field; exact H. Qed.

(* the barycentric weights (a_i + b_i x + c_i y)/da sum to one and the interpolant is their combination *)
Lemma interp_r_barycentric x0 y0 x1 y1 x2 y2 v0 v1 v2 x y :
  da_r x0 y0 x1 y1 x2 y2 <> 0 ->
  let s := shape RA x0 y0 x1 y1 x2 y2 in
  let L := fun i => wgt RA s i x y / sda s in
  L 0%nat + L 1%nat + L 2%nat = 1 /\ interp_r RA s v0 v1 v2 x y = v0 * L 0%nat + v1 * L 1%nat + v2 * L 2%nat.
Proof. unfold da_r. intros H. pv_unfold. split; field; exact H. Qed.

(* on the line through corners 0 and 1 the value is the blend of the two end values: the third corner and its value
   do not enter *)
Lemma interp_r_edge01 x0 y0 x1 y1 x2 y2 v0 v1 v2 t :
  da_r x0 y0 x1 y1 x2 y2 <> 0 ->
  interp_r RA (shape RA x0 y0 x1 y1 x2 y2) v0 v1 v2 ((1 - t) * x0 + t * x1) ((1 - t) * y0 + t * y1) = (1 - t) * v0 + t * v1.
Proof. unfold da_r. intros H. pv_unfold. field; exact H. Qed.

(* the interpolant does not depend on which corner is listed first *)
Lemma interp_r_rotate x0 y0 x1 y1 x2 y2 v0 v1 v2 x y :
  da_r x0 y0 x1 y1 x2 y2 <> 0 ->
  interp_r RA (shape RA x1 y1 x2 y2 x0 y0) v1 v2 v0 x y = interp_r RA (shape RA x0 y0 x1 y1 x2 y2) v0 v1 v2 x y.
Proof.
  unfold da_r. intros H. pv_unfold.
  assert (H' : (y2 - y0) * (x1 - x0) - (y0 - y1) * (x0 - x2) <> 0) by (intro E; apply H; rewrite <- E; ring).
  field; auto.
Qed.

(* continuity across a shared edge: two elements that share the corners P, Q (in either orientation, at any position -
   use interp_r_rotate) return the same value at every point of the line PQ *)
Lemma interp_r_continuous xp yp xq yq vp vq xs ys vs xs' ys' vs' t :
  da_r xp yp xq yq xs ys <> 0 -> da_r xq yq xp yp xs' ys' <> 0 ->
  let x := (1 - t) * xp + t * xq in let y := (1 - t) * yp + t * yq in
  interp_r RA (shape RA xp yp xq yq xs ys) vp vq vs x y = interp_r RA (shape RA xq yq xp yp xs' ys') vq vp vs' x y.
Proof.
  intros H H' x y. unfold x, y. rewrite interp_r_edge01 by exact H.
  replace ((1 - t) * xp + t * xq) with ((1 - (1 - t)) * xq + (1 - t) * xp) by ring.
  replace ((1 - t) * yp + t * yq) with ((1 - (1 - t)) * yq + (1 - t) * yp) by ring.
  rewrite interp_r_edge01 by exact H'. ring.
Qed.

(* the complex interpolant of the harmonic branch is the real one on each component *)
Lemma interp_c_components (s : shp (F:=R)) v0 v1 v2 x y :
  fst (interp_c RA s v0 v1 v2 x y) = interp_r RA s (fst v0) (fst v1) (fst v2) x y /\
  snd (interp_c RA s v0 v1 v2 x y) = interp_r RA s (snd v0) (snd v1) (snd v2) x y.
Proof. unfold interp_c, interp_r, cadd, cmuld, cdivr. cbn [fst snd]. split; reflexivity. Qed.

(* ---------------------------------------------------------------------------------------------- *)
(* 2. the axisymmetric potential: quadratic interpolation of the stored flux 2 pi r A               *)
(* ---------------------------------------------------------------------------------------------- *)
(* the mid-side value, real reading, away from the axis *)
Definition mid_R (Ra Rb va vb : R) : R := (Rb * (3 * va + vb) + Ra * (va + 3 * vb)) / (4 * (Ra + Rb)).

Lemma adec_1em6 : adec RA 1 (-6) = 1 / 1000000.
Proof. unfold adec. cbn. ra_simpl. lra. Qed.

Lemma mid_off_axis Ra Rb va vb : ~ (Ra < 1 / 1000000 /\ Rb < 1 / 1000000) -> mid RA (rV RA) Ra Rb va vb = mid_R Ra Rb va vb.
Proof.
  intros H. unfold mid. rewrite adec_1em6. ra_simpl.
  destruct (Rltb Ra (1 / 1000000)) eqn:E1; destruct (Rltb Rb (1 / 1000000)) eqn:E2; cbn [andb];
    try reflexivity.
  apply Rltb_true in E1. apply Rltb_true in E2. tauto.
Qed.

Lemma mid_on_axis Ra Rb va vb : Ra < 1 / 1000000 -> Rb < 1 / 1000000 -> mid RA (rV RA) Ra Rb va vb = (va + vb) / 2.
Proof.
  intros H1 H2. unfold mid. rewrite adec_1em6. ra_simpl.
  apply Rltb_true in H1. apply Rltb_true in H2. rewrite H1, H2. reflexivity.
Qed.

(* the mid-side value is the same seen from either end: what makes the potential single-valued on a shared edge *)
Lemma mid_symmetric Ra Rb va vb : mid RA (rV RA) Ra Rb va vb = mid RA (rV RA) Rb Ra vb va.
Proof.
  unfold mid. rewrite adec_1em6. cbn [rV v_add v_sub v_smul v_sdiv]. ra_simpl.
  destruct (Rltb Ra (1 / 1000000)) eqn:E1; destruct (Rltb Rb (1 / 1000000)) eqn:E2; cbn [andb].
  - unfold Rdiv. ring.
  - replace (Rb + Ra) with (Ra + Rb) by ring. unfold Rdiv. ring.
  - replace (Rb + Ra) with (Ra + Rb) by ring. unfold Rdiv. ring.
  - replace (Rb + Ra) with (Ra + Rb) by ring. unfold Rdiv. ring.
Qed.

(* the six-node quadratic in the unit-triangle coordinates p, q: the standard P2 shape functions *)
Lemma quad_shape_functions p q v0 v1 v2 v3 v4 v5 :
  quad RA (rV RA) p q v0 v1 v2 v3 v4 v5 =
  let l0 := 1 - p - q in
  v0 * (l0 * (2 * l0 - 1)) + v2 * (p * (2 * p - 1)) + v4 * (q * (2 * q - 1)) + v1 * (4 * l0 * p) + v3 * (4 * p * q) + v5 * (4 * q * l0).
Proof. unfold quad. cbn [rV v_add v_sub v_smul v_sdiv]. ra_simpl. cbv zeta. ring. Qed.

(* p, q are the barycentric coordinates of corners 1 and 2 *)
Lemma pq_at_corners x0 y0 x1 y1 x2 y2 :
  da_r x0 y0 x1 y1 x2 y2 <> 0 ->
  let s := shape RA x0 y0 x1 y1 x2 y2 in
  (pq RA s 1 x0 y0 = 0 /\ pq RA s 2 x0 y0 = 0) /\ (pq RA s 1 x1 y1 = 1 /\ pq RA s 2 x1 y1 = 0) /\ (pq RA s 1 x2 y2 = 0 /\ pq RA s 2 x2 y2 = 1).
Proof. unfold da_r. intros H. pv_unfold. repeat split; field; exact H. Qed.

(* at the corners the returned potential is the nodal value *)
Lemma axi_A_nodal x0 y0 x1 y1 x2 y2 v0 v2 v4 :
  da_r x0 y0 x1 y1 x2 y2 <> 0 ->
  let s := shape RA x0 y0 x1 y1 x2 y2 in
  axi_A RA (rV RA) s x0 x1 x2 v0 v2 v4 x0 y0 = v0 /\ axi_A RA (rV RA) s x0 x1 x2 v0 v2 v4 x1 y1 = v2 /\ axi_A RA (rV RA) s x0 x1 x2 v0 v2 v4 x2 y2 = v4.
Proof.
  intros H s. destruct (pq_at_corners x0 y0 x1 y1 x2 y2 H) as [[A0 B0] [[A1 B1] [A2 B2]]]. fold s in A0, B0, A1, B1, A2, B2.
  unfold axi_A. rewrite A0, B0, A1, B1, A2, B2. rewrite !quad_shape_functions. cbv zeta. repeat split; ring.
Qed.

(* on the edge from corner 0 to corner 1 (parameter t) the potential is the one-dimensional quadratic through the two
   nodal values and the constructed mid-side value; nothing of the third corner enters *)
Definition edge_quadratic (va vm vb t : R) : R := va * ((1 - t) * (1 - 2 * t)) + vm * (4 * t * (1 - t)) + vb * (t * (2 * t - 1)).

Lemma axi_A_edge01 x0 y0 x1 y1 x2 y2 v0 v2 v4 t :
  da_r x0 y0 x1 y1 x2 y2 <> 0 ->
  axi_A RA (rV RA) (shape RA x0 y0 x1 y1 x2 y2) x0 x1 x2 v0 v2 v4 ((1 - t) * x0 + t * x1) ((1 - t) * y0 + t * y1)
  = edge_quadratic v0 (mid RA (rV RA) x0 x1 v0 v2) v2 t.
Proof.
  intros H. unfold axi_A.
  assert (P : pq RA (shape RA x0 y0 x1 y1 x2 y2) 1 ((1 - t) * x0 + t * x1) ((1 - t) * y0 + t * y1) = t).
  { unfold da_r in H. pv_unfold. field; exact H. }
  assert (Q : pq RA (shape RA x0 y0 x1 y1 x2 y2) 2 ((1 - t) * x0 + t * x1) ((1 - t) * y0 + t * y1) = 0).
  { unfold da_r in H. pv_unfold. field; exact H. }
  rewrite P, Q, quad_shape_functions. cbv zeta. unfold edge_quadratic. ring.
Qed.

Lemma edge_quadratic_reverse va vm vb t : edge_quadratic va vm vb t = edge_quadratic vb vm va (1 - t).
Proof. unfold edge_quadratic. ring. Qed.

(* a uniform axial field: the stored flux is kappa r^2; the quadratic interpolation reproduces it exactly
   (all three radii away from the axis) *)
Lemma axi_A_uniform_field x0 y0 x1 y1 x2 y2 kappa x y :
  da_r x0 y0 x1 y1 x2 y2 <> 0 -> 1 / 1000000 <= x0 -> 1 / 1000000 <= x1 -> 1 / 1000000 <= x2 ->
  axi_A RA (rV RA) (shape RA x0 y0 x1 y1 x2 y2) x0 x1 x2 (kappa * x0 * x0) (kappa * x1 * x1) (kappa * x2 * x2) x y = kappa * x * x.
Proof.
  intros H R0 R1 R2. unfold axi_A.
  rewrite !mid_off_axis by lra. rewrite quad_shape_functions. cbv zeta. unfold mid_R.
  unfold da_r in H. pv_unfold. field. repeat split; first [lra | exact H].
Qed.

(* it is NOT the linear interpolant of the nodal values *)
Lemma axi_A_not_linear :
  exists x0 y0 x1 y1 x2 y2 v0 v2 v4 x y,
    da_r x0 y0 x1 y1 x2 y2 <> 0 /\
    axi_A RA (rV RA) (shape RA x0 y0 x1 y1 x2 y2) x0 x1 x2 v0 v2 v4 x y <> interp_r RA (shape RA x0 y0 x1 y1 x2 y2) v0 v2 v4 x y.
Proof.
  exists 1, 0, 3, 0, 1, 1, 1, 9, 1, ((1 - 1 / 2) * 1 + 1 / 2 * 3), ((1 - 1 / 2) * 0 + 1 / 2 * 0). split; [unfold da_r; lra|].
  rewrite axi_A_edge01 by (unfold da_r; lra). rewrite interp_r_edge01 by (unfold da_r; lra).
  rewrite mid_off_axis by lra. unfold mid_R, edge_quadratic. lra.
Qed.

(* ---------------------------------------------------------------------------------------------- *)
(* 3. magnetics point values                                                                        *)
(* ---------------------------------------------------------------------------------------------- *)
Section PointM.
  Variable Q : pm_prob (F:=R).
  Variable k : nat.
  Variables x y : R.
  Let P := pm_P Q.
  Let el := pm_elem RA Q k.
  Let lab := im_label_of RA P el.
  Let mat := im_mat_of RA P el.
  Let muo := im_muo P.
  Let s := pm_shape RA P el.
  Let nd (j : nat) := im_nd RA P el j.
  Let a_re (j : nat) := fst (im_A (nd j)).
  Let aecf := im_aecf RA P el.

  Ltac open_static :=
    unfold pm_static; fold P; fold el; fold lab; fold mat; fold muo; fold s; fold aecf;
    destruct (im_B RA P el) as [B1 B2] eqn:EB;
    destruct (mat_mu_r RA mat muo) as [m1 m2] eqn:Emu;
    cbv beta iota zeta.
  Ltac open_harmonic :=
    unfold pm_harmonic; fold P; fold el; fold lab; fold mat; fold muo; fold s; fold aecf;
    destruct (im_B RA P el) as [B1 B2] eqn:EB;
    destruct (if (2 <? im_lamtype mat)%nat then _ else _) as [m1 m2] eqn:Emu;
    cbv beta iota zeta.

  (* -- potential -- *)
  Lemma pm_static_A_planar : im_axi P = false ->
    uA (pm_static RA Q k x y) = (interp_r RA s (a_re 0%nat) (a_re 1%nat) (a_re 2%nat) x y, 0).
  Proof.
    intros Hp. open_static. rewrite Hp. cbn [negb].
    destruct (aneb RA (im_Hc mat) (azero RA)); cbv beta iota zeta; destruct (_ <? _)%nat; reflexivity.
  Qed.

  Lemma pm_static_A_axi : im_axi P = true ->
    uA (pm_static RA Q k x y)
    = (axi_A RA (rV RA) s (im_x (nd 0%nat)) (im_x (nd 1%nat)) (im_x (nd 2%nat)) (a_re 0%nat) (a_re 1%nat) (a_re 2%nat) x y, 0).
  Proof.
    intros Hp. open_static. rewrite Hp. cbn [negb].
    destruct (aneb RA (im_Hc mat) (azero RA)); cbv beta iota zeta; destruct (_ <? _)%nat; reflexivity.
  Qed.

  Lemma pm_harmonic_A_planar : im_axi P = false ->
    uA (pm_harmonic RA Q k x y) = interp_c RA s (im_A (nd 0%nat)) (im_A (nd 1%nat)) (im_A (nd 2%nat)) x y.
  Proof. intros Hp. open_harmonic. rewrite Hp. cbn [negb]. reflexivity. Qed.

  (* -- smoothing off: the flux density is the element's -- *)
  Lemma pm_static_B : uB1 (pm_static RA Q k x y) = fst (im_B RA P el) /\ uB2 (pm_static RA Q k x y) = snd (im_B RA P el).
  Proof.
    open_static. destruct (aneb RA (im_Hc mat) (azero RA)); cbv beta iota zeta; destruct (_ <? _)%nat; split; reflexivity.
  Qed.
  Lemma pm_harmonic_B : uB1 (pm_harmonic RA Q k x y) = fst (im_B RA P el) /\ uB2 (pm_harmonic RA Q k x y) = snd (im_B RA P el).
  Proof. open_harmonic. split; reflexivity. Qed.

  (* -- planar: B is the curl of the interpolant the same call returns (finite differences of an affine function are exact) -- *)
  Lemma im_B_planar_curl (v : nat -> R * R) h :
    im_axi P = false -> sda s <> 0 -> im_lc P <> 0 ->
    let Bc := im_B RA P el in
    let Ai := fun x' y' => interp_c RA s (im_A (nd 0%nat)) (im_A (nd 1%nat)) (im_A (nd 2%nat)) x' y' in
    fst (Ai x (y + h)) - fst (Ai x y) = h * im_lc P * fst (fst Bc) /\ snd (Ai x (y + h)) - snd (Ai x y) = h * im_lc P * snd (fst Bc) /\
    fst (Ai (x + h) y) - fst (Ai x y) = - (h * im_lc P * fst (snd Bc)) /\ snd (Ai (x + h) y) - snd (Ai x y) = - (h * im_lc P * snd (snd Bc)).
  Proof.
    intros Hp Hda Hlc. unfold im_B. cbv zeta. fold P. rewrite Hp. cbn [negb].
    unfold im_da, im_geom, geom. cbn [gp gq]. unfold vget. cbn [nth].
    unfold s, pm_shape in Hda |- *. fold P el. unfold nd. 
    set (n0 := im_nd RA P el 0) in *. set (n1 := im_nd RA P el 1) in *. set (n2 := im_nd RA P el 2) in *.
    unfold interp_c, wgt, shape, cadd, csub, cdivr, cmuld, cofd in *. cbn [sa sb sc sda tri_get fst snd] in *. ra_simpl.
    repeat split; field; split; assumption.
  Qed.

  (* -- permeability: CMMaterialProp::GetMu, relative, per lamination type -- *)
  Lemma mat_mu_r_lam0 (m : im_mat) mu0 : mu0 <> 0 -> im_lamtype m = 0%nat ->
    mat_mu_r RA m mu0 = (1 + im_lamfill m * (im_mux m - 1), 1 + im_lamfill m * (im_muy m - 1)).
  Proof. intros H0 H. unfold mat_mu_r. rewrite H. ra_simpl. f_equal; field; exact H0. Qed.
  (* laminations parallel to x: arithmetic mean along, harmonic mean across *)
  Lemma mat_mu_r_lam1 (m : im_mat) mu0 : mu0 <> 0 -> im_muy m <> 0 -> im_lamfill m / im_muy m + (1 - im_lamfill m) <> 0 -> im_lamtype m = 1%nat ->
    mat_mu_r RA m mu0 = (1 + im_lamfill m * (im_mux m - 1), 1 / (im_lamfill m / im_muy m + (1 - im_lamfill m))).
  Proof.
    intros H0 Hy Hs H. unfold mat_mu_r. rewrite H. ra_simpl. f_equal; field; repeat split; try assumption.
    intro E. apply Hs. replace (im_lamfill m / im_muy m + (1 - im_lamfill m)) with ((im_lamfill m + (1 - im_lamfill m) * im_muy m) / im_muy m) by (field; auto).
    rewrite E. unfold Rdiv. ring.
  Qed.
  Lemma mat_mu_r_lam2 (m : im_mat) mu0 : mu0 <> 0 -> im_mux m <> 0 -> im_lamfill m / im_mux m + (1 - im_lamfill m) <> 0 -> im_lamtype m = 2%nat ->
    mat_mu_r RA m mu0 = (1 / (im_lamfill m / im_mux m + (1 - im_lamfill m)), 1 + im_lamfill m * (im_muy m - 1)).
  Proof.
    intros H0 Hy Hs H. unfold mat_mu_r. rewrite H. ra_simpl. f_equal; field; repeat split; try assumption.
    intro E. apply Hs. replace (im_lamfill m / im_mux m + (1 - im_lamfill m)) with ((im_lamfill m + (1 - im_lamfill m) * im_mux m) / im_mux m) by (field; auto).
    rewrite E. unfold Rdiv. ring.
  Qed.
  Lemma mat_mu_r_wire (m : im_mat) mu0 : mu0 <> 0 -> (2 < im_lamtype m)%nat -> mat_mu_r RA m mu0 = (1, 1).
  Proof.
    intros H0 H. unfold mat_mu_r. destruct (im_lamtype m) as [|[|[|n]]]; try lia. ra_simpl. f_equal; field; exact H0.
  Qed.

  (* the returned permeability is the material's divided by the exterior-region factor, real *)
  Lemma pm_static_mu :
    umu1 (pm_static RA Q k x y) = (fst (mat_mu_r RA mat muo) / aecf, 0) /\ umu2 (pm_static RA Q k x y) = (snd (mat_mu_r RA mat muo) / aecf, 0).
  Proof.
    open_static. destruct (aneb RA (im_Hc mat) (azero RA)); cbv beta iota zeta; destruct (_ <? _)%nat; split; reflexivity.
  Qed.

  (* -- H = B / (mu mu0) - Hc with the returned mu -- *)
  Lemma pm_static_H :
    let u := pm_static RA Q k x y in
    let hc := if aneb RA (im_Hc mat) 0 then im_hc el else (0, 0) in
    uH1 u = (fst (uB1 u) / (fst (umu1 u) * muo) - fst hc, snd (uB1 u) / (fst (umu1 u) * muo)) /\
    uH2 u = (fst (uB2 u) / (fst (umu2 u) * muo) - snd hc, snd (uB2 u) / (fst (umu2 u) * muo)) /\
    uHc u = hc.
  Proof.
    cbv zeta. open_static. change (azero RA) with 0.
    destruct (aneb RA (im_Hc mat) 0); cbv beta iota zeta; destruct (_ <? _)%nat;
      unfold cdivr; cbn [uH1 uH2 uB1 uB2 umu1 umu2 uHc fst snd]; ra_simpl; repeat split; try reflexivity; f_equal; ring.
  Qed.

  (* -- energy density of a linear material without magnet, not a wire region: B.H/2 divided by the exterior-region factor -- *)
  Lemma pm_static_energy :
    im_Hc mat = 0 -> (im_lamtype mat <= 2)%nat -> (im_lamtype mat = 0%nat \/ im_lamfix P = true) ->
    muo <> 0 -> aecf <> 0 -> fst (mat_mu_r RA mat muo) <> 0 -> snd (mat_mu_r RA mat muo) <> 0 ->
    (im_lamtype mat = 1%nat -> im_muy mat <> 0) -> (im_lamtype mat = 2%nat -> im_mux mat <> 0) ->
    let u := pm_static RA Q k x y in
    uE u * aecf = (fst (uB1 u) * fst (uH1 u) + fst (uB2 u) * fst (uH2 u)) / 2.
  Proof.
    intros Hc Hlt Hfix Hmu0 Hae Hm1 Hm2 Hy Hx. cbv zeta. open_static. change (azero RA) with 0.
    assert (Hn : aneb RA (im_Hc mat) 0 = false).
    { unfold aneb. ra_simpl. rewrite Hc. destruct (Reqb 0 0) eqn:E; [reflexivity|]. apply Reqb_false in E. congruence. }
    rewrite Hn. cbv beta iota zeta.
    assert (Hw : (2 <? im_lamtype mat)%nat = false) by (apply Nat.ltb_ge; exact Hlt). rewrite Hw.
    cbn [uE uB1 uB2 uH1 uH2 fst snd]. unfold cdivr. cbn [fst snd]. ra_simpl.
    cbn [fst snd] in Hm1, Hm2.
    unfold mat_mu_r in Emu. unfold im_do_energy, im_do_energy_asis, im_do_energy_intended.
    destruct (im_lamtype mat) as [|[|[|n]]] eqn:ELT; try lia.
    - injection Emu as Em1 Em2; subst m1 m2. ra_simpl.
      assert (H1 : 1 + im_lamfill mat * (im_mux mat - 1) <> 0) by (intro E; apply Hm1; rewrite E; field; exact Hmu0).
      assert (H2 : 1 + im_lamfill mat * (im_muy mat - 1) <> 0) by (intro E; apply Hm2; rewrite E; field; exact Hmu0).
      destruct (im_lamfix P); field; repeat split; assumption.
    - destruct Hfix as [Hf|Hf]; [discriminate|]. rewrite Hf. injection Emu as Em1 Em2; subst m1 m2. ra_simpl.
      assert (H1 : 1 + im_lamfill mat * (im_mux mat - 1) <> 0) by (intro E; apply Hm1; rewrite E; field; exact Hmu0).
      assert (Hyy := Hy eq_refl).
      assert (H2 : im_lamfill mat / (im_muy mat * muo) + (1 - im_lamfill mat) / muo <> 0).
      { intro E. apply Hm2. rewrite E. unfold Rdiv. rewrite Rinv_0. ring. }
      field. repeat split; try assumption.
      intro E. apply H2.
      replace (im_lamfill mat / (im_muy mat * muo) + (1 - im_lamfill mat) / muo)
        with ((im_lamfill mat + (1 - im_lamfill mat) * im_muy mat) / (im_muy mat * muo)) by (field; auto).
      rewrite E. unfold Rdiv. ring.
    - destruct Hfix as [Hf|Hf]; [discriminate|]. rewrite Hf. injection Emu as Em1 Em2; subst m1 m2. ra_simpl.
      assert (H2 : 1 + im_lamfill mat * (im_muy mat - 1) <> 0) by (intro E; apply Hm2; rewrite E; field; exact Hmu0).
      assert (Hxx := Hx eq_refl).
      assert (H1 : im_lamfill mat / (im_mux mat * muo) + (1 - im_lamfill mat) / muo <> 0).
      { intro E. apply Hm1. rewrite E. unfold Rdiv. rewrite Rinv_0. ring. }
      field. repeat split; try assumption.
      intro E. apply H1.
      replace (im_lamfill mat / (im_mux mat * muo) + (1 - im_lamfill mat) / muo)
        with ((im_lamfill mat + (1 - im_lamfill mat) * im_mux mat) / (im_mux mat * muo)) by (field; auto).
      rewrite E. unfold Rdiv. ring.
  Qed.

  (* -- source current density -- *)
  Lemma pm_static_Js_free : im_circ lab = None -> uJs (pm_static RA Q k x y) = (fst (im_J mat), 0).
  Proof.
    intros Hc. open_static. rewrite Hc.
    destruct (aneb RA (im_Hc mat) (azero RA)); cbv beta iota zeta; destruct (_ <? _)%nat; reflexivity.
  Qed.
  (* a solid region of a circuit, planar: J = J_block - sigma * (voltage gradient) *)
  Lemma pm_static_Js_planar_voltage c : im_circ lab = Some c -> im_case lab = 0%nat -> im_axi P = false ->
    uJs (pm_static RA Q k x y) = (fst (im_J mat) - fst (im_o lab) * fst (im_dvolts lab), 0 - fst (im_o lab) * snd (im_dvolts lab)).
  Proof.
    intros Hc Hk Hp. open_static. rewrite Hc, Hk, Hp. cbn [Nat.eqb negb].
    destruct (aneb RA (im_Hc mat) (azero RA)); cbv beta iota zeta; destruct (_ <? _)%nat; reflexivity.
  Qed.
  (* the same in an axisymmetric problem: the gradient is weighted by the interpolated 1/r *)
  Lemma pm_static_Js_axi_voltage c : im_circ lab = Some c -> im_case lab = 0%nat -> im_axi P = true ->
    let w := inv_r_weight RA (im_lc P) s (im_x (nd 0%nat)) (im_x (nd 1%nat)) (im_x (nd 2%nat)) x y in
    uJs (pm_static RA Q k x y) = (fst (im_J mat) - fst (im_o lab) * fst (im_dvolts lab) * w, 0 - fst (im_o lab) * snd (im_dvolts lab) * w).
  Proof.
    intros Hc Hk Hp. cbv zeta. open_static. rewrite Hc, Hk, Hp. cbn [Nat.eqb negb].
    destruct (aneb RA (im_Hc mat) (azero RA)); cbv beta iota zeta; destruct (_ <? _)%nat; reflexivity.
  Qed.
  (* away from the axis the weight is the linear interpolant of the nodal 1/r (in metres) *)
  Lemma inv_r_weight_off_axis lc x0 x1 x2 (sh : shp (F:=R)) :
    1 / 1000000 <= x0 -> 1 / 1000000 <= x1 -> 1 / 1000000 <= x2 ->
    inv_r_weight RA lc sh x0 x1 x2 x y = interp_r RA sh (1 / (x0 * lc)) (1 / (x1 * lc)) (1 / (x2 * lc)) x y.
  Proof.
    intros H0 H1 H2. unfold inv_r_weight, interp_r. rewrite adec_1em6. ra_simpl.
    destruct (Rltb x0 (1 / 1000000)) eqn:E0; [apply Rltb_true in E0; lra|].
    destruct (Rltb x1 (1 / 1000000)) eqn:E1; [apply Rltb_true in E1; lra|].
    destruct (Rltb x2 (1 / 1000000)) eqn:E2; [apply Rltb_true in E2; lra|]. reflexivity.
  Qed.

  (* -- wire regions (LamType > 2), no magnet: DoEnergy's B^2/(2 mu0) plus the local term, whose factor Im(o) is read from
        the block label of element 3 (as shipped) or of element k (pm_wirefix) -- *)
  Lemma pm_static_energy_wire :
    im_Hc mat = 0 -> (2 < im_lamtype mat)%nat ->
    let u := pm_static RA Q k x y in
    let lab' := if pm_wirefix Q then lab else im_label_of RA P (pm_elem RA Q 3) in
    let Jr := fst (uJs u) * 1000000 in let Ji := snd (uJs u) * 1000000 in
    uE u = im_do_energy RA (im_lamfix P) mat muo (fst (uB1 u)) (fst (uB2 u)) + (Jr * Jr - Ji * Ji) * snd (im_o lab') / 2.
  Proof.
    intros Hc Hlt. cbv zeta. open_static. change (azero RA) with 0.
    assert (Hn : aneb RA (im_Hc mat) 0 = false).
    { unfold aneb. ra_simpl. rewrite Hc. destruct (Reqb 0 0) eqn:E; [reflexivity|]. apply Reqb_false in E. congruence. }
    rewrite Hn. cbv beta iota zeta.
    assert (Hw : (2 <? im_lamtype mat)%nat = true) by (apply Nat.ltb_lt; exact Hlt). rewrite Hw.
    cbn [uE uB1 uB2 uJs fst snd]. unfold cmul, cmuld. cbn [fst snd].
    replace (adec RA 1 6) with 1000000 by (unfold adec; cbn; ra_simpl; lra). ra_simpl. reflexivity.
  Qed.

  (* ---- Frequency != 0 ---- *)
  Lemma pm_harmonic_mu :
    let m := if (2 <? im_lamtype mat)%nat then (nth (im_lbl el) (pm_lmu Q) (0, 0), nth (im_lbl el) (pm_lmu Q) (0, 0))
             else nth (im_blk el) (pm_mufd Q) ((0, 0), (0, 0)) in
    umu1 (pm_harmonic RA Q k x y) = (fst (fst m) / aecf, snd (fst m) / aecf) /\
    umu2 (pm_harmonic RA Q k x y) = (fst (snd m) / aecf, snd (snd m) / aecf).
  Proof.
    cbv zeta. unfold pm_harmonic; fold P; fold el; fold lab; fold mat; fold muo; fold s; fold aecf.
    destruct (im_B RA P el) as [B1 B2] eqn:EB. change (azero RA) with 0.
    destruct (2 <? im_lamtype mat)%nat; [|destruct (nth (im_blk el) (pm_mufd Q) (0, 0, (0, 0))) as [m1 m2]];
      cbv beta iota zeta; unfold cdivr; cbn [umu1 umu2 fst snd]; ra_simpl; split; reflexivity.
  Qed.

  (* H (mu mu0) = B, complex, with the returned mu *)
  Lemma pm_harmonic_H :
    let u := pm_harmonic RA Q k x y in
    (fst (umu1 u) * muo, snd (umu1 u) * muo) <> (0, 0) -> (fst (umu2 u) * muo, snd (umu2 u) * muo) <> (0, 0) ->
    Cmul (uH1 u) (fst (umu1 u) * muo, snd (umu1 u) * muo) = uB1 u /\
    Cmul (uH2 u) (fst (umu2 u) * muo, snd (umu2 u) * muo) = uB2 u.
  Proof.
    cbv zeta. open_harmonic. cbn [uH1 uH2 umu1 umu2 uB1 uB2]. unfold cmuld. cbn [fst snd]. ra_simpl.
    intros H1 H2. rewrite !cdiv_spec by assumption.
    pose proof (Cnorm_pos _ H1) as N1. pose proof (Cnorm_pos _ H2) as N2.
    unfold Cmul, Cinv in *. cbn [fst snd] in *. destruct B1 as [b1r b1i], B2 as [b2r b2i]. cbn [fst snd].
    split; f_equal; field; assumption.
  Qed.

  (* time-average stored energy density and hysteresis loss density outside wire regions *)
  Lemma pm_harmonic_energy : (im_lamtype mat <= 2)%nat ->
    let u := pm_harmonic RA Q k x y in
    let zr := fst (uH1 u) * fst (uB1 u) + snd (uH1 u) * snd (uB1 u) + (fst (uH2 u) * fst (uB2 u) + snd (uH2 u) * snd (uB2 u)) in
    let zi := snd (uH1 u) * fst (uB1 u) - fst (uH1 u) * snd (uB1 u) + (snd (uH2 u) * fst (uB2 u) - fst (uH2 u) * snd (uB2 u)) in
    uE u = zr / 4 /\ uPh u = pm_freq Q * PI * zi.
  Proof.
    intros Hlt. cbv zeta. open_harmonic.
    assert (Hw : (2 <? im_lamtype mat)%nat = false) by (apply Nat.ltb_ge; exact Hlt). rewrite Hw.
    cbn [uE uPh uH1 uH2 uB1 uB2]. unfold cmul, cadd, cconj. cbn [fst snd].
    replace (adec RA 25 (-2)) with (1 / 4) by (unfold adec; cbn; ra_simpl; lra). ra_simpl. split; field.
  Qed.

  (* eddy currents of a solid region of a planar problem: Je = -j w sigma A, w = 2 pi f *)
  Lemma pm_harmonic_Je_planar : im_axi P = false -> im_fill lab < 0 ->
    let u := pm_harmonic RA Q k x y in
    let w := 2 * PI * pm_freq Q in
    uJe u = (w * uc u * snd (uA u), - (w * uc u * fst (uA u))).
  Proof.
    intros Hp Hf. cbv zeta. open_harmonic. rewrite Hp. cbn [negb uJe uc uA]. change (azero RA) with 0. ra_simpl.
    apply Rltb_true in Hf. rewrite Hf. unfold cmul, cmuld. cbn [fst snd]. ra_simpl. f_equal; ring.
  Qed.

  (* ohmic loss density: |Js + Je|^2 / (2 sigma), J in MA/m^2 and sigma in MS/m *)
  Lemma pm_harmonic_Pe :
    let u := pm_harmonic RA Q k x y in
    uc u <> 0 ->
    uPe u = 1000000 * ((fst (uJs u) + fst (uJe u)) * (fst (uJs u) + fst (uJe u)) + (snd (uJs u) + snd (uJe u)) * (snd (uJs u) + snd (uJe u))) / (uc u * 2).
  Proof.
    cbv zeta. open_harmonic. cbn [uPe uc uJs uJe].
    match goal with |- ?c <> _ -> _ => set (cc := c) end. intros Hc.
    assert (Hn : aneb RA cc (azero RA) = true).
    { unfold aneb. ra_simpl. apply Reqb_false in Hc. rewrite Hc. reflexivity. }
    rewrite Hn. unfold cadd. cbn [fst snd].
    replace (adec RA 1 6) with 1000000 by (unfold adec; cbn; ra_simpl; lra). ra_simpl. reflexivity.
  Qed.
End PointM.

(* the dependence on another element's label, exhibited: two problems that differ ONLY in the conductivity record of block
   label 1, queried in element 0 (block label 0): the energy densities differ *)
Definition ex_wire_P (o1 : R) : im_prob (F:=R) :=
  mkIMProb false 1 1 0 0 0 1
    [mkIMNode 0 0 (0, 0); mkIMNode 1 0 (0, 0); mkIMNode 0 1 (0, 0); mkIMNode 1 1 (0, 0)]
    [mkIMElem (0, 1, 2)%nat 0 0 (0, 0); mkIMElem (1, 3, 2)%nat 0 0 (0, 0); mkIMElem (0, 1, 2)%nat 0 0 (0, 0); mkIMElem (1, 3, 2)%nat 1 0 (0, 0)]
    [mkIMLabel None 0 (0, 0) (0, 0) 1 false (1, 1); mkIMLabel None 0 (0, 0) (0, 0) 1 false (1, o1)]
    [mkIMMat 1 1 0 (1, 0) 1 0 3 1] [] true.
Definition ex_wire (o1 : R) : pm_prob (F:=R) := mkPMProb (ex_wire_P o1) 0 [] [] false.

Lemma ex_wire_energy o1 x y : uE (pm_static RA (ex_wire o1) 0 x y) = 1000000 * 1000000 * o1 / 2.
Proof.
  pose proof (pm_static_energy_wire (ex_wire o1) 0 x y) as H. cbv zeta in H.
  rewrite H; [|reflexivity|cbn; lia]. clear H.
  assert (HB : im_B RA (ex_wire_P o1) (pm_elem RA (ex_wire o1) 0) = ((0, 0), (0, 0))).
  { unfold im_B, ex_wire, ex_wire_P, pm_elem, im_da, im_geom, geom, im_nd, cadd, csub, cdivr, cmuld, cofd. cbn. ra_simpl. f_equal; f_equal; field. }
  destruct (pm_static_B (ex_wire o1) 0 x y) as [E1 E2]. cbn [pm_P ex_wire] in E1, E2. rewrite HB in E1, E2. cbn [fst snd] in E1, E2.
  rewrite E1, E2. cbn [fst snd]. rewrite pm_static_Js_free by reflexivity.
  unfold im_do_energy, im_do_energy_intended. cbn. ra_simpl. field.
Qed.

Lemma wire_energy_reads_another_label :
  exists (Q Q' : pm_prob (F:=R)) (k : nat) (x y : R),
    pm_wirefix Q = false /\ pm_wirefix Q' = false /\
    im_lbl (pm_elem RA Q k) = 0%nat /\ im_lbl (pm_elem RA Q' k) = 0%nat /\
    nth 0 (im_labels (pm_P Q)) (im_dlabel RA) = nth 0 (im_labels (pm_P Q')) (im_dlabel RA) /\
    im_nodes (pm_P Q) = im_nodes (pm_P Q') /\ im_elems (pm_P Q) = im_elems (pm_P Q') /\ im_mats (pm_P Q) = im_mats (pm_P Q') /\
    uE (pm_static RA Q k x y) <> uE (pm_static RA Q' k x y).
Proof.
  exists (ex_wire 1), (ex_wire 2), 0%nat, (1 / 4), (1 / 4). repeat split; try reflexivity.
  rewrite !ex_wire_energy. lra.
Qed.

(* ---------------------------------------------------------------------------------------------- *)
(* 4. electrostatics and heat flow: the exterior-region factor at the point                         *)
(* ---------------------------------------------------------------------------------------------- *)
Lemma pp_aecf_pt_R axi ext Zo Ro Ri (c : R * R) x y :
  pp_aecf_pt RA axi ext Zo Ro Ri c x y =
  if axi && ext then
    if Reqb (x * x + (y - Zo) * (y - Zo)) 0 then (fst c * fst c + (snd c - Zo) * (snd c - Zo)) / (Ro * Ri)
    else (x * x + (y - Zo) * (y - Zo)) / (Ro * Ri)
  else 1.
Proof.
  unfold pp_aecf_pt. destruct axi, ext; cbn [negb andb]; try reflexivity.
  cbv zeta. ra_simpl.
  set (z := csub RA (dplusc RA x (ci_times RA y)) (ci_times RA Zo)).
  assert (Hz : cabsf RA z * cabsf RA z = x * x + (y - Zo) * (y - Zo)).
  { rewrite cabsf_sq. unfold z, csub, dplusc, ci_times. cbn [fst snd]. ra_simpl. ring. }
  destruct (Reqb (cabsf RA z) 0) eqn:E1; [apply Reqb_true in E1|apply Reqb_false in E1].
  - rewrite <- Hz, E1. replace (0 * 0) with 0 by ring.
    destruct (Reqb 0 0) eqn:E2; [|apply Reqb_false in E2; congruence].
    rewrite pp_aecf_R. reflexivity.
  - destruct (Reqb (x * x + (y - Zo) * (y - Zo)) 0) eqn:E2; [apply Reqb_true in E2|].
    + exfalso. rewrite <- Hz in E2. apply E1. nra.
    + rewrite Hz. reflexivity.
Qed.

Section PointE.
  Variable P : ie_prob (F:=R).
  Variable k : nat.
  Variables x y : R.
  Let el := nth k (ie_elems P) ie_delem.
  Let r := pe_point RA P k x y.
  Let ap := ie_aecf_pt RA P el x y.
  Let ac := ie_aecf RA P el.
  Let gE := ie_gradE RA P el.
  Let V := nth 0 r 0. Let Dx := nth 1 r 0. Let Dy := nth 2 r 0. Let Ex := nth 3 r 0. Let Ey := nth 4 r 0.
  Let ex := nth 5 r 0. Let ey := nth 6 r 0. Let nrg := nth 7 r 0.

  Lemma pe_point_V :
    V = interp_r RA (ie_shape RA P el) (ie_V (ie_nd RA P el 0)) (ie_V (ie_nd RA P el 1)) (ie_V (ie_nd RA P el 2)) x y.
  Proof. unfold V, r, pe_point. fold el. destruct (ie_mat RA P el). reflexivity. Qed.

  (* the returned permittivity is the material's divided by the factor at the POINT; D is the element's (factor at the CENTROID) *)
  Lemma pe_point_material :
    ex = fst (ie_mat RA P el) / ap /\ ey = snd (ie_mat RA P el) / ap /\ (Dx, Dy) = ie_D RA P el.
  Proof.
    unfold ex, ey, Dx, Dy, r, pe_point. fold el. fold ap. destruct (ie_mat RA P el) as [e1 e2] eqn:Em.
    cbn [nth fst snd]. unfold cdivr, dplusc, ci_times. cbn [fst snd]. ra_simpl.
    repeat split; try (f_equal; ring). destruct (ie_D RA P el); reflexivity.
  Qed.

  (* the D - E relation of the returned values: D = eo e E, nrg = D.E/2 *)
  Lemma pe_point_DE : ex * ie_eo P <> 0 -> ey * ie_eo P <> 0 ->
    Dx = ie_eo P * ex * Ex /\ Dy = ie_eo P * ey * Ey /\ nrg = (Dx * Ex + Dy * Ey) / 2.
  Proof.
    unfold ex, ey, Dx, Dy, Ex, Ey, nrg, r, pe_point. fold el. fold ap. destruct (ie_mat RA P el) as [e1 e2] eqn:Em.
    cbn [nth fst snd]. unfold cdivr, dplusc, ci_times. cbn [fst snd]. ra_simpl.
    set (q1 := (e1 + 0 * e2) / ap). set (q2 := 1 * e2 / ap). intros H1 H2.
    assert (Q1 : q1 <> 0) by (intro E; apply H1; rewrite E; ring).
    assert (Q2 : q2 <> 0) by (intro E; apply H2; rewrite E; ring).
    assert (Q3 : ie_eo P <> 0) by (intro E; apply H1; rewrite E; ring).
    repeat split; field; auto.
  Qed.

  (* the returned E is -grad V scaled by AECF(point)/AECF(centroid) *)
  Lemma pe_point_E_scaling :
    fst (ie_mat RA P el) <> 0 -> snd (ie_mat RA P el) <> 0 -> ie_eo P <> 0 -> ap <> 0 -> ac <> 0 ->
    Ex = fst gE * (ap / ac) /\ Ey = snd gE * (ap / ac).
  Proof.
    unfold Ex, Ey, r, pe_point, gE. fold el. fold ap. unfold ie_D. fold ac.
    destruct (ie_mat RA P el) as [e1 e2] eqn:Em. cbn [fst snd].
    destruct (ie_gradE RA P el) as [g1 g2]. cbn [nth fst snd]. unfold cdivr, dmulc, dplusc, cmuld, ci_times. cbn [fst snd]. ra_simpl.
    intros H1 H2 H3 H4 H5. split; field; repeat split; assumption.
  Qed.
End PointE.

(* in an exterior region the returned E is not -grad V: a one-element witness *)
Definition ex_ext_P : ie_prob (F:=R) :=
  mkIEProb true 1 1 0 1 1 1 [mkIENode 1 0 0 (-2); mkIENode 2 0 1 (-2); mkIENode 1 1 0 (-2)] [mkIEElem (0, 1, 2)%nat 0 0] [true] [(1, 1)].

Lemma pe_point_E_exterior_not_gradient :
  exists (P : ie_prob (F:=R)) k x y, nth 3 (pe_point RA P k x y) 0 <> fst (ie_gradE RA P (nth k (ie_elems P) ie_delem)).
Proof.
  exists ex_ext_P, 0%nat, 1, 0.
  destruct (pe_point_E_scaling ex_ext_P 0 1 0) as [E1 _]; try (cbn; lra).
  - unfold ie_aecf_pt. rewrite pp_aecf_pt_R. cbn. destruct (Reqb _ 0) eqn:E; [apply Reqb_true in E; lra|]. lra.
  - unfold ie_aecf, ie_ctr, pp_ctr. rewrite pp_aecf_R. cbn. unfold cadd, czero. cbn. ra_simpl. lra.
  - rewrite E1.
    assert (Hap : ie_aecf_pt RA ex_ext_P (nth 0 (ie_elems ex_ext_P) ie_delem) 1 0 = 1).
    { unfold ie_aecf_pt. rewrite pp_aecf_pt_R. cbn. destruct (Reqb _ 0) eqn:E; [apply Reqb_true in E; lra|]. lra. }
    assert (Hac : ie_aecf RA ex_ext_P (nth 0 (ie_elems ex_ext_P) ie_delem) = 17 / 9).
    { unfold ie_aecf, ie_ctr, pp_ctr. rewrite pp_aecf_R. cbn. unfold cadd, czero. cbn. ra_simpl. lra. }
    rewrite Hap, Hac.
    assert (Hg : fst (ie_gradE RA ex_ext_P (nth 0 (ie_elems ex_ext_P) ie_delem)) = -1).
    { unfold ie_gradE, pp_grad, ie_geom, geom, csub, cdivr, dmulc, dplusc, ci_times, czero. cbn. ra_simpl. lra. }
    rewrite Hg. lra.
Qed.

Section PointH.
  Variable P : ih_prob (F:=R).
  Variable k : nat.
  Variables x y : R.
  Let V := ih_view RA P.
  Let el := nth k (ih_elems P) ie_delem.
  Let r := ph_point RA P k x y.
  Let m := nth (ie_blk el) (ih_mats P) (ih_dmat RA).
  Let ap := ie_aecf_pt RA V el x y.
  Let T := nth 0 r 0. Let Fx := nth 1 r 0. Let Fy := nth 2 r 0. Let Gx := nth 3 r 0. Let Gy := nth 4 r 0.
  Let Kx := nth 5 r 0. Let Ky := nth 6 r 0.

  (* T is the linear interpolant; K is the material's conductivity AT THAT TEMPERATURE divided by the factor at the point;
     F is the element's flux; F = K G componentwise *)
  Lemma ph_point_values :
    T = interp_r RA (ie_shape RA V el) (ih_T RA P el 0) (ih_T RA P el 1) (ih_T RA P el 2) x y /\
    Kx = fst (getk RA (ih_kx m) (ih_ky m) (ih_tk m) T) / ap /\ Ky = snd (getk RA (ih_kx m) (ih_ky m) (ih_tk m) T) / ap /\
    (Fx, Fy) = ih_D RA P el /\
    (Kx <> 0 -> Fx = Kx * Gx) /\ (Ky <> 0 -> Fy = Ky * Gy).
  Proof.
    unfold T, Kx, Ky, Fx, Fy, Gx, Gy, r, ph_point. fold V. fold el. fold m. fold ap.
    cbn [nth]. unfold cdivr. cbn [fst snd]. ra_simpl.
    destruct (ih_D RA P el) as [f1 f2]. cbn [fst snd].
    set (K1 := fst _ / ap). set (K2 := snd _ / ap).
    repeat split; try reflexivity; intros H; field; exact H.
  Qed.
End PointH.
