(* IntegralsM.v — executable model of the magnetics post-processor's block integrals and circuit
   flux linkage, for MAGNETOSTATIC problems (Frequency = 0) with LINEAR materials (BHpoints = 0),
   lamination types 0..2, planar and axisymmetric:
     FPProc::GetElementB      (cfemm/fpproc/fpproc.cpp:3071-3183, without the incremental part)
     FPProc::Ctr / ElmArea / AECF                      (fpproc.cpp:3527-3554, 5387-5404)
     FPProc::GetJA            (fpproc.cpp:3596-3679, Frequency = 0)
     FPProc::PlnInt / AxiInt  (fpproc.cpp:3681-3713)
     CMMaterialProp::DoEnergy(double,double), linear branch (cfemm/libfemm/CMaterialProp.cpp:600-640)
     FPProc::BlockIntegral    (fpproc.cpp:3743-4193): types 0 (A.J), 1 (A), 2 (stored energy, incl. the
         linear permanent-magnet correction), 4 (resistive losses), 5 (area), 7 (total current),
         8 / 9 (B integrals), 10 (volume), 17 (coenergy), 24 (moment of inertia), 11 / 12 / 15
         (steady-state Lorentz force and torque)
     FPProc::GetFluxLinkage   (fpproc.cpp:5258-5302, the branch for a circuit that carries current)
   statement by statement, every CComplex operator written out (femmcomplex.cpp), same operation
   order.  NOT modelled: Frequency != 0, BH curves, wire-type laminations (LamType > 2: local
   energy u J^2), weighted-stress-tensor force / torque (18..23), incremental problems, type 25.
   exp(I*PI*magdir/180) (libm) enters through the supplied per-element value H_c*exp(..).
   No proofs in this file. *)
From Coq Require Import ZArith List Bool Arith.
From XF Require Import Arith Sparse AsmE Integrals IntegralsE.
Import ListNotations.

Section IntegralsM.
  Context {F : Type} (A : Arith F).
  Local Notation "x +. y" := (aadd A x y) (at level 50, left associativity).
  Local Notation "x -. y" := (asub A x y) (at level 50, left associativity).
  Local Notation "x *. y" := (amul A x y) (at level 40, left associativity).
  Local Notation "x /. y" := (adiv A x y) (at level 40, left associativity).
  Local Notation zero := (azero A).
  Local Notation one := (aone A).
  Local Notation "'#' z" := (aofZ A z) (at level 9).
  Local Notation cx := (F * F)%type.
  Local Notation "x +c y" := (cadd A x y) (at level 50, left associativity).
  Local Notation "x -c y" := (csub A x y) (at level 50, left associativity).
  Local Notation "x *c y" := (cmul A x y) (at level 40, left associativity).
  Local Notation "d *.c z" := (dmulc A d z) (at level 40, left associativity).   (* double * CComplex *)
  Local Notation "z *c. d" := (cmuld A z d) (at level 40, left associativity).   (* CComplex * double *)
  Local Notation "z /c. d" := (cdivr A z d) (at level 40, left associativity).   (* CComplex / double *)

  (* CMMeshNode: x y A *)
  Record im_node := mkIMNode { im_x : F; im_y : F; im_A : cx }.
  (* CPostProcMElement: p[3], lbl, blk; im_hc = blockproplist[blk].H_c*exp(I*PI*magdir/180.) (libm) *)
  Record im_elem := mkIMElem { im_p : nat * nat * nat; im_lbl : nat; im_blk : nat; im_hc : cx }.
  (* CMBlockLabel as the post-processor holds it after OpenDocument *)
  Record im_label := mkIMLabel {
    im_circ : option nat;          (* InCircuit >= 0 *)
    im_case : nat;                 (* Case: 0 = voltage gradient applies (solid), 1 = current density *)
    im_dvolts : cx; im_lJ : cx;    (* dVolts, J *)
    im_fill : F;                   (* FillFactor *)
    im_ext : bool;                 (* IsExternal *)
    im_o : cx }.                   (* o: bulk conductivity of the region *)
  (* CMMaterialProp (linear) *)
  Record im_mat := mkIMMat {
    im_mux : F; im_muy : F; im_Hc : F; im_J : cx; im_cduct : F; im_lamd : F;
    im_lamtype : nat; im_lamfill : F }.
  Record im_prob := mkIMProb {
    im_axi : bool; im_lc : F; im_depth_file : F; im_extZo : F; im_extRo : F; im_extRi : F;
    im_muo : F;                    (* #define muo 1.2566370614359173e-6 *)
    im_nodes : list im_node; im_elems : list im_elem; im_labels : list im_label;
    im_mats : list im_mat;
    im_amps : list cx;             (* circproplist[k].Amps *)
    im_lamfix : bool }.            (* which text CMMaterialProp::DoEnergy has for LamType 1/2 (read from the source):
                                      false = as shipped (b1 in the hard-direction term), true = b2 *)

  Definition im_dnode := mkIMNode zero zero (zero, zero).
  Definition im_dlabel := mkIMLabel None 0 (zero, zero) (zero, zero) zero false (zero, zero).
  Definition im_dmat := mkIMMat zero zero zero (zero, zero) zero zero 0 zero.
  Definition im_nd (P : im_prob) (el : im_elem) (j : nat) : im_node :=
    nth (tri_get (im_p el) j) (im_nodes P) im_dnode.
  Definition im_label_of (P : im_prob) (el : im_elem) : im_label := nth (im_lbl el) (im_labels P) im_dlabel.
  Definition im_mat_of (P : im_prob) (el : im_elem) : im_mat := nth (im_blk el) (im_mats P) im_dmat.

  Definition cofd (d : F) : cx := (d, zero).          (* CComplex = double *)

  (* OpenDocument: if(Depth==-1) Depth=1; else Depth*=LengthConv[LengthUnits]; *)
  Definition im_depth (P : im_prob) : F :=
    if aeqb A (im_depth_file P) (aneg A one) then one else im_depth_file P *. im_lc P.

  Definition im_geom (P : im_prob) (el : im_elem) : egeom :=
    geom A (im_x (im_nd P el 0)) (im_y (im_nd P el 0)) (im_x (im_nd P el 1)) (im_y (im_nd P el 1))
           (im_x (im_nd P el 2)) (im_y (im_nd P el 2)).
  Definition im_da (P : im_prob) (el : im_elem) : F :=
    let g := im_geom P el in
    vget A (gp g) 0 *. vget A (gq g) 1 -. vget A (gp g) 1 *. vget A (gq g) 0.

  (* FPProc::Ctr (same statements as PostProcessor::Ctr) *)
  Definition im_ctr (P : im_prob) (el : im_elem) : cx :=
    pp_ctr A (im_x (im_nd P el 0)) (im_y (im_nd P el 0)) (im_x (im_nd P el 1)) (im_y (im_nd P el 1))
             (im_x (im_nd P el 2)) (im_y (im_nd P el 2)).

  (* FPProc::AECF : r=abs(ctr-I*extZo); return (r*r*extRi)/(extRo*extRo*extRo) *)
  Definition im_aecf (P : im_prob) (el : im_elem) : F :=
    if negb (im_axi P) then one
    else if negb (im_ext (im_label_of P el)) then one
    else let r := cabsf A (csub A (im_ctr P el) (ci_times A (im_extZo P))) in
         (r *. r *. im_extRi P) /. (im_extRo P *. im_extRo P *. im_extRo P).

  (* ---- GetElementB ---- *)
  (* mid-side value between corner values va (radius Ra) and vb (radius Rb):
     if ((Ra<1.e-06) && (Rb<1.e-06)) (va+vb)/2.; else (Rb*(3.*va + vb) + Ra*(va + 3.*vb))/(4.*(Ra + Rb)) *)
  Definition im_mid (Ra Rb : F) (va vb : cx) : cx :=
    if altb A Ra (adec A 1 (-6)) && altb A Rb (adec A 1 (-6)) then (va +c vb) /c. #2
    else (Rb *.c (#3 *.c va +c vb) +c Ra *.c (va +c #3 *.c vb)) /c. (#4 *. (Ra +. Rb)).

  Definition im_B (P : im_prob) (el : im_elem) : cx * cx :=
    let g := im_geom P el in
    let b := fun i => vget A (gp g) i in
    let c := fun i => vget A (gq g) i in
    let da := im_da P el in
    let Aj := fun i => im_A (im_nd P el i) in
    if negb (im_axi P) then
      (* B1 += A_i*c[i]/(da*LengthConv);  B2 -= A_i*b[i]/(da*LengthConv) *)
      let d := da *. im_lc P in
      (cofd zero +c Aj 0 *c. c 0 /c. d +c Aj 1 *c. c 1 /c. d +c Aj 2 *c. c 2 /c. d,
       cofd zero -c Aj 0 *c. b 0 /c. d -c Aj 1 *c. b 1 /c. d -c Aj 2 *c. b 2 /c. d)
    else
      let R := fun i => im_x (im_nd P el i) in
      let r := zero +. R 0 /. #3 +. R 1 /. #3 +. R 2 /. #3 in
      let v0 := Aj 0 in let v2 := Aj 1 in let v4 := Aj 2 in
      let v1 := im_mid (R 0) (R 1) v0 v2 in
      let v3 := im_mid (R 1) (R 2) v2 v4 in
      let v5 := im_mid (R 2) (R 0) v4 v0 in
      (* dp=(-v[0] + v[2] + 4.*v[3] - 4.*v[5])/3.;  dq=(-v[0] - 4.*v[1] + 4.*v[3] + v[4])/3. *)
      let dp := (cneg A v0 +c v2 +c #4 *.c v3 -c #4 *.c v5) /c. #3 in
      let dq := (cneg A v0 -c #4 *.c v1 +c #4 *.c v3 +c v4) /c. #3 in
      (* da*=2.*PI*r*LengthConv*LengthConv *)
      let da := da *. (#2 *. api A *. r *. im_lc P *. im_lc P) in
      (cneg A (c 1 *.c dp +c c 2 *.c dq) /c. da, (b 1 *.c dp +c b 2 *.c dq) /c. da).

  (* ---- GetJA (Frequency = 0): (Javg, J[0..2], A[0..2]) ---- *)
  Definition im_JA (P : im_prob) (el : im_elem) : cx * list cx * list cx :=
    let lab := im_label_of P el in
    let mat := im_mat_of P el in
    let lc := im_lc P in
    let Av := fun i =>
      if negb (im_axi P) then im_A (im_nd P el i)
      else
        let rn := im_x (im_nd P el i) *. lc in
        if altb A (aabs A (rn /. lc)) (adec A 1 (-6)) then cofd zero
        (* GetJA is a const member: meshnode[..].A is a const CComplex, so the non-const member operator/(double)
           is not viable; the double is converted and the free operator/(const CComplex&, const CComplex&)
           (reciprocal, then product) is what runs *)
        else cdiv A (im_A (im_nd P el i)) (cofd (#2 *. api A *. rn)) in
    let r := if im_axi P then fst (im_ctr P el) *. lc else zero in
    let J0 := im_J mat in
    let c := im_cduct mat in
    let c := if aneb A (im_lamd mat) zero && Nat.eqb (im_lamtype mat) 0 then zero else c in
    let c := if altb A zero (im_fill lab) then zero else c in
    let '(Jn, Javg) :=
      match im_circ lab with
      | None => (fun _ : nat => J0, J0)
      | Some _ =>
          if Nat.eqb (im_case lab) 0 then
            if negb (im_axi P) then
              (fun _ : nat => J0 -c c *.c im_dvolts lab, J0 -c c *.c im_dvolts lab)
            else
              (fun i : nat =>
                 let rn := im_x (im_nd P el i) in
                 if altb A (aabs A (rn /. lc)) (adec A 1 (-6)) then J0 -c c *.c im_dvolts lab /c. r
                 else J0 -c c *.c im_dvolts lab /c. (rn *. lc),
               J0 -c c *.c im_dvolts lab /c. r)
          else (fun _ : nat => J0 +c im_lJ lab, J0 +c im_lJ lab)
      end in
    (* for(i=0;i<3;i++) J[i]*=1.e06;  return (Javg*1.e06); *)
    (Javg *c. adec A 1 6, [Jn 0 *c. adec A 1 6; Jn 1 *c. adec A 1 6; Jn 2 *c. adec A 1 6], [Av 0; Av 1; Av 2]).

  Definition cget (l : list cx) (i : nat) : cx := nth i l (zero, zero).

  (* PlnInt(a,u,v): z[0]=2.*u[0]+u[1]+u[2]; ...; x = sum v[i]*z[i]; return a*x/12. *)
  Definition pln_int (a : F) (u v : list cx) : cx :=
    let z0 := #2 *.c cget u 0 +c cget u 1 +c cget u 2 in
    let z1 := cget u 0 +c #2 *.c cget u 1 +c cget u 2 in
    let z2 := cget u 0 +c cget u 1 +c #2 *.c cget u 2 in
    let x := cofd zero +c cget v 0 *c z0 +c cget v 1 *c z1 +c cget v 2 *c z2 in
    a *.c x /c. #12.

  (* AxiInt(a,u,v,r): M[i][j] real weights stored as CComplex; z[i]=M[i][0]*u[0]+M[i][1]*u[1]+M[i][2]*u[2];
     x = sum v[i]*z[i]; return PI*a*x/30. *)
  Definition axi_int (a : F) (u v : list cx) (r : list F) : cx :=
    let r0 := vget A r 0 in let r1 := vget A r 1 in let r2 := vget A r 2 in
    let M00 := cofd (#6 *. r0 +. #2 *. r1 +. #2 *. r2) in
    let M01 := cofd (#2 *. r0 +. #2 *. r1 +. #1 *. r2) in
    let M02 := cofd (#2 *. r0 +. #1 *. r1 +. #2 *. r2) in
    let M11 := cofd (#2 *. r0 +. #6 *. r1 +. #2 *. r2) in
    let M12 := cofd (#1 *. r0 +. #2 *. r1 +. #2 *. r2) in
    let M22 := cofd (#2 *. r0 +. #2 *. r1 +. #6 *. r2) in
    let z0 := M00 *c cget u 0 +c M01 *c cget u 1 +c M02 *c cget u 2 in
    let z1 := M01 *c cget u 0 +c M11 *c cget u 1 +c M12 *c cget u 2 in
    let z2 := M02 *c cget u 0 +c M12 *c cget u 1 +c M22 *c cget u 2 in
    let x := cofd zero +c cget v 0 *c z0 +c cget v 1 *c z1 +c cget v 2 *c z2 in
    (api A *. a) *.c x /c. #30.

  (* CMMaterialProp::DoEnergy(b1,b2), BHpoints==0 — as the source has it (note the b1 in h2 for LamType 1 and in both for LamType 2) *)
  Definition im_do_energy_asis (m : im_mat) (muo b1 b2 : F) : F :=
    let t := im_lamfill m in
    let lt := im_lamtype m in
    let '(h1, h2) :=
      match lt with
      | 0 => (b1 /. ((one +. t *. (im_mux m -. one)) *. muo), b2 /. ((one +. t *. (im_muy m -. one)) *. muo))
      | 1 => (b1 /. ((one +. t *. (im_mux m -. one)) *. muo), b1 *. (t /. (im_muy m *. muo) +. (one -. t) /. muo))
      | 2 => (b1 *. (t /. (im_mux m *. muo) +. (one -. t) /. muo), b1 /. ((one +. t *. (im_muy m -. one)) *. muo))
      | _ => (b1 /. muo, b2 /. muo)
      end in
    (h1 *. b1 +. h2 *. b2) /. #2.

  (* the same with the flux density component each direction is meant to see *)
  Definition im_do_energy_intended (m : im_mat) (muo b1 b2 : F) : F :=
    let t := im_lamfill m in
    let lt := im_lamtype m in
    let '(h1, h2) :=
      match lt with
      | 0 => (b1 /. ((one +. t *. (im_mux m -. one)) *. muo), b2 /. ((one +. t *. (im_muy m -. one)) *. muo))
      | 1 => (b1 /. ((one +. t *. (im_mux m -. one)) *. muo), b2 *. (t /. (im_muy m *. muo) +. (one -. t) /. muo))
      | 2 => (b1 *. (t /. (im_mux m *. muo) +. (one -. t) /. muo), b2 /. ((one +. t *. (im_muy m -. one)) *. muo))
      | _ => (b1 /. muo, b2 /. muo)
      end in
    (h1 *. b1 +. h2 *. b2) /. #2.

  Definition im_do_energy (fixed : bool) (m : im_mat) (muo b1 b2 : F) : F :=
    if fixed then im_do_energy_intended m muo b1 b2 else im_do_energy_asis m muo b1 b2.

  (* a=ElmArea(i)*pow(LengthConv,2.);  r[k]=x_k*LengthConv;  R=(r[0]+r[1]+r[2])/3. *)
  Definition im_area (P : im_prob) (el : im_elem) : F := ga (im_geom P el) *. (im_lc P *. im_lc P).
  Definition im_r (P : im_prob) (el : im_elem) : list F :=
    [im_x (im_nd P el 0) *. im_lc P; im_x (im_nd P el 1) *. im_lc P; im_x (im_nd P el 2) *. im_lc P].
  Definition im_R (P : im_prob) (el : im_elem) : F :=
    let r := im_r P el in (vget A r 0 +. vget A r 1 +. vget A r 2) /. #3.
  (* if(AXISYMMETRIC) a*=(2.*PI*R); else a*=Depth; *)
  Definition im_vol (P : im_prob) (el : im_elem) : F :=
    if im_axi P then im_area P el *. (#2 *. api A *. im_R P el) else im_area P el *. im_depth P.

  Definition cone : cx := cofd one.

  (* the stored-energy term (case 2, Frequency = 0, LamType <= 2) *)
  Definition im_energy_term (P : im_prob) (el : im_elem) (B : cx * cx) : cx :=
    let a := im_vol P el in
    let '(B1, B2) := B in
    let mat := im_mat_of P el in
    let muo := im_muo P in
    let y :=
      if aneb A (im_Hc mat) zero then
        (* mu1=mu_x; mu2=mu_y; H1=B1/(mu1*muo); H2=B2/(mu2*muo); H1=H1-Re(Hc); H2=H2-Im(Hc);
           y = a*0.5*muo*(mu1.re*H1.re*H1.re + mu2.re*H2.re*H2.re) *)
        let mu1 := cofd (im_mux mat) in let mu2 := cofd (im_muy mat) in
        let H1 := cdiv A B1 (mu1 *c. muo) in
        let H2 := cdiv A B2 (mu2 *c. muo) in
        let H1 := (fst H1 -. fst (im_hc el), snd H1) in
        let H2 := (fst H2 -. snd (im_hc el), snd H2) in
        cofd (a *. adec A 5 (-1) *. muo *. (fst mu1 *. fst H1 *. fst H1 +. fst mu2 *. fst H2 *. fst H2))
      else cofd (a *. im_do_energy (im_lamfix P) mat muo (fst B1) (fst B2)) in
    (* y*=AECF(i) *)
    y *c. im_aecf P el.

  Definition im_coenergy_term (P : im_prob) (el : im_elem) (B : cx * cx) : cx :=
    let '(B1, B2) := B in
    cofd (im_vol P el *. im_do_energy (im_lamfix P) (im_mat_of P el) (im_muo P) (fst B1) (fst B2)) *c. im_aecf P el.

  (* ---- 1./o : operator/(double, const CComplex&) ---- *)
  Definition dinvc (x : F) (z : cx) : cx :=
    let y := cinv A z in (fst y *. x, snd y *. x).

  (* sig=(Cduct!=0) ? 1.e06/Re(1./o) : 0;  if((Lam_d!=0) && (LamType==0)) sig=0; *)
  Definition im_sig (P : im_prob) (el : im_elem) : F :=
    let mat := im_mat_of P el in
    let s := if aneb A (im_cduct mat) zero then adec A 1 6 /. fst (dinvc one (im_o (im_label_of P el))) else zero in
    if aneb A (im_lamd mat) zero && Nat.eqb (im_lamtype mat) 0 then zero else s.

  (* one pass of the element loop for a selected element *)
  Definition im_term (P : im_prob) (t : nat) (el : im_elem) (B : cx * cx) (z : cx) : cx :=
    let '(J, Jn, Av) := im_JA P el in
    let a := im_area P el in
    let r := im_r P el in
    let R := im_R P el in
    let U := [cone; cone; cone] in
    match t with
    | 0 =>   (* V[k]=Jn[k].Conj(); y = PlnInt(a,A,V)*Depth | AxiInt(a,A,V,r) *)
        let V := map (cconj A) Jn in
        z +c (if negb (im_axi P) then pln_int a Av V *c. im_depth P else axi_int a Av V r)
    | 1 =>   (* AxiInt(a,U,A,r) | sum a*Depth*A[k]/3. *)
        z +c (if im_axi P then axi_int a U Av r
              else cofd zero +c (a *. im_depth P) *.c cget Av 0 /c. #3 +c (a *. im_depth P) *.c cget Av 1 /c. #3
                             +c (a *. im_depth P) *.c cget Av 2 /c. #3)
    | 2 => z +c im_energy_term P el B
    | 4 =>   (* resistive losses *)
        let sig := im_sig P el in
        if aneb A sig zero then
          z +c (if negb (im_axi P) then pln_int a Jn (map (fun j => cconj A j /c. sig) Jn) *c. im_depth P
                else ((#2 *. api A *. R *. a) *.c J) *c cconj A J /c. sig)
        else z
    | 5 => caddd A z a
    | 7 => z +c a *.c J
    | 8 => z +c im_vol P el *.c fst B
    | 9 => z +c im_vol P el *.c snd B
    | 10 => caddd A z (im_vol P el)
    | 11 =>  (* y= -(B2.re*J.re + B2.im*J.im); if (AXISYMMETRIC) y=0; else y*=Depth; z+=(a*y) *)
        let y := cofd (aneg A (fst (snd B) *. fst J +. snd (snd B) *. snd J)) in
        let y := if im_axi P then cofd zero else y *c. im_depth P in
        z +c a *.c y
    | 12 =>  (* V[k]=Re(B1*Jn[k].Conj()); y = PlnInt(a,U,V)*Depth | AxiInt(-a,U,V,r) *)
        let V := map (fun j => cofd (fst (fst B *c cconj A j))) Jn in
        z +c (if negb (im_axi P) then pln_int a U V *c. im_depth P else axi_int (aneg A a) U V r)
    | 15 =>  (* planar: c=Ctr(i)*LengthConv; y= c.im*(B2.re*J.re + B2.im*J.im) + c.re*(B1.re*J.re + B1.im*J.im); z+=(a*y*Depth) *)
        if negb (im_axi P) then
          let c := im_ctr P el *c. im_lc P in
          let y := snd c *. (fst (snd B) *. fst J +. snd (snd B) *. snd J) +. fst c *. (fst (fst B) *. fst J +. snd (fst B) *. snd J) in
          z +c (a *.c cofd y) *c. im_depth P
        else z
    | 17 => z +c im_coenergy_term P el B
    | 24 =>  (* moment of inertia *)
        if im_axi P then
          let V := map cofd r in z +c axi_int a V V r
        else
          let u := fun k => im_x (im_nd P el k) *. im_lc P in
          let v := fun k => im_y (im_nd P el k) *. im_lc P in
          let y := u 0 *. u 0 +. u 1 *. u 1 +. u 2 *. u 2 in
          let y := y +. (u 0 *. u 1 +. u 0 *. u 2 +. u 1 *. u 2) in
          let y := y +. (v 0 *. v 0 +. v 1 *. v 1 +. v 2 *. v 2) in
          let y := y +. (v 0 *. v 1 +. v 0 *. v 2 +. v 1 *. v 2) in
          z +c cofd y *c. (a *. im_depth P /. #6)       (* U, V hold real values: the CComplex products are real products *)
    | _ => z
    end.

  (* OpenDocument stores B1, B2 per element; BlockIntegral reads them back *)
  Definition im_Bs (P : im_prob) : list (cx * cx) := map (im_B P) (im_elems P).

  Definition im_step (P : im_prob) (sel : list bool) (t : nat) (z : cx) (eB : im_elem * (cx * cx)) : cx :=
    let '(el, B) := eB in
    if selected sel (im_lbl el) then im_term P t el B z else z.

  Definition im_loop (P : im_prob) (Bs : list (cx * cx)) (sel : list bool) (t : nat) : cx :=
    fold_left (im_step P sel t) (combine (im_elems P) Bs) (cofd zero).

  (* inttype 6: total losses = BlockIntegral(3) + BlockIntegral(4); type 3 is zero at Frequency 0 *)
  Definition im_block_integral (P : im_prob) (Bs : list (cx * cx)) (sel : list bool) (t : nat) : cx :=
    if Nat.eqb t 6 then cofd zero +c im_loop P Bs sel 4 else im_loop P Bs sel t.

  (* GetFluxLinkage(circnum), circuit carrying current, Frequency = 0 *)
  Definition im_flux_step (P : im_prob) (circ : nat) (FL : cx) (el : im_elem) : cx :=
    match im_circ (im_label_of P el) with
    | Some c =>
        if Nat.eqb c circ then
          let '(J, Jn, Av) := im_JA P el in
          let a := ga (im_geom P el) *. im_lc P *. im_lc P in
          let o := im_o (im_label_of P el) in
          (* if(Im(o)!=0) { u=Im(o); A[k]+=u*J[k]; } *)
          let Av := if aneb A (snd o) zero then map (fun aj => fst aj +c snd o *.c snd aj) (combine Av Jn) else Av in
          let Jc := map (cconj A) Jn in
          FL +c (if negb (im_axi P) then pln_int a Av Jc *c. im_depth P else axi_int a Av Jc (im_r P el))
        else FL
    | None => FL
    end.

  Definition im_flux_linkage (P : im_prob) (circ : nat) : cx :=
    let FL := fold_left (im_flux_step P circ) (im_elems P) (cofd zero) in
    cdiv A FL (cconj A (nth circ (im_amps P) (zero, zero))).
End IntegralsM.
