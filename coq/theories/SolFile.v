(* SolFile.v — model of the [Solution] part of result files (.res / .anh / .ans): the hand-off from
   the solvers to the post-processors (property C14, last clause).  NO proofs here (SolFileProofs.v).

   What is modelled:
   * the writers  ESolver::WriteResults (esolver/esolver.cpp), HSolver::WriteResults
     (hsolver/hsolver.cpp), FSolver::WriteStatic2D (fsolver/static2d.cpp), FSolver::WriteHarmonic2D
     (fsolver/harmonic2d.cpp): after the copy of the problem file and the "[Solution]" tag a sequence
     of SECTIONS, each  fprintf(fp,"%i\n",count);  for(i<count) fprintf(fp,"<fmt>\n", fields...);
   * the readers  FPProc::OpenDocument (fpproc/fpproc.cpp: fscanf/fgets+sscanf per line, per mode),
     ElectrostaticsPostProcessor::parseSolution / HPProc::parseSolution (parseValue for the count,
     XMeshNode::fromStream / CHSElement::fromStream per getline'd line, operator>> on the file stream
     for the conductor lines).
   The schemas themselves (sections, fields, types, formats, scalings, checks) are NOT written by
   hand: gen/SolSchemas.v is regenerated from the sources on every check (tools/translate_solution.py).

   Level: tokens.  A line is the list of its already-lexed numbers; %.17g printing and strtod /
   operator>> lexing of a number are not modelled (the run-time check compares token texts).
   Two conversions printed without white space between them fuse into one unreadable token (TBad).
   The air-gap-element block that ends an .ans file (count; per element a name line, a parameter
   line and totalArcElements+1 quadrature-node lines) has its own printer / parser ([print_ages],
   [parse_ages]) and [print_ans] / [parse_ans] put sections and block together.
   Not modelled: the copy of the problem file before the tag (Schema.v's subject), reading past the
   end of the file, FPProc dropping air-gap elements without arc elements after reading them. *)
From Coq Require Import String Ascii List ZArith Bool QArith.
From XF Require Import Arith.
Import ListNotations.
Local Open Scope string_scope.

(* ---- schema data (independent of the number type) ------------------------------------------- *)
Inductive ftype := TInt | TDbl.                     (* %i | %.17g, %lf, >> double ; a complex is two TDbl *)
Inductive scale := SNone | SDiv (tab : string) | SMul (tab : string).   (* by table [tab] at the declared unit *)

(* one printed / consumed field: meaning (canonical name), type, scaling, "printed without a
   separator after the previous conversion", the C++ expression printed / lvalue assigned, the
   printf format / scanf conversion *)
Record field := mkF { f_name : string; f_ty : ftype; f_scale : scale; f_glued : bool;
                      f_expr : string; f_fmt : string }.

(* what a reader does with the number of converted items of a line:
   ChkNone       nothing;
   ChkCount n    sscnt = sscanf(...); if (sscnt != n) fail;
   ChkStale n l  sscanf(...) WITHOUT assignment; if (sscnt != n) fail  — sscnt still holds what the
                 previous assigned sscanf left ([l]; None: never assigned, indeterminate) *)
Inductive check := ChkNone | ChkCount (n : nat) | ChkStale (n : nat) (left : option nat).

(* ByLine: one fgets/getline per record, conversions on that line, the rest of the line is ignored;
   ByStream: operator>> on the file stream, token after token (a line with more tokens than
   conversions would shift every later record) *)
Inductive rmode := ByLine | ByStream.

Record section := mkS { s_name : string; s_count : string; s_mode : rmode; s_check : check;
                        s_fields : list field }.
Definition schema := list section.

Definition check_passes (c : check) (nfields : nat) : bool :=
  match c with
  | ChkNone => true
  | ChkCount n => Nat.eqb n nfields
  | ChkStale n l => match l with Some m => Nat.eqb n m | None => false end
  end.

(* the parameter of an air-gap element that counts its quadrature-node lines (minus one) *)
Definition arc_field : string := "age.arcelements".

(* ---- tokens, lines, solutions ------------------------------------------------------------------ *)
Section Model.
  Context {F : Type} (A : Arith F).

  (* TS: the text of a whole line (the name line of an air-gap element) *)
  Inductive tok := TI (z : Z) | TD (x : F) | TS (s : string) | TBad.
  Local Notation line := (list tok).
  (* the in-memory solution, seen through a schema: per section the list of records, each record the
     list of its field values in schema order *)
  Local Notation solution := (list (list line)).
  (* value of every unit table at the declared length unit *)
  Local Notation env := (list (string * F)).

  Fixpoint tabval (e : env) (t : string) : F :=
    match e with
    | [] => aone A
    | (k, v) :: r => if String.eqb t k then v else tabval r t
    end.
  Definition apply_scale (e : env) (s : scale) (x : F) : F :=
    match s with
    | SNone => x
    | SDiv t => adiv A x (tabval e t)
    | SMul t => amul A x (tabval e t)
    end.

  (* ---- the writer ---------------------------------------------------------------------------- *)
  Definition print_tok (e : env) (f : field) (v : tok) : tok :=
    match f_ty f, v with
    | TInt, TI z => TI z
    | TDbl, TD x => TD (apply_scale e (f_scale f) x)
    | _, _ => TBad
    end.
  (* tokens of one fprintf'ed line; [acc] holds the tokens emitted so far, latest first *)
  Fixpoint emit (e : env) (fs : list field) (vs : line) (acc : line) : line :=
    match fs, vs with
    | f :: fs', v :: vs' =>
        if f_glued f then emit e fs' vs' (match acc with _ :: a => TBad :: a | [] => [TBad] end)
        else emit e fs' vs' (print_tok e f v :: acc)
    | _, _ => rev acc
    end.
  Definition print_line (e : env) (fs : list field) (vs : line) : line := emit e fs vs [].
  Definition print_section (e : env) (s : section) (recs : list line) : list line :=
    [TI (Z.of_nat (length recs))] :: map (print_line e (s_fields s)) recs.
  Fixpoint print_solution (e : env) (ws : schema) (sol : solution) : list line :=
    match ws, sol with
    | w :: ws', recs :: sol' => print_section e w recs ++ print_solution e ws' sol'
    | _, _ => []
    end.

  (* ---- the reader ---------------------------------------------------------------------------- *)
  (* one conversion; None: the conversion fails or stops in the middle of the token *)
  Definition conv (e : env) (f : field) (t : tok) : option tok :=
    match f_ty f, t with
    | TInt, TI z => Some (TI z)
    | TDbl, TD x => Some (TD (apply_scale e (f_scale f) x))
    | TDbl, TI z => Some (TD (apply_scale e (f_scale f) (aofZ A z)))
    | _, _ => None
    end.
  (* [lenient]: the number of converted items is not tested (sscanf without a count check): a line that ends
     early is accepted and the remaining variables keep whatever they held — nothing arrives in them (TBad) *)
  Fixpoint parse_fields (e : env) (m : rmode) (lenient : bool) (rs : list field) (ts : line) : option line :=
    match rs with
    | [] => match m, ts with ByStream, _ :: _ => None | _, _ => Some [] end
    | f :: rs' =>
        match ts with
        | [] => if lenient then Some (map (fun _ => TBad) rs) else None
        | t :: ts' =>
            match conv e f t with
            | None => None
            | Some v => match parse_fields e m lenient rs' ts' with Some r => Some (v :: r) | None => None end
            end
        end
    end.
  Definition lenient_of (s : section) : bool :=
    match s_mode s, s_check s with ByLine, ChkNone => true | _, _ => false end.
  Definition parse_line (e : env) (s : section) (ts : line) : option line :=
    if check_passes (s_check s) (length (s_fields s)) then parse_fields e (s_mode s) (lenient_of s) (s_fields s) ts
    else None.
  Fixpoint parse_lines (e : env) (s : section) (ls : list line) : option (list line) :=
    match ls with
    | [] => Some []
    | l :: r => match parse_line e s l with
                | None => None
                | Some a => match parse_lines e s r with Some b => Some (a :: b) | None => None end
                end
    end.
  (* count line, then that many record lines; returns the records and the remaining lines *)
  Definition parse_section (e : env) (s : section) (ls : list line) : option (list line * list line) :=
    match ls with
    | [TI n] :: rest =>
        if (n <? 0)%Z then None
        else let k := Z.to_nat n in
             if Nat.ltb (length rest) k then None
             else match parse_lines e s (firstn k rest) with
                  | Some recs => Some (recs, skipn k rest)
                  | None => None
                  end
    | _ => None
    end.
  (* the sections of the reader schema in turn; returns what was read and the lines that follow *)
  Fixpoint parse_solution_k (e : env) (rs : schema) (ls : list line) : option (solution * list line) :=
    match rs with
    | [] => Some ([], ls)
    | s :: rs' =>
        match parse_section e s ls with
        | None => None
        | Some (recs, rest) =>
            match parse_solution_k e rs' rest with Some (t, tl) => Some (recs :: t, tl) | None => None end
        end
    end.
  (* whatever follows the last section of the reader schema is not read *)
  Definition parse_solution (e : env) (rs : schema) (ls : list line) : option solution :=
    match parse_solution_k e rs ls with Some (t, _) => Some t | None => None end.

  (* ---- what should arrive: the written value, as printed and as converted ---------------------- *)
  Definition through (e : env) (r w : field) (v : tok) : tok :=
    match conv e r (print_tok e w v) with Some t => t | None => TBad end.
  Fixpoint through_line (e : env) (rf wf : list field) (vs : line) : line :=
    match rf, wf, vs with
    | r :: rf', w :: wf', v :: vs' => through e r w v :: through_line e rf' wf' vs'
    | _, _, _ => []
    end.
  Fixpoint through_solution (e : env) (rs ws : schema) (sol : solution) : solution :=
    match rs, ws, sol with
    | r :: rs', w :: ws', recs :: sol' =>
        map (through_line e (s_fields r) (s_fields w)) recs :: through_solution e rs' ws' sol'
    | _, _, _ => []
    end.

  (* ---- well-typed in-memory data ------------------------------------------------------------------ *)
  Definition tok_typed (f : field) (v : tok) : Prop :=
    match f_ty f, v with TInt, TI _ => True | TDbl, TD _ => True | _, _ => False end.
  Definition line_typed (fs : list field) (vs : line) : Prop := Forall2 tok_typed fs vs.
  Definition sol_typed (ws : schema) (sol : solution) : Prop :=
    Forall2 (fun w recs => Forall (line_typed (s_fields w)) recs) ws sol.

  (* ---- the air-gap-element block that ends an .ans file ------------------------------------------
     writers (static2d.cpp / harmonic2d.cpp):  fprintf(fp,"%i\n",NumAirGapElems); per element the name
     (fprintf "%s" of a string that holds its quotes and its own line break), one parameter line, then
     totalArcElements+1 quadrature-node lines;  reader (fpproc.cpp): fgets -> name with every double quote
     removed, fgets+sscanf -> parameters, for(j=0;j<=age.totalArcElements;j++) fgets+sscanf -> nodes.
     (FPProc keeps only the elements with totalArcElements > 0; that filter is not part of the reading.) *)
  Record age := mkAge { a_name : string; a_params : line; a_quads : list line }.

  Fixpoint field_value (fs : list field) (vs : line) (nm : string) : option tok :=
    match fs, vs with
    | f :: fs', v :: vs' => if String.eqb (f_name f) nm then Some v else field_value fs' vs' nm
    | _, _ => None
    end.
  Fixpoint strip_quotes (s : string) : string :=
    match s with
    | EmptyString => EmptyString
    | String c r => if Ascii.eqb c """"%char then strip_quotes r else String c (strip_quotes r)
    end.

  Definition print_age (e : env) (wp wq : list field) (a : age) : list line :=
    [TS (a_name a)] :: print_line e wp (a_params a) :: map (print_line e wq) (a_quads a).
  Definition print_ages (e : env) (wp wq : list field) (l : list age) : list line :=
    [TI (Z.of_nat (length l))] :: flat_map (print_age e wp wq) l.

  Fixpoint parse_plain_lines (e : env) (rq : list field) (ls : list line) : option (list line) :=
    match ls with
    | [] => Some []
    | l :: r => match parse_fields e ByLine true rq l with
                | None => None
                | Some a => match parse_plain_lines e rq r with Some b => Some (a :: b) | None => None end
                end
    end.
  Definition parse_age (e : env) (rp rq : list field) (ls : list line) : option (age * list line) :=
    match ls with
    | [TS nm] :: pl :: rest =>
        match parse_fields e ByLine true rp pl with
        | None => None
        | Some ps =>
            match field_value rp ps arc_field with
            | Some (TI n) =>
                if (n <? 0)%Z then Some (mkAge (strip_quotes nm) ps [], rest)     (* j <= n never holds *)
                else let k := S (Z.to_nat n) in
                     if Nat.ltb (length rest) k then None
                     else match parse_plain_lines e rq (firstn k rest) with
                          | Some qs => Some (mkAge (strip_quotes nm) ps qs, skipn k rest)
                          | None => None
                          end
            | _ => None
            end
        end
    | _ => None
    end.
  Fixpoint parse_ages_n (e : env) (rp rq : list field) (k : nat) (ls : list line) : option (list age * list line) :=
    match k with
    | O => Some ([], ls)
    | S k' => match parse_age e rp rq ls with
              | None => None
              | Some (a, rest) =>
                  match parse_ages_n e rp rq k' rest with Some (t, tl) => Some (a :: t, tl) | None => None end
              end
    end.
  Definition parse_ages (e : env) (rp rq : list field) (ls : list line) : option (list age * list line) :=
    match ls with
    | [TI n] :: rest => if (n <? 0)%Z then None else parse_ages_n e rp rq (Z.to_nat n) rest
    | _ => None
    end.
  Definition through_age (e : env) (rp wp rq wq : list field) (a : age) : age :=
    mkAge (strip_quotes (a_name a)) (through_line e rp wp (a_params a)) (map (through_line e rq wq) (a_quads a)).
  (* the element in the solver's memory: typed lines, quadNode.size() = totalArcElements + 1 *)
  Definition age_ok (wp wq : list field) (a : age) : Prop :=
    line_typed wp (a_params a) /\ Forall (line_typed wq) (a_quads a) /\
    field_value wp (a_params a) arc_field = Some (TI (Z.of_nat (length (a_quads a)) - 1)) /\ a_quads a <> [].

  (* a whole .ans solution part: sections, then the air-gap block *)
  Definition print_ans (e : env) (ws : schema) (wp wq : list field) (sol : solution) (ags : list age) : list line :=
    print_solution e ws sol ++ print_ages e wp wq ags.
  Definition parse_ans (e : env) (rs : schema) (rp rq : list field) (ls : list line) : option (solution * list age) :=
    match parse_solution_k e rs ls with
    | None => None
    | Some (sol, rest) => match parse_ages e rp rq rest with Some (ags, _) => Some (sol, ags) | None => None end
    end.

End Model.

Arguments TI {F}. Arguments TD {F}. Arguments TS {F}. Arguments TBad {F}.
Arguments mkAge {F}. Arguments a_name {F}. Arguments a_params {F}. Arguments a_quads {F}.

(* ---- compatibility of a reader schema with a writer schema ------------------------------------------ *)
Definition type_ok (r w : ftype) : bool :=
  match r, w with TInt, TInt | TDbl, TDbl | TDbl, TInt => true | TInt, TDbl => false end.
Definition field_ok (r w : field) : bool := String.eqb (f_name r) (f_name w) && type_ok (f_ty r) (f_ty w).
Fixpoint fields_ok (m : rmode) (rf wf : list field) : bool :=
  match rf, wf with
  | [], [] => true
  | [], _ :: _ => match m with ByLine => true | ByStream => false end
  | r :: rf', w :: wf' => field_ok r w && fields_ok m rf' wf'
  | _ :: _, [] => false
  end.
Definition no_glue (wf : list field) : bool := forallb (fun f => negb (f_glued f)) wf.
Definition name_ok (r w : section) : bool := String.eqb (s_name r) "" || String.eqb (s_name r) (s_name w).
Definition section_ok (r w : section) : bool :=
  name_ok r w && no_glue (s_fields w) && check_passes (s_check r) (length (s_fields r)) &&
  fields_ok (s_mode r) (s_fields r) (s_fields w).
Fixpoint compatible (rs ws : schema) : bool :=
  match rs, ws with
  | [], _ => true
  | r :: rs', w :: ws' => section_ok r w && compatible rs' ws'
  | _ :: _, [] => false
  end.

(* the same, as the hypothesis of the round-trip theorem *)
Inductive FieldsOK (m : rmode) : list field -> list field -> Prop :=
| FOK_nil : FieldsOK m [] []
| FOK_rest w wf : m = ByLine -> FieldsOK m [] (w :: wf)
| FOK_cons r w rf wf : f_name r = f_name w -> type_ok (f_ty r) (f_ty w) = true ->
                       FieldsOK m rf wf -> FieldsOK m (r :: rf) (w :: wf).
Definition SectionOK (r w : section) : Prop :=
  (forall f, In f (s_fields w) -> f_glued f = false) /\
  check_passes (s_check r) (length (s_fields r)) = true /\
  FieldsOK (s_mode r) (s_fields r) (s_fields w).
Inductive Compatible : schema -> schema -> Prop :=
| Compat_nil ws : Compatible [] ws
| Compat_cons r w rs ws : SectionOK r w -> Compatible rs ws -> Compatible (r :: rs) (w :: ws).

(* nothing is lost or rescaled: same sections, same fields, same types, no scaling on either side *)
Definition plain_field (r w : field) : bool :=
  match f_ty r, f_ty w with TInt, TInt | TDbl, TDbl => true | _, _ => false end &&
  match f_scale r, f_scale w with SNone, SNone => true | _, _ => false end.
Fixpoint plain_fields (rf wf : list field) : bool :=
  match rf, wf with
  | [], [] => true
  | r :: rf', w :: wf' => plain_field r w && plain_fields rf' wf'
  | _, _ => false
  end.
Fixpoint lossless (rs ws : schema) : bool :=
  match rs, ws with
  | [], [] => true
  | r :: rs', w :: ws' => plain_fields (s_fields r) (s_fields w) && lossless rs' ws'
  | _, _ => false
  end.

(* ---- diagnosis: every reason why a pair is not compatible, as text ------------------------------- *)
Fixpoint diag_fields (m : rmode) (sec : string) (rf wf : list field) : list string :=
  match rf, wf with
  | [], [] => []
  | [], _ :: _ => match m with ByLine => [] | ByStream => [sec ++ ": tokens left unread in stream mode"] end
  | r :: rf', w :: wf' =>
      (if field_ok r w then [] else [sec ++ ": " ++ f_name r ++ " <- " ++ f_name w]) ++ diag_fields m sec rf' wf'
  | r :: _, [] => [sec ++ ": " ++ f_name r ++ " <- (end of line)"]
  end.
Definition diag_section (r w : section) : list string :=
  (if name_ok r w then [] else [s_name r ++ " <- section " ++ s_name w]) ++
  (if no_glue (s_fields w) then [] else [s_name w ++ ": conversions printed without separator"]) ++
  (if check_passes (s_check r) (length (s_fields r)) then [] else [s_name r ++ ": count check fails"]) ++
  diag_fields (s_mode r) (s_name w) (s_fields r) (s_fields w).
Fixpoint diagnose (rs ws : schema) : list string :=
  match rs, ws with
  | [], _ => []
  | r :: rs', w :: ws' => diag_section r w ++ diagnose rs' ws'
  | r :: _, [] => [s_name r ++ " <- (end of file)"]
  end.

Definition all_diagnoses (pairs : list (string * schema * schema)) : list (string * list string) :=
  map (fun p => (fst (fst p), diagnose (snd (fst p)) (snd p))) pairs.
(* the pairs on which nothing is reported *)
Definition sound_pairs (pairs : list (string * schema * schema)) : list (string * schema * schema) :=
  filter (fun p => match diagnose (snd (fst p)) (snd p) with [] => true | _ => false end) pairs.

(* the reader without one of its fields (what arrives when that field is set aside) *)
Definition without_field (nm : string) (rs : schema) : schema :=
  map (fun s => mkS (s_name s) (s_count s) (s_mode s) (s_check s)
                    (filter (fun f => negb (String.eqb (f_name f) nm)) (s_fields s))) rs.

(* the reader with its count checks taken out (used to show what a reader would hold if only the
   checks were repaired) *)
Definition unchecked (rs : schema) : schema :=
  map (fun s => mkS (s_name s) (s_count s) (s_mode s) ChkNone (s_fields s)) rs.

(* a single line kind (the two numeric lines of an air-gap element) *)
Definition line_compatible (rf wf : list field) : bool := no_glue wf && fields_ok ByLine rf wf.
(* the first field called [nm] is an integer *)
Fixpoint has_int_field (rf : list field) (nm : string) : bool :=
  match rf with
  | [] => false
  | f :: t => if String.eqb (f_name f) nm then match f_ty f with TInt => true | TDbl => false end else has_int_field t nm
  end.
(* the air-gap block: both line kinds compatible, and the reader scans the count of quadrature lines as an integer *)
Definition ages_compatible (rp wp rq wq : list field) : bool :=
  line_compatible rp wp && line_compatible rq wq && has_int_field rp arc_field.

(* a whole .ans hand-off: (name, reader sections, writer sections, reader / writer parameter line, reader / writer
   quadrature-node line) *)
Definition ans_pair := (string * schema * schema * list field * list field * list field * list field)%type.
Definition ans_pair_ok (p : ans_pair) : bool :=
  let '(_, rs, ws, rp, wp, rq, wq) := p in
  compatible rs ws && Nat.eqb (length rs) (length ws) && ages_compatible rp wp rq wq.

(* ---- record variants: the per-label circuit lines of the magnetics files ------------------------- *)
(* writer: (tag printed, quantity the value stands for) per variant; reader: tag -> quantity the value
   is stored as, with a default for every other tag *)
Definition reader_dest (rv : list (Z * string) * string) (tag : Z) : string :=
  match find (fun p => Z.eqb (fst p) tag) (fst rv) with Some p => snd p | None => snd rv end.
Definition variants_ok (rv : list (Z * string) * string) (wv : list (Z * string)) : bool :=
  forallb (fun v => String.eqb (reader_dest rv (fst v)) (snd v)) wv.

(* ---- unit tables ---------------------------------------------------------------------------------------- *)
(* LoadMesh multiplies the mesh coordinates by l[u], the writer divides by w[u] *)
Fixpoint all2 {X} (p : X -> X -> bool) (a b : list X) : bool :=
  match a, b with
  | [], [] => true
  | x :: a', y :: b' => p x y && all2 p a' b'
  | _, _ => false
  end.
Definition table_pair_ok (l w : list Q) : bool :=
  Nat.eqb (length l) 6 && all2 (fun a b => Qeq_bool a b && negb (Qeq_bool b 0)) l w.
Definition tables_agree (lw : list (string * list Q * list Q)) : bool :=
  forallb (fun p => table_pair_ok (snd (fst p)) (snd p)) lw.
