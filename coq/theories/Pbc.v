(* Pbc.v — executable model of FMesher::DoPeriodicBCTriangulation (cfemm/fmesher/writepoly.cpp)
   without its air-gap-element parts: what fmesher itself does to pair the mesh nodes of two
   (anti)periodic partner entities.  In the order of the C++:

     read_back        .edge/.ele of the FIRST Triangle pass: orientation of every line (the n0/n1
                      flips), NormalDirection of every arc, number of mesh edges per entity, which
                      entities are on the boundary                                  (l. 927-1063)
     impose           spacing of boundary lines / arcs from that count               (l. 1069-1100)
     build_pbclst     which boundary properties are (anti)periodic                   (l. 1115-1142)
     count_entities   nseg / narc / seg[], "more than two"                           (l. 1284-1328)
     drop_unused      "mix of arcs and segments", conditions not in play             (l. 1330-1346)
     reconcile        "dissimilar", common spacing (min rule)                        (l. 1348-1402)
     seg_pair / arc_pair   interleaved subdivision of the two partners, point list   (l. 1420-1653)
     rest             the other lines and arcs (Discretize.v, OnlyUnselected)        (l. 1735-1738)
     prune            sortXY + removal of duplicates                                 (l. 1794-1806)
     pbc_text         the .pbc file                                                  (l. 1843-1857)

   INPUTS that come from outside fmesher's own code (documented at the records below):
   Triangle's first-pass edges and elements; values that pass through libm/libc (sin of the half
   arc angle, cos/sin of the step angles, the "%.1e" round trip) and the integer results of
   ceil(), which the model re-validates by exact comparisons (Discretize.is_ceil).
   Boundary properties are referred to by their index in lineproplist (the C++ compares names).
   Model file: no proofs here. *)
From Coq Require Import String DecimalString ZArith List Bool Arith.
From XF Require Import Arith Discretize.
From XF.gen Require Export PbcSel.
Import ListNotations.

(* [filekind], [is_periodic], [is_antiperiodic] (the BdryFormat numbers that the three readers call
   periodic / antiperiodic, CBoundaryProp.cpp) and [pbc_selected] (the test under "// pbc" in
   DoPeriodicBCTriangulation, l. 1126) are regenerated from the sources on every run:
   gen/PbcSel.v, written by tools/props/c07.py. *)

(* what the readers call (anti)periodic; 6 and 7 are the air gap elements of magnetics files *)
Definition reader_pbc (k : filekind) (fmt : Z) : bool :=
  (is_periodic k fmt || is_antiperiodic k fmt) && (fmt <? 6)%Z.
(* does the selection recognise every such condition? (decided over the BdryFormat values 0..7) *)
Definition selection_matches_readers : bool :=
  forallb (fun k => forallb (fun f => implb (reader_pbc k f) (pbc_selected k f)) [0; 1; 2; 3; 4; 5; 6; 7]%Z)
          [Magnetics; Electrostatics; HeatFlow].

Inductive perr :=
| EMoreThanTwoSegs (bc : nat)     (* "... is assigned to more than two segments" *)
| EMoreThanTwoArcs (bc : nat)     (* "... is assigned to more than two arcs" *)
| EMixed                          (* "Can't mix arcs and segments for (anti)periodic BCs" *)
| EDissimilarSegs                 (* "(anti)periodic BCs applied to dissimilar segments" *)
| EDissimilarArcs                 (* "(anti)periodic BCs applied to dissimilar arc segments" *)
| EBadInput.                      (* a claimed ceil() value is wrong / an index is out of range:
                                     the inputs do not describe a run of the C++ *)

(* one (anti)periodic condition: CPeriodicBoundary (nosebl.h) *)
Record pbce := mkPbce { pb_bc : nat; pb_anti : bool; pb_nseg : nat; pb_narc : nat; pb_seg0 : nat; pb_seg1 : nat }.

Definition upd {T} (l : list T) (i : nat) (f : T -> T) : list T :=
  map (fun '(k, x) => if Nat.eqb k i then f x else x) (combine (seq 0 (length l)) l).

(* CCommonPoint::sortXY *)
Definition sort_xy (e : nat * nat * nat) : nat * nat * nat :=
  let '(x, y, t) := e in if Nat.ltb y x then (y, x, t) else (x, y, t).

Definition same_xy (a b : nat * nat * nat) : bool :=
  Nat.eqb (fst (fst a)) (fst (fst b)) && Nat.eqb (snd (fst a)) (snd (fst b)).

(* the double while loop of l. 1795-1806: entry k erases every later entry with the same x, y, then
   k moves on to the next entry that is left *)
Fixpoint prune_loop (fuel : nat) (l : list (nat * nat * nat)) : list (nat * nat * nat) :=
  match fuel, l with
  | S fu, e :: r => e :: prune_loop fu (filter (fun e' => negb (same_xy e e')) r)
  | _, _ => l
  end.
Definition prune (l : list (nat * nat * nat)) : list (nat * nat * nat) := prune_loop (length l) l.

(* the .pbc file: count, "%i    %i    %i    %i\n" per entry, number of air gap elements (0) *)
Definition dec (n : nat) : string := NilZero.string_of_uint (Nat.to_uint n).
Definition nl : string := String (Ascii.ascii_of_nat 10) EmptyString.
Definition sep : string := "    "%string.
Fixpoint pbc_lines (k : nat) (l : list (nat * nat * nat)) : string :=
  match l with
  | [] => EmptyString
  | (x, y, t) :: r =>
      (dec k ++ sep ++ dec x ++ sep ++ dec y ++ sep ++ dec t ++ nl ++ pbc_lines (S k) r)%string
  end.
Definition pbc_text (l : list (nat * nat * nat)) : string :=
  (dec (length l) ++ nl ++ pbc_lines 0 l ++ dec 0 ++ nl)%string.

Section Pbc.
  Context {F : Type} (A : Arith F).
  Local Notation cplx := (F * F)%type.
  Local Notation "x +. y" := (aadd A x y) (at level 50, left associativity).
  Local Notation "x -. y" := (asub A x y) (at level 50, left associativity).
  Local Notation "x *. y" := (amul A x y) (at level 40, left associativity).
  Local Notation "x /. y" := (adiv A x y) (at level 40, left associativity).
  Local Notation "'#' z" := (aofZ A z) (at level 9).
  Local Notation pt := (nat * nat * nat)%type.
  Local Notation sg := (nat * nat * nat)%type.

  (* a drawn line *)
  Record pline := mkPLine {
    pl_n0 : nat; pl_n1 : nat;         (* end points as drawn *)
    pl_max : F;                       (* MaxSideLength as drawn, -1 = not specified *)
    pl_bc : option nat;               (* boundary property (index in lineproplist) *)
    pl_parts : Z }.                   (* INPUT: ceil(length / MaxSideLength) for the MaxSideLength in force
                                         when the line is subdivided in the second pass (k of the
                                         segment branch for the first partner; unused for the second
                                         partner); re-validated by is_ceil *)
  (* a drawn arc *)
  Record parc := mkPArc {
    pa_n0 : nat; pa_n1 : nat; pa_len : F;   (* end points (counter-clockwise) and ArcLength in degrees *)
    pa_max : F;                       (* MaxSideLength as drawn (degrees) *)
    pa_bc : option nat;
    pa_maxr : F;                      (* INPUT: ArcLength/cnt after sprintf("%.1e")/sscanf (libc); used
                                         only when the arc is on the boundary *)
    pa_parts : Z;                     (* INPUT: ceil(ArcLength / MaxSideLength) in the second pass; for
                                         the second partner of a periodic pair the code uses the k of
                                         the FIRST partner and this field is ignored *)
    pa_sinh : F;                      (* INPUT: sin(ArcLength*PI/180/2) (getCircle) *)
    pa_ec : F; pa_es : F }.           (* INPUT: cos, sin of ArcLength*PI/(k*180) with the k used *)

  Definition pa_get (arcs : list parc) (i : nat) : parc :=
    nth i arcs (mkPArc 0 0 (azero A) (azero A) None (azero A) 0 (azero A) (azero A) (azero A)).
  Definition pl_get (lines : list pline) (i : nat) : pline :=
    nth i lines (mkPLine 0 0 (azero A) None 0).

  (* ---- read-back of the first pass (l. 927-1063) ------------------------------------------ *)
  (* state of one line / arc while the .edge file is read *)
  Record rline := mkRLine { rl_n0 : nat; rl_n1 : nat; rl_cnt : nat }.
  Record rarc := mkRArc { ra_cnt : nat; ra_nd : bool }.     (* NormalDirection, initially true *)
  (* the reference edge of an entity is a CCommonPoint whose t is used as a counter (can go
     negative): (x, y, t) with t : Z *)

  (* mesh node numbers of the first pass are kept as binary integers (meshes have thousands of nodes) *)
  Definition rb_edge (nlines : nat) (arcs : list parc)
             (st : list rline * list rarc * list (Z * Z * Z)) (e : Z * Z * Z)
    : list rline * list rarc * list (Z * Z * Z) :=
    let '(ls, ars, refs) := st in
    let '(n0, n1, m) := e in
    let is := fun (a : nat) (b : Z) => (Z.of_nat a =? b)%Z in
    if (m =? 0)%Z then st
    else
      let j := Z.to_nat (- (m + 2)) in                       (* j=-(j+2) *)
      let refs' := upd refs j (fun r => let '(x, y, t) := r in
                     if (t =? 0)%Z then (Z.min n0 n1, Z.max n0 n1, 1%Z) else r) in
      if Nat.ltb j nlines then
        (upd ls j (fun l =>
           if is (rl_n0 l) n1 || is (rl_n1 l) n0
           then mkRLine (rl_n1 l) (rl_n0 l) (S (rl_cnt l))
           else mkRLine (rl_n0 l) (rl_n1 l) (S (rl_cnt l))), ars, refs')
      else
        let ja := j - nlines in
        let a := pa_get arcs ja in
        (ls, upd ars ja (fun r =>
           let nd1 := if is (pa_n0 a) n1 || is (pa_n1 a) n0 then false else ra_nd r in
           let nd2 := if is (pa_n0 a) n0 || is (pa_n1 a) n1 then true else nd1 in
           mkRArc (S (ra_cnt r)) nd2), refs').

  (* one element of the .ele file: every reference edge that is a side of it loses one count *)
  Definition rb_ele (refs : list (Z * Z * Z)) (el : Z * Z * Z) : list (Z * Z * Z) :=
    let '(p, q, r) := el in
    (* "Sort out the three nodes..." *)
    let '(n0, n1) := if (q <? p)%Z then (q, p) else (p, q) in
    let '(n1, n2) := if (r <? n1)%Z then (r, n1) else (n1, r) in
    let '(n0, n1) := if (n1 <? n0)%Z then (n1, n0) else (n0, n1) in
    map (fun rf => let '(x, y, t) := rf in
           let t := if (n0 =? x)%Z && (n1 =? y)%Z then (t - 1)%Z else t in
           let t := if (n0 =? x)%Z && (n2 =? y)%Z then (t - 1)%Z else t in
           let t := if (n1 =? x)%Z && (n2 =? y)%Z then (t - 1)%Z else t in
           (x, y, t)) refs.

  Definition read_back (lines : list pline) (arcs : list parc)
             (edges : list (Z * Z * Z)) (eles : list (Z * Z * Z))
    : list rline * list rarc * list (Z * Z * Z) :=
    let ls0 := map (fun l => mkRLine (pl_n0 l) (pl_n1 l) 0) lines in
    let ars0 := map (fun _ => mkRArc 0 true) arcs in
    let refs0 := repeat (0%Z, 0%Z, 0%Z) (length lines + length arcs) in
    let '(ls, ars, refs) := fold_left (rb_edge (length lines) arcs) edges (ls0, ars0, refs0) in
    (ls, ars, fold_left rb_ele eles refs).

  Definition on_boundary (refs : list (Z * Z * Z)) (i : nat) : bool :=
    let '(_, _, t) := nth i refs (0%Z, 0%Z, 1%Z) in (t =? 0)%Z.

  (* ---- working copy of the entities after the first pass ----------------------------------- *)
  (* lines: current n0, n1, MaxSideLength; arcs: MaxSideLength, NormalDirection *)
  Record wline := mkWLine { wl_n0 : nat; wl_n1 : nat; wl_max : F }.
  Record warc := mkWArc { wa_max : F; wa_nd : bool }.

  Definition seg_length (orig : list cplx) (n0 n1 : nat) : F :=     (* FemmProblem::lengthOfLine *)
    cabsf A (csub A (pget A orig n0) (pget A orig n1)).

  (* l. 1069-1100: "impose new mesh constraints on bdry arcs and segments" *)
  Definition impose_lines (orig : list cplx) (lines : list pline) (ls : list rline)
             (refs : list (Z * Z * Z)) : list wline :=
    map (fun '(i, (l, r)) =>
           mkWLine (rl_n0 r) (rl_n1 r)
                   (if on_boundary refs i
                    then seg_length orig (rl_n0 r) (rl_n1 r) /. # (Z.of_nat (rl_cnt r))
                    else pl_max l))
        (combine (seq 0 (length lines)) (combine lines ls)).

  Definition impose_arcs (nlines : nat) (arcs : list parc) (ars : list rarc)
             (refs : list (Z * Z * Z)) : list warc :=
    map (fun '(i, (a, r)) =>
           mkWArc (if on_boundary refs (i + nlines) then pa_maxr a else pa_max a) (ra_nd r))
        (combine (seq 0 (length arcs)) (combine arcs ars)).

  (* ---- which conditions are (anti)periodic (l. 1115-1142) ----------------------------------- *)
  (* the selection test is [pbc_selected] (gen/PbcSel.v); the sign comes from isPeriodic(AntiPeriodic) *)
  Definition build_pbclst (kind : filekind) (bdry : list Z) : list pbce :=
    flat_map (fun '(i, fmt) =>
                if pbc_selected kind fmt
                then [mkPbce i (is_antiperiodic kind fmt) 0 0 0 0] else [])
             (combine (seq 0 (length bdry)) bdry).

  (* ---- counting (l. 1284-1328) ---------------------------------------------------------------- *)
  Definition set_seg (e : pbce) (slot i : nat) (isarc : bool) : pbce :=
    let s0 := if Nat.eqb slot 0 then i else pb_seg0 e in
    let s1 := if Nat.eqb slot 0 then pb_seg1 e else i in
    if isarc then mkPbce (pb_bc e) (pb_anti e) (pb_nseg e) (S (pb_narc e)) s0 s1
    else mkPbce (pb_bc e) (pb_anti e) (S (pb_nseg e)) (pb_narc e) s0 s1.

  Fixpoint count_one (isarc : bool) (i b : nat) (pl : list pbce) : perr + list pbce :=
    match pl with
    | [] => inr []
    | e :: r =>
        if Nat.eqb (pb_bc e) b then
          let n := if isarc then pb_narc e else pb_nseg e in
          if Nat.eqb n 2 then inl (if isarc then EMoreThanTwoArcs (pb_bc e) else EMoreThanTwoSegs (pb_bc e))
          else match count_one isarc i b r with
               | inl x => inl x
               | inr r' => inr (set_seg e n i isarc :: r')
               end
        else match count_one isarc i b r with
             | inl x => inl x
             | inr r' => inr (e :: r')
             end
    end.

  Fixpoint count_entities (isarc : bool) (i : nat) (bcs : list (option nat)) (pl : list pbce)
    : perr + list pbce :=
    match bcs with
    | [] => inr pl
    | None :: r => count_entities isarc (S i) r pl
    | Some b :: r =>
        match count_one isarc i b pl with
        | inl x => inl x
        | inr pl' => count_entities isarc (S i) r pl'
        end
    end.

  (* ---- l. 1330-1346 ------------------------------------------------------------------------------ *)
  Fixpoint drop_unused (pl : list pbce) : perr + list pbce :=
    match pl with
    | [] => inr []
    | e :: r =>
        if Nat.ltb 0 (pb_nseg e) && Nat.ltb 0 (pb_narc e) then inl EMixed
        else match drop_unused r with
             | inl x => inl x
             | inr r' => inr (if Nat.ltb (pb_nseg e) 2 && Nat.ltb (pb_narc e) 2 then r' else e :: r')
             end
    end.

  (* ---- l. 1348-1402: compatible size, common spacing ---------------------------------------- *)
  Definition tol6 : F := adec A 1 (-6).
  Definition wl_get (ws : list wline) (i : nat) : wline := nth i ws (mkWLine 0 0 (azero A)).
  Definition wa_get (ws : list warc) (i : nat) : warc := nth i ws (mkWArc (azero A) true).

  Definition reconcile_one (orig : list cplx) (arcs : list parc) (e : pbce)
             (st : list wline * list warc) : perr + (list wline * list warc) :=
    let '(wls, was) := st in
    let r1 :=
      if Nat.ltb 0 (pb_nseg e) then
        let l0 := wl_get wls (pb_seg0 e) in
        let l1 := wl_get wls (pb_seg1 e) in
        if altb A tol6 (aabs A (seg_length orig (wl_n0 l0) (wl_n1 l0) -. seg_length orig (wl_n0 l1) (wl_n1 l1)))
        then inl EDissimilarSegs
        else
          let len1 := wl_max l0 in
          let len2 := wl_max l1 in
          let len1 := if aleb A len1 (azero A) then len2 else len1 in
          let len2 := if aleb A len2 (azero A) then len1 else len2 in
          let len := amin A len1 len2 in
          let setm := fun w => mkWLine (wl_n0 w) (wl_n1 w) len in
          inr (upd (upd wls (pb_seg0 e) setm) (pb_seg1 e) setm)
      else inr wls in
    match r1 with
    | inl x => inl x
    | inr wls' =>
        if Nat.ltb 0 (pb_narc e) then
          let a0 := pa_get arcs (pb_seg0 e) in
          let a1 := pa_get arcs (pb_seg1 e) in
          if altb A tol6 (aabs A (pa_len a0 -. pa_len a1)) then inl EDissimilarArcs
          else
            let len := amin A (wa_max (wa_get was (pb_seg0 e))) (wa_max (wa_get was (pb_seg1 e))) in
            let setm := fun w => mkWArc len (wa_nd w) in
            inr (wls', upd (upd was (pb_seg0 e) setm) (pb_seg1 e) setm)
        else inr (wls', was)
    end.

  Fixpoint reconcile (orig : list cplx) (arcs : list parc) (pl : list pbce)
           (st : list wline * list warc) : perr + (list wline * list warc) :=
    match pl with
    | [] => inr st
    | e :: r =>
        match reconcile_one orig arcs e st with
        | inl x => inl x
        | inr st' => reconcile orig arcs r st'
        end
    end.

  (* the whole validity pass: which conditions are in play, and the reconciled entities *)
  Definition validity (kind : filekind) (bdry : list Z) (orig : list cplx)
             (lines : list pline) (arcs : list parc) (wls : list wline) (was : list warc)
    : perr + (list pbce * (list wline * list warc)) :=
    match count_entities false 0 (map pl_bc lines) (build_pbclst kind bdry) with
    | inl x => inl x
    | inr p1 =>
        match count_entities true 0 (map pa_bc arcs) p1 with
        | inl x => inl x
        | inr p2 =>
            match drop_unused p2 with
            | inl x => inl x
            | inr p3 =>
                match reconcile orig arcs p3 (wls, was) with
                | inl x => inl x
                | inr st => inr (p3, st)
                end
            end
        end
    end.

  (* ---- the segment branch (l. 1422-1527) ---------------------------------------------------- *)
  Local Notation mstate := (list cplx * list sg * list pt)%type.

  (* the j-th created point of a line a0 -> a1 cut into k parts: a0+(a1-a0)*((double)(j+1))/((double)k) *)
  Definition sub_point (a0 a1 : cplx) (j k : nat) : cplx :=
    cadd A a0 (cdivr A (cscale A (# (Z.of_nat (j + 1))) (csub A a1 a0)) (# (Z.of_nat k))).

  (* for(j=0;j<k;j++): [e0 e1] end points of the first partner, [f0 f1] of the second (after its swap) *)
  Fixpoint seg_pair_loop (fuel j k : nat) (a0 a1 b0 b1 : cplx) (e0 e1 f0 f1 t c0 c1 : nat) (st : mstate) : mstate :=
    match fuel with
    | O => st
    | S fu =>
        if Nat.ltb j k then
          let '(nodes, segs, pts) := st in
          let a2 := sub_point a0 a1 j k in
          let b2 := sub_point b0 b1 j k in
          let l := length nodes in
          let st' :=
            if Nat.eqb j 0 then
              (nodes ++ [a2; b2], segs ++ [(e0, l, c0); (f0, S l, c1)], pts ++ [(l, S l, t)])
            else if Nat.eqb j (k - 1) then
              (nodes, segs ++ [(l - 2, e1, c0); (l - 1, f1, c1)], pts)
            else
              (nodes ++ [a2; b2], segs ++ [(l - 2, l, c0); (l - 1, S l, c1)], pts ++ [(l, S l, t)]) in
          seg_pair_loop fu (S j) k a0 a1 b0 b1 e0 e1 f0 f1 t c0 c1 st'
        else st
    end.

  Definition bool_nat (b : bool) : nat := if b then 1 else 0.

  (* one condition applied to two segments; [k] is the claimed number of parts *)
  Definition seg_pair (orig : list cplx) (wls : list wline) (e : pbce) (k : nat) (st : mstate) : mstate :=
    let l0 := wl_get wls (pb_seg0 e) in
    let l1 := wl_get wls (pb_seg1 e) in
    let e0 := wl_n0 l0 in let e1 := wl_n1 l0 in
    let f0 := wl_n1 l1 in let f1 := wl_n0 l1 in              (* std::swap(linelist[s1]->n0, ->n1) *)
    let t := bool_nat (pb_anti e) in
    let '(nodes, segs, pts) := st in
    let pts := pts ++ [(e0, f0, t); (e1, f1, t)] in
    if Nat.eqb k 1 then
      (nodes, segs ++ [(e0, e1, pb_seg0 e); (f0, f1, pb_seg1 e)], pts)
    else
      seg_pair_loop k 0 k (pget A orig e0) (pget A orig e1) (pget A orig f0) (pget A orig f1)
                    e0 e1 f0 f1 t (pb_seg0 e) (pb_seg1 e) (nodes, segs, pts).

  (* k as coded: 1 when MaxSideLength == -1, else ceil(abs(a1-a0)/MaxSideLength) of the FIRST partner *)
  Definition seg_pair_parts_ok (orig : list cplx) (wls : list wline) (e : pbce) (k : Z) : bool :=
    let l0 := wl_get wls (pb_seg0 e) in
    if aeqb A (wl_max l0) (aneg A (aone A)) then (k =? 1)%Z
    else is_ceil A (cabsf A (csub A (pget A orig (wl_n1 l0)) (pget A orig (wl_n0 l0))) /. wl_max l0) k.

  (* ---- the arc branch (l. 1528-1652) --------------------------------------------------------- *)
  Fixpoint arc_pair_loop (fuel j k : nat) (c0 c1 d0 d1 bg0 bg1 : cplx) (p00 p01 p10 p11 t m0 m1 : nat)
           (st : mstate) : mstate :=
    match fuel with
    | O => st
    | S fu =>
        if Nat.ltb j k then
          let '(nodes, segs, pts) := st in
          let bg0' := cadd A (cmul A (csub A bg0 c0) d0) c0 in      (* bgn0=(bgn0-c0)*d0+c0 *)
          let bg1' := cadd A (cmul A (csub A bg1 c1) d1) c1 in
          let l := length nodes in
          let st' :=
            if Nat.eqb j 0 then
              (nodes ++ [bg0'; bg1'], segs ++ [(p00, l, m0); (p10, S l, m1)], pts ++ [(l, S l, t)])
            else if Nat.eqb j (k - 1) then
              (nodes, segs ++ [(l - 2, p01, m0); (l - 1, p11, m1)], pts)
            else
              (nodes ++ [bg0'; bg1'], segs ++ [(l - 2, l, m0); (l - 1, S l, m1)], pts ++ [(l, S l, t)]) in
          arc_pair_loop fu (S j) k c0 c1 d0 d1 bg0' bg1' p00 p01 p10 p11 t m0 m1 st'
        else st
    end.

  Definition to_darc (a : parc) : darc (F:=F) :=
    mkDArc (pa_n0 a) (pa_n1 a) (pa_len a) (pa_max a) (pa_parts a) (pa_sinh a) (pa_ec a) (pa_es a).

  (* first partner: NormalDirection == 0 -> start at n0 and turn by +step, else start at n1 and turn
     by -step; second partner: the other way round.  (start node, end node, rotation factor) *)
  Definition arc_start0 (nd : bool) (a : parc) : nat * nat * cplx :=
    if negb nd then (pa_n0 a, pa_n1 a, (pa_ec a, pa_es a))
    else (pa_n1 a, pa_n0 a, (pa_ec a, aneg A (pa_es a))).
  Definition arc_start1 (nd : bool) (a : parc) : nat * nat * cplx :=
    if nd then (pa_n0 a, pa_n1 a, (pa_ec a, pa_es a))
    else (pa_n1 a, pa_n0 a, (pa_ec a, aneg A (pa_es a))).

  Definition arc_pair (orig : list cplx) (nlines : nat) (arcs : list parc) (was : list warc) (e : pbce) (k : nat)
             (st : mstate) : mstate :=
    let a0 := pa_get arcs (pb_seg0 e) in
    let a1 := pa_get arcs (pb_seg1 e) in
    let c0 := fst (get_circle A orig (to_darc a0)) in
    let c1 := fst (get_circle A orig (to_darc a1)) in
    let '(s00, s01, d0) := arc_start0 (wa_nd (wa_get was (pb_seg0 e))) a0 in
    let '(s10, s11, d1) := arc_start1 (wa_nd (wa_get was (pb_seg1 e))) a1 in
    let t := bool_nat (pb_anti e) in
    let m0 := pb_seg0 e + nlines in let m1 := pb_seg1 e + nlines in
    let '(nodes, segs, pts) := st in
    let pts := pts ++ [(s00, s10, t); (s01, s11, t)] in
    if Nat.eqb k 1 then
      (nodes, segs ++ [(s00, s01, m0); (s10, s11, m1)], pts)
    else
      arc_pair_loop k 0 k c0 c1 d0 d1 (pget A orig s00) (pget A orig s10) s00 s01 s10 s11 t m0 m1 (nodes, segs, pts).

  (* k = ceil(arclist[s0]->ArcLength / arclist[s0]->MaxSideLength) *)
  Definition arc_pair_parts_ok (arcs : list parc) (was : list warc) (e : pbce) (k : Z) : bool :=
    is_ceil A (pa_len (pa_get arcs (pb_seg0 e)) /. wa_max (wa_get was (pb_seg0 e))) k.

  (* for(n=0; n<pbclst.size(); n++): Some state, or None when a claimed k is not the ceiling *)
  Fixpoint pairs_loop (orig : list cplx) (lines : list pline) (arcs : list parc)
           (wls : list wline) (was : list warc) (pl : list pbce) (st : mstate) : option mstate :=
    match pl with
    | [] => Some st
    | e :: r =>
        if negb (Nat.eqb (pb_nseg e) 0) then
          let k := pl_parts (pl_get lines (pb_seg0 e)) in
          if seg_pair_parts_ok orig wls e k
          then pairs_loop orig lines arcs wls was r (seg_pair orig wls e (Z.to_nat k) st)
          else None
        else
          let k := pa_parts (pa_get arcs (pb_seg0 e)) in
          if arc_pair_parts_ok arcs was e k
          then pairs_loop orig lines arcs wls was r (arc_pair orig (length lines) arcs was e (Z.to_nat k) st)
          else None
    end.

  Definition selected (pl : list pbce) (isarc : bool) (i : nat) : bool :=
    existsb (fun e => (if isarc then negb (Nat.eqb (pb_narc e) 0) && Nat.eqb (pb_nseg e) 0
                       else negb (Nat.eqb (pb_nseg e) 0))
                      && (Nat.eqb (pb_seg0 e) i || Nat.eqb (pb_seg1 e) i)) pl.

  (* ---- the remaining entities: discretizeInput(Arc)Segments with OnlyUnselected -------------- *)
  Definition rest_lines (dosmart : bool) (dL : F) (orig : list cplx) (lines : list pline) (wls : list wline)
             (pl : list pbce) (st : dstate (F:=F)) : option (dstate (F:=F)) :=
    fold_left (fun ost '(i, (l, w)) =>
                 match ost with
                 | None => None
                 | Some st =>
                     if selected pl false i then Some st
                     else
                       let dl := mkDLine (wl_n0 w) (wl_n1 w) (wl_max w) (pl_parts l) in
                       if line_parts_ok A orig dl then Some (discretize_line A dosmart dL orig i dl st) else None
                 end)
              (combine (seq 0 (length lines)) (combine lines wls)) (Some st).

  Definition rest_arcs (orig : list cplx) (nlines : nat) (arcs : list parc) (was : list warc)
             (pl : list pbce) (st : dstate (F:=F)) : option (dstate (F:=F)) :=
    fold_left (fun ost '(i, (a, w)) =>
                 match ost with
                 | None => None
                 | Some st =>
                     if selected pl true i then Some st
                     else
                       let da := mkDArc (pa_n0 a) (pa_n1 a) (pa_len a) (wa_max w) (pa_parts a) (pa_sinh a) (pa_ec a) (pa_es a) in
                       if arc_parts_ok A da then Some (discretize_arc A orig nlines i da st) else None
                 end)
              (combine (seq 0 (length arcs)) (combine arcs was)) (Some st).

  Inductive presult :=
  | PErr (e : perr)
  | POk (nodes : list cplx) (segs : list sg) (pts : list pt).

  (* DoPeriodicBCTriangulation from the read-back of the first pass to the second call of Triangle:
     the PSLG (points, segments with the index of the entity they belong to) and the pair list *)
  Definition pbc_mesh (kind : filekind) (dosmart : bool) (bdry : list Z) (orig : list cplx)
             (lines : list pline) (arcs : list parc)
             (edges : list (Z * Z * Z)) (eles : list (Z * Z * Z)) : presult :=
    let dls := map (fun l => mkDLine (pl_n0 l) (pl_n1 l) (pl_max l) (pl_parts l)) lines in
    let dL := average_line_length A orig dls /. adec A 5000 (-1) in
    let '(rls, rars, refs) := read_back lines arcs edges eles in
    let wls := impose_lines orig lines rls refs in
    let was := impose_arcs (length lines) arcs rars refs in
    match validity kind bdry orig lines arcs wls was with
    | inl x => PErr x
    | inr (pl, (wls, was)) =>
        match pairs_loop orig lines arcs wls was pl (orig, [], []) with
        | None => PErr EBadInput
        | Some (nodes, segs, pts) =>
            match rest_lines dosmart dL orig lines wls pl (nodes, segs) with
            | None => PErr EBadInput
            | Some st1 =>
                match rest_arcs orig (length lines) arcs was pl st1 with
                | None => PErr EBadInput
                | Some (nodes', segs') => POk nodes' segs' (prune (map sort_xy pts))
                end
            end
        end
    end.

  (* FMesher::HasPeriodicBC: some (anti)periodic condition (as the reader of the file type defines
     it) is carried by a line or an arc *)
  Definition has_periodic_bc (kind : filekind) (bdry : list Z) (lines : list pline) (arcs : list parc) : bool :=
    let isp := fun ob => match ob with
                         | Some b => let f := nth b bdry 0%Z in is_periodic kind f || is_antiperiodic kind f
                         | None => false end in
    existsb (fun l => isp (pl_bc l)) lines || existsb (fun a => isp (pa_bc a)) arcs.

  (* ---- views used by the correspondence check (tools/props/c07.py) --------------------------- *)
  Definition perr_code (e : perr) : nat :=
    match e with
    | EMoreThanTwoSegs _ => 1 | EMoreThanTwoArcs _ => 2 | EMixed => 3
    | EDissimilarSegs => 4 | EDissimilarArcs => 5 | EBadInput => 6
    end.

  (* the state after the validity pass: conditions in play (bc, anti, nseg, narc, seg[0], seg[1]), the
     lines (n0, n1, MaxSideLength) and arcs (MaxSideLength, NormalDirection) as the second pass sees
     them.  The ceil()/cos/sin inputs of the second stage are computed from these by the harness. *)
  Definition pbc_stage1 (kind : filekind) (bdry : list Z) (orig : list cplx)
             (lines : list pline) (arcs : list parc)
             (edges : list (Z * Z * Z)) (eles : list (Z * Z * Z))
    : nat * (list (nat * bool * nat * nat * nat * nat) * list (nat * nat * F) * list (F * bool)) :=
    let '(rls, rars, refs) := read_back lines arcs edges eles in
    let wls := impose_lines orig lines rls refs in
    let was := impose_arcs (length lines) arcs rars refs in
    match validity kind bdry orig lines arcs wls was with
    | inl x => (perr_code x, ([], [], []))
    | inr (pl, (wls, was)) =>
        (0, (map (fun e => (pb_bc e, pb_anti e, pb_nseg e, pb_narc e, pb_seg0 e, pb_seg1 e)) pl,
             map (fun w => (wl_n0 w, wl_n1 w, wl_max w)) wls,
             map (fun w => (wa_max w, wa_nd w)) was))
    end.

  Definition presult_view (r : presult) : nat * (list cplx * list (nat * nat) * list pt * string) :=
    match r with
    | PErr e => (perr_code e, ([], [], [], EmptyString))
    | POk nodes segs pts => (0, (nodes, map (fun s => (fst (fst s), snd (fst s))) segs, pts, pbc_text pts))
    end.
End Pbc.
