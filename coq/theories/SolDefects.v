(* SolDefects.v — the committed list of what [diagnose] reports on the regenerated schemas
   (gen/SolSchemas.v) for every solver / post-processor pair.  Properties_C14_solution.v proves by
   computation that the regenerated tables produce exactly this list: a repaired defect, a new
   defect, a new pair or a renamed field all break that proof.  NO proofs here.

   What remains in /repo (HEAD 0723d07): one diagnosis, on a path xfemm cannot reach —
   * static + incremental (FSolver::WriteStatic2D with Aprev, FPProc::OpenDocument with
     Frequency == 0 and bIncremental): the writer prints the boundary marker and Aprev without a
     separator ("%i" directly followed by "%.17g").  FSolver::runSolver refuses Frequency == 0 with
     PrevType != 0, so no such file is ever written: pinned here, never observed.
   Repaired since the first version of this list: fpproc's harmonic-incremental reader (7826e68: count
   checks, Jprev column), the edge markers (5fed0d3) and Jprev (0723d07) of a static solution that is
   re-used as previous solution. *)
From Coq Require Import String List.
From XF Require Import SolFile.
From XF.gen Require Import SolSchemas.
Import ListNotations.
Local Open Scope string_scope.

Definition static_incr_defects : list string := ["nodes: conversions printed without separator"].

Definition expected_diagnoses : list (string * list string) :=
  [("electrostatics", []);
   ("heatflow", []);
   ("magnetics_static_planar", []);
   ("magnetics_static_incr_planar", static_incr_defects);
   ("magnetics_harmonic_planar", []);
   ("magnetics_harmonic_incr_planar", []);
   ("magnetics_static_axisymmetric", []);
   ("magnetics_static_incr_axisymmetric", static_incr_defects);
   ("magnetics_harmonic_axisymmetric", []);
   ("magnetics_harmonic_incr_axisymmetric", []);
   ("heatflow_previous", []);
   ("magnetics_previous", [])].
