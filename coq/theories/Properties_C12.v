(* Properties_C12.v — theorem statements for property C12 (post-processors locate every point and
   interpolate the solution faithfully), each closed by [exact] of a lemma proved in
   LocateProofs.v.  Nothing else lives here. *)
From Coq Require Import ZArith List Bool Arith Lia Reals Lra Floats.
From XF Require Import Arith Locate LocateProofs.
Import ListNotations.
Local Open Scope R_scope.

(* ---- the search order (all mesh sizes, all seeds) ------------------------------------- *)
(* whatever the static k left by earlier queries, a failing query has looked at EVERY element *)
Theorem C12_spiral_complete : forall sz k i : Z,
  (0 < sz)%Z -> (0 <= k < sz)%Z -> (0 <= i < sz)%Z -> In i (visited sz k).
Proof. exact spiral_complete. Qed.
Print Assumptions C12_spiral_complete.

(* and only at elements of the mesh *)
Theorem C12_spiral_in_range : forall sz k i : Z,
  (0 < sz)%Z -> (0 <= k < sz)%Z -> In i (visited sz k) -> (0 <= i < sz)%Z.
Proof. exact visited_range. Qed.
Print Assumptions C12_spiral_in_range.

(* the out-of-fuel branch of the fuelled loops of the model is dead code *)
Theorem C12_loop_fuel_irrelevant : forall (F : Type) (A : Arith F) (test : Z -> bool) (M : mesh F) (x y : F)
  (fuel : nat) (sz k : Z), (0 <= sz)%Z -> (loop_fuel sz <= fuel)%nat ->
  spiral A test M x y (loop_fuel sz) sz 0 k k = spiral A test M x y fuel sz 0 k k /\
  walk (loop_fuel sz) sz 0 k k = walk fuel sz 0 k k.
Proof.
  intros. split; [apply spiral_fuel|apply walk_fuel]; auto; now apply loop_fuel_enough.
Qed.
Print Assumptions C12_loop_fuel_irrelevant.

(* ---- InTriangle, any arithmetic (binary64 included), any of the triangle tests ---------- *)
Theorem C12_in_triangle_sound : forall (F : Type) (A : Arith F) (test : mesh F -> F -> F -> Z -> bool)
  (M : mesh F) (k : Z) (x y : F) (e k' : Z),
  in_triangle A test M k x y = (e, k') -> (0 <= e)%Z ->
  let sz := nelems (elems M) in
  test M x y e = true /\ k' = e /\
  (e = clamp sz k \/ ((0 <= e < sz)%Z /\ circle_ok A M x y e = true)).
Proof. exact @in_triangle_sound. Qed.
Print Assumptions C12_in_triangle_sound.

Theorem C12_in_triangle_complete : forall (F : Type) (A : Arith F) (test : mesh F -> F -> F -> Z -> bool)
  (M : mesh F) (k : Z) (x y : F) (i : Z),
  (0 <= i < nelems (elems M))%Z -> test M x y i = true -> circle_ok A M x y i = true ->
  (0 <= fst (in_triangle A test M k x y))%Z.
Proof. exact @in_triangle_complete. Qed.
Print Assumptions C12_in_triangle_complete.

Theorem C12_not_found_means_none : forall (F : Type) (A : Arith F) (test : mesh F -> F -> F -> Z -> bool)
  (M : mesh F) (k : Z) (x y : F),
  let sz := nelems (elems M) in
  (fst (in_triangle A test M k x y) < 0)%Z ->
  in_triangle A test M k x y = ((-1)%Z, clamp sz k) /\
  test M x y (clamp sz k) = false /\
  forall i, (0 <= i < sz)%Z -> circle_ok A M x y i && test M x y i = false.
Proof. exact @in_triangle_fail. Qed.
Print Assumptions C12_not_found_means_none.

(* found / not found does not depend on the query history, provided the bounding circle never
   rejects an element that passes the test (true in the real reading: C12_test_implies_circle) *)
Theorem C12_found_history_independent : forall (F : Type) (A : Arith F) (test : mesh F -> F -> F -> Z -> bool)
  (M : mesh F) (k1 k2 : Z) (x y : F),
  let sz := nelems (elems M) in
  (0 < sz)%Z ->
  (forall i, (0 <= i < sz)%Z -> test M x y i = true -> circle_ok A M x y i = true) ->
  ((0 <= fst (in_triangle A test M k1 x y))%Z <-> (0 <= fst (in_triangle A test M k2 x y))%Z).
Proof. exact @found_history_independent. Qed.
Print Assumptions C12_found_history_independent.

(* ---- geometry, real reading ----------------------------------------------------------- *)
(* rsqr as computed at load time is the maximum squared corner distance ... *)
Theorem C12_rsqr_is_max : forall (c : R * R) (n0 n1 n2 : node R),
  rsqr_of RA c n0 n1 n2 = Rmax (Rmax (Rmax 0 (dist2 c n0)) (dist2 c n1)) (dist2 c n2).
Proof. exact rsqr_of_is_max. Qed.
Print Assumptions C12_rsqr_is_max.

(* ... so the bounding circle contains the closed triangle (for any centre, e.g. the centroid) *)
Theorem C12_circle_contains_triangle : forall (c : R * R) (n0 n1 n2 : node R) (x y : R),
  in_closed_triangle n0 n1 n2 x y ->
  (fst c - x) * (fst c - x) + (snd c - y) * (snd c - y) <= rsqr_of RA c n0 n1 n2.
Proof. exact circle_contains_triangle. Qed.
Print Assumptions C12_circle_contains_triangle.

(* the meshes OpenDocument builds (epproc: load, hpproc: load_h, fpproc: load_m — all are load_gen)
   satisfy the hypothesis used below *)
Theorem C12_load_computes_rsqr : forall fld N Rl L Ms lc eo, rsqr_loaded (load_gen RA fld N Rl L Ms lc eo).
Proof. exact load_gen_rsqr_loaded. Qed.
Print Assumptions C12_load_computes_rsqr.

(* InTriangleTest (both copies) on a counter-clockwise element = barycentric coordinates >= 0 *)
Theorem C12_test_iff_barycentric : forall (M : mesh R) (x y : R) (i : Z),
  (0 <= i < nelems (elems M))%Z ->
  (let '(n0, n1, n2) := enodes M i in 0 < coef_da RA n0 n1 n2) ->
  (test_ord RA M x y i = true <-> let '(n0, n1, n2) := enodes M i in in_closed_triangle n0 n1 n2 x y) /\
  (test_hp RA M x y i = true <-> let '(n0, n1, n2) := enodes M i in in_closed_triangle n0 n1 n2 x y).
Proof. intros. split; [now apply test_iff_barycentric|now apply test_hp_iff_barycentric]. Qed.
Print Assumptions C12_test_iff_barycentric.

Theorem C12_test_implies_circle : forall (M : mesh R) (x y : R) (i : Z),
  rsqr_loaded M -> mesh_ccw M -> (0 <= i < nelems (elems M))%Z ->
  test_ord RA M x y i = true -> circle_ok RA M x y i = true.
Proof. exact test_implies_circle. Qed.
Print Assumptions C12_test_implies_circle.

(* a point query succeeds iff the point is in the meshed region — for every search state *)
Theorem C12_locate_exact : forall (M : mesh R) (k : Z) (x y : R),
  rsqr_loaded M -> mesh_ccw M -> (0 < nelems (elems M))%Z ->
  ((0 <= fst (in_triangle RA (test_ord RA) M k x y))%Z <-> in_mesh_region M x y) /\
  ((0 <= fst (in_triangle RA (test_hp RA) M k x y))%Z <-> in_mesh_region M x y).
Proof. intros. split; [now apply locate_exact|now apply locate_exact_hp]. Qed.
Print Assumptions C12_locate_exact.

(* and the element it returns contains the point *)
Theorem C12_located_element_contains : forall (M : mesh R) (k : Z) (x y : R) (e k' : Z),
  mesh_ccw M ->
  in_triangle RA (test_ord RA) M k x y = (e, k') -> (0 <= e)%Z ->
  (0 <= e < nelems (elems M))%Z /\
  let '(n0, n1, n2) := enodes M e in in_closed_triangle n0 n1 n2 x y.
Proof. exact located_element_contains. Qed.
Print Assumptions C12_located_element_contains.

(* ---- the interpolant, real reading ---------------------------------------------------- *)
Theorem C12_interp_nodal : forall (T : node R * node R * node R) (i : nat),
  tda T <> 0 -> (i < 3)%nat ->
  tinterp T (nx (knode T i)) (ny (knode T i)) = nv (knode T i).
Proof. exact interp_nodal. Qed.
Print Assumptions C12_interp_nodal.

Theorem C12_interp_affine : forall (n0 n1 n2 : node R) (al be ga x y : R),
  coef_da RA n0 n1 n2 <> 0 ->
  nv n0 = al + be * nx n0 + ga * ny n0 ->
  nv n1 = al + be * nx n1 + ga * ny n1 ->
  nv n2 = al + be * nx n2 + ga * ny n2 ->
  interp RA n0 n1 n2 x y = al + be * x + ga * y.
Proof. exact interp_affine. Qed.
Print Assumptions C12_interp_affine.

Theorem C12_interp_continuous_across_edge : forall (M : mesh R) (e1 e2 : Z) (i1 j1 i2 j2 : nat) (t : R),
  (i1 < 3)%nat -> (j1 < 3)%nat -> i1 <> j1 -> (i2 < 3)%nat -> (j2 < 3)%nat -> i2 <> j2 ->
  tda (enodes M e1) <> 0 -> tda (enodes M e2) <> 0 ->
  pidx (gete RA (elems M) e1) i1 = pidx (gete RA (elems M) e2) i2 ->
  pidx (gete RA (elems M) e1) j1 = pidx (gete RA (elems M) e2) j2 ->
  let P := getn RA (nodes M) (pidx (gete RA (elems M) e1) i1) in
  let Q := getn RA (nodes M) (pidx (gete RA (elems M) e1) j1) in
  let x := (1 - t) * nx P + t * nx Q in
  let y := (1 - t) * ny P + t * ny Q in
  tinterp (enodes M e1) x y = tinterp (enodes M e2) x y /\
  tinterp (enodes M e1) x y = (1 - t) * nv P + t * nv Q.
Proof. exact interp_continuous_across_edge. Qed.
Print Assumptions C12_interp_continuous_across_edge.

(* ---- getPointValues (electrostatics, smoothing off), real reading ----------------------- *)
(* V is the interpolant; E is minus its gradient (per metre); D = eo eps E with eps the material
   of the block of the element's label; nrg = D.E/2 *)
Theorem C12_point_values_spec : forall N Rl L Ms lc eo (i : Z) (x y : R),
  (0 <= i < Z.of_nat (length Rl))%Z ->
  let M := load RA N Rl L Ms lc eo in
  let r := nth (Z.to_nat i) Rl dr in
  let n0 := getn RA N (r0 r) in let n1 := getn RA N (r1 r) in let n2 := getn RA N (r2 r) in
  let m := nth (lblk (nth (rlbl r) L (dlabel RA))) Ms (dmat RA) in
  coef_da RA n0 n1 n2 <> 0 -> lc <> 0 -> eo <> 0 -> mex m <> 0 -> mey m <> 0 ->
  let '(V, Dx, Dy, Ex, Ey, epx, epy, nrg) := point_values RA M i x y in
  V = interp RA n0 n1 n2 x y /\
  epx = mex m /\ epy = mey m /\
  (forall dx dy, interp RA n0 n1 n2 (x + dx) (y + dy) - V = - lc * (Ex * dx + Ey * dy)) /\
  Dx = eo * epx * Ex /\ Dy = eo * epy * Ey /\
  nrg = (Dx * Ex + Dy * Ey) / 2.
Proof. exact point_values_spec. Qed.
Print Assumptions C12_point_values_spec.

(* heat flow (constant conductivity): T is the interpolant, G minus its gradient, F = k G *)
Theorem C12_heat_values_spec : forall N Rl L Ms lc eo (i : Z) (x y : R),
  (0 <= i < Z.of_nat (length Rl))%Z ->
  let M := load_h RA N Rl L Ms lc eo in
  let r := nth (Z.to_nat i) Rl dr in
  let n0 := getn RA N (r0 r) in let n1 := getn RA N (r1 r) in let n2 := getn RA N (r2 r) in
  let m := nth (lblk (nth (rlbl r) L (dlabel RA))) Ms (dmat RA) in
  coef_da RA n0 n1 n2 <> 0 -> lc <> 0 -> mex m <> 0 -> mey m <> 0 ->
  let '(T, Fx, Fy, Gx, Gy, Kx, Ky, _) := point_values_h RA M i x y in
  T = interp RA n0 n1 n2 x y /\
  Kx = mex m /\ Ky = mey m /\
  (forall dx dy, interp RA n0 n1 n2 (x + dx) (y + dy) - T = - lc * (Gx * dx + Gy * dy)) /\
  Fx = Kx * Gx /\ Fy = Ky * Gy.
Proof. exact heat_values_spec. Qed.
Print Assumptions C12_heat_values_spec.

(* magnetics (planar, static): A is the interpolant and B its curl *)
Theorem C12_mag_values_spec : forall N Rl L Ms lc eo (i : Z) (x y : R),
  (0 <= i < Z.of_nat (length Rl))%Z ->
  let M := load_m RA N Rl L Ms lc eo in
  let r := nth (Z.to_nat i) Rl dr in
  let n0 := getn RA N (r0 r) in let n1 := getn RA N (r1 r) in let n2 := getn RA N (r2 r) in
  coef_da RA n0 n1 n2 <> 0 -> lc <> 0 ->
  let '(Az, B1, B2, _, _, _, _, _) := point_values_m RA M i x y in
  Az = interp RA n0 n1 n2 x y /\
  (forall dx dy, interp RA n0 n1 n2 (x + dx) (y + dy) - Az = lc * (B1 * dy - B2 * dx)).
Proof. exact mag_values_spec. Qed.
Print Assumptions C12_mag_values_spec.

(* ---- no gap between two elements that share an edge ------------------------------------- *)
Theorem C12_shared_edge_gap_free_real : forall (N : list (node R)) (x y : R) (p q : nat),
  (edge_ord RA N x y p q = true \/ edge_ord RA N x y q p = true) /\
  (edge_hp RA N x y p q = true \/ edge_hp RA N x y q p = true).
Proof. intros. split; [apply shared_edge_gap_free_R|apply shared_edge_gap_free_hp_R]. Qed.
Print Assumptions C12_shared_edge_gap_free_real.

(* on binary64 itself, for the index-ordered test of PostProcessor.cpp / fpproc.cpp *)
Theorem C12_shared_edge_gap_free_float : forall (N : list (node float)) (x y : float) (p q : nat),
  p <> q -> edge_ord FA N x y p q || edge_ord FA N x y q p = true.
Proof. exact shared_edge_gap_free_float. Qed.
Print Assumptions C12_shared_edge_gap_free_float.

(* on binary64, HPProc::InTriangleTest (edges not ordered by node index) DOES leave gaps *)
Theorem C12_hp_shared_edge_gap_free_float_refuted :
  exists (N : list (node float)) (x y : float) (p q : nat), p <> q /\
    edge_hp FA N x y p q = false /\ edge_hp FA N x y q p = false.
Proof. exact hp_shared_edge_gap_refuted. Qed.
Print Assumptions C12_hp_shared_edge_gap_free_float_refuted.

(* ---- non-vacuity ------------------------------------------------------------------------ *)
(* the unit square cut along its diagonal, V = 2 + 3x - y at the nodes, loaded as OpenDocument does *)
Definition exN : list (node R) := [mkNode 0 0 2; mkNode 1 0 5; mkNode 1 1 4; mkNode 0 1 1].
Definition exM : mesh R := load RA exN [mkRelem 0 1 2 0; mkRelem 0 2 3 0] [mkLabel (1/2) (1/4) 0] [mkMat 4 2] 1 1.

Example C12_hypotheses_satisfiable :
  rsqr_loaded exM /\ mesh_ccw exM /\ (0 < nelems (elems exM))%Z /\
  in_mesh_region exM (1/2) (1/4) /\ ~ in_mesh_region exM 2 2.
Proof.
  assert (E0 : enodes exM 0 = (mkNode 0 0 2, mkNode 1 0 5, mkNode 1 1 4)) by reflexivity.
  assert (E1 : enodes exM 1 = (mkNode 0 0 2, mkNode 1 1 4, mkNode 0 1 1)) by reflexivity.
  split; [apply load_gen_rsqr_loaded|].
  assert (Hccw : mesh_ccw exM).
  { intros i Hi. change (nelems (elems exM)) with 2%Z in Hi.
    assert (i = 0 \/ i = 1)%Z as [-> | ->] by lia; [rewrite E0|rewrite E1];
      unfold coef_da, coef_b, coef_c; cbn; lra. }
  split; [exact Hccw|]. split; [reflexivity|]. split.
  - exists 0%Z. split; [cbn; lia|]. rewrite E0.
    exists (1/2), (1/4), (1/4). cbn. repeat split; lra.
  - intros (i & Hi & H). change (nelems (elems exM)) with 2%Z in Hi.
    assert (i = 0 \/ i = 1)%Z as [-> | ->] by lia; [rewrite E0 in H|rewrite E1 in H];
      destruct H as (l0 & l1 & l2 & H0 & H1 & H2 & Hs & Hx & Hy); cbn in Hx, Hy; lra.
Qed.

Example C12_interp_example :
  tinterp (enodes exM 0) (1/2) (1/4) = 2 + 3 * (1/2) - 1/4.
Proof.
  assert (E0 : enodes exM 0 = (mkNode 0 0 2, mkNode 1 0 5, mkNode 1 1 4)) by reflexivity.
  rewrite E0. cbn [tinterp].
  rewrite (interp_affine _ _ _ 2 3 (-1)); cbn; try lra.
Qed.
