(* UnitsProofs.v — C10: the unit tables agree, and the assembled element equations obey the
   dimensional scaling law: scaling all lengths (coordinates and depth) by s multiplies the
   stiffness by s and the volume-source load by s^3 (electrostatics model AsmE). *)
From Coq Require Import ZArith QArith List Bool Arith Lia Reals Lra.
From XF.gen Require Import Tables.
From XF Require Import Arith Sparse AsmE AsmEProofs Units.
Import ListNotations.

Theorem tables_consistent : tables_consistent_b = true.
Proof. vm_compute. reflexivity. Qed.

(* the table AsmE uses is the regenerated esolver table *)
Local Open Scope R_scope.
Lemma eunits_match_generated :
  map (fun q : Q => IZR (Qnum q) / IZR (Z.pos (Qden q))) esolver_units = eunits RA.
Proof.
  unfold esolver_units, eunits, adec. cbn. ra_simpl.
  repeat (f_equal; try lra).
Qed.

Section Scaling.
  Variables (P P' : eprob (F:=R)) (extRo extRi extZo D0 k0 s : R) (el : eelem).
  Hypothesis Hs : s <> 0.
  Hypothesis Hee : ee el = (None, None, None).
  Let nd (Q : eprob (F:=R)) (t : nat) := nth (tri_get (ep el) t) (nodes Q) (dnode RA).
  Hypothesis Hx : forall t, (t < 3)%nat -> nx (nd P' t) = s * nx (nd P t).
  Hypothesis Hy : forall t, (t < 3)%nat -> ny (nd P' t) = s * ny (nd P t).
  Hypothesis Hblocks : blocks P' = blocks P.
  Hypothesis Heo : eo P' = eo P.
  Hypothesis Ha : ga (el_geom P el) <> 0.
  (* the assembled Depth scales with the lengths and the external-region factor does not change:
     true for planar problems when the declared depth is scaled, and for axisymmetric elements
     outside the external region (Depth = 2 pi r) *)
  Hypothesis Hdk1 : fst (elem_dk P' extRo extRi extZo (s * D0) k0 el) = s * fst (elem_dk P extRo extRi extZo D0 k0 el).
  Hypothesis Hdk2 : snd (elem_dk P' extRo extRi extZo (s * D0) k0 el) = snd (elem_dk P extRo extRi extZo D0 k0 el).
  Hypothesis Hkl : snd (elem_dk P extRo extRi extZo D0 k0 el) <> 0.

  Lemma geom_scaled :
    gp (el_geom P' el) = map (Rmult s) (gp (el_geom P el)) /\
    gq (el_geom P' el) = map (Rmult s) (gq (el_geom P el)) /\
    ga (el_geom P' el) = s * s * ga (el_geom P el).
  Proof.
    unfold el_geom, geom. cbn [gp gq ga]. fold (nd P' 0%nat) (nd P' 1%nat) (nd P' 2%nat) (nd P 0%nat) (nd P 1%nat) (nd P 2%nat).
    rewrite !Hx, !Hy by lia. cbn [map vget nth]. ra_simpl.
    split; [repeat (f_equal; try lra)|]. split; [repeat (f_equal; try lra)|]. unfold vget. cbn [nth]. field.
  Qed.

  (* stiffness scales with s, volume-charge load with s^3 *)
  Theorem element_scaling j k : (j < 3)%nat -> (k < 3)%nat ->
    let r := elem_matrices RA P extRo extRi extZo D0 k0 el in
    let r' := elem_matrices RA P' extRo extRi extZo (s * D0) k0 el in
    m3get RA (snd (fst r')) j k = s * m3get RA (snd (fst r)) j k /\
    vget RA (snd r') j = s * s * s * vget RA (snd r) j.
  Proof.
    intros Hj Hk r r'.
    destruct (elem_matrices_noedge P extRo extRi extZo D0 k0 el Hee) as (_ & _ & HM & HB).
    destruct (elem_matrices_noedge P' extRo extRi extZo (s * D0) k0 el Hee) as (_ & _ & HM' & HB').
    destruct geom_scaled as (Gp & Gq & Ga).
    unfold r, r'. rewrite (HM' j k Hj Hk), (HM j k Hj Hk), (HB' j Hj), (HB j Hj).
    rewrite Hdk1, Hdk2, Hblocks, Gp, Gq, Ga. unfold cconst. rewrite Heo.
    set (g := el_geom P el) in *.
    assert (V1 : forall t, (t < 3)%nat -> vget RA (map (Rmult s) (gp g)) t = s * vget RA (gp g) t).
    { intros t Ht. unfold g, el_geom, geom. cbn [gp]. destruct t as [|[|[|t]]]; try lia; reflexivity. }
    assert (V2 : forall t, (t < 3)%nat -> vget RA (map (Rmult s) (gq g)) t = s * vget RA (gq g) t).
    { intros t Ht. unfold g, el_geom, geom. cbn [gq]. destruct t as [|[|[|t]]]; try lia; reflexivity. }
    rewrite !V1, !V2 by assumption.
    split; field; repeat split; assumption.
  Qed.
End Scaling.
