(* IntegralsH.v — executable model of the heat-flow post-processor's block integrals:
     HPProc::OpenDocument   (depth scaling, element centroids, getElementD loop)
     HPProc::getElementD    (cfemm/hpproc/hpproc.cpp:368-394)
     HPProc::E              (hpproc.cpp:837-849)
     HPProc::blockIntegral  (hpproc.cpp:570-632, integral types 0..4)
   statement by statement, CComplex operators written out, same operation order.
   HPProc is a femm::PostProcessor like the electrostatics post-processor: Ctr, ElmArea, AECF are
   the same member functions, and the statements that are character for character those of
   epproc.cpp (the depth scaling, a = ElmArea*LengthConv^2, R, a *= 2 PI R | Depth, the gradient
   loop E -= T*(b+I*c)/(da*LengthConv)) are NOT copied: IntegralsE's definitions are applied to the
   electrostatic "view" [ih_view] of the heat problem.  (hpproc writes pow(LengthConv,2.) where
   epproc writes sqr(LengthConv); the compiler turns both into one multiplication — checked by
   the correspondence.)  The conductivity CHMaterialProp::GetK is KT.getk.  No proofs here. *)
From Coq Require Import ZArith List Bool Arith.
From XF Require Import Arith Sparse AsmE KT Integrals IntegralsE.
Import ListNotations.

Section IntegralsH.
  Context {F : Type} (A : Arith F).
  Local Notation "x +. y" := (aadd A x y) (at level 50, left associativity).
  Local Notation "x -. y" := (asub A x y) (at level 50, left associativity).
  Local Notation "x *. y" := (amul A x y) (at level 40, left associativity).
  Local Notation "x /. y" := (adiv A x y) (at level 40, left associativity).
  Local Notation zero := (azero A).
  Local Notation one := (aone A).
  Local Notation "'#' z" := (aofZ A z) (at level 9).
  Local Notation cx := (F * F)%type.

  (* CHMaterialProp: Kx, Ky and the T-k table Kn[0..npts-1] *)
  Record ih_mat := mkIHMat { ih_kx : F; ih_ky : F; ih_tk : list (F * F) }.
  (* nodes are CHMeshNode x y T Q: IntegralsE's ie_node with V := T *)
  Record ih_prob := mkIHProb {
    ih_axi : bool; ih_lc : F; ih_depth_file : F; ih_extZo : F; ih_extRo : F; ih_extRi : F;
    ih_nodes : list (ie_node (F:=F)); ih_elems : list ie_elem; ih_label_ext : list bool;
    ih_mats : list ih_mat }.

  Definition ih_dmat := mkIHMat zero zero [].

  Definition ih_view (P : ih_prob) : ie_prob (F:=F) :=
    mkIEProb (ih_axi P) (ih_lc P) (ih_depth_file P) (ih_extZo P) (ih_extRo P) (ih_extRi P) one
             (ih_nodes P) (ih_elems P) (ih_label_ext P) [].

  Definition ih_T (P : ih_prob) (el : ie_elem) (j : nat) : F := ie_V (ie_nd A (ih_view P) el j).

  (* kn=0; for i: kn+=GetK(node_i->T)/3. *)
  Definition ih_kn (P : ih_prob) (el : ie_elem) : cx :=
    let m := nth (ie_blk el) (ih_mats P) ih_dmat in
    let g := fun j => cdivr A (getk A (ih_kx m) (ih_ky m) (ih_tk m) (ih_T P el j)) #3 in
    cadd A (cadd A (cadd A (czero A) (g 0)) (g 1)) (g 2).

  Definition ih_aecf (P : ih_prob) (el : ie_elem) : F := ie_aecf A (ih_view P) el.

  (* getElementD : elem->D=(E.re*kn.re + I*E.im*kn.im)/AECF(elem) *)
  Definition ih_D (P : ih_prob) (el : ie_elem) : cx :=
    let E := ie_gradE A (ih_view P) el in
    let kn := ih_kn P el in
    cdivr A (dplusc A (fst E *. fst kn) (cmuld A (ci_times A (snd E)) (snd kn))) (ih_aecf P el).

  (* E(elem) : (elem->D.re/Re(kn) + I*elem->D.im/Im(kn)) * AECF(elem) *)
  Definition ih_E (P : ih_prob) (el : ie_elem) (D : cx) : cx :=
    let kn := ih_kn P el in
    cmuld A (dplusc A (fst D /. fst kn) (cdivr A (ci_times A (snd D)) (snd kn))) (ih_aecf P el).

  Definition ih_area (P : ih_prob) (el : ie_elem) : F := ie_area A (ih_view P) el.
  Definition ih_vol (P : ih_prob) (el : ie_elem) : F := ie_vol A (ih_view P) el.

  (* T=0; for k: T+=node_k->T/3. *)
  Definition ih_Tavg (P : ih_prob) (el : ie_elem) : F :=
    zero +. ih_T P el 0 /. #3 +. ih_T P el 1 /. #3 +. ih_T P el 2 /. #3.

  Definition ih_Ds (P : ih_prob) : list cx := map (ih_D P) (ih_elems P).

  Definition ih_step (P : ih_prob) (sel : list bool) (t : nat) (z : cx) (eD : ie_elem * cx) : cx :=
    let '(el, D) := eD in
    if selected sel (ie_lbl el) then
      match t with
      | 0 => caddd A z (ih_vol P el *. ih_Tavg P el)
      | 1 => caddd A z (ih_area P el)
      | 2 => caddd A z (ih_vol P el)
      | 3 => cadd A z (dmulc A (ih_vol P el) D)
      | 4 => cadd A z (dmulc A (ih_vol P el) (ih_E P el D))
      | _ => z
      end
    else z.

  Definition ih_loop (P : ih_prob) (Ds : list cx) (sel : list bool) (t : nat) : cx :=
    fold_left (ih_step P sel t) (combine (ih_elems P) Ds) (czero A).

  (* if((inttype==0) || (inttype==3) || (inttype==4)) z/=blockIntegral(2); *)
  Definition ih_block_integral (P : ih_prob) (Ds : list cx) (sel : list bool) (t : nat) : cx :=
    let r := ih_loop P Ds sel t in
    if Nat.eqb t 0 || Nat.eqb t 3 || Nat.eqb t 4 then cdiv A r (ih_loop P Ds sel 2) else r.
End IntegralsH.
