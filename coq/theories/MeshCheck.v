(* MeshCheck.v — executable exact-arithmetic validator for the mesh files written by fmesher
   (.node/.ele/.edge) against the planar straight-line graph handed to Triangle (.poly).
   All coordinates are integers: every binary64 is a dyadic rational, the harness scales all
   coordinates of one mesh by a common power of two (exactly) before handing them over, so
   every predicate below is exact.  Model file (no proofs). *)
From Coq Require Import ZArith List Bool Arith PArith FMapPositive Lia.
Import ListNotations.
Local Open Scope Z_scope.

Definition pt := (Z * Z)%type.
Definition tri := (Z * Z * Z)%type.            (* node ids *)
Definition dedge := (Z * Z)%type.              (* directed edge *)

Definition ptget (X : list pt) (i : Z) : pt := nth (Z.to_nat i) X (0, 0).

(* twice the signed area of (a,b,c) = orient2d *)
Definition orient (a b c : pt) : Z :=
  (fst b - fst a) * (snd c - snd a) - (fst c - fst a) * (snd b - snd a).
Definition area2 (X : list pt) (t : tri) : Z :=
  let '(a, b, c) := t in orient (ptget X a) (ptget X b) (ptget X c).
Definition cross (X : list pt) (e : dedge) : Z :=
  let u := ptget X (fst e) in let v := ptget X (snd e) in fst u * snd v - fst v * snd u.

Definition dedges (t : tri) : list dedge := let '(a, b, c) := t in [(a, b); (b, c); (c, a)].
Definition all_dedges (ts : list tri) : list dedge := flat_map dedges ts.
Definition revE (e : dedge) : dedge := (snd e, fst e).

(* ---- range / orientation ---- *)
Definition in_range (n : Z) (i : Z) : bool := (0 <=? i) && (i <? n).
Definition chk_range (n : Z) (ts : list tri) : bool :=
  forallb (fun t => let '(a, b, c) := t in in_range n a && in_range n b && in_range n c) ts.
Definition chk_ccw (X : list pt) (ts : list tri) : bool := forallb (fun t => 0 <? area2 X t) ts.

(* ---- edge table: key of a directed edge among n nodes ---- *)
Definition ekey (n : Z) (e : dedge) : positive := Z.to_pos (fst e * n + snd e + 1).

(* insert all directed edges (value = index of the owning element); None on a duplicate *)
Fixpoint build_table (n : Z) (es : list (dedge * Z)) (m : PositiveMap.t Z) : option (PositiveMap.t Z) :=
  match es with
  | [] => Some m
  | (e, own) :: t =>
      match PositiveMap.find (ekey n e) m with
      | Some _ => None
      | None => build_table n t (PositiveMap.add (ekey n e) own m)
      end
  end.

Definition owned_dedges (ts : list tri) : list (dedge * Z) :=
  concat (map (fun it => map (fun e => (e, fst it)) (dedges (snd it)))
              (combine (map Z.of_nat (seq 0 (length ts))) ts)).

Definition edge_table (n : Z) (ts : list tri) : option (PositiveMap.t Z) :=
  build_table n (owned_dedges ts) (PositiveMap.empty Z).

Definition has_edge (n : Z) (m : PositiveMap.t Z) (e : dedge) : bool :=
  match PositiveMap.find (ekey n e) m with Some _ => true | None => false end.

(* boundary = directed edges whose reverse is not an element edge *)
Definition boundary (n : Z) (m : PositiveMap.t Z) (ts : list tri) : list dedge :=
  filter (fun e => negb (has_edge n m (revE e))) (all_dedges ts).

Definition sumZ {E} (f : E -> Z) (l : list E) : Z := fold_right (fun x acc => f x + acc) 0 l.

(* ---- geometry on segments ---- *)
(* c lies on the closed segment [a,b]: inside its bounding box and within 2^-40 |ab| of the
   line through a and b (Steiner points that Triangle inserts on a segment are computed in
   floating point, so they are on the line only up to rounding) *)
Definition two80 : Z := Eval vm_compute in 2 ^ 80.
Definition on_segment (a b c : pt) : bool :=
  (* cheap bounding-box tests first (vm_compute is call-by-value: use if, not &&) *)
  if Z.min (fst a) (fst b) <=? fst c then
  if fst c <=? Z.max (fst a) (fst b) then
  if Z.min (snd a) (snd b) <=? snd c then
  if snd c <=? Z.max (snd a) (snd b) then
    let o := orient a b c in
    if o =? 0 then true
    else
      let l2 := (fst b - fst a) * (fst b - fst a) + (snd b - snd a) * (snd b - snd a) in
      o * o * two80 <=? l2 * l2
  else false else false else false else false.

(* squared distance and the parameter order along a->b *)
Definition dot_along (a b c : pt) : Z := (fst c - fst a) * (fst b - fst a) + (snd c - snd a) * (snd b - snd a).

Record pslg := mkPslg {
  ppoints : Z;                                  (* number of input vertices (kept first in .node) *)
  psegs : list (Z * Z * Z);                     (* (u, v, marker) *)
  pholes : list pt;
  pregions : list (pt * Z * Z)                  (* (point, attribute, max area scaled: 2*area bound numer) *)
}.

Record mesh := mkMesh {
  mX : list pt;
  mnodemark : list Z;
  mtris : list tri;
  mattr : list Z;                               (* regional attribute per element *)
  medges : list (Z * Z * Z)                     (* .edge file: (u, v, marker) *)
}.

(* walk from u to v along mesh edges lying on the segment (u,v): at each step take a mesh edge
   (cur,w) with w on [cur,v], w <> cur, strictly closer to v; neighbours are given by [nbrs]. *)
Fixpoint walk_chain (fuel : nat) (X : list pt) (nbrs : Z -> list Z) (cur v : Z) (acc : list Z) : option (list Z) :=
  match fuel with
  | O => None
  | S f =>
      if cur =? v then Some (rev (cur :: acc))
      else
        let pc := ptget X cur in
        let pv := ptget X v in
        match filter (fun w => negb (w =? cur) && on_segment pc pv (ptget X w)) (nbrs cur) with
        | [] => None
        | w0 :: ws =>
            (* nearest to cur among the candidates on [cur, v] *)
            let best := fold_left (fun b w => if dot_along pc pv (ptget X w) <? dot_along pc pv (ptget X b) then w else b) ws w0 in
            walk_chain f X nbrs best v (cur :: acc)
        end
  end.

(* adjacency: successors of a node along directed element edges (both directions are present
   for interior edges; for a boundary edge only one direction, so we add the reverse too) *)
Definition build_nbrs (ts : list tri) : PositiveMap.t (list Z) :=
  fold_left (fun m e =>
    let add1 (m : PositiveMap.t (list Z)) (a b : Z) :=
      let k := Z.to_pos (a + 1) in
      PositiveMap.add k (b :: match PositiveMap.find k m with Some l => l | None => [] end) m in
    add1 (add1 m (fst e) (snd e)) (snd e) (fst e)) (all_dedges ts) (PositiveMap.empty (list Z)).
Definition nbrs_of (m : PositiveMap.t (list Z)) (a : Z) : list Z :=
  match PositiveMap.find (Z.to_pos (a + 1)) m with Some l => l | None => [] end.

(* every PSLG segment is a chain of mesh edges *)
Definition chk_chains (M : mesh) (P : pslg) (nb : PositiveMap.t (list Z)) : list (Z * Z * Z) :=
  filter (fun s => let '(u, v, _) := s in
            match walk_chain (S (length (mX M))) (mX M) (nbrs_of nb) u v [] with Some _ => false | None => true end)
         (psegs P).

(* every boundary edge of the mesh lies on some PSLG segment *)
Definition on_some_segment (X : list pt) (segs : list (Z * Z * Z)) (e : dedge) : bool :=
  existsb (fun s => let '(u, v, _) := s in
             on_segment (ptget X u) (ptget X v) (ptget X (fst e)) &&
             on_segment (ptget X u) (ptget X v) (ptget X (snd e))) segs.

(* point strictly inside or on the border of a CCW triangle *)
Definition in_tri (X : list pt) (t : tri) (p : pt) : bool :=
  let '(a, b, c) := t in
  (0 <=? orient (ptget X a) (ptget X b) p) && (0 <=? orient (ptget X b) (ptget X c) p) &&
  (0 <=? orient (ptget X c) (ptget X a) p).

Record report := mkReport {
  r_range : bool; r_ccw : bool; r_manifold : bool;
  r_area_mesh : Z; r_area_boundary : Z;
  r_bad_chains : list (Z * Z * Z);
  r_bad_boundary : list dedge;
  r_bad_attr_pairs : list (Z * Z);           (* element pairs across a non-PSLG edge with different attributes *)
  r_bad_regions : list Z;                    (* region indices whose point is not in an element of that attribute *)
  r_bad_holes : list Z;                      (* hole indices lying in some element *)
  r_bad_points : list Z;                     (* input vertices not reproduced exactly / marker changed *)
  r_bad_edge_marks : list (Z * Z * Z) }.      (* .edge entries whose marker is not that of the PSLG segment they lie on *)

Definition check_mesh (M : mesh) (P : pslg) (pidx : list Z) (ppts : list pt) (pmarks : list Z) : report :=
  let X := mX M in
  let n := Z.of_nat (length X) in
  let ts := mtris M in
  let rng := chk_range n ts in
  let ccw := chk_ccw X ts in
  match (if rng then edge_table n ts else None) with
  | None => mkReport rng ccw false 0 0 [] [] [] [] [] [] []
  | Some tab =>
      let bd := boundary n tab ts in
      let nb := build_nbrs ts in
      let attr := fun i => nth (Z.to_nat i) (mattr M) 0 in
      let bad_attr :=
        concat (map (fun it =>
          let '(i, t) := it in
          concat (map (fun e =>
            match PositiveMap.find (ekey n (revE e)) tab with
            | Some j => if (i <? j) && negb (attr i =? attr j) && negb (on_some_segment X (psegs P) e)
                        then [(i, j)] else []
            | None => [] end) (dedges t)))
          (combine (map Z.of_nat (seq 0 (length ts))) ts)) in
      let bad_regions :=
        concat (map (fun ir =>
          let '(k, (p, a, _)) := ir in
          if existsb (fun it => in_tri X (snd it) p && (attr (fst it) =? a))
                     (combine (map Z.of_nat (seq 0 (length ts))) ts) then [] else [k])
          (combine (map Z.of_nat (seq 0 (length (pregions P)))) (pregions P))) in
      let bad_holes :=
        concat (map (fun ih =>
          let '(k, p) := ih in
          if existsb (fun t => let '(a, b, c) := t in
                        (0 <? orient (ptget X a) (ptget X b) p) && (0 <? orient (ptget X b) (ptget X c) p) &&
                        (0 <? orient (ptget X c) (ptget X a) p)) ts then [k] else [])
          (combine (map Z.of_nat (seq 0 (length (pholes P)))) (pholes P))) in
      let bad_points :=
        concat (map (fun ip =>
          let '(k, (p, mk)) := ip in
          let q := ptget X k in
          let nm := nth (Z.to_nat k) (mnodemark M) 0 in
          (* Triangle overwrites a zero vertex marker with the marker of a segment through the vertex
             (negative for FEMM entities, 1 on the hull): both decode to 'no point property' *)
          if (fst p =? fst q) && (snd p =? snd q) && (if 1 <? mk then nm =? mk else nm <=? 1) then [] else [k])
          (combine pidx (combine ppts pmarks))) in
      mkReport rng ccw true (sumZ (area2 X) ts) (sumZ (cross X) bd)
               (chk_chains M P nb)
               (filter (fun e => negb (on_some_segment X (psegs P) e)) bd)
               bad_attr bad_regions bad_holes bad_points
               (filter (fun em =>
                  let '(u, v, mk) := em in
                  match filter (fun s => let '(a, b, _) := s in
                                  on_segment (ptget X a) (ptget X b) (ptget X u) &&
                                  on_segment (ptget X a) (ptget X b) (ptget X v)) (psegs P) with
                  | [] => mk <? 0                       (* not on a drawn entity: no FEMM marker allowed *)
                  | ss => negb (existsb (fun s => let '(_, _, m) := s in
                                           if m =? 0 then (0 <=? mk) else (mk =? m)) ss)
                  end) (medges M))
  end.

Definition report_ok (r : report) : bool :=
  r_range r && r_ccw r && r_manifold r && (r_area_mesh r =? r_area_boundary r) &&
  match r_bad_chains r, r_bad_boundary r, r_bad_attr_pairs r, r_bad_regions r, r_bad_holes r, r_bad_points r, r_bad_edge_marks r with
  | [], [], [], [], [], [], [] => true
  | _, _, _, _, _, _, _ => false
  end.

Definition report_summary (r : report) :=
  (r_range r, r_ccw r, r_manifold r, r_area_mesh r, r_area_boundary r, r_bad_chains r, r_bad_boundary r,
   r_bad_attr_pairs r, r_bad_regions r, r_bad_holes r, r_bad_points r, r_bad_edge_marks r).
