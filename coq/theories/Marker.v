(* Marker.v — the integer codec that carries point/boundary properties and conductors through
   Triangle's vertex and segment markers: encoder in fmesher (writepoly.cpp:
   TriangulateHelper::initPointsWithMarkers / initSegmentsWithMarkers), decoders in the three
   solvers' LoadMesh.  `int` is 32-bit two's complement: the wrap is written explicitly.
   The constants come from gen/MarkerConsts.v, regenerated from the sources on every run. *)
From Coq Require Import ZArith List Bool.
From XF.gen Require Import MarkerConsts.
Import ListNotations.
Local Open Scope Z_scope.

Definition wrap32 (z : Z) : Z := (z + 2 ^ 31) mod 2 ^ 32 - 2 ^ 31.

Definition oz (o : option Z) (f : Z -> Z) : Z := match o with Some j => f j | None => 0 end.

(* fmesher: t = j + 2 for the matching point property, t += (c+1)*0x10000 for the conductor *)
Definition enc_pt (prop cond : option Z) : Z :=
  wrap32 (oz prop (fun j => j + enc_offset) + oz cond (fun c => (c + 1) * enc_cond_mul)).
Definition enc_pt_mag (prop : option Z) : Z := wrap32 (oz prop (fun j => j + enc_offset)).
(* segments: t = -(j+2), t -= (c+1)*0x10000 *)
Definition enc_seg (prop cond : option Z) : Z :=
  wrap32 (- oz prop (fun j => j + enc_offset) - oz cond (fun c => (c + 1) * enc_cond_mul)).
Definition enc_seg_mag (prop : option Z) : Z := wrap32 (- oz prop (fun j => j + enc_offset)).

Definition onat (z : Z) : option Z := if z <? 0 then None else Some z.

(* esolver / hsolver LoadMesh, node markers:
     if (n > 1) { j = n & 0xffff; j = j - 2; if (j<0) j = -1; n = (n - (n & 0xffff))/0x10000 - 1; }
     else { j = -1; n = -1; } *)
Definition dec_pt (n : Z) : option Z * option Z :=
  if 1 <? n then
    let j := Z.land n dec_mask - dec_offset in
    (onat j, onat (Z.quot (n - Z.land n dec_mask) dec_cond_div - 1))
  else (None, None).
(* fsolver LoadMesh: if (j>1) j=j-2; else j=-1; *)
Definition dec_pt_mag (n : Z) : option Z := if 1 <? n then Some (n - dec_offset_mag) else None.

(* .edge markers:  if (n<0) { n=-n; j=(n & 0xffff)-2; if (j<0) j=-1; n=(n-(n&0xffff))/0x10000-1; } else j=-1; *)
Definition dec_seg (n : Z) : option Z * option Z :=
  if n <? 0 then
    let m := wrap32 (- n) in
    let j := Z.land m dec_mask - dec_offset in
    (onat j, onat (Z.quot (m - Z.land m dec_mask) dec_cond_div - 1))
  else (None, None).
Definition dec_seg_mag (n : Z) : option Z := if n <? 0 then onat (wrap32 (- (n + dec_offset_mag))) else None.

(* numeric views for the correspondence check (-1 = none) *)
Definition o2z (o : option Z) : Z := match o with Some z => z | None => -1 end.
Definition dec_pt_z (n : Z) : Z * Z := (o2z (fst (dec_pt n)), o2z (snd (dec_pt n))).
Definition dec_seg_z (n : Z) : Z * Z := (o2z (fst (dec_seg n)), o2z (snd (dec_seg n))).
Definition dec_pt_mag_z (n : Z) : Z := o2z (dec_pt_mag n).
Definition dec_seg_mag_z (n : Z) : Z := o2z (dec_seg_mag n).
