(* AsmMPrev.v — executable model of the PREVIOUS-SOLUTION branches of the planar magnetics solvers:
   FSolver::Static2D with bIncremental = PrevType = 1 (incremental permeability) or 2 (frozen permeability)
   (cfemm/fsolver/static2d.cpp:70-73, 633-679, 800-805) and FSolver::Harmonic2D with a DC previous solution
   (cfemm/fsolver/harmonic2d.cpp:53-55, 556-592, 683-687), with
     FSolver::getPrev2DB                       (cfemm/fsolver/fsolver.cpp:174-197)  the previous flux density of an element,
     CMMaterialProp::Get_v                     (cfemm/libfemm/CMaterialProp.cpp:904-909),
     CMMaterialProp::IncrementalPermeability   (CMaterialProp.cpp:913-938)          (B -> muinc, murel), the DC overload,
     CMMaterialProp::incrementalPermeability   (CMaterialProp.cpp:852-902)          the AC overload, unlaminated branch,
   statement by statement and in the same floating-point operation order, on top of AsmM.v / AsmMNL.v (everything of the
   element loop that does not depend on the permeabilities: el_parts; the scatter; what follows the element loop: nl_finish),
   AsmMH.v and BH.v (the table GetSlopes left, GetdHdB, the base-class GetH(double)).
   With bIncremental <> 0 LinearFlag stays true: the do-while of Static2D runs ONCE (Iter = 0, Mn = 0, L.V = 0).
   Inputs after loading: the problem data, the B-H tables, Aprev (one value per node, Wb/m as printed in the .ans file).
   NOT modelled: the reader (FSolver::loadPreviousSolution), air-gap elements, polar boundary coordinates, the AC overload's
   laminated branches (Lam_d <> 0 and LamFill <> 0), axisymmetric problems (getPrevAxiB).  A nonlinear block laminated on edge
   makes the C++ print a message and exit(0): prev_exits.
   No proofs in this file. *)
From Coq Require Import ZArith List Bool Arith.
From XF Require Import Arith Sparse AsmE AsmM BH AsmMNL.
Import ListNotations.

Section AsmMPrev.
  Context {F : Type} (A : Arith F).
  Local Notation "x +. y" := (aadd A x y) (at level 50, left associativity).
  Local Notation "x -. y" := (asub A x y) (at level 50, left associativity).
  Local Notation "x *. y" := (amul A x y) (at level 40, left associativity).
  Local Notation "x /. y" := (adiv A x y) (at level 40, left associativity).
  Local Notation zero := (azero A).
  Local Notation one := (aone A).
  Local Notation "'#' z" := (aofZ A z) (at level 9).
  Local Notation linF := (lin (F:=F)).
  Local Notation matF := (mat (F:=F)).
  Local Notation probF := (mprob (F:=F)).
  Local Notation elemF := (melem (F:=F)).
  Local Notation blockF := (mblock (F:=F)).

  (* constexpr double LengthConvMeters[6] = {0.0254, 0.001, 0.01, 1., 2.54e-05, 1.e-06}  (libfemm/femmenums.h) *)
  Definition lenconv_meters : list F :=
    [adec A 254 (-4); adec A 1 (-3); adec A 1 (-2); one; adec A 254 (-7); adec A 1 (-6)].
  (* the factor FSolver::getPrevAxiB uses ("since all node positions were converted to units of cm the proper LengthConv
     converts centimeters to meters": double LengthConv = 0.01), as a table: what getPrev2DB needs (findings/XPREV-2) *)
  Definition lenconv_cm : list F := repeat (adec A 1 (-2)) 6.

  (* the table the source uses in getPrev2DB: tools/props/xprev.py reads it from fsolver.cpp and passes
     lenconv_meters (shipped) or lenconv_cm *)
  Variable lct : list F.

  (* FSolver::getPrev2DB(k, B1p, B2p): b[] = gp, c[] = gq of AsmE.geom (node coordinates in cm);
       da=(b[0]*c[1]-b[1]*c[0]);  B1p=0; B2p=0;
       for i: B1p+=Aprev[n[i]]*c[i]/(da*LengthConvMeters[LengthUnits]);  B2p-=Aprev[n[i]]*b[i]/(da*LengthConvMeters[LengthUnits]); *)
  Definition prev2DB (P : probF) (Aprev : list F) (el : elemF) : F * F :=
    let g := mel_geom A P el in
    let b := gp g in
    let c := gq g in
    let da := vget A b 0 *. vget A c 1 -. vget A b 1 *. vget A c 0 in
    let lc := nth (unit_idx P) lct one in
    fold_left (fun acc i =>
      let ap := vget A Aprev (tri_get (mp el) i) in
      (fst acc +. ap *. vget A c i /. (da *. lc), snd acc -. ap *. vget A b i /. (da *. lc)))
      [0; 1; 2] (zero, zero).

  (* B = sqrt(B1p*B1p + B2p*B2p) *)
  Definition prevB (B1p B2p : F) : F := asqrt A (B1p *. B1p +. B2p *. B2p).

  (* CMMaterialProp::Get_v(double B):  if (B==0) return slope[0];  return (GetH(B)/B);   GetH = the base class's
     double GetH(const double) const = BH.getH_base *)
  Definition get_v (m : matF) (B : F) : F * F :=
    if aeqb A B zero then nth 0 (mS m) (czero A) else cofd A (getH_base A m B /. B).

  (* CMMaterialProp::IncrementalPermeability(const double B, double &mu1, double &mu2): (mu1, mu2) = (muinc, murel) *)
  Definition incr_perm (m : matF) (blk : blockF) (B : F) : F * F :=
    let muinc := one /. (mMuo m *. fst (getdHdB A m B)) in
    let murel := one /. (mMuo m *. fst (get_v m B)) in
    if aeqb A (bLamd blk) zero || aeqb A (bLamFill blk) zero then (muinc, murel)
    else (muinc *. bLamFill blk +. (one -. bLamFill blk), murel *. bLamFill blk +. (one -. bLamFill blk)).

  (* static2d.cpp:658-679: (mu1, mu2, v12) of the element from (B1p, B2p), B, (muinc, murel);  inc = bIncremental *)
  Definition prev_tensor (inc : nat) (B1p B2p B muinc murel : F) : F * F * F :=
    if aeqb A B zero then (muinc, muinc, zero)
    else if Nat.eqb inc 1 then
      (B *. B *. muinc *. murel /. (B1p *. B1p *. murel +. B2p *. B2p *. muinc),
       B *. B *. muinc *. murel /. (B1p *. B1p *. muinc +. B2p *. B2p *. murel),
       aneg A B1p *. B2p *. (murel -. muinc) /. (B *. B *. murel *. muinc))
    else (murel, murel, zero).

  (* Iter == 0 (static2d.cpp:603-681): (mu1, mu2, v12) of one element; CElement's constructor leaves v12 = 0 *)
  Definition el_tensor (P : probF) (mats : list matF) (inc : nat) (Aprev : list F) (el : elemF) : F * F * F :=
    let blk := nth (mblk el) (mblocks P) (dmblock A) in
    let m := nth (mblk el) mats (dmat A) in
    if Nat.eqb (bhpoints m) 0 || Nat.eqb inc 0 then (fst (el_mu A blk), snd (el_mu A blk), zero)
    else
      let B12 := prev2DB P Aprev el in
      let B := prevB (fst B12) (snd B12) in
      let mm := incr_perm m blk B in
      prev_tensor inc (fst B12) (snd B12) B (fst mm) (snd mm).

  (* if (blockproplist[k].LamType > 0) { PrintMessage("On-edge Lam Types not yet supported ..."); exit(0); } *)
  Definition prev_exits (P : probF) (mats : list matF) (inc : nat) : bool :=
    negb (Nat.eqb inc 0) &&
    existsb (fun el => negb (Nat.eqb (bhpoints (nth (mblk el) mats (dmat A))) 0)
                       && Nat.ltb 0 (bLamType (nth (mblk el) (mblocks P) (dmblock A)))) (melems P).

  (* for j for k: Me[j][k] += Mx[j][k]/Re(mu2) + My[j][k]/Re(mu1) + Mxy[j][k]*Re(v12) + Mn[j][k];   Mn = 0
     (be[j] += Mn[j][k]*L.V[n[k]] adds 0*0)   (static2d.cpp:800-805) *)
  Definition prev_combine (Me Mx My Mxy : list F) (mu1 mu2 v12 : F) : list F :=
    fold_left (fun Me jk =>
      let '(j, k) := jk in
      m3add A Me j k (m3get A Mx j k /. mu2 +. m3get A My j k /. mu1 +. m3get A Mxy j k *. v12 +. zero))
      idx9 Me.

  (* element matrices (Me, be) and the element's (mu1, mu2, v12) *)
  Definition prev_elem_matrices (P : probF) (mats : list matF) (res : list (nat * F * F)) (inc : nat) (Aprev : list F)
             (el : elemF) : list F * list F * (F * F * F) :=
    let parts := el_parts A P res el in
    let t := el_tensor P mats inc Aprev el in
    (prev_combine (snd (fst parts)) (fst (fst (fst (fst parts)))) (snd (fst (fst (fst parts)))) (snd (fst (fst parts)))
                  (fst (fst t)) (snd (fst t)) (snd t),
     snd parts, t).

  Definition prev_elem_step (P : probF) (mats : list matF) (res : list (nat * F * F)) (inc : nat) (Aprev : list F)
             (s : list (list (nat * F)) * list F * list (F * F * F)) (el : elemF)
    : list (list (nat * F)) * list F * list (F * F * F) :=
    let r := prev_elem_matrices P mats res inc Aprev el in
    let Mb := mscatter A (mp el) (fst (fst r)) (snd (fst r)) (fst (fst s)) (snd (fst s)) in
    (fst Mb, snd Mb, snd r :: snd s).

  (* the one pass of the loop body up to L.PCGSolve *)
  Definition prev_pass (P : probF) (mats : list matF) (res : list (nat * F * F)) (inc : nat) (Aprev : list F) (L0 : linF)
    : linF * list (F * F * F) :=
    let s := fold_left (prev_elem_step P mats res inc Aprev) (melems P) (lM L0, lb L0, []) in
    (nl_finish A P L0 (fst (fst s)) (snd (fst s)), rev (snd s)).

  (* the system handed to L.PCGSolve, the element tensors, the circuit results; None: the solver exits *)
  Definition asmMprev (P : probF) (mats : list matF) (inc : nat) (Aprev : list F) (bw : nat) (prec : F)
    : option (linF * list (F * F * F) * list (nat * F * F)) :=
    if prev_exits P mats inc then None
    else
      let res := circ_results A P in
      let r := prev_pass P mats res inc Aprev (lcreate A (length (mnodes P)) bw prec (adec A 15 (-1))) in
      Some (fst r, snd r, res).

  (* what the correspondence compares *)
  Definition prev_run (P : probF) (mats : list matF) (inc : nat) (Aprev : list F) (bw : nat) (prec : F)
    : list F * list F * list F :=
    match asmMprev P mats inc Aprev bw prec with
    | None => ([], [], [])
    | Some (L, ts, res) =>
        (dump_rows A (lM L) ++ lb L,
         concat (map (fun t => [fst (fst t); snd (fst t); snd t]) ts),
         concat (map (fun r => let '(case, J, dV) := r in [#(Z.of_nat case); J; dV]) res))
    end.
End AsmMPrev.
