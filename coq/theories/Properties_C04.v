(* Properties_C04.v — theorem statements for C04 (under construction). *)
From XF Require Import AsmHProofs.
