(* Properties_C04.v — theorem statements for C04 (heat-flow solution satisfies the discrete
   conduction equations and heat balance).  Model: AsmH.v + KT.v (HSolver::AnalyzeProblem,
   HSolver::ChargeOnConductor, CHMaterialProp::GetK); the statements of hsolver.cpp shared with
   esolver.cpp are AsmE's definitions applied to [eview P].  Proofs: AsmOpsProofs.v,
   AsmEProofs.v, AsmHProofs.v, AsmHInt.v (edge integrals, Coquelicot).  Real-number reading. *)
Set Warnings "-ambiguous-paths".
From Coquelicot Require Import Coquelicot.
From Coq Require Import ZArith List Bool Arith Lia Reals Lra.
From XF Require Import Arith Sparse SparseProofs AsmOps AsmOpsProofs AsmE AsmEProofs KT AsmH AsmHProofs AsmHInt.
Import ListNotations.
Local Open Scope R_scope.

(* 1. The element loop of HSolver::AnalyzeProblem (all meshes, all element orders, any previous
      iterate Vo): row i of the assembled residual M U - b is minus the sum, over the elements
      and their local rows assembled into row i, of the element's local residual
      sum_b Me[a][b] U[n_b] - be[a]  (element matrices after the prescribed-value processing). *)
Theorem C04_element_loop_rows :
  forall (P : hprob (F:=R)) (nn : nat) (Vo : vecT R) (extRo extRi extZo : R) (V : vecT R) (Q : list Z) (U : vecT R)
         (els : list eelem) (s : hstate (F:=R)),
  mat_wf (hsM s) -> length (hsb s) = length (hsM s) -> Forall (elem_ok (eview RA P) nn (length (hsM s))) els ->
  let s' := fold_left (helem_step RA P nn Vo extRo extRi extZo V Q) els s in
  mat_wf (hsM s') /\ length (hsM s') = length (hsM s) /\ length (hsb s') = length (hsb s) /\
  forall i, (i < length (hsM s))%nat ->
    Ax (hsM s') U i - vget RA (hsb s') i =
    (Ax (hsM s) U i - vget RA (hsb s) i)
    - hloop_resid P Vo extRo extRi extZo V Q els (hsDepth s) (hsKludge s) (hsPows s) U i.
Proof. exact hloop_rows. Qed.
Print Assumptions C04_element_loop_rows.

(* 2. Free nodes and prescribed temperatures.  For every vector U that takes the prescribed
      values, the assembled row of a FREE node is the sum of the un-eliminated element
      residuals (conduction, transient, volume source, flux/convection/radiation terms); the
      assembled row of a node with a PRESCRIBED temperature is d_i (U_i - prescribed_i) for
      every U, so the solution of the system meets the prescribed temperature when d_i <> 0. *)
Theorem C04_free_rows_and_prescribed_temperatures :
  forall (P : hprob (F:=R)) (nn : nat) (Vo : vecT R) (extRo extRi extZo : R) (V : vecT R) (Q : list Z) (U : vecT R)
         (els : list eelem) (s : hstate (F:=R)),
  mat_wf (hsM s) -> length (hsb s) = length (hsM s) ->
  Forall (elem_ok (eview RA P) nn (length (hsM s))) els ->
  let s' := fold_left (helem_step RA P nn Vo extRo extRi extZo V Q) els s in
  forall i, (i < length (hsM s))%nat ->
    (flagged Q i = false -> (forall j, flagged Q j = true -> vget RA U j = vget RA V j) ->
       Ax (hsM s') U i - vget RA (hsb s') i =
       (Ax (hsM s) U i - vget RA (hsb s) i)
       - hloop_resid_raw P Vo extRo extRi extZo els (hsDepth s) (hsKludge s) (hsPows s) U i) /\
    (flagged Q i = true ->
       Ax (hsM s') U i - vget RA (hsb s') i =
       (Ax (hsM s) U i - vget RA (hsb s) i)
       - (vget RA U i - vget RA V i) * hloop_diag P Vo extRo extRi extZo els (hsDepth s) (hsKludge s) (hsPows s) i).
Proof. exact assembled_rows_free_and_prescribed. Qed.
Print Assumptions C04_free_rows_and_prescribed_temperatures.

(* 2b. element level (the elimination code is esolver's, AsmE.presc_terms): rows of flagged local
       nodes become Me[a][a]*(U_a - prescribed_a) for every U; rows of free local nodes keep
       their residual for every U that takes the prescribed values *)
Theorem C04_prescribed_rows_force_temperatures :
  forall (V : vecT R) (Q : list Z) (n0 n1 n2 : nat) (m00 m01 m02 m11 m12 m22 b0 b1 b2 : R) (U : vecT R),
  let n := (n0, n1, n2) in
  let Me := [m00; m01; m02; m01; m11; m12; m02; m12; m22] in
  let be := [b0; b1; b2] in
  let r := presc_mb V Q n Me be in
  (flagged Q n0 = true -> local_resid (fst r) (snd r) n U 0 = m00 * (vget RA U n0 - vget RA V n0)) /\
  (flagged Q n1 = true -> local_resid (fst r) (snd r) n U 1 = m11 * (vget RA U n1 - vget RA V n1)) /\
  (flagged Q n2 = true -> local_resid (fst r) (snd r) n U 2 = m22 * (vget RA U n2 - vget RA V n2)).
Proof. exact presc_resid_flagged. Qed.
Print Assumptions C04_prescribed_rows_force_temperatures.

Theorem C04_free_rows_keep_residual :
  forall (V : vecT R) (Q : list Z) (n0 n1 n2 : nat) (m00 m01 m02 m11 m12 m22 b0 b1 b2 : R) (U : vecT R),
  let n := (n0, n1, n2) in
  let Me := [m00; m01; m02; m01; m11; m12; m02; m12; m22] in
  let be := [b0; b1; b2] in
  (flagged Q n0 = true -> vget RA U n0 = vget RA V n0) ->
  (flagged Q n1 = true -> vget RA U n1 = vget RA V n1) ->
  (flagged Q n2 = true -> vget RA U n2 = vget RA V n2) ->
  let r := presc_mb V Q n Me be in
  local_resid (fst r) (snd r) n U 0 =
    (if flagged Q n0 then m00 * (vget RA U n0 - vget RA V n0) else local_resid Me be n U 0) /\
  local_resid (fst r) (snd r) n U 1 =
    (if flagged Q n1 then m11 * (vget RA U n1 - vget RA V n1) else local_resid Me be n U 1) /\
  local_resid (fst r) (snd r) n U 2 =
    (if flagged Q n2 then m22 * (vget RA U n2 - vget RA V n2) else local_resid Me be n U 2).
Proof. exact presc_resid. Qed.
Print Assumptions C04_free_rows_keep_residual.

(* 3. the element matrices (conduction + transient + all boundary types, planar and
      axisymmetric, with or without libm inputs) are symmetric 3x3 with a 3-vector *)
Theorem C04_element_matrices_symmetric :
  forall (P : hprob (F:=R)) (Vo : vecT R) (extRo extRi extZo D0 k0 : R) (pows : list (R * R * R)) (el : eelem),
  let r := helem_matrices RA P Vo extRo extRi extZo D0 k0 pows el in
  sym9 (em_Me r) /\ len3 (em_be r).
Proof. exact helem_matrices_shape. Qed.
Print Assumptions C04_element_matrices_symmetric.

(* 4. Conduction: the element matrix is minus the linear-triangle Galerkin stiffness of
      div(k grad T) with (kx,ky) = mean of the three nodal conductivities GetK(Vo[n_a]) — any
      anisotropic or temperature-dependent material, planar and axisymmetric — plus the lumped
      transient coefficient on the diagonal. *)
Theorem C04_conduction_is_galerkin :
  forall (P : hprob (F:=R)) (Vo : vecT R) (extRo extRi extZo D0 k0 : R) (pows : list (R * R * R)) (el : eelem) (j k : nat),
  ee el = (None, None, None) -> (j < 3)%nat -> (k < 3)%nat ->
  ga (el_geom (eview RA P) el) <> 0 -> snd (elem_dk (eview RA P) extRo extRi extZo D0 k0 el) <> 0 ->
  let r := helem_matrices RA P Vo extRo extRi extZo D0 k0 pows el in
  let dk := elem_dk (eview RA P) extRo extRi extZo D0 k0 el in
  let kn := kn_of RA P Vo el in
  m3get RA (em_Me r) j k =
    - galerkin_K (fst dk) (fst kn) (snd kn) (el_geom (eview RA P) el) j k / snd dk
    + (if Nat.eqb j k then lump_K P (fst dk) el else 0).
Proof. exact conduction_is_galerkin. Qed.
Print Assumptions C04_conduction_is_galerkin.

(* 5. Heat balance: every column of the conduction part sums to zero (the whole column sums to
      the lumped transient coefficient, which is 0 for a steady problem), so the nodal conduction
      reactions of any temperature field sum to zero over the mesh. *)
Theorem C04_heat_balance_columns :
  forall (P : hprob (F:=R)) (Vo : vecT R) (extRo extRi extZo D0 k0 : R) (pows : list (R * R * R)) (el : eelem) (k : nat),
  ee el = (None, None, None) -> (k < 3)%nat ->
  let r := helem_matrices RA P Vo extRo extRi extZo D0 k0 pows el in
  m3get RA (em_Me r) 0 k + m3get RA (em_Me r) 1 k + m3get RA (em_Me r) 2 k
  = lump_K P (fst (elem_dk (eview RA P) extRo extRi extZo D0 k0 el)) el.
Proof. exact conduction_column_sums. Qed.
Print Assumptions C04_heat_balance_columns.

(* 6. Transient term: K = -Depth*Kt*a/(3 dT) goes on the three diagonal entries and
      K*Tprev[n_j] into be[j] (backward Euler with the previous field); K is minus the row sum of
      the consistent capacity matrix Depth*Kt*a/12*[2 1 1;1 2 1;1 1 2]/dT. *)
Theorem C04_lumped_transient_term :
  forall (P : hprob (F:=R)) (Vo : vecT R) (extRo extRi extZo D0 k0 : R) (pows : list (R * R * R)) (el : eelem),
  ee el = (None, None, None) -> hdT P <> 0 ->
  let r := helem_matrices RA P Vo extRo extRi extZo D0 k0 pows el in
  let D := fst (elem_dk (eview RA P) extRo extRi extZo D0 k0 el) in
  let blk := nth (eblk el) (hblocks P) (dhblock RA) in
  let a := ga (el_geom (eview RA P) el) in
  let K := - (D * hkt blk * a / (3 * hdT P)) in
  lump_K P D el = K /\
  (forall j, (j < 3)%nat ->
     K = - (consistent_mass D (hkt blk) a (hdT P) j 0 + consistent_mass D (hkt blk) a (hdT P) j 1
            + consistent_mass D (hkt blk) a (hdT P) j 2)) /\
  (forall j, (j < 3)%nat ->
     vget RA (em_be r) j = K * vget RA (htprev P) (tri_get (ep el) j) + - D * hqv blk * a / 3).
Proof. exact lumped_transient_term. Qed.
Print Assumptions C04_lumped_transient_term.

Theorem C04_lumped_is_rowsum_of_consistent_mass :
  forall (D kt a dT : R) (j : nat), (j < 3)%nat -> dT <> 0 ->
  D * kt * a / 12 * (if Nat.eqb j 0 then 2 else 1) / dT
  + D * kt * a / 12 * (if Nat.eqb j 1 then 2 else 1) / dT
  + D * kt * a / 12 * (if Nat.eqb j 2 then 2 else 1) / dT
  = D * kt * a / (3 * dT).
Proof. exact lumped_is_rowsum. Qed.
Print Assumptions C04_lumped_is_rowsum_of_consistent_mass.

(* 7. Boundary edges (types 1 heat flux, 2 convection, 3 radiation; planar and axisymmetric):
      what edge j adds to the element matrix and vector, in terms of the coefficients (c0,c1)
      of the boundary law  k dT/dn + c0*T + c1 = 0. *)
Theorem C04_boundary_edge_terms :
  forall (P : hprob (F:=R)) (Vo : vecT R) (xs : vecT R) (g : egeom (F:=R)) (el : eelem)
         (D m0 m1 m2 m3 m4 m5 m6 m7 m8 b0 b1 b2 : R) (rad : bool) (j e : nat) (c0 c1 : R),
  (j < 3)%nat -> tri_get (ee el) j = Some e ->
  edge_coeffs (nth e (hlines P) (dhline RA)) (edge_Tlast Vo el j) = Some (c0, c1) ->
  let Me := [m0; m1; m2; m3; m4; m5; m6; m7; m8] in
  let be := [b0; b1; b2] in
  let r := hedge_step RA P Vo xs g el (D, Me, be, [], rad) j in
  let xj := vget RA xs j in
  let xk := vget RA xs (nxt j) in
  let D' := if haxi P then PI * (xj + xk) else D in
  let l := vget RA (gl g) j in
  fst (fst (fst (fst r))) = D' /\
  (forall a b, (a < 3)%nat -> (b < 3)%nat ->
     m3get RA (es_Me r) a b = m3get RA Me a b + edge_Me (haxi P) D' c0 l xj xk j a b) /\
  (forall a, (a < 3)%nat -> vget RA (es_be r) a = vget RA be a + edge_be (haxi P) D' c1 l xj xk j a).
Proof. exact hedge_step_spec. Qed.
Print Assumptions C04_boundary_edge_terms.

Theorem C04_flux_and_convection_laws :
  forall (lp : hline (F:=R)) (T c0 c1 : R), edge_coeffs lp T = Some (c0, c1) ->
  (hfmt lp = 1%nat -> c0 * T + c1 = hqs lp) /\
  (hfmt lp = 2%nat -> c0 * T + c1 = hh lp * (T - hTinf lp)).
Proof. intros lp T c0 c1 H. split; intros Hf; [exact (flux_law lp T c0 c1 Hf H)|exact (convection_law lp T c0 c1 Hf H)]. Qed.
Print Assumptions C04_flux_and_convection_laws.

(* 8. Radiation: with Tlast = T the linearisation returns the radiated flux exactly, and for
      any T it is the tangent of beta*Ksb*(T^4 - Tinf^4) at Tlast. *)
Theorem C04_radiation_fixed_point :
  forall (lp : hline (F:=R)) (T c0 c1 : R), hfmt lp = 3%nat -> edge_coeffs lp T = Some (c0, c1) ->
  c0 * T + c1 = hbeta lp * ksb RA * (T ^ 4 - hTinf lp ^ 4).
Proof. exact radiation_fixed_point. Qed.
Print Assumptions C04_radiation_fixed_point.

Theorem C04_radiation_is_tangent_linearisation :
  forall (lp : hline (F:=R)) (Tl T c0 c1 : R), hfmt lp = 3%nat -> edge_coeffs lp Tl = Some (c0, c1) ->
  c0 * T + c1 = hbeta lp * ksb RA * (Tl ^ 4 - hTinf lp ^ 4) + 4 * hbeta lp * ksb RA * Tl ^ 3 * (T - Tl).
Proof. exact radiation_is_tangent. Qed.
Print Assumptions C04_radiation_is_tangent_linearisation.

(* 9. Axisymmetric edge weights: with r(t) = xj(1-t) + xk t, phi_j = 1-t, phi_k = t the numbers
      (3xj+xk)/12, (xj+3xk)/12, (xj+xk)/12, (2xj+xk)/6, (xj+2xk)/6 are the Riemann integrals over
      the edge of r phi_a phi_b and r phi_a, and the entries the solver adds are -c0 resp. c1
      times 2 PI l times those integrals. *)
Theorem C04_axi_edge_weights :
  forall (D c0 c1 l xj xk : R) (j : nat), (j < 3)%nat ->
  let k := nxt j in
  is_RInt (fun t => rlin xj xk t * phi_j t * phi_j t) 0 1 ((3 * xj + xk) / 12) /\
  is_RInt (fun t => rlin xj xk t * phi_k t * phi_k t) 0 1 ((xj + 3 * xk) / 12) /\
  is_RInt (fun t => rlin xj xk t * phi_j t * phi_k t) 0 1 ((xj + xk) / 12) /\
  is_RInt (fun t => rlin xj xk t * phi_j t) 0 1 ((2 * xj + xk) / 6) /\
  is_RInt (fun t => rlin xj xk t * phi_k t) 0 1 ((xj + 2 * xk) / 6) /\
  edge_Me true D c0 l xj xk j j j = - c0 * (2 * PI * l * ((3 * xj + xk) / 12)) /\
  edge_Me true D c0 l xj xk j k k = - c0 * (2 * PI * l * ((xj + 3 * xk) / 12)) /\
  edge_Me true D c0 l xj xk j j k = - c0 * (2 * PI * l * ((xj + xk) / 12)) /\
  edge_Me true D c0 l xj xk j k j = - c0 * (2 * PI * l * ((xj + xk) / 12)) /\
  edge_be true D c1 l xj xk j j = c1 * (2 * PI * l * ((2 * xj + xk) / 6)) /\
  edge_be true D c1 l xj xk j k = c1 * (2 * PI * l * ((xj + 2 * xk) / 6)).
Proof.
  intros D c0 c1 l xj xk j Hj k.
  split; [apply int_r_jj|]. split; [apply int_r_kk|]. split; [apply int_r_jk|].
  split; [apply int_r_j|]. split; [apply int_r_k|]. exact (axi_edge_entries D c0 c1 l xj xk j Hj).
Qed.
Print Assumptions C04_axi_edge_weights.

(* planar edges: the weights 1/3, 1/6, 1/2 are the same integrals with r = 1, and a linear
   temperature along the edge integrates against the shape functions to (2Tj+Tk)/6, (Tj+2Tk)/6 *)
Theorem C04_planar_edge_weights :
  forall (D c0 c1 l xj xk : R) (j : nat), (j < 3)%nat ->
  let k := nxt j in
  is_RInt (fun t => rlin 1 1 t * phi_j t * phi_j t) 0 1 (1 / 3) /\
  is_RInt (fun t => rlin 1 1 t * phi_j t * phi_k t) 0 1 (1 / 6) /\
  is_RInt (fun t => rlin 1 1 t * phi_j t) 0 1 (1 / 2) /\
  (forall Tj Tk, is_RInt (fun t => (Tj * phi_j t + Tk * phi_k t) * phi_j t) 0 1 ((2 * Tj + Tk) / 6) /\
                 is_RInt (fun t => (Tj * phi_j t + Tk * phi_k t) * phi_k t) 0 1 ((Tj + 2 * Tk) / 6)) /\
  edge_Me false D c0 l xj xk j j j = - c0 * (D * l * (1 / 3)) /\
  edge_Me false D c0 l xj xk j k k = - c0 * (D * l * (1 / 3)) /\
  edge_Me false D c0 l xj xk j j k = - c0 * (D * l * (1 / 6)) /\
  edge_Me false D c0 l xj xk j k j = - c0 * (D * l * (1 / 6)) /\
  edge_be false D c1 l xj xk j j = c1 * (D * l * (1 / 2)) /\
  edge_be false D c1 l xj xk j k = c1 * (D * l * (1 / 2)).
Proof.
  intros D c0 c1 l xj xk j Hj k.
  split; [replace (1 / 3) with ((3 * 1 + 1) / 12) by field; apply int_r_jj|].
  split; [replace (1 / 6) with ((1 + 1) / 12) by field; apply int_r_jk|].
  split; [replace (1 / 2) with ((2 * 1 + 1) / 6) by field; apply int_r_j|].
  split; [intros Tj Tk; split; [apply int_T_j|apply int_T_k]|].
  exact (planar_edge_entries D c0 c1 l xj xk j Hj).
Qed.
Print Assumptions C04_planar_edge_weights.

(* 10. CHMaterialProp::GetK on a strictly increasing T-k table: linear (Kx,Ky) without a table,
       clamped below the first and above the last knot, the linear interpolant of the two knots
       on every segment (both components), hence the knot values at the knots where the two
       adjacent pieces agree (continuity). *)
Theorem C04_getk_without_table :
  forall kx ky t : R, getk RA kx ky [] t = (kx, ky).
Proof. exact getk_no_table. Qed.
Print Assumptions C04_getk_without_table.

Theorem C04_getk_clamps :
  forall (kx ky : R) (tk : list (R * R)) (t0 k0 tl kl t : R),
  tk_sorted ((t0, k0) :: tk) -> last ((t0, k0) :: tk) (t0, k0) = (tl, kl) ->
  (t <= t0 -> getk RA kx ky ((t0, k0) :: tk) t = (k0, k0)) /\
  (tl <= t -> getk RA kx ky ((t0, k0) :: tk) t = (kl, kl)).
Proof.
  intros kx ky tk t0 k0 tl kl t Hs Hl. split.
  - apply getk_clamp_low.
  - apply (getk_clamp_high kx ky ((t0, k0) :: tk) tl kl t (t0, k0)); [discriminate|exact Hs|exact Hl].
Qed.
Print Assumptions C04_getk_clamps.

Theorem C04_getk_interpolates_on_segments :
  forall (kx ky : R) (pre : list (R * R)) (ti ki tj kj : R) (post : list (R * R)) (t : R),
  tk_sorted (pre ++ (ti, ki) :: (tj, kj) :: post) -> ti <= t <= tj ->
  let v := ki + (kj - ki) * (t - ti) / (tj - ti) in
  getk RA kx ky (pre ++ (ti, ki) :: (tj, kj) :: post) t = (v, v).
Proof. exact getk_on_segment. Qed.
Print Assumptions C04_getk_interpolates_on_segments.

Theorem C04_getk_at_knots_and_continuity :
  forall (kx ky : R) (pre : list (R * R)) (ti ki tj kj : R) (post : list (R * R)),
  tk_sorted (pre ++ (ti, ki) :: (tj, kj) :: post) ->
  getk RA kx ky (pre ++ (ti, ki) :: (tj, kj) :: post) ti = (ki, ki) /\
  getk RA kx ky (pre ++ (ti, ki) :: (tj, kj) :: post) tj = (kj, kj) /\
  (forall tm km, tj < tm ->
     ki + (kj - ki) * (tj - ti) / (tj - ti) = kj /\ kj + (km - kj) * (tj - tj) / (tm - tj) = kj).
Proof.
  intros kx ky pre ti ki tj kj post Hs.
  destruct (getk_at_knots kx ky pre ti ki tj kj post Hs) as [H1 H2].
  split; [exact H1|]. split; [exact H2|].
  intros tm km Hm.
  assert (Hij : ti < tj) by (destruct (tk_sorted_app_r pre _ Hs) as [H _]; exact H).
  exact (getk_pieces_agree_at_knots ti ki tj kj tm km Hij Hm).
Qed.
Print Assumptions C04_getk_at_knots_and_continuity.

(* 10b. continuity, in the analytic sense, of both components at every interior knot *)
Theorem C04_getk_continuous_at_knots :
  forall (kx ky : R) (pre : list (R * R)) (ti ki tj kj tm km : R) (post : list (R * R)),
  let tk := pre ++ (ti, ki) :: (tj, kj) :: (tm, km) :: post in
  tk_sorted tk ->
  continuity_pt (fun t => fst (getk RA kx ky tk t)) tj /\
  continuity_pt (fun t => snd (getk RA kx ky tk t)) tj.
Proof. exact getk_continuous_at_knot. Qed.
Print Assumptions C04_getk_continuous_at_knots.

(* 11. The scan "is any element nonlinear".  As shipped (loop bound NumNodes, index into the
       element list) it is REFUTED on the faithful model: there is a mesh with more elements
       than nodes whose only element with a T-k table has an index >= NumNodes, and the scan
       answers "linear".  With the loop bound NumEls (the repair) the scan is complete. *)
Theorem C04_nonlinear_scan_refuted :
  exists P : hprob (F:=R),
    (length (hnodes P) < length (helems P))%nat /\
    (exists i, elem_has_table P i = true) /\
    nonlinear_scan P (scan_bound_asis P) = false.
Proof. exact nonlinear_scan_refuted. Qed.
Print Assumptions C04_nonlinear_scan_refuted.

Theorem C04_nonlinear_scan_complete_fixed :
  forall (P : hprob (F:=R)),
  nonlinear_scan P (scan_bound_fixed P) = true <-> exists i, elem_has_table P i = true.
Proof. exact (@nonlinear_scan_complete R). Qed.
Print Assumptions C04_nonlinear_scan_complete_fixed.

Theorem C04_nonlinear_scan_partial :
  forall (P : hprob (F:=R)) (bound : nat),
  (nonlinear_scan P bound = true -> exists i, (i < bound)%nat /\ elem_has_table P i = true) /\
  ((length (helems P) <= length (hnodes P))%nat ->
   (nonlinear_scan P (scan_bound_asis P) = true <-> exists i, elem_has_table P i = true)).
Proof.
  intros P bound. split; [apply nonlinear_scan_sound|apply nonlinear_scan_asis_complete_small].
Qed.
Print Assumptions C04_nonlinear_scan_partial.

(* 12. The outer iteration do{...}while(IsNonlinear): whenever it returns, the system it leaves
       is the one its last pass assembled from the previous iterate, the temperatures are the
       linear solver's answer for that system, and if the problem was flagged nonlinear the
       convergence test sqrt(e1/e2) < 100*Precision accepted the last step: the conductivities
       and the radiation linearisation are evaluated at temperatures within that tolerance of
       the written ones. *)
Theorem C04_outer_iteration_exit :
  forall (P : hprob (F:=R)) (solve : nat -> lin (F:=R) -> option (vecT R)) (powsf : nat -> list (R * R * R))
         (fuel : nat) (L : lin (F:=R)) (D : R) (nl : bool) (it : nat) (L' : lin (F:=R)) (Q' : list Z) (n : nat),
  outer RA fuel P solve powsf L D nl it = Some (L', Q', n) ->
  exists Lp Dp nlp itp,
    let r := hpass RA P Lp Dp (powsf itp) in
    let L1 := fst (fst (fst r)) in
    lM L' = lM L1 /\ lb L' = lb L1 /\ Q' = snd (fst (fst r)) /\
    solve itp L1 = Some (Sparse.lV L') /\ n = S itp /\ (it <= itp)%nat /\
    (nl = true -> nlp = true) /\
    ((nlp || snd r)%bool = true ->
       outer_converged RA P (firstn (length (hnodes P)) (Sparse.lV Lp)) (Sparse.lV L') = true).
Proof. intros P solve powsf. exact (outer_exit P solve powsf). Qed.
Print Assumptions C04_outer_iteration_exit.

(* 13. Conductor heat flows: each element's contribution to HSolver::ChargeOnConductor is the
       conduction (Galerkin stiffness) reaction of the conductor's nodes in that element, with the
       conductivity evaluated at the final temperatures, divided by [hoc_kludge]: 1 in the code as
       shipped (extfix = false), the external-region kludge of the assembly in the repaired
       variant (extfix = true).  As shipped the reported flow is therefore the reaction of the
       ASSEMBLED equations only when the conductor touches no element of the external region
       (_partial); the repaired variant agrees with the assembly for every element. *)
Theorem C04_conductor_flow_is_stiffness_reaction_partial :
  forall (P : hprob (F:=R)) (extfix : bool) (extRo extRi extZo Depth : R) (V Pv : vecT R) (Z : R) (el : eelem),
  ga (el_geom (eview RA P) el) <> 0 -> hoc_kludge P extfix extRo extRi extZo el <> 0 ->
  let g := el_geom (eview RA P) el in
  let De := if haxi P then 2 * PI * gr g else Depth in
  let kn := kn_of RA P V el in
  let Ke := fun j k => galerkin_K De (fst kn) (snd kn) g j k / hoc_kludge P extfix extRo extRi extZo el in
  let n := fun j => tri_get (ep el) j in
  hoc_elem RA P extfix extRo extRi extZo Depth V Pv Z el =
    Z + (vget RA Pv (n 0%nat) * (Ke 0%nat 0%nat * vget RA V (n 0%nat) + Ke 0%nat 1%nat * vget RA V (n 1%nat) + Ke 0%nat 2%nat * vget RA V (n 2%nat))
       + vget RA Pv (n 1%nat) * (Ke 1%nat 0%nat * vget RA V (n 0%nat) + Ke 1%nat 1%nat * vget RA V (n 1%nat) + Ke 1%nat 2%nat * vget RA V (n 2%nat))
       + vget RA Pv (n 2%nat) * (Ke 2%nat 0%nat * vget RA V (n 0%nat) + Ke 2%nat 1%nat * vget RA V (n 1%nat) + Ke 2%nat 2%nat * vget RA V (n 2%nat))).
Proof. exact conductor_flow_is_stiffness_reaction. Qed.
Print Assumptions C04_conductor_flow_is_stiffness_reaction_partial.

Theorem C04_conductor_flow_divisor :
  forall (P : hprob (F:=R)) (extRo extRi extZo D0 k0 : R) (el : eelem),
  hoc_kludge P false extRo extRi extZo el = 1 /\
  (haxi P = true ->
   hoc_kludge P true extRo extRi extZo el = snd (elem_dk (eview RA P) extRo extRi extZo D0 k0 el)).
Proof.
  intros. split; [apply hoc_kludge_asis|apply hoc_kludge_is_assembly_kludge].
Qed.
Print Assumptions C04_conductor_flow_divisor.

(* ---- non-vacuity ---- *)
(* the freshly created (and wiped) system meets the hypotheses of the loop theorems *)
Example C04_initial_state_ok : forall n bw prec lam,
  mat_wf (lM (lcreate RA n bw prec lam)) /\ length (lb (lcreate RA n bw prec lam)) = length (lM (lcreate RA n bw prec lam)).
Proof.
  intros. cbn [lM lb lcreate]. split; [apply mat_wf_mcreate|].
  rewrite mcreate_length, vzero_length. reflexivity.
Qed.

(* a strictly increasing table with three knots; its value inside a segment *)
Example C04_table_ok : tk_sorted [(250, 1); (300, 2); (350, 6)] /\
  getk RA 0 0 [(250, 1); (300, 2); (350, 6)] 325 = (4, 4).
Proof.
  split; [cbn; lra|].
  pose proof (getk_on_segment 0 0 [(250, 1)] 300 2 350 6 [] 325) as H. cbv zeta in H.
  change ([(250, 1)] ++ [(300, 2); (350, 6)]) with [(250, 1); (300, 2); (350, 6)] in H.
  rewrite H; [|cbn; lra|lra]. unfold k_interp. ra_simpl. f_equal; field.
Qed.

(* the witness of the refuted scan is flagged by the repaired scan *)
Example C04_witness_found_by_fixed_scan : nonlinear_scan witness (scan_bound_fixed witness) = true.
Proof. reflexivity. Qed.

(* the boundary laws exist for the three derivative boundary types and only for them *)
Example C04_edge_coeffs_defined : forall (lp : hline (F:=R)) T,
  (exists c, edge_coeffs lp T = Some c) <-> (hfmt lp = 1 \/ hfmt lp = 2 \/ hfmt lp = 3)%nat.
Proof.
  intros lp T. unfold edge_coeffs. destruct (hfmt lp) as [|[|[|[|n]]]]; split;
    try (intros [c H]; discriminate H); try (intros [H|[H|H]]; discriminate H);
    try (intros _; eexists; reflexivity); intros _; auto.
Qed.
