(* FaultsProofs.v — C20: lemmas about the fault model (Faults.v) and the two computed facts about
   the generated table (gen/FaultTable.v) and the committed exception list (FaultExceptions.v). *)
From Coq Require Import ZArith List String Bool Lia.
From XF Require Import Faults FaultExceptions.
From XF.gen Require Import FaultTable.
Import ListNotations.

(* ---- decidable equalities ------------------------------------------------------------------ *)
Lemma phys_eqb_eq : forall a b, phys_eqb a b = true -> a = b.
Proof. destruct a, b; simpl; intros; congruence. Qed.

Lemma tool_eqb_eq : forall a b, tool_eqb a b = true -> a = b.
Proof.
  destruct a, b; simpl; intros H; try discriminate; try reflexivity;
    apply phys_eqb_eq in H; subst; reflexivity.
Qed.

Lemma exc_eqb_eq : forall a b, exc_eqb a b = true -> a = b.
Proof.
  intros [t s] [t' s']. unfold exc_eqb. simpl. intros H.
  apply andb_true_iff in H. destruct H as [H1 H2].
  apply tool_eqb_eq in H1. apply String.eqb_eq in H2. subst. reflexivity.
Qed.

Lemma exc_mem_In : forall x l, exc_mem x l = true -> In x l.
Proof.
  intros x l H. unfold exc_mem in H. apply existsb_exists in H.
  destruct H as [y [Hy He]]. apply exc_eqb_eq in He. subst. exact Hy.
Qed.

Lemma all_tools_complete : forall t, In t all_tools.
Proof. intros t. destruct t as [| p | | | p | p]; try destruct p; simpl; tauto. Qed.

Lemma all_roles_complete : forall r, In r all_roles.
Proof. intros r. destruct r; simpl; tauto. Qed.

(* ---- the interpreter only looks at presence bits and the two flags --------------------------- *)
Definition same_presence (e1 e2 : env) : Prop :=
  (forall r, is_present (st e1 r) = is_present (st e2 r)) /\
  prevref e1 = prevref e2 /\ holes e1 = holes e2 /\ periodic e1 = periodic e2.

Lemma applies_ext : forall c e1 e2, same_presence e1 e2 -> applies c e1 = applies c e2.
Proof. intros c e1 e2 [_ [Hp [Hh Hq]]]. destruct c; simpl; congruence. Qed.

Lemma fires_ext : forall r e1 e2, same_presence e1 e2 -> fires r e1 = fires r e2.
Proof.
  intros r e1 e2 H. unfold fires. rewrite (applies_ext _ _ _ H).
  destruct H as [Hs _]. rewrite Hs. reflexivity.
Qed.

Lemma run_rows_ext : forall t rows e1 e2, same_presence e1 e2 -> run_rows t rows e1 = run_rows t rows e2.
Proof.
  intros t rows e1 e2 H. induction rows as [| r rest IH]; simpl; [reflexivity|].
  rewrite (fires_ext r _ _ H). rewrite IH. reflexivity.
Qed.

Lemma needs_ext : forall t e1 e2 r, same_presence e1 e2 -> needs t e1 r = needs t e2 r.
Proof.
  intros t e1 e2 r [_ [Hp _]]. destruct t as [| p | | | p | p]; simpl; try reflexivity;
    destruct r; try reflexivity; destruct p; simpl; congruence.
Qed.

Lemma snm_ext : forall t e1 e2, same_presence e1 e2 -> some_needed_missing t e1 = some_needed_missing t e2.
Proof.
  intros t e1 e2 H. unfold some_needed_missing.
  induction all_roles as [| r l IH]; simpl; [reflexivity|].
  rewrite (needs_ext t e1 e2 r H). destruct H as [Hs Hr]. rewrite (Hs r). rewrite IH. reflexivity.
Qed.

Lemma ok_outcome_ext : forall t e1 e2 o, same_presence e1 e2 -> ok_outcome t e1 o = ok_outcome t e2 o.
Proof. intros t e1 e2 o H. unfold ok_outcome. rewrite (snm_ext t e1 e2 H). reflexivity. Qed.

Lemma ok_or_excepted_ext : forall rows xs t e1 e2, same_presence e1 e2 ->
  ok_or_excepted rows xs t e1 = ok_or_excepted rows xs t e2.
Proof.
  intros. unfold ok_or_excepted. rewrite (run_rows_ext t rows e1 e2 H).
  rewrite (ok_outcome_ext t e1 e2 _ H). reflexivity.
Qed.

(* ---- every environment is represented in the enumerated domain ---------------------------------- *)
Definition canon (e : env) : env :=
  env_of_bits (map (fun r => is_present (st e r)) all_roles) (prevref e) (holes e) (periodic e).

Lemma canon_same : forall e, same_presence e (canon e).
Proof.
  intros e. unfold same_presence, canon. split; [|split; [|split]; reflexivity].
  intros r. simpl. destruct r; simpl; destruct (is_present (st e _)); reflexivity.
Qed.

Lemma bitvecs_complete : forall n v, List.length v = n -> In v (bitvecs n).
Proof.
  induction n as [| n IH]; intros v Hl.
  - destruct v; [simpl; auto | discriminate].
  - destruct v as [| b v]; [discriminate|]. simpl in Hl. injection Hl as Hl.
    simpl. apply in_flat_map. exists v. split; [apply IH; exact Hl|].
    destruct b; simpl; auto.
Qed.

Lemma bools_complete : forall b, In b bools.
Proof. destruct b; simpl; auto. Qed.

Lemma canon_in : forall e, In (canon e) all_envs.
Proof.
  intros e. unfold all_envs, canon. apply in_flat_map.
  exists (map (fun r => is_present (st e r)) all_roles). split.
  - apply bitvecs_complete. rewrite map_length. reflexivity.
  - apply in_flat_map. exists (prevref e). split; [apply bools_complete|].
    apply in_flat_map. exists (holes e). split; [apply bools_complete|].
    apply in_map_iff. exists (periodic e). split; [reflexivity | apply bools_complete].
Qed.

(* ---- boolean property <-> propositional property --------------------------------------------- *)
Lemma is_present_false : forall s, negb (is_present s) = true <-> s <> Present.
Proof. destruct s; simpl; split; intros; try congruence; try discriminate; auto. Qed.

Lemma snm_true : forall t e, some_needed_missing t e = true <-> needed_missing t e.
Proof.
  intros t e. unfold some_needed_missing, needed_missing. rewrite existsb_exists. split.
  - intros [r [_ H]]. apply andb_true_iff in H. destruct H as [H1 H2].
    exists r. split; [exact H1|]. apply is_present_false. exact H2.
  - intros [r [H1 H2]]. exists r. split; [apply all_roles_complete|].
    apply andb_true_iff. split; [exact H1|]. apply is_present_false. exact H2.
Qed.

Lemma ok_at_iff : forall tbl t e, ok_at tbl t e = true <-> property_at tbl t e.
Proof.
  intros tbl t e. unfold ok_at, property_at, ok_outcome. split.
  - destruct (run tbl t e) as [c w|] eqn:R; [|discriminate].
    destruct (some_needed_missing t e) eqn:S; intros H; apply andb_true_iff in H; destruct H as [H1 H2].
    + split.
      * intros _. exists c. destruct w; [discriminate|]. split; [reflexivity|].
        apply negb_true_iff in H1. apply Z.eqb_neq in H1. exact H1.
      * intros N. exfalso. apply N. apply snm_true. exact S.
    + split.
      * intros N. apply snm_true in N. congruence.
      * intros _. exists c. apply Bool.eqb_prop in H2. subst. split; [reflexivity|].
        apply Z.eqb_eq. exact H1.
  - intros [P1 P2]. destruct (some_needed_missing t e) eqn:S.
    + destruct (P1 (proj1 (snm_true t e) S)) as [c [R N]]. rewrite R.
      apply andb_true_iff. split; [|reflexivity]. apply negb_true_iff. apply Z.eqb_neq. exact N.
    + assert (N : ~ needed_missing t e) by (intros N; apply snm_true in N; congruence).
      destruct (P2 N) as [c [R Z0]]. rewrite R.
      apply andb_true_iff. split; [apply Z.eqb_eq; exact Z0 | apply Bool.eqb_reflx].
Qed.

(* ---- lifting the two computed checks to all tools and all environments ------------------------- *)
Lemma check_all_sound : forall tbl xs, check_all tbl xs = true ->
  forall t e, ~ In (t, decider tbl t e) xs -> property_at tbl t e.
Proof.
  intros tbl xs H t e Hn. unfold check_all in H. rewrite forallb_forall in H.
  specialize (H t (all_tools_complete t)). cbv zeta in H. rewrite forallb_forall in H.
  specialize (H (canon e) (canon_in e)).
  rewrite <- (ok_or_excepted_ext (rows_of tbl t) xs t e (canon e) (canon_same e)) in H.
  unfold ok_or_excepted in H. apply ok_at_iff. unfold ok_at, run.
  destruct (ok_outcome t e (fst (run_rows t (rows_of tbl t) e))) eqn:O; [reflexivity|].
  exfalso. apply Hn. apply exc_mem_In. exact H.
Qed.

Lemma check_exceptions_sound : forall tbl xs, check_exceptions_fail tbl xs = true ->
  forall x, In x xs -> exists e, decider tbl (fst x) e = snd x /\ ~ property_at tbl (fst x) e.
Proof.
  intros tbl xs H x Hx. unfold check_exceptions_fail in H. rewrite forallb_forall in H.
  specialize (H x Hx). cbv zeta in H. apply existsb_exists in H. destruct H as [e [_ F]].
  exists e. unfold fails_by in F.
  destruct (ok_outcome (fst x) e (fst (run_rows (fst x) (rows_of tbl (fst x)) e))) eqn:O; [discriminate|].
  split.
  - unfold decider. apply String.eqb_eq. exact F.
  - intros P. apply ok_at_iff in P. unfold ok_at, run in P. congruence.
Qed.

(* ---- the computed facts (the only place where the generated table is evaluated) ---------------- *)
Lemma check_all_ok : check_all table exceptions = true.
Proof. vm_compute. reflexivity. Qed.

Lemma exceptions_fail_ok : check_exceptions_fail table exceptions = true.
Proof. vm_compute. reflexivity. Qed.

(* ---- statements used by Properties_C20.v --------------------------------------------------------- *)
Lemma fault_table_ok : forall (t : tool) (e : env),
  ~ In (t, decider table t e) exceptions -> property_at table t e.
Proof. exact (check_all_sound table exceptions check_all_ok). Qed.

Lemma exceptions_refuted : forall x, In x exceptions ->
  exists e, decider table (fst x) e = snd x /\ ~ property_at table (fst x) e.
Proof. exact (check_exceptions_sound table exceptions exceptions_fail_ok). Qed.

Lemma full_when_no_exceptions : exceptions = [] -> forall t e, property_at table t e.
Proof.
  intros E t e. apply fault_table_ok. rewrite E. simpl. tauto.
Qed.

Lemma refuted_when_exceptions : exceptions <> [] -> exists t e, ~ property_at table t e.
Proof.
  intros N. destruct exceptions as [| x l] eqn:E; [congruence|].
  destruct (exceptions_refuted x) as [e [_ P]]; [rewrite E; simpl; auto|].
  exists (fst x), e. exact P.
Qed.

Lemma finite_domain :
  (forall t, In t all_tools) /\ (forall r, In r all_roles) /\
  List.length all_tools = 12 /\ List.length all_roles = 12 /\ Z.of_nat (List.length all_envs) = 32768%Z /\
  (forall e, exists e', In e' all_envs /\ same_presence e e').
Proof.
  split; [exact all_tools_complete|]. split; [exact all_roles_complete|].
  split; [reflexivity|]. split; [reflexivity|]. split; [vm_compute; reflexivity|].
  intros e. exists (canon e). split; [apply canon_in | apply canon_same].
Qed.

(* all inputs present: every tool of the table completes with status 0 (non-vacuity of the second
   clause; holds for any exception list because no step fires) *)
Lemma all_present_completes : forall t p h q,
  run table t (env_with [] p h q) = Exit 0 (produces_output t).
Proof.
  intros t p h q. destruct t as [| z | | | z | z]; try destruct z; destruct p, h, q; vm_compute; reflexivity.
Qed.
