(* Properties_C14_solution.v — theorem statements for the solution-file part of property C14 ("every file
   written by the program is accepted by its own ... post-processors with the same meaning"): the
   [Solution] part that the solvers append to .res / .anh / .ans files and the post-processors read.
   Each statement is closed by [exact] of a lemma of SolFileProofs.v or by vm_compute over the
   schemas regenerated from the C++ writers and readers on every run (gen/SolSchemas.v). *)
From Coq Require Import String List ZArith Bool QArith Qreals Reals.
From Coq Require Import Floats.
From XF Require Import Arith SolFile SolFileProofs SolDefects.
From XF.gen Require Import SolSchemas.
Import ListNotations.
Local Open Scope string_scope.

(* -- (a) the generic, unbounded theorem: ALL schemas, ALL solutions (any number of sections, records,
      fields), any number type, any unit-table values ------------------------------------------------ *)
Theorem C14_solution_parse_print_roundtrip :
  forall (F : Type) (A : Arith F) (e : list (string * F)) (rs ws : schema),
  Compatible rs ws -> forall sol : list (list (list (@tok F))), sol_typed ws sol ->
  parse_solution A e rs (print_solution A e ws sol) = Some (through_solution A e rs ws sol).
Proof. exact (fun F A => parse_print_roundtrip A). Qed.
Print Assumptions C14_solution_parse_print_roundtrip.

(* the same with whatever follows the sections the reader knows: those lines are left unread, in order *)
Theorem C14_solution_parse_print_roundtrip_with_tail :
  forall (F : Type) (A : Arith F) (e : list (string * F)) (rs ws : schema),
  Compatible rs ws -> forall (sol : list (list (list (@tok F)))) tail, sol_typed ws sol ->
  parse_solution_k A e rs (print_solution A e ws sol ++ tail)%list =
  Some (through_solution A e rs ws sol, (print_solution A e (skipn (length rs) ws) (skipn (length rs) sol) ++ tail)%list).
Proof. exact (fun F A => parse_print_roundtrip_k A). Qed.
Print Assumptions C14_solution_parse_print_roundtrip_with_tail.

(* a whole .ans solution part: all sections, then the air-gap block (count, per element the name line, the
   parameter line and totalArcElements+1 quadrature-node lines); names arrive without their quotes *)
Theorem C14_solution_ans_roundtrip :
  forall (F : Type) (A : Arith F) e rs ws rp wp rq wq,
  compatible rs ws = true -> length rs = length ws -> ages_compatible rp wp rq wq = true ->
  forall sol (ags : list (@age F)), sol_typed ws sol -> Forall (age_ok wp wq) ags ->
  parse_ans A e rs rp rq (print_ans A e ws wp wq sol ags) =
  Some (through_solution A e rs ws sol, map (through_age A e rp wp rq wq) ags).
Proof. exact (fun F A => ans_roundtrip A). Qed.
Print Assumptions C14_solution_ans_roundtrip.

(* what arrives, field by field: a double is the written value divided / multiplied by the unit
   factors exactly as the code does (writer first, then reader); an integer is itself *)
Theorem C14_solution_field_through_double : forall (F : Type) (A : Arith F) e (r w : field) (x : F),
  f_ty r = TDbl -> f_ty w = TDbl ->
  through A e r w (TD x) = TD (apply_scale A e (f_scale r) (apply_scale A e (f_scale w) x)).
Proof. exact (fun F A => through_dbl A). Qed.
Print Assumptions C14_solution_field_through_double.

Theorem C14_solution_field_through_int : forall (F : Type) (A : Arith F) e (r w : field) (z : Z),
  f_ty r = TInt -> f_ty w = TInt -> through A e r w (TI z) = TI z.
Proof. exact (fun F A => through_int A). Qed.
Print Assumptions C14_solution_field_through_int.

(* equal shapes and no scaling on either side: the solution itself comes back *)
Theorem C14_solution_roundtrip_lossless : forall (F : Type) (A : Arith F) e rs ws,
  compatible rs ws = true -> lossless rs ws = true ->
  forall sol : list (list (list (@tok F))), sol_typed ws sol ->
  parse_solution A e rs (print_solution A e ws sol) = Some sol.
Proof. exact (fun F A => roundtrip_lossless A). Qed.
Print Assumptions C14_solution_roundtrip_lossless.

(* a single line kind (the two numeric lines of an air-gap element) *)
Theorem C14_solution_line_roundtrip : forall (F : Type) (A : Arith F) e (rf wf : list field) (vs : list (@tok F)),
  line_compatible rf wf = true -> line_typed wf vs ->
  forall lenient, parse_fields A e ByLine lenient rf (print_line A e wf vs) = Some (through_line A e rf wf vs).
Proof. exact (fun F A => line_roundtrip A). Qed.
Print Assumptions C14_solution_line_roundtrip.

(* -- (b) the computable checker is sound for the hypothesis of (a) --------------------------------- *)
Theorem C14_solution_compatible_sound : forall rs ws, compatible rs ws = true -> Compatible rs ws.
Proof. exact compatible_sound. Qed.
Print Assumptions C14_solution_compatible_sound.

Theorem C14_solution_no_diagnosis_means_compatible : forall rs ws, diagnose rs ws = [] -> compatible rs ws = true.
Proof. exact diagnose_nil_compatible. Qed.
Print Assumptions C14_solution_no_diagnosis_means_compatible.

Theorem C14_solution_variants_sound : forall rv wv, variants_ok rv wv = true ->
  forall tag m, In (tag, m) wv -> reader_dest rv tag = m.
Proof. exact variants_ok_sound. Qed.
Print Assumptions C14_solution_variants_sound.

(* -- the schemas translated from the sources of /repo on this run ------------------------------------ *)
(* every solver / post-processor pair (electrostatics, heat flow; magnetics static / harmonic,
   planar / axisymmetric, plain / incremental): what the checker reports is exactly the committed list *)
Theorem C14_solution_pairs_compatible_except_known : all_diagnoses sol_pairs = expected_diagnoses.
Proof. vm_compute. reflexivity. Qed.
Print Assumptions C14_solution_pairs_compatible_except_known.

Theorem C14_solution_sound_pairs :
  map (fun p => fst (fst p)) (sound_pairs sol_pairs) =
  ["electrostatics"; "heatflow"; "magnetics_static_planar"; "magnetics_harmonic_planar";
   "magnetics_harmonic_incr_planar"; "magnetics_static_axisymmetric"; "magnetics_harmonic_axisymmetric";
   "magnetics_harmonic_incr_axisymmetric"; "heatflow_previous"; "magnetics_previous"].
Proof. vm_compute. reflexivity. Qed.
Print Assumptions C14_solution_sound_pairs.

(* hence the round trip holds for every one of these pairs *)
Theorem C14_solution_roundtrip_all_sound_pairs : forall name r w, In (name, r, w) (sound_pairs sol_pairs) ->
  forall (F : Type) (A : Arith F) e (sol : list (list (list (@tok F)))), sol_typed w sol ->
  parse_solution A e r (print_solution A e w sol) = Some (through_solution A e r w sol).
Proof. exact (fun name r w H F A => sound_pairs_roundtrip sol_pairs name r w H A). Qed.
Print Assumptions C14_solution_roundtrip_all_sound_pairs.

(* per-label circuit lines of .ans files: tag 0 carries a voltage gradient, tag 1 a current density, on
   both sides, in every mode *)
Theorem C14_solution_circuit_variants_agree :
  forallb (fun p => variants_ok (snd (fst p)) (snd p)) sol_variant_pairs = true.
Proof. vm_compute. reflexivity. Qed.
Print Assumptions C14_solution_circuit_variants_agree.

(* the two numeric lines of an air-gap element, static and harmonic writer vs. fpproc *)
Theorem C14_solution_airgap_lines_compatible :
  forallb (fun p => line_compatible (snd (fst p)) (snd p)) sol_age_pairs = true.
Proof. vm_compute. reflexivity. Qed.
Print Assumptions C14_solution_airgap_lines_compatible.

(* whole .ans files of non-incremental problems, static and harmonic: sections and air-gap block *)
Theorem C14_solution_ans_pairs_checked : forallb ans_pair_ok sol_ans_pairs = true.
Proof. vm_compute. reflexivity. Qed.
Print Assumptions C14_solution_ans_pairs_checked.

Theorem C14_solution_ans_roundtrip_all_pairs : forall name rs ws rp wp rq wq, In (name, rs, ws, rp, wp, rq, wq) sol_ans_pairs ->
  forall (F : Type) (A : Arith F) e sol (ags : list (@age F)), sol_typed ws sol -> Forall (age_ok wp wq) ags ->
  parse_ans A e rs rp rq (print_ans A e ws wp wq sol ags) =
  Some (through_solution A e rs ws sol, map (through_age A e rp wp rq wq) ags).
Proof.
  intros name rs ws rp wp rq wq Hin F A e. apply (ans_pair_roundtrip A e name).
  pose proof C14_solution_ans_pairs_checked as H. rewrite forallb_forall in H. exact (H _ Hin).
Qed.
Print Assumptions C14_solution_ans_roundtrip_all_pairs.

(* -- (c) coordinates come back in the declared unit ---------------------------------------------------- *)
(* the table by which LoadMesh multiplies and the table by which the writer divides are equal and
   non-zero, for the three solvers and all six units *)
Theorem C14_solution_unit_tables_agree : tables_agree sol_load_write = true.
Proof. vm_compute. reflexivity. Qed.
Print Assumptions C14_solution_unit_tables_agree.

Local Open Scope R_scope.
Theorem C14_solution_coordinates_come_back_R : forall name l w, In (name, l, w) sol_load_write ->
  forall u, (u < 6)%nat -> forall x0 : R, x0 * Q2R (nth u l 0%Q) / Q2R (nth u w 0%Q) = x0.
Proof. exact (tables_agree_R sol_load_write C14_solution_unit_tables_agree). Qed.
Print Assumptions C14_solution_coordinates_come_back_R.

(* in the model: a coordinate field printed with "/ cf" and read as it stands holds the mesh
   coordinate x0 again, when LoadMesh stored x0 * l and l = cf *)
Theorem C14_solution_coordinate_through_R : forall (e : list (string * R)) (r w : field) (t : string) (l wq : Q) (x0 : R),
  f_ty r = TDbl -> f_ty w = TDbl -> f_scale r = SNone -> f_scale w = SDiv t ->
  tabval RA e t = Q2R wq -> Qeq_bool l wq = true -> Qeq_bool wq 0 = false ->
  through RA e r w (TD (x0 * Q2R l)) = TD x0.
Proof. exact coordinate_through_R. Qed.
Print Assumptions C14_solution_coordinate_through_R.
Local Close Scope R_scope.

(* -- incremental-permeability and previous-solution hand-offs ----------------------------------------- *)
Local Open Scope float_scope.
Definition incr_static_sol : list (list (list (@tok PrimFloat.float))) :=
  [[[TD 0; TD 0; TD 1; TI 3%Z; TD 0.5]]; [[TI 0%Z; TI 0%Z; TI 0%Z; TI 0%Z; TI 7%Z; TI (-1)%Z; TI (-1)%Z; TD 0.25]]; [[TI 1%Z; TD 0]]; []].
Definition incr_static_sol_plain : list (list (list (@tok PrimFloat.float))) :=
  [[[TD 0; TD 0; TD 1; TI 3%Z]]; [[TI 0%Z; TI 0%Z; TI 0%Z; TI 0%Z; TI 7%Z; TI (-1)%Z; TI (-1)%Z; TD 0.25]]; [[TI 1%Z; TD 0]]; []].
Definition incr_harmonic_sol : list (list (list (@tok PrimFloat.float))) :=
  [[[TD 0; TD 0; TD 1; TD 0; TI 3%Z; TD 0.5]];
   [[TI 0%Z; TI 0%Z; TI 0%Z; TI 0%Z; TI 7%Z; TI (-1)%Z; TI (-1)%Z; TD 0.25]]; [[TI 1%Z; TD 0; TD 0]]; []].

Theorem C14_solution_static_incremental_refuted :
  exists sol, sol_typed w_fsolver_static_incr sol /\
  parse_solution FA [] r_fpproc_static_incr (print_solution FA [] w_fsolver_static_incr sol) = None.
Proof.
  exists [[[TD 0; TD 0; TD 1; TI 3%Z; TD 0.5]]; []; []; []]. split; [|vm_compute; reflexivity].
  repeat constructor.
Qed.
Print Assumptions C14_solution_static_incremental_refuted.

(* the harmonic incremental-permeability hand-off (repaired in /repo 7826e68): the file fsolver writes for a problem
   with a previous solution is read back by fpproc, Aprev and Jprev included *)
Theorem C14_solution_harmonic_incremental_compatible :
  compatible r_fpproc_harmonic_incr w_fsolver_harmonic_incr = true.
Proof. vm_compute. reflexivity. Qed.
Print Assumptions C14_solution_harmonic_incremental_compatible.

Theorem C14_solution_harmonic_incremental_roundtrip :
  forall (F : Type) (A : Arith F) e (sol : list (list (list (@tok F)))), sol_typed w_fsolver_harmonic_incr sol ->
  parse_solution A e r_fpproc_harmonic_incr (print_solution A e w_fsolver_harmonic_incr sol) =
  Some (through_solution A e r_fpproc_harmonic_incr w_fsolver_harmonic_incr sol).
Proof. exact (fun F A e => roundtrip_checked A e _ _ C14_solution_harmonic_incremental_compatible). Qed.
Print Assumptions C14_solution_harmonic_incremental_roundtrip.

Example C14_solution_harmonic_incremental_example :
  exists out, parse_solution FA [] r_fpproc_harmonic_incr (print_solution FA [] w_fsolver_harmonic_incr incr_harmonic_sol) = Some out /\
  nth 7 (nth 0 (nth 1 out []) []) TBad = TD 0.25 /\ nth 5 (nth 0 (nth 0 out []) []) TBad = TD 0.5.
Proof. eexists. split; [vm_compute; reflexivity|]. split; vm_compute; reflexivity. Qed.

(* fsolver reading its own static result as previous solution (repaired in /repo 5fed0d3, 0723d07): mesh, boundary
   markers of nodes AND of element edges, potentials, the source current density Jprev and the periodic pairs arrive *)
Theorem C14_solution_previous_magnetics_compatible : compatible r_fsolver_prev w_fsolver_static = true.
Proof. vm_compute. reflexivity. Qed.
Print Assumptions C14_solution_previous_magnetics_compatible.

Theorem C14_solution_previous_magnetics_roundtrip :
  forall (F : Type) (A : Arith F) e (sol : list (list (list (@tok F)))), sol_typed w_fsolver_static sol ->
  parse_solution A e r_fsolver_prev (print_solution A e w_fsolver_static sol) =
  Some (through_solution A e r_fsolver_prev w_fsolver_static sol).
Proof. exact (fun F A e => roundtrip_checked A e _ _ C14_solution_previous_magnetics_compatible). Qed.
Print Assumptions C14_solution_previous_magnetics_roundtrip.

(* in centimetres (all unit factors 1): edge markers and Jprev of the element come back as written *)
Example C14_solution_previous_magnetics_example :
  exists out, parse_solution FA [] r_fsolver_prev (print_solution FA [] w_fsolver_static incr_static_sol_plain) = Some out /\
  nth 4 (nth 0 (nth 1 out []) []) TBad = TI 7%Z /\ nth 7 (nth 0 (nth 1 out []) []) TBad = TD 0.25.
Proof. eexists. split; [vm_compute; reflexivity|]. split; vm_compute; reflexivity. Qed.

(* an unchecked sscanf accepts a line that ends early and nothing arrives in the remaining variables: the model
   marks them TBad (this is what the repaired writers no longer provoke) *)
Example C14_solution_short_line_is_accepted_but_empty :
  parse_fields FA [] ByLine true [mkF "p0" TInt SNone false "" "%i"; mkF "Jprev" TDbl SNone false "" "%lf"] [TI 3%Z] = Some [TI 3%Z; TBad].
Proof. vm_compute. reflexivity. Qed.

(* -- non-vacuity ---------------------------------------------------------------------------------------- *)
Example C14_solution_esolver_typed_inhabited :
  sol_typed w_esolver [[[TD 0x1.9666666666666p+4; TD 0; TD 1.5; TI 1%Z]; [TD 0; TD 0x1.9666666666666p+3; TD (-2); TI 0%Z]];
                       [[TI 0%Z; TI 1%Z; TI 1%Z; TI 0%Z]]; [[TD 1.5; TD 0x1p-30]]].
Proof. repeat constructor. Qed.

(* the electrostatics pair on a concrete solution, declared in inches: coordinates come back divided by 25.4 *)
Example C14_solution_esolver_example :
  parse_solution FA [("esolver_units", 0x1.9666666666666p+4)] r_epproc
    (print_solution FA [("esolver_units", 0x1.9666666666666p+4)] w_esolver
       [[[TD 0x1.9666666666666p+4; TD 0; TD 1.5; TI 1%Z]; [TD 0; TD 0x1.9666666666666p+3; TD (-2); TI 0%Z]];
        [[TI 0%Z; TI 1%Z; TI 1%Z; TI 0%Z]]; [[TD 1.5; TD 0x1p-30]]]) =
  Some [[[TD 1; TD 0; TD 1.5; TI 1%Z]; [TD 0; TD 0.5; TD (-2); TI 0%Z]];
        [[TI 0%Z; TI 1%Z; TI 1%Z; TI 0%Z]]; [[TD 1.5; TD 0x1p-30]]].
Proof. vm_compute. reflexivity. Qed.

(* an air-gap element with two quadrature-node lines, through the static writer and fpproc (ri, ro come back in metres) *)
Example C14_solution_airgap_example :
  let a := mkAge """gap""" [TI 0%Z; TD 0; TD 0; TD 2; TD 3; TD 90; TD 0; TD 0; TI 1%Z; TD 0; TD 0]
                 [[TI 1%Z; TD 1; TI 2%Z; TD 1; TI 3%Z; TD 1; TI 4%Z; TD 1]; [TI 5%Z; TD 1; TI 6%Z; TD 1; TI 7%Z; TD 1; TI 8%Z; TD 1]] in
  age_ok w_fsolver_static_age_params w_fsolver_static_age_quad a /\
  parse_ages FA [("fpproc_LengthConv", 0.5)] r_fpproc_age_params r_fpproc_age_quad
    (print_ages FA [("fpproc_LengthConv", 0.5)] w_fsolver_static_age_params w_fsolver_static_age_quad [a]) =
  Some ([mkAge "gap" [TI 0%Z; TD 0; TD 0; TD 1; TD 1.5; TD 90; TD 0; TD 0; TI 1%Z; TD 0; TD 0] (a_quads a)], []).
Proof. split; [|vm_compute; reflexivity]. repeat split; try (repeat constructor); discriminate. Qed.

Example C14_solution_compatible_inhabited : Compatible r_epproc w_esolver.
Proof. apply compatible_sound. vm_compute. reflexivity. Qed.

(* [lossless] is satisfiable: a reader that takes every field of a writer without scaling *)
Example C14_solution_lossless_inhabited :
  let w := [mkS "elements" "NumEls" ByLine ChkNone
              [mkF "p0" TInt SNone false "meshele[i].p[0]" "%i"; mkF "A.re" TDbl SNone false "L.b[i]" "%.17g"]] in
  compatible w w = true /\ lossless w w = true.
Proof. split; vm_compute; reflexivity. Qed.
