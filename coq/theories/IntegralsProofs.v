(* IntegralsProofs.v — C13: extensive block integrals are additive over disjoint selections and do
   not depend on the order of selection; energy identities (real reading). *)
From Coq Require Import ZArith List Bool Arith Lia Reals Lra Permutation.
From XF Require Import Arith Sparse SparseProofs Integrals.
Import ListNotations.
Local Open Scope R_scope.

Section Sel.
  Lemma toggle_length sel l : length (toggle sel l) = length sel.
  Proof. revert l. induction sel as [|b t IH]; intros [|l]; simpl; auto. Qed.

  Lemma selected_toggle sel l k : (l < length sel)%nat ->
    selected (toggle sel l) k = if Nat.eqb k l then negb (selected sel k) else selected sel k.
  Proof.
    unfold selected. revert l k. induction sel as [|b t IH]; intros l k Hl; [simpl in Hl; lia|].
    destruct l as [|l], k as [|k]; simpl; auto.
    simpl in Hl. rewrite IH by lia. reflexivity.
  Qed.

  (* the selection after a sequence of toggles: flag flipped iff the label was toggled an odd
     number of times — hence independent of the order of the toggles *)
  Fixpoint count_occ_nat (ls : list nat) (k : nat) : nat :=
    match ls with [] => 0 | x :: t => (if Nat.eqb k x then 1 else 0) + count_occ_nat t k end.

  Theorem selected_toggles ls : forall sel k, Forall (fun l => (l < length sel)%nat) ls ->
    selected (toggles sel ls) k = if Nat.odd (count_occ_nat ls k) then negb (selected sel k) else selected sel k.
  Proof.
    induction ls as [|l ls IH]; intros sel k Hl; [reflexivity|].
    apply Forall_cons_iff in Hl. destruct Hl as [H1 H2].
    unfold toggles in *. simpl fold_left. rewrite IH by (rewrite toggle_length; exact H2).
    rewrite selected_toggle by exact H1. cbn [count_occ_nat].
    destruct (Nat.eqb k l); cbn [Nat.add]; [|reflexivity].
    rewrite Nat.odd_succ, <- Nat.negb_odd. destruct (Nat.odd (count_occ_nat ls k)); cbn [negb];
      destruct (selected sel k); reflexivity.
  Qed.

  Corollary selection_order_independent ls1 ls2 sel k :
    Forall (fun l => (l < length sel)%nat) ls1 -> Forall (fun l => (l < length sel)%nat) ls2 ->
    (forall j, Nat.odd (count_occ_nat ls1 j) = Nat.odd (count_occ_nat ls2 j)) ->
    selected (toggles sel ls1) k = selected (toggles sel ls2) k.
  Proof. intros H1 H2 E. rewrite !selected_toggles by assumption. rewrite E. reflexivity. Qed.
End Sel.

Section Sum.
  (* the integral is the plain sum of the selected elements' terms *)
  Fixpoint sel_sum (sel : nat -> bool) (els : list (nat * R)) : R :=
    match els with [] => 0 | e :: t => (if sel (fst e) then snd e else 0) + sel_sum sel t end.

  Lemma block_integral_sum sel els : block_integral RA sel els = sel_sum (selected sel) els.
  Proof.
    unfold block_integral.
    assert (G : forall acc, fold_left (fun acc e => if selected sel (fst e) then aadd RA acc (snd e) else acc) els acc
                            = acc + sel_sum (selected sel) els).
    { induction els as [|e t IH]; intros acc; simpl; [lra|].
      rewrite IH. destruct (selected sel (fst e)); ra_simpl; lra. }
    rewrite G. ra_simpl. lra.
  Qed.

  (* additivity over disjoint selections; the union's integral is the sum of the parts *)
  Theorem integral_additive (s1 s2 s12 : nat -> bool) els :
    (forall l, s1 l && s2 l = false) -> (forall l, s12 l = s1 l || s2 l) ->
    sel_sum s12 els = sel_sum s1 els + sel_sum s2 els.
  Proof.
    intros Hd Hu. induction els as [|e t IH]; simpl; [lra|].
    rewrite IH, Hu. specialize (Hd (fst e)). destruct (s1 (fst e)), (s2 (fst e)); simpl in *; try discriminate; lra.
  Qed.

  (* independence of the element order *)
  Theorem integral_perm sel els1 els2 : Permutation els1 els2 -> sel_sum sel els1 = sel_sum sel els2.
  Proof. induction 1; simpl; try lra. Qed.
End Sum.

Section Energy.
  (* if the assembled rows hold at the free nodes (reaction r_i = 0 there), the quadratic form
     v.(K v) — twice the stored energy — collects only the constrained nodes: W = 1/2 sum V_c Q_c *)
  Theorem energy_from_reactions (v r : nat -> R) (free : nat -> bool) n :
    (forall i, (i < n)%nat -> free i = true -> r i = 0) ->
    rsum (fun i => v i * r i) n = rsum (fun i => if free i then 0 else v i * r i) n.
  Proof.
    intros H. apply rsum_ext. intros i Hi. destruct (free i) eqn:E; [rewrite (H i Hi E); lra|reflexivity].
  Qed.

  (* grouping the constrained nodes by conductor: equipotential nodes contribute V_c times the
     conductor's total reaction *)
  Theorem conductor_term (v r : nat -> R) (inc : nat -> bool) Vc n :
    (forall i, (i < n)%nat -> inc i = true -> v i = Vc) ->
    rsum (fun i => if inc i then v i * r i else 0) n = Vc * rsum (fun i => if inc i then r i else 0) n.
  Proof.
    intros H. rewrite <- rsum_scal. apply rsum_ext. intros i Hi. destruct (inc i) eqn:E; [rewrite (H i Hi E)|]; lra.
  Qed.
End Energy.
