(* SuperposeProofs.v — C11: linearity and reciprocity of the assembled systems (real reading). *)
From Coq Require Import ZArith List Bool Arith Lia Reals Lra.
From XF Require Import Arith Sparse SparseProofs AsmOps AsmOpsProofs AsmE AsmEProofs.
Import ListNotations.
Local Open Scope R_scope.

Lemma rsum_swap (f : nat -> nat -> R) n m :
  rsum (fun i => rsum (fun j => f i j) m) n = rsum (fun j => rsum (fun i => f i j) n) m.
Proof.
  induction n as [|n IH]; simpl.
  - symmetry. apply rsum_zero.
  - rewrite IH, <- rsum_plus. reflexivity.
Qed.

Section Linear.
  Local Notation vgetR := (vget RA).
  Implicit Type M : matrixT R.

  (* the product with the abstract symmetric matrix is linear in the vector *)
  Lemma Ax_linear M (x1 x2 x : vecT R) a b k :
    (forall j, (j < length M)%nat -> vgetR x j = a * vgetR x1 j + b * vgetR x2 j) ->
    Ax M x k = a * Ax M x1 k + b * Ax M x2 k.
  Proof.
    intros H. unfold Ax. rewrite <- !rsum_scal, <- rsum_plus. apply rsum_ext. intros j Hj.
    rewrite H by exact Hj. lra.
  Qed.

  (* superposition: solutions of A x = b for two right-hand sides combine linearly *)
  Theorem solutions_superpose M (x1 x2 x b1 b2 bb : vecT R) a b :
    (forall j, (j < length M)%nat -> vgetR x j = a * vgetR x1 j + b * vgetR x2 j) ->
    (forall k, (k < length M)%nat -> vgetR bb k = a * vgetR b1 k + b * vgetR b2 k) ->
    (forall k, (k < length M)%nat -> Ax M x1 k = vgetR b1 k) ->
    (forall k, (k < length M)%nat -> Ax M x2 k = vgetR b2 k) ->
    forall k, (k < length M)%nat -> Ax M x k = vgetR bb k.
  Proof.
    intros Hx Hb H1 H2 k Hk. rewrite (Ax_linear M x1 x2 x a b k Hx), H1, H2, Hb by exact Hk. reflexivity.
  Qed.

  (* zero excitation: the zero vector solves A x = 0 *)
  Theorem zero_excitation_zero_field M (x : vecT R) k :
    (forall j, (j < length M)%nat -> vgetR x j = 0) -> Ax M x k = 0.
  Proof.
    intros H. unfold Ax. rewrite (rsum_ext _ (fun _ => 0)); [apply rsum_zero|].
    intros j Hj. rewrite H by exact Hj. lra.
  Qed.

  (* reciprocity: the matrix the solvers store is symmetric by construction (one entry per
     unordered pair), hence  u . (A v) = v . (A u)  for all vectors: the charge induced on
     conductor j by unit voltage on i equals that on i by unit voltage on j, and likewise for
     mutual flux linkages and heat flows *)
  Theorem reciprocity M (u v : vecT R) :
    rsum (fun i => vgetR u i * Ax M v i) (length M) = rsum (fun i => vgetR v i * Ax M u i) (length M).
  Proof.
    unfold Ax.
    rewrite (rsum_ext _ (fun i => rsum (fun j => vgetR u i * (mget RA M i j * vgetR v j)) (length M)))
      by (intros; rewrite rsum_scal; reflexivity).
    rewrite (rsum_ext (fun i => vgetR v i * _) (fun i => rsum (fun j => vgetR v i * (mget RA M i j * vgetR u j)) (length M)))
      by (intros; rewrite rsum_scal; reflexivity).
    rewrite rsum_swap. apply rsum_ext. intros j Hj. apply rsum_ext. intros i Hi.
    rewrite (mget_sym RA M i j). ring.
  Qed.
End Linear.

Section ElementLinearity.
  Local Notation vgetR := (vget RA).

  (* the prescribed-value processing is linear in (prescribed values, load) and leaves a matrix
     that does not depend on them *)
  Theorem presc_linear (Q : list Z) n0 n1 n2 m00 m01 m02 m11 m12 m22
          (V1 V2 V : vecT R) b0 b1 b2 c0 c1 c2 a b :
    let n := (n0, n1, n2) in
    let Me := [m00; m01; m02; m01; m11; m12; m02; m12; m22] in
    vgetR V n0 = a * vgetR V1 n0 + b * vgetR V2 n0 ->
    vgetR V n1 = a * vgetR V1 n1 + b * vgetR V2 n1 ->
    vgetR V n2 = a * vgetR V1 n2 + b * vgetR V2 n2 ->
    let r1 := presc_mb V1 Q n Me [b0; b1; b2] in
    let r2 := presc_mb V2 Q n Me [c0; c1; c2] in
    let r := presc_mb V Q n Me [a * b0 + b * c0; a * b1 + b * c1; a * b2 + b * c2] in
    fst r = fst r1 /\ fst r = fst r2 /\
    forall j, (j < 3)%nat -> vgetR (snd r) j = a * vgetR (snd r1) j + b * vgetR (snd r2) j.
  Proof.
    intros n Me H0 H1 H2 r1 r2 r. unfold r, r1, r2, presc_mb, n, Me.
    cbn [fold_left]. unfold presc_outer_mb. cbn [tri_get]. unfold vget in *. ra_simpl.
    destruct (Z.eqb (nth n0 Q (-2)%Z) (-2)%Z); destruct (Z.eqb (nth n1 Q (-2)%Z) (-2)%Z);
      destruct (Z.eqb (nth n2 Q (-2)%Z) (-2)%Z);
      cbn; ra_simpl; cbn; (split; [reflexivity|]); (split; [reflexivity|]);
      intros j Hj; destruct j as [|[|[|j]]]; try lia; cbn; rewrite ?H0, ?H1, ?H2; try ring.
  Qed.

  (* the element stiffness does not depend on the sources, the element load is linear in them *)
  Theorem element_linear_in_sources (P1 P2 : eprob (F:=R)) extRo extRi extZo D0 k0 el j k :
    ee el = (None, None, None) -> (j < 3)%nat -> (k < 3)%nat ->
    nodes P1 = nodes P2 -> axi P1 = axi P2 -> label_ext P1 = label_ext P2 -> eo P1 = eo P2 ->
    bex (nth (eblk el) (blocks P1) (dblock RA)) = bex (nth (eblk el) (blocks P2) (dblock RA)) ->
    bey (nth (eblk el) (blocks P1) (dblock RA)) = bey (nth (eblk el) (blocks P2) (dblock RA)) ->
    let r1 := elem_matrices RA P1 extRo extRi extZo D0 k0 el in
    let r2 := elem_matrices RA P2 extRo extRi extZo D0 k0 el in
    m3get RA (snd (fst r1)) j k = m3get RA (snd (fst r2)) j k /\
    vgetR (snd r1) j * bqv (nth (eblk el) (blocks P2) (dblock RA))
      = vgetR (snd r2) j * bqv (nth (eblk el) (blocks P1) (dblock RA)).
  Proof.
    intros He Hj Hk Hn Ha Hl Heo Hx Hy r1 r2.
    destruct (elem_matrices_noedge P1 extRo extRi extZo D0 k0 el He) as (_ & _ & HM1 & HB1).
    destruct (elem_matrices_noedge P2 extRo extRi extZo D0 k0 el He) as (_ & _ & HM2 & HB2).
    unfold r1, r2. rewrite HM1, HM2, HB1, HB2 by assumption.
    unfold elem_dk, el_geom, cconst. rewrite Hn, Ha, Hl, Heo, Hx, Hy. split; [reflexivity|field].
  Qed.
End ElementLinearity.
