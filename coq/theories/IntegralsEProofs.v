(* IntegralsEProofs.v — theorems about the model of the electrostatics post-processor's block
   integrals (IntegralsE.v), real reading; plus the generic parts shared with the heat-flow and
   magnetics post-processors: the Green identity over real coordinates (area = shoelace of the
   boundary, revolved volume = boundary integral of pi r^2 dz), sums over selected elements, and
   the interchange "sum over elements of a quadratic form = sum over nodes of value x reaction". *)
From Coq Require Import ZArith List Bool Arith Lia Reals Lra Permutation.
From XF Require Import Arith Sparse SparseProofs AsmOps AsmOpsProofs AsmE AsmEProofs Sums
                       Integrals IntegralsProofs IntegralsE.
Import ListNotations.
Local Open Scope R_scope.

(* ------------------------------------------------------------------------------------------ *)
(* sums over lists of reals as an instance of Sums.v                                            *)
(* ------------------------------------------------------------------------------------------ *)
Section LSum.
  Lemma lsum_gsum {T} (f : T -> R) l : lsum f l = gsum R Rplus 0 f l.
  Proof. induction l as [|x t IH]; simpl; [reflexivity|]. rewrite IH. reflexivity. Qed.

  Lemma lsum_ext {T} (f g : T -> R) l : (forall x, In x l -> f x = g x) -> lsum f l = lsum g l.
  Proof.
    induction l as [|x t IH]; simpl; intros H; [reflexivity|].
    rewrite (H x) by auto. rewrite IH by auto. reflexivity.
  Qed.

  Lemma lsum_plus {T} (f g : T -> R) l : lsum (fun x => f x + g x) l = lsum f l + lsum g l.
  Proof. induction l as [|x t IH]; simpl; [lra|]. rewrite IH. lra. Qed.

  Lemma lsum_scal {T} a (f : T -> R) l : lsum (fun x => a * f x) l = a * lsum f l.
  Proof. induction l as [|x t IH]; simpl; [lra|]. rewrite IH. lra. Qed.

  Lemma lsum_zero {T} (l : list T) : lsum (fun _ => 0) l = 0.
  Proof. induction l; simpl; lra. Qed.

  Lemma lsum_map {T U} (h : T -> U) (f : U -> R) l : lsum f (map h l) = lsum (fun x => f (h x)) l.
  Proof. induction l as [|x t IH]; simpl; [reflexivity|]. rewrite IH. reflexivity. Qed.

  Lemma lsum_perm {T} (f : T -> R) l1 l2 : Permutation l1 l2 -> lsum f l1 = lsum f l2.
  Proof. induction 1; simpl; lra. Qed.

  Lemma lsum_filter_split {T} (f : T -> R) (p : T -> bool) l :
    lsum f l = lsum f (filter p l) + lsum f (filter (fun x => negb (p x)) l).
  Proof.
    induction l as [|x t IH]; simpl; [lra|]. rewrite IH. destruct (p x); simpl; lra.
  Qed.

  Lemma lsum_filter {T} (f : T -> R) (p : T -> bool) l :
    lsum f (filter p l) = lsum (fun x => if p x then f x else 0) l.
  Proof. induction l as [|x t IH]; simpl; [reflexivity|]. destruct (p x); simpl; rewrite IH; lra. Qed.

  Lemma lsum_antisym_cancel {E} (rev : E -> E) (f : E -> R) (l : list E) :
    NoDup l -> (forall e, In e l -> In (rev e) l) -> (forall e, rev (rev e) = e) ->
    (forall e, f (rev e) = - f e) -> lsum f l = 0.
  Proof.
    intros. rewrite lsum_gsum.
    apply (antisym_cancel R Rplus Ropp 0) with (rev := rev); auto; intros; lra.
  Qed.
End LSum.

(* ------------------------------------------------------------------------------------------ *)
(* Green identities on a triangle list with node indices in nat                                *)
(* ------------------------------------------------------------------------------------------ *)
Section GreenR.
  Local Notation tri3 := (nat * nat * nat)%type.
  Local Notation dedge := (nat * nat)%type.

  Definition rdedges (t : tri3) : list dedge := let '(a, b, c) := t in [(a, b); (b, c); (c, a)].
  Definition rall_dedges (ts : list tri3) : list dedge := flat_map rdedges ts.
  Definition rrev (e : dedge) : dedge := (snd e, fst e).
  Definition redge_eqb (e1 e2 : dedge) : bool := Nat.eqb (fst e1) (fst e2) && Nat.eqb (snd e1) (snd e2).
  Lemma redge_eqb_spec e1 e2 : redge_eqb e1 e2 = true <-> e1 = e2.
  Proof.
    destruct e1, e2. unfold redge_eqb. simpl. rewrite andb_true_iff, !Nat.eqb_eq.
    split; [intros [-> ->]; reflexivity|intros H; inversion H; auto].
  Qed.
  Definition rmem (e : dedge) (l : list dedge) : bool := existsb (redge_eqb e) l.
  Lemma rmem_spec e l : rmem e l = true <-> In e l.
  Proof.
    unfold rmem. rewrite existsb_exists. split.
    - intros [x [Hx E]]. apply redge_eqb_spec in E. subst. exact Hx.
    - intros H. exists e. split; [exact H|apply redge_eqb_spec; reflexivity].
  Qed.

  (* the boundary of a set of elements: directed element edges whose reverse is no element edge *)
  Definition rboundary (ts : list tri3) : list dedge :=
    filter (fun e => negb (rmem (rrev e) (rall_dedges ts))) (rall_dedges ts).

  (* any per-element quantity that is the sum over the element's three directed edges of an edge
     function that changes sign with the direction sums, over an edge-manifold set of elements
     (no directed edge used twice), to the same edge function summed over the boundary *)
  Theorem green_generic (f : dedge -> R) (g : tri3 -> R) :
    (forall e, f (rrev e) = - f e) -> (forall t, lsum f (rdedges t) = g t) ->
    forall ts, NoDup (rall_dedges ts) -> lsum g ts = lsum f (rboundary ts).
  Proof.
    intros Hanti Htri ts Hnd.
    assert (Hsum : lsum f (rall_dedges ts) = lsum g ts).
    { clear Hnd. induction ts as [|t ts IH]; [reflexivity|].
      unfold rall_dedges in *. simpl flat_map. rewrite lsum_app, IH, Htri. reflexivity. }
    rewrite <- Hsum.
    set (E := rall_dedges ts) in *.
    rewrite (lsum_filter_split f (fun e => rmem (rrev e) E) E).
    fold (rboundary ts). unfold rboundary. fold E.
    assert (Z0 : lsum f (filter (fun e => rmem (rrev e) E) E) = 0).
    { apply (lsum_antisym_cancel rrev).
      - apply NoDup_filter. exact Hnd.
      - intros e He. apply filter_In in He. destruct He as [HeE Hm].
        apply rmem_spec in Hm. apply filter_In. split; [exact Hm|].
        apply rmem_spec. destruct e. exact HeE.
      - intros [u v]. reflexivity.
      - exact Hanti. }
    rewrite Z0. lra.
  Qed.

  Variable X : nat -> R * R.           (* node coordinates (x, y) or (r, z) *)

  (* twice the signed area of a triangle *)
  Definition rarea2 (t : tri3) : R :=
    let '(a, b, c) := t in
    (fst (X b) - fst (X a)) * (snd (X c) - snd (X a)) - (fst (X c) - fst (X a)) * (snd (X b) - snd (X a)).
  (* shoelace term of a directed edge *)
  Definition rcross (e : dedge) : R :=
    fst (X (fst e)) * snd (X (snd e)) - fst (X (snd e)) * snd (X (fst e)).

  Theorem green_area ts : NoDup (rall_dedges ts) -> lsum rarea2 ts = lsum rcross (rboundary ts).
  Proof.
    apply green_generic.
    - intros [u v]. unfold rcross, rrev. simpl. ring.
    - intros [[a b] c]. unfold rdedges, rcross, rarea2. simpl. ring.
  Qed.

  (* volume of revolution about the axis x = 0:  V = int int 2 pi r dr dz = closed line integral of
     pi r^2 dz ; on a straight edge u -> v:  pi (z_v - z_u) (r_u^2 + r_u r_v + r_v^2) / 3 *)
  Definition rrevol (e : dedge) : R :=
    let u := X (fst e) in let v := X (snd e) in
    PI * (snd v - snd u) * (fst u * fst u + fst u * fst v + fst v * fst v) / 3.
  (* Pappus: 2 pi (centroid radius) (signed area) *)
  Definition rpappus (t : tri3) : R :=
    let '(a, b, c) := t in 2 * PI * ((fst (X a) + fst (X b) + fst (X c)) / 3) * (rarea2 t / 2).

  Theorem green_volume ts : NoDup (rall_dedges ts) -> lsum rpappus ts = lsum rrevol (rboundary ts).
  Proof.
    apply green_generic.
    - intros [u v]. unfold rrevol, rrev. simpl. field.
    - intros [[a b] c]. unfold rdedges, rrevol, rpappus, rarea2. simpl. field.
  Qed.
End GreenR.

(* ------------------------------------------------------------------------------------------ *)
(* real-number facts about the CComplex helpers                                                 *)
(* ------------------------------------------------------------------------------------------ *)
Section CplxR.
  (* abs(CComplex) squared is re^2 + im^2 *)
  Lemma cabsf_sq (z : R * R) : cabsf RA z * cabsf RA z = fst z * fst z + snd z * snd z.
  Proof.
    destruct z as [a b]. unfold cabsf. cbn [fst snd]. ra_simpl.
    destruct (Reqb a 0) eqn:Ea; [apply Reqb_true in Ea|apply Reqb_false in Ea].
    - destruct (Reqb b 0) eqn:Eb; [apply Reqb_true in Eb|apply Reqb_false in Eb]; cbn [andb].
      + subst. lra.
      + subst a. rewrite Rabs_R0.
        destruct (Rltb (Rabs b) 0) eqn:El; [apply Rltb_true in El; pose proof (Rabs_pos b); lra|].
        replace (0 / b) with 0 by (unfold Rdiv; ring).
        replace (1 + 0 * 0) with 1 by ring. rewrite sqrt_1.
        replace (Rabs b * 1 * (Rabs b * 1)) with (Rabs b * Rabs b) by ring.
        rewrite <- Rabs_mult, Rabs_pos_eq by nra. ring.
    - cbn [andb].
      destruct (Rltb (Rabs b) (Rabs a)) eqn:El.
      + assert (H1 : 0 <= 1 + b / a * (b / a)) by nra.
        replace (Rabs a * sqrt (1 + b / a * (b / a)) * (Rabs a * sqrt (1 + b / a * (b / a))))
          with (Rabs a * Rabs a * (sqrt (1 + b / a * (b / a)) * sqrt (1 + b / a * (b / a)))) by ring.
        rewrite sqrt_sqrt by exact H1. rewrite <- Rabs_mult, Rabs_pos_eq by nra. field. exact Ea.
      + apply Rltb_false in El.
        assert (Hb : b <> 0).
        { intro Hb. subst b. rewrite Rabs_R0 in El. apply El. apply Rabs_pos_lt. exact Ea. }
        assert (H1 : 0 <= 1 + a / b * (a / b)) by nra.
        replace (Rabs b * sqrt (1 + a / b * (a / b)) * (Rabs b * sqrt (1 + a / b * (a / b))))
          with (Rabs b * Rabs b * (sqrt (1 + a / b * (a / b)) * sqrt (1 + a / b * (a / b)))) by ring.
        rewrite sqrt_sqrt by exact H1. rewrite <- Rabs_mult, Rabs_pos_eq by nra. field. exact Hb.
  Qed.

  (* the correction factor of the exterior region is (r^2 + (z - Zo)^2)/(Ro Ri), independent of the
     branch abs() takes *)
  Lemma pp_aecf_R axi ext Zo Ro Ri (c : R * R) :
    pp_aecf RA axi ext Zo Ro Ri c =
    if axi && ext then (fst c * fst c + (snd c - Zo) * (snd c - Zo)) / (Ro * Ri) else 1.
  Proof.
    unfold pp_aecf. destruct axi, ext; cbn [negb andb]; try reflexivity.
    cbv zeta. ra_simpl. rewrite cabsf_sq. unfold csub, ci_times. cbn [fst snd]. ra_simpl.
    f_equal. ring.
  Qed.
End CplxR.

(* ------------------------------------------------------------------------------------------ *)
(* units: the solvers' tables against the post-processors' LengthConv                          *)
(* ------------------------------------------------------------------------------------------ *)
Section UnitsPP.
  (* ESolver works in millimetres: eunits[k] = 1000 LengthConv[k]; this is the relation  ie_lc P = u / 1000  of the
     theorems that tie the post-processor to AsmE *)
  Lemma eunits_vs_length_conv k : (k < 6)%nat ->
    nth k (eunits RA) 1 = 1000 * nth k (pp_length_conv RA) 1.
  Proof.
    intros Hk. do 6 (destruct k as [|k]; [cbn; ra_simpl; change (IZR (10 ^ 1)) with 10; change (IZR (10 ^ 2)) with 100;
      change (IZR (10 ^ 3)) with 1000; change (IZR (10 ^ 4)) with 10000; change (IZR (10 ^ 6)) with 1000000;
      change (IZR (10 ^ 7)) with 10000000; lra|]). lia.
  Qed.
End UnitsPP.

(* ------------------------------------------------------------------------------------------ *)
(* element level: closed forms of the quantities blockIntegral uses                            *)
(* ------------------------------------------------------------------------------------------ *)
Section ElemE.
  Variable P : ie_prob (F:=R).
  Implicit Type el : ie_elem.

  Definition e_x el j : R := ie_x (ie_nd RA P el j).
  Definition e_y el j : R := ie_y (ie_nd RA P el j).
  Definition e_v el j : R := ie_V (ie_nd RA P el j).
  (* b[j], c[j] of getElementD and da = twice the signed element area, file coordinates *)
  Definition e_b el (j : nat) : R :=
    match j with 0%nat => e_y el 1 - e_y el 2 | 1%nat => e_y el 2 - e_y el 0 | _ => e_y el 0 - e_y el 1 end.
  Definition e_c el (j : nat) : R :=
    match j with 0%nat => e_x el 2 - e_x el 1 | 1%nat => e_x el 0 - e_x el 2 | _ => e_x el 1 - e_x el 0 end.
  Definition e_da el : R := e_b el 0 * e_c el 1 - e_b el 1 * e_c el 0.
  Definition e_tri el : nat * nat * nat := ie_p el.

  Lemma e_da_is_area2 el :
    e_da el = (e_x el 1 - e_x el 0) * (e_y el 2 - e_y el 0) - (e_x el 2 - e_x el 0) * (e_y el 1 - e_y el 0).
  Proof. unfold e_da, e_b, e_c. ring. Qed.

  (* block integral 1: the planar term is the signed area of the element in square metres *)
  Lemma ie_area_R el : ie_area RA P el = ie_lc P * ie_lc P * (e_da el / 2).
  Proof.
    unfold ie_area, ie_geom, geom. cbn [ga gp gq]. unfold vget. cbn [nth]. ra_simpl.
    unfold e_da, e_b, e_c, e_x, e_y. field.
  Qed.

  Lemma ie_R_R el : ie_R RA P el = ie_lc P * ((e_x el 0 + e_x el 1 + e_x el 2) / 3).
  Proof. unfold ie_R. ra_simpl. unfold e_x. field. Qed.

  (* block integral 2: depth x area (planar), 2 pi (centroid radius) x area (axisymmetric) *)
  Lemma ie_vol_R el :
    ie_vol RA P el =
    if ie_axi P then 2 * PI * (ie_lc P * ((e_x el 0 + e_x el 1 + e_x el 2) / 3)) * (ie_lc P * ie_lc P * (e_da el / 2))
    else ie_depth RA P * (ie_lc P * ie_lc P * (e_da el / 2)).
  Proof.
    unfold ie_vol. rewrite ie_area_R, ie_R_R. destruct (ie_axi P); ra_simpl; ring.
  Qed.

  Lemma ie_ctr_R el :
    ie_ctr RA P el = ((e_x el 0 + e_x el 1 + e_x el 2) / 3, (e_y el 0 + e_y el 1 + e_y el 2) / 3).
  Proof.
    unfold ie_ctr, pp_ctr, cadd, czero. cbn [fst snd]. ra_simpl. unfold e_x, e_y. f_equal; field.
  Qed.

  Definition e_ext el : bool := ie_axi P && nth (ie_lbl el) (ie_label_ext P) false.

  Lemma ie_aecf_R el :
    ie_aecf RA P el =
    if e_ext el then
      (((e_x el 0 + e_x el 1 + e_x el 2) / 3) * ((e_x el 0 + e_x el 1 + e_x el 2) / 3)
       + ((e_y el 0 + e_y el 1 + e_y el 2) / 3 - ie_extZo P) * ((e_y el 0 + e_y el 1 + e_y el 2) / 3 - ie_extZo P))
      / (ie_extRo P * ie_extRi P)
    else 1.
  Proof. unfold ie_aecf. rewrite pp_aecf_R, ie_ctr_R. reflexivity. Qed.

  (* the field of getElementD is minus the gradient of the P1 interpolant, in volts per metre *)
  Definition e_gx el : R := - (e_v el 0 * e_b el 0 + e_v el 1 * e_b el 1 + e_v el 2 * e_b el 2) / (e_da el * ie_lc P).
  Definition e_gy el : R := - (e_v el 0 * e_c el 0 + e_v el 1 * e_c el 1 + e_v el 2 * e_c el 2) / (e_da el * ie_lc P).

  Lemma ie_gradE_R el : ie_gradE RA P el = (e_gx el, e_gy el).
  Proof.
    unfold ie_gradE, pp_grad, ie_geom, geom, csub, cdivr, dmulc, dplusc, ci_times, czero.
    cbn [gp gq fst snd]. unfold vget. cbn [nth]. ra_simpl.
    unfold e_gx, e_gy, e_da, e_b, e_c, e_v, e_x, e_y. unfold Rdiv. f_equal; ring.
  Qed.

  Definition e_ex el : R := fst (ie_mat RA P el).
  Definition e_ey el : R := snd (ie_mat RA P el).

  Lemma ie_D_R el :
    ie_D RA P el = (ie_eo P * (e_gx el * e_ex el) / ie_aecf RA P el, ie_eo P * (e_gy el * e_ey el) / ie_aecf RA P el).
  Proof.
    unfold ie_D. rewrite ie_gradE_R. unfold e_ex, e_ey. destruct (ie_mat RA P el) as [ex ey].
    unfold cdivr, dmulc, dplusc, cmuld, ci_times. cbn [fst snd]. ra_simpl. unfold Rdiv. f_equal; ring.
  Qed.

  (* E() undoes the constitutive law: it returns the gradient field again *)
  Lemma ie_E_R el :
    e_ex el <> 0 -> e_ey el <> 0 -> ie_eo P <> 0 -> ie_aecf RA P el <> 0 ->
    ie_E RA P el (ie_D RA P el) = (e_gx el, e_gy el).
  Proof.
    intros Hx Hy He Ha. rewrite ie_D_R. unfold ie_E, e_ex, e_ey in *.
    destruct (ie_mat RA P el) as [ex ey]. cbn [fst snd] in *.
    unfold cmuld, cdivr, dplusc, ci_times. cbn [fst snd]. ra_simpl. f_equal; field; repeat split; assumption.
  Qed.

  (* the element stiffness matrix of div(eps grad V) in SI units: vol * eps grad(phi_j) . grad(phi_k),
     grad(phi_j) = (b_j, c_j)/(da lc); divided by the exterior-region factor *)
  Definition e_K el (j k : nat) : R :=
    ie_eo P * ie_vol RA P el / ie_aecf RA P el
    * (e_ex el * e_b el j * e_b el k + e_ey el * e_c el j * e_c el k) / (e_da el * ie_lc P) / (e_da el * ie_lc P).

  Definition e_Kv el (j : nat) : R := e_K el j 0 * e_v el 0 + e_K el j 1 * e_v el 1 + e_K el j 2 * e_v el 2.
  Definition e_quad el : R := e_v el 0 * e_Kv el 0 + e_v el 1 * e_Kv el 1 + e_v el 2 * e_Kv el 2.

  Lemma e_K_sym el j k : e_K el j k = e_K el k j.
  Proof. unfold e_K. f_equal. f_equal. f_equal. ring. Qed.

  (* block integral 0: the element's energy term is one half of v^T K v *)
  Theorem ie_energy_is_quadratic_form el :
    e_ex el <> 0 -> e_ey el <> 0 -> ie_eo P <> 0 -> ie_aecf RA P el <> 0 ->
    ie_energy_term RA P el = e_quad el / 2.
  Proof.
    intros Hx Hy He Ha. unfold ie_energy_term. cbv zeta. rewrite ie_E_R by assumption. rewrite ie_D_R.
    unfold re_mul_conj. cbn [fst snd]. ra_simpl.
    unfold e_quad, e_Kv, e_K, e_gx, e_gy. unfold Rdiv. ring.
  Qed.

  (* energy density form: 1/2 (eps_x E_x^2 + eps_y E_y^2) eps0 / AECF times the element volume *)
  Theorem ie_energy_density el :
    e_ex el <> 0 -> e_ey el <> 0 -> ie_eo P <> 0 -> ie_aecf RA P el <> 0 ->
    ie_energy_term RA P el =
    ie_vol RA P el * (ie_eo P * (e_ex el * e_gx el * e_gx el + e_ey el * e_gy el * e_gy el) / ie_aecf RA P el) / 2.
  Proof.
    intros Hx Hy He Ha. unfold ie_energy_term. cbv zeta. rewrite ie_E_R by assumption. rewrite ie_D_R.
    unfold re_mul_conj. cbn [fst snd]. ra_simpl. unfold Rdiv. ring.
  Qed.
End ElemE.

(* ------------------------------------------------------------------------------------------ *)
(* the post-processor's element stiffness is the solver's element matrix (AsmE.elem_matrices)  *)
(* ------------------------------------------------------------------------------------------ *)
Section LinkE.
  Variables (P : ie_prob (F:=R)) (SP : eprob (F:=R)) (u : R).

  (* element [sl] of the solver's problem is element [el] of the post-processor's: same nodes,
     block and label; the solver's coordinates are the file's times u (the solver works in
     millimetres: u = eunits[LengthUnits]) *)
  Definition same_elem (el : ie_elem) (sl : eelem) : Prop :=
    ep sl = ie_p el /\ eblk sl = ie_blk el /\ elbl sl = ie_lbl el /\
    (forall j, (j < 3)%nat ->
       nx (nth (tri_get (ep sl) j) (nodes SP) (dnode RA)) = u * e_x P el j /\
       ny (nth (tri_get (ep sl) j) (nodes SP) (dnode RA)) = u * e_y P el j) /\
    bex (nth (eblk sl) (blocks SP) (dblock RA)) = e_ex P el /\
    bey (nth (eblk sl) (blocks SP) (dblock RA)) = e_ey P el /\
    nth (elbl sl) (label_ext SP) false = nth (ie_lbl el) (ie_label_ext P) false.

  Hypothesis Haxi : axi SP = ie_axi P.
  Hypothesis Hu : u <> 0.
  Hypothesis Hlc : ie_lc P <> 0.
  Hypothesis Hdepth : ie_depth_file P <> - (1).

  Lemma ie_depth_normal : ie_depth RA P = ie_depth_file P * ie_lc P.
  Proof.
    unfold ie_depth. ra_simpl. destruct (Reqb (ie_depth_file P) (- (1))) eqn:E; [|reflexivity].
    apply Reqb_true in E. contradiction.
  Qed.

  Theorem solver_matrix_is_e_K el sl j k :
    same_elem el sl -> ee sl = (None, None, None) -> (j < 3)%nat -> (k < 3)%nat ->
    e_da P el <> 0 -> ie_aecf RA P el <> 0 -> (e_ext P el = true -> ie_extRo P * ie_extRi P <> 0) ->
    let r := elem_matrices RA SP (u * ie_extRo P) (u * ie_extRi P) (u * ie_extZo P) (u * ie_depth_file P) 1 sl in
    e_K P el j k = - (ie_eo P * ie_lc P / u) * m3get RA (snd (fst r)) j k.
  Proof.
    intros (Hp & Hb & Hl & Hxy & Hex & Hey & Hext) Hee Hj Hk Hda Hae Hro r.
    destruct (elem_matrices_noedge SP (u * ie_extRo P) (u * ie_extRi P) (u * ie_extZo P) (u * ie_depth_file P) 1 sl Hee)
      as (_ & _ & HM & _).
    unfold r. rewrite (HM j k Hj Hk). clear HM r.
    rewrite Hex, Hey. unfold elem_dk, el_geom. rewrite Haxi, Hext.
    destruct (Hxy 0%nat ltac:(lia)) as [X0 Y0]. destruct (Hxy 1%nat ltac:(lia)) as [X1 Y1].
    destruct (Hxy 2%nat ltac:(lia)) as [X2 Y2]. rewrite X0, X1, X2, Y0, Y1, Y2.
    unfold e_K. rewrite ie_vol_R. rewrite ie_aecf_R in *. unfold e_ext in *.
    unfold geom. cbn [gp gq ga gr]. unfold vget. ra_simpl.
    rewrite ie_depth_normal.
    unfold e_da, e_b, e_c in *.
    set (x0 := e_x P el 0) in *. set (x1 := e_x P el 1) in *. set (x2 := e_x P el 2) in *.
    set (y0 := e_y P el 0) in *. set (y1 := e_y P el 1) in *. set (y2 := e_y P el 2) in *.
    assert (Hda' : (u * y1 - u * y2) * (u * x0 - u * x2) - (u * y2 - u * y0) * (u * x2 - u * x1) <> 0).
    { replace ((u * y1 - u * y2) * (u * x0 - u * x2) - (u * y2 - u * y0) * (u * x2 - u * x1))
        with (u * u * ((y1 - y2) * (x0 - x2) - (y2 - y0) * (x2 - x1))) by ring.
      repeat apply Rmult_integral_contrapositive_currified; assumption. }
    destruct (ie_axi P); destruct (nth (ie_lbl el) (ie_label_ext P) false); cbn [andb fst snd] in *.
    1: { specialize (Hro eq_refl).
         assert (Hro1 : ie_extRo P <> 0) by (intro Hz; apply Hro; rewrite Hz; ring).
         assert (Hri1 : ie_extRi P <> 0) by (intro Hz; apply Hro; rewrite Hz; ring).
         set (N := (x0 + x1 + x2) * (x0 + x1 + x2) + (y0 + y1 + y2 - ie_extZo P * 3) * (y0 + y1 + y2 - ie_extZo P * 3)).
         assert (HN : N <> 0).
         { intro Hz. apply Hae.
           replace (((x0 + x1 + x2) / 3 * ((x0 + x1 + x2) / 3) +
                     ((y0 + y1 + y2) / 3 - ie_extZo P) * ((y0 + y1 + y2) / 3 - ie_extZo P)) / (ie_extRo P * ie_extRi P))
             with (N / 9 / (ie_extRo P * ie_extRi P)) by (unfold N; field; split; assumption).
           rewrite Hz. field. split; assumption. }
         assert (HN' : (u * x0 + u * x1 + u * x2) * (u * x0 + u * x1 + u * x2) +
                       (u * y0 + u * y1 + u * y2 - u * ie_extZo P * 3) * (u * y0 + u * y1 + u * y2 - u * ie_extZo P * 3) <> 0).
         { replace ((u * x0 + u * x1 + u * x2) * (u * x0 + u * x1 + u * x2) +
                    (u * y0 + u * y1 + u * y2 - u * ie_extZo P * 3) * (u * y0 + u * y1 + u * y2 - u * ie_extZo P * 3))
             with (u * u * N) by (unfold N; ring).
           repeat apply Rmult_integral_contrapositive_currified; assumption. }
         unfold N in HN.
         destruct j as [|[|[|j]]]; try lia; destruct k as [|[|[|k]]]; try lia; cbn [nth];
           field; repeat split; assumption. }
    all: destruct j as [|[|[|j]]]; try lia; destruct k as [|[|[|k]]]; try lia; cbn [nth];
           field; repeat split; assumption.
  Qed.
End LinkE.

(* ------------------------------------------------------------------------------------------ *)
(* weights on nodes x per-element local terms: interchange of the two sums                     *)
(* ------------------------------------------------------------------------------------------ *)
Section NodeSums.
  Context {T : Type}.
  Variable tri : T -> nat * nat * nat.          (* the element's node indices *)
  Variable loc : T -> nat -> R.                 (* a term per local node a = 0,1,2 *)

  (* what the elements of [els] contribute to global node i *)
  Definition node_sum (els : list T) (i : nat) : R :=
    lsum (fun el => (if Nat.eqb (tri_get (tri el) 0) i then loc el 0 else 0)
                  + (if Nat.eqb (tri_get (tri el) 1) i then loc el 1 else 0)
                  + (if Nat.eqb (tri_get (tri el) 2) i then loc el 2 else 0)) els.

  Definition tri_in_range (nn : nat) (el : T) : Prop :=
    (tri_get (tri el) 0 < nn)%nat /\ (tri_get (tri el) 1 < nn)%nat /\ (tri_get (tri el) 2 < nn)%nat.

  Theorem weighted_interchange (w : nat -> R) (nn : nat) (els : list T) :
    Forall (tri_in_range nn) els ->
    lsum (fun el => w (tri_get (tri el) 0) * loc el 0 + w (tri_get (tri el) 1) * loc el 1
                    + w (tri_get (tri el) 2) * loc el 2) els
    = rsum (fun i => w i * node_sum els i) nn.
  Proof.
    intros Hr. unfold node_sum.
    rewrite (rsum_ext _ (fun i => lsum (fun el =>
       w i * ((if Nat.eqb (tri_get (tri el) 0) i then loc el 0 else 0)
              + (if Nat.eqb (tri_get (tri el) 1) i then loc el 1 else 0)
              + (if Nat.eqb (tri_get (tri el) 2) i then loc el 2 else 0))) els))
      by (intros; rewrite lsum_scal; reflexivity).
    rewrite (rsum_lsum (fun el i => w i * ((if Nat.eqb (tri_get (tri el) 0) i then loc el 0 else 0)
              + (if Nat.eqb (tri_get (tri el) 1) i then loc el 1 else 0)
              + (if Nat.eqb (tri_get (tri el) 2) i then loc el 2 else 0)))).
    apply lsum_ext. intros el Hel.
    rewrite Forall_forall in Hr. destruct (Hr el Hel) as (H0 & H1 & H2).
    rewrite (rsum_ext _ (fun i =>
        (if Nat.eqb (tri_get (tri el) 0) i then w i * loc el 0 else 0)
        + (if Nat.eqb (tri_get (tri el) 1) i then w i * loc el 1 else 0)
        + (if Nat.eqb (tri_get (tri el) 2) i then w i * loc el 2 else 0))).
    - rewrite !rsum_plus.
      rewrite (rsum_single _ (fun i => w i * loc el 0)) by exact H0.
      rewrite (rsum_single _ (fun i => w i * loc el 1)) by exact H1.
      rewrite (rsum_single _ (fun i => w i * loc el 2)) by exact H2.
      reflexivity.
    - intros i Hi.
      destruct (Nat.eqb (tri_get (tri el) 0) i); destruct (Nat.eqb (tri_get (tri el) 1) i);
        destruct (Nat.eqb (tri_get (tri el) 2) i); lra.
  Qed.
End NodeSums.

(* ------------------------------------------------------------------------------------------ *)
(* the element loop of blockIntegral is the sum of the selected elements' terms                *)
(* ------------------------------------------------------------------------------------------ *)
Section LoopE.
  Variable P : ie_prob (F:=R).
  Variable sel : list bool.

  Definition e_sel (el : ie_elem) : bool := selected sel (ie_lbl el).

  (* the real-valued term integral type t adds for one element *)
  Definition e_term (t : nat) (el : ie_elem) : R :=
    match t with
    | 0%nat => ie_energy_term RA P el
    | 1%nat => ie_area RA P el
    | 2%nat => ie_vol RA P el
    | _ => 0
    end.

  Lemma ie_loop_real_gen t : (t < 3)%nat -> forall els acc,
    fold_left (ie_step RA P sel t) (combine els (map (ie_D RA P) els)) acc
    = (fst acc + lsum (fun el => if e_sel el then e_term t el else 0) els, snd acc).
  Proof.
    intros Ht. induction els as [|el els IH]; intros [ar ai]; cbn [map combine fold_left lsum fst snd].
    - f_equal. lra.
    - rewrite IH. unfold ie_step, e_sel.
      destruct (selected sel (ie_lbl el)).
      + destruct t as [|[|[|t]]]; try lia; unfold caddd, e_term, ie_energy_term; cbn [fst snd]; ra_simpl; f_equal; lra.
      + cbn [fst snd]. f_equal. lra.
  Qed.

  (* integral types 0 (energy), 1 (area), 2 (volume): result.re = sum of the selected terms, result.im = 0 *)
  Theorem ie_loop_real t : (t < 3)%nat ->
    ie_loop RA P (ie_Ds RA P) sel t = (lsum (fun el => if e_sel el then e_term t el else 0) (ie_elems P), 0).
  Proof.
    intros Ht. unfold ie_loop, ie_Ds. rewrite (ie_loop_real_gen t Ht). unfold czero. cbn [fst snd]. ra_simpl.
    f_equal. lra.
  Qed.

  Theorem ie_block_integral_real t : (t < 3)%nat ->
    ie_block_integral RA P (ie_Ds RA P) sel t = (lsum (fun el => if e_sel el then e_term t el else 0) (ie_elems P), 0).
  Proof.
    intros Ht. unfold ie_block_integral.
    destruct t as [|[|[|t]]]; try lia; cbn [Nat.eqb orb]; apply ie_loop_real; lia.
  Qed.

  (* ... which is Integrals.block_integral on the (label, term) pairs: C13's additivity and
     order-independence theorems are about exactly this sum *)
  Theorem ie_block_integral_is_block_integral t : (t < 3)%nat ->
    fst (ie_block_integral RA P (ie_Ds RA P) sel t)
    = block_integral RA sel (map (fun el => (ie_lbl el, e_term t el)) (ie_elems P)).
  Proof.
    intros Ht. rewrite ie_block_integral_real by exact Ht. cbn [fst].
    rewrite block_integral_sum. induction (ie_elems P) as [|el els IH]; cbn [map lsum sel_sum fst snd]; [reflexivity|].
    rewrite IH. reflexivity.
  Qed.

  (* integral types 3 (D) and 4 (E): component-wise volume-weighted sums ... *)
  Definition e_cterm (t : nat) (el : ie_elem) : R * R :=
    match t with
    | 3%nat => ie_D RA P el
    | _ => ie_E RA P el (ie_D RA P el)
    end.

  Lemma ie_loop_cplx_gen t : (t = 3 \/ t = 4)%nat -> forall els acc,
    fold_left (ie_step RA P sel t) (combine els (map (ie_D RA P) els)) acc
    = (fst acc + lsum (fun el => if e_sel el then ie_vol RA P el * fst (e_cterm t el) else 0) els,
       snd acc + lsum (fun el => if e_sel el then ie_vol RA P el * snd (e_cterm t el) else 0) els).
  Proof.
    intros Ht. induction els as [|el els IH]; intros [ar ai]; cbn [map combine fold_left lsum fst snd].
    - f_equal; lra.
    - rewrite IH. unfold ie_step, e_sel.
      destruct (selected sel (ie_lbl el)).
      + destruct Ht as [-> | ->]; unfold cadd, dmulc, e_cterm; cbn [fst snd]; ra_simpl; f_equal; lra.
      + cbn [fst snd]. f_equal; lra.
  Qed.

  (* ... divided by the selected volume *)
  Lemma cdiv_real (x : R * R) (v : R) : v <> 0 -> cdiv RA x (v, 0) = (fst x / v, snd x / v).
  Proof.
    intros Hv. unfold cdiv, cinv, cmul. cbn [fst snd]. ra_simpl.
    rewrite Rabs_R0.
    destruct (Rltb 0 (Rabs v)) eqn:E.
    - cbn [fst snd]. f_equal; field; exact Hv.
    - apply Rltb_false in E. exfalso. apply E. apply Rabs_pos_lt. exact Hv.
  Qed.

  Theorem ie_block_integral_average t : (t = 3 \/ t = 4)%nat ->
    let vol := lsum (fun el => if e_sel el then ie_vol RA P el else 0) (ie_elems P) in
    vol <> 0 ->
    ie_block_integral RA P (ie_Ds RA P) sel t
    = (lsum (fun el => if e_sel el then ie_vol RA P el * fst (e_cterm t el) else 0) (ie_elems P) / vol,
       lsum (fun el => if e_sel el then ie_vol RA P el * snd (e_cterm t el) else 0) (ie_elems P) / vol).
  Proof.
    intros Ht vol Hvol. unfold ie_block_integral.
    replace (Nat.eqb t 3 || Nat.eqb t 4) with true by (destruct Ht as [-> | ->]; reflexivity).
    rewrite (ie_loop_real 2) by lia. fold vol.
    unfold ie_loop, ie_Ds. rewrite (ie_loop_cplx_gen t Ht). unfold czero. cbn [fst snd]. ra_simpl.
    rewrite cdiv_real by exact Hvol. cbn [fst snd]. f_equal; f_equal; lra.
  Qed.
End LoopE.

(* ------------------------------------------------------------------------------------------ *)
(* stored energy = 1/2 V^T K V = 1/2 sum over nodes of potential x reaction                     *)
(* ------------------------------------------------------------------------------------------ *)
Section EnergyE.
  Variable P : ie_prob (F:=R).

  Definition e_Vn (i : nat) : R := ie_V (nth i (ie_nodes P) (ie_dnode RA)).
  (* the reaction of node i: row i of (sum of the element stiffness matrices) times V *)
  Definition e_react (els : list ie_elem) (i : nat) : R := node_sum ie_p (e_Kv P) els i.
  Definition e_ok (el : ie_elem) : Prop := e_ex P el <> 0 /\ e_ey P el <> 0 /\ ie_aecf RA P el <> 0.
  Definition e_in_range (nn : nat) (el : ie_elem) : Prop := tri_in_range ie_p nn el.

  Theorem energy_is_half_VtKV els nn :
    ie_eo P <> 0 -> Forall e_ok els -> Forall (e_in_range nn) els ->
    lsum (ie_energy_term RA P) els = / 2 * rsum (fun i => e_Vn i * e_react els i) nn.
  Proof.
    intros He Hok Hr. unfold e_react.
    rewrite <- (weighted_interchange ie_p (e_Kv P) e_Vn nn els Hr).
    rewrite <- lsum_scal. apply lsum_ext. intros el Hel.
    rewrite Forall_forall in Hok. destruct (Hok el Hel) as (Hx & Hy & Ha).
    rewrite (ie_energy_is_quadratic_form P el Hx Hy He Ha). unfold e_quad, e_v, e_Vn, ie_nd. lra.
  Qed.

  (* conductors: node i lies on conductor c iff its flag Q is c *)
  Definition e_onc (c i : nat) : bool := Z.eqb (ie_Q (nth i (ie_nodes P) (ie_dnode RA))) (Z.of_nat c).
  Definition e_on_any (nc i : nat) : bool :=
    let q := ie_Q (nth i (ie_nodes P) (ie_dnode RA)) in (0 <=? q)%Z && (q <? Z.of_nat nc)%Z.
  (* the flux leaving conductor c through the mesh: the reactions of its nodes *)
  Definition e_cond_flux (els : list ie_elem) (nn c : nat) : R :=
    rsum (fun i => if e_onc c i then e_react els i else 0) nn.

  Lemma rsum_swap (f : nat -> nat -> R) m n :
    rsum (fun c => rsum (f c) n) m = rsum (fun i => rsum (fun c => f c i) m) n.
  Proof.
    induction m as [|m IH]; cbn [rsum].
    - rewrite rsum_zero. reflexivity.
    - rewrite IH, <- rsum_plus. reflexivity.
  Qed.

  Lemma rsum_onc (x : R) nc i :
    rsum (fun c => if e_onc c i then x else 0) nc = if e_on_any nc i then x else 0.
  Proof.
    unfold e_onc, e_on_any. set (q := ie_Q (nth i (ie_nodes P) (ie_dnode RA))).
    destruct (Z.leb_spec 0 q) as [Hq|Hq]; cbn [andb].
    - destruct (Z.ltb_spec q (Z.of_nat nc)) as [Hlt|Hge].
      + rewrite (rsum_ext _ (fun c => if Nat.eqb (Z.to_nat q) c then x else 0)).
        * apply (rsum_single (Z.to_nat q) (fun _ => x)). lia.
        * intros c Hc. destruct (Z.eqb_spec q (Z.of_nat c)); destruct (Nat.eqb_spec (Z.to_nat q) c); try reflexivity; lia.
      + rewrite (rsum_ext _ (fun _ => 0)); [apply rsum_zero|].
        intros c Hc. destruct (Z.eqb_spec q (Z.of_nat c)); [lia|reflexivity].
    - rewrite (rsum_ext _ (fun _ => 0)); [apply rsum_zero|].
      intros c Hc. destruct (Z.eqb_spec q (Z.of_nat c)); [lia|reflexivity].
  Qed.

  (* W = 1/2 sum_c V_c Q_c + 1/2 sum over the nodes on no conductor of V_i R_i, for ANY nodal
     potentials that are constant (= Vc c) on each conductor — no field equation is assumed *)
  Theorem energy_conductor_split els nn nc (Vc : nat -> R) :
    ie_eo P <> 0 -> Forall e_ok els -> Forall (e_in_range nn) els ->
    (forall c i, (c < nc)%nat -> (i < nn)%nat -> e_onc c i = true -> e_Vn i = Vc c) ->
    lsum (ie_energy_term RA P) els =
    / 2 * rsum (fun c => Vc c * e_cond_flux els nn c) nc
    + / 2 * rsum (fun i => if e_on_any nc i then 0 else e_Vn i * e_react els i) nn.
  Proof.
    intros He Hok Hr Heq. rewrite (energy_is_half_VtKV els nn He Hok Hr).
    rewrite <- Rmult_plus_distr_l. f_equal.
    rewrite (rsum_ext (fun c => Vc c * e_cond_flux els nn c)
                      (fun c => rsum (fun i => if e_onc c i then e_Vn i * e_react els i else 0) nn)).
    - rewrite rsum_swap, <- rsum_plus. apply rsum_ext. intros i Hi.
      rewrite rsum_onc. destruct (e_on_any nc i); lra.
    - intros c Hc. unfold e_cond_flux. rewrite <- rsum_scal. apply rsum_ext. intros i Hi.
      destruct (e_onc c i) eqn:E; [rewrite (Heq c i Hc Hi E)|]; lra.
  Qed.

  (* if moreover every node on no conductor is either at potential zero or free of reaction
     (a free node of a problem without charge densities), W = 1/2 sum V_c Q_c *)
  Corollary energy_is_half_sum_VQ els nn nc (Vc : nat -> R) :
    ie_eo P <> 0 -> Forall e_ok els -> Forall (e_in_range nn) els ->
    (forall c i, (c < nc)%nat -> (i < nn)%nat -> e_onc c i = true -> e_Vn i = Vc c) ->
    (forall i, (i < nn)%nat -> e_on_any nc i = false -> e_Vn i = 0 \/ e_react els i = 0) ->
    lsum (ie_energy_term RA P) els = / 2 * rsum (fun c => Vc c * e_cond_flux els nn c) nc.
  Proof.
    intros He Hok Hr Heq Hfree. rewrite (energy_conductor_split els nn nc Vc He Hok Hr Heq).
    rewrite (rsum_ext (fun i => if e_on_any nc i then 0 else e_Vn i * e_react els i) (fun _ => 0)).
    - rewrite rsum_zero. lra.
    - intros i Hi. destruct (e_on_any nc i) eqn:E; [reflexivity|].
      destruct (Hfree i Hi E) as [H|H]; rewrite H; lra.
  Qed.

  (* with sources: at a node where the field equation holds the reaction equals the nodal load F_i
     (volume / surface / point charge lumped to the node, minus mixed-boundary terms), so the
     second sum becomes the work of the loads plus the terms of nodes fixed by a boundary value *)
  Corollary energy_with_loads els nn nc (Vc : nat -> R) (free : nat -> bool) (Fl : nat -> R) :
    ie_eo P <> 0 -> Forall e_ok els -> Forall (e_in_range nn) els ->
    (forall c i, (c < nc)%nat -> (i < nn)%nat -> e_onc c i = true -> e_Vn i = Vc c) ->
    (forall i, (i < nn)%nat -> free i = true -> e_react els i = Fl i) ->
    lsum (ie_energy_term RA P) els =
    / 2 * rsum (fun c => Vc c * e_cond_flux els nn c) nc
    + / 2 * rsum (fun i => if e_on_any nc i then 0 else if free i then e_Vn i * Fl i else 0) nn
    + / 2 * rsum (fun i => if e_on_any nc i then 0 else if free i then 0 else e_Vn i * e_react els i) nn.
  Proof.
    intros He Hok Hr Heq Hfree. rewrite (energy_conductor_split els nn nc Vc He Hok Hr Heq).
    rewrite Rplus_assoc. f_equal. rewrite <- Rmult_plus_distr_l. f_equal. rewrite <- rsum_plus.
    apply rsum_ext. intros i Hi. destruct (e_on_any nc i); [lra|].
    destruct (free i) eqn:E; [rewrite (Hfree i Hi E)|]; lra.
  Qed.
End EnergyE.

(* ------------------------------------------------------------------------------------------ *)
(* the charge the solver writes for a conductor (AsmE.charge_on_conductor, the model of        *)
(* ESolver::ChargeOnConductor) is the flux e_cond_flux of the post-processor's stiffness       *)
(* ------------------------------------------------------------------------------------------ *)
Section ChargeE.
  Variables (P : ie_prob (F:=R)) (SP : eprob (F:=R)) (u : R).
  Local Notation vgetR := (vget RA).

  (* the body of the element loop of charge_on_conductor, for a weight vector Pv *)
  Definition charge_step (extfix : bool) (Depth : R) (V Pv : list R) (Z : R) (el : eelem) : R :=
    let A := RA in
    let lc := adec A 1 (-3) in
    let uu := nth (unit_idx SP) (eunits A) (aone A) in
    let extRo := amul A (extRo_raw SP) uu in
    let extRi := amul A (extRi_raw SP) uu in
    let extZo := amul A (extZo_raw SP) uu in
    let n := ep el in
    let nj := fun j => tri_get n j in
    if aeqb A (vget A Pv (nj 0%nat)) (azero A) && aeqb A (vget A Pv (nj 1%nat)) (azero A) && aeqb A (vget A Pv (nj 2%nat)) (azero A)
    then Z
    else
      let nd := fun j => nth (nj j) (nodes SP) (dnode A) in
      let b := [asub A (ny (nd 1%nat)) (ny (nd 2%nat)); asub A (ny (nd 2%nat)) (ny (nd 0%nat)); asub A (ny (nd 0%nat)) (ny (nd 1%nat))] in
      let c := [asub A (nx (nd 2%nat)) (nx (nd 1%nat)); asub A (nx (nd 0%nat)) (nx (nd 2%nat)); asub A (nx (nd 1%nat)) (nx (nd 0%nat))] in
      let da := asub A (amul A (vget A b 0) (vget A c 1)) (amul A (vget A b 1) (vget A c 0)) in
      let a := adiv A (amul A (amul A da lc) lc) (aofZ A 2) in
      let a := if axi SP then amul A a (adiv A (amul A (amul A (amul A (aofZ A 2) (api A)) lc)
                                                  (aadd A (aadd A (nx (nd 0%nat)) (nx (nd 1%nat))) (nx (nd 2%nat)))) (aofZ A 3))
               else amul A a (amul A Depth lc) in
      let a := if extfix && axi SP && nth (elbl el) (label_ext SP) false then
                 let r := adiv A (aadd A (aadd A (nx (nd 0%nat)) (nx (nd 1%nat))) (nx (nd 2%nat))) (aofZ A 3) in
                 let z := asub A (adiv A (aadd A (aadd A (ny (nd 0%nat)) (ny (nd 1%nat))) (ny (nd 2%nat))) (aofZ A 3)) extZo in
                 adiv A a (adiv A (aadd A (amul A r r) (amul A z z)) (amul A extRi extRo))
               else a in
      let '(vx, vy, Dx, Dy) :=
        fold_left (fun acc k =>
          let '(vx, vy, Dx, Dy) := acc in
          (asub A vx (adiv A (amul A (vget A Pv (nj k)) (vget A b k)) (amul A da lc)),
           asub A vy (adiv A (amul A (vget A Pv (nj k)) (vget A c k)) (amul A da lc)),
           asub A Dx (adiv A (amul A (vget A V (nj k)) (vget A b k)) (amul A da lc)),
           asub A Dy (adiv A (amul A (vget A V (nj k)) (vget A c k)) (amul A da lc)))) [0%nat;1%nat;2%nat]
          (azero A, azero A, azero A, azero A) in
      let blk := nth (eblk el) (blocks SP) (dblock A) in
      let Dx := amul A Dx (amul A (eo SP) (bex blk)) in
      let Dy := amul A Dy (amul A (eo SP) (bey blk)) in
      aadd A Z (amul A a (aadd A (amul A Dx vx) (amul A Dy vy))).

  Definition cond_weights (cond : nat) : list R :=
    map (fun n => match ncond n with
                  | Some c => if Nat.eqb c cond then 1 else 0
                  | None => 0 end) (nodes SP).

  Lemma charge_on_conductor_unfold extfix Depth V cond :
    charge_on_conductor RA SP extfix Depth V cond
    = fold_left (charge_step extfix Depth V (cond_weights cond)) (elems SP) 0.
  Proof. reflexivity. Qed.

  Hypothesis Haxi : axi SP = ie_axi P.
  Hypothesis Heo : eo SP = ie_eo P.
  Hypothesis Hunit : nth (unit_idx SP) (eunits RA) (aone RA) = u.
  Hypothesis Hlc : ie_lc P = u / 1000.          (* LengthConv[k] = eunits[k] millimetres *)
  Hypothesis Hu : u <> 0.
  Hypothesis Hdepth : ie_depth_file P <> - (1).
  Hypothesis HRo : extRo_raw SP = ie_extRo P.
  Hypothesis HRi : extRi_raw SP = ie_extRi P.
  Hypothesis HZo : extZo_raw SP = ie_extZo P.

  Lemma vget_map_V i : vgetR (map ie_V (ie_nodes P)) i = e_Vn P i.
  Proof. unfold vget, e_Vn. apply (map_nth ie_V (ie_nodes P) (ie_dnode RA) i). Qed.

  (* one element: what it adds to the charge is  Pv_e^T K_e v_e *)
  Lemma charge_step_is_weighted_Kv (Pv : list R) el sl Z :
    same_elem P SP u el sl ->
    e_da P el <> 0 -> ie_aecf RA P el <> 0 -> (e_ext P el = true -> ie_extRo P * ie_extRi P <> 0) ->
    charge_step true (u * ie_depth_file P) (map ie_V (ie_nodes P)) Pv Z sl
    = Z + (vgetR Pv (tri_get (ie_p el) 0) * e_Kv P el 0 + vgetR Pv (tri_get (ie_p el) 1) * e_Kv P el 1
           + vgetR Pv (tri_get (ie_p el) 2) * e_Kv P el 2).
  Proof.
    intros (Hp & Hb & Hl & Hxy & Hex & Hey & Hext) Hda Hae Hro.
    unfold charge_step. cbv zeta. rewrite Hp.
    set (w0 := vget RA Pv (tri_get (ie_p el) 0)). set (w1 := vget RA Pv (tri_get (ie_p el) 1)).
    set (w2 := vget RA Pv (tri_get (ie_p el) 2)).
    assert (Hlc0 : ie_lc P <> 0) by (rewrite Hlc; intro Hz; apply Hu; lra).
    assert (G : Z + amul RA
       (let a := adiv RA (amul RA (amul RA
                   (asub RA (amul RA (asub RA (u * e_y P el 1) (u * e_y P el 2)) (asub RA (u * e_x P el 0) (u * e_x P el 2)))
                            (amul RA (asub RA (u * e_y P el 2) (u * e_y P el 0)) (asub RA (u * e_x P el 2) (u * e_x P el 1))))
                   (1 / 1000)) (1 / 1000)) 2 in
        let a := if ie_axi P then a * (2 * PI * (1 / 1000) * (u * e_x P el 0 + u * e_x P el 1 + u * e_x P el 2) / 3)
                 else a * (u * ie_depth_file P * (1 / 1000)) in
        if ie_axi P && nth (ie_lbl el) (ie_label_ext P) false then
          a / ((((u * e_x P el 0 + u * e_x P el 1 + u * e_x P el 2) / 3) * ((u * e_x P el 0 + u * e_x P el 1 + u * e_x P el 2) / 3)
                + ((u * e_y P el 0 + u * e_y P el 1 + u * e_y P el 2) / 3 - ie_extZo P * u)
                  * ((u * e_y P el 0 + u * e_y P el 1 + u * e_y P el 2) / 3 - ie_extZo P * u))
               / (ie_extRi P * u * (ie_extRo P * u)))
        else a)
       (let d := ((u * e_y P el 1 - u * e_y P el 2) * (u * e_x P el 0 - u * e_x P el 2)
                  - (u * e_y P el 2 - u * e_y P el 0) * (u * e_x P el 2 - u * e_x P el 1)) * (1 / 1000) in
        let vx := 0 - w0 * (u * e_y P el 1 - u * e_y P el 2) / d - w1 * (u * e_y P el 2 - u * e_y P el 0) / d
                    - w2 * (u * e_y P el 0 - u * e_y P el 1) / d in
        let vy := 0 - w0 * (u * e_x P el 2 - u * e_x P el 1) / d - w1 * (u * e_x P el 0 - u * e_x P el 2) / d
                    - w2 * (u * e_x P el 1 - u * e_x P el 0) / d in
        let Dx := 0 - e_v P el 0 * (u * e_y P el 1 - u * e_y P el 2) / d - e_v P el 1 * (u * e_y P el 2 - u * e_y P el 0) / d
                    - e_v P el 2 * (u * e_y P el 0 - u * e_y P el 1) / d in
        let Dy := 0 - e_v P el 0 * (u * e_x P el 2 - u * e_x P el 1) / d - e_v P el 1 * (u * e_x P el 0 - u * e_x P el 2) / d
                    - e_v P el 2 * (u * e_x P el 1 - u * e_x P el 0) / d in
        Dx * (ie_eo P * e_ex P el) * vx + Dy * (ie_eo P * e_ey P el) * vy)
      = Z + (w0 * e_Kv P el 0 + w1 * e_Kv P el 1 + w2 * e_Kv P el 2)).
    { cbv zeta. f_equal. unfold e_Kv, e_K. rewrite ie_vol_R. rewrite ie_aecf_R in *. unfold e_ext in *.
      rewrite (ie_depth_normal P Hdepth). rewrite Hlc in *. unfold e_da, e_b, e_c in *.
      set (x0 := e_x P el 0) in *. set (x1 := e_x P el 1) in *. set (x2 := e_x P el 2) in *.
      set (y0 := e_y P el 0) in *. set (y1 := e_y P el 1) in *. set (y2 := e_y P el 2) in *.
      set (v0 := e_v P el 0). set (v1 := e_v P el 1). set (v2 := e_v P el 2).
      assert (Hda' : (u * y1 - u * y2) * (u * x0 - u * x2) - (u * y2 - u * y0) * (u * x2 - u * x1) <> 0).
      { replace ((u * y1 - u * y2) * (u * x0 - u * x2) - (u * y2 - u * y0) * (u * x2 - u * x1))
          with (u * u * ((y1 - y2) * (x0 - x2) - (y2 - y0) * (x2 - x1))) by ring.
        repeat apply Rmult_integral_contrapositive_currified; assumption. }
      ra_simpl.
      destruct (ie_axi P); destruct (nth (ie_lbl el) (ie_label_ext P) false); cbn [andb] in *.
      1: { specialize (Hro eq_refl).
           assert (Hro1 : ie_extRo P <> 0) by (intro Hz; apply Hro; rewrite Hz; ring).
           assert (Hri1 : ie_extRi P <> 0) by (intro Hz; apply Hro; rewrite Hz; ring).
           set (N := (x0 + x1 + x2) * (x0 + x1 + x2) + (y0 + y1 + y2 - ie_extZo P * 3) * (y0 + y1 + y2 - ie_extZo P * 3)).
           assert (HN : N <> 0).
           { intro Hz. apply Hae.
             replace (((x0 + x1 + x2) / 3 * ((x0 + x1 + x2) / 3) +
                       ((y0 + y1 + y2) / 3 - ie_extZo P) * ((y0 + y1 + y2) / 3 - ie_extZo P)) / (ie_extRo P * ie_extRi P))
               with (N / 9 / (ie_extRo P * ie_extRi P)) by (unfold N; field; split; assumption).
             rewrite Hz. field. split; assumption. }
           assert (HN' : (u * x0 + u * x1 + u * x2) * (u * x0 + u * x1 + u * x2) +
                         (u * y0 + u * y1 + u * y2 - ie_extZo P * u * 3) * (u * y0 + u * y1 + u * y2 - ie_extZo P * u * 3) <> 0).
           { replace ((u * x0 + u * x1 + u * x2) * (u * x0 + u * x1 + u * x2) +
                      (u * y0 + u * y1 + u * y2 - ie_extZo P * u * 3) * (u * y0 + u * y1 + u * y2 - ie_extZo P * u * 3))
               with (u * u * N) by (unfold N; ring).
             repeat apply Rmult_integral_contrapositive_currified; assumption. }
           unfold N in HN. field. repeat split; assumption. }
      all: field; repeat split; assumption. }
    destruct (Hxy 0%nat ltac:(lia)) as [X0 Y0]. destruct (Hxy 1%nat ltac:(lia)) as [X1 Y1].
    destruct (Hxy 2%nat ltac:(lia)) as [X2 Y2].
    rewrite Hp in X0, X1, X2, Y0, Y1, Y2.
    rewrite X0, X1, X2, Y0, Y1, Y2, Hex, Hey, Hext, Haxi, Heo, Hunit, HRo, HRi, HZo.
    cbn [fold_left]. rewrite !vget_map_V. fold w0 w1 w2.
    change (e_Vn P (tri_get (ie_p el) 0)) with (e_v P el 0).
    change (e_Vn P (tri_get (ie_p el) 1)) with (e_v P el 1).
    change (e_Vn P (tri_get (ie_p el) 2)) with (e_v P el 2).
    destruct (aeqb RA w0 (azero RA) && aeqb RA w1 (azero RA) && aeqb RA w2 (azero RA)) eqn:E0.
    - ra_simpl. apply andb_true_iff in E0. destruct E0 as [E0 E2]. apply andb_true_iff in E0. destruct E0 as [E0 E1].
      apply Reqb_true in E0, E1, E2. rewrite E0, E1, E2. lra.
    - rewrite <- G. clear G. cbn [fold_left andb]. unfold vget. cbn [nth].
      change (adec RA 1 (-3)) with (1 / 1000). ra_simpl. reflexivity.
  Qed.

  Definition e_nondeg (el : ie_elem) : Prop :=
    e_da P el <> 0 /\ ie_aecf RA P el <> 0 /\ (e_ext P el = true -> ie_extRo P * ie_extRi P <> 0).

  Lemma charge_fold (Pv : list R) els sels : Forall2 (same_elem P SP u) els sels ->
    Forall e_nondeg els -> forall Z,
    fold_left (charge_step true (u * ie_depth_file P) (map ie_V (ie_nodes P)) Pv) sels Z
    = Z + lsum (fun el => vgetR Pv (tri_get (ie_p el) 0) * e_Kv P el 0 + vgetR Pv (tri_get (ie_p el) 1) * e_Kv P el 1
                          + vgetR Pv (tri_get (ie_p el) 2) * e_Kv P el 2) els.
  Proof.
    intros H2 Hnd. induction H2 as [|el sl els sels Hs H2 IH]; intros Z; cbn [fold_left lsum]; [lra|].
    apply Forall_cons_iff in Hnd. destruct Hnd as [(Hda & Hae & Hro) Hnd].
    rewrite (charge_step_is_weighted_Kv Pv el sl Z Hs Hda Hae Hro). rewrite (IH Hnd). lra.
  Qed.

  (* ESolver::ChargeOnConductor (with the exterior-region scaling, as the source has it now) returns
     the sum of the stiffness reactions of the conductor's nodes: the flux through the mesh *)
  Theorem charge_on_conductor_is_flux nn c :
    Forall2 (same_elem P SP u) (ie_elems P) (elems SP) ->
    Forall e_nondeg (ie_elems P) -> Forall (e_in_range nn) (ie_elems P) ->
    (forall i, (i < nn)%nat -> vgetR (cond_weights c) i = if e_onc P c i then 1 else 0) ->
    charge_on_conductor RA SP true (u * ie_depth_file P) (map ie_V (ie_nodes P)) c = e_cond_flux P (ie_elems P) nn c.
  Proof.
    intros H2 Hnd Hr Hw. rewrite charge_on_conductor_unfold.
    rewrite (charge_fold (cond_weights c) (ie_elems P) (elems SP) H2 Hnd 0).
    rewrite (weighted_interchange ie_p (e_Kv P) (vgetR (cond_weights c)) nn (ie_elems P) Hr).
    rewrite Rplus_0_l. unfold e_cond_flux, e_react. apply rsum_ext. intros i Hi.
    rewrite (Hw i Hi). destruct (e_onc P c i); lra.
  Qed.
End ChargeE.

(* ------------------------------------------------------------------------------------------ *)
(* block integrals 1 and 2 against the geometry                                                *)
(* ------------------------------------------------------------------------------------------ *)
Section GeomE.
  Variable P : ie_prob (F:=R).
  Definition e_X (i : nat) : R * R :=
    (ie_x (nth i (ie_nodes P) (ie_dnode RA)), ie_y (nth i (ie_nodes P) (ie_dnode RA))).

  Lemma e_da_rarea2 el : e_da P el = rarea2 e_X (ie_p el).
  Proof.
    rewrite e_da_is_area2. unfold e_x, e_y, ie_nd, rarea2, e_X. destruct (ie_p el) as [[a b] c]. cbn [tri_get fst snd]. ring.
  Qed.

  (* cross-section area of any edge-manifold set of elements (e.g. the elements of the selected
     blocks): the shoelace formula of its boundary polygon, in square metres *)
  Theorem area_integral_is_shoelace els :
    NoDup (rall_dedges (map ie_p els)) ->
    lsum (ie_area RA P) els = ie_lc P * ie_lc P * (lsum (rcross e_X) (rboundary (map ie_p els)) / 2).
  Proof.
    intros Hnd. rewrite <- (green_area e_X (map ie_p els) Hnd). rewrite lsum_map. clear Hnd.
    induction els as [|el els IH]; cbn [lsum]; [lra|].
    rewrite IH, ie_area_R, e_da_rarea2. lra.
  Qed.

  (* planar volume = depth x area *)
  Theorem volume_integral_planar els : ie_axi P = false ->
    lsum (ie_vol RA P) els = ie_depth RA P * lsum (ie_area RA P) els.
  Proof.
    intros Hp. rewrite <- lsum_scal. apply lsum_ext. intros el _. unfold ie_vol. rewrite Hp. ra_simpl. ring.
  Qed.

  (* axisymmetric volume term = Pappus: 2 pi (centroid radius) (signed area), in cubic metres ... *)
  Lemma ie_vol_pappus el : ie_axi P = true ->
    ie_vol RA P el = ie_lc P * ie_lc P * ie_lc P * rpappus e_X (ie_p el).
  Proof.
    intros Ha. rewrite ie_vol_R, Ha, e_da_rarea2. unfold rpappus, e_x, ie_nd, e_X.
    destruct (ie_p el) as [[a b] c]. cbn [tri_get fst snd]. field.
  Qed.

  (* ... and the sum over an edge-manifold set of elements is the volume of revolution of its
     boundary polygon, closed line integral of pi r^2 dz *)
  Theorem volume_integral_axisymmetric els : ie_axi P = true ->
    NoDup (rall_dedges (map ie_p els)) ->
    lsum (ie_vol RA P) els = ie_lc P * ie_lc P * ie_lc P * lsum (rrevol e_X) (rboundary (map ie_p els)).
  Proof.
    intros Ha Hnd. rewrite <- (green_volume e_X (map ie_p els) Hnd). rewrite lsum_map, <- lsum_scal.
    apply lsum_ext. intros el _. apply ie_vol_pappus. exact Ha.
  Qed.
End GeomE.

(* ------------------------------------------------------------------------------------------ *)
(* a concrete instance: the hypotheses of the terminal identities are satisfiable               *)
(* ------------------------------------------------------------------------------------------ *)
(* a unit square between two conductors (nodes 0,1 on conductor 0 at 0 V; nodes 2,3 on conductor 1 at 1 V),
   two elements, metres, eps0 := 1 *)
Definition ex_E : ie_prob (F:=R) :=
  mkIEProb false 1 1 0 0 0 1
    [mkIENode 0 0 0 0%Z; mkIENode 1 0 0 0%Z; mkIENode 1 1 1 1%Z; mkIENode 0 1 1 1%Z]
    [mkIEElem (0, 1, 2)%nat 0 0; mkIEElem (0, 2, 3)%nat 0 0] [false] [(1, 1)].

Lemma ex_E_depth : ie_depth RA ex_E = 1.
Proof.
  unfold ie_depth. cbn [ie_depth_file ie_lc ex_E]. ra_simpl.
  destruct (Reqb 1 (- (1))) eqn:E; [apply Reqb_true in E; lra|lra].
Qed.

Lemma ex_E_aecf el : ie_aecf RA ex_E el = 1.
Proof. rewrite ie_aecf_R. reflexivity. Qed.

Lemma ex_E_hypotheses_hold :
  ie_eo ex_E <> 0 /\ Forall (e_ok ex_E) (ie_elems ex_E) /\ Forall (e_in_range 4) (ie_elems ex_E) /\
  (forall c i, (c < 2)%nat -> (i < 4)%nat -> e_onc ex_E c i = true -> e_Vn ex_E i = INR c) /\
  (forall i, (i < 4)%nat -> e_on_any ex_E 2 i = false -> e_Vn ex_E i = 0 \/ e_react ex_E (ie_elems ex_E) i = 0) /\
  NoDup (rall_dedges (map ie_p (ie_elems ex_E))).
Proof.
  split; [cbn; lra|]. split.
  { repeat constructor; unfold e_ex, e_ey; cbn; try lra; rewrite ex_E_aecf; lra. }
  split. { repeat constructor; cbn; lia. }
  split.
  { intros c i Hc Hi. destruct c as [|[|c]]; try lia; destruct i as [|[|[|[|i]]]]; try lia; cbn; intros H; try discriminate H; lra. }
  split.
  { intros i Hi. destruct i as [|[|[|[|i]]]]; try lia; cbn; intros H; discriminate H. }
  cbn. repeat constructor; cbn; intuition congruence.
Qed.

Lemma ex_E_energy : lsum (ie_energy_term RA ex_E) (ie_elems ex_E) = 1 / 2.
Proof.
  cbn [lsum ie_elems ex_E].
  rewrite !ie_energy_density by (unfold e_ex, e_ey; cbn; try lra; rewrite ex_E_aecf; lra).
  rewrite !ex_E_aecf, !ie_vol_R. cbn [ie_axi ex_E]. rewrite ex_E_depth.
  unfold e_gx, e_gy, e_ex, e_ey, e_da, e_b, e_c, e_v, e_x, e_y, ie_nd, ie_mat. cbn. field.
Qed.

(* ------------------------------------------------------------------------------------------ *)
(* the loads: a node whose assembled row of ESolver::AnalyzeProblem holds has reaction = load  *)
(* (planar problems; AsmEProofs.loop_rows + the element-level elimination of prescribed values) *)
(* ------------------------------------------------------------------------------------------ *)
Section RowsE.
  Variables (P : ie_prob (F:=R)) (SP : eprob (F:=R)) (u : R).
  Local Notation vgetR := (vget RA).

  (* no edge of the element carries a mixed (type 1) or surface-charge (type 2) boundary condition;
     fixed-voltage, periodic and unmarked edges do not enter the element matrices of a planar problem *)
  Definition inert_edges (sl : eelem) : Prop :=
    forall j, (j < 3)%nat ->
      match tri_get (ee sl) j with
      | Some e => lfmt (nth e (lines SP) (dline RA)) <> 1%nat /\ lfmt (nth e (lines SP) (dline RA)) <> 2%nat
      | None => True end.

  Definition strip (sl : eelem) : eelem := mkEElem (ep sl) (None, None, None) (eblk sl) (elbl sl).

  Lemma edge_step_inert xs g sl acc j : axi SP = false -> (j < 3)%nat -> inert_edges sl ->
    edge_step RA SP xs g sl acc j = acc.
  Proof.
    intros Hp Hj Hin. specialize (Hin j Hj). unfold edge_step. destruct acc as [[D Me] be].
    destruct (tri_get (ee sl) j) as [e|]; [|reflexivity]. destruct Hin as [H1 H2].
    rewrite Hp. apply Nat.eqb_neq in H1, H2. rewrite H1, H2. reflexivity.
  Qed.

  Lemma edge_terms_inert xs g sl D Me be : axi SP = false -> inert_edges sl ->
    edge_terms RA SP xs g sl D Me be = (D, Me, be).
  Proof.
    intros Hp Hin. unfold edge_terms. cbn [fold_left].
    rewrite !edge_step_inert by (auto; lia). reflexivity.
  Qed.

  Lemma elem_matrices_strip Ro Ri Zo D0 k0 sl : axi SP = false -> inert_edges sl ->
    elem_matrices RA SP Ro Ri Zo D0 k0 sl = elem_matrices RA SP Ro Ri Zo D0 k0 (strip sl).
  Proof.
    intros Hp Hin. unfold elem_matrices. cbn [ep eblk elbl strip]. cbv zeta.
    rewrite Hp. rewrite edge_terms_inert by assumption.
    rewrite edge_terms_none by reflexivity. reflexivity.
  Qed.

  Hypothesis HaxiS : axi SP = false.
  Hypothesis HaxiP : ie_axi P = false.
  Hypothesis Heo : eo SP = ie_eo P.
  Hypothesis Heo0 : ie_eo P <> 0.
  Hypothesis Hlc : ie_lc P = u / 1000.
  Hypothesis Hu : u <> 0.
  Hypothesis Hdepth : ie_depth_file P <> - (1).
  Variable qvb : nat -> R.                       (* volume charge density of block k (C/m^3) *)
  Variables (Vp : list R) (Q : list Z).          (* prescribed values and flags of the solver's book-keeping *)
  Let U : list R := map ie_V (ie_nodes P).       (* the nodal potentials the post-processor holds *)
  Let Ro := u * ie_extRo P. Let Ri := u * ie_extRi P. Let Zo := u * ie_extZo P. Let D0 := u * ie_depth_file P.

  Definition same_elem_q (el : ie_elem) (sl : eelem) : Prop :=
    same_elem P SP u el sl /\ bqv (nth (eblk sl) (blocks SP) (dblock RA)) = qvb (ie_blk el).

  Lemma same_elem_strip el sl : same_elem P SP u el sl -> same_elem P SP u el (strip sl).
  Proof. intros H. exact H. Qed.

  Lemma lc_nonzero : ie_lc P <> 0.
  Proof. rewrite Hlc. intro Hz. apply Hu. lra. Qed.

  (* the element's share of the load of node a: qv x volume / 3 *)
  Definition e_qterm (el : ie_elem) (a : nat) : R := qvb (ie_blk el) * ie_vol RA P el / 3.

  Lemma elem_state_planar sl k0 D : inert_edges sl ->
    let r := elem_matrices RA SP Ro Ri Zo D k0 sl in fst (fst (fst r)) = D /\ snd (fst (fst r)) = k0.
  Proof.
    intros Hin r. unfold r. rewrite elem_matrices_strip by assumption.
    destruct (elem_matrices_noedge SP Ro Ri Zo D k0 (strip sl) eq_refl) as (HD & HK & _).
    rewrite HD, HK. unfold elem_dk. rewrite HaxiS. split; reflexivity.
  Qed.

  Lemma local_resid_free el sl a :
    same_elem_q el sl -> inert_edges sl -> (a < 3)%nat ->
    e_da P el <> 0 ->
    flagged Q (tri_get (ep sl) a) = false ->
    (forall b, (b < 3)%nat -> flagged Q (tri_get (ep sl) b) = true ->
               vgetR U (tri_get (ep sl) b) = vgetR Vp (tri_get (ep sl) b)) ->
    let r := elem_matrices RA SP Ro Ri Zo D0 1 sl in
    let mb := presc_mb Vp Q (ep sl) (snd (fst r)) (snd r) in
    fst (fst (fst r)) = D0 /\ snd (fst (fst r)) = 1 /\
    local_resid (fst mb) (snd mb) (ep sl) U a = - (u / (ie_eo P * ie_lc P)) * (e_Kv P el a - e_qterm el a).
  Proof.
    intros [Hs Hq] Hin Ha Hda Hfree Hag r mb.
    assert (Hro : e_ext P el = true -> ie_extRo P * ie_extRi P <> 0) by (unfold e_ext; rewrite HaxiP; discriminate).
    assert (Hae : ie_aecf RA P el <> 0) by (rewrite ie_aecf_R; unfold e_ext; rewrite HaxiP; cbn [andb]; lra).
    pose proof lc_nonzero as Hlc0.
    assert (Er : r = elem_matrices RA SP Ro Ri Zo D0 1 (strip sl)) by (apply elem_matrices_strip; assumption).
    destruct (elem_matrices_noedge SP Ro Ri Zo D0 1 (strip sl) eq_refl) as (HD & HK & HM & HB).
    rewrite <- Er in HD, HK, HM, HB.
    assert (Hdk : elem_dk SP Ro Ri Zo D0 1 (strip sl) = (D0, 1)) by (unfold elem_dk; rewrite HaxiS; reflexivity).
    rewrite Hdk in HD, HK, HB. cbn [fst snd] in HD, HK, HB.
    split; [exact HD|]. split; [exact HK|].
    (* the entries of Me in terms of e_K *)
    assert (HeK : forall j k, (j < 3)%nat -> (k < 3)%nat ->
              m3get RA (snd (fst r)) j k = - (u / (ie_eo P * ie_lc P)) * e_K P el j k).
    { intros j k Hj Hk.
      pose proof (solver_matrix_is_e_K P SP u (eq_trans HaxiS (eq_sym HaxiP)) Hu Hlc0 Hdepth el (strip sl) j k
                    (same_elem_strip el sl Hs) eq_refl Hj Hk Hda Hae Hro) as G.
      cbv zeta in G. fold Ro Ri Zo D0 in G. rewrite <- Er in G. rewrite G. field. repeat split; assumption. }
    destruct (elem_matrices_shape SP Ro Ri Zo D0 1 sl) as [S9 L3]. fold r in S9, L3.
    destruct S9 as (m00 & m01 & m02 & m11 & m12 & m22 & EM). destruct L3 as (b0 & b1 & b2 & EB).
    destruct Hs as (Hp & Hb & Hl & Hxy & Hex & Hey & Hext).
    destruct (ep sl) as [[n0 n1] n2] eqn:En.
    assert (PR := presc_resid Vp Q n0 n1 n2 m00 m01 m02 m11 m12 m22 b0 b1 b2 U).
    cbv zeta in PR. rewrite <- EM, <- EB in PR. fold mb in PR.
    cbn [tri_get] in Hfree, Hag.
    specialize (PR (fun H => Hag 0%nat ltac:(lia) H) (fun H => Hag 1%nat ltac:(lia) H) (fun H => Hag 2%nat ltac:(lia) H)).
    destruct PR as (P0 & P1 & P2).
    assert (HU : forall b, (b < 3)%nat -> vgetR U (tri_get (n0, n1, n2) b) = e_v P el b).
    { intros b Hb'. unfold U. rewrite vget_map_V. unfold e_v, ie_nd, e_Vn. rewrite <- Hp. reflexivity. }
    assert (Hbe : forall j, (j < 3)%nat -> vgetR (snd r) j = - D0 * cconst RA SP * qvb (ie_blk el) * ga (el_geom SP (strip sl)) / 3).
    { intros j Hj. rewrite (HB j Hj). cbn [eblk strip]. rewrite Hq. reflexivity. }
    assert (Hga : ga (el_geom SP (strip sl)) = u * u * (e_da P el / 2)).
    { unfold el_geom. cbn [ep strip]. rewrite En.
      destruct (Hxy 0%nat ltac:(lia)) as [X0 Y0]. destruct (Hxy 1%nat ltac:(lia)) as [X1 Y1].
      destruct (Hxy 2%nat ltac:(lia)) as [X2 Y2].
      rewrite X0, X1, X2, Y0, Y1, Y2. unfold geom. cbn [ga gp gq]. unfold vget. cbn [nth]. ra_simpl.
      unfold e_da, e_b, e_c. field. }
    assert (Fin : forall a', (a' < 3)%nat ->
              local_resid (snd (fst r)) (snd r) (n0, n1, n2) U a'
              = - (u / (ie_eo P * ie_lc P)) * (e_Kv P el a' - e_qterm el a')).
    { intros a' Ha'. unfold local_resid, usym.
      rewrite (HU 0%nat), (HU 1%nat), (HU 2%nat) by lia. rewrite (Hbe a' Ha'), Hga.
      unfold e_qterm. rewrite ie_vol_R, HaxiP, (ie_depth_normal P Hdepth). unfold cconst. rewrite Heo, Hlc.
      change (adec RA 1 (-6)) with (1 / 1000000). unfold D0. ra_simpl.
      destruct a' as [|[|[|a']]]; try lia; cbn [Nat.leb]; rewrite !HeK by lia; unfold e_Kv;
        rewrite ?(e_K_sym P el 1 0), ?(e_K_sym P el 2 0), ?(e_K_sym P el 2 1); rewrite ?Hlc;
        field; repeat split; assumption. }
    destruct a as [|[|[|a]]]; try lia.
    - rewrite P0, Hfree. apply Fin. lia.
    - rewrite P1, Hfree. apply Fin. lia.
    - rewrite P2, Hfree. apply Fin. lia.
  Qed.

  Definition e_qload (els : list ie_elem) (i : nat) : R := node_sum ie_p e_qterm els i.
  Definition e_nondeg2 (el : ie_elem) : Prop := e_da P el <> 0.

  Lemma loop_resid_free els sels i :
    Forall2 same_elem_q els sels -> Forall inert_edges sels -> Forall e_nondeg2 els ->
    (forall n, flagged Q n = true -> vgetR U n = vgetR Vp n) -> flagged Q i = false ->
    loop_resid SP Ro Ri Zo Vp Q sels D0 1 U i = - (u / (ie_eo P * ie_lc P)) * (e_react P els i - e_qload els i).
  Proof.
    intros H2 Hin Hnd Hag Hfree. unfold e_react, e_qload, node_sum.
    induction H2 as [|el sl els sels Hs H2 IH]; cbn [loop_resid lsum]; [lra|].
    apply Forall_cons_iff in Hin. destruct Hin as [Hi1 Hin].
    apply Forall_cons_iff in Hnd. destruct Hnd as [Hd1 Hnd].
    assert (L : forall a, (a < 3)%nat -> Nat.eqb (tri_get (ep sl) a) i = true ->
              let r := elem_matrices RA SP Ro Ri Zo D0 1 sl in
              let mb := presc_mb Vp Q (ep sl) (snd (fst r)) (snd r) in
              local_resid (fst mb) (snd mb) (ep sl) U a = - (u / (ie_eo P * ie_lc P)) * (e_Kv P el a - e_qterm el a)).
    { intros a Ha E. apply Nat.eqb_eq in E.
      apply (local_resid_free el sl a Hs Hi1 Ha Hd1); [rewrite E; exact Hfree|].
      intros b _ Hb. apply Hag. exact Hb. }
    cbv zeta in L.
    destruct (elem_state_planar sl 1 D0 Hi1) as [HD HK]. cbv zeta in HD, HK. rewrite HD, HK.
    rewrite (IH Hin Hnd).
    assert (Hp : ep sl = ie_p el) by (destruct Hs as [(Hp & _) _]; exact Hp).
    rewrite <- Hp.
    destruct (Nat.eqb (tri_get (ep sl) 0) i) eqn:E0; destruct (Nat.eqb (tri_get (ep sl) 1) i) eqn:E1;
      destruct (Nat.eqb (tri_get (ep sl) 2) i) eqn:E2;
      rewrite ?(L 0%nat ltac:(lia) E0), ?(L 1%nat ltac:(lia) E1), ?(L 2%nat ltac:(lia) E2); lra.
  Qed.

  (* a node whose assembled row holds (zero residual after the element loop, starting from a state whose
     row i is empty) has reaction = load: the nodal equation of the post-processor's SI stiffness *)
  Theorem solved_row_gives_load nn els sels (s : estate) i :
    Forall2 same_elem_q els sels -> Forall inert_edges sels -> Forall e_nondeg2 els ->
    (forall n, flagged Q n = true -> vgetR U n = vgetR Vp n) -> flagged Q i = false ->
    mat_wf (sM s) -> length (sb s) = length (sM s) -> Forall (elem_ok SP nn (length (sM s))) sels ->
    sDepth s = D0 -> sKludge s = 1 -> (i < length (sM s))%nat ->
    Ax (sM s) U i - vgetR (sb s) i = 0 ->
    let s' := fold_left (elem_step RA SP nn Ro Ri Zo Vp Q) sels s in
    Ax (sM s') U i - vgetR (sb s') i = 0 ->
    e_react P els i = e_qload els i.
  Proof.
    intros H2 Hin Hnd Hag Hfree Hwf Hlen Hok HD HK Hi H0 s' Hrow.
    destruct (loop_rows SP nn Ro Ri Zo Vp Q U sels s Hwf Hlen Hok) as (_ & _ & _ & HR).
    fold s' in HR. rewrite (HR i Hi), H0, HD, HK in Hrow.
    rewrite (loop_resid_free els sels i H2 Hin Hnd Hag Hfree) in Hrow.
    assert (Hk : u / (ie_eo P * ie_lc P) <> 0).
    { unfold Rdiv. apply Rmult_integral_contrapositive_currified; [exact Hu|].
      apply Rinv_neq_0_compat. apply Rmult_integral_contrapositive_currified; [exact Heo0|exact lc_nonzero]. }
    assert (Hz : u / (ie_eo P * ie_lc P) * (e_react P els i - e_qload els i) = 0) by lra.
    apply Rmult_integral in Hz. destruct Hz as [Hz|Hz]; [contradiction|lra].
  Qed.
End RowsE.
