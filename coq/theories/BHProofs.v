(* BHProofs.v — proofs about the B-H curve model (BH.v), real reading [RA]. *)
From Coq Require Import ZArith List Bool Arith Lia Reals Lra Psatz.
Set Warnings "-ambiguous-paths".
From Coquelicot Require Import Coquelicot.
From XF Require Import Arith BH BHGauss.
Import ListNotations.
Local Open Scope R_scope.

Notation Cx := (R * R)%type (only parsing).

Ltac bh_unfold :=
  unfold hseg, dhseg, eseg, efull, dmulc, cdivd, cmuld, caddd, cadd, csub, cmul, cofd, czero in *;
  cbn [fst snd] in *; ra_simpl.

(* ====================================================================================== *)
(* 1. one segment: the cubic of GetH, its derivative (GetdHdB), its integral (GetEnergy)   *)
(* ====================================================================================== *)

(* textbook cubic Hermite interpolant on [b0,b1] with end values h0,h1 and end slopes d0,d1 *)
Definition hermite (b b0 b1 h0 h1 d0 d1 : R) : R :=
  let l := b1 - b0 in
  let z := (b - b0) / l in
  (1 + 2 * z) * (1 - z) ^ 2 * h0 + z * (1 - z) ^ 2 * l * d0 +
  z ^ 2 * (3 - 2 * z) * h1 - z ^ 2 * (1 - z) * l * d1.

(* its derivative with respect to b, written in the power basis of x = b - b0 *)
Definition qc1 (d0 d1 u0 u1 L : R) : R := - (2 * (2 * d0 * L + d1 * L + 3 * u0 - 3 * u1)) / (L * L).
Definition qc2 (d0 d1 u0 u1 L : R) : R := (3 * (d0 * L + d1 * L + 2 * u0 - 2 * u1)) / (L * L * L).
Definition dquad (d0 d1 u0 u1 L x : R) : R := d0 + qc1 d0 d1 u0 u1 L * x + qc2 d0 d1 u0 u1 L * (x * x).

Lemma hseg_re b b0 b1 (h0 h1 s0 s1 : Cx) :
  fst (hseg RA b b0 b1 h0 h1 s0 s1) = hermite b b0 b1 (fst h0) (fst h1) (fst s0) (fst s1).
Proof. unfold hermite. bh_unfold. ring. Qed.

Lemma hseg_im b b0 b1 (h0 h1 s0 s1 : Cx) :
  snd (hseg RA b b0 b1 h0 h1 s0 s1) = hermite b b0 b1 (snd h0) (snd h1) (snd s0) (snd s1).
Proof. unfold hermite. bh_unfold. ring. Qed.

Lemma hseg_left b0 b1 (h0 h1 s0 s1 : Cx) : b0 <> b1 -> hseg RA b0 b0 b1 h0 h1 s0 s1 = h0.
Proof.
  intros Hl. destruct h0 as [a c], h1, s0, s1. bh_unfold.
  f_equal; field; lra.
Qed.

Lemma hseg_right b0 b1 (h0 h1 s0 s1 : Cx) : b0 <> b1 -> hseg RA b1 b0 b1 h0 h1 s0 s1 = h1.
Proof.
  intros Hl. destruct h0, h1 as [a c], s0, s1. bh_unfold.
  f_equal; field; lra.
Qed.

Lemma dhseg_left b0 b1 (h0 h1 s0 s1 : Cx) : b0 <> b1 -> dhseg RA b0 b0 b1 h0 h1 s0 s1 = s0.
Proof.
  intros Hl. destruct h0, h1, s0 as [a c], s1. bh_unfold.
  f_equal; field; lra.
Qed.

Lemma dhseg_right b0 b1 (h0 h1 s0 s1 : Cx) : b0 <> b1 -> dhseg RA b1 b0 b1 h0 h1 s0 s1 = s1.
Proof.
  intros Hl. destruct h0, h1, s0, s1 as [a c]. bh_unfold.
  f_equal; field; lra.
Qed.

(* GetdHdB's segment formula is the derivative of GetH's segment formula, both components *)
Lemma dhseg_is_derive_re b b0 b1 (h0 h1 s0 s1 : Cx) : b0 <> b1 ->
  is_derive (fun x => fst (hseg RA x b0 b1 h0 h1 s0 s1)) b (fst (dhseg RA b b0 b1 h0 h1 s0 s1)).
Proof.
  intros Hl. bh_unfold. auto_derive.
  - repeat split; auto; lra.
  - field. lra.
Qed.

Lemma dhseg_is_derive_im b b0 b1 (h0 h1 s0 s1 : Cx) : b0 <> b1 ->
  is_derive (fun x => snd (hseg RA x b0 b1 h0 h1 s0 s1)) b (snd (dhseg RA b b0 b1 h0 h1 s0 s1)).
Proof.
  intros Hl. bh_unfold. auto_derive.
  - repeat split; auto; lra.
  - field. lra.
Qed.

(* the same fact as a polynomial identity: dH/dB on a segment is the quadratic whose roots
   the acceptance test of GetSlopes looks at *)
Lemma dhseg_re_dquad b b0 b1 (h0 h1 s0 s1 : Cx) : b0 <> b1 ->
  fst (dhseg RA b b0 b1 h0 h1 s0 s1) = dquad (fst s0) (fst s1) (fst h0) (fst h1) (b1 - b0) (b - b0).
Proof. intros Hl. unfold dquad, qc1, qc2. bh_unfold. field. lra. Qed.

(* GetEnergy's segment formula: zero at the left knot, the whole-segment constant at the right
   knot, and its derivative is GetH's cubic *)
Lemma eseg_left b0 b1 h0 h1 d0 d1 : b0 <> b1 -> eseg RA b0 b0 b1 h0 h1 d0 d1 = 0.
Proof. intros. bh_unfold. field. lra. Qed.

Lemma eseg_right b0 b1 h0 h1 d0 d1 : b0 <> b1 ->
  eseg RA b1 b0 b1 h0 h1 d0 d1 = efull RA b0 b1 h0 h1 d0 d1.
Proof. intros. bh_unfold. field. lra. Qed.

Lemma eseg_is_derive b b0 b1 h0 h1 d0 d1 : b0 <> b1 ->
  is_derive (fun x => eseg RA x b0 b1 h0 h1 d0 d1) b (hermite b b0 b1 h0 h1 d0 d1).
Proof.
  intros Hl. unfold hermite. bh_unfold. auto_derive.
  - repeat split; auto; lra.
  - field. lra.
Qed.

(* ====================================================================================== *)
(* 2. the acceptance test of GetSlopes (lines 237-273) and what it implies                 *)
(* ====================================================================================== *)

Lemma not_between a L : ~ (0 <= a <= L) -> a < 0 \/ L < a.
Proof.
  intros H. destruct (Rlt_dec a 0) as [|Hn]; [left; assumption|].
  destruct (Rlt_dec L a) as [|Hm]; [right; assumption|]. exfalso. apply H. lra.
Qed.

(* a quadratic whose mean over [0,L] is non-negative and which has constant strict sign there *)
Lemma quad_case_linear c0 c1 L x :
  0 < L -> c1 <> 0 -> ~ (0 <= - c0 / c1 <= L) ->
  0 <= c0 + c1 * L / 2 -> 0 <= x <= L -> 0 <= c0 + c1 * x.
Proof.
  intros HL Hc1 Hr HJ Hx.
  set (r := - c0 / c1) in *.
  assert (Hc0 : c0 = - r * c1) by (unfold r; field; auto).
  rewrite Hc0 in *. clear Hc0.
  assert (Hcases : r < 0 \/ L < r) by (apply not_between; exact Hr).
  destruct Hcases as [Hn | Hp].
  - assert (0 <= c1) by nra. nra.
  - assert (c1 <= 0) by nra. nra.
Qed.

Lemma quad_case_nodisc c0 c1 c2 L x :
  0 < L -> c2 <> 0 -> c1 * c1 - 4 * c0 * c2 <= 0 ->
  0 <= c0 + c1 * L / 2 + c2 * (L * L) / 3 -> 0 <= x <= L -> 0 <= c0 + c1 * x + c2 * (x * x).
Proof.
  intros HL Hc2 Hd HJ Hx.
  assert (Hall : forall y, 0 <= c2 * (c0 + c1 * y + c2 * (y * y))).
  { intros y. pose proof (Rle_0_sqr (2 * c2 * y + c1)) as Hsq. unfold Rsqr in Hsq. nra. }
  destruct (Rlt_dec 0 c2) as [Hpos | Hneg].
  - specialize (Hall x). nra.
  - assert (Hc2n : c2 < 0) by lra.
    pose proof (Hall 0) as H0. pose proof (Hall (L / 2)) as Hm. pose proof (Hall L) as H1.
    assert (Q0 : c0 + c1 * 0 + c2 * (0 * 0) <= 0) by nra.
    assert (Qm : c0 + c1 * (L / 2) + c2 * (L / 2 * (L / 2)) <= 0) by nra.
    assert (Q1 : c0 + c1 * L + c2 * (L * L) <= 0) by nra.
    set (t1 := c1 * L) in *. set (t2 := c2 * (L * L)) in *.
    assert (Qm' : c0 + t1 / 2 + t2 / 4 <= 0) by (unfold t1, t2; lra).
    assert (t2 = 0) by lra.
    exfalso. unfold t2 in *. assert (0 < L * L) by (apply Rmult_lt_0_compat; lra).
    assert (c2 * (L * L) < 0) by nra. lra.
Qed.

Lemma quad_case_roots c0 c1 c2 s L x :
  0 < L -> c2 <> 0 -> 0 < s -> s * s = c1 * c1 - 4 * c0 * c2 ->
  ~ (0 <= - (c1 + s) / (2 * c2) <= L) -> ~ (0 <= (- c1 + s) / (2 * c2) <= L) ->
  0 <= c0 + c1 * L / 2 + c2 * (L * L) / 3 -> 0 <= x <= L -> 0 <= c0 + c1 * x + c2 * (x * x).
Proof.
  intros HL Hc2 Hs Hss H0 H1 HJ Hx.
  set (X0 := - (c1 + s) / (2 * c2)) in *. set (X1 := (- c1 + s) / (2 * c2)) in *.
  assert (E1 : c1 = - c2 * (X0 + X1)) by (unfold X0, X1; field; auto).
  assert (E0 : c0 = c2 * (X0 * X1)).
  { unfold X0, X1.
    replace (c2 * (- (c1 + s) / (2 * c2) * ((- c1 + s) / (2 * c2))))
      with ((c1 * c1 - s * s) / (4 * c2)) by (field; auto).
    rewrite Hss. field. auto. }
  rewrite E0, E1 in *. clear E0 E1 Hss.
  assert (G : c0 + 0 = c0) by ring. clear G.
  replace (c2 * (X0 * X1) + - c2 * (X0 + X1) * x + c2 * (x * x)) with (c2 * ((x - X0) * (x - X1))) by ring.
  assert (HK : 0 <= c2 * (X0 * X1 - (X0 + X1) * L / 2 + L * L / 3)) by lra.
  assert (C0 : X0 < 0 \/ L < X0) by (apply not_between; exact H0).
  assert (C1 : X1 < 0 \/ L < X1) by (apply not_between; exact H1).
  destruct C0 as [A0 | A0], C1 as [A1 | A1].
  - assert (0 < X0 * X1 - (X0 + X1) * L / 2 + L * L / 3) by nra.
    assert (0 <= c2) by nra.
    assert (0 <= (x - X0) * (x - X1)) by nra. nra.
  - assert (X0 * X1 - (X0 + X1) * L / 2 + L * L / 3 < 0).
    { assert (X0 * X1 - (X0 + X1) * L / 2 + L * L / 3
              = ((0 - X0) * (0 - X1) + 4 * ((L / 2 - X0) * (L / 2 - X1)) + (L - X0) * (L - X1)) / 6) by field.
      assert ((0 - X0) * (0 - X1) < 0) by nra.
      assert ((L / 2 - X0) * (L / 2 - X1) < 0) by nra.
      assert ((L - X0) * (L - X1) < 0) by nra. lra. }
    assert (c2 <= 0) by nra.
    assert ((x - X0) * (x - X1) <= 0) by nra. nra.
  - assert (X0 * X1 - (X0 + X1) * L / 2 + L * L / 3 < 0).
    { assert (X0 * X1 - (X0 + X1) * L / 2 + L * L / 3
              = ((0 - X0) * (0 - X1) + 4 * ((L / 2 - X0) * (L / 2 - X1)) + (L - X0) * (L - X1)) / 6) by field.
      assert ((0 - X0) * (0 - X1) < 0) by nra.
      assert ((L / 2 - X0) * (L / 2 - X1) < 0) by nra.
      assert ((L - X0) * (L - X1) < 0) by nra. lra. }
    assert (c2 <= 0) by nra.
    assert ((x - X0) * (x - X1) <= 0) by nra. nra.
  - assert (0 < X0 * X1 - (X0 + X1) * L / 2 + L * L / 3).
    { assert (X0 * X1 - (X0 + X1) * L / 2 + L * L / 3
              = ((0 - X0) * (0 - X1) + 4 * ((L / 2 - X0) * (L / 2 - X1)) + (L - X0) * (L - X1)) / 6) by field.
      assert (0 < (0 - X0) * (0 - X1)) by nra.
      assert (0 < (L / 2 - X0) * (L / 2 - X1)) by nra.
      assert (0 < (L - X0) * (L - X1)) by nra. lra. }
    assert (0 <= c2) by nra.
    assert (0 <= (x - X0) * (x - X1)) by nra. nra.
Qed.

Lemma andb_Rleb_false a L : Rleb 0 a && Rleb a L = false -> ~ (0 <= a <= L).
Proof.
  intros H [H1 H2]. apply Rleb_true in H1. apply Rleb_true in H2. rewrite H1, H2 in H. discriminate.
Qed.

Lemma andb_Rleb_true a L : Rleb 0 a && Rleb a L = true -> 0 <= a <= L.
Proof.
  intros H. apply andb_prop in H. destruct H as [H1 H2].
  apply Rleb_true in H1. apply Rleb_true in H2. lra.
Qed.

(* the integral of dH/dB over the segment is the rise of the table *)
Lemma dquad_mean d0 d1 u0 u1 L : L <> 0 ->
  d0 + qc1 d0 d1 u0 u1 L * L / 2 + qc2 d0 d1 u0 u1 L * (L * L) / 3 = (u1 - u0) / L.
Proof. intros. unfold qc1, qc2. field. auto. Qed.

(* (e) what the test as written implies: if no segment is flagged and the table values do not
   decrease, dH/dB is non-negative on the whole closed segment *)
Lemma seg_bad_false_nonneg d0 d1 u0 u1 L x :
  seg_bad RA d0 d1 u0 u1 L = false -> 0 < L -> u0 <= u1 -> 0 <= x <= L ->
  0 <= dquad d0 d1 u0 u1 L x.
Proof.
  intros Hb HL Hu Hx.
  assert (HJ : 0 <= d0 + qc1 d0 d1 u0 u1 L * L / 2 + qc2 d0 d1 u0 u1 L * (L * L) / 3).
  { rewrite dquad_mean by lra. apply Rmult_le_pos; [lra|]. left. apply Rinv_0_lt_compat. lra. }
  unfold dquad. unfold seg_bad in Hb. ra_simpl.
  change (- (2 * (2 * d0 * L + d1 * L + 3 * u0 - 3 * u1)) / (L * L)) with (qc1 d0 d1 u0 u1 L) in Hb.
  change (3 * (d0 * L + d1 * L + 2 * u0 - 2 * u1) / (L * L * L)) with (qc2 d0 d1 u0 u1 L) in Hb.
  set (c1 := qc1 d0 d1 u0 u1 L) in *. set (c2 := qc2 d0 d1 u0 u1 L) in *.
  destruct (Reqb c2 0) eqn:E2.
  - apply Reqb_true in E2. rewrite E2 in *.
    unfold aneb in Hb. ra_simpl.
    destruct (Reqb c1 0) eqn:E1; cbn [negb] in Hb.
    + apply Reqb_true in E1. rewrite E1 in *. lra.
    + apply Reqb_false in E1. apply orb_false_elim in Hb. destruct Hb as [Hb _].
      apply andb_Rleb_false in Hb.
      assert (0 <= d0 + c1 * x) by (apply (quad_case_linear d0 c1 L x); auto; lra). lra.
  - apply Reqb_false in E2.
    destruct (Rltb 0 (c1 * c1 - 4 * d0 * c2)) eqn:Ed.
    + apply Rltb_true in Ed. apply orb_false_elim in Hb. destruct Hb as [Hb0 Hb1].
      apply andb_Rleb_false in Hb0. apply andb_Rleb_false in Hb1.
      apply (quad_case_roots d0 c1 c2 (sqrt (c1 * c1 - 4 * d0 * c2)) L x); auto.
      * apply sqrt_lt_R0. exact Ed.
      * apply sqrt_sqrt. lra.
    + apply Rltb_false in Ed.
      apply (quad_case_nodisc d0 c1 c2 L x); auto. lra.
Qed.

(* Simpson's rule is exact for the cubic: the rise of H between two points of a segment *)
Lemma hermite_diff_simpson x y b0 b1 h0 h1 d0 d1 : b0 <> b1 ->
  hermite y b0 b1 h0 h1 d0 d1 - hermite x b0 b1 h0 h1 d0 d1 =
  (y - x) / 6 * (dquad d0 d1 h0 h1 (b1 - b0) (x - b0)
                 + 4 * dquad d0 d1 h0 h1 (b1 - b0) ((x + y) / 2 - b0)
                 + dquad d0 d1 h0 h1 (b1 - b0) (y - b0)).
Proof. intros. unfold hermite, dquad, qc1, qc2. field. lra. Qed.

Lemma hermite_monotone x y b0 b1 h0 h1 d0 d1 :
  seg_bad RA d0 d1 h0 h1 (b1 - b0) = false -> b0 < b1 -> h0 <= h1 ->
  b0 <= x -> x <= y -> y <= b1 ->
  hermite x b0 b1 h0 h1 d0 d1 <= hermite y b0 b1 h0 h1 d0 d1.
Proof.
  intros Hb Hl Hh Hx Hxy Hy.
  pose proof (hermite_diff_simpson x y b0 b1 h0 h1 d0 d1 ltac:(lra)) as E.
  pose proof (seg_bad_false_nonneg d0 d1 h0 h1 (b1 - b0) (x - b0) Hb ltac:(lra) Hh ltac:(lra)) as Q0.
  pose proof (seg_bad_false_nonneg d0 d1 h0 h1 (b1 - b0) ((x + y) / 2 - b0) Hb ltac:(lra) Hh ltac:(lra)) as Qm.
  pose proof (seg_bad_false_nonneg d0 d1 h0 h1 (b1 - b0) (y - b0) Hb ltac:(lra) Hh ltac:(lra)) as Q1.
  assert (0 <= (y - x) / 6 * (dquad d0 d1 h0 h1 (b1 - b0) (x - b0)
                 + 4 * dquad d0 d1 h0 h1 (b1 - b0) ((x + y) / 2 - b0)
                 + dquad d0 d1 h0 h1 (b1 - b0) (y - b0))).
  { apply Rmult_le_pos; lra. }
  lra.
Qed.

(* ====================================================================================== *)
(* 3. the whole table: segment search of GetH / GetdHdB / GetBHProps                       *)
(* ====================================================================================== *)
Fixpoint incr (l : list R) : Prop :=
  match l with a :: ((b :: _) as t) => a < b /\ incr t | _ => True end.
Fixpoint nondecr (l : list R) : Prop :=
  match l with a :: ((b :: _) as t) => a <= b /\ nondecr t | _ => True end.

(* a segment: (B_i, B_i+1, H_i, H_i+1, slope_i, slope_i+1) *)
Notation seg := (R * R * (R * R) * (R * R) * (R * R) * (R * R))%type (only parsing).
Definition lo (sg : seg) : R := let '(b0, _, _, _, _, _) := sg in b0.
Definition hi (sg : seg) : R := let '(_, b1, _, _, _, _) := sg in b1.
Definition on_seg {T} (f : R -> R -> Cx -> Cx -> Cx -> Cx -> T) (sg : seg) : T :=
  let '(b0, b1, h0, h1, s0, s1) := sg in f b0 b1 h0 h1 s0 s1.

Fixpoint segs (Bd : list R) (Hd Sd : list Cx) : list seg :=
  match Bd, Hd, Sd with
  | b0 :: ((b1 :: _) as Bd'), h0 :: ((h1 :: _) as Hd'), s0 :: ((s1 :: _) as Sd') =>
      (b0, b1, h0, h1, s0, s1) :: segs Bd' Hd' Sd'
  | _, _, _ => []
  end.

Lemma segs_bounds Bd : forall Hd Sd sg, incr Bd -> In sg (segs Bd Hd Sd) ->
  hd 0 Bd <= lo sg /\ lo sg < hi sg.
Proof.
  induction Bd as [|b0 Bt IH]; intros Hd Sd sg Hi Hin; [destruct Hin|].
  destruct Bt as [|b1 Bt]; [destruct Hd, Sd; destruct Hin|].
  destruct Hd as [|h0 [|h1 Ht]]; try (destruct Hin; fail);
  destruct Sd as [|s0 [|s1 St]]; try (destruct Hin; fail).
  cbn [segs] in Hin. destruct Hi as [Hlt Hi]. destruct Hin as [E | Hin].
  - subst sg. cbn. lra.
  - specialize (IH (h1 :: Ht) (s1 :: St) sg Hi Hin). cbn [hd] in *. lra.
Qed.

Lemma cons_eq_inv {T} (a b : T) (l m : list T) : a :: l = b :: m -> a = b /\ l = m.
Proof. intros H. injection H. auto. Qed.

Lemma segs_cons2 b0 b1 Bt h0 h1 Ht s0 s1 St :
  segs (b0 :: b1 :: Bt) (h0 :: h1 :: Ht) (s0 :: s1 :: St) =
  (b0, b1, h0, h1, s0, s1) :: segs (b1 :: Bt) (h1 :: Ht) (s1 :: St).
Proof. reflexivity. Qed.

Lemma seg_scan_cons2 {T} (g : R -> R -> Cx -> Cx -> Cx -> Cx -> T) d b b0 b1 Bt h0 h1 Ht s0 s1 St :
  seg_scan RA g d b (b0 :: b1 :: Bt) (h0 :: h1 :: Ht) (s0 :: s1 :: St) =
  if Rleb b0 b && Rleb b b1 then g b0 b1 h0 h1 s0 s1
  else seg_scan RA g d b (b1 :: Bt) (h1 :: Ht) (s1 :: St).
Proof. reflexivity. Qed.

(* two neighbouring segments give the same value at the knot they share *)
Definition knot_compat {T} (f : R -> R -> R -> Cx -> Cx -> Cx -> Cx -> T) : Prop :=
  forall b0 b1 b2 h0 h1 h2 s0 s1 s2, b0 < b1 -> b1 < b2 ->
    f b1 b0 b1 h0 h1 s0 s1 = f b1 b1 b2 h1 h2 s1 s2.

(* the walk returns the formula of ANY segment whose closed interval contains b *)
Lemma seg_scan_closed {T} (f : R -> R -> R -> Cx -> Cx -> Cx -> Cx -> T) (d : T) (b : R) :
  knot_compat f ->
  forall Bd Hd Sd pre sg post, incr Bd -> segs Bd Hd Sd = pre ++ sg :: post ->
  lo sg <= b <= hi sg ->
  seg_scan RA (f b) d b Bd Hd Sd = on_seg (f b) sg.
Proof.
  intros Hc. induction Bd as [|b0 Bt IH]; intros Hd Sd pre sg post Hi Hs Hb.
  { cbn in Hs. destruct pre; discriminate. }
  destruct Bt as [|b1 Bt]. { destruct Hd, Sd; cbn in Hs; destruct pre; discriminate. }
  destruct Hd as [|h0 [|h1 Ht]]; try (cbn in Hs; destruct pre; discriminate).
  destruct Sd as [|s0 [|s1 St]]; try (cbn in Hs; destruct pre; discriminate).
  rewrite segs_cons2 in Hs. rewrite seg_scan_cons2. destruct Hi as [Hlt Hi].
  destruct pre as [|p pre].
  - cbn [app] in Hs. apply cons_eq_inv in Hs. destruct Hs as [Hsg Hpost]. subst sg. cbn [lo hi] in Hb.
    destruct Hb as [Hb0 Hb1]. apply Rleb_true in Hb0. apply Rleb_true in Hb1.
    rewrite Hb0, Hb1. reflexivity.
  - cbn [app] in Hs. apply cons_eq_inv in Hs. destruct Hs as [Hp Hs].
    assert (Hin : In sg (segs (b1 :: Bt) (h1 :: Ht) (s1 :: St))) by (rewrite Hs; apply in_elt).
    pose proof (segs_bounds _ _ _ _ Hi Hin) as [Hlo Hlh]. cbn [hd] in Hlo.
    destruct (Rleb b0 b && Rleb b b1) eqn:Ec.
    + apply andb_prop in Ec. destruct Ec as [_ Ec]. apply Rleb_true in Ec.
      assert (Eb : b = b1) by lra. assert (El : lo sg = b1) by lra.
      destruct pre as [|p' pre].
      * destruct Bt as [|b2 Bt]; [destruct Ht, St; discriminate|].
        destruct Ht as [|h2 Ht]; [discriminate|]. destruct St as [|s2 St]; [discriminate|].
        rewrite segs_cons2 in Hs. cbn [app] in Hs. apply cons_eq_inv in Hs. destruct Hs as [Hsg _]. subst sg. cbn [on_seg].
        rewrite Eb. apply Hc; [lra|]. destruct Hi. lra.
      * exfalso.
        destruct Bt as [|b2 Bt]; [destruct Ht, St; discriminate|].
        destruct Ht as [|h2 Ht]; [discriminate|]. destruct St as [|s2 St]; [discriminate|].
        rewrite segs_cons2 in Hs. cbn [app] in Hs. apply cons_eq_inv in Hs. destruct Hs as [_ Hs]. destruct Hi as [Hlt2 Hi].
        assert (Hin2 : In sg (segs (b2 :: Bt) (h2 :: Ht) (s2 :: St))) by (rewrite Hs; apply in_elt).
        pose proof (segs_bounds _ _ _ _ Hi Hin2) as [Hlo2 _]. cbn [hd] in Hlo2. lra.
    + apply (IH (h1 :: Ht) (s1 :: St) pre sg post Hi Hs Hb).
Qed.

Lemma hseg_compat : knot_compat (fun b b0 b1 h0 h1 s0 s1 => hseg RA b b0 b1 h0 h1 s0 s1).
Proof. intros b0 b1 b2 h0 h1 h2 s0 s1 s2 H01 H12. rewrite hseg_right, hseg_left; auto; lra. Qed.

Lemma dhseg_compat : knot_compat (fun b b0 b1 h0 h1 s0 s1 => dhseg RA b b0 b1 h0 h1 s0 s1).
Proof. intros b0 b1 b2 h0 h1 h2 s0 s1 s2 H01 H12. rewrite dhseg_right, dhseg_left; auto; lra. Qed.

Lemma bhprops_compat : knot_compat (fun b b0 b1 h0 h1 s0 s1 =>
  bhprops_of RA b (hseg RA b b0 b1 h0 h1 s0 s1) (dhseg RA b b0 b1 h0 h1 s0 s1)).
Proof.
  intros b0 b1 b2 h0 h1 h2 s0 s1 s2 H01 H12.
  rewrite hseg_right, hseg_left, dhseg_right, dhseg_left; auto; lra.
Qed.

Lemma incr_head_le_last Bt : forall b, incr (b :: Bt) -> b <= last (b :: Bt) 0.
Proof.
  induction Bt as [|b2 Bt IH]; intros b Hi; [cbn; lra|].
  destruct Hi as [H12 Hi]. change (last (b :: b2 :: Bt) 0) with (last (b2 :: Bt) 0).
  specialize (IH b2 Hi). lra.
Qed.

Lemma segs_hi_le_last Bd : forall Hd Sd sg, incr Bd -> In sg (segs Bd Hd Sd) -> hi sg <= last Bd 0.
Proof.
  induction Bd as [|b0 Bt IH]; intros Hd Sd sg Hi Hin; [destruct Hin|].
  destruct Bt as [|b1 Bt]; [destruct Hd, Sd; destruct Hin|].
  destruct Hd as [|h0 [|h1 Ht]]; try (destruct Hin; fail);
  destruct Sd as [|s0 [|s1 St]]; try (destruct Hin; fail).
  rewrite segs_cons2 in Hin. destruct Hi as [Hlt Hi]. destruct Hin as [E | Hin].
  - subst sg. cbn [hi]. clear IH.
    change (last (b0 :: b1 :: Bt) 0) with (last (b1 :: Bt) 0).
    apply incr_head_le_last. exact Hi.
  - change (last (b0 :: b1 :: Bt) 0) with (last (b1 :: Bt) 0).
    apply (IH (h1 :: Ht) (s1 :: St) sg Hi Hin).
Qed.

Lemma segs_nonempty_length Bd Hd Sd : segs Bd Hd Sd <> [] -> length Bd <> 0%nat.
Proof. destruct Bd; cbn; [congruence|discriminate]. Qed.

(* (a) on every CLOSED segment GetH is that segment's cubic — hence H is continuous at the
   knots, where two closed segments overlap *)
Lemma getH_on_segment (m : mat (F:=R)) (B : R) pre sg post :
  incr (mB m) -> segs (mB m) (mH m) (mS m) = pre ++ sg :: post ->
  lo sg <= Rabs B <= hi sg ->
  getH RA m B = on_seg (hseg RA (Rabs B)) sg.
Proof.
  intros Hi Hs Hb. unfold getH. ra_simpl.
  assert (Hin : In sg (segs (mB m) (mH m) (mS m))) by (rewrite Hs; apply in_elt).
  pose proof (segs_hi_le_last _ _ _ _ Hi Hin) as Hl.
  destruct (Nat.eqb (length (mB m)) 0) eqn:En.
  { apply Nat.eqb_eq in En. exfalso. revert En. apply (segs_nonempty_length _ (mH m) (mS m)).
    rewrite Hs. destruct pre; discriminate. }
  unfold lastB. ra_simpl.
  assert (El : Rltb (last (mB m) 0) (Rabs B) = false) by (apply Rltb_false; lra).
  rewrite El.
  apply (seg_scan_closed (fun b b0 b1 h0 h1 s0 s1 => hseg RA b b0 b1 h0 h1 s0 s1) (czero RA) (Rabs B)
           hseg_compat (mB m) (mH m) (mS m) pre sg post Hi Hs Hb).
Qed.

Lemma getdHdB_on_segment (m : mat (F:=R)) (B : R) pre sg post :
  incr (mB m) -> segs (mB m) (mH m) (mS m) = pre ++ sg :: post ->
  lo sg <= Rabs B <= hi sg ->
  getdHdB RA m B = on_seg (dhseg RA (Rabs B)) sg.
Proof.
  intros Hi Hs Hb. unfold getdHdB. ra_simpl.
  assert (Hin : In sg (segs (mB m) (mH m) (mS m))) by (rewrite Hs; apply in_elt).
  pose proof (segs_hi_le_last _ _ _ _ Hi Hin) as Hl.
  destruct (Nat.eqb (length (mB m)) 0) eqn:En.
  { apply Nat.eqb_eq in En. exfalso. revert En. apply (segs_nonempty_length _ (mH m) (mS m)).
    rewrite Hs. destruct pre; discriminate. }
  unfold lastB. ra_simpl.
  assert (El : Rltb (last (mB m) 0) (Rabs B) = false) by (apply Rltb_false; lra).
  rewrite El.
  apply (seg_scan_closed (fun b b0 b1 h0 h1 s0 s1 => dhseg RA b b0 b1 h0 h1 s0 s1) (czero RA) (Rabs B)
           dhseg_compat (mB m) (mH m) (mS m) pre sg post Hi Hs Hb).
Qed.

(* two consecutive entries of the segment list share a knot, its H and its slope *)
Lemma segs_adjacent Bd : forall Hd Sd pre sgL sgR post,
  segs Bd Hd Sd = pre ++ sgL :: sgR :: post ->
  exists b0 b1 b2 h0 h1 h2 s0 s1 s2,
    sgL = (b0, b1, h0, h1, s0, s1) /\ sgR = (b1, b2, h1, h2, s1, s2).
Proof.
  induction Bd as [|b0 Bt IH]; intros Hd Sd pre sgL sgR post Hs.
  { destruct pre; discriminate. }
  destruct Bt as [|b1 Bt]. { destruct Hd, Sd; cbn in Hs; destruct pre; discriminate. }
  destruct Hd as [|h0 [|h1 Ht]]; try (cbn in Hs; destruct pre; discriminate).
  destruct Sd as [|s0 [|s1 St]]; try (cbn in Hs; destruct pre; discriminate).
  rewrite segs_cons2 in Hs. destruct pre as [|p pre].
  - cbn [app] in Hs. apply cons_eq_inv in Hs. destruct Hs as [HL Hs].
    destruct Bt as [|b2 Bt]; [destruct Ht, St; discriminate|].
    destruct Ht as [|h2 Ht]; [discriminate|]. destruct St as [|s2 St]; [discriminate|].
    rewrite segs_cons2 in Hs. apply cons_eq_inv in Hs. destruct Hs as [HR _].
    exists b0, b1, b2, h0, h1, h2, s0, s1, s2. split; congruence.
  - cbn [app] in Hs. apply cons_eq_inv in Hs. destruct Hs as [_ Hs].
    apply (IH _ _ _ _ _ _ Hs).
Qed.

(* ====================================================================================== *)
(* 4. GetEnergy: accumulated whole-segment constants plus the partial-segment formula      *)
(* ====================================================================================== *)
Definition efull_seg (sg : seg) : R :=
  let '(b0, b1, h0, h1, s0, s1) := sg in efull RA b0 b1 (fst h0) (fst h1) (fst s0) (fst s1).
Definition eseg_at (b : R) (sg : seg) : R :=
  let '(b0, b1, h0, h1, s0, s1) := sg in eseg RA b b0 b1 (fst h0) (fst h1) (fst s0) (fst s1).
Definition hermite_at (b : R) (sg : seg) : R :=
  let '(b0, b1, h0, h1, s0, s1) := sg in hermite b b0 b1 (fst h0) (fst h1) (fst s0) (fst s1).
Fixpoint esum (l : list seg) : R :=
  match l with [] => 0 | sg :: t => efull_seg sg + esum t end.

Lemma energy_scan_cons2 b nrg b0 b1 Bt h0 h1 Ht s0 s1 St :
  energy_scan RA b nrg (b0 :: b1 :: Bt) (h0 :: h1 :: Ht) (s0 :: s1 :: St) =
  if Rleb b0 b && Rleb b b1 then nrg + eseg RA b b0 b1 (fst h0) (fst h1) (fst s0) (fst s1)
  else energy_scan RA b (nrg + efull RA b0 b1 (fst h0) (fst h1) (fst s0) (fst s1))
                   (b1 :: Bt) (h1 :: Ht) (s1 :: St).
Proof. reflexivity. Qed.

Lemma energy_scan_closed (b : R) :
  forall Bd Hd Sd nrg pre sg post, incr Bd -> segs Bd Hd Sd = pre ++ sg :: post ->
  lo sg <= b <= hi sg ->
  energy_scan RA b nrg Bd Hd Sd = nrg + esum pre + eseg_at b sg.
Proof.
  induction Bd as [|b0 Bt IH]; intros Hd Sd nrg pre sg post Hi Hs Hb.
  { cbn in Hs. destruct pre; discriminate. }
  destruct Bt as [|b1 Bt]. { destruct Hd, Sd; cbn in Hs; destruct pre; discriminate. }
  destruct Hd as [|h0 [|h1 Ht]]; try (cbn in Hs; destruct pre; discriminate).
  destruct Sd as [|s0 [|s1 St]]; try (cbn in Hs; destruct pre; discriminate).
  rewrite segs_cons2 in Hs. rewrite energy_scan_cons2. destruct Hi as [Hlt Hi].
  destruct pre as [|p pre].
  - cbn [app] in Hs. apply cons_eq_inv in Hs. destruct Hs as [Hsg Hpost]. subst sg. cbn [lo hi] in Hb.
    destruct Hb as [Hb0 Hb1]. apply Rleb_true in Hb0. apply Rleb_true in Hb1.
    rewrite Hb0, Hb1. cbn [andb esum eseg_at]. ring.
  - cbn [app] in Hs. apply cons_eq_inv in Hs. destruct Hs as [Hp Hs].
    assert (Hin : In sg (segs (b1 :: Bt) (h1 :: Ht) (s1 :: St))) by (rewrite Hs; apply in_elt).
    pose proof (segs_bounds _ _ _ _ Hi Hin) as [Hlo Hlh]. cbn [hd] in Hlo.
    subst p. cbn [esum efull_seg].
    destruct (Rleb b0 b && Rleb b b1) eqn:Ec.
    + apply andb_prop in Ec. destruct Ec as [_ Ec]. apply Rleb_true in Ec.
      assert (Eb : b = b1) by lra. assert (El : lo sg = b1) by lra.
      destruct pre as [|p' pre].
      * destruct Bt as [|b2 Bt]; [destruct Ht, St; discriminate|].
        destruct Ht as [|h2 Ht]; [discriminate|]. destruct St as [|s2 St]; [discriminate|].
        rewrite segs_cons2 in Hs. cbn [app] in Hs. apply cons_eq_inv in Hs. destruct Hs as [Hsg _].
        subst sg. cbn [eseg_at esum]. rewrite Eb.
        rewrite eseg_right by lra. rewrite eseg_left; [ring|]. destruct Hi. lra.
      * exfalso.
        destruct Bt as [|b2 Bt]; [destruct Ht, St; discriminate|].
        destruct Ht as [|h2 Ht]; [discriminate|]. destruct St as [|s2 St]; [discriminate|].
        rewrite segs_cons2 in Hs. cbn [app] in Hs. apply cons_eq_inv in Hs. destruct Hs as [_ Hs].
        destruct Hi as [Hlt2 Hi].
        assert (Hin2 : In sg (segs (b2 :: Bt) (h2 :: Ht) (s2 :: St))) by (rewrite Hs; apply in_elt).
        pose proof (segs_bounds _ _ _ _ Hi Hin2) as [Hlo2 _]. cbn [hd] in Hlo2. lra.
    + rewrite (IH (h1 :: Ht) (s1 :: St) _ pre sg post Hi Hs Hb). ring.
Qed.

(* beyond the last point: every segment contributes its whole constant, then the affine tail *)
Definition etail (b b0 h0 dh0 : R) : R := ((b - b0) * (b * dh0 - b0 * dh0 + 2 * h0)) / 2.

Lemma energy_scan_beyond (b : R) :
  forall Bd Hd Sd nrg, incr Bd -> length Hd = length Bd -> length Sd = length Bd ->
  Bd <> [] -> last Bd 0 < b ->
  energy_scan RA b nrg Bd Hd Sd =
  nrg + esum (segs Bd Hd Sd) + etail b (last Bd 0) (fst (last Hd (czero RA))) (fst (last Sd (czero RA))).
Proof.
  induction Bd as [|b0 Bt IH]; intros Hd Sd nrg Hi LH LS Hne Hb; [congruence|].
  destruct Hd as [|h0 Ht]; [discriminate|]. destruct Sd as [|s0 St]; [discriminate|].
  destruct Bt as [|b1 Bt].
  - destruct Ht; [|discriminate]. destruct St; [|discriminate].
    cbn [energy_scan segs esum last]. unfold etail. ra_simpl. ring.
  - destruct Ht as [|h1 Ht]; [discriminate|]. destruct St as [|s1 St]; [discriminate|].
    rewrite energy_scan_cons2, segs_cons2. destruct Hi as [Hlt Hi].
    change (last (b0 :: b1 :: Bt) 0) with (last (b1 :: Bt) 0) in *.
    change (last (h0 :: h1 :: Ht) (czero RA)) with (last (h1 :: Ht) (czero RA)).
    change (last (s0 :: s1 :: St) (czero RA)) with (last (s1 :: St) (czero RA)).
    pose proof (incr_head_le_last Bt b1 Hi) as Hle.
    assert (Ec : Rleb b0 b && Rleb b b1 = false).
    { apply andb_false_intro2. apply Rleb_false. lra. }
    rewrite Ec. rewrite IH; auto; [|discriminate].
    cbn [esum efull_seg]. ring.
Qed.

Lemma getEnergy_on_segment (m : mat (F:=R)) (B : R) pre sg post :
  incr (mB m) -> segs (mB m) (mH m) (mS m) = pre ++ sg :: post ->
  lo sg <= Rabs B <= hi sg ->
  getEnergy RA m B = esum pre + eseg_at (Rabs B) sg.
Proof.
  intros Hi Hs Hb. unfold getEnergy. ra_simpl.
  destruct (Nat.eqb (length (mB m)) 0) eqn:En.
  { apply Nat.eqb_eq in En. exfalso. revert En. apply (segs_nonempty_length _ (mH m) (mS m)).
    rewrite Hs. destruct pre; discriminate. }
  rewrite (energy_scan_closed (Rabs B) (mB m) (mH m) (mS m) 0 pre sg post Hi Hs Hb). ring.
Qed.

Definition tbl_wf (m : mat (F:=R)) : Prop :=
  incr (mB m) /\ length (mH m) = length (mB m) /\ length (mS m) = length (mB m) /\ mB m <> [].

Lemma getEnergy_beyond (m : mat (F:=R)) (B : R) :
  tbl_wf m -> lastB RA m < Rabs B ->
  getEnergy RA m B = esum (segs (mB m) (mH m) (mS m))
                     + etail (Rabs B) (lastB RA m) (fst (lastH RA m)) (fst (lastS RA m)).
Proof.
  intros (Hi & LH & LS & Hne) Hb. unfold getEnergy, lastB, lastH, lastS in *. ra_simpl.
  destruct (Nat.eqb (length (mB m)) 0) eqn:En.
  { apply Nat.eqb_eq in En. destruct (mB m); [congruence|discriminate]. }
  rewrite energy_scan_beyond; auto. ring.
Qed.

(* (d) beyond the table: affine H with the last slope, constant reported slope, and the energy
   tail differentiates to H *)
Lemma getH_beyond (m : mat (F:=R)) (B : R) :
  mB m <> [] -> lastB RA m < Rabs B ->
  getH RA m B = (fst (lastH RA m) + fst (lastS RA m) * (Rabs B - lastB RA m),
                 snd (lastH RA m) + snd (lastS RA m) * (Rabs B - lastB RA m)).
Proof.
  intros Hne Hb. unfold getH. ra_simpl.
  destruct (Nat.eqb (length (mB m)) 0) eqn:En.
  { apply Nat.eqb_eq in En. destruct (mB m); [congruence|discriminate]. }
  apply Rltb_true in Hb. rewrite Hb. bh_unfold. reflexivity.
Qed.

Lemma getdHdB_beyond (m : mat (F:=R)) (B : R) :
  mB m <> [] -> lastB RA m < Rabs B -> getdHdB RA m B = lastS RA m.
Proof.
  intros Hne Hb. unfold getdHdB. ra_simpl.
  destruct (Nat.eqb (length (mB m)) 0) eqn:En.
  { apply Nat.eqb_eq in En. destruct (mB m); [congruence|discriminate]. }
  apply Rltb_true in Hb. rewrite Hb. reflexivity.
Qed.

Lemma etail_is_derive b b0 h0 dh0 :
  is_derive (fun x => etail x b0 h0 dh0) b (h0 + dh0 * (b - b0)).
Proof. unfold etail. auto_derive; auto. field. Qed.

Lemma etail_at_knot b0 h0 dh0 : etail b0 b0 h0 dh0 = 0.
Proof. unfold etail. field. Qed.

(* ====================================================================================== *)
(* 5. global monotonicity of H(|B|) when the acceptance test passed on every segment       *)
(* ====================================================================================== *)
Definition Gre (Bd : list R) (Hd Sd : list Cx) (b : R) : R :=
  fst (seg_scan RA (fun b0 b1 h0 h1 s0 s1 => hseg RA b b0 b1 h0 h1 s0 s1) (czero RA) b Bd Hd Sd).

Lemma curve_bad_cons2 b0 b1 Bt h0 h1 Ht s0 s1 St :
  curve_bad RA (b0 :: b1 :: Bt) (h0 :: h1 :: Ht) (s0 :: s1 :: St) =
  seg_bad RA (fst s0) (fst s1) (fst h0) (fst h1) (b1 - b0)
  || curve_bad RA (b1 :: Bt) (h1 :: Ht) (s1 :: St).
Proof. reflexivity. Qed.

Lemma Gre_first b b0 b1 Bt h0 h1 Ht s0 s1 St : b0 <= b <= b1 ->
  Gre (b0 :: b1 :: Bt) (h0 :: h1 :: Ht) (s0 :: s1 :: St) b =
  hermite b b0 b1 (fst h0) (fst h1) (fst s0) (fst s1).
Proof.
  intros [H0 H1]. unfold Gre. rewrite seg_scan_cons2.
  apply Rleb_true in H0. apply Rleb_true in H1. rewrite H0, H1. cbn [andb]. apply hseg_re.
Qed.

Lemma Gre_skip b b0 b1 Bt h0 h1 Ht s0 s1 St : b1 < b ->
  Gre (b0 :: b1 :: Bt) (h0 :: h1 :: Ht) (s0 :: s1 :: St) b = Gre (b1 :: Bt) (h1 :: Ht) (s1 :: St) b.
Proof.
  intros Hb. unfold Gre. rewrite seg_scan_cons2.
  assert (E : Rleb b0 b && Rleb b b1 = false) by (apply andb_false_intro2; apply Rleb_false; lra).
  rewrite E. reflexivity.
Qed.

Lemma hermite_at_left b0 b1 h0 h1 d0 d1 : b0 <> b1 -> hermite b0 b0 b1 h0 h1 d0 d1 = h0.
Proof. intros. unfold hermite. field. lra. Qed.
Lemma hermite_at_right b0 b1 h0 h1 d0 d1 : b0 <> b1 -> hermite b1 b0 b1 h0 h1 d0 d1 = h1.
Proof. intros. unfold hermite. field. lra. Qed.

Lemma Gre_monotone : forall Bd Hd Sd,
  incr Bd -> length Hd = length Bd -> length Sd = length Bd ->
  curve_bad RA Bd Hd Sd = false -> nondecr (map fst Hd) ->
  forall x y, hd 0 Bd <= x -> x <= y -> y <= last Bd 0 -> Gre Bd Hd Sd x <= Gre Bd Hd Sd y.
Proof.
  induction Bd as [|b0 Bt IH]; intros Hd Sd Hi LH LS Hc Hn x y Hx Hxy Hy.
  { cbn in *. assert (x = y) by lra. subst. lra. }
  destruct Bt as [|b1 Bt].
  { cbn [hd last] in *. assert (x = y) by lra. subst. lra. }
  destruct Hd as [|h0 [|h1 Ht]]; try discriminate.
  destruct Sd as [|s0 [|s1 St]]; try discriminate.
  rewrite curve_bad_cons2 in Hc. apply orb_false_elim in Hc. destruct Hc as [Hc0 Hc].
  destruct Hi as [Hlt Hi]. cbn [map] in Hn. destruct Hn as [Hh Hn].
  cbn [hd] in Hx. change (last (b0 :: b1 :: Bt) 0) with (last (b1 :: Bt) 0) in Hy.
  destruct (Rle_dec y b1) as [Hy1 | Hy1].
  - rewrite !Gre_first by lra. apply hermite_monotone; auto.
  - assert (Hy1' : b1 < y) by lra.
    destruct (Rle_dec x b1) as [Hx1 | Hx1].
    + rewrite Gre_first by lra. rewrite Gre_skip by lra.
      apply Rle_trans with (fst h1).
      * rewrite <- (hermite_at_right b0 b1 (fst h0) (fst h1) (fst s0) (fst s1)) at 2 by lra.
        apply hermite_monotone; auto; lra.
      * destruct Bt as [|b2 Bt]; [cbn [last] in Hy; lra|].
        destruct Ht as [|h2 Ht]; [discriminate|]. destruct St as [|s2 St]; [discriminate|].
        assert (E : fst h1 = Gre (b1 :: b2 :: Bt) (h1 :: h2 :: Ht) (s1 :: s2 :: St) b1).
        { destruct Hi as [H12 _]. rewrite Gre_first by lra. rewrite hermite_at_left; auto; lra. }
        rewrite E.
        apply (IH (h1 :: h2 :: Ht) (s1 :: s2 :: St)); auto; cbn [hd]; lra.
    + rewrite !Gre_skip by lra.
      apply (IH (h1 :: Ht) (s1 :: St)); auto; cbn [hd]; lra.
Qed.

Lemma Gre_at_last : forall Bd Hd Sd,
  incr Bd -> length Hd = length Bd -> length Sd = length Bd -> (2 <= length Bd)%nat ->
  Gre Bd Hd Sd (last Bd 0) = fst (last Hd (czero RA)).
Proof.
  induction Bd as [|b0 Bt IH]; intros Hd Sd Hi LH LS Hlen; [cbn in Hlen; lia|].
  destruct Bt as [|b1 Bt]; [cbn in Hlen; lia|].
  destruct Hd as [|h0 [|h1 Ht]]; try discriminate.
  destruct Sd as [|s0 [|s1 St]]; try discriminate.
  destruct Hi as [Hlt Hi].
  change (last (b0 :: b1 :: Bt) 0) with (last (b1 :: Bt) 0).
  change (last (h0 :: h1 :: Ht) (czero RA)) with (last (h1 :: Ht) (czero RA)).
  destruct Bt as [|b2 Bt].
  - destruct Ht; [|discriminate]. cbn [last]. rewrite Gre_first by lra.
    apply hermite_at_right. lra.
  - pose proof (incr_head_le_last _ _ (proj2 Hi)) as Hle. destruct Hi as [H12 Hi].
    change (last (b1 :: b2 :: Bt) 0) with (last (b2 :: Bt) 0) in *.
    rewrite Gre_skip by lra.
    change (last (b2 :: Bt) 0) with (last (b1 :: b2 :: Bt) 0).
    apply IH; auto. { split; auto. } cbn. lia.
Qed.

Lemma getH_re_scan (m : mat (F:=R)) (B : R) :
  mB m <> [] -> Rabs B <= lastB RA m -> fst (getH RA m B) = Gre (mB m) (mH m) (mS m) (Rabs B).
Proof.
  intros Hne Hb. unfold getH, Gre. ra_simpl.
  destruct (Nat.eqb (length (mB m)) 0) eqn:En.
  { apply Nat.eqb_eq in En. destruct (mB m); [congruence|discriminate]. }
  assert (E : Rltb (lastB RA m) (Rabs B) = false) by (apply Rltb_false; lra).
  rewrite E. reflexivity.
Qed.

(* (e) global: the curve the solver uses is non-decreasing in |B| from the first knot on *)
Lemma getH_monotone (m : mat (F:=R)) :
  tbl_wf m -> (2 <= length (mB m))%nat ->
  curve_bad RA (mB m) (mH m) (mS m) = false -> nondecr (map fst (mH m)) ->
  0 <= fst (lastS RA m) ->
  forall x y, hd 0 (mB m) <= Rabs x -> Rabs x <= Rabs y ->
  fst (getH RA m x) <= fst (getH RA m y).
Proof.
  intros (Hi & LH & LS & Hne) Hlen Hc Hn Hs x y Hx Hxy.
  destruct (Rle_dec (Rabs y) (lastB RA m)) as [Hy | Hy].
  - rewrite !getH_re_scan by (auto; lra).
    apply Gre_monotone; auto.
  - assert (Hy' : lastB RA m < Rabs y) by lra.
    rewrite (getH_beyond m y Hne Hy'). cbn [fst].
    destruct (Rle_dec (Rabs x) (lastB RA m)) as [Hx1 | Hx1].
    + rewrite getH_re_scan by (auto; lra).
      apply Rle_trans with (fst (lastH RA m)).
      * unfold lastH. rewrite <- Gre_at_last with (Bd := mB m) (Sd := mS m); auto.
        apply Gre_monotone; auto. unfold lastB in *. lra.
      * assert (0 <= fst (lastS RA m) * (Rabs y - lastB RA m)) by (apply Rmult_le_pos; lra). lra.
    + assert (Hx' : lastB RA m < Rabs x) by lra.
      rewrite (getH_beyond m x Hne Hx'). cbn [fst].
      assert (fst (lastS RA m) * (Rabs x - lastB RA m) <= fst (lastS RA m) * (Rabs y - lastB RA m))
        by (apply Rmult_le_compat_l; lra). lra.
Qed.

(* ====================================================================================== *)
(* 6. reduction to the linear case: a table on a straight line through the origin whose    *)
(*    slopes all equal the slope of the line                                               *)
(* ====================================================================================== *)
Definition line_H (k : Cx) (Bd : list R) : list Cx := map (fun b => (b * fst k, b * snd k)) Bd.
Definition line_S (k : Cx) (Bd : list R) : list Cx := map (fun _ => k) Bd.

Lemma line_hseg (k : Cx) b b0 b1 : b0 <> b1 ->
  hseg RA b b0 b1 (b0 * fst k, b0 * snd k) (b1 * fst k, b1 * snd k) k k = (b * fst k, b * snd k).
Proof. intros. destruct k as [kr ki]. bh_unfold. f_equal; field; lra. Qed.

Lemma line_dhseg (k : Cx) b b0 b1 : b0 <> b1 ->
  dhseg RA b b0 b1 (b0 * fst k, b0 * snd k) (b1 * fst k, b1 * snd k) k k = k.
Proof. intros. destruct k as [kr ki]. bh_unfold. f_equal; field; lra. Qed.

Lemma line_eseg k b b0 b1 : b0 <> b1 ->
  eseg RA b b0 b1 (b0 * k) (b1 * k) k k = k * (b * b - b0 * b0) / 2.
Proof. intros. bh_unfold. field. lra. Qed.

Lemma line_efull k b0 b1 : efull RA b0 b1 (b0 * k) (b1 * k) k k = k * (b1 * b1 - b0 * b0) / 2.
Proof. bh_unfold. field. Qed.

Lemma line_scan {T} (g : R -> R -> R -> Cx -> Cx -> Cx -> Cx -> T) (v : R -> T) (d : T) (k : Cx) (b : R) :
  (forall b0 b1, b0 < b1 -> g b b0 b1 (b0 * fst k, b0 * snd k) (b1 * fst k, b1 * snd k) k k = v b) ->
  forall Bd, incr Bd -> (2 <= length Bd)%nat -> hd 0 Bd <= b -> b <= last Bd 0 ->
  seg_scan RA (g b) d b Bd (line_H k Bd) (line_S k Bd) = v b.
Proof.
  intros Hg. induction Bd as [|b0 Bt IH]; intros Hi Hlen H0 H1; [cbn in Hlen; lia|].
  destruct Bt as [|b1 Bt]; [cbn in Hlen; lia|].
  unfold line_H, line_S in *. cbn [map]. rewrite seg_scan_cons2. destruct Hi as [Hlt Hi].
  cbn [hd] in H0. change (last (b0 :: b1 :: Bt) 0) with (last (b1 :: Bt) 0) in H1.
  destruct (Rleb b0 b && Rleb b b1) eqn:Ec.
  - apply Hg. exact Hlt.
  - assert (Hb1 : b1 < b).
    { apply andb_false_iff in Ec. destruct Ec as [Ec | Ec]; apply Rleb_false in Ec; lra. }
    destruct Bt as [|b2 Bt]; [cbn [last] in H1; lra|].
    apply IH; auto; cbn [hd length]; try lra; lia.
Qed.

Lemma last_map {T U} (f : T -> U) (l : list T) (d : T) : l <> [] -> last (map f l) (f d) = f (last l d).
Proof.
  induction l as [|a l IH]; [congruence|]. intros _. destruct l as [|a' l]; [reflexivity|].
  change (last (map f (a :: a' :: l)) (f d)) with (last (map f (a' :: l)) (f d)).
  change (last (a :: a' :: l) d) with (last (a' :: l) d). apply IH. discriminate.
Qed.

Lemma last_indep {T} (l : list T) (d d' : T) : l <> [] -> last l d = last l d'.
Proof.
  induction l as [|a l IH]; [congruence|]. intros _. destruct l as [|a' l]; [reflexivity|].
  change (last (a :: a' :: l) d) with (last (a' :: l) d).
  change (last (a :: a' :: l) d') with (last (a' :: l) d'). apply IH. discriminate.
Qed.

Definition line_mat (k : Cx) (Bd : list R) (mux muo : R) : mat (F:=R) :=
  mkMat Bd (line_H k Bd) (line_S k Bd) mux muo.

Lemma line_last (k : Cx) Bd : Bd <> [] ->
  last (line_H k Bd) (czero RA) = (last Bd 0 * fst k, last Bd 0 * snd k) /\
  last (line_S k Bd) (czero RA) = k.
Proof.
  intros Hne. unfold line_H, line_S. split.
  - rewrite (last_indep _ (czero RA) ((fun b => (b * fst k, b * snd k)) 0)).
    + apply (last_map (fun b => (b * fst k, b * snd k)) Bd 0 Hne).
    + destruct Bd; [congruence|discriminate].
  - rewrite (last_indep _ (czero RA) ((fun _ : R => k) 0)).
    + apply (last_map (fun _ : R => k) Bd 0 Hne).
    + destruct Bd; [congruence|discriminate].
Qed.

Lemma line_getH (k : Cx) Bd mux muo (B : R) :
  incr Bd -> (2 <= length Bd)%nat -> hd 0 Bd <= Rabs B ->
  getH RA (line_mat k Bd mux muo) B = (Rabs B * fst k, Rabs B * snd k).
Proof.
  intros Hi Hlen H0. assert (Hne : Bd <> []) by (destruct Bd; [cbn in Hlen; lia|discriminate]).
  destruct (line_last k Bd Hne) as [LH LS].
  unfold getH, line_mat, lastB, lastH, lastS. cbn [mB mH mS]. ra_simpl.
  destruct (Nat.eqb (length Bd) 0) eqn:En; [apply Nat.eqb_eq in En; lia|].
  destruct (Rltb (last Bd 0) (Rabs B)) eqn:El.
  - rewrite LH, LS. destruct k as [kr ki]. bh_unfold. f_equal; ring.
  - apply Rltb_false in El.
    apply (line_scan (fun b b0 b1 h0 h1 s0 s1 => hseg RA b b0 b1 h0 h1 s0 s1)
                     (fun b => (b * fst k, b * snd k))); auto; try lra.
    intros. apply line_hseg. lra.
Qed.

Lemma line_getdHdB (k : Cx) Bd mux muo (B : R) :
  incr Bd -> (2 <= length Bd)%nat -> hd 0 Bd <= Rabs B ->
  getdHdB RA (line_mat k Bd mux muo) B = k.
Proof.
  intros Hi Hlen H0. assert (Hne : Bd <> []) by (destruct Bd; [cbn in Hlen; lia|discriminate]).
  destruct (line_last k Bd Hne) as [LH LS].
  unfold getdHdB, line_mat, lastB, lastH, lastS. cbn [mB mH mS]. ra_simpl.
  destruct (Nat.eqb (length Bd) 0) eqn:En; [apply Nat.eqb_eq in En; lia|].
  destruct (Rltb (last Bd 0) (Rabs B)) eqn:El.
  - exact LS.
  - apply Rltb_false in El.
    apply (line_scan (fun b b0 b1 h0 h1 s0 s1 => dhseg RA b b0 b1 h0 h1 s0 s1) (fun _ => k)); auto; try lra.
    intros. apply line_dhseg. lra.
Qed.

Lemma line_energy_scan (k : Cx) (b : R) : forall Bd nrg,
  incr Bd -> Bd <> [] -> hd 0 Bd <= b ->
  energy_scan RA b nrg Bd (line_H k Bd) (line_S k Bd) = nrg + fst k * (b * b - hd 0 Bd * hd 0 Bd) / 2.
Proof.
  induction Bd as [|b0 Bt IH]; intros nrg Hi Hne H0; [congruence|].
  destruct Bt as [|b1 Bt].
  - unfold line_H, line_S. cbn [map energy_scan last hd fst]. ra_simpl. field.
  - unfold line_H, line_S in *. cbn [map]. rewrite energy_scan_cons2. destruct Hi as [Hlt Hi].
    cbn [hd fst] in *.
    destruct (Rleb b0 b && Rleb b b1) eqn:Ec.
    + rewrite line_eseg by lra. ring.
    + assert (Hb1 : b1 < b).
      { apply andb_false_iff in Ec. destruct Ec as [Ec | Ec]; apply Rleb_false in Ec; lra. }
      rewrite IH; auto; [|discriminate|cbn [hd]; lra].
      rewrite line_efull. cbn [hd]. field.
Qed.

Lemma line_getEnergy (k : Cx) Bd mux muo (B : R) :
  incr Bd -> Bd <> [] -> hd 0 Bd = 0 ->
  getEnergy RA (line_mat k Bd mux muo) B = fst k * (B * B) / 2.
Proof.
  intros Hi Hne H0. unfold getEnergy, line_mat. cbn [mB mH mS]. ra_simpl.
  destruct (Nat.eqb (length Bd) 0) eqn:En.
  { apply Nat.eqb_eq in En. destruct Bd; [congruence|discriminate]. }
  rewrite line_energy_scan; auto.
  - rewrite H0. replace (Rabs B * Rabs B) with (B * B); [field|].
    unfold Rabs. destruct (Rcase_abs B); ring.
  - rewrite H0. apply Rabs_pos.
Qed.

Lemma Rleb_0_m1 : Rleb 0 (- (1)) = false.
Proof. apply Rleb_false. lra. Qed.

(* the straight-line table passes the acceptance test: no smoothing is triggered by it *)
Lemma line_seg_ok k b0 b1 : b0 <> b1 -> seg_bad RA k k (b0 * k) (b1 * k) (b1 - b0) = false.
Proof.
  intros Hl. unfold seg_bad. ra_simpl.
  assert (E2 : 3 * (k * (b1 - b0) + k * (b1 - b0) + 2 * (b0 * k) - 2 * (b1 * k))
               / ((b1 - b0) * (b1 - b0) * (b1 - b0)) = 0) by (field; lra).
  assert (E1 : - (2 * (2 * k * (b1 - b0) + k * (b1 - b0) + 3 * (b0 * k) - 3 * (b1 * k)))
               / ((b1 - b0) * (b1 - b0)) = 0) by (field; lra).
  rewrite E2, E1.
  assert (Z : Reqb 0 0 = true) by (apply Reqb_true; reflexivity).
  rewrite Z. unfold aneb. ra_simpl. rewrite Z. cbn [negb]. rewrite Rleb_0_m1. reflexivity.
Qed.

Lemma line_curve_ok (k : R) : forall Bd, incr Bd ->
  curve_bad RA Bd (line_H (k, 0) Bd) (line_S (k, 0) Bd) = false.
Proof.
  induction Bd as [|b0 Bt IH]; intros Hi; [reflexivity|].
  destruct Bt as [|b1 Bt]; [reflexivity|].
  unfold line_H, line_S in *. cbn [map]. rewrite curve_bad_cons2. destruct Hi as [Hlt Hi].
  cbn [fst snd]. rewrite line_seg_ok by lra. cbn [orb]. apply IH. exact Hi.
Qed.

(* ====================================================================================== *)
(* 7. the 3-point smoothing repair keeps a monotone table monotone and its end points      *)
(* ====================================================================================== *)
Lemma incr_cons a r : r <> [] -> a < hd 0 r -> incr r -> incr (a :: r).
Proof. destruct r as [|x r]; [congruence|]. intros _ H Hi. cbn [hd] in H. split; assumption. Qed.
Lemma nondecr_cons a r : r <> [] -> a <= hd 0 r -> nondecr r -> nondecr (a :: r).
Proof. destruct r as [|x r]; [congruence|]. intros _ H Hi. cbn [hd] in H. split; assumption. Qed.

Lemma smooth3_cons2 {T} (avg : T -> T -> T -> T) p x y t :
  smooth3 avg p (x :: y :: t) = avg p x y :: smooth3 avg x (y :: t).
Proof. reflexivity. Qed.

Lemma smooth3_nonempty {T} (avg : T -> T -> T -> T) p l : l <> [] -> smooth3 avg p l <> [].
Proof. destruct l as [|x [|y t]]; [congruence| |]; intros _; cbn; discriminate. Qed.

Lemma smooth3_length {T} (avg : T -> T -> T -> T) : forall l p, length (smooth3 avg p l) = length l.
Proof.
  induction l as [|x l IH]; intros p; [reflexivity|].
  destruct l as [|y t]; [reflexivity|]. rewrite smooth3_cons2. cbn [length]. rewrite IH. reflexivity.
Qed.

Lemma smooth_length {T} (avg : T -> T -> T -> T) l : length (smooth avg l) = length l.
Proof. destruct l; [reflexivity|]. cbn [smooth length]. rewrite smooth3_length. reflexivity. Qed.

Lemma smooth3_last {T} (avg : T -> T -> T -> T) d : forall l p, last (smooth3 avg p l) d = last l d.
Proof.
  induction l as [|x l IH]; intros p; [reflexivity|].
  destruct l as [|y t]; [reflexivity|]. rewrite smooth3_cons2.
  change (last (x :: y :: t) d) with (last (y :: t) d). rewrite <- (IH x).
  pose proof (smooth3_nonempty avg x (y :: t) ltac:(discriminate)) as Hne.
  destruct (smooth3 avg x (y :: t)); [congruence|reflexivity].
Qed.

Lemma smooth_hd_last {T} (avg : T -> T -> T -> T) d l :
  hd d (smooth avg l) = hd d l /\ last (smooth avg l) d = last l d.
Proof.
  destruct l as [|x l]; [split; reflexivity|]. split; [reflexivity|].
  cbn [smooth]. destruct l as [|y t]; [reflexivity|].
  change (last (x :: y :: t) d) with (last (y :: t) d). rewrite <- (smooth3_last avg d (y :: t) x).
  pose proof (smooth3_nonempty avg x (y :: t) ltac:(discriminate)) as Hne.
  destruct (smooth3 avg x (y :: t)); [congruence|reflexivity].
Qed.

Lemma smooth3_incr : forall t x y, x < y -> incr (y :: t) ->
  incr (smooth3 (avgF RA) x (y :: t)) /\ (x + 2 * y) / 3 < hd 0 (smooth3 (avgF RA) x (y :: t)).
Proof.
  induction t as [|z t IH]; intros x y Hxy Hi.
  - cbn. split; [exact I|lra].
  - rewrite smooth3_cons2. destruct Hi as [Hyz Hi].
    destruct (IH y z Hyz Hi) as [Hi' Hh]. unfold avgF at 1 3. ra_simpl. cbn [hd]. split; [|lra].
    apply incr_cons; auto. { apply smooth3_nonempty. discriminate. } lra.
Qed.

Lemma smooth_incr l : incr l -> incr (smooth (avgF RA) l).
Proof.
  destruct l as [|x [|y t]]; try (intros; exact I). intros [Hxy Hi]. cbn [smooth].
  destruct (smooth3_incr t x y Hxy Hi) as [Hi' Hh].
  apply incr_cons; auto. { apply smooth3_nonempty. discriminate. } lra.
Qed.

Lemma smooth3_nondecr : forall t x y, x <= y -> nondecr (y :: t) ->
  nondecr (smooth3 (avgF RA) x (y :: t)) /\ (x + 2 * y) / 3 <= hd 0 (smooth3 (avgF RA) x (y :: t)).
Proof.
  induction t as [|z t IH]; intros x y Hxy Hi.
  - cbn. split; [exact I|lra].
  - rewrite smooth3_cons2. destruct Hi as [Hyz Hi].
    destruct (IH y z Hyz Hi) as [Hi' Hh]. unfold avgF at 1 3. ra_simpl. cbn [hd]. split; [|lra].
    apply nondecr_cons; auto. { apply smooth3_nonempty. discriminate. } lra.
Qed.

Lemma smooth_nondecr l : nondecr l -> nondecr (smooth (avgF RA) l).
Proof.
  destruct l as [|x [|y t]]; try (intros; exact I). intros [Hxy Hi]. cbn [smooth].
  destruct (smooth3_nondecr t x y Hxy Hi) as [Hi' Hh].
  apply nondecr_cons; auto. { apply smooth3_nonempty. discriminate. } lra.
Qed.

(* the complex average acts on the real parts as the real average *)
Lemma smooth3_fst : forall (l : list Cx) p,
  map fst (smooth3 (avgC RA) p l) = smooth3 (avgF RA) (fst p) (map fst l).
Proof.
  induction l as [|x l IH]; intros p; [reflexivity|].
  destruct l as [|y t]; [reflexivity|]. cbn [map]. rewrite !smooth3_cons2. cbn [map].
  rewrite (IH x). cbn [map]. f_equal.
Qed.

Lemma smooth_fst (l : list Cx) : map fst (smooth (avgC RA) l) = smooth (avgF RA) (map fst l).
Proof. destruct l as [|x l]; [reflexivity|]. cbn [smooth map]. rewrite smooth3_fst. reflexivity. Qed.

(* ====================================================================================== *)
(* 8. shapes: GaussSolve returns as many unknowns as equations, GetSlopes keeps the sizes  *)
(* ====================================================================================== *)
Section Shapes.
  Context {F : Type} (A : Arith F).

  Lemma lset_length {T} (l : list T) : forall i v, length (lset l i v) = length l.
  Proof. induction l as [|a l IH]; intros [|i] v; cbn; auto. Qed.

  Lemma lswap_length {T} (d : T) l i q : length (lswap d l i q) = length l.
  Proof. unfold lswap. rewrite !lset_length. reflexivity. Qed.

  Lemma gauss_fwd_length : forall steps i (M : list (list (F * F))) (b : list (F * F)) q,
    length b = length M -> (i + steps = length M)%nat ->
    let '(ok, M', b') := gauss_fwd A steps i M b q in
    length M' = length M /\ length b' = length M.
  Proof.
    induction steps as [|steps IH]; intros i M b q Hb Hn; cbn [gauss_fwd]; [auto|].
    destruct (pivot_scan A i (skipn i M) i (czero A) q) as [mx q'].
    destruct (ceq0 A mx); [auto|].
    set (M1 := lswap [] M i q'). set (b1 := lswap (czero A) b i q').
    set (low := map (elim_row A i _ _) _).
    assert (L1 : length M1 = length M) by apply lswap_length.
    assert (L2 : length b1 = length M) by (unfold b1; rewrite lswap_length; exact Hb).
    assert (Ll : length low = (length M - S i)%nat).
    { unfold low. rewrite map_length, combine_length, !skipn_length. lia. }
    specialize (IH (S i) (firstn (S i) M1 ++ map fst low) (firstn (S i) b1 ++ map snd low) q').
    assert (LM : length (firstn (S i) M1 ++ map fst low) = length M).
    { rewrite app_length, firstn_length, map_length. lia. }
    assert (Lb : length (firstn (S i) b1 ++ map snd low) = length M).
    { rewrite app_length, firstn_length, map_length. lia. }
    rewrite LM in IH. specialize (IH Lb ltac:(lia)).
    destruct (gauss_fwd A steps (S i) _ _ q') as [[ok M'] b']. exact IH.
  Qed.

  Lemma backsub_length : forall irows xs, length (backsub A irows xs) = (length irows + length xs)%nat.
  Proof.
    induction irows as [|[[i r] bi] rest IH]; intros xs; [reflexivity|].
    cbn [backsub]. rewrite IH. cbn [length]. lia.
  Qed.

  Lemma gauss_solve_length (M : list (list (F * F))) (b : list (F * F)) :
    length b = length M -> length (snd (gauss_solve A M b)) = length M.
  Proof.
    intros Hb. unfold gauss_solve.
    pose proof (gauss_fwd_length (length M) 0 M b 0 Hb ltac:(lia)) as H.
    destruct (gauss_fwd A (length M) 0 M b 0) as [[ok U] c]. destruct H as [HU Hc].
    destruct ok; cbn [snd]; [|exact Hc].
    rewrite backsub_length, rev_length, !combine_length, seq_length. cbn [length]. lia.
  Qed.

  Lemma spline_system_length Bd Hd :
    length (fst (spline_system A Bd Hd)) = length Bd /\ length (snd (spline_system A Bd Hd)) = length Bd.
  Proof. unfold spline_system. cbn [fst snd]. rewrite !map_length, seq_length. auto. Qed.
End Shapes.

(* ====================================================================================== *)
(* 9. GetSlopes(0) as a whole (no fill-factor mixing): if the repair loop finishes, the     *)
(*    table it leaves is still monotone, has the same end points, passed the test           *)
(* ====================================================================================== *)
Definition no_mixing (lam0 : bool) (lamfill : R) (processed : bool) : Prop :=
  lam0 = false \/ lamfill = 1 \/ processed = true.

Lemma no_mixing_cond lam0 lamfill processed : no_mixing lam0 lamfill processed ->
  negb processed && lam0 && aneb RA lamfill (aone RA) = false.
Proof.
  intros [H | [H | H]]; subst.
  - rewrite andb_false_r. reflexivity.
  - unfold aneb. ra_simpl. assert (E : Reqb 1 1 = true) by (apply Reqb_true; reflexivity).
    rewrite E. cbn [negb]. rewrite andb_false_r. reflexivity.
  - reflexivity.
Qed.

Lemma slopes_loop_invariant : forall fuel lam0 lamfill muo processed Bd Hd passes,
  no_mixing lam0 lamfill processed ->
  incr Bd -> length Hd = length Bd -> nondecr (map fst Hd) ->
  let r := slopes_loop RA fuel lam0 lamfill muo processed Bd Hd passes in
  rdone r = true ->
  incr (rB r) /\ length (rB r) = length Bd /\ length (rH r) = length Bd /\ length (rS r) = length Bd /\
  nondecr (map fst (rH r)) /\ curve_bad RA (rB r) (rH r) (rS r) = false /\
  hd 0 (rB r) = hd 0 Bd /\ last (rB r) 0 = last Bd 0.
Proof.
  induction fuel as [|fuel IH]; intros lam0 lamfill muo processed Bd Hd passes Hnm Hi LH Hn r Hd'.
  { cbn in Hd'. discriminate. }
  subst r. cbn [slopes_loop] in *.
  pose proof (spline_system_length RA Bd Hd) as [LM Lr].
  destruct (spline_system RA Bd Hd) as [M rhs] eqn:Es. cbn [fst snd] in LM, Lr.
  pose proof (gauss_solve_length RA M rhs ltac:(congruence)) as LS.
  destruct (gauss_solve RA M rhs) as [gok Sd] eqn:Eg. cbn [snd] in LS.
  destruct (curve_bad RA Bd Hd Sd) eqn:Ec.
  - specialize (IH lam0 lamfill muo processed (smooth (avgF RA) Bd) (smooth (avgC RA) Hd) (S passes) Hnm
                   (smooth_incr _ Hi)).
    rewrite !smooth_length in IH. specialize (IH LH).
    rewrite smooth_fst in IH. specialize (IH (smooth_nondecr _ Hn) Hd').
    destruct (smooth_hd_last (avgF RA) 0 Bd) as [E1 E2]. rewrite E1, E2 in IH. exact IH.
  - rewrite (no_mixing_cond _ _ _ Hnm) in *. cbn [rB rH rS rdone] in *.
    repeat split; auto; congruence.
Qed.

(* the last slope is non-negative when the last segment passed the test on monotone data *)
Lemma curve_ok_last_slope : forall Bd Hd Sd,
  incr Bd -> length Hd = length Bd -> length Sd = length Bd -> (2 <= length Bd)%nat ->
  curve_bad RA Bd Hd Sd = false -> nondecr (map fst Hd) ->
  0 <= fst (last Sd (czero RA)).
Proof.
  induction Bd as [|b0 Bt IH]; intros Hd Sd Hi LH LS Hlen Hc Hn; [cbn in Hlen; lia|].
  destruct Bt as [|b1 Bt]; [cbn in Hlen; lia|].
  destruct Hd as [|h0 [|h1 Ht]]; try discriminate.
  destruct Sd as [|s0 [|s1 St]]; try discriminate.
  rewrite curve_bad_cons2 in Hc. apply orb_false_elim in Hc. destruct Hc as [Hc0 Hc].
  destruct Hi as [Hlt Hi]. cbn [map] in Hn. destruct Hn as [Hh Hn].
  change (last (s0 :: s1 :: St) (czero RA)) with (last (s1 :: St) (czero RA)).
  destruct Bt as [|b2 Bt].
  - destruct St; [|discriminate]. cbn [last].
    pose proof (seg_bad_false_nonneg _ _ _ _ (b1 - b0) (b1 - b0) Hc0 ltac:(lra) Hh ltac:(lra)) as Q.
    assert (E : dquad (fst s0) (fst s1) (fst h0) (fst h1) (b1 - b0) (b1 - b0) = fst s1).
    { unfold dquad, qc1, qc2. field. lra. }
    lra.
  - apply (IH (h1 :: Ht) (s1 :: St)); auto. cbn [length] in *. lia.
Qed.

Theorem get_slopes_monotone_model fuel lam0 lamfill muo mux Bd Hd :
  no_mixing lam0 lamfill false ->
  incr Bd -> length Hd = length Bd -> (2 <= length Bd)%nat -> nondecr (map fst Hd) ->
  let r := get_slopes RA fuel lam0 lamfill muo Bd Hd in
  rdone r = true ->
  let m := mkMat (rB r) (rH r) (rS r) mux muo in
  hd 0 (rB r) = hd 0 Bd /\ last (rB r) 0 = last Bd 0 /\
  forall x y, hd 0 Bd <= Rabs x -> Rabs x <= Rabs y -> fst (getH RA m x) <= fst (getH RA m y).
Proof.
  intros Hnm Hi LH Hlen Hn r Hdone m. subst m r. unfold get_slopes in *.
  destruct (slopes_loop_invariant fuel lam0 lamfill muo false Bd Hd 0 Hnm Hi LH Hn Hdone)
    as (I1 & I2 & I3 & I4 & I5 & I6 & I7 & I8).
  set (r := slopes_loop RA fuel lam0 lamfill muo false Bd Hd 0) in *.
  split; [exact I7|]. split; [exact I8|].
  intros x y Hx Hxy.
  set (m := mkMat (rB r) (rH r) (rS r) mux muo).
  assert (Hwf : tbl_wf m).
  { unfold tbl_wf, m. cbn [mB mH mS]. split; [exact I1|]. split; [congruence|]. split; [congruence|].
    intros E. rewrite E in I2. cbn in I2. lia. }
  apply (getH_monotone m Hwf); unfold m; cbn [mB mH mS]; auto; try lia.
  - unfold lastS. cbn [mS]. apply (curve_ok_last_slope (rB r) (rH r) (rS r)); auto; try congruence; lia.
  - rewrite I7. exact Hx.
Qed.

(* (a) at a knot shared by two segments both segment formulas and GetH give the table value *)
Lemma getH_knot_both_sides (m : mat (F:=R)) pre sgL sgR post :
  incr (mB m) -> 0 <= hd 0 (mB m) ->
  segs (mB m) (mH m) (mS m) = pre ++ sgL :: sgR :: post ->
  hi sgL = lo sgR /\
  on_seg (hseg RA (hi sgL)) sgL = on_seg (hseg RA (lo sgR)) sgR /\
  getH RA m (hi sgL) = on_seg (hseg RA (hi sgL)) sgL /\
  getH RA m (lo sgR) = on_seg (hseg RA (lo sgR)) sgR.
Proof.
  intros Hi H0 Hs.
  destruct (segs_adjacent _ _ _ _ _ _ _ Hs) as (b0 & b1 & b2 & h0 & h1 & h2 & s0 & s1 & s2 & EL & ER).
  assert (HinL : In sgL (segs (mB m) (mH m) (mS m))) by (rewrite Hs; apply in_elt).
  assert (HinR : In sgR (segs (mB m) (mH m) (mS m))).
  { rewrite Hs. apply in_or_app. right. right. left. reflexivity. }
  pose proof (segs_bounds _ _ _ _ Hi HinL) as [BL1 BL2].
  pose proof (segs_bounds _ _ _ _ Hi HinR) as [BR1 BR2].
  subst sgL sgR. cbn [lo hi on_seg] in *.
  split; [reflexivity|]. split.
  { rewrite hseg_right, hseg_left; auto; lra. }
  assert (Ea : Rabs b1 = b1) by (apply Rabs_pos_eq; lra).
  split.
  - rewrite (getH_on_segment m b1 pre (b0, b1, h0, h1, s0, s1) ((b1, b2, h1, h2, s1, s2) :: post) Hi Hs);
      rewrite Ea; [reflexivity|cbn [lo hi]; lra].
  - replace (pre ++ (b0, b1, h0, h1, s0, s1) :: (b1, b2, h1, h2, s1, s2) :: post)
      with ((pre ++ [(b0, b1, h0, h1, s0, s1)]) ++ (b1, b2, h1, h2, s1, s2) :: post) in Hs
      by (rewrite <- app_assoc; reflexivity).
    rewrite (getH_on_segment m b1 _ (b1, b2, h1, h2, s1, s2) post Hi Hs);
      rewrite Ea; [reflexivity|cbn [lo hi]; lra].
Qed.

(* ====================================================================================== *)
(* 10. table-level calculus: pasting of derivatives at knots                               *)
(* ====================================================================================== *)
Lemma is_derive_paste (f g h : R -> R) (k l r : R) :
  0 < r ->
  (forall x, k - r < x <= k -> h x = f x) ->
  (forall x, k <= x < k + r -> h x = g x) ->
  is_derive f k l -> is_derive g k l -> is_derive h k l.
Proof.
  intros Hr Hf Hg Df Dg.
  apply is_derive_Reals. apply is_derive_Reals in Df. apply is_derive_Reals in Dg.
  intros eps Heps.
  destruct (Df eps Heps) as [d1 H1]. destruct (Dg eps Heps) as [d2 H2].
  assert (Hd : 0 < Rmin (Rmin d1 d2) r).
  { apply Rmin_pos; [apply Rmin_pos; [apply d1|apply d2]|exact Hr]. }
  exists (mkposreal _ Hd). intros t Ht Habs. cbn [pos] in Habs.
  assert (A1 : Rabs t < d1) by (eapply Rlt_le_trans; [exact Habs|]; eapply Rle_trans; [apply Rmin_l|apply Rmin_l]).
  assert (A2 : Rabs t < d2) by (eapply Rlt_le_trans; [exact Habs|]; eapply Rle_trans; [apply Rmin_l|apply Rmin_r]).
  assert (A3 : Rabs t < r) by (eapply Rlt_le_trans; [exact Habs|]; apply Rmin_r).
  destruct (Rlt_dec 0 t) as [Hpos | Hneg].
  - rewrite (Hg (k + t)), (Hg k).
    + apply H2; auto.
    + lra.
    + rewrite Rabs_pos_eq in A3; lra.
  - assert (Hneg' : t < 0) by lra.
    rewrite (Hf (k + t)), (Hf k).
    + apply H1; auto.
    + lra.
    + rewrite Rabs_left in A3; lra.
Qed.

Lemma is_derive_local (f h : R -> R) (k l r : R) :
  0 < r -> (forall x, k - r < x < k + r -> h x = f x) -> is_derive f k l -> is_derive h k l.
Proof.
  intros Hr Hf Df.
  apply (is_derive_paste f f h k l r Hr); auto; intros x Hx; apply Hf; lra.
Qed.

(* locating the segment of a point *)
Lemma find_seg : forall Bd Hd Sd b,
  incr Bd -> length Hd = length Bd -> length Sd = length Bd ->
  hd 0 Bd < b -> b <= last Bd 0 ->
  exists pre sg post, segs Bd Hd Sd = pre ++ sg :: post /\ lo sg < b <= hi sg.
Proof.
  induction Bd as [|b0 Bt IH]; intros Hd Sd b Hi LH LS H0 H1; [cbn in *; lra|].
  destruct Bt as [|b1 Bt]; [cbn in *; lra|].
  destruct Hd as [|h0 [|h1 Ht]]; try discriminate.
  destruct Sd as [|s0 [|s1 St]]; try discriminate.
  rewrite segs_cons2. destruct Hi as [Hlt Hi]. cbn [hd] in H0.
  change (last (b0 :: b1 :: Bt) 0) with (last (b1 :: Bt) 0) in H1.
  destruct (Rle_dec b b1) as [Hb | Hb].
  - exists [], (b0, b1, h0, h1, s0, s1), (segs (b1 :: Bt) (h1 :: Ht) (s1 :: St)).
    split; [reflexivity|cbn [lo hi]; lra].
  - destruct (IH (h1 :: Ht) (s1 :: St) b Hi) as (pre & sg & post & Hs & Hb'); auto; [cbn [hd]; lra|].
    exists ((b0, b1, h0, h1, s0, s1) :: pre), sg, post. split; [rewrite Hs; reflexivity|exact Hb'].
Qed.

Lemma segs_last_entry : forall Bd Hd Sd pre b0 b1 h0 h1 s0 s1,
  length Hd = length Bd -> length Sd = length Bd ->
  segs Bd Hd Sd = pre ++ [(b0, b1, h0, h1, s0, s1)] ->
  b1 = last Bd 0 /\ h1 = last Hd (czero RA) /\ s1 = last Sd (czero RA).
Proof.
  induction Bd as [|a0 Bt IH]; intros Hd Sd pre b0 b1 h0 h1 s0 s1 LH LS Hs.
  { destruct pre; discriminate. }
  destruct Bt as [|a1 Bt]. { destruct Hd, Sd; cbn in Hs; destruct pre; discriminate. }
  destruct Hd as [|g0 [|g1 Ht]]; try discriminate.
  destruct Sd as [|t0 [|t1 St]]; try discriminate.
  rewrite segs_cons2 in Hs.
  change (last (a0 :: a1 :: Bt) 0) with (last (a1 :: Bt) 0).
  change (last (g0 :: g1 :: Ht) (czero RA)) with (last (g1 :: Ht) (czero RA)).
  change (last (t0 :: t1 :: St) (czero RA)) with (last (t1 :: St) (czero RA)).
  destruct pre as [|p pre].
  - cbn [app] in Hs. apply cons_eq_inv in Hs. destruct Hs as [E Hs].
    destruct Bt as [|a2 Bt].
    + destruct Ht; [|discriminate]. destruct St; [|discriminate]. cbn [last].
      inversion E; subst. auto.
    + destruct Ht as [|g2 Ht]; [discriminate|]. destruct St as [|t2 St]; [discriminate|].
      rewrite segs_cons2 in Hs. discriminate.
  - cbn [app] in Hs. apply cons_eq_inv in Hs. destruct Hs as [_ Hs].
    apply (IH (g1 :: Ht) (t1 :: St) pre b0 b1 h0 h1 s0 s1); auto.
Qed.

Lemma segs_first_lo Bd Hd Sd sg post : segs Bd Hd Sd = sg :: post -> lo sg = hd 0 Bd.
Proof.
  destruct Bd as [|b0 [|b1 Bt]]; try (destruct Hd, Sd; discriminate).
  destruct Hd as [|h0 [|h1 Ht]]; try discriminate.
  destruct Sd as [|s0 [|s1 St]]; try discriminate.
  rewrite segs_cons2. intros E. apply cons_eq_inv in E. destruct E as [E _]. subst sg. reflexivity.
Qed.

Section Piecewise.
  Variables (Bd : list R) (Hd Sd : list Cx).
  Hypothesis Hi : incr Bd.
  Hypothesis LH : length Hd = length Bd.
  Hypothesis LS : length Sd = length Bd.
  (* a function of B given segment-wise: [piece pre sg] on the closed segment sg (pre = the
     segments before it), [tailf] beyond the last knot *)
  Variables (Phi : R -> R) (piece : list seg -> seg -> R -> R) (dpiece : seg -> R -> R)
            (tailf dtail : R -> R).
  Hypothesis Hclosed : forall pre sg post, segs Bd Hd Sd = pre ++ sg :: post ->
    forall x, lo sg <= x <= hi sg -> Phi x = piece pre sg x.
  Hypothesis Hbeyond : forall x, last Bd 0 < x -> Phi x = tailf x.
  Hypothesis Dpiece : forall pre sg x, lo sg < hi sg -> is_derive (piece pre sg) x (dpiece sg x).
  Hypothesis Dtail : forall x, is_derive tailf x (dtail x).
  Hypothesis Hknot : forall b0 b1 b2 h0 h1 h2 s0 s1 s2, b0 < b1 -> b1 < b2 ->
    dpiece (b0, b1, h0, h1, s0, s1) b1 = dpiece (b1, b2, h1, h2, s1, s2) b1.
  Hypothesis Hlastd : forall pre sg, segs Bd Hd Sd = pre ++ [sg] -> dpiece sg (hi sg) = dtail (hi sg).
  Hypothesis Hlastv : forall pre sg, segs Bd Hd Sd = pre ++ [sg] -> piece pre sg (hi sg) = tailf (hi sg).

  Lemma pw_interior pre sg post B :
    segs Bd Hd Sd = pre ++ sg :: post -> lo sg < B < hi sg -> is_derive Phi B (dpiece sg B).
  Proof.
    intros Hs Hb.
    apply (is_derive_local (piece pre sg) Phi B _ (Rmin (B - lo sg) (hi sg - B))).
    - apply Rmin_pos; lra.
    - intros x Hx. apply (Hclosed pre sg post Hs).
      pose proof (Rmin_l (B - lo sg) (hi sg - B)). pose proof (Rmin_r (B - lo sg) (hi sg - B)). lra.
    - apply Dpiece. lra.
  Qed.

  Lemma pw_right_knot pre sg post :
    segs Bd Hd Sd = pre ++ sg :: post -> is_derive Phi (hi sg) (dpiece sg (hi sg)).
  Proof.
    intros Hs.
    assert (Hin : In sg (segs Bd Hd Sd)) by (rewrite Hs; apply in_elt).
    pose proof (segs_bounds _ _ _ _ Hi Hin) as [_ Hlh].
    destruct post as [|sgR post].
    - (* last knot *)
      destruct sg as [[[[[b0 b1] h0] h1] s0] s1].
      destruct (segs_last_entry Bd Hd Sd pre b0 b1 h0 h1 s0 s1 LH LS Hs) as (E1 & _ & _).
      cbn [lo hi] in *.
      apply (is_derive_paste (piece pre (b0, b1, h0, h1, s0, s1)) tailf Phi b1 _ (b1 - b0)); [lra| | | |].
      + intros x Hx. apply (Hclosed pre _ [] Hs). cbn [lo hi]. lra.
      + intros x Hx. destruct (Req_dec x b1) as [E | E].
        * subst x. rewrite (Hclosed pre _ [] Hs) by (cbn [lo hi]; lra).
          pose proof (Hlastv pre _ Hs) as Hv'. cbn [hi] in Hv'. exact Hv'.
        * apply Hbeyond. rewrite <- E1. lra.
      + apply Dpiece. cbn [lo hi]. lra.
      + pose proof (Hlastd pre _ Hs) as Hd'. cbn [hi] in Hd'. rewrite Hd'. apply Dtail.
    - destruct (segs_adjacent _ _ _ _ _ _ _ Hs) as (b0 & b1 & b2 & h0 & h1 & h2 & s0 & s1 & s2 & EL & ER).
      subst sg sgR. cbn [lo hi] in *.
      assert (HinR : In (b1, b2, h1, h2, s1, s2) (segs Bd Hd Sd)).
      { rewrite Hs. apply in_or_app. right. right. left. reflexivity. }
      pose proof (segs_bounds _ _ _ _ Hi HinR) as [_ HlhR]. cbn [lo hi] in HlhR.
      assert (Hs' : segs Bd Hd Sd = (pre ++ [(b0, b1, h0, h1, s0, s1)]) ++ (b1, b2, h1, h2, s1, s2) :: post)
        by (rewrite <- app_assoc; exact Hs).
      apply (is_derive_paste (piece pre (b0, b1, h0, h1, s0, s1))
                             (piece (pre ++ [(b0, b1, h0, h1, s0, s1)]) (b1, b2, h1, h2, s1, s2))
                             Phi b1 _ (Rmin (b1 - b0) (b2 - b1))).
      + apply Rmin_pos; lra.
      + intros x Hx. apply (Hclosed pre _ _ Hs). cbn [lo hi].
        pose proof (Rmin_l (b1 - b0) (b2 - b1)). lra.
      + intros x Hx. apply (Hclosed _ _ _ Hs'). cbn [lo hi].
        pose proof (Rmin_r (b1 - b0) (b2 - b1)). lra.
      + apply Dpiece. cbn [lo hi]. lra.
      + rewrite (Hknot b0 b1 b2 h0 h1 h2 s0 s1 s2) by lra. apply Dpiece. cbn [lo hi]. lra.
  Qed.

  (* differentiable at every point beyond the first knot, knots included *)
  Lemma pw_is_derive pre sg post B :
    segs Bd Hd Sd = pre ++ sg :: post -> hd 0 Bd < B -> lo sg <= B <= hi sg ->
    is_derive Phi B (dpiece sg B).
  Proof.
    intros Hs H0 Hb.
    destruct (Req_dec B (hi sg)) as [E | E]; [subst B; apply (pw_right_knot pre sg post Hs)|].
    destruct (Req_dec B (lo sg)) as [E' | E']; [|apply (pw_interior pre sg post B Hs); lra].
    destruct pre as [|p pre] using rev_ind.
    - cbn [app] in Hs. rewrite (segs_first_lo _ _ _ _ _ Hs) in E'. lra.
    - clear IHpre. rewrite <- app_assoc in Hs. cbn [app] in Hs.
      destruct (segs_adjacent _ _ _ _ _ _ _ Hs) as (b0 & b1 & b2 & h0 & h1 & h2 & s0 & s1 & s2 & EL & ER).
      subst p sg. cbn [lo hi] in *. subst B.
      assert (HinL : In (b0, b1, h0, h1, s0, s1) (segs Bd Hd Sd)) by (rewrite Hs; apply in_elt).
      pose proof (segs_bounds _ _ _ _ Hi HinL) as [_ HlhL]. cbn [lo hi] in HlhL.
      rewrite <- (Hknot b0 b1 b2 h0 h1 h2 s0 s1 s2) by lra.
      apply (pw_right_knot pre (b0, b1, h0, h1, s0, s1) _ Hs).
  Qed.

  Lemma pw_is_derive_beyond B : last Bd 0 < B -> is_derive Phi B (dtail B).
  Proof.
    intros Hb. apply (is_derive_local tailf Phi B _ (B - last Bd 0)); [lra| |apply Dtail].
    intros x Hx. apply Hbeyond. lra.
  Qed.
End Piecewise.

(* ---- instance 1: H(B) with derivative GetdHdB ------------------------------------------ *)
Definition dherm_at (b : R) (sg : seg) : R := fst (on_seg (dhseg RA b) sg).

Lemma on_seg_hseg_re b sg : fst (on_seg (hseg RA b) sg) = hermite_at b sg.
Proof. destruct sg as [[[[[b0 b1] h0] h1] s0] s1]. cbn [on_seg hermite_at]. apply hseg_re. Qed.

Lemma segs_lo_nonneg (m : mat (F:=R)) sg : incr (mB m) -> 0 <= hd 0 (mB m) ->
  In sg (segs (mB m) (mH m) (mS m)) -> 0 <= lo sg.
Proof. intros Hi H0 Hin. pose proof (segs_bounds _ _ _ _ Hi Hin) as [Hl _]. lra. Qed.

Lemma getH_re_closed (m : mat (F:=R)) pre sg post x :
  incr (mB m) -> 0 <= hd 0 (mB m) -> segs (mB m) (mH m) (mS m) = pre ++ sg :: post ->
  lo sg <= x <= hi sg -> fst (getH RA m x) = hermite_at x sg.
Proof.
  intros Hi H0 Hs Hx.
  assert (Hin : In sg (segs (mB m) (mH m) (mS m))) by (rewrite Hs; apply in_elt).
  pose proof (segs_lo_nonneg m sg Hi H0 Hin) as Hl.
  assert (Ea : Rabs x = x) by (apply Rabs_pos_eq; lra).
  rewrite (getH_on_segment m x pre sg post Hi Hs) by (rewrite Ea; exact Hx).
  rewrite Ea. apply on_seg_hseg_re.
Qed.

Lemma lastB_ge_hd (m : mat (F:=R)) : incr (mB m) -> mB m <> [] -> hd 0 (mB m) <= lastB RA m.
Proof.
  intros Hi Hne. unfold lastB. destruct (mB m) as [|b0 Bt]; [congruence|]. cbn [hd].
  apply incr_head_le_last. exact Hi.
Qed.

Theorem getH_is_derive (m : mat (F:=R)) (B : R) :
  tbl_wf m -> 0 <= hd 0 (mB m) -> hd 0 (mB m) < B ->
  is_derive (fun x => fst (getH RA m x)) B (fst (getdHdB RA m B)).
Proof.
  intros (Hi & LH & LS & Hne) H0 HB.
  pose proof (lastB_ge_hd m Hi Hne) as Hl.
  set (tailf := fun x : R => fst (lastH RA m) + fst (lastS RA m) * (x - lastB RA m)).
  assert (Hbeyond : forall x, last (mB m) 0 < x -> fst (getH RA m x) = tailf x).
  { intros x Hx. unfold lastB in *. ra_simpl.
    assert (Ea : Rabs x = x) by (apply Rabs_pos_eq; lra).
    rewrite (getH_beyond m x Hne) by (unfold lastB; ra_simpl; rewrite Ea; exact Hx).
    cbn [fst]. rewrite Ea. reflexivity. }
  destruct (Rlt_dec (lastB RA m) B) as [Hb | Hb].
  - assert (Ea : Rabs B = B) by (apply Rabs_pos_eq; lra).
    rewrite (getdHdB_beyond m B Hne) by (rewrite Ea; exact Hb).
    apply (pw_is_derive_beyond (mB m) (fun x => fst (getH RA m x)) tailf (fun _ => fst (lastS RA m))).
    + exact Hbeyond.
    + intros x. unfold tailf. auto_derive; auto. ring.
    + exact Hb.
  - destruct (find_seg (mB m) (mH m) (mS m) B Hi LH LS HB ltac:(unfold lastB in Hb; ra_simpl; lra))
      as (pre & sg & post & Hs & Hbs).
    assert (Ea : Rabs B = B) by (apply Rabs_pos_eq; lra).
    rewrite (getdHdB_on_segment m B pre sg post Hi Hs) by (rewrite Ea; lra). rewrite Ea.
    change (fst (on_seg (dhseg RA B) sg)) with (dherm_at B sg).
    apply (pw_is_derive (mB m) (mH m) (mS m) Hi LH LS (fun x => fst (getH RA m x))
             (fun _ sg x => hermite_at x sg) (fun sg x => dherm_at x sg) tailf (fun _ => fst (lastS RA m)))
      with (pre := pre) (post := post); auto; try lra.
    + intros pre' sg' post' Hs' x Hx. apply (getH_re_closed m pre' sg' post' x Hi H0 Hs' Hx).
    + intros _ [[[[[b0 b1] h0] h1] s0] s1] x Hlh. cbn [lo hi] in Hlh. unfold dherm_at. cbn [hermite_at on_seg].
      apply (is_derive_ext (fun x => fst (hseg RA x b0 b1 h0 h1 s0 s1))).
      * intros t. apply hseg_re.
      * apply dhseg_is_derive_re. lra.
    + intros x. unfold tailf. auto_derive; auto. ring.
    + intros b0 b1 b2 h0 h1 h2 s0 s1 s2 H01 H12. unfold dherm_at. cbn [on_seg].
      rewrite dhseg_right, dhseg_left; auto; lra.
    + intros pre' [[[[[b0 b1] h0] h1] s0] s1] Hs'.
      destruct (segs_last_entry _ _ _ _ _ _ _ _ _ _ LH LS Hs') as (E1 & E2 & E3).
      assert (Hin : In (b0, b1, h0, h1, s0, s1) (segs (mB m) (mH m) (mS m))) by (rewrite Hs'; apply in_elt).
      pose proof (segs_bounds _ _ _ _ Hi Hin) as [_ Hlh]. cbn [lo hi] in Hlh.
      unfold dherm_at. cbn [on_seg hi]. rewrite dhseg_right by lra. unfold lastS. rewrite E3. reflexivity.
    + intros pre' [[[[[b0 b1] h0] h1] s0] s1] Hs'.
      destruct (segs_last_entry _ _ _ _ _ _ _ _ _ _ LH LS Hs') as (E1 & E2 & E3).
      assert (Hin : In (b0, b1, h0, h1, s0, s1) (segs (mB m) (mH m) (mS m))) by (rewrite Hs'; apply in_elt).
      pose proof (segs_bounds _ _ _ _ Hi Hin) as [_ Hlh]. cbn [lo hi] in Hlh.
      cbn [hermite_at hi]. rewrite hermite_at_right by lra. unfold tailf, lastH, lastB. ra_simpl.
      rewrite <- E1, <- E2. ring.
Qed.

(* ---- instance 2: energy(B) with derivative H(B) ------------------------------------------ *)
Lemma is_derive_plus_const (c : R) (f : R -> R) (x l : R) :
  is_derive f x l -> is_derive (fun t => c + f t) x l.
Proof.
  intros H. evar_last.
  - apply (is_derive_plus (fun _ : R => c) f x zero l); [apply is_derive_const|exact H].
  - apply plus_zero_l.
Qed.

Lemma esum_app l1 l2 : esum (l1 ++ l2) = esum l1 + esum l2.
Proof. induction l1 as [|a l1 IH]; cbn [app esum]; [ring|rewrite IH; ring]. Qed.

Lemma getEnergy_closed (m : mat (F:=R)) pre sg post x :
  incr (mB m) -> 0 <= hd 0 (mB m) -> segs (mB m) (mH m) (mS m) = pre ++ sg :: post ->
  lo sg <= x <= hi sg -> getEnergy RA m x = esum pre + eseg_at x sg.
Proof.
  intros Hi H0 Hs Hx.
  assert (Hin : In sg (segs (mB m) (mH m) (mS m))) by (rewrite Hs; apply in_elt).
  pose proof (segs_lo_nonneg m sg Hi H0 Hin) as Hl.
  assert (Ea : Rabs x = x) by (apply Rabs_pos_eq; lra).
  rewrite (getEnergy_on_segment m x pre sg post Hi Hs) by (rewrite Ea; exact Hx).
  rewrite Ea. reflexivity.
Qed.

Theorem getEnergy_is_derive (m : mat (F:=R)) (B : R) :
  tbl_wf m -> 0 <= hd 0 (mB m) -> hd 0 (mB m) < B ->
  is_derive (getEnergy RA m) B (fst (getH RA m B)).
Proof.
  intros Hwf H0 HB. pose proof Hwf as (Hi & LH & LS & Hne).
  pose proof (lastB_ge_hd m Hi Hne) as Hl.
  set (tailf := fun x : R => esum (segs (mB m) (mH m) (mS m))
                             + etail x (lastB RA m) (fst (lastH RA m)) (fst (lastS RA m))).
  set (dtail := fun x : R => fst (lastH RA m) + fst (lastS RA m) * (x - lastB RA m)).
  assert (Hbeyond : forall x, last (mB m) 0 < x -> getEnergy RA m x = tailf x).
  { intros x Hx. unfold lastB in *. ra_simpl.
    assert (Ea : Rabs x = x) by (apply Rabs_pos_eq; lra).
    rewrite (getEnergy_beyond m x Hwf) by (unfold lastB; ra_simpl; rewrite Ea; exact Hx).
    rewrite Ea. reflexivity. }
  assert (Dtail : forall x, is_derive tailf x (dtail x)).
  { intros x. unfold tailf, dtail. apply is_derive_plus_const. apply etail_is_derive. }
  assert (Ea : Rabs B = B) by (apply Rabs_pos_eq; lra).
  destruct (Rlt_dec (lastB RA m) B) as [Hb | Hb].
  - rewrite (getH_beyond m B Hne) by (rewrite Ea; exact Hb). cbn [fst]. rewrite Ea.
    apply (pw_is_derive_beyond (mB m) (getEnergy RA m) tailf dtail Hbeyond Dtail B Hb).
  - destruct (find_seg (mB m) (mH m) (mS m) B Hi LH LS HB ltac:(unfold lastB in Hb; ra_simpl; lra))
      as (pre & sg & post & Hs & Hbs).
    rewrite (getH_re_closed m pre sg post B Hi H0 Hs) by lra.
    apply (pw_is_derive (mB m) (mH m) (mS m) Hi LH LS (getEnergy RA m)
             (fun pre sg x => esum pre + eseg_at x sg) (fun sg x => hermite_at x sg) tailf dtail)
      with (pre := pre) (post := post); auto; try lra.
    + intros pre' sg' post' Hs' x Hx. apply (getEnergy_closed m pre' sg' post' x Hi H0 Hs' Hx).
    + intros pre' [[[[[b0 b1] h0] h1] s0] s1] x Hlh. cbn [lo hi] in Hlh. cbn [hermite_at eseg_at].
      apply is_derive_plus_const. apply eseg_is_derive. lra.
    + intros b0 b1 b2 h0 h1 h2 s0 s1 s2 H01 H12. cbn [hermite_at].
      rewrite hermite_at_right, hermite_at_left; auto; lra.
    + intros pre' [[[[[b0 b1] h0] h1] s0] s1] Hs'.
      destruct (segs_last_entry _ _ _ _ _ _ _ _ _ _ LH LS Hs') as (E1 & E2 & E3).
      assert (Hin : In (b0, b1, h0, h1, s0, s1) (segs (mB m) (mH m) (mS m))) by (rewrite Hs'; apply in_elt).
      pose proof (segs_bounds _ _ _ _ Hi Hin) as [_ Hlh]. cbn [lo hi] in Hlh.
      cbn [hermite_at hi]. rewrite hermite_at_right by lra. unfold dtail, lastH, lastB. ra_simpl.
      rewrite <- E1, <- E2. ring.
    + intros pre' [[[[[b0 b1] h0] h1] s0] s1] Hs'.
      destruct (segs_last_entry _ _ _ _ _ _ _ _ _ _ LH LS Hs') as (E1 & E2 & E3).
      assert (Hin : In (b0, b1, h0, h1, s0, s1) (segs (mB m) (mH m) (mS m))) by (rewrite Hs'; apply in_elt).
      pose proof (segs_bounds _ _ _ _ Hi Hin) as [_ Hlh]. cbn [lo hi] in Hlh.
      cbn [eseg_at hi]. rewrite eseg_right by lra. unfold tailf. rewrite Hs', esum_app. cbn [esum efull_seg].
      unfold lastB. ra_simpl. rewrite <- E1. rewrite etail_at_knot. ring.
Qed.

(* ---- H(|B|) is continuous on the whole real line (first knot at 0) ------------------------ *)
Lemma getH_even (m : mat (F:=R)) (x : R) : getH RA m (- x) = getH RA m x.
Proof. unfold getH. ra_simpl. rewrite Rabs_Ropp. reflexivity. Qed.

Lemma segs_head_exists Bd Hd Sd :
  (2 <= length Bd)%nat -> length Hd = length Bd -> length Sd = length Bd ->
  exists sg post, segs Bd Hd Sd = sg :: post.
Proof.
  intros Hlen LH LS.
  destruct Bd as [|b0 [|b1 Bt]]; try (cbn in Hlen; lia).
  destruct Hd as [|h0 [|h1 Ht]]; try discriminate.
  destruct Sd as [|s0 [|s1 St]]; try discriminate.
  rewrite segs_cons2. eauto.
Qed.

Theorem getH_continuous (m : mat (F:=R)) (B : R) :
  tbl_wf m -> (2 <= length (mB m))%nat -> hd 0 (mB m) = 0 ->
  continuous (fun x => fst (getH RA m x)) B.
Proof.
  intros Hwf Hlen H0. pose proof Hwf as (Hi & LH & LS & Hne).
  assert (H0' : 0 <= hd 0 (mB m)) by lra.
  assert (Hpos : forall b, 0 < b -> continuous (fun x => fst (getH RA m x)) b).
  { intros b Hb. apply (ex_derive_continuous (fun x => fst (getH RA m x)) b).
    exists (fst (getdHdB RA m b)). apply getH_is_derive; auto. lra. }
  destruct (Rtotal_order B 0) as [Hneg | [Hz | Hp]]; [| |apply Hpos; exact Hp].
  - apply (continuous_ext (fun x => fst (getH RA m (- x)))).
    { intros x. rewrite getH_even. reflexivity. }
    apply (continuous_comp (fun x : R => - x) (fun y => fst (getH RA m y))).
    + apply (continuous_opp (fun x : R => x)). apply continuous_id.
    + apply Hpos. lra.
  - subst B.
    destruct (segs_head_exists _ _ _ Hlen LH LS) as (sg & post & Hs).
    assert (Hin : In sg (segs (mB m) (mH m) (mS m))) by (rewrite Hs; left; reflexivity).
    pose proof (segs_bounds _ _ _ _ Hi Hin) as [_ Hlh].
    pose proof (segs_first_lo _ _ _ _ _ Hs) as Hlo. rewrite H0 in Hlo.
    apply (continuous_ext_loc _ (fun x => hermite_at (Rabs x) sg)).
    + assert (Hr : 0 < hi sg) by lra.
      exists (mkposreal _ Hr). intros y Hy.
      unfold ball in Hy. cbn in Hy. unfold AbsRing_ball, abs, minus, plus, opp in Hy. cbn in Hy.
      rewrite Ropp_0, Rplus_0_r in Hy.
      rewrite <- (getH_re_closed m [] sg post (Rabs y) Hi H0' Hs).
      * unfold getH. ra_simpl. rewrite Rabs_Rabsolu. reflexivity.
      * rewrite Hlo. split; [apply Rabs_pos|lra].
    + apply (continuous_comp Rabs (fun b => hermite_at b sg)).
      * apply (continuous_abs (K := R_AbsRing)).
      * destruct sg as [[[[[b0 b1] h0] h1] s0] s1]. cbn [lo hi hermite_at] in *.
        apply (ex_derive_continuous (fun b => hermite b b0 b1 (fst h0) (fst h1) (fst s0) (fst s1))).
        exists (fst (dhseg RA (Rabs 0) b0 b1 h0 h1 s0 s1)).
        apply (is_derive_ext (fun x => fst (hseg RA x b0 b1 h0 h1 s0 s1))).
        { intros t. apply hseg_re. }
        apply dhseg_is_derive_re. lra.
Qed.

(* ---- the stored energy is the integral of H dB from the first knot ------------------------ *)
Lemma hermite_at_continuous sg x : lo sg < hi sg -> continuous (fun b => hermite_at b sg) x.
Proof.
  intros Hl. destruct sg as [[[[[b0 b1] h0] h1] s0] s1]. cbn [lo hi hermite_at] in *.
  apply (ex_derive_continuous (fun b => hermite b b0 b1 (fst h0) (fst h1) (fst s0) (fst s1))).
  exists (fst (dhseg RA x b0 b1 h0 h1 s0 s1)).
  apply (is_derive_ext (fun x => fst (hseg RA x b0 b1 h0 h1 s0 s1))).
  { intros t. apply hseg_re. }
  apply dhseg_is_derive_re. lra.
Qed.

Lemma eseg_at_is_derive sg x : lo sg < hi sg -> is_derive (fun b => eseg_at b sg) x (hermite_at x sg).
Proof.
  intros Hl. destruct sg as [[[[[b0 b1] h0] h1] s0] s1]. cbn [lo hi hermite_at eseg_at] in *.
  apply eseg_is_derive. lra.
Qed.

Lemma eseg_at_lo sg : lo sg < hi sg -> eseg_at (lo sg) sg = 0.
Proof.
  intros Hl. destruct sg as [[[[[b0 b1] h0] h1] s0] s1]. cbn [lo hi eseg_at] in *. apply eseg_left. lra.
Qed.

Lemma eseg_at_hi sg : lo sg < hi sg -> eseg_at (hi sg) sg = efull_seg sg.
Proof.
  intros Hl. destruct sg as [[[[[b0 b1] h0] h1] s0] s1]. cbn [lo hi eseg_at efull_seg] in *.
  apply eseg_right. lra.
Qed.

Lemma seg_integral (m : mat (F:=R)) pre sg post B :
  incr (mB m) -> 0 <= hd 0 (mB m) -> segs (mB m) (mH m) (mS m) = pre ++ sg :: post ->
  lo sg <= B <= hi sg ->
  is_RInt (fun x => fst (getH RA m x)) (lo sg) B (eseg_at B sg).
Proof.
  intros Hi H0 Hs Hb.
  assert (Hin : In sg (segs (mB m) (mH m) (mS m))) by (rewrite Hs; apply in_elt).
  pose proof (segs_bounds _ _ _ _ Hi Hin) as [_ Hlh].
  apply (is_RInt_ext (fun x => hermite_at x sg)).
  - intros x Hx. rewrite Rmin_left, Rmax_right in Hx by lra.
    symmetry. apply (getH_re_closed m pre sg post x Hi H0 Hs). lra.
  - replace (eseg_at B sg) with (minus (eseg_at B sg) (eseg_at (lo sg) sg)).
    + apply (is_RInt_derive (fun b => eseg_at b sg) (fun b => hermite_at b sg)).
      * intros x _. apply eseg_at_is_derive. exact Hlh.
      * intros x _. apply hermite_at_continuous. exact Hlh.
    + rewrite eseg_at_lo by exact Hlh. unfold minus, plus, opp. cbn. ring.
Qed.

Lemma prefix_integral (m : mat (F:=R)) :
  incr (mB m) -> 0 <= hd 0 (mB m) ->
  forall pre sg post, segs (mB m) (mH m) (mS m) = pre ++ sg :: post ->
  is_RInt (fun x => fst (getH RA m x)) (hd 0 (mB m)) (lo sg) (esum pre).
Proof.
  intros Hi H0. induction pre as [|p pre IH] using rev_ind; intros sg post Hs.
  - cbn [app] in Hs. rewrite (segs_first_lo _ _ _ _ _ Hs). cbn [esum].
    apply (is_RInt_point (fun x => fst (getH RA m x))).
  - rewrite <- app_assoc in Hs. cbn [app] in Hs.
    destruct (segs_adjacent _ _ _ _ _ _ _ Hs) as (b0 & b1 & b2 & h0 & h1 & h2 & s0 & s1 & s2 & EL & ER).
    assert (HinL : In p (segs (mB m) (mH m) (mS m))) by (rewrite Hs; apply in_elt).
    pose proof (segs_bounds _ _ _ _ Hi HinL) as [_ HlhL].
    specialize (IH p (sg :: post) Hs).
    pose proof (seg_integral m pre p (sg :: post) (hi p) Hi H0 Hs ltac:(lra)) as Hseg.
    rewrite eseg_at_hi in Hseg by exact HlhL.
    rewrite esum_app. cbn [esum].
    replace (lo sg) with (hi p) by (subst p sg; reflexivity).
    replace (esum pre + (efull_seg p + 0)) with (plus (esum pre) (efull_seg p)) by (unfold plus; cbn; ring).
    apply (@is_RInt_Chasles R_NormedModule _ _ (lo p)); assumption.
Qed.

Theorem getEnergy_is_RInt (m : mat (F:=R)) (B : R) :
  tbl_wf m -> (2 <= length (mB m))%nat -> 0 <= hd 0 (mB m) -> hd 0 (mB m) <= B ->
  is_RInt (fun x => fst (getH RA m x)) (hd 0 (mB m)) B (getEnergy RA m B).
Proof.
  intros Hwf Hlen H0 HB. pose proof Hwf as (Hi & LH & LS & Hne).
  pose proof (lastB_ge_hd m Hi Hne) as Hl.
  destruct (Rle_dec B (lastB RA m)) as [Hb | Hb].
  - destruct (Req_dec B (hd 0 (mB m))) as [E | E].
    + subst B. destruct (segs_head_exists _ _ _ Hlen LH LS) as (sg & post & Hs).
      pose proof (segs_first_lo _ _ _ _ _ Hs) as Hlo.
      assert (Hin : In sg (segs (mB m) (mH m) (mS m))) by (rewrite Hs; left; reflexivity).
      pose proof (segs_bounds _ _ _ _ Hi Hin) as [_ Hlh].
      rewrite (getEnergy_closed m [] sg post _ Hi H0 Hs) by lra.
      rewrite <- Hlo, eseg_at_lo by exact Hlh. cbn [esum]. rewrite Rplus_0_l.
      apply (is_RInt_point (fun x => fst (getH RA m x))).
    + destruct (find_seg (mB m) (mH m) (mS m) B Hi LH LS ltac:(lra) ltac:(unfold lastB in Hb; ra_simpl; lra))
        as (pre & sg & post & Hs & Hbs).
      rewrite (getEnergy_closed m pre sg post B Hi H0 Hs) by lra.
      change (esum pre + eseg_at B sg) with (plus (esum pre) (eseg_at B sg)).
      apply (@is_RInt_Chasles R_NormedModule _ _ (lo sg)).
      * apply (prefix_integral m Hi H0 pre sg post Hs).
      * apply (seg_integral m pre sg post B Hi H0 Hs). lra.
  - assert (Hb' : lastB RA m < B) by lra.
    assert (Ea : Rabs B = B) by (apply Rabs_pos_eq; lra).
    rewrite (getEnergy_beyond m B Hwf) by (rewrite Ea; exact Hb'). rewrite Ea.
    destruct (segs_head_exists _ _ _ Hlen LH LS) as (sg0 & post0 & Hs0).
    assert (Hex : exists pre sg, segs (mB m) (mH m) (mS m) = pre ++ [sg]).
    { rewrite Hs0. destruct (exists_last (l := sg0 :: post0) ltac:(discriminate)) as (pre & sg & E).
      exists pre, sg. exact E. }
    destruct Hex as (pre & sg & Hs).
    destruct sg as [[[[[b0 b1] h0] h1] s0] s1].
    destruct (segs_last_entry _ _ _ _ _ _ _ _ _ _ LH LS Hs) as (E1 & E2 & E3).
    assert (Hin : In (b0, b1, h0, h1, s0, s1) (segs (mB m) (mH m) (mS m))) by (rewrite Hs; apply in_elt).
    pose proof (segs_bounds _ _ _ _ Hi Hin) as [_ Hlh]. cbn [lo hi] in Hlh.
    change (esum (segs (mB m) (mH m) (mS m)) + etail B (lastB RA m) (fst (lastH RA m)) (fst (lastS RA m)))
      with (plus (esum (segs (mB m) (mH m) (mS m))) (etail B (lastB RA m) (fst (lastH RA m)) (fst (lastS RA m)))).
    apply (@is_RInt_Chasles R_NormedModule _ _ (lastB RA m)).
    + rewrite Hs. rewrite esum_app. cbn [esum].
      replace (esum pre + (efull_seg (b0, b1, h0, h1, s0, s1) + 0))
        with (plus (esum pre) (efull_seg (b0, b1, h0, h1, s0, s1))) by (unfold plus; cbn; ring).
      apply (@is_RInt_Chasles R_NormedModule _ _ b0).
      * apply (prefix_integral m Hi H0 pre (b0, b1, h0, h1, s0, s1) [] Hs).
      * pose proof (seg_integral m pre (b0, b1, h0, h1, s0, s1) [] b1 Hi H0 Hs ltac:(cbn [lo hi]; lra)) as Hseg.
        pose proof (eseg_at_hi (b0, b1, h0, h1, s0, s1) ltac:(cbn [lo hi]; lra)) as Eh. cbn [hi] in Eh.
        rewrite Eh in Hseg.
        cbn [lo] in Hseg. unfold lastB. ra_simpl. rewrite <- E1. exact Hseg.
    + apply (is_RInt_ext (fun x => fst (lastH RA m) + fst (lastS RA m) * (x - lastB RA m))).
      * intros x Hx. rewrite Rmin_left, Rmax_right in Hx by lra.
        assert (Eax : Rabs x = x) by (apply Rabs_pos_eq; lra).
        rewrite (getH_beyond m x Hne) by (rewrite Eax; lra). cbn [fst]. rewrite Eax. reflexivity.
      * replace (etail B (lastB RA m) (fst (lastH RA m)) (fst (lastS RA m)))
          with (minus (etail B (lastB RA m) (fst (lastH RA m)) (fst (lastS RA m)))
                      (etail (lastB RA m) (lastB RA m) (fst (lastH RA m)) (fst (lastS RA m)))).
        -- apply (is_RInt_derive (fun x => etail x (lastB RA m) (fst (lastH RA m)) (fst (lastS RA m)))
                                 (fun x => fst (lastH RA m) + fst (lastS RA m) * (x - lastB RA m))).
           ++ intros x _. apply etail_is_derive.
           ++ intros x _.
              apply (ex_derive_continuous (fun x => fst (lastH RA m) + fst (lastS RA m) * (x - lastB RA m))).
              auto_derive. auto.
        -- rewrite etail_at_knot. unfold minus, plus, opp. cbn. ring.
Qed.

(* ====================================================================================== *)
(* 11. GetSlopes on a straight-line table: the slopes are the slope of the line, no repair   *)
(* ====================================================================================== *)
Lemma line_H_nth (k : Cx) Bd i : (i < length Bd)%nat ->
  nth i (line_H k Bd) (czero RA) = (nth i Bd 0 * fst k, nth i Bd 0 * snd k).
Proof.
  intros Hi. unfold line_H.
  rewrite (nth_indep _ (czero RA) ((fun b => (b * fst k, b * snd k)) 0)) by (rewrite map_length; exact Hi).
  apply (map_nth (fun b => (b * fst k, b * snd k))).
Qed.

Lemma line_S_repeat (k : Cx) Bd : line_S k Bd = repeat k (length Bd).
Proof. unfold line_S. induction Bd as [|b Bd IH]; [reflexivity|]. cbn [map length repeat]. rewrite IH. reflexivity. Qed.

Lemma incr_nth_lt : forall Bd i, incr Bd -> (S i < length Bd)%nat -> nth i Bd 0 < nth (S i) Bd 0.
Proof.
  induction Bd as [|b0 Bt IH]; intros i Hi Hl; [cbn in Hl; lia|].
  destruct Bt as [|b1 Bt]; [cbn in Hl; lia|]. destruct Hi as [Hlt Hi].
  destruct i as [|i]; [cbn; exact Hlt|].
  change (nth (S i) (b0 :: b1 :: Bt) 0) with (nth i (b1 :: Bt) 0).
  change (nth (S (S i)) (b0 :: b1 :: Bt) 0) with (nth (S i) (b1 :: Bt) 0).
  apply IH; [exact Hi|cbn in *; lia].
Qed.

Lemma line_curve_ok_c (k : Cx) : forall Bd, incr Bd ->
  curve_bad RA Bd (line_H k Bd) (line_S k Bd) = false.
Proof.
  induction Bd as [|b0 Bt IH]; intros Hi; [reflexivity|].
  destruct Bt as [|b1 Bt]; [reflexivity|].
  unfold line_H, line_S in *. cbn [map]. rewrite curve_bad_cons2. destruct Hi as [Hlt Hi].
  cbn [fst snd]. rewrite line_seg_ok by lra. cbn [orb]. apply IH. exact Hi.
Qed.

Theorem get_slopes_line_table fuel lam0 lamfill muo (k : Cx) (Bd : list R) :
  no_mixing lam0 lamfill false -> incr Bd -> (2 <= length Bd)%nat ->
  fst (gauss_solve RA (fst (spline_system RA Bd (line_H k Bd)))
                      (snd (spline_system RA Bd (line_H k Bd)))) = true ->
  get_slopes RA (S fuel) lam0 lamfill muo Bd (line_H k Bd)
  = mkSR Bd (line_H k Bd) (line_S k Bd) 0 true true.
Proof.
  intros Hnm Hi Hlen Hok. unfold get_slopes. cbn [slopes_loop].
  destruct (spline_system RA Bd (line_H k Bd)) as [M rhs] eqn:Es. cbn [fst snd] in Hok.
  destruct (gauss_solve RA M rhs) as [gok Sd] eqn:Eg. cbn [fst] in Hok. subst gok.
  assert (ES : Sd = line_S k Bd).
  { rewrite line_S_repeat.
    apply (line_table_slopes Bd (line_H k Bd) Sd k Hlen).
    - intros i Hi'. pose proof (incr_nth_lt Bd i Hi Hi'). lra.
    - intros i Hi'. apply line_H_nth. exact Hi'.
    - rewrite Es. cbn [fst snd]. exact Eg. }
  subst Sd. rewrite line_curve_ok_c by exact Hi.
  rewrite (no_mixing_cond _ _ _ Hnm). reflexivity.
Qed.

(* ====================================================================================== *)
(* 12. GetSlopes(0) WITH the fill-factor mixing of lines 324-338 (LamType 0, LamFill < 1)   *)
(* ====================================================================================== *)
Lemma lam_point_real (f muo b hr : R) : 0 < f < 1 -> 0 < muo -> 0 < b -> 0 < hr ->
  lam_point RA f muo (b, (hr, 0)) = (f * b + (1 - f) * muo * hr, (hr, 0)).
Proof.
  intros Hf Hm Hb Hh. unfold lam_point, ddivc, caddd, cinv, cmul, cabs. cbn [fst snd]. ra_simpl.
  assert (E1 : Rltb (Rabs 0) (Rabs hr) = true).
  { apply Rltb_true. rewrite Rabs_R0. apply Rabs_pos_lt. lra. }
  rewrite E1. cbn [fst snd].
  set (mu := 1 / (hr * (1 + 0 / hr * (0 / hr))) * (f * b) + (1 - f) * muo).
  assert (Emu : mu = f * b / hr + (1 - f) * muo) by (unfold mu; field; lra).
  assert (Hmu : 0 < mu).
  { rewrite Emu. assert (0 < f * b / hr) by (apply Rdiv_lt_0_compat; nra).
    assert (0 < (1 - f) * muo) by nra. lra. }
  set (im := - (0 / hr) * (1 / (hr * (1 + 0 / hr * (0 / hr)))) * (f * b)).
  assert (Eim : im = 0) by (unfold im; field; lra).
  rewrite Eim. 
  replace (mu * hr - 0 * 0) with (mu * hr) by ring.
  replace (mu * 0 + 0 * hr) with 0 by ring.
  assert (Hp : 0 < mu * hr) by nra.
  assert (E2 : Reqb (mu * hr) 0 = false) by (apply Reqb_false; lra).
  rewrite E2. cbn [andb].
  assert (E3 : Rltb (Rabs 0) (Rabs (mu * hr)) = true).
  { apply Rltb_true. rewrite Rabs_R0. apply Rabs_pos_lt. lra. }
  rewrite E3.
  assert (Eb : Rabs (mu * hr) * sqrt (1 + 0 / (mu * hr) * (0 / (mu * hr))) = mu * hr).
  { replace (1 + 0 / (mu * hr) * (0 / (mu * hr))) with 1 by (field; lra).
    rewrite sqrt_1, Rabs_pos_eq by lra. ring. }
  rewrite Eb.
  assert (E4 : Rltb (Rabs 0) (Rabs mu) = true).
  { apply Rltb_true. rewrite Rabs_R0. apply Rabs_pos_lt. lra. }
  rewrite E4. cbn [fst snd].
  f_equal; [rewrite Emu; field; lra|]. f_equal; field; lra.
Qed.

Definition mixg (f muo : R) (bh : R * Cx) : R := f * fst bh + (1 - f) * muo * fst (snd bh).

Lemma lam_map_real (f muo : R) : 0 < f < 1 -> 0 < muo ->
  forall (Bt : list R) (Ht : list Cx), length Ht = length Bt ->
  List.Forall (fun b => 0 < b) Bt -> List.Forall (fun h : Cx => snd h = 0 /\ 0 < fst h) Ht ->
  map fst (map (lam_point RA f muo) (combine Bt Ht)) = map (mixg f muo) (combine Bt Ht) /\
  map snd (map (lam_point RA f muo) (combine Bt Ht)) = Ht.
Proof.
  intros Hf Hm. induction Bt as [|b Bt IH]; intros Ht HL HB HH.
  - destruct Ht; [|discriminate]. split; reflexivity.
  - destruct Ht as [|[hr hi] Ht]; [discriminate|]. inversion HB; subst. inversion HH; subst.
    cbn [fst snd] in *. destruct H3 as [Ei Hr]. subst hi.
    destruct (IH Ht ltac:(cbn in HL; lia) H2 H4) as [I1 I2].
    cbn [combine map]. rewrite (lam_point_real f muo b hr Hf Hm H1 Hr). cbn [fst snd].
    rewrite I1, I2. split; reflexivity.
Qed.

Lemma mix_incr (f muo : R) : 0 < f < 1 -> 0 < muo ->
  forall (Bt : list R) (Ht : list Cx), length Ht = length Bt ->
  incr Bt -> nondecr (map fst Ht) -> incr (map (mixg f muo) (combine Bt Ht)).
Proof.
  intros Hf Hm. induction Bt as [|b0 Bt IH]; intros Ht HL Hi Hn; [exact I|].
  destruct Ht as [|h0 Ht]; [discriminate|].
  destruct Bt as [|b1 Bt]; [destruct Ht; exact I|].
  destruct Ht as [|h1 Ht]; [discriminate|].
  destruct Hi as [Hlt Hi]. cbn [map] in Hn. destruct Hn as [Hh Hn].
  cbn [combine map]. split.
  - unfold mixg. cbn [fst snd]. assert (0 <= (1 - f) * muo) by nra. nra.
  - apply (IH (h1 :: Ht)); auto.
Qed.

Lemma incr_all_gt : forall Bt b0, incr (b0 :: Bt) -> List.Forall (fun b => b0 < b) Bt.
Proof.
  induction Bt as [|b1 Bt IH]; intros b0 Hi; [constructor|].
  destruct Hi as [Hlt Hi]. constructor; [exact Hlt|].
  specialize (IH b1 Hi). eapply Forall_impl; [|exact IH]. intros a Ha. cbn in Ha. lra.
Qed.

Lemma nondecr_all_ge : forall Ht h0, nondecr (h0 :: Ht) -> List.Forall (fun h => h0 <= h) Ht.
Proof.
  induction Ht as [|h1 Ht IH]; intros h0 Hi; [constructor|].
  destruct Hi as [Hlt Hi]. constructor; [exact Hlt|].
  specialize (IH h1 Hi). eapply Forall_impl; [|exact IH]. intros a Ha. cbn in Ha. lra.
Qed.

(* the state of the table while the repair loop runs, before the mixing *)
Definition mix_inv (Bd : list R) (Hd : list Cx) : Prop :=
  incr Bd /\ hd 0 Bd = 0 /\ length Hd = length Bd /\ (2 <= length Bd)%nat /\
  List.Forall (fun h : Cx => snd h = 0) Hd /\ nondecr (map fst Hd) /\
  0 <= fst (hd (czero RA) Hd) /\ 0 < fst (nth 1 Hd (czero RA)).

Lemma smooth3_im0 : forall (l : list Cx) p, snd p = 0 -> List.Forall (fun h : Cx => snd h = 0) l ->
  List.Forall (fun h : Cx => snd h = 0) (smooth3 (avgC RA) p l).
Proof.
  induction l as [|x l IH]; intros p Hp Hl; [constructor|].
  destruct l as [|y t]; [exact Hl|]. rewrite smooth3_cons2.
  inversion Hl as [|a1 l1 Hx Hl1]; subst. inversion Hl1 as [|a2 l2 Hy Hl2]; subst.
  constructor.
  - destruct p, x, y. cbn [snd] in *. subst. unfold avgC, cdivd, cadd. cbn [fst snd]. ra_simpl. field.
  - apply IH; assumption.
Qed.

Lemma smooth_im0 (l : list Cx) : List.Forall (fun h : Cx => snd h = 0) l ->
  List.Forall (fun h : Cx => snd h = 0) (smooth (avgC RA) l).
Proof.
  destruct l as [|x l]; [constructor|]. intros Hl. inversion Hl; subst. cbn [smooth].
  constructor; [assumption|]. apply smooth3_im0; assumption.
Qed.

Lemma mix_inv_smooth Bd Hd : mix_inv Bd Hd -> mix_inv (smooth (avgF RA) Bd) (smooth (avgC RA) Hd).
Proof.
  intros (Hi & H0 & LH & Hlen & Him & Hn & Hh0 & Hh1).
  destruct (smooth_hd_last (avgF RA) 0 Bd) as [E1 _].
  split; [apply smooth_incr; exact Hi|]. split; [rewrite E1; exact H0|].
  split; [rewrite !smooth_length; exact LH|]. split; [rewrite smooth_length; exact Hlen|].
  split; [apply smooth_im0; exact Him|]. split; [rewrite smooth_fst; apply smooth_nondecr; exact Hn|].
  destruct Hd as [|h0 [|h1 Ht]]; try (cbn in LH; lia).
  cbn [smooth hd]. split; [exact Hh0|].
  destruct Ht as [|h2 Ht].
  - cbn. exact Hh1.
  - rewrite smooth3_cons2. cbn [nth hd map fst] in *. destruct Hn as [N0 [N1 _]].
    unfold avgC, cdivd, cadd. cbn [fst snd]. ra_simpl. lra.
Qed.

Lemma slopes_loop_mixing : forall fuel lamfill muo Bd Hd passes,
  0 < lamfill < 1 -> 0 < muo -> mix_inv Bd Hd ->
  let r := slopes_loop RA fuel true lamfill muo false Bd Hd passes in
  rdone r = true ->
  incr (rB r) /\ length (rH r) = length (rB r) /\ length (rS r) = length (rB r) /\
  (2 <= length (rB r))%nat /\
  nondecr (map fst (rH r)) /\ curve_bad RA (rB r) (rH r) (rS r) = false /\ hd 0 (rB r) = 0.
Proof.
  induction fuel as [|fuel IH]; intros lamfill muo Bd Hd passes Hf Hm Hinv r Hdone.
  { cbn in Hdone. discriminate. }
  subst r. cbn [slopes_loop] in *.
  destruct (spline_system RA Bd Hd) as [M rhs].
  destruct (gauss_solve RA M rhs) as [gok Sd].
  destruct (curve_bad RA Bd Hd Sd) eqn:Ec.
  - apply (IH lamfill muo _ _ (S passes) Hf Hm (mix_inv_smooth Bd Hd Hinv) Hdone).
  - assert (Ea : aneb RA lamfill (aone RA) = true).
    { unfold aneb. ra_simpl. assert (E : Reqb lamfill 1 = false) by (apply Reqb_false; lra).
      rewrite E. reflexivity. }
    rewrite Ea in *. cbn [negb andb] in *.
    destruct Hinv as (Hi & H0 & LH & Hlen & Him & Hn & Hh0 & Hh1).
    destruct Bd as [|b0 Bt]; [cbn in Hlen; lia|]. destruct Hd as [|h0 Ht]; [discriminate|].
    cbn [hd] in H0, Hh0. subst b0.
    assert (LT : length Ht = length Bt) by (cbn in LH; lia).
    assert (PB : List.Forall (fun b => 0 < b) Bt) by (apply incr_all_gt; exact Hi).
    assert (PH : List.Forall (fun h : Cx => snd h = 0 /\ 0 < fst h) Ht).
    { inversion Him as [|a l Hi0 Himt]; subst.
      destruct Ht as [|h1 Ht]; [constructor|]. cbn [nth] in Hh1. cbn [map] in Hn. destruct Hn as [N0 Hn].
      pose proof (nondecr_all_ge _ _ Hn) as Hge.
      inversion Himt as [|a1 l1 Hi1 Himt1]; subst.
      constructor; [split; assumption|].
      clear - Hge Himt1 Hh1. induction Ht as [|h2 Ht IHt]; [constructor|].
      cbn [map] in Hge. inversion Hge; subst. inversion Himt1; subst.
      constructor; [split; [assumption|lra]|]. apply IHt; assumption. }
    destruct (lam_map_real lamfill muo Hf Hm Bt Ht LT PB PH) as [E1 E2].
    unfold lam_fix in Hdone |- *. rewrite E1, E2 in *.
    set (Bd' := 0 :: map (mixg lamfill muo) (combine Bt Ht)) in *.
    assert (LB' : length Bd' = length (0 :: Bt)).
    { unfold Bd'. cbn [length]. rewrite map_length, combine_length. lia. }
    assert (Hi' : incr Bd').
    { unfold Bd'. destruct Bt as [|b1 Bt]; [cbn in Hlen; lia|]. destruct Ht as [|h1 Ht]; [discriminate|].
      apply incr_cons; [cbn; discriminate| |].
      - cbn [combine map hd]. unfold mixg. cbn [fst snd].
        inversion PB; subst. inversion PH as [|a l [_ Hp1] _]; subst.
        assert (0 < (1 - lamfill) * muo * fst h1) by (apply Rmult_lt_0_compat; nra). nra.
      - apply mix_incr; auto. { destruct Hi; assumption. }
        cbn [map] in Hn. destruct Hn; assumption. }
    pose proof (slopes_loop_invariant fuel true lamfill muo true Bd' (h0 :: Ht) passes
                  (or_intror (or_intror eq_refl)) Hi' ltac:(rewrite LB'; exact LH) Hn Hdone)
      as (I1 & I2 & I3 & I4 & I5 & I6 & I7 & I8).
    split; [exact I1|]. split; [congruence|]. split; [congruence|].
    split; [rewrite I2, LB'; exact Hlen|]. split; [exact I5|]. split; [exact I6|].
    rewrite I7. reflexivity.
Qed.

(* H(|B|) of the material GetSlopes(0) builds from a monotone real table starting at the origin,
   fill-factor mixing included, is non-decreasing *)
Theorem get_slopes_monotone_mixing fuel lamfill muo mux Bd Hd :
  0 < lamfill < 1 -> 0 < muo -> mix_inv Bd Hd ->
  let r := get_slopes RA fuel true lamfill muo Bd Hd in
  rdone r = true ->
  let m := mkMat (rB r) (rH r) (rS r) mux muo in
  forall x y, Rabs x <= Rabs y -> fst (getH RA m x) <= fst (getH RA m y).
Proof.
  intros Hf Hm Hinv r Hdone m. subst m r. unfold get_slopes in *.
  destruct (slopes_loop_mixing fuel lamfill muo Bd Hd 0 Hf Hm Hinv Hdone)
    as (I1 & I3 & I4 & I2 & I5 & I6 & I7).
  set (r := slopes_loop RA fuel true lamfill muo false Bd Hd 0) in *.
  intros x y Hxy.
  set (m := mkMat (rB r) (rH r) (rS r) mux muo).
  assert (Hwf : tbl_wf m).
  { unfold tbl_wf, m. cbn [mB mH mS]. split; [exact I1|]. split; [exact I3|]. split; [exact I4|].
    intros E. rewrite E in I2. cbn in I2. lia. }
  apply (getH_monotone m Hwf); unfold m; cbn [mB mH mS]; auto.
  - unfold lastS. cbn [mS]. apply (curve_ok_last_slope (rB r) (rH r) (rS r)); auto.
  - rewrite I7. apply Rabs_pos.
Qed.
